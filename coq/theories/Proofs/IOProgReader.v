(* C17: every transcribed entry point of the reader (Model/IOProgReader.v) lies in the strict fragment, hence
   truncation / failing I/O can only turn its answer into an error (Proofs/IOProg.v strict_refines). *)
From HV Require Import Base.Prelude Base.Outcome Base.Bytes Model.IOProg Proofs.IOProg Model.IOProgReader.
From HV Require Import Model.CodecSuper Model.CodecOhdr Model.CodecMsg Model.CodecType Model.CodecAttr Model.CodecFilter.

(* ------------------------------------------------------------------ tactic: walk a program whose shape depends on data *)

Ltac strict_step :=
  match goal with
  | |- strict (Ret _) => apply st_ret
  | |- strict Fail => apply st_fail
  | |- strict Crash => apply st_crash
  | |- strict (lift _) => apply strict_lift
  | |- strict (ReadAt _ _ _) => apply st_read; intros
  | |- strict (bind _ _) => apply strict_bind; [ | intros ]
  | |- strict (if ?c then _ else _) => destruct c
  | |- strict (match ?x with _ => _ end) => destruct x
  | |- strict (let _ := _ in _) => cbv zeta
  | |- strict ((fun _ => _) _) => cbv beta
  end.
Ltac strict_auto := repeat (strict_step; try assumption; auto).

(* ------------------------------------------------------------------ two buffers that agree on a prefix *)

Lemma nth_error_firstn_lt {A} (l : list A) m i : (i < m)%nat -> nth_error (firstn m l) i = nth_error l i.
Proof.
  revert l i. induction m; intros l i H; [blia|].
  destruct l; [reflexivity|]. destruct i; [reflexivity|]. cbn [firstn nth_error]. apply IHm. blia.
Qed.

Lemma firstn_agree (b b' : bytes) (m : N) (Hlen : blen b' = blen b)
  (Hag : firstn (N.to_nat m) b' = firstn (N.to_nat m) b) e : e <= m -> firstn (N.to_nat e) b' = firstn (N.to_nat e) b.
Proof.
  intros H.
  replace (N.to_nat e) with (Nat.min (N.to_nat e) (N.to_nat m)) by blia.
  rewrite <- !firstn_firstn. now rewrite Hag.
Qed.

Lemma slice_agree (b b' : bytes) (m : N) (Hlen : blen b' = blen b)
  (Hag : firstn (N.to_nat m) b' = firstn (N.to_nat m) b) a e : e <= m -> slice b' a e = slice b a e.
Proof.
  intros H. unfold slice. rewrite Hlen.
  destruct ((a <=? e) && (e <=? blen b)) eqn:C; [|reflexivity].
  apply andb_true_iff in C. destruct C as [C1 C2]. apply N.leb_le in C1.
  f_equal. rewrite !firstn_skipn_comm.
  replace (N.to_nat a + N.to_nat (e - a))%nat with (N.to_nat e) by blia.
  now rewrite (firstn_agree b b' m Hlen Hag e H).
Qed.

Lemma index_agree (b b' : bytes) (m : N) (Hlen : blen b' = blen b)
  (Hag : firstn (N.to_nat m) b' = firstn (N.to_nat m) b) i : i < m -> index b' i = index b i.
Proof.
  intros H. unfold index.
  rewrite <- (nth_error_firstn_lt b' (N.to_nat m)) by blia.
  rewrite <- (nth_error_firstn_lt b (N.to_nat m)) by blia.
  now rewrite Hag.
Qed.

Lemma rd_le_agree (b b' : bytes) (m : N) (Hlen : blen b' = blen b)
  (Hag : firstn (N.to_nat m) b' = firstn (N.to_nat m) b) off k : off + k <= m -> rd_le b' off k = rd_le b off k.
Proof. intros H. unfold rd_le. now rewrite (slice_agree b b' m Hlen Hag). Qed.
Lemma rd_be_agree (b b' : bytes) (m : N) (Hlen : blen b' = blen b)
  (Hag : firstn (N.to_nat m) b' = firstn (N.to_nat m) b) off k : off + k <= m -> rd_be b' off k = rd_be b off k.
Proof. intros H. unfold rd_be. now rewrite (slice_agree b b' m Hlen Hag). Qed.
Lemma rd_end_agree (b b' : bytes) (m : N) (Hlen : blen b' = blen b)
  (Hag : firstn (N.to_nat m) b' = firstn (N.to_nat m) b) off k e : off + k <= m -> rd_end b' off k e = rd_end b off k e.
Proof. intros H. unfold rd_end. destruct e; [now apply (rd_be_agree b b' m) | now apply (rd_le_agree b b' m)]. Qed.

Lemma read_value_agree (b b' : bytes) (m : N) (Hlen : blen b' = blen b)
  (Hag : firstn (N.to_nat m) b' = firstn (N.to_nat m) b) off size e :
  off + size <= m -> read_value b' off size e = read_value b off size e.
Proof.
  intros H. unfold read_value. rewrite Hlen.
  destruct (blen b <? off + size); [reflexivity|].
  destruct (valid_size size); [|reflexivity].
  destruct e; [now apply (rd_be_agree b b' m) | now apply (rd_le_agree b b' m)].
Qed.

(* a decoder of a short-read buffer: with fewer bytes it answers the same or fails *)
Definition dec_safe {A} (len : N) (dec : bytes -> N -> outcome A) : Prop :=
  forall b b' g g', g' <= g -> g <= len -> blen b = len -> blen b' = len ->
    firstn (N.to_nat g') b' = firstn (N.to_nat g') b ->
    dec b' g' = dec b g \/ dec b' g' = Err.

Lemma short_safe_lift A len (dec : bytes -> N -> outcome A) :
  dec_safe len dec -> short_safe len (fun b g => lift (dec b g)).
Proof.
  intros H b b' g g' H1 H2 L1 L2 H3. destruct (H b b' g g' H1 H2 L1 L2 H3) as [E|E]; rewrite E; [left|right]; reflexivity.
Qed.
Lemma short_safe_lift_bind A B len (dec : bytes -> N -> outcome A) (k : A -> prog B) :
  dec_safe len dec -> short_safe len (fun b g => bind (lift (dec b g)) k).
Proof.
  intros H b b' g g' H1 H2 L1 L2 H3. destruct (H b b' g g' H1 H2 L1 L2 H3) as [E|E]; rewrite E; [left|right]; reflexivity.
Qed.

Lemma valid_size_le8 s : valid_size s = true -> s <= 8.
Proof.
  unfold valid_size. intros H. repeat (apply orb_true_iff in H; destruct H as [H|H]); apply N.eqb_eq in H; blia.
Qed.

(* ------------------------------------------------------------------ ReadSuperblock *)

Lemma dec_sb_buf_safe : dec_safe 128 dec_sb_buf.
Proof.
  intros b b' g g' H1 H2 L1 L2 H3.
  assert (Hlen : blen b' = blen b) by congruence.
  unfold dec_sb_buf.
  destruct (g' <? 48) eqn:E48'; [right; reflexivity|].
  apply N.ltb_ge in E48'.
  replace (g <? 48) with false by (symmetry; apply N.ltb_ge; blia).
  rewrite (slice_agree b b' g' Hlen H3 0 8) by blia.
  destruct (slice b 0 8) as [sig| |]; cbn [obind]; [|left; reflexivity|left; reflexivity].
  destruct (negb (bytes_eqb sig signature)); [left; reflexivity|].
  rewrite (index_agree b b' g' Hlen H3 8) by blia.
  destruct (index b 8) as [version| |]; cbn [obind]; [|left; reflexivity|left; reflexivity].
  destruct (negb ((version =? 0) || (version =? 2) || (version =? 3))); [left; reflexivity|].
  destruct (version =? 0) eqn:Ev; cbn [andb].
  - (* version 0: bytes up to 96 are decoded *)
    destruct (g' <? 96) eqn:E96'; [right; reflexivity|].
    apply N.ltb_ge in E96'.
    replace (g <? 96) with false by (symmetry; apply N.ltb_ge; blia).
    rewrite (index_agree b b' g' Hlen H3 13) by blia.
    destruct (index b 13) as [o1| |]; cbn [obind]; [|left; reflexivity|left; reflexivity].
    rewrite (index_agree b b' g' Hlen H3 14) by blia.
    destruct (index b 14) as [l1| |]; cbn [obind]; [|left; reflexivity|left; reflexivity].
    set (os := if o1 =? 0 then 8 else o1). set (ls := if l1 =? 0 then 8 else l1).
    destruct (valid_size os && valid_size ls) eqn:Ev2; cbn [negb]; [|left; reflexivity].
    apply andb_true_iff in Ev2. destruct Ev2 as [Vo _]. apply valid_size_le8 in Vo.
    rewrite (read_value_agree b b' g' Hlen H3 (24 + 4 * os + os) os false) by blia.
    destruct (read_value b (24 + 4 * os + os) os false); cbn [obind]; [|left; reflexivity|left; reflexivity].
    rewrite (read_value_agree b b' g' Hlen H3 (24 + 4 * os + 2 * os + 8) os false) by blia.
    destruct (read_value b (24 + 4 * os + 2 * os + 8) os false); cbn [obind]; [|left; reflexivity|left; reflexivity].
    rewrite (read_value_agree b b' g' Hlen H3 (24 + 4 * os + 2 * os + 8 + os) os false) by blia.
    left; reflexivity.
  - (* versions 2 and 3: bytes up to 12 + 4*8 = 44 are decoded *)
    rewrite (index_agree b b' g' Hlen H3 9) by blia.
    destruct (index b 9) as [b9| |]; cbn [obind]; [|left; reflexivity|left; reflexivity].
    rewrite (index_agree b b' g' Hlen H3 10) by blia.
    destruct (index b 10) as [sz| |]; cbn [obind]; [|left; reflexivity|left; reflexivity].
    match goal with |- context [obind ?X _] => destruct X as [[[be1 o1] l1]| |] end; cbn [obind]; [|left; reflexivity|left; reflexivity].
    set (os := if o1 =? 0 then 8 else o1). set (ls := if l1 =? 0 then 8 else l1).
    destruct (valid_size os && valid_size ls) eqn:Ev2; cbn [negb]; [|left; reflexivity].
    apply andb_true_iff in Ev2. destruct Ev2 as [Vo _]. apply valid_size_le8 in Vo.
    rewrite (read_value_agree b b' g' Hlen H3 12 os be1) by blia.
    destruct (read_value b 12 os be1); cbn [obind]; [|left; reflexivity|left; reflexivity].
    rewrite (read_value_agree b b' g' Hlen H3 (12 + os) os be1) by blia.
    destruct (read_value b (12 + os) os be1); cbn [obind]; [|left; reflexivity|left; reflexivity].
    rewrite (read_value_agree b b' g' Hlen H3 (12 + 3 * os) os be1) by blia.
    left; reflexivity.
Qed.

Theorem p_superblock_strict : strict p_superblock.
Proof.
  apply st_short.
  - intros b g. apply strict_lift.
  - apply short_safe_lift. exact dec_sb_buf_safe.
Qed.

(* the transcription is the decoder model of C11 applied to the buffer *)
Lemma dec_superblock_is_dec_sb_buf file :
  dec_superblock file =
  dec_sb_buf (firstn 128 file ++ zeros (N.to_nat (128 - N.min (blen file) 128))) (N.min (blen file) 128).
Proof. reflexivity. Qed.

(* ------------------------------------------------------------------ helpers *)

Lemma p_read_bytes_at_strict off size : strict (p_read_bytes_at off size).
Proof. unfold p_read_bytes_at. strict_auto. Qed.
#[export] Hint Resolve p_read_bytes_at_strict : core.

Section WithSuperblock.
Variable sb : superblock'.
(* the superblock is one that ReadSuperblock returns: its length size passed the size validation (superblock.go:131) *)
Hypothesis Hl : valid_size (spp_lensize sb) = true.

(* ------------------------------------------------------------------ object headers *)

Lemma p_v1_block_strict fuel : forall cur end_ count max, strict (p_v1_block sb fuel cur end_ count max).
Proof.
  induction fuel; intros; cbn [p_v1_block]; [constructor|]. strict_auto.
Qed.
Hint Resolve p_v1_block_strict : core.

Lemma p_v1_conts_strict fuel fuelb : forall visited queue msgs name,
  strict (p_v1_conts sb fuel fuelb visited queue msgs name).
Proof.
  induction fuel; intros; cbn [p_v1_conts]; [constructor|]. strict_auto.
Qed.
Hint Resolve p_v1_conts_strict : core.

Lemma p_v1_header_strict fuel addr : strict (p_v1_header sb fuel addr).
Proof. unfold p_v1_header. strict_auto. Qed.
Hint Resolve p_v1_header_strict : core.

Lemma p_v2_loop_strict fuel : forall isBE hdr cur end_ isCont visited pending acc,
  strict (p_v2_loop sb fuel isBE hdr cur end_ isCont visited pending acc).
Proof.
  induction fuel; intros; cbn [p_v2_loop]; [constructor|]. strict_auto.
Qed.
Hint Resolve p_v2_loop_strict : core.

Lemma p_v2_header_strict fuel addr flags isBE : strict (p_v2_header sb fuel addr flags isBE).
Proof. unfold p_v2_header. strict_auto. Qed.
Hint Resolve p_v2_header_strict : core.

Theorem p_ohdr_strict fuel addr : strict (p_ohdr sb fuel addr).
Proof. unfold p_ohdr. strict_auto. Qed.
Hint Resolve p_ohdr_strict : core.

(* ------------------------------------------------------------------ dense attribute storage: the four tolerant reads *)

Lemma dec_bt2hdr_safe : dec_safe 38 (dec_bt2hdr sb).
Proof.
  intros b b' g g' H1 H2 L1 L2 H3.
  assert (Hlen : blen b' = blen b) by congruence.
  unfold dec_bt2hdr.
  destruct (g' <? 16 + spp_offsize sb + 2 + 8) eqn:E'; [right; reflexivity|].
  apply N.ltb_ge in E'.
  replace (g <? 16 + spp_offsize sb + 2 + 8) with false by (symmetry; apply N.ltb_ge; blia).
  rewrite (slice_agree b b' g' Hlen H3 0 4) by blia.
  rewrite (slice_agree b b' g' Hlen H3 16 (16 + spp_offsize sb)) by blia.
  rewrite (rd_end_agree b b' g' Hlen H3 (16 + spp_offsize sb) 2) by blia.
  left; reflexivity.
Qed.

Lemma p_bt2hdr_strict addr : strict (p_bt2hdr sb addr).
Proof.
  apply st_short; [intros; apply strict_lift | apply short_safe_lift; exact dec_bt2hdr_safe].
Qed.

Lemma leaf_ids_agree b b' m (Hlen : blen b' = blen b) (Hag : firstn (N.to_nat m) b' = firstn (N.to_nat m) b) :
  forall n off, off + 11 * N.of_nat n <= m -> leaf_ids b' n off = leaf_ids b n off.
Proof.
  induction n; intros off H; cbn [leaf_ids]; [reflexivity|].
  rewrite Hlen. destruct (blen b <? off + 11); [reflexivity|].
  rewrite (slice_agree b b' m Hlen Hag (off + 4) (off + 11)) by blia.
  rewrite IHn by blia. reflexivity.
Qed.

Lemma dec_bt2leaf_safe nrec : dec_safe (6 + nrec * 11 + 4) (dec_bt2leaf nrec).
Proof.
  intros b b' g g' H1 H2 L1 L2 H3.
  assert (Hlen : blen b' = blen b) by congruence.
  unfold dec_bt2leaf.
  destruct ((g' <? 6 + nrec * 11) || (g' <? 10)) eqn:E'; [right; reflexivity|].
  apply orb_false_iff in E'. destruct E' as [Ea Eb]. apply N.ltb_ge in Ea. apply N.ltb_ge in Eb.
  replace ((g <? 6 + nrec * 11) || (g <? 10)) with false
    by (symmetry; apply orb_false_iff; split; apply N.ltb_ge; blia).
  rewrite (slice_agree b b' g' Hlen H3 0 4) by blia.
  rewrite (leaf_ids_agree b b' g' Hlen H3) by blia.
  left; reflexivity.
Qed.

Lemma p_bt2leaf_strict addr nrec : strict (p_bt2leaf addr nrec).
Proof.
  apply st_short; [intros; apply strict_lift | apply short_safe_lift; exact (dec_bt2leaf_safe nrec)].
Qed.

Lemma dec_fheaphdr_safe : dec_safe 144 (dec_fheaphdr sb).
Proof.
  intros b b' g g' H1 H2 L1 L2 H3.
  assert (Hlen : blen b' = blen b) by congruence.
  unfold dec_fheaphdr.
  destruct (g' <? 132 + spp_offsize sb) eqn:E'; [right; reflexivity|].
  apply N.ltb_ge in E'.
  replace (g <? 132 + spp_offsize sb) with false by (symmetry; apply N.ltb_ge; blia).
  rewrite (slice_agree b b' g' Hlen H3 0 4) by blia.
  destruct (slice b 0 4) as [sg| |]; cbn [obind]; [|left; reflexivity|left; reflexivity].
  destruct (negb (bytes_eqb sg [70; 82; 72; 80])); [left; reflexivity|].
  rewrite (rd_end_agree b b' g' Hlen H3 10 4) by blia.
  destruct (rd_end b 10 4 (spp_bigendian sb)) as [maxman| |]; cbn [obind]; [|left; reflexivity|left; reflexivity].
  pose proof (valid_size_le8 _ Hl) as Hl8.
  replace (144 <? 112 + spp_lensize sb + spp_lensize sb + 2) with false by (symmetry; apply N.ltb_ge; blia).
  {
    rewrite (slice_agree b b' g' Hlen H3 (112 + spp_lensize sb) (112 + spp_lensize sb + spp_lensize sb)) by blia.
    destruct (slice b (112 + spp_lensize sb) (112 + spp_lensize sb + spp_lensize sb)) as [md| |]; cbn [obind];
      [|left; reflexivity|left; reflexivity].
    rewrite (rd_end_agree b b' g' Hlen H3 (112 + spp_lensize sb + spp_lensize sb) 2) by blia.
    destruct (rd_end b (112 + spp_lensize sb + spp_lensize sb) 2 (spp_bigendian sb)); cbn [obind];
      [|left; reflexivity|left; reflexivity].
    destruct (144 <? 132 + spp_offsize sb); [left; reflexivity|].
    rewrite (slice_agree b b' g' Hlen H3 132 (132 + spp_offsize sb)) by blia.
    left; reflexivity.
  }
Qed.

Lemma p_fheaphdr_strict addr : strict (p_fheaphdr sb addr).
Proof.
  apply st_short; [intros; apply strict_lift | apply short_safe_lift; exact dec_fheaphdr_safe].
Qed.

Lemma dec_dblock_safe hos : dec_safe (5 + spp_offsize sb + hos + 16) (dec_dblock sb hos).
Proof.
  intros b b' g g' H1 H2 L1 L2 H3.
  assert (Hlen : blen b' = blen b) by congruence.
  unfold dec_dblock.
  destruct (g' <? 5 + spp_offsize sb + hos) eqn:E'; [right; reflexivity|].
  apply N.ltb_ge in E'.
  replace (g <? 5 + spp_offsize sb + hos) with false by (symmetry; apply N.ltb_ge; blia).
  rewrite (slice_agree b b' g' Hlen H3 0 4) by blia.
  rewrite (slice_agree b b' g' Hlen H3 (5 + spp_offsize sb) (5 + spp_offsize sb + hos)) by blia.
  left; reflexivity.
Qed.

Lemma p_heap_object_strict blockAddr offs len hos : strict (p_heap_object sb blockAddr offs len hos).
Proof.
  unfold p_heap_object. apply st_short.
  - intros b g. strict_auto.
  - apply short_safe_lift_bind. exact (dec_dblock_safe hos).
Qed.
Hint Resolve p_bt2hdr_strict p_bt2leaf_strict p_fheaphdr_strict p_heap_object_strict : core.

Lemma p_dense_objs_strict ids : forall root hos hls, strict (p_dense_objs sb ids root hos hls).
Proof. induction ids; intros; cbn [p_dense_objs]; strict_auto. Qed.
Hint Resolve p_dense_objs_strict : core.

Lemma p_dense_strict heapAddr btAddr : strict (p_dense sb heapAddr btAddr).
Proof. unfold p_dense. strict_auto. Qed.
Hint Resolve p_dense_strict : core.

Lemma compact_attrs_strict ms : strict (compact_attrs sb ms).
Proof. induction ms; cbn [compact_attrs]; strict_auto. Qed.
Hint Resolve compact_attrs_strict : core.

Lemma p_attrs_strict ms : strict (p_attrs sb ms).
Proof. unfold p_attrs. strict_auto. Qed.
Hint Resolve p_attrs_strict : core.

(* Attributes(): the error kept in the header is returned, so the swallowed error becomes a failure *)
Theorem api_attributes_strict fuel addr : strict (api_attributes sb fuel addr).
Proof.
  unfold api_attributes. apply strict_bind; [auto|]. intros h.
  apply st_swallow_fail.
  - strict_auto.
  - intros [a|]; constructor.
  - reflexivity.
Qed.

(* ------------------------------------------------------------------ global heap, traditional group structures *)

Theorem p_gheap_strict fuel addr : strict (p_gheap sb fuel addr).
Proof. unfold p_gheap. strict_auto. Qed.

Theorem api_vlen_string_strict fuel ref : strict (api_vlen_string sb fuel ref).
Proof. unfold api_vlen_string. strict_auto. apply p_gheap_strict. Qed.

Theorem p_local_heap_strict addr : strict (p_local_heap sb addr).
Proof. unfold p_local_heap. strict_auto. Qed.

Theorem p_snod_strict addr : strict (p_snod sb addr).
Proof. unfold p_snod. strict_auto. Qed.
Hint Resolve p_snod_strict : core.

Lemma p_snods_strict addrs : strict (p_snods sb addrs).
Proof. induction addrs; cbn [p_snods]; strict_auto. Qed.
Hint Resolve p_snods_strict : core.

Theorem p_group_btree_strict addr : strict (p_group_btree sb addr).
Proof. unfold p_group_btree. strict_auto. Qed.

(* ------------------------------------------------------------------ dataset raw data *)

Lemma p_bt1_node_strict addr ndims cdims : strict (p_bt1_node sb addr ndims cdims).
Proof. unfold p_bt1_node. strict_auto. Qed.
Hint Resolve p_bt1_node_strict : core.

Lemma p_collect_strict fuel ndims cdims : forall level ents visited,
  strict (p_collect sb fuel ndims cdims level ents visited).
Proof.
  induction fuel; intros; cbn [p_collect]; [constructor|].
  destruct (level =? 0); [constructor|].
  revert visited. induction ents as [|[[nb co] ca] rest IHr]; intros visited.
  - constructor.
  - strict_auto.
Qed.
Hint Resolve p_collect_strict : core.

Lemma p_chunks_strict cs : strict (p_chunks cs).
Proof. induction cs as [|[[nb co] a] rest IH]; cbn [p_chunks]; strict_auto. Qed.
Hint Resolve p_chunks_strict : core.

Lemma p_dataset_raw_strict fuel ms : strict (p_dataset_raw sb fuel ms).
Proof. unfold p_dataset_raw. strict_auto. Qed.
Hint Resolve p_dataset_raw_strict : core.

(* Read / ReadStrings / ReadCompound: the attribute error kept in the header is not looked at *)
Theorem api_read_raw_strict fuel addr : strict (api_read_raw sb fuel addr).
Proof.
  unfold api_read_raw. apply strict_bind; [auto|]. intros h.
  apply st_swallow_ignore.
  - strict_auto.
  - reflexivity.
  - auto.
Qed.

(* ReadObjectHeader as a value: the header part is the strict program p_ohdr; the attribute part is the strict
   program p_attrs or the marker None (AttributesErr).  It is NOT in the strict fragment by itself (the marker is a
   different value); every API call built on it (api_attributes, api_read_raw) is. *)
Lemma p_read_object_header_run fuel addr f fl c :
  run f fl c (p_read_object_header sb fuel addr) =
  match run f fl c (p_ohdr sb fuel addr) with
  | (Ok h, c') => match run f fl c' (p_attrs sb (ohp_msgs h)) with
                  | (Ok a, c'') => (Ok (h, Some a), c'')
                  | (Err, c'') => (Ok (h, None), c'')
                  | (Panic, c'') => (Panic, c'')
                  end
  | (Err, c') => (Err, c')
  | (Panic, c') => (Panic, c')
  end.
Proof.
  unfold p_read_object_header. rewrite run_bind.
  destruct (run f fl c (p_ohdr sb fuel addr)) as [[h| |] c']; try reflexivity.
  cbn [run]. rewrite run_bind.
  destruct (run f fl c' (p_attrs sb (ohp_msgs h))) as [[a| |] c'']; reflexivity.
Qed.

End WithSuperblock.

(* ------------------------------------------------------------------ in the words of the property *)

Lemma api_read_raw_trunc : forall sb, valid_size (spp_lensize sb) = true -> forall fuel addr f n, (n <= length f)%nat ->
  run0 f (api_read_raw sb fuel addr) <> Panic ->
  run0 (firstn n f) (api_read_raw sb fuel addr) = run0 f (api_read_raw sb fuel addr) \/
  run0 (firstn n f) (api_read_raw sb fuel addr) = Err.
Proof. intros sb H fuel addr. exact (trunc_monotone _ _ (api_read_raw_strict sb H fuel addr)). Qed.

Lemma api_read_raw_fault : forall sb, valid_size (spp_lensize sb) = true -> forall fuel addr f k ft,
  run0 f (api_read_raw sb fuel addr) <> Panic ->
  fst (run f (fault_at k ft) 0 (api_read_raw sb fuel addr)) = run0 f (api_read_raw sb fuel addr) \/
  fst (run f (fault_at k ft) 0 (api_read_raw sb fuel addr)) = Err.
Proof. intros sb H fuel addr. exact (fault_monotone _ _ (api_read_raw_strict sb H fuel addr)). Qed.

Lemma api_attributes_trunc : forall sb, valid_size (spp_lensize sb) = true -> forall fuel addr f n, (n <= length f)%nat ->
  run0 f (api_attributes sb fuel addr) <> Panic ->
  run0 (firstn n f) (api_attributes sb fuel addr) = run0 f (api_attributes sb fuel addr) \/
  run0 (firstn n f) (api_attributes sb fuel addr) = Err.
Proof. intros sb H fuel addr. exact (trunc_monotone _ _ (api_attributes_strict sb H fuel addr)). Qed.

Lemma api_attributes_fault : forall sb, valid_size (spp_lensize sb) = true -> forall fuel addr f k ft,
  run0 f (api_attributes sb fuel addr) <> Panic ->
  fst (run f (fault_at k ft) 0 (api_attributes sb fuel addr)) = run0 f (api_attributes sb fuel addr) \/
  fst (run f (fault_at k ft) 0 (api_attributes sb fuel addr)) = Err.
Proof. intros sb H fuel addr. exact (fault_monotone _ _ (api_attributes_strict sb H fuel addr)). Qed.
