(* C06, reader against specification: the attribute message (0x000C), versions 1 and 3 (version 2 is refuted in
   ReaderSpecAttr.v: the reader pads it like version 1).
   Framing: version | reserved | name size | datatype size | dataspace size | [v3: character set] | name | datatype |
   dataspace | data, with name / datatype / dataspace padded to multiples of 8 bytes in version 1.
   For every message (bytes < 256, shorter than 65536 bytes - the object header's 16-bit message size) that the strict
   specification decoder accepts, ParseAttributeMessage (Model/CodecAttr.v dec_attribute_gen, either variant of the version 2
   padding switch) returns an error or: the same
   name, a dataspace that agrees (ReaderSpecDataspace.ds_agree), a datatype that agrees when it is of class 0 / 1 / 3
   (ReaderSpecType.dt_agree), and data bytes that start with the specification's data (the reader hands back the rest
   of the message, i.e. including up to 7 bytes of object-header padding). *)
From HV Require Import Base.Prelude Base.Outcome Base.Bytes Spec.Parse Spec.FormatMsg
  Model.CodecMsg Model.CodecType Model.CodecAttr
  Proofs.RobustNoPanicBase Proofs.RobustNoPanicOhdr Proofs.RobustNoPanicType
  Proofs.ReaderSpecBase Proofs.ReaderSpecDataspace Proofs.ReaderSpecType.

Definition at_agree (a : attribute_spec) (v : attribute') : Prop :=
  atp_name v = as_name a /\
  ds_agree (as_space a) (atp_ds v) /\
  (dt_class (atp_dt v) = 0 \/ dt_class (atp_dt v) = 1 \/ dt_class (atp_dt v) = 3 -> dt_agree (as_dtype a) (atp_dt v)) /\
  match atp_data v with
  | Some d => firstn (length (as_data a)) d = as_data a
  | None => as_data a = []
  end.

(* ------------------------------------------------------------------ alignment: (s + 7) & ^7 on uint16 *)
Lemma land_ldiff x a b : N.land x (N.ldiff a b) = N.ldiff (N.land x a) b.
Proof.
  apply N.bits_inj. intros i. rewrite N.land_spec, !N.ldiff_spec, N.land_spec. apply andb_assoc.
Qed.

Lemma land_65528 x : x < 65536 -> N.land x 65528 = x / 8 * 8.
Proof.
  intros H. change 65528 with (N.ldiff (N.ones 16) (N.ones 3)).
  rewrite land_ldiff, N.land_ones, N.ldiff_ones_r, N.shiftl_mul_pow2, N.shiftr_div_pow2.
  change (2 ^ 16) with 65536. change (2 ^ 3) with 8. rewrite N.mod_small by exact H. reflexivity.
Qed.

Lemma align8_up8 s : s + 7 < 65536 -> align8_u16 s = s + (up8 s - s).
Proof.
  intros H. unfold align8_u16, wrap16, up8. rewrite N.mod_small by exact H. rewrite land_65528 by exact H. blia.
Qed.

(* ------------------------------------------------------------------ lists *)
Lemma p_cstr_all (b : list N) name z : p_cstr b = Ok (name, z) -> length z = 0%nat -> b = name ++ [0].
Proof.
  revert name z. induction b as [|a b IH]; intros name z H Hz; cbn [p_cstr] in H; [discriminate|].
  destruct (a =? 0) eqn:A.
  - injection H as <- <-. apply N.eqb_eq in A. subst a. destruct b; [reflexivity|discriminate Hz].
  - destruct (p_cstr b) as [[s r']| |] eqn:E; cbn [obind] in H; try discriminate.
    injection H as <- <-. cbn [app]. f_equal. now apply (IH s r').
Qed.

Lemma slice_prefix (bs : list N) a b c s :
  slice bs a b = Ok s -> a <= c -> c <= b -> slice bs a c = Ok (firstn (N.to_nat (c - a)) s).
Proof.
  unfold slice. intros H Hac Hcb.
  destruct ((a <=? b) && (b <=? blen bs)) eqn:E; [|discriminate].
  apply andb_true_iff in E as [E1 E2]. apply N.leb_le in E1, E2. injection H as <-.
  replace ((a <=? c) && (c <=? blen bs)) with true by (symmetry; apply andb_true_iff; split; apply N.leb_le; blia).
  f_equal. rewrite firstn_firstn. f_equal. blia.
Qed.

Lemma firstn_app_exact (a b : list N) n : n = length a -> firstn n (a ++ b) = a.
Proof. intros ->. rewrite firstn_app, Nat.sub_diag, firstn_all. cbn [firstn]. apply app_nil_r. Qed.

(* the reader's class is the class nibble of the first byte *)
Lemma dec_dt_class (fuel : nat) (bs : list N) v : dec_dt fuel bs = Ok v -> dt_class v = dt_class_nibble bs.
Proof.
  destruct fuel as [|fuel]; [discriminate|]. cbn [dec_dt].
  destruct (blen bs <? 8) eqn:L; [discriminate|]. apply N.ltb_ge in L.
  destruct bs as [|c0 rest]; [cbn in L; blia|].
  assert (R : exists b, rd_le (c0 :: rest) 0 4 = Ok (c0 + 256 * b)).
  { destruct (rd_le_ok (c0 :: rest) 1 3) as (b & Rb); [blia|]. exists b.
    apply (rd_le_cons (c0 :: rest) 0 3 c0 b); [reflexivity|exact Rb]. }
  destruct R as (b & ->). cbn [obind].
  destruct (rd_le (c0 :: rest) 4 4) as [size| |]; cbn [obind]; try discriminate.
  match goal with |- obind ?o _ = _ -> _ => destruct o as [pl| |] end; cbn [obind]; try discriminate.
  match goal with |- obind ?o _ = _ -> _ => destruct o as [pp| |] end; cbn [obind]; try discriminate.
  intros H. injection H as <-. cbn [dt_class dt_class_nibble]. apply head_class.
Qed.

(* ------------------------------------------------------------------ the two versions *)
Lemma attribute_v1_reader_spec (rep : bool) (lsz : nat) (pad_ok : bool) (bs : bytes) (a : attribute_spec) (tg : list tag) :
  bytes_ok bs = true -> blen bs < 65536 ->
  lsz = 4%nat \/ lsz = 8%nat ->
  spec_dec_attribute strict lsz pad_ok bs = Ok (a, tg) ->
  index bs 0 = Ok 1 ->
  simple_rank0 (as_space a) = false ->
  err_or (at_agree a) (dec_attribute_gen rep false bs).
Proof.
  intros Hb Hlen Hl H HV NS. unfold spec_dec_attribute in H.
  rewrite (at_pos_0 bs) in H. assert (P0 : 0 <= blen bs) by blia.
  s_byte H ver B1 I0. s_guard H GV.
  assert (ver = 1) by congruence.
  subst ver. clear GV.
  s_byte H fl B2 I1. s_guard H GF.
  change (0 + 1) with 1 in *. change (1 + 1) with 2 in *.
  s_u H ns B3 RN. s_u H ts B4 RT. s_u H ss B5 RS.
  change (N.of_nat 2) with 2 in *. change (2 + 2) with 4 in *. change (4 + 2) with 6 in *. change (6 + 2) with 8 in *.
  change (1 =? 3) with false in H. change (1 =? 1) with true in H. cbn [obind] in H. cbv beta iota in H.
  s_take H nameb B6 SN LN. rewrite N2Nat.id in *.
  s_zeros H B7 Z1. rewrite N2Nat.id in *.
  remember (8 + ns + (up8 ns - ns)) as P1 eqn:HP1.
  destruct (p_cstr nameb) as [[name z]| |] eqn:E; cbn [obind] in H; try discriminate H. s_guard H GZ.
  s_take H tb B8 ST LT. rewrite N2Nat.id in *.
  s_zeros H B9 Z2. rewrite N2Nat.id in *.
  remember (P1 + ts + (up8 ts - ts)) as P2 eqn:HP2.
  destruct (spec_dec_datatype strict true tb) as [[t tg0]| |] eqn:E0; cbn [obind] in H; try discriminate H.
  s_take H sb B10 SS LS. rewrite N2Nat.id in *.
  s_zeros H B11 Z3. rewrite N2Nat.id in *.
  remember (P2 + ss + (up8 ss - ss)) as P3 eqn:HP3.
  destruct (spec_dec_dataspace lsz true sb) as [sp| |] eqn:E1; cbn [obind] in H; try discriminate H.
  s_take H dat B12 SD LD. rewrite N2Nat.id in *.
  s_end H PE PF ZZ.
  injection H as <- <-. cbn [as_version as_space] in *.
  (* name *)
  apply andb_true_iff in GZ as [GZ1 GZ2]. apply Nat.eqb_eq in GZ1.
  pose proof (p_cstr_all _ _ _ E GZ1) as HN.
  assert (LN' : ns = blen name + 1).
  { unfold blen. rewrite <- (N2Nat.id ns), <- LN, HN, app_length. cbn [length]. blia. }
  (* alignment *)
  assert (A1 : 8 + align8_u16 ns = P1) by (rewrite align8_up8 by blia; blia).
  assert (A2 : P1 + align8_u16 ts = P2) by (rewrite align8_up8 by blia; blia).
  assert (A3 : P2 + align8_u16 ss = P3) by (rewrite align8_up8 by blia; blia).
  unfold dec_attribute_gen, rd16.
  rewrite (ltb_false_of_le (blen bs) 8) by blia. rewrite I0. cbn [obind].
  apply N.eqb_eq in GF. subst fl. rewrite I1. cbn [obind].
  change (N.land 0 3 =? 0) with true. cbn [negb]. rewrite !andb_false_r. cbv beta iota.
  rewrite RN. cbn [obind]. rewrite RT. cbn [obind]. rewrite RS. cbn [obind].
  change (3 <=? 1) with false. change (1 <? 3) with true. change (1 <? 2) with true.
  replace (if rep then true else true) with true by (destruct rep; reflexivity). cbv beta iota.
  rewrite (ltb_false_of_le (blen bs) (8 + ns)) by blia.
  replace (0 <? ns) with true by (symmetry; apply N.ltb_lt; blia).
  rewrite (slice_prefix bs 8 (8 + ns) (8 + ns - 1) nameb SN) by blia. cbn [obind].
  rewrite A1. rewrite (ltb_false_of_le (blen bs) (P1 + ts)) by blia. rewrite ST. cbn [obind].
  pose proof (slice_bytes_ok _ _ _ _ Hb ST) as Hbt.
  destruct (dec_datatype tb) as [dv| |] eqn:DT; cbn [obind]; [|exact I|exfalso; revert DT; apply dec_datatype_no_panic].
  rewrite A2. rewrite (ltb_false_of_le (blen bs) (P2 + ss)) by blia. rewrite SS. cbn [obind].
  pose proof (dataspace_reader_spec lsz true sb sp Hl E1 NS) as DSA.
  destruct (dec_dataspace sb) as [dsv| |]; cbn [obind]; [|exact I|destruct DSA].
  rewrite A3.
  assert (NAME : firstn (N.to_nat (8 + ns - 1 - 8)) nameb = name).
  { rewrite HN. apply firstn_app_exact. unfold blen in LN'. blia. }
  assert (DTA : dt_class dv = 0 \/ dt_class dv = 1 \/ dt_class dv = 3 -> dt_agree t dv).
  { intros C. unfold dec_datatype in DT. rewrite (dec_dt_class _ _ _ DT) in C.
    destruct (datatype_reader_spec true tb t tg0 Hbt C E0) as (v' & D' & AG).
    unfold dec_datatype in D'. rewrite DT in D'. injection D' as <-. exact AG. }
  destruct (P3 <? blen bs) eqn:LP.
  - destruct (MaxAttributeSize <? blen bs - P3); [exact I|].
    unfold slice_from. rewrite (proj2 (N.leb_le P3 (blen bs))) by blia. cbn [obind].
    cbn [err_or]. unfold at_agree. cbn [atp_name atp_ds atp_dt atp_data as_name as_space as_dtype as_data].
    split; [exact NAME|]. split; [exact DSA|]. split; [exact DTA|].
    (* data: the specification's bytes are the first ones of the rest of the message *)
    unfold slice in SD.
    destruct ((P3 <=? P3 + nelem sp * dtype_size t) && (P3 + nelem sp * dtype_size t <=? blen bs)); [|discriminate].
    injection SD as <-. bnorm. rewrite firstn_length. f_equal.
    rewrite skipn_length. unfold blen in *. blia.
  - apply N.ltb_ge in LP.
    cbn [err_or]. unfold at_agree. cbn [atp_name atp_ds atp_dt atp_data as_name as_space as_dtype as_data].
    split; [exact NAME|]. split; [exact DSA|]. split; [exact DTA|].
    destruct dat; [reflexivity|]. cbn [length] in LD. exfalso. blia.
Qed.

Lemma attribute_v3_reader_spec (rep : bool) (lsz : nat) (pad_ok : bool) (bs : bytes) (a : attribute_spec) (tg : list tag) :
  bytes_ok bs = true -> blen bs < 65536 ->
  lsz = 4%nat \/ lsz = 8%nat ->
  spec_dec_attribute strict lsz pad_ok bs = Ok (a, tg) ->
  index bs 0 = Ok 3 ->
  simple_rank0 (as_space a) = false ->
  err_or (at_agree a) (dec_attribute_gen rep false bs).
Proof.
  intros Hb Hlen Hl H HV NS. unfold spec_dec_attribute in H.
  rewrite (at_pos_0 bs) in H. assert (P0 : 0 <= blen bs) by blia.
  s_byte H ver B1 I0. s_guard H GV.
  assert (ver = 3) by congruence.
  subst ver. clear GV.
  s_byte H fl B2 I1. s_guard H GF.
  change (0 + 1) with 1 in *. change (1 + 1) with 2 in *.
  s_u H ns B3 RN. s_u H ts B4 RT. s_u H ss B5 RS.
  change (N.of_nat 2) with 2 in *. change (2 + 2) with 4 in *. change (4 + 2) with 6 in *. change (6 + 2) with 8 in *.
  change (3 =? 3) with true in H. change (3 =? 1) with false in H. cbv beta iota in H.
  match type of H with obind ?o _ = _ => destruct o as [[cset r0]| |] eqn:EC; cbn [obind] in H; try discriminate H end.
  s_byte EC c BC IC. s_guard EC GC. injection EC as <- <-. change (8 + 1) with 9 in *.
  s_take H nameb B6 SN LN. rewrite N2Nat.id in *.
  s_zeros H B7 Z1. change (N.of_nat 0) with 0 in *.
  remember (9 + ns + 0) as P1 eqn:HP1.
  destruct (p_cstr nameb) as [[name z]| |] eqn:E; cbn [obind] in H; try discriminate H. s_guard H GZ.
  s_take H tb B8 ST LT. rewrite N2Nat.id in *.
  s_zeros H B9 Z2. change (N.of_nat 0) with 0 in *.
  remember (P1 + ts + 0) as P2 eqn:HP2.
  destruct (spec_dec_datatype strict false tb) as [[t tg0]| |] eqn:E0; cbn [obind] in H; try discriminate H.
  s_take H sb B10 SS LS. rewrite N2Nat.id in *.
  s_zeros H B11 Z3. change (N.of_nat 0) with 0 in *.
  remember (P2 + ss + 0) as P3 eqn:HP3.
  destruct (spec_dec_dataspace lsz false sb) as [sp| |] eqn:E1; cbn [obind] in H; try discriminate H.
  s_take H dat B12 SD LD. rewrite N2Nat.id in *.
  s_end H PE PF ZZ.
  injection H as <- <-. cbn [as_version as_space] in *.
  (* name *)
  apply andb_true_iff in GZ as [GZ1 GZ2]. apply Nat.eqb_eq in GZ1.
  pose proof (p_cstr_all _ _ _ E GZ1) as HN.
  assert (LN' : ns = blen name + 1).
  { unfold blen. rewrite <- (N2Nat.id ns), <- LN, HN, app_length. cbn [length]. blia. }
  (* alignment *)
  assert (A1 : 9 + ns = P1) by blia.
  assert (A2 : P1 + ts = P2) by blia.
  assert (A3 : P2 + ss = P3) by blia.
  unfold dec_attribute_gen, rd16.
  rewrite (ltb_false_of_le (blen bs) 8) by blia. rewrite I0. cbn [obind].
  apply N.eqb_eq in GF. subst fl. rewrite I1. cbn [obind].
  change (N.land 0 3 =? 0) with true. cbn [negb]. rewrite !andb_false_r. cbv beta iota.
  rewrite RN. cbn [obind]. rewrite RT. cbn [obind]. rewrite RS. cbn [obind].
  change (3 <=? 3) with true. change (3 <? 3) with false. change (3 <? 2) with false.
  replace (if rep then false else false) with false by (destruct rep; reflexivity). cbv beta iota.
  rewrite (ltb_false_of_le (blen bs) (9 + ns)) by blia.
  replace (0 <? ns) with true by (symmetry; apply N.ltb_lt; blia).
  rewrite (slice_prefix bs 9 (9 + ns) (9 + ns - 1) nameb SN) by blia. cbn [obind].
  rewrite A1. rewrite (ltb_false_of_le (blen bs) (P1 + ts)) by blia. rewrite ST. cbn [obind].
  pose proof (slice_bytes_ok _ _ _ _ Hb ST) as Hbt.
  destruct (dec_datatype tb) as [dv| |] eqn:DT; cbn [obind]; [|exact I|exfalso; revert DT; apply dec_datatype_no_panic].
  rewrite A2. rewrite (ltb_false_of_le (blen bs) (P2 + ss)) by blia. rewrite SS. cbn [obind].
  pose proof (dataspace_reader_spec lsz false sb sp Hl E1 NS) as DSA.
  destruct (dec_dataspace sb) as [dsv| |]; cbn [obind]; [|exact I|destruct DSA].
  rewrite A3.
  assert (NAME : firstn (N.to_nat (P1 - 1 - 9)) nameb = name).
  { rewrite HN. apply firstn_app_exact. unfold blen in LN'. blia. }
  assert (DTA : dt_class dv = 0 \/ dt_class dv = 1 \/ dt_class dv = 3 -> dt_agree t dv).
  { intros C. unfold dec_datatype in DT. rewrite (dec_dt_class _ _ _ DT) in C.
    destruct (datatype_reader_spec false tb t tg0 Hbt C E0) as (v' & D' & AG).
    unfold dec_datatype in D'. rewrite DT in D'. injection D' as <-. exact AG. }
  destruct (P3 <? blen bs) eqn:LP.
  - destruct (MaxAttributeSize <? blen bs - P3); [exact I|].
    unfold slice_from. rewrite (proj2 (N.leb_le P3 (blen bs))) by blia. cbn [obind].
    cbn [err_or]. unfold at_agree. cbn [atp_name atp_ds atp_dt atp_data as_name as_space as_dtype as_data].
    split; [exact NAME|]. split; [exact DSA|]. split; [exact DTA|].
    (* data: the specification's bytes are the first ones of the rest of the message *)
    unfold slice in SD.
    destruct ((P3 <=? P3 + nelem sp * dtype_size t) && (P3 + nelem sp * dtype_size t <=? blen bs)); [|discriminate].
    injection SD as <-. bnorm. rewrite firstn_length. f_equal.
    rewrite skipn_length. unfold blen in *. blia.
  - apply N.ltb_ge in LP.
    cbn [err_or]. unfold at_agree. cbn [atp_name atp_ds atp_dt atp_data as_name as_space as_dtype as_data].
    split; [exact NAME|]. split; [exact DSA|]. split; [exact DTA|].
    destruct dat; [reflexivity|]. cbn [length] in LD. exfalso. blia.
Qed.

(* ------------------------------------------------------------------ version 2, for the REPAIRED reader
   (Model/CodecAttr.v dec_attribute_gen true = dec_attribute: notes/fixes/c06-attribute-v2-padding.patch applied).  For the
   reader before the repair (dec_attribute_gen false) the statement is refuted: ReaderSpecAttr.attribute_v2_padding_refuted. *)
Lemma attribute_v2_repaired_reader_spec (lsz : nat) (pad_ok : bool) (bs : bytes) (a : attribute_spec) (tg : list tag) :
  bytes_ok bs = true -> blen bs < 65536 ->
  lsz = 4%nat \/ lsz = 8%nat ->
  spec_dec_attribute strict lsz pad_ok bs = Ok (a, tg) ->
  index bs 0 = Ok 2 ->
  simple_rank0 (as_space a) = false ->
  err_or (at_agree a) (dec_attribute_gen true false bs).
Proof.
  intros Hb Hlen Hl H HV NS. unfold spec_dec_attribute in H.
  rewrite (at_pos_0 bs) in H. assert (P0 : 0 <= blen bs) by blia.
  s_byte H ver B1 I0. s_guard H GV.
  assert (ver = 2) by congruence.
  subst ver. clear GV.
  s_byte H fl B2 I1. s_guard H GF.
  change (0 + 1) with 1 in *. change (1 + 1) with 2 in *.
  s_u H ns B3 RN. s_u H ts B4 RT. s_u H ss B5 RS.
  change (N.of_nat 2) with 2 in *. change (2 + 2) with 4 in *. change (4 + 2) with 6 in *. change (6 + 2) with 8 in *.
  change (2 =? 3) with false in H. change (2 =? 1) with false in H. cbn [obind] in H. cbv beta iota in H.
  s_take H nameb B6 SN LN. rewrite N2Nat.id in *.
  s_zeros H B7 Z1. change (N.of_nat 0) with 0 in *.
  remember (8 + ns + 0) as P1 eqn:HP1.
  destruct (p_cstr nameb) as [[name z]| |] eqn:E; cbn [obind] in H; try discriminate H. s_guard H GZ.
  s_take H tb B8 ST LT. rewrite N2Nat.id in *.
  s_zeros H B9 Z2. change (N.of_nat 0) with 0 in *.
  remember (P1 + ts + 0) as P2 eqn:HP2.
  destruct (spec_dec_datatype strict false tb) as [[t tg0]| |] eqn:E0; cbn [obind] in H; try discriminate H.
  s_take H sb B10 SS LS. rewrite N2Nat.id in *.
  s_zeros H B11 Z3. change (N.of_nat 0) with 0 in *.
  remember (P2 + ss + 0) as P3 eqn:HP3.
  destruct (spec_dec_dataspace lsz false sb) as [sp| |] eqn:E1; cbn [obind] in H; try discriminate H.
  s_take H dat B12 SD LD. rewrite N2Nat.id in *.
  s_end H PE PF ZZ.
  injection H as <- <-. cbn [as_version as_space] in *.
  (* name *)
  apply andb_true_iff in GZ as [GZ1 GZ2]. apply Nat.eqb_eq in GZ1.
  pose proof (p_cstr_all _ _ _ E GZ1) as HN.
  assert (LN' : ns = blen name + 1).
  { unfold blen. rewrite <- (N2Nat.id ns), <- LN, HN, app_length. cbn [length]. blia. }
  (* alignment *)
  assert (A1 : 8 + ns = P1) by blia.
  assert (A2 : P1 + ts = P2) by blia.
  assert (A3 : P2 + ss = P3) by blia.
  unfold dec_attribute_gen, rd16.
  rewrite (ltb_false_of_le (blen bs) 8) by blia. rewrite I0. cbn [obind].
  apply N.eqb_eq in GF. subst fl. rewrite I1. cbn [obind].
  change (N.land 0 3 =? 0) with true. cbn [negb]. rewrite !andb_false_r. cbv beta iota.
  rewrite RN. cbn [obind]. rewrite RT. cbn [obind]. rewrite RS. cbn [obind].
  change (3 <=? 2) with false. cbv beta iota. change (2 <? 2) with false. cbv beta iota.
  rewrite (ltb_false_of_le (blen bs) (8 + ns)) by blia.
  replace (0 <? ns) with true by (symmetry; apply N.ltb_lt; blia).
  rewrite (slice_prefix bs 8 (8 + ns) (8 + ns - 1) nameb SN) by blia. cbn [obind].
  rewrite A1. rewrite (ltb_false_of_le (blen bs) (P1 + ts)) by blia. rewrite ST. cbn [obind].
  pose proof (slice_bytes_ok _ _ _ _ Hb ST) as Hbt.
  destruct (dec_datatype tb) as [dv| |] eqn:DT; cbn [obind]; [|exact I|exfalso; revert DT; apply dec_datatype_no_panic].
  rewrite A2. rewrite (ltb_false_of_le (blen bs) (P2 + ss)) by blia. rewrite SS. cbn [obind].
  pose proof (dataspace_reader_spec lsz false sb sp Hl E1 NS) as DSA.
  destruct (dec_dataspace sb) as [dsv| |]; cbn [obind]; [|exact I|destruct DSA].
  rewrite A3.
  assert (NAME : firstn (N.to_nat (P1 - 1 - 8)) nameb = name).
  { rewrite HN. apply firstn_app_exact. unfold blen in LN'. blia. }
  assert (DTA : dt_class dv = 0 \/ dt_class dv = 1 \/ dt_class dv = 3 -> dt_agree t dv).
  { intros C. unfold dec_datatype in DT. rewrite (dec_dt_class _ _ _ DT) in C.
    destruct (datatype_reader_spec false tb t tg0 Hbt C E0) as (v' & D' & AG).
    unfold dec_datatype in D'. rewrite DT in D'. injection D' as <-. exact AG. }
  destruct (P3 <? blen bs) eqn:LP.
  - destruct (MaxAttributeSize <? blen bs - P3); [exact I|].
    unfold slice_from. rewrite (proj2 (N.leb_le P3 (blen bs))) by blia. cbn [obind].
    cbn [err_or]. unfold at_agree. cbn [atp_name atp_ds atp_dt atp_data as_name as_space as_dtype as_data].
    split; [exact NAME|]. split; [exact DSA|]. split; [exact DTA|].
    (* data: the specification's bytes are the first ones of the rest of the message *)
    unfold slice in SD.
    destruct ((P3 <=? P3 + nelem sp * dtype_size t) && (P3 + nelem sp * dtype_size t <=? blen bs)); [|discriminate].
    injection SD as <-. bnorm. rewrite firstn_length. f_equal.
    rewrite skipn_length. unfold blen in *. blia.
  - apply N.ltb_ge in LP.
    cbn [err_or]. unfold at_agree. cbn [atp_name atp_ds atp_dt atp_data as_name as_space as_dtype as_data].
    split; [exact NAME|]. split; [exact DSA|]. split; [exact DTA|].
    destruct dat; [reflexivity|]. cbn [length] in LD. exfalso. blia.
Qed.

(* the hypotheses are satisfiable: attribute "a", 1-byte unsigned integer, dataspace [2] (4-byte lengths), two data bytes;
   version 1 (name padded to 8, datatype 12 -> 16, dataspace 12 -> 16) in a version 1 object header, and version 3 *)
Definition attr_v1_example : bytes :=
  [1; 0; 2; 0; 12; 0; 12; 0] ++ [97; 0; 0; 0; 0; 0; 0; 0] ++ [16; 0; 0; 0; 1; 0; 0; 0; 0; 0; 8; 0] ++ zeros 4
  ++ [1; 1; 0; 0; 0; 0; 0; 0; 2; 0; 0; 0] ++ zeros 4 ++ [5; 6] ++ zeros 6.
Example attribute_v1_example :
  exists a, spec_dec_attribute strict 4 true attr_v1_example = Ok (a, []) /\ index attr_v1_example 0 = Ok 1 /\
            simple_rank0 (as_space a) = false /\ bytes_ok attr_v1_example = true /\
            dec_attribute false attr_v1_example =
              Ok {| atp_name := [97];
                    atp_dt := {| dt_class := 0; dt_version := 1; dt_size := 1; dt_cbf := 0; dt_props := [0; 0; 8; 0] |};
                    atp_ds := {| dsp_version := 1; dsp_type := 1; dsp_dims := [2]; dsp_maxdims := None |};
                    atp_data := Some ([5; 6] ++ zeros 6) |}.
Proof. eexists. repeat split; vm_compute; reflexivity. Qed.
