(* C02 composition, part 2: the abstract heap of Model/Attr.v (list of (offset, object), next free offset, ids
   (offset, length), space never reused, capacity = usable bytes of the direct block) is simulated by the detailed
   fractal heap model (Model/FHeap.v) in the configuration the attribute code uses: one 65536-byte direct block,
   capacity rule cap_new.  A fractal heap does not remember which ranges are live, so the abstraction is the
   relation [HSim] = FHeap's representation relation R against the reference state [spec_of hp] computed from the
   ABSTRACT heap.  For every operation the answer classes agree and the relation is kept; a write-out followed by
   a load (what happens between two attribute calls) keeps it as well (from FHeap.load_after_store / R_reloaded). *)
From HV Require Import Base.Prelude Model.Attr Model.AttrCompose Proofs.AttrBase.
From HV Require Model.FHeap Proofs.FHeap.

Lemma block_ok : FHeap.bs_ok BLOCK = true.
Proof. reflexivity. Qed.
Lemma block_cap : FHeap.cap_new BLOCK = 65517.
Proof. reflexivity. Qed.

Lemma msg_size_enc a sz : encode_attr a = EncOk sz -> msg_size a = sz.
Proof. intro H. unfold msg_size. rewrite H. reflexivity. Qed.

Section Heap.
Variable enc : attr -> bytes.
Hypothesis enc_len : forall a sz, encode_attr a = EncOk sz -> FHeap.len (enc a) = sz.

Notation spec_obj := (spec_obj enc).
Notation spec_of := (spec_of enc).

(* a stored object: offset within the 2-byte offset field, and a message EncodeAttributeMessage accepted *)
Definition obj_ok (oa : N * attr) : Prop := fst oa < 65536 /\ exists sz, encode_attr (snd oa) = EncOk sz.

Lemma obj_ok_len oa : obj_ok oa -> FHeap.len (enc (snd oa)) = msg_size (snd oa).
Proof. intros [_ [sz He]]. rewrite (msg_size_enc _ _ He). apply enc_len. exact He. Qed.

Lemma assoc_get_in : forall A (l : list (N * A)) k x, assoc_get k l = Some x -> In (k, x) l.
Proof.
  induction l as [|[k' y] l IH]; intros k x; cbn [assoc_get]; [discriminate|].
  destruct (N.eqb_spec k' k); [intro E; inversion E; subst; left; reflexivity | intro E; right; auto].
Qed.

Definition HSim (h : FHeap.heap) (fs : FHeap.fstate) (hp : heap) : Prop :=
  FHeap.R BLOCK h fs (spec_of hp) /\ Forall obj_ok (hobjs hp).

Lemma HSim_new : HSim (FHeap.new_heap BLOCK) FHeap.fs0 heap_empty.
Proof. split; [apply (FHeap.R_new BLOCK block_ok) | constructor]. Qed.

Lemma HSim_hfree h fs hp : HSim h fs hp -> hfree hp <= 65517.
Proof.
  intros [HR _]. destruct HR. cbn [spec_of FHeap.sp_vol] in *. rewrite block_cap in *. lia.
Qed.

(* ---- ids as keys ---- *)
Lemma mkid_neq k1 n1 k2 n2 : k1 < 65536 -> k2 < 65536 -> k1 <> k2 ->
  bytes_eqb (FHeap.mkid k1 n1) (FHeap.mkid k2 n2) = false.
Proof.
  intros H1 H2 NE. apply FHeap.bytes_eqb_neq. intro E. apply (f_equal FHeap.id_off) in E.
  rewrite !FHeap.id_off_mkid in E by assumption. contradiction.
Qed.

Lemma lookup_spec : forall l off a, Forall obj_ok l -> off < 65536 -> assoc_get off l = Some a ->
  FHeap.lookup (FHeap.mkid off (msg_size a)) (map spec_obj l) = Some (enc a).
Proof.
  induction l as [|[k x] l IH]; intros off a F Ho; cbn [assoc_get map]; [discriminate|].
  inversion F as [|? ? [Hk _] F']; subst. cbn [fst snd] in Hk.
  unfold AttrCompose.spec_obj at 1. cbn [fst snd FHeap.lookup].
  destruct (N.eqb_spec k off) as [->|NE].
  - intro E. inversion E; subst. rewrite FHeap.bytes_eqb_refl. reflexivity.
  - intro G. rewrite mkid_neq by assumption. apply IH; assumption.
Qed.

Lemma replace_spec : forall l l' off a a', Forall obj_ok l -> off < 65536 -> assoc_get off l = Some a ->
  msg_size a' = msg_size a -> assoc_set off a' l = Some l' ->
  FHeap.replace_id (FHeap.mkid off (msg_size a)) (enc a') (map spec_obj l) = map spec_obj l'.
Proof.
  induction l as [|[k x] l IH]; intros l' off a a' F Ho; cbn [assoc_get assoc_set map]; [discriminate|].
  inversion F as [|? ? [Hk _] F']; subst. cbn [fst snd] in Hk.
  unfold AttrCompose.spec_obj at 1. cbn [fst snd FHeap.replace_id].
  destruct (N.eqb_spec k off) as [->|NE].
  - intros E Hs E2. inversion E; subst. inversion E2; subst. rewrite FHeap.bytes_eqb_refl.
    cbn [map]. unfold AttrCompose.spec_obj at 2. cbn [fst snd]. rewrite Hs. reflexivity.
  - intros G Hs. destruct (assoc_set off a' l) as [r|] eqn:E; [|discriminate]. intro E2. inversion E2; subst.
    rewrite mkid_neq by assumption. cbn [map]. rewrite (IH r off a a') by assumption. reflexivity.
Qed.

Lemma remove_spec : forall l l' off a, Forall obj_ok l -> off < 65536 -> assoc_get off l = Some a ->
  assoc_del off l = Some l' ->
  FHeap.remove_id (FHeap.mkid off (msg_size a)) (map spec_obj l) = map spec_obj l'.
Proof.
  induction l as [|[k x] l IH]; intros l' off a F Ho; cbn [assoc_get assoc_del map]; [discriminate|].
  inversion F as [|? ? [Hk _] F']; subst. cbn [fst snd] in Hk.
  unfold AttrCompose.spec_obj at 1. cbn [fst snd FHeap.remove_id].
  destruct (N.eqb_spec k off) as [->|NE].
  - intros E E2. inversion E; subst. inversion E2; subst. rewrite FHeap.bytes_eqb_refl. reflexivity.
  - intros G. destruct (assoc_del off l) as [r|] eqn:E; [|discriminate]. intro E2. inversion E2; subst.
    rewrite mkid_neq by assumption. cbn [map]. rewrite (IH r off a) by assumption. reflexivity.
Qed.

Lemma obj_ok_set : forall l l' off a', Forall obj_ok l -> obj_ok (off, a') -> assoc_set off a' l = Some l' -> Forall obj_ok l'.
Proof.
  induction l as [|[k x] l IH]; intros l' off a' F Hn; cbn [assoc_set]; [discriminate|].
  inversion F; subst. destruct (N.eqb_spec k off) as [->|NE].
  - intro E. inversion E; subst. constructor; assumption.
  - destruct (assoc_set off a' l) as [r|] eqn:E; [|discriminate]. intro E2. inversion E2; subst.
    constructor; [assumption | apply (IH r off a'); assumption].
Qed.

Lemma obj_ok_del : forall l l' off, Forall obj_ok l -> assoc_del off l = Some l' -> Forall obj_ok l'.
Proof.
  induction l as [|[k x] l IH]; intros l' off F; cbn [assoc_del]; [discriminate|].
  inversion F; subst. destruct (k =? off).
  - intro E. inversion E; subst. assumption.
  - destruct (assoc_del off l) as [r|] eqn:E; [|discriminate]. intro E2. inversion E2; subst.
    constructor; [assumption | apply (IH r off); assumption].
Qed.

(* every stored offset lies below the next free offset *)
Lemma HSim_key_lt h fs hp k : HSim h fs hp -> In k (map fst (hobjs hp)) -> k < hfree hp.
Proof.
  intros [HR F] HI. apply in_map_iff in HI. destruct HI as [[k' a] [E HI]]. cbn [fst] in E. subst k'.
  destruct HR. cbn [spec_of FHeap.sp_live FHeap.sp_vol] in *.
  rewrite Forall_forall in R_live, F. specialize (F _ HI). destruct F as [Hk _]. cbn [fst] in Hk.
  specialize (R_live (spec_obj (k, a)) (in_map _ _ _ HI)).
  destruct R_live as (_ & B & C & _). unfold FHeap.eoff, FHeap.elen, AttrCompose.spec_obj in *. cbn [fst snd] in *.
  rewrite FHeap.id_off_mkid in C by assumption. lia.
Qed.

(* ------------------------------------------------------------------ InsertObject *)
Section Insert.
Variable P : params.
Hypothesis PM : params_match P.

(* fits: same id (offset, length), relation kept *)
Lemma insert_sim_ok h fs hp a sz hp' id pk : HSim h fs hp -> encode_attr a = EncOk sz ->
  heap_insert P hp a = HOk hp' id ->
  exists h', FHeap.insert FHeap.cap_new h (enc a) pk = (h', FHeap.Ok (id8 id)) /\ HSim h' fs hp' /\ id_ok id /\
             id = (hfree hp, sz) /\ hobjs hp' = hobjs hp ++ [(hfree hp, a)] /\ hfree hp' = hfree hp + sz.
Proof.
  intros HS He Hi. pose proof (HSim_hfree _ _ _ HS) as Hf. destruct HS as [HR F].
  destruct PM as (_ & Ph & Pm & _). rewrite block_cap in Ph. change FHeap.MAX_OBJ with 65536 in Pm.
  unfold heap_insert in Hi. rewrite (msg_size_enc _ _ He) in Hi.
  destruct (sz =? 0) eqn:E0; [discriminate|]. destruct (p_maxobj P <? sz) eqn:E1; [discriminate|].
  destruct (hfree hp + sz <=? p_hcap P) eqn:E2; [|discriminate]. inversion Hi; subst hp' id. clear Hi.
  apply N.eqb_neq in E0. apply N.ltb_ge in E1. apply N.leb_le in E2. rewrite Ph in E2. rewrite Pm in E1.
  pose proof (enc_len _ _ He) as Hl.
  destruct (FHeap.insert_R BLOCK h fs (spec_of hp) (enc a) pk block_ok HR) as (h' & Hins & HR').
  { lia. } { change FHeap.MAX_OBJ with 65536. lia. } { rewrite block_cap. cbn [spec_of FHeap.sp_vol]. lia. }
  cbn [spec_of FHeap.sp_vol FHeap.sp_live] in Hins, HR'. rewrite Hl in Hins, HR'.
  assert (Hw : wrap16 (hfree hp) = hfree hp) by (unfold wrap16; apply N.mod_small; lia).
  assert (Hm : sz mod 16777216 = sz) by (apply N.mod_small; lia).
  rewrite Hw, Hm. exists h'. split; [exact Hins|]. split; [|split; [split; cbn [fst snd]; lia | auto]].
  split.
  - unfold AttrCompose.spec_of. cbn [hobjs hfree]. rewrite map_app. cbn [map]. unfold AttrCompose.spec_obj at 2.
    cbn [fst snd]. rewrite (msg_size_enc _ _ He). exact HR'.
  - cbn [hobjs]. apply Forall_app. split; [assumption|]. constructor; [|constructor].
    split; cbn [fst snd]; [lia | exists sz; exact He].
Qed.

(* ErrEmptyObject / ErrObjectTooLarge: refused, heap unchanged *)
Lemma insert_sim_err h hp a sz pk : encode_attr a = EncOk sz ->
  heap_insert P hp a = HErr -> FHeap.insert FHeap.cap_new h (enc a) pk = (h, FHeap.Err).
Proof.
  intros He Hi. destruct PM as (_ & _ & Pm & _).
  unfold heap_insert in Hi. rewrite (msg_size_enc _ _ He) in Hi. unfold FHeap.insert. rewrite (enc_len _ _ He).
  destruct (sz =? 0); [reflexivity|]. rewrite <- Pm. destruct (p_maxobj P <? sz); [reflexivity|].
  destruct (hfree hp + sz <=? p_hcap P); discriminate.
Qed.
End Insert.

(* the indirect-root form is never left, and it cannot be written out *)
Lemma put_block_ind h k b : FHeap.h_ind (FHeap.put_block h k b) = FHeap.h_ind h.
Proof. unfold FHeap.put_block. destruct (_ =? _); reflexivity. Qed.

Lemma insert_indirect_ind cap h d p : FHeap.h_ind (fst (FHeap.insert_indirect cap h d p)) = FHeap.h_ind h.
Proof.
  unfold FHeap.insert_indirect. destruct (nth_error _ _) as [[key b]|].
  - cbn [fst FHeap.bump_stats FHeap.h_ind]. apply put_block_ind.
  - destruct (FHeap.h_ind h) eqn:E.
    + destruct (_ <=? _); cbn [fst FHeap.bump_stats FHeap.h_ind]; rewrite ?put_block_ind; cbn [FHeap.h_ind]; reflexivity.
    + cbn [fst FHeap.h_ind]. reflexivity.
Qed.

Lemma insert_ind cap h d p : FHeap.h_ind h <> None -> FHeap.h_ind (fst (FHeap.insert cap h d p)) <> None.
Proof.
  intro H. unfold FHeap.insert. destruct (_ =? 0); [exact H|]. destruct (_ <? _); [exact H|].
  unfold FHeap.needs_transition. destruct (FHeap.h_ind h) eqn:E; [|contradiction].
  rewrite E. rewrite insert_indirect_ind. rewrite E. discriminate.
Qed.

Lemma store_ind h fs : FHeap.h_ind h <> None -> FHeap.store h fs = FHeap.Err.
Proof. intro H. unfold FHeap.store. destruct (FHeap.h_ind h); [reflexivity | contradiction]. Qed.

(* heap full: InsertObject moves the in-memory heap to an indirect root (whatever it answers) *)
Lemma insert_sim_full P h fs hp a sz pk : params_match P -> HSim h fs hp -> encode_attr a = EncOk sz ->
  heap_insert P hp a = HFull -> FHeap.h_ind (fst (FHeap.insert FHeap.cap_new h (enc a) pk)) <> None.
Proof.
  intros (_ & Ph & Pm & _) [HR _] He Hi. rewrite block_cap in Ph.
  unfold heap_insert in Hi. rewrite (msg_size_enc _ _ He) in Hi. unfold FHeap.insert. rewrite (enc_len _ _ He).
  destruct (sz =? 0); [discriminate|]. rewrite <- Pm. destruct (p_maxobj P <? sz); [discriminate|].
  destruct (hfree hp + sz <=? p_hcap P) eqn:E2; [discriminate|].
  destruct HR. cbn [spec_of FHeap.sp_vol] in *.
  unfold FHeap.needs_transition. rewrite R_ind, R_freeoff, R_size, block_cap, <- Ph, E2. cbn [negb].
  cbn [FHeap.transition FHeap.h_ind]. rewrite insert_indirect_ind. cbn [FHeap.transition FHeap.h_ind]. discriminate.
Qed.

(* ------------------------------------------------------------------ GetObject / OverwriteObject / DeleteObject *)

(* an abstract id that addresses a stored object with its length *)
Definition id_live (hp : heap) (id : hid) (a : attr) : Prop :=
  heap_get hp id = Some a /\ snd id = msg_size a /\ fst id < 65536.

Lemma id_live_enc h fs hp id a : HSim h fs hp -> id_live hp id a -> exists sz, encode_attr a = EncOk sz.
Proof.
  intros [_ F] (G & _). unfold heap_get in G. apply assoc_get_in in G. rewrite Forall_forall in F.
  destruct (F _ G) as [_ H]. exact H.
Qed.

Lemma id_live_lookup h fs hp id a : HSim h fs hp -> id_live hp id a ->
  FHeap.lookup (id8 id) (FHeap.sp_live (spec_of hp)) = Some (enc a).
Proof.
  intros [_ F] (G & Hs & Ho). unfold id8. rewrite Hs. cbn [spec_of FHeap.sp_live]. apply lookup_spec; assumption.
Qed.

Lemma get_sim h fs hp id a : HSim h fs hp -> id_live hp id a -> FHeap.get h (id8 id) = FHeap.Ok (enc a).
Proof.
  intros HS L. eapply FHeap.get_R; [exact block_ok | exact (proj1 HS) | eapply id_live_lookup; eassumption].
Qed.

Lemma overwrite_sim h fs hp id old a sz hp' : HSim h fs hp -> id_live hp id old ->
  encode_attr a = EncOk sz -> sz = snd id -> heap_overwrite hp id a = Some hp' ->
  exists h', FHeap.overwrite h (id8 id) (enc a) = (h', FHeap.Ok tt) /\ HSim h' fs hp'.
Proof.
  intros HS L He Hsz Ho. pose proof (id_live_lookup _ _ _ _ _ HS L) as Hl. destruct HS as [HR F].
  destruct L as (G & Hs & Hlt). unfold heap_get in G.
  assert (Hold : FHeap.len (enc old) = msg_size old).
  { apply assoc_get_in in G. rewrite Forall_forall in F. apply (obj_ok_len _ (F _ G)). }
  destruct (FHeap.overwrite_R BLOCK h fs (spec_of hp) (id8 id) (enc a) (enc old) block_ok HR Hl) as (h' & Hov & HR').
  { rewrite (enc_len _ _ He), Hold. congruence. }
  exists h'. split; [exact Hov|].
  unfold heap_overwrite in Ho. destruct (assoc_set (fst id) a (hobjs hp)) as [l|] eqn:E; [|discriminate].
  inversion Ho; subst hp'. split.
  - unfold AttrCompose.spec_of in *. cbn [hobjs hfree FHeap.sp_live FHeap.sp_vol] in *.
    unfold id8 in HR'. rewrite Hs in HR'.
    rewrite (replace_spec (hobjs hp) l (fst id) old a) in HR'; try assumption.
    rewrite (msg_size_enc _ _ He). congruence.
  - cbn [hobjs]. eapply obj_ok_set; [exact F | | exact E]. split; cbn [fst snd]; [assumption|].
    exists sz. assumption.
Qed.

Lemma delete_sim h fs hp id old hp' : HSim h fs hp -> id_live hp id old ->
  heap_delete hp id = Some hp' ->
  exists h', FHeap.delete h (id8 id) = (h', FHeap.Ok tt) /\ HSim h' fs hp'.
Proof.
  intros HS L Hd. pose proof (id_live_lookup _ _ _ _ _ HS L) as Hl. destruct HS as [HR F].
  destruct L as (G & Hs & Hlt). unfold heap_get in G.
  destruct (FHeap.delete_R BLOCK h fs (spec_of hp) (id8 id) (enc old) block_ok HR Hl) as (h' & Hdel & HR').
  exists h'. split; [exact Hdel|].
  unfold heap_delete in Hd. destruct (assoc_del (fst id) (hobjs hp)) as [l|] eqn:E; [|discriminate].
  inversion Hd; subst hp'. split.
  - unfold AttrCompose.spec_of in *. cbn [hobjs hfree FHeap.sp_live FHeap.sp_vol] in *.
    unfold id8 in HR'. rewrite Hs in HR'.
    rewrite (remove_spec (hobjs hp) l (fst id) old) in HR'; assumption.
  - cbn [hobjs]. eapply obj_ok_del; eauto.
Qed.

(* ------------------------------------------------------------------ WriteToFile / WriteAt, then LoadFromFile *)

(* the header and the direct block go to 2048 / 2194 (first allocation of the region, or in place); loading
   the bytes gives a heap in the same relation, and core's reader finds every live object in the bytes *)
Lemma store_load_sim h fs hp : HSim h fs hp ->
  exists fs', FHeap.store h fs = FHeap.Ok (FHeap.set_addrs h 2048 2194, fs', 2048) /\
              FHeap.load BLOCK (FHeap.f_bytes fs') 2048 = FHeap.Ok (FHeap.reloaded BLOCK h) /\
              HSim (FHeap.reloaded BLOCK h) fs' hp /\
              forall id a, id_live hp id a -> FHeap.core_read (FHeap.f_bytes fs') 2048 (id7 id) = FHeap.Ok (enc a).
Proof.
  intros HS. pose proof HS as [HR F].
  destruct (FHeap.store_files BLOCK h fs (spec_of hp) HR) as [nx Hst].
  eexists. split; [exact Hst|]. cbn [FHeap.f_bytes]. split; [|split; [split|]].
  - apply (FHeap.load_after_store BLOCK h fs (spec_of hp) (FHeap.f_bytes fs) block_ok HR).
  - eapply FHeap.R_reloaded; [exact block_ok | exact HR].
  - exact F.
  - intros id a L. pose proof (id_live_lookup _ _ _ _ _ HS L) as Hl.
    pose proof (FHeap.core_read_stored BLOCK h fs (spec_of hp) (FHeap.f_bytes fs) block_ok HR (id8 id) (enc a) Hl) as C.
    exact C.
Qed.

End Heap.
