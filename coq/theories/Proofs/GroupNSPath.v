(* C03: path strings.  For a path in the specification's syntax (render of non-empty, NUL- and
   slash-free names) the Go validators accept it, parsePath splits it at the last component, and the
   specification's own parser is the inverse of render. *)
From HV Require Import Base.Prelude Model.GroupNS Proofs.GroupNSBase Proofs.GroupNSHeap.

Definition sf (n : bytes) : Prop := Forall (fun b => b <> SL) n.

Lemma name_ok_iff : forall n, name_ok n = true <-> (n <> [] /\ nz n /\ sf n).
Proof.
  intro n. unfold name_ok, nz, sf. rewrite andb_true_iff, forallb_forall, !Forall_forall. split.
  - intros [H1 H2]. split; [destruct n; discriminate|]. split; intros b Hb; specialize (H2 b Hb);
      apply andb_true_iff in H2; destruct H2 as [A B]; apply negb_true_iff in A, B; apply N.eqb_neq in A, B; assumption.
  - intros (H1 & H2 & H3). split; [destruct n; [contradiction | reflexivity]|].
    intros b Hb. apply andb_true_iff. split; apply negb_true_iff; apply N.eqb_neq; auto.
Qed.

Lemma name_ok_hname : forall n, name_ok n = true -> hname_ok n.
Proof. intros n H. apply name_ok_iff in H. destruct H as (A & B & _). split; assumption. Qed.

Definition names_ok_l (cs : list name) : Prop := Forall (fun n => name_ok n = true) cs.

(* ---------------------------------------------------------------- render *)
Lemma render_app : forall a b, render (a ++ b) = render a ++ render b.
Proof. induction a as [|n a IH]; intro b; cbn [app render]; [reflexivity|]. rewrite IH, <- app_assoc. reflexivity. Qed.
Lemma render_snoc : forall pcs n, render (pcs ++ [n]) = render pcs ++ SL :: n.
Proof. intros. rewrite render_app. cbn [render]. rewrite app_nil_r. reflexivity. Qed.

Lemma render_starts : forall n cs, starts_with_slash (render (n :: cs)) = true.
Proof. intros. cbn. reflexivity. Qed.

Lemma render_not_slash_only : forall n cs, n <> [] -> is_slash_only (render (n :: cs)) = false.
Proof. intros n cs H. cbn [render]. destruct n as [|b n]; [contradiction|]. cbn. reflexivity. Qed.

Lemma render_not_root_parent : forall n cs, n <> [] -> is_root_parent (render (n :: cs)) = false.
Proof. intros n cs H. unfold is_root_parent. cbn [render]. destruct n as [|b n]; [contradiction|]. cbn. reflexivity. Qed.

Lemma contains_dslash_cons2 : forall a b r,
  contains_dslash (a :: b :: r) = ((a =? SL) && (b =? SL)) || contains_dslash (b :: r).
Proof. reflexivity. Qed.

Lemma contains_dslash_nonslash : forall n b rest, b <> SL -> sf n ->
  contains_dslash (b :: n ++ rest) = contains_dslash rest.
Proof.
  induction n as [|c n IH]; intros b rest Hb Hn.
  - cbn [app]. destruct rest as [|r0 rest]; [reflexivity|]. rewrite contains_dslash_cons2.
    destruct (b =? SL) eqn:E; [apply N.eqb_eq in E; contradiction | reflexivity].
  - inversion Hn; subst. cbn [app]. rewrite contains_dslash_cons2.
    destruct (b =? SL) eqn:E; [apply N.eqb_eq in E; contradiction|]. cbn [andb orb].
    apply (IH c rest); assumption.
Qed.

(* a slash followed by a non-empty slash-free name contributes no "//" *)
Lemma contains_dslash_sf_app : forall n rest, sf n -> n <> [] ->
  contains_dslash (SL :: n ++ rest) = contains_dslash rest.
Proof.
  intros n rest Hsf Hne. destruct n as [|b n]; [contradiction|]. inversion Hsf as [|? ? Hb Hn]; subst.
  cbn [app]. rewrite contains_dslash_cons2.
  destruct (b =? SL) eqn:E; [apply N.eqb_eq in E; contradiction|]. rewrite andb_false_r. cbn [orb].
  apply (contains_dslash_nonslash n b rest); assumption.
Qed.

Lemma render_no_dslash : forall cs, names_ok_l cs -> contains_dslash (render cs) = false.
Proof.
  induction cs as [|n cs IH]; intro H; [reflexivity|].
  inversion H as [|? ? Hn Hcs]; subst. apply name_ok_iff in Hn. destruct Hn as (Hne & _ & Hsf).
  cbn [render]. rewrite contains_dslash_sf_app by assumption. apply IH. assumption.
Qed.

Lemma validate_group_render : forall n cs, names_ok_l (n :: cs) -> validate_group_path (render (n :: cs)) = true.
Proof.
  intros n cs H. inversion H as [|? ? Hn _]; subst. apply name_ok_iff in Hn. destruct Hn as (Hne & _).
  unfold validate_group_path. rewrite render_starts, render_not_slash_only by assumption. reflexivity.
Qed.
Lemma validate_link_render : forall n cs, names_ok_l (n :: cs) -> validate_link_path (render (n :: cs)) = true.
Proof.
  intros n cs H. pose proof (render_no_dslash _ H) as D. inversion H as [|? ? Hn _]; subst.
  apply name_ok_iff in Hn. destruct Hn as (Hne & _).
  unfold validate_link_path. rewrite render_starts, render_not_slash_only, D by assumption. reflexivity.
Qed.

(* ---------------------------------------------------------------- parsePath *)
Lemma last_slash_sf : forall n j acc, sf n -> last_slash_from n j acc = acc.
Proof.
  induction n as [|b n IH]; intros j acc H; [reflexivity|]. inversion H; subst. cbn [last_slash_from].
  destruct (b =? SL) eqn:E; [apply N.eqb_eq in E; contradiction|]. apply IH. assumption.
Qed.
Lemma last_slash_app : forall pre n i acc, sf n ->
  last_slash_from (pre ++ SL :: n) i acc = Some (i + blen pre).
Proof.
  induction pre as [|b pre IH]; intros n i acc H; cbn [app last_slash_from].
  - rewrite N.eqb_refl. rewrite last_slash_sf by assumption. rewrite blen_nil. f_equal. lia.
  - rewrite IH by assumption. rewrite blen_cons. f_equal. nlia.
Qed.

Lemma trim_suffix_nonslash : forall x n, n <> [] -> sf n -> trim_suffix_slash (x ++ n) = x ++ n.
Proof.
  intros x n Hne Hsf. destruct (@exists_last _ n Hne) as [n' [b E]]. subst n.
  apply Forall_app in Hsf. destruct Hsf as [_ Hb]. inversion Hb; subst.
  unfold trim_suffix_slash. rewrite app_assoc, rev_app_distr. cbn [rev app].
  destruct (b =? SL) eqn:E; [apply N.eqb_eq in E; contradiction | reflexivity].
Qed.

Lemma skipn_length_app1 : forall A (a : list A) c x, skipn (length a + 1) (a ++ c :: x) = x.
Proof. induction a as [|y a IH]; intros c x; cbn [length app Nat.add skipn]; auto. Qed.

Lemma parse_path_render : forall pcs n, names_ok_l (pcs ++ [n]) -> parse_path (render (pcs ++ [n])) = (render pcs, n).
Proof.
  intros pcs n H. apply Forall_app in H. destruct H as [Hp Hn]. inversion Hn as [|? ? Hn' _]; subst.
  apply name_ok_iff in Hn'. destruct Hn' as (Hne & _ & Hsf).
  unfold parse_path.
  assert (S0 : is_slash_only (render (pcs ++ [n])) = false).
  { destruct pcs as [|m pcs]; cbn [app].
    - apply render_not_slash_only. assumption.
    - inversion Hp as [|? ? Hm _]; subst. apply name_ok_iff in Hm. apply render_not_slash_only. tauto. }
  rewrite S0. rewrite render_snoc.
  replace (render pcs ++ SL :: n) with ((render pcs ++ [SL]) ++ n) by (rewrite <- app_assoc; reflexivity).
  rewrite trim_suffix_nonslash by assumption. rewrite <- app_assoc. cbn [app].
  unfold last_index_slash. rewrite last_slash_app by assumption. rewrite N.add_0_l.
  match goal with |- context [if ?c then _ else _] => destruct c eqn:E end.
  - apply N.eqb_eq in E. destruct (render pcs) eqn:R; [|rewrite blen_cons in E; nlia].
    cbn [app skipn]. reflexivity.
  - rewrite to_nat_blen, firstn_length_app. f_equal. apply skipn_length_app1.
Qed.

Lemma is_root_parent_render : forall pcs, names_ok_l pcs -> is_root_parent (render pcs) = match pcs with [] => true | _ => false end.
Proof.
  intros [|n pcs] H; [reflexivity|]. inversion H as [|? ? Hn _]; subst. apply name_ok_iff in Hn.
  apply render_not_root_parent. tauto.
Qed.

(* ---------------------------------------------------------------- the specification's parser *)
Fixpoint join (cs : list bytes) : bytes :=
  match cs with [] => [] | c :: r => match r with [] => c | _ => c ++ SL :: join r end end.

Lemma render_join : forall c cs, render (c :: cs) = SL :: join (c :: cs).
Proof.
  intros c cs. revert c. induction cs as [|d cs IH]; intro c.
  - cbn. rewrite app_nil_r. reflexivity.
  - change (render (c :: d :: cs)) with (SL :: c ++ render (d :: cs)). rewrite (IH d).
    change (join (c :: d :: cs)) with (c ++ SL :: join (d :: cs)). reflexivity.
Qed.

Lemma split_slash_nonempty : forall r, split_slash r <> [].
Proof. destruct r as [|b r]; cbn [split_slash]; [discriminate|]. destruct (b =? SL); [discriminate|]. destruct (split_slash r); discriminate. Qed.

Lemma join_split : forall r, join (split_slash r) = r.
Proof.
  induction r as [|b r IH]; [reflexivity|]. cbn [split_slash]. destruct (b =? SL) eqn:E.
  - apply N.eqb_eq in E. subst b. cbn [join]. destruct (split_slash r) eqn:S.
    + exfalso. apply (split_slash_nonempty r). assumption.
    + rewrite IH. reflexivity.
  - destruct (split_slash r) as [|c cs] eqn:S; [exfalso; apply (split_slash_nonempty r); assumption|].
    cbn [join] in *. destruct cs; rewrite <- IH; reflexivity.
Qed.

Lemma split_slash_sf : forall n, sf n -> split_slash n = [n].
Proof.
  induction n as [|b n IH]; intro H; [reflexivity|]. inversion H; subst. cbn [split_slash].
  destruct (b =? SL) eqn:E; [apply N.eqb_eq in E; contradiction|]. rewrite IH by assumption. reflexivity.
Qed.
Lemma split_slash_app : forall n x, sf n -> split_slash (n ++ SL :: x) = n :: split_slash x.
Proof.
  induction n as [|b n IH]; intros x H; cbn [app split_slash].
  - rewrite N.eqb_refl. reflexivity.
  - inversion H; subst. destruct (b =? SL) eqn:E; [apply N.eqb_eq in E; contradiction|].
    rewrite IH by assumption. reflexivity.
Qed.
Lemma split_join : forall c cs, Forall sf (c :: cs) -> split_slash (join (c :: cs)) = c :: cs.
Proof.
  intros c cs. revert c. induction cs as [|d cs IH]; intros c H; inversion H; subst.
  - cbn [join]. apply split_slash_sf. assumption.
  - cbn [join]. rewrite split_slash_app by assumption. f_equal. apply IH. assumption.
Qed.

Lemma split_path_render : forall c cs, names_ok_l (c :: cs) -> split_path (render (c :: cs)) = Some (c :: cs).
Proof.
  intros c cs H. rewrite render_join. unfold split_path. cbv zeta. rewrite N.eqb_refl.
  assert (Hsf : Forall sf (c :: cs)).
  { apply Forall_forall. intros n Hn. unfold names_ok_l in H. rewrite Forall_forall in H. specialize (H n Hn).
    apply name_ok_iff in H. tauto. }
  destruct (join (c :: cs)) eqn:J.
  - exfalso. inversion H as [|? ? Hc _]; subst. apply name_ok_iff in Hc. destruct Hc as (Hne & _).
    destruct cs; cbn [join] in J; [contradiction|]. destruct c; [contradiction | discriminate].
  - rewrite <- J. rewrite split_join by assumption.
    assert (F : forallb name_ok (c :: cs) = true) by (apply forallb_forall; intros n Hn; unfold names_ok_l in H; rewrite Forall_forall in H; auto).
    unfold name, path, bytes, byte in *. rewrite F. reflexivity.
Qed.

Lemma split_path_inv : forall p c cs, split_path p = Some (c :: cs) -> p = render (c :: cs) /\ names_ok_l (c :: cs).
Proof.
  intros p c cs H. unfold split_path in H. destruct p as [|b r]; [discriminate|].
  destruct (b =? SL) eqn:E; [|discriminate]. apply N.eqb_eq in E. subst b.
  destruct r as [|b r]; [discriminate|].
  destruct (forallb name_ok (split_slash (b :: r))) eqn:F; [|discriminate]. injection H as S. split.
  - assert (S2 : split_slash (b :: r) = c :: cs) by exact S. rewrite render_join, <- S2, join_split. reflexivity.
  - assert (S2 : split_slash (b :: r) = c :: cs) by exact S. rewrite <- S2. unfold names_ok_l. apply Forall_forall. rewrite forallb_forall in F. assumption.
Qed.

Lemma path_ok_inv : forall p, path_ok p = true -> exists c cs, split_path p = Some (c :: cs) /\ p = render (c :: cs) /\ names_ok_l (c :: cs).
Proof.
  intros p H. unfold path_ok in H. destruct (split_path p) as [[|c cs]|] eqn:S; try discriminate.
  exists c, cs. split; [reflexivity|]. apply split_path_inv. assumption.
Qed.

Lemma render_inj : forall a b, names_ok_l a -> names_ok_l b -> render a = render b -> a = b.
Proof.
  intros a b Ha Hb E. destruct a as [|c a], b as [|d b]; try reflexivity; try discriminate.
  pose proof (split_path_render _ _ Ha) as S1. pose proof (split_path_render _ _ Hb) as S2. rewrite E in S1. congruence.
Qed.

(* ---------------------------------------------------------------- unsnoc *)
Lemma unsnoc_snoc : forall A (l : list A) x, unsnoc (l ++ [x]) = Some (l, x).
Proof.
  induction l as [|y l IH]; intro x; cbn [app unsnoc]; [reflexivity|]. rewrite IH. reflexivity.
Qed.
Lemma unsnoc_inv : forall A (l i : list A) x, unsnoc l = Some (i, x) -> l = i ++ [x].
Proof.
  induction l as [|y l IH]; intros i x H; cbn [unsnoc] in H; [discriminate|].
  destruct (unsnoc l) as [[i' x']|] eqn:U.
  - inversion H; subst. cbn [app]. f_equal. apply IH. reflexivity.
  - inversion H; subst. destruct l; [reflexivity|]. cbn [unsnoc] in U. destruct (unsnoc l) as [[? ?]|]; discriminate.
Qed.
Lemma unsnoc_cons_some : forall A (x : A) l, exists i y, unsnoc (x :: l) = Some (i, y).
Proof. intros. cbn [unsnoc]. destruct (unsnoc l) as [[i y]|]; eauto. Qed.
