(* C05: the GROUP structures the writer emits (Model/GroupWire.v, byte-exact transcriptions tied by tools/props/c03wire.py)
   against the specification decoders of Spec/FormatNode.v and the cross-structure clauses of the walker Spec/Walk.v.

   For each structure, universally over the well-formed states: the tolerant decoder accepts the writer's bytes with the logical
   content and EXACTLY the deviation tags of KNOWN_FINDINGS.json; strict accepts iff that tag set is empty.
     local heap header   (III.D)   no deviation: strict accepts; the free-list head 1 ends the free list
     symbol table node   (III.B)   snod-over-capacity iff more than 2*leafK entries (leaf K = 4 in the files written: > 8);
                                   heap-name-offset-0 iff an entry's name offset is 0 (always the FIRST link of a group)
     group B-tree node   (III.A.1) node type 0, K = 16: no per-structure deviation
   cross-structure (walker clauses, stated on the predicates Spec/Walk.v evaluates):
     snod-unsorted       the names the walker reads through the node's offsets are the names in CREATION order
     btree1-group-keys   both keys of the writer's node are heap offset 0, so no entry name can lie in (key0, key1] *)
From HV Require Import Base.Prelude Base.Outcome Base.Bytes Model.RobustAlloc Model.RobustGroup
  Spec.Parse Spec.Format Spec.FormatNode Spec.Walk
  Model.GroupWire Proofs.GroupWireHeap Proofs.GroupWireSnod Proofs.GroupWireBTree.

Local Open Scope N_scope.

Lemma Q2 : 256 ^ N.of_nat 2 = 65536. Proof. reflexivity. Qed.
Lemma Q4 : 256 ^ N.of_nat 4 = 4294967296. Proof. reflexivity. Qed.
Lemma Q8 : 256 ^ N.of_nat 8 = 18446744073709551616. Proof. reflexivity. Qed.

(* ================================================================== local heap header (III.D) *)
Lemma spec_lheap_header dss fr da (r : list N) :
  dss < 18446744073709551616 -> fr < 18446744073709551616 -> da < 18446744073709551616 ->
  spec_dec_lheap 8 8 (heap_header dss fr da ++ r) = Ok ({| lh_size := dss; lh_free := fr; lh_addr := da |}, r).
Proof.
  intros H1 H2 H3. unfold spec_dec_lheap, heap_header. change sigHEAP with heap_sig. rewrite <- !app_assoc.
  rewrite p_expect_app. cbn [obind app p_byte]. change (0 =? 0) with true. cbn [guard obind].
  change (0 :: 0 :: 0 :: le 8 dss ++ le 8 fr ++ le 8 da ++ r) with (zeros 3 ++ le 8 dss ++ le 8 fr ++ le 8 da ++ r).
  rewrite p_zeros_app. cbn [obind].
  rewrite p_u_le by (rewrite Q8; exact H1). cbn [obind].
  rewrite p_u_le by (rewrite Q8; exact H2). cbn [obind].
  rewrite p_u_le by (rewrite Q8; exact H3). reflexivity.
Qed.

(* every heap WriteTo emits: the header decodes STRICTLY (the decoder has no tolerance parameter: no deviation exists) to the
   segment size, the free-list head and the address right behind the header; what remains is the data segment *)
Theorem spec_lheap_image h a :
  hw_dss h < 18446744073709551616 -> hw_free h < 18446744073709551616 ->
  spec_dec_lheap 8 8 (heap_image h a) =
    Ok ({| lh_size := hw_dss h; lh_free := hw_free h; lh_addr := wrap64 (a + 32) |}, padded h).
Proof.
  intros H1 H2. rewrite heap_image_eq. apply spec_lheap_header; auto.
  unfold wrap64. apply N.mod_lt. lia.
Qed.

(* the free list of every heap this writer writes (head 1 = H5HL_FREE_NULL) is well-formed for any segment *)
Lemma spec_lheap_free_ok fuel seg : lheap_free_ok fuel 8 seg 1 = true.
Proof. destruct fuel; cbn [lheap_free_ok]; change (1 =? 1) with true; now rewrite orb_true_r. Qed.

(* the walker's name reader on a written segment: names in creation order *)
Lemma heap_str_at (pre nm suf : list N) : nonul nm = true -> heap_str (pre ++ nm ++ 0 :: suf) (blen pre) = Ok nm.
Proof.
  intros H. unfold heap_str. rewrite !blen_app, blen_cons.
  replace (blen pre <? blen pre + (blen nm + (1 + blen suf))) with true by (symmetry; apply N.ltb_lt; blia).
  unfold blen at 1. rewrite Nat2N.id. bnorm. rewrite skipn_app, skipn_all, Nat.sub_diag. cbn [skipn app].
  rewrite p_cstr_app by exact H. reflexivity.
Qed.

Lemma heap_strs_gen (ns : list bytes) : forall (pre rest : list N),
  Forall (fun n => nonul n = true) ns ->
  omapM (heap_str (pre ++ enc_names ns ++ rest)) (name_offs (blen pre) ns) = Ok ns.
Proof.
  induction ns as [|n ns IH]; intros pre rest H; [reflexivity|].
  apply Forall_cons_iff in H as [Hn Hr].
  assert (Hc : enc_names (n :: ns) = n ++ 0 :: enc_names ns) by (unfold enc_names; cbn [flat_map]; now rewrite <- app_assoc).
  rewrite Hc. cbn [name_offs omapM].
  replace (pre ++ (n ++ 0 :: enc_names ns) ++ rest) with (pre ++ n ++ 0 :: (enc_names ns ++ rest))
    by (rewrite <- !app_assoc; reflexivity).
  rewrite heap_str_at by exact Hn. cbn [obind].
  specialize (IH (pre ++ n ++ [0]) rest Hr). rewrite !blen_app, blen_cons, blen_nil in IH.
  replace (blen pre + (blen n + (1 + 0))) with (blen pre + blen n + 1) in IH by blia.
  replace (pre ++ n ++ 0 :: enc_names ns ++ rest) with ((pre ++ n ++ [0]) ++ enc_names ns ++ rest)
    by (rewrite <- !app_assoc; reflexivity).
  rewrite IH. reflexivity.
Qed.

(* ================================================================== symbol table node (III.B) *)
(* what the writer puts into an entry: no cache, reserved 0 (group_write.go :393) *)
Definition sym_plain (e : sym) : bool := sym_ok e && (sy_cache e =? 0) && (sy_res e =? 0).
Definition spec_sym (e : sym) : sym_entry :=
  {| se_name_off := sy_name e; se_obj := sy_obj e; se_cache := 0; se_btree := 0; se_heap := 0; se_link_off := 0 |}.

Lemma sym_plain_spec e : sym_plain e = true ->
  sy_name e < 18446744073709551616 /\ sy_obj e < 18446744073709551616 /\ sy_cache e = 0 /\ sy_res e = 0.
Proof.
  unfold sym_plain. intros H. apply andb_true_iff in H as [H H3]. apply andb_true_iff in H as [H H2].
  destruct (sym_ok_spec e H) as (A & B & _). apply N.eqb_eq in H2, H3. auto.
Qed.

Lemma spec_sym_entry_enc e (r : list N) : sym_plain e = true ->
  spec_dec_sym_entry 8 (enc_sym 8 e ++ r) = Ok (spec_sym e, r).
Proof.
  intros H. destruct (sym_plain_spec e H) as (H1 & H2 & H3 & H4).
  unfold spec_dec_sym_entry, enc_sym, write_address. change (N.to_nat 8) with 8%nat. rewrite H3, H4, <- !app_assoc.
  rewrite p_u_le by (rewrite Q8; exact H1). cbn [obind].
  rewrite p_u_le by (rewrite Q8; exact H2). cbn [obind].
  rewrite p_u_le by (rewrite Q4; lia). cbn [obind].
  change (le 4 0) with (zeros 4). rewrite p_zeros_app. cbn [obind].
  rewrite p_take_app by apply length_zeros. cbn [obind]. reflexivity.
Qed.

Lemma spec_sym_entries_enc es : forall (r : list N), Forall (fun e => sym_plain e = true) es ->
  p_sym_entries 8 (length es) (flat_map (enc_sym 8) es ++ r) = Ok (map spec_sym es, r).
Proof.
  induction es as [|e es IH]; intros r H; [reflexivity|].
  apply Forall_cons_iff in H as [He Hr]. cbn [length p_sym_entries flat_map map]. rewrite <- app_assoc.
  rewrite spec_sym_entry_enc by exact He. cbn [obind]. rewrite IH by exact Hr. reflexivity.
Qed.

Definition has_off0 (s : snode) : bool := existsb (fun e => sy_name e =? 0) (stn_entries s).

(* every node the writer can emit (n <= maxEntries entries, NumSymbols = n < 65536), any tolerance, any group leaf K *)
Theorem spec_snod_bytes tol leafK s m (r : list N) :
  snode_ok s = true -> Forall (fun e => sym_plain e = true) (stn_entries s) -> (length (stn_entries s) <= m)%nat ->
  spec_dec_snod tol 8 leafK (snod_bytes s m ++ r) =
    (tg1 <- devif (2 * leafK <? stn_num s) tol T_snod_over_capacity;;
     tg2 <- devif (has_off0 s) tol T_heap_name_offset_0;;
     Ok (map spec_sym (stn_entries s), tg1 ++ tg2, zeros (40 * (m - length (stn_entries s))) ++ r)).
Proof.
  intros Hok Hp Hm. destruct (snode_ok_spec s Hok) as (Hv & Hn & Hlt & _ & _).
  unfold spec_dec_snod, snod_bytes. change sigSNOD with snod_sig. rewrite <- !app_assoc.
  rewrite p_expect_app. cbn [obind app p_byte]. rewrite Hv. change (1 =? 1) with true. cbn [guard obind].
  change (0 :: le 2 (stn_num s) ++ flat_map (enc_sym 8) (firstn m (stn_entries s)) ++ zeros (40 * (m - length (stn_entries s))) ++ r)
    with (zeros 1 ++ le 2 (stn_num s) ++ flat_map (enc_sym 8) (firstn m (stn_entries s)) ++ zeros (40 * (m - length (stn_entries s))) ++ r).
  rewrite p_zeros_app. cbn [obind].
  rewrite p_u_le by (rewrite Q2; exact Hlt). cbn [obind].
  destruct (devif (2 * leafK <? stn_num s) tol T_snod_over_capacity) as [tg1| |]; cbn [obind]; try reflexivity.
  rewrite firstn_all2 by exact Hm.
  replace (N.to_nat (stn_num s)) with (length (stn_entries s)) by (rewrite Hn; unfold llen; lia).
  rewrite spec_sym_entries_enc by exact Hp. cbn [obind].
  replace (existsb (fun e : sym_entry => se_name_off e =? 0) (map spec_sym (stn_entries s))) with (has_off0 s).
  - destruct (devif (has_off0 s) tol T_heap_name_offset_0); reflexivity.
  - unfold has_off0. clear. induction (stn_entries s) as [|e es IH]; cbn [existsb map]; [reflexivity|].
    rewrite <- IH. reflexivity.
Qed.

Definition snod_tags (leafK : N) (s : snode) : list tag :=
  (if 2 * leafK <? stn_num s then [T_snod_over_capacity] else []) ++ (if has_off0 s then [T_heap_name_offset_0] else []).

Theorem spec_snod_tolerant leafK s m (r : list N) :
  snode_ok s = true -> Forall (fun e => sym_plain e = true) (stn_entries s) -> (length (stn_entries s) <= m)%nat ->
  spec_dec_snod tolerant 8 leafK (snod_bytes s m ++ r) =
    Ok (map spec_sym (stn_entries s), snod_tags leafK s, zeros (40 * (m - length (stn_entries s))) ++ r).
Proof.
  intros. rewrite spec_snod_bytes by assumption. unfold snod_tags, devif, dev, tolerant.
  destruct (2 * leafK <? stn_num s), (has_off0 s); reflexivity.
Qed.

(* strict accepts iff the tag set is empty *)
Theorem spec_snod_strict leafK s m (r : list N) :
  snode_ok s = true -> Forall (fun e => sym_plain e = true) (stn_entries s) -> (length (stn_entries s) <= m)%nat ->
  spec_dec_snod strict 8 leafK (snod_bytes s m ++ r) =
    match snod_tags leafK s with
    | [] => Ok (map spec_sym (stn_entries s), [], zeros (40 * (m - length (stn_entries s))) ++ r)
    | _ => Err
    end.
Proof.
  intros. rewrite spec_snod_bytes by assumption. unfold snod_tags, devif, dev, strict.
  destruct (2 * leafK <? stn_num s), (has_off0 s); reflexivity.
Qed.

(* finding C05-heap-name-offset-0, universally: the first AddString of a group's heap returns offset 0, so every written node
   with at least one link carries the tag and strict rejects it *)
Theorem snod_heap_name_offset_0 leafK s m e es (r : list N) :
  snode_ok s = true -> Forall (fun e => sym_plain e = true) (stn_entries s) -> (length (stn_entries s) <= m)%nat ->
  stn_entries s = e :: es -> sy_name e = 0 ->
  spec_dec_snod strict 8 leafK (snod_bytes s m ++ r) = Err /\
  In T_heap_name_offset_0 (snod_tags leafK s).
Proof.
  intros Hok Hp Hm He H0. rewrite spec_snod_strict by assumption.
  assert (Ho : has_off0 s = true) by (unfold has_off0; rewrite He; cbn [existsb]; rewrite H0; reflexivity).
  unfold snod_tags. rewrite Ho. split.
  - destruct (2 * leafK <? stn_num s); reflexivity.
  - apply in_or_app. right. left. reflexivity.
Qed.

(* finding C05-snod-over-capacity, universally: leaf K = 4 (what the written superblocks say), more than 8 links *)
Theorem snod_over_capacity s m (r : list N) :
  snode_ok s = true -> Forall (fun e => sym_plain e = true) (stn_entries s) -> (length (stn_entries s) <= m)%nat ->
  (spec_dec_snod strict 8 4 (snod_bytes s m ++ r) = Err <-> (8 < stn_num s \/ has_off0 s = true)) /\
  (In T_snod_over_capacity (snod_tags 4 s) <-> 8 < stn_num s).
Proof.
  intros Hok Hp Hm. rewrite spec_snod_strict by assumption. unfold snod_tags. change (2 * 4) with 8.
  destruct (8 <? stn_num s) eqn:E; [apply N.ltb_lt in E | apply N.ltb_ge in E]; destruct (has_off0 s); cbn [app In];
    (split; split; intros X; auto; try discriminate; try lia; try (destruct X as [X|X]; try discriminate; try lia);
     try (destruct X as [X|X]; try discriminate; try contradiction)).
Qed.

(* ================================================================== group B-tree node (III.A.1, node type 0) *)
Definition spec_group_node (b : btnode) (kcs : list (N * N)) : btree1_spec :=
  {| b1_type := 0; b1_level := 0; b1_n := N.of_nat (length kcs); b1_left := btn_left b; b1_right := btn_right b;
     b1_keys := map (fun kc => [fst kc]) kcs ++ [[0]]; b1_children := map snd kcs |}.

Lemma spec_group_entries kcs : forall (r : list N),
  Forall (fun kc => fst kc < 18446744073709551616 /\ snd kc < 18446744073709551616) kcs ->
  p_entries 8 8 0 0 (length kcs) (flat_map enc_pair kcs ++ r) = Ok (map (fun kc => [fst kc]) kcs, map snd kcs, r).
Proof.
  induction kcs as [|[key ch] kcs IH]; intros r H; [reflexivity|].
  apply Forall_cons_iff in H as [[Hk Hc] Hr]. cbn [fst snd] in Hk, Hc.
  cbn [length p_entries flat_map map]. unfold p_key. change (0 =? 0) with true. cbv iota.
  change (enc_pair (key, ch)) with (le 8 key ++ le 8 ch). cbn [fst snd]. rewrite <- !app_assoc.
  rewrite p_u_le by (rewrite Q8; exact Hk). cbn [obind].
  rewrite p_u_le by (rewrite Q8; exact Hc). cbn [obind].
  rewrite IH by exact Hr. reflexivity.
Qed.

(* every group node of at most 2K = 32 pairs, K = 16: accepted by ANY tolerance (so by strict) with no deviation *)
Theorem spec_group_btree tol b kcs (r : list N) :
  bt_group_ok b kcs -> Forall (fun kc => fst kc < 18446744073709551616) kcs -> (length kcs <= 32)%nat ->
  spec_dec_btree1 tol 8 8 0 0 16 (bt_bytes b kcs 32 ++ r) =
    Ok (spec_group_node b kcs, [], zeros (16 * (32 - length kcs)) ++ r).
Proof.
  intros (Hp & Ht & Hl & Hu & Hlt & Hrt & Hcs) Hks Hn.
  unfold spec_dec_btree1, bt_bytes, bt_header. change sigTREE with tree_sig. rewrite <- !app_assoc.
  rewrite p_expect_app. cbn [obind app p_byte]. rewrite Ht, Hl. change (0 =? 0) with true. cbn [guard obind].
  rewrite p_u_le by (rewrite Q2, Hu; lia). cbn [obind]. rewrite Hu.
  change (2 * 16) with 32. replace (32 <? N.of_nat (length kcs)) with false by (symmetry; apply N.ltb_ge; lia).
  cbn [devif obind].
  rewrite p_u_le by (rewrite Q8; exact Hlt). cbn [obind].
  rewrite p_u_le by (rewrite Q8; exact Hrt). cbn [obind].
  rewrite Nat2N.id. rewrite spec_group_entries.
  2:{ apply Forall_forall. intros kc Hin. split; [exact (proj1 (Forall_forall _ _) Hks kc Hin) | exact (proj1 (Forall_forall _ _) Hcs kc Hin)]. }
  cbn [obind]. unfold p_key. change (0 =? 0) with true. cbv iota.
  replace (zeros (16 * (32 - length kcs)) ++ zeros 8 ++ r) with (le 8 0 ++ zeros (16 * (32 - length kcs)) ++ r).
  - rewrite p_u_le by (rewrite Q8; lia). reflexivity.
  - rewrite le8_0, !app_assoc. f_equal. rewrite <- !zeros_add. f_equal. lia.
Qed.

(* finding C05-btree1-group-keys: the clause the walker evaluates for a child - every name is greater than the name at key i and
   not greater than the name at key i+1 - is false for EVERY non-empty child when both keys name the same string; the writer's
   node has keys (0, 0) (writer_node) and never updates them *)
Theorem group_keys_clause_fails lo (ents : list gentry) :
  ents <> [] -> forallb (fun e => bytes_ltb lo (ge_name e) && bytes_leb (ge_name e) lo) ents = false.
Proof.
  intros H. destruct ents as [|e r]; [congruence|]. cbn [forallb]. unfold bytes_leb.
  now rewrite andb_negb_r.
Qed.

(* ================================================================== examples *)
Example ex_snod_spec :
  snode_ok ex_snode = true /\ Forall (fun e => sym_plain e = true) (stn_entries ex_snode) /\
  spec_dec_snod strict 8 4 (snod_bytes ex_snode 32) = Err /\
  spec_dec_snod tolerant 8 4 (snod_bytes ex_snode 32) =
    Ok (map spec_sym (stn_entries ex_snode), [T_heap_name_offset_0], zeros 1200).
Proof. repeat split; try (repeat constructor); vm_compute; reflexivity. Qed.
