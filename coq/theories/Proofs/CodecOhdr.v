(* Lemmas for C11, group 5 (object header v2; v1 refutation). *)
From HV Require Import Base.Prelude Base.Outcome Base.Bytes Model.CodecOhdr.

Lemma wrap64_small n : n < 18446744073709551616 -> wrap64 n = n.
Proof. intros. unfold wrap64. apply N.mod_small; auto. Qed.

Lemma blen_enc_msg_v2 m : blen (enc_msg_v2 m) = 4 + blen (hm_data m).
Proof. unfold enc_msg_v2. rewrite !blen_app, blen_le. unfold blen; cbn [length]. blia. Qed.

Lemma blen_body_v2 ms : blen (body_v2 ms) = chunk_size_v2 ms.
Proof.
  induction ms as [|m r IH]; [reflexivity|].
  unfold body_v2 in *. cbn [map concat chunk_size_v2 fold_right]. rewrite blen_app, blen_enc_msg_v2, IH.
  reflexivity.
Qed.

Lemma wf_msg_v2_inv m : wf_msg_v2 m = true -> hm_type m < 256 /\ 1 <= blen (hm_data m) /\ (hm_type m =? MSG_CONT) = false.
Proof.
  unfold wf_msg_v2. intros H. apply andb_true_iff in H as [H _]. apply andb_true_iff in H as [H H2].
  apply andb_true_iff in H as [H1 H3].
  apply N.ltb_lt in H1. apply N.leb_le in H2. apply negb_true_iff in H3. auto.
Qed.

(* the message loop returns exactly the written messages *)
Lemma v2_loop_msgs (ms : list hmsg) : forall (pre suf : list N) (fuel : nat) (E : N),
  forallb wf_msg_v2 ms = true ->
  Forall (fun m => blen (hm_data m) < 65536) ms ->
  1 <= blen suf ->
  (length ms < fuel)%nat ->
  E + 4 = blen pre + blen (body_v2 ms) ->
  blen pre + blen (body_v2 ms) + 8 < 18446744073709551616 ->
  v2_loop fuel (pre ++ body_v2 ms ++ suf) false 4 (blen pre) E = Ok (msgs_at_v2 ms (blen pre)).
Proof.
  induction ms as [|m r IH]; intros pre suf fuel E Hwf Hlen Hsuf Hfuel HE Hsmall.
  - destruct fuel as [|fuel]; [cbn [length] in Hfuel; blia|].
    cbn [v2_loop msgs_at_v2]. unfold body_v2 in HE. cbn [map concat] in HE.
    replace (blen pre <? E) with false by (symmetry; apply N.ltb_ge; unfold blen in *; cbn [length] in *; blia).
    reflexivity.
  - destruct fuel as [|fuel]; [cbn [length] in Hfuel; blia|].
    cbn [forallb] in Hwf. apply andb_true_iff in Hwf as [Hm Hr].
    apply wf_msg_v2_inv in Hm as (Hty & Hd1 & Hnc).
    inversion Hlen as [|? ? Hd2 Hlr]; subst.
    destruct m as [ty data]; cbn [hm_type hm_data] in *.
    assert (Hbody : body_v2 ({| hm_type := ty; hm_data := data |} :: r)
                    = [ty] ++ le 2 (blen data) ++ [0] ++ data ++ body_v2 r).
    { unfold body_v2. cbn [map concat]. unfold enc_msg_v2. cbn [hm_type hm_data].
      unfold wrap8, wrap16. rewrite !N.mod_small by blia. rewrite <- !app_assoc. reflexivity. }
    assert (Hbl : blen (body_v2 ({| hm_type := ty; hm_data := data |} :: r)) = 4 + blen data + blen (body_v2 r)).
    { rewrite Hbody, !blen_app, blen_le. unfold blen; cbn [length]. blia. }
    rewrite Hbl in *. rewrite Hbody.
    cbn [v2_loop msgs_at_v2]. cbn [hm_type hm_data].
    match goal with |- context [v2_loop _ ?f _ _ _ _] => set (file := f) end.
    assert (Hfl : blen file = blen pre + 4 + blen data + blen (body_v2 r) + blen suf).
    { subst file. rewrite !blen_app, blen_le. unfold blen; cbn [length]. blia. }
    assert (F1 : file = pre ++ ty :: (le 2 (blen data) ++ [0] ++ data ++ body_v2 r ++ suf))
      by (subst file; rewrite <- !app_assoc; reflexivity).
    assert (F2 : file = (pre ++ [ty]) ++ le 2 (blen data) ++ ([0] ++ data ++ body_v2 r ++ suf))
      by (subst file; rewrite <- !app_assoc; reflexivity).
    assert (F3 : file = (pre ++ [ty] ++ le 2 (blen data) ++ [0]) ++ data ++ (body_v2 r ++ suf))
      by (subst file; rewrite <- !app_assoc; reflexivity).
    assert (F4 : file = (pre ++ [ty] ++ le 2 (blen data) ++ [0] ++ data) ++ body_v2 r ++ suf)
      by (subst file; rewrite <- !app_assoc; reflexivity).
    assert (Hp : blen (pre ++ [ty] ++ le 2 (blen data) ++ [0] ++ data) = blen pre + 4 + blen data)
      by (rewrite !blen_app, blen_le; unfold blen; cbn [length]; blia).
    clearbody file. bnorm.
    replace (blen pre <? E) with true by (symmetry; apply N.ltb_lt; blia).
    unfold readable. rewrite Hfl.
    replace (blen pre + 6 <=? blen pre + 4 + blen data + blen (body_v2 r) + blen suf) with true
      by (symmetry; apply N.leb_le; blia).
    cbn [negb].
    (* type byte *)
    rewrite F1 at 1. rewrite index_app by reflexivity. cbn [obind].
    (* size *)
    rewrite F2 at 1.
    rewrite (rd_le_at (pre ++ [ty]) 2 2 (blen data)) by (auto; rewrite ?blen_app; unfold blen; cbn [length]; blia).
    cbn [obind].
    replace (blen data =? 0) with false by (symmetry; apply N.eqb_neq; blia).
    rewrite !wrap64_small by blia.
    replace (blen pre + 4 + blen data <=? blen pre + 4 + blen data + blen (body_v2 r) + blen suf) with true
      by (symmetry; apply N.leb_le; blia).
    cbn [negb].
    (* data *)
    rewrite F3 at 1.
    rewrite (slice_app' (pre ++ [ty] ++ le 2 (blen data) ++ [0]) data (body_v2 r ++ suf))
      by (rewrite ?blen_app, ?blen_le; unfold blen; cbn [length]; blia).
    cbn [obind]. rewrite Hnc.
    (* rest *)
    rewrite F4.
    rewrite <- Hp.
    pose proof (IH (pre ++ [ty] ++ le 2 (blen data) ++ [0] ++ data) suf fuel E Hr Hlr Hsuf) as Q.
    bnorm.
    rewrite Q;
      [ cbn [obind]; rewrite ?Hp; reflexivity
      | cbn [length] in Hfuel; blia
      | rewrite Hp; blia
      | rewrite Hp; blia ].
Qed.

(* flag bits *)
Lemma land_bit_false f k mask : N.land f mask = 0 -> N.testbit mask k = true -> N.testbit f k = false.
Proof.
  intros H Hm. assert (T : N.testbit (N.land f mask) k = false) by (rewrite H; apply N.bits_0).
  rewrite N.land_spec, Hm, andb_true_r in T. exact T.
Qed.

Lemma wf_ohdr_v2_inv x : wf_ohdr_v2 x = true ->
  oh_version x = 2 /\ oh_flags x < 256 /\ N.land (oh_flags x) 55 = 0 /\
  chunk_size_v2 (oh_msgs x) <= 255 /\ forallb wf_msg_v2 (oh_msgs x) = true.
Proof.
  unfold wf_ohdr_v2, encok_ohdr_v2. intros H.
  apply andb_true_iff in H as [H H5]. apply andb_true_iff in H as [H H4].
  apply andb_true_iff in H as [H H3]. apply andb_true_iff in H as [H1 H2].
  apply N.eqb_eq in H1, H3. apply N.ltb_lt in H2. apply N.leb_le in H4. auto.
Qed.

Lemma chunk_bound_each ms : chunk_size_v2 ms <= 255 -> Forall (fun m => blen (hm_data m) < 65536) ms.
Proof.
  induction ms as [|m r IH]; intros H; constructor.
  - cbn [chunk_size_v2 fold_right] in H. fold (chunk_size_v2 r) in H. blia.
  - apply IH. cbn [chunk_size_v2 fold_right] in H. fold (chunk_size_v2 r) in H. blia.
Qed.

Lemma ohdr_v2_blen x : blen (enc_ohdr_v2 x) = size_ohdr_v2 x.
Proof.
  unfold enc_ohdr_v2, size_ohdr_v2. rewrite !blen_app, blen_body_v2. unfold blen; cbn [length]. blia.
Qed.

Lemma ohdr_v2_roundtrip x (pre suf : list N) sbBE :
  wf_ohdr_v2 x = true -> 1 <= blen suf ->
  blen pre + size_ohdr_v2 x + 8 < 9223372036854775808 ->
  dec_ohdr sbBE (pre ++ enc_ohdr_v2 x ++ suf) (blen pre) = Ok (proj_ohdr_v2 sbBE x (blen pre)).
Proof.
  intros Hwf Hsuf Hsmall.
  apply wf_ohdr_v2_inv in Hwf as (Hv & Hf & Hmask & Hcs & Hms).
  destruct x as [ver flags refc ms]; cbn [oh_version oh_flags oh_refcount oh_msgs] in *. subst ver.
  unfold size_ohdr_v2 in Hsmall. cbn [oh_msgs] in Hsmall.
  set (cs := chunk_size_v2 ms) in *.
  assert (Hbody : blen (body_v2 ms) = cs) by apply blen_body_v2.
  unfold enc_ohdr_v2. cbn [oh_version oh_flags oh_msgs]. fold cs.
  assert (Hw : wrap8 cs = cs) by (unfold wrap8; apply N.mod_small; blia). rewrite Hw.
  (* the byte after the 7-byte prefix exists: body ++ suf is not empty *)
  assert (ET : exists t0 T, body_v2 ms ++ suf = t0 :: T).
  { destruct suf as [|s0 S]; [exfalso; unfold blen in Hsuf; cbn [length] in Hsuf; blia|].
    destruct (body_v2 ms) as [|b0 B]; cbn [app]; eauto. }
  destruct ET as (t0 & T & ET).
  match goal with |- context [dec_ohdr _ ?f _] => set (file := f) end.
  assert (F0 : file = pre ++ [79; 72; 68; 82; 2; flags; cs; t0] ++ T).
  { subst file. rewrite <- !app_assoc. cbn [app]. bnorm. rewrite ET. reflexivity. }
  assert (Hfl : blen file = blen pre + 7 + cs + blen suf).
  { subst file. rewrite !blen_app, Hbody. unfold blen; cbn [length]. blia. }
  assert (F1 : file = (pre ++ [79; 72; 68; 82; 2; flags]) ++ le 1 cs ++ (body_v2 ms ++ suf)).
  { subst file. rewrite <- !app_assoc. cbn [app le]. rewrite N.mod_small by blia. reflexivity. }
  assert (F2 : file = (pre ++ [79; 72; 68; 82; 2; flags; cs]) ++ body_v2 ms ++ suf)
    by (subst file; rewrite <- !app_assoc; reflexivity).
  assert (Hp : blen (pre ++ [79; 72; 68; 82; 2; flags; cs]) = blen pre + 6 + 1)
    by (rewrite blen_app; unfold blen; cbn [length]; blia).
  assert (Hloop : v2_loop (S (length file)) ((pre ++ [79; 72; 68; 82; 2; flags; cs]) ++ body_v2 ms ++ suf) false 4
                    (blen (pre ++ [79; 72; 68; 82; 2; flags; cs])) (blen pre + 3 + cs)
                  = Ok (msgs_at_v2 ms (blen (pre ++ [79; 72; 68; 82; 2; flags; cs])))).
  { apply v2_loop_msgs; auto.
    - apply chunk_bound_each. fold cs. exact Hcs.
    - assert (L : N.of_nat (length ms) <= cs).
      { clear. subst cs. induction ms as [|m r IH]; [cbn; blia|].
        cbn [length chunk_size_v2 fold_right]. fold (chunk_size_v2 r). blia. }
      unfold blen in Hfl. blia.
    - rewrite Hp, Hbody. blia.
    - rewrite Hp, Hbody. blia. }
  clearbody file. bnorm. rewrite <- F2 in Hloop.
  unfold dec_ohdr.
  replace (9223372036854775808 <=? blen pre) with false by (symmetry; apply N.leb_gt; blia).
  unfold readable at 1. rewrite Hfl.
  replace (blen pre + 8 <=? blen pre + 7 + cs + blen suf) with true by (symmetry; apply N.leb_le; blia).
  cbn [negb].
  rewrite F0 at 1.
  rewrite (slice_app' pre [79; 72; 68; 82; 2; flags; cs; t0] T) by (auto; unfold blen; cbn [length]; blia).
  cbn [obind].
  change (bytes_eqb (firstn 4 [79; 72; 68; 82; 2; flags; cs; t0]) OHDR) with true. cbv iota.
  change (index [79; 72; 68; 82; 2; flags; cs; t0] 4) with (@Ok N 2).
  change (index [79; 72; 68; 82; 2; flags; cs; t0] 5) with (@Ok N flags).
  cbn [obind]. change (2 =? 1) with false. change (2 =? 2) with true. cbv iota.
  (* parse_v2 *)
  unfold parse_v2.
  rewrite (land_bit_false flags 5 55 Hmask) by reflexivity.
  rewrite (land_bit_false flags 4 55 Hmask) by reflexivity.
  rewrite (land_bit_false flags 2 55 Hmask) by reflexivity.
  assert (H3 : N.land flags 3 = 0).
  { change 3 with (N.land 55 3). rewrite N.land_assoc, Hmask. reflexivity. }
  rewrite H3. change (N.shiftl 1 0) with 1.
  rewrite !wrap64_small by blia.
  unfold readable at 1. rewrite Hfl.
  replace (blen pre + 6 + 1 <=? blen pre + 7 + cs + blen suf) with true by (symmetry; apply N.leb_le; blia).
  cbn [negb andb].
  change (1 =? 1) with true. cbn [negb andb].
  rewrite F1 at 1.
  rewrite (rd_le_at (pre ++ [79; 72; 68; 82; 2; flags]) 1 1 cs)
    by (auto; rewrite ?blen_app; unfold blen; cbn [length]; blia).
  cbn [obind].
  rewrite !wrap64_small by blia.
  assert (Hend : sub64 (blen pre + 6 + 1 + cs) 4 = blen pre + 3 + cs).
  { unfold sub64. change (4 mod 18446744073709551616) with 4.
    replace (blen pre + 6 + 1 + cs + 18446744073709551616 - 4) with (blen pre + 3 + cs + 1 * 18446744073709551616) by blia.
    rewrite N.mod_add by blia. apply N.mod_small. blia. }
  rewrite Hend.
  rewrite <- Hp. bnorm. rewrite Hloop.
  cbn [obind]. unfold proj_ohdr_v2. cbn [oh_flags oh_msgs]. rewrite Hp.
  replace (blen pre + 6 + 1) with (blen pre + 7) by blia. reflexivity.
Qed.

(* with nothing after the header in the file, a header whose last message has one byte of data is
   rejected: the reader always fetches 6 bytes for a message header *)
Lemma ohdr_v2_eof_quirk :
  exists x, wf_ohdr_v2 x = true /\ dec_ohdr false (enc_ohdr_v2 x) 0 = Err.
Proof.
  exists {| oh_version := 2; oh_flags := 0; oh_refcount := 1;
            oh_msgs := [ {| hm_type := 1; hm_data := [7] |} ] |}.
  vm_compute. split; reflexivity.
Qed.

(* version 1: the size field counts 16 + 8 per message instead of the message bytes, so the reader stops
   early: the second message of the witness is lost *)
Lemma ohdr_v1_refuted :
  exists x, oh_version x = 1 /\
    dec_ohdr false (enc_ohdr_v1_gen false x ++ [0]) 0 <> Ok (proj_ohdr_v1 x 0).
Proof.
  exists ohdr_v1_witness. split; [reflexivity|]. vm_compute. discriminate.
Qed.

(* the same witness under the repaired size field *)
Lemma ohdr_v1_witness_repaired :
  dec_ohdr false (enc_ohdr_v1_gen true ohdr_v1_witness ++ [0]) 0 = Ok (proj_ohdr_v1 ohdr_v1_witness 0).
Proof. vm_compute. reflexivity. Qed.

(* ------------------------------------------------------------------ version 1, repaired size field *)

Lemma pad_to8_ge n : n <= pad_to8 n.
Proof. unfold pad_to8. destruct (n mod 8 =? 0); blia. Qed.
Lemma pad_to8_lt n : pad_to8 n < n + 8.
Proof.
  unfold pad_to8. destruct (N.eqb_spec (n mod 8) 0); [blia|].
  assert (n mod 8 < 8) by (apply N.mod_lt; discriminate). blia.
Qed.

Lemma blen_enc_msg_v1 m : blen (enc_msg_v1 m) = pad_to8 (8 + blen (hm_data m)).
Proof.
  unfold enc_msg_v1. rewrite !blen_app, !blen_le, blen_zeros.
  pose proof (pad_to8_ge (8 + blen (hm_data m))). unfold blen in *; cbn [length]. blia.
Qed.

Lemma blen_body_v1 ms : blen (body_v1 ms) = msgs_size_v1 ms.
Proof.
  induction ms as [|m r IH]; [reflexivity|].
  unfold body_v1 in *. cbn [map concat msgs_size_v1 fold_right]. rewrite blen_app, blen_enc_msg_v1, IH.
  reflexivity.
Qed.

Lemma wf_msg_v1_inv m : wf_msg_v1 m = true ->
  hm_type m < 65536 /\ (hm_type m =? MSG_CONT) = false /\ 1 <= blen (hm_data m) /\ blen (hm_data m) < 65536.
Proof.
  unfold wf_msg_v1. intros H. apply andb_true_iff in H as [H H4]. apply andb_true_iff in H as [H H3].
  apply andb_true_iff in H as [H1 H2].
  apply N.ltb_lt in H1, H4. apply N.leb_le in H3. apply negb_true_iff in H2. auto.
Qed.

Lemma v1_loop_msgs (ms : list hmsg) : forall (pre suf : list N) (fuel : nat) (E count num : N),
  forallb wf_msg_v1 ms = true ->
  (length ms < fuel)%nat ->
  E = blen pre + blen (body_v1 ms) ->
  count + N.of_nat (length ms) = num -> num <= 65535 ->
  blen pre + blen (body_v1 ms) + 16 < 18446744073709551616 ->
  v1_loop fuel (pre ++ body_v1 ms ++ suf) false (blen pre) E count num = Ok (msgs_at_v1 ms (blen pre)).
Proof.
  induction ms as [|m r IH]; intros pre suf fuel E count num Hwf Hfuel HE Hcnt Hnum Hsmall.
  - destruct fuel as [|fuel]; [cbn [length] in Hfuel; blia|].
    cbn [v1_loop msgs_at_v1]. unfold body_v1 in HE. cbn [map concat] in HE.
    replace (blen pre <? E) with false by (symmetry; apply N.ltb_ge; unfold blen in *; cbn [length] in *; blia).
    reflexivity.
  - destruct fuel as [|fuel]; [cbn [length] in Hfuel; blia|].
    cbn [forallb] in Hwf. apply andb_true_iff in Hwf as [Hm Hr].
    apply wf_msg_v1_inv in Hm as (Hty & Hnc & Hd1 & Hd2).
    destruct m as [ty data]; cbn [hm_type hm_data] in *.
    set (P := pad_to8 (8 + blen data)) in *.
    assert (HP1 : 8 + blen data <= P) by apply pad_to8_ge.
    assert (HP2 : P < 8 + blen data + 8) by apply pad_to8_lt.
    set (Z := zeros (N.to_nat (P - (8 + blen data)))).
    assert (HZ : blen Z = P - (8 + blen data)) by (subst Z; rewrite blen_zeros; blia).
    assert (Hbody : body_v1 ({| hm_type := ty; hm_data := data |} :: r)
                    = le 2 ty ++ le 2 (blen data) ++ [0; 0; 0; 0] ++ data ++ Z ++ body_v1 r).
    { unfold body_v1. cbn [map concat]. unfold enc_msg_v1. cbn [hm_type hm_data].
      unfold wrap16. rewrite !N.mod_small by blia. rewrite <- !app_assoc. reflexivity. }
    assert (Hbl : blen (body_v1 ({| hm_type := ty; hm_data := data |} :: r)) = P + blen (body_v1 r)).
    { rewrite Hbody, !blen_app, !blen_le, HZ. unfold blen; cbn [length]. unfold blen in HP1. blia. }
    rewrite Hbl in *. rewrite Hbody.
    cbn [v1_loop msgs_at_v1]. cbn [hm_type hm_data].
    match goal with |- context [v1_loop _ ?f _ _ _ _ _] => set (file := f) end.
    assert (Hfl : blen file = blen pre + P + blen (body_v1 r) + blen suf).
    { subst file. rewrite !blen_app, !blen_le, HZ. unfold blen; cbn [length]. unfold blen in HP1. blia. }
    assert (F1 : file = pre ++ le 2 ty ++ (le 2 (blen data) ++ [0; 0; 0; 0] ++ data ++ Z ++ body_v1 r ++ suf))
      by (subst file; rewrite <- !app_assoc; reflexivity).
    assert (F2 : file = (pre ++ le 2 ty) ++ le 2 (blen data) ++ ([0; 0; 0; 0] ++ data ++ Z ++ body_v1 r ++ suf))
      by (subst file; rewrite <- !app_assoc; reflexivity).
    assert (F3 : file = (pre ++ le 2 ty ++ le 2 (blen data) ++ [0; 0; 0; 0]) ++ data ++ (Z ++ body_v1 r ++ suf))
      by (subst file; rewrite <- !app_assoc; reflexivity).
    assert (F4 : file = (pre ++ le 2 ty ++ le 2 (blen data) ++ [0; 0; 0; 0] ++ data ++ Z) ++ body_v1 r ++ suf)
      by (subst file; rewrite <- !app_assoc; reflexivity).
    assert (Hp : blen (pre ++ le 2 ty ++ le 2 (blen data) ++ [0; 0; 0; 0] ++ data ++ Z) = blen pre + P)
      by (rewrite !blen_app, !blen_le, HZ; unfold blen; cbn [length]; unfold blen in HP1; blia).
    clearbody file. bnorm.
    replace (blen pre <? E) with true by (symmetry; apply N.ltb_lt; blia).
    replace (num <=? count) with false by (symmetry; apply N.leb_gt; cbn [length] in Hcnt; blia).
    rewrite !wrap64_small by blia.
    replace (E <? blen pre + 8) with false by (symmetry; apply N.ltb_ge; blia).
    unfold readable. rewrite Hfl.
    replace (blen pre + 8 <=? blen pre + P + blen (body_v1 r) + blen suf) with true
      by (symmetry; apply N.leb_le; blia).
    cbn [negb]. unfold rd_end.
    rewrite F1 at 1. rewrite (rd_le_at pre 2 2 ty) by auto. cbn [obind].
    rewrite F2 at 1.
    rewrite (rd_le_at (pre ++ le 2 ty) 2 2 (blen data)) by (auto; rewrite ?blen_app, ?blen_le; blia).
    cbn [obind].
    replace (blen data =? 0) with false by (symmetry; apply N.eqb_neq; blia).
    fold P. rewrite !wrap64_small by blia.
    replace (E <? blen pre + 8 + blen data) with false by (symmetry; apply N.ltb_ge; blia).
    replace (blen pre + 8 + blen data <=? blen pre + P + blen (body_v1 r) + blen suf) with true
      by (symmetry; apply N.leb_le; blia).
    cbn [negb].
    rewrite F3 at 1.
    rewrite (slice_app' (pre ++ le 2 ty ++ le 2 (blen data) ++ [0; 0; 0; 0]) data (Z ++ body_v1 r ++ suf))
      by (rewrite ?blen_app, ?blen_le; unfold blen; cbn [length]; blia).
    cbn [obind].
    assert (Hw16 : wrap16 (count + 1) = count + 1) by (unfold wrap16; apply N.mod_small; cbn [length] in Hcnt; blia).
    rewrite Hw16. fold P.
    rewrite F4. rewrite <- Hp.
    pose proof (IH (pre ++ le 2 ty ++ le 2 (blen data) ++ [0; 0; 0; 0] ++ data ++ Z) suf fuel E (count + 1) num Hr) as Q.
    bnorm.
    rewrite Q;
      [ cbn [obind]; rewrite ?Hp; reflexivity
      | cbn [length] in Hfuel; blia
      | rewrite Hp; blia
      | cbn [length] in Hcnt; blia
      | exact Hnum
      | rewrite Hp; blia ].
Qed.

Lemma wf_ohdr_v1_inv x : wf_ohdr_v1 x = true ->
  oh_version x = 1 /\ oh_refcount x < 4294967296 /\ nmsgs (oh_msgs x) <= 65535 /\
  msgs_size_v1 (oh_msgs x) < 4294967296 /\ forallb wf_msg_v1 (oh_msgs x) = true.
Proof.
  unfold wf_ohdr_v1. intros H.
  apply andb_true_iff in H as [H H5]. apply andb_true_iff in H as [H H4].
  apply andb_true_iff in H as [H H3]. apply andb_true_iff in H as [H1 H2].
  apply N.eqb_eq in H1. apply N.ltb_lt in H2, H4. apply N.leb_le in H3. auto.
Qed.

Lemma ohdr_v1_blen r x : blen (enc_ohdr_v1_gen r x) = size_ohdr_v1 x.
Proof.
  unfold enc_ohdr_v1_gen, size_ohdr_v1. rewrite !blen_app, !blen_le, blen_zeros, blen_body_v1.
  unfold blen; cbn [length]. blia.
Qed.

Lemma ohdr_v1_roundtrip x (pre suf : list N) :
  wf_ohdr_v1 x = true ->
  blen pre + size_ohdr_v1 x + 16 < 9223372036854775808 ->
  dec_ohdr false (pre ++ enc_ohdr_v1_gen true x ++ suf) (blen pre) = Ok (proj_ohdr_v1 x (blen pre)).
Proof.
  intros Hwf Hsmall.
  apply wf_ohdr_v1_inv in Hwf as (Hv & Hrc & Hn & Hsz & Hms).
  destruct x as [ver flags refc ms]; cbn [oh_version oh_flags oh_refcount oh_msgs] in *. subst ver.
  unfold size_ohdr_v1 in Hsmall. cbn [oh_msgs] in Hsmall.
  set (S := msgs_size_v1 ms) in *. set (n := nmsgs ms) in *.
  assert (Hbody : blen (body_v1 ms) = S) by apply blen_body_v1.
  unfold enc_ohdr_v1_gen, v1_size_field. cbn [oh_refcount oh_msgs]. fold n S.
  assert (W1 : wrap16 n = n) by (unfold wrap16; apply N.mod_small; blia).
  assert (W2 : wrap32 refc = refc) by (unfold wrap32; apply N.mod_small; blia).
  assert (W3 : wrap32 S = S) by (unfold wrap32; apply N.mod_small; blia).
  rewrite W1, W2, W3.
  match goal with |- context [dec_ohdr _ ?f _] => set (file := f) end.
  assert (Hfl : blen file = blen pre + 16 + S + blen suf).
  { subst file. rewrite !blen_app, !blen_le, blen_zeros, Hbody. unfold blen; cbn [length]. blia. }
  assert (F0 : file = pre ++ ([1; 0] ++ le 2 n ++ le 4 refc) ++ (le 4 S ++ zeros 4 ++ body_v1 ms ++ suf))
    by (subst file; rewrite <- !app_assoc; reflexivity).
  assert (F1 : file = pre ++ 1 :: (0 :: le 2 n ++ le 4 refc ++ le 4 S ++ zeros 4 ++ body_v1 ms ++ suf))
    by (subst file; rewrite <- !app_assoc; reflexivity).
  assert (F2 : file = (pre ++ [1; 0]) ++ le 2 n ++ (le 4 refc ++ le 4 S ++ zeros 4 ++ body_v1 ms ++ suf))
    by (subst file; rewrite <- !app_assoc; reflexivity).
  assert (F3 : file = (pre ++ [1; 0] ++ le 2 n) ++ le 4 refc ++ (le 4 S ++ zeros 4 ++ body_v1 ms ++ suf))
    by (subst file; rewrite <- !app_assoc; reflexivity).
  assert (F4 : file = (pre ++ [1; 0] ++ le 2 n ++ le 4 refc) ++ le 4 S ++ (zeros 4 ++ body_v1 ms ++ suf))
    by (subst file; rewrite <- !app_assoc; reflexivity).
  assert (F5 : file = (pre ++ [1; 0] ++ le 2 n ++ le 4 refc ++ le 4 S ++ zeros 4) ++ body_v1 ms ++ suf)
    by (subst file; rewrite <- !app_assoc; reflexivity).
  assert (Hp : blen (pre ++ [1; 0] ++ le 2 n ++ le 4 refc ++ le 4 S ++ zeros 4) = blen pre + 16)
    by (rewrite !blen_app, !blen_le, blen_zeros; unfold blen; cbn [length]; blia).
  assert (Hloop : v1_loop (Datatypes.S (length file))
                    ((pre ++ [1; 0] ++ le 2 n ++ le 4 refc ++ le 4 S ++ zeros 4) ++ body_v1 ms ++ suf) false
                    (blen (pre ++ [1; 0] ++ le 2 n ++ le 4 refc ++ le 4 S ++ zeros 4)) (blen pre + 16 + S) 0 n
                  = Ok (msgs_at_v1 ms (blen (pre ++ [1; 0] ++ le 2 n ++ le 4 refc ++ le 4 S ++ zeros 4)))).
  { apply v1_loop_msgs; auto.
    - assert (L : N.of_nat (length ms) <= S).
      { clear. subst S. induction ms as [|m r IH]; [cbn; blia|].
        cbn [length msgs_size_v1 fold_right]. fold (msgs_size_v1 r).
        pose proof (pad_to8_ge (8 + blen (hm_data m))). blia. }
      unfold blen in Hfl. blia.
    - rewrite Hp, Hbody. blia.
    - rewrite Hp, Hbody. blia. }
  clearbody file. bnorm. rewrite <- F5 in Hloop.
  unfold dec_ohdr.
  replace (9223372036854775808 <=? blen pre) with false by (symmetry; apply N.leb_gt; blia).
  unfold readable at 1. rewrite Hfl.
  replace (blen pre + 8 <=? blen pre + 16 + S + blen suf) with true by (symmetry; apply N.leb_le; blia).
  cbn [negb].
  rewrite F0 at 1.
  rewrite (slice_app' pre ([1; 0] ++ le 2 n ++ le 4 refc)) by (auto; rewrite !blen_app, !blen_le; unfold blen; cbn [length]; blia).
  cbn [obind]. cbn [le app firstn rev].
  change (bytes_eqb [1; 0; n mod 256; n / 256 mod 256] OHDR) with false. cbv iota.
  match goal with
  | |- context [if bytes_eqb ?l OHDR then _ else _] =>
      replace (bytes_eqb l OHDR) with false
        by (unfold OHDR, bytes_eqb; cbn [list_eqb]; destruct (n / 256 mod 256 =? 79), (n mod 256 =? 72); reflexivity)
  end.
  cbv iota. rewrite index0, index1. cbn [obind]. change ((1 =? 1) && (0 =? 0)) with true. cbv iota.
  (* parseV1Header *)
  unfold parse_v1. unfold readable at 1. rewrite Hfl.
  replace (blen pre + 16 <=? blen pre + 16 + S + blen suf) with true by (symmetry; apply N.leb_le; blia).
  cbn [negb].
  rewrite F1 at 1. rewrite index_app by reflexivity. cbn [obind]. change (negb (1 =? 1)) with false. cbv iota.
  unfold rd_end.
  rewrite F2 at 1.
  rewrite (rd_le_at (pre ++ [1; 0]) 2 2 n) by (auto; rewrite ?blen_app; unfold blen; cbn [length]; blia).
  cbn [obind].
  rewrite F3 at 1.
  rewrite (rd_le_at (pre ++ [1; 0] ++ le 2 n) 4 4 refc) by (auto; rewrite ?blen_app, ?blen_le; unfold blen; cbn [length]; blia).
  cbn [obind].
  rewrite F4 at 1.
  rewrite (rd_le_at (pre ++ [1; 0] ++ le 2 n ++ le 4 refc) 4 4 S)
    by (auto; rewrite ?blen_app, ?blen_le; unfold blen; cbn [length]; blia).
  cbn [obind].
  rewrite !wrap64_small by blia.
  bnorm. rewrite Hp in Hloop. rewrite Hloop. cbn [obind].
  unfold proj_ohdr_v1. cbn [oh_refcount oh_msgs]. reflexivity.
Qed.
