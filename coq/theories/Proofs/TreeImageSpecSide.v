(* C03 end to end, depth 1, the SPECIFICATION's side: the abstract tree of Model/GroupNS.v (spec_step, spec_tree) on histories of
   root-level creations.  SpecInv t L: the specification's state is the root with the children L (name, identity, kind) in
   insertion order and one leaf node per child.  A root-level CreateGroup / CreateDataset is accepted exactly by d1_accept on the
   names of L (Proofs/TreeImageDecide.v: the rule linkToParent applies to the bytes) and then appends the child. *)
From HV Require Import Base.Prelude Base.Outcome Base.Bytes Model.IOProgOpen Model.TreeImage Model.TreeFlat.
From HV Require Import Proofs.TreeImageFlat Proofs.TreeImageDecide.
From HV Require Model.GroupNS Proofs.GroupNSBase Proofs.GroupNSHeap Proofs.GroupNSPath.
Module GP := HV.Proofs.GroupNSPath.
Module GB := HV.Proofs.GroupNSBase.

Local Open Scope N_scope.

Record ent := { en_name : bytes; en_id : N; en_grp : bool; en_addr : N }.
Definition ent_snode (e : ent) : NS.snode := if en_grp e then NS.SG [] else NS.SD.
Definition ent_node (e : ent) : node := if en_grp e then Grp (en_name e) (en_addr e) [] else Dset (en_name e) (en_addr e).
Definition ent_tree (e : ent) : NS.tree := NS.TNode (en_id e) (if en_grp e then NS.KGroup else NS.KData) [].
Definition ent_key (e : ent) : bytes * N := (en_name e, en_id e).

Definition SpecInv (t : NS.stree) (L : list ent) : Prop :=
  NS.s_nodes t = (0, NS.SG (map ent_key L)) :: map (fun e => (en_id e, ent_snode e)) L /\
  Forall (fun e => 1 <= en_id e /\ en_id e < NS.s_clock t) L /\ NoDup (map en_id L) /\ 1 <= NS.s_clock t.

Lemma spec_init : SpecInv NS.s_empty [].
Proof. repeat split; try constructor. cbn. blia. Qed.

Lemma bytes_eqb_sym a b : bytes_eqb a b = bytes_eqb b a.
Proof.
  destruct (bytes_eqb a b) eqn:E.
  - apply GB.bytes_eqb_eq in E. subst. symmetry. apply GB.bytes_eqb_refl.
  - destruct (bytes_eqb b a) eqn:E2; [|reflexivity]. apply GB.bytes_eqb_eq in E2. subst. rewrite GB.bytes_eqb_refl in E. discriminate.
Qed.

Lemma clookup_names n L : match NS.clookup n (map ent_key L) with Some _ => true | None => false end
                          = existsb (bytes_eqb n) (map en_name L).
Proof.
  induction L as [|e r IH]; [reflexivity|]. cbn [map NS.clookup ent_key existsb].
  rewrite (bytes_eqb_sym n (en_name e)). destruct (bytes_eqb (en_name e) n); [reflexivity | exact IH].
Qed.

Lemma aset_fresh {A} k (v : A) l : Forall (fun kv => fst kv <> k) l -> NS.aset k v l = l ++ [(k, v)].
Proof.
  induction l as [|[k' v'] r IH]; intros H; [reflexivity|]. apply Forall_cons_iff in H as [H1 H2]. cbn [fst] in H1.
  cbn [NS.aset app]. replace (k' =? k) with false by (symmetry; now apply N.eqb_neq). now rewrite IH.
Qed.

Lemma alookup_in {A} k (v : A) l : NoDup (map fst l) -> In (k, v) l -> NS.alookup k l = Some v.
Proof.
  induction l as [|[k' v'] r IH]; intros Hn Hi; [contradiction|]. cbn [map fst] in Hn. inversion Hn as [|? ? Hni Hnd]; subst.
  cbn [NS.alookup]. destruct Hi as [E|Hi].
  - inversion E; subst. now rewrite N.eqb_refl.
  - destruct (k' =? k) eqn:E; [|now apply IH]. apply N.eqb_eq in E. subst k'. exfalso. apply Hni.
    change k with (fst (k, v)). now apply in_map.
Qed.

(* ------------------------------------------------------------------ one root-level creation in the specification *)
Lemma spec_create t L p n (g : bool) a : SpecInv t L -> NS.split_path p = Some [n] ->
  let acc := d1_accept (map en_name L) n in
  let r := NS.s_create NS.go_cfg t p (if g then NS.SG [] else NS.SD) in
  NS.is_ok (snd r) = acc /\
  SpecInv (fst r) (if acc then L ++ [{| en_name := n; en_id := NS.s_clock t; en_grp := g; en_addr := a |}] else L).
Proof.
  intros (Hn & Hid & Hnd & Hc) Hp acc r. subst r. unfold NS.s_create. rewrite Hp.
  unfold NS.s_link. cbn [NS.unsnoc NS.sresolve]. rewrite Hn. cbn [NS.alookup]. change (0 =? 0) with true. cbv iota.
  pose proof (clookup_names n L) as CL.
  assert (Hkeep : forall k, k = NS.s_clock t + 1 -> SpecInv {| NS.s_clock := k; NS.s_nodes := NS.s_nodes t |} L).
  { intros k ->. split; [exact Hn|]. split; [|split; [exact Hnd | cbn; blia]].
    eapply Forall_impl; [|exact Hid]. cbn. intros e [H1 H2]. split; blia. }
  subst acc. unfold d1_accept.
  destruct (NS.clookup n (map ent_key L)) as [c|].
  { rewrite <- CL. cbn [negb andb fst snd NS.is_ok]. split; [reflexivity|]. rewrite <- Hn. exact (Hkeep _ eq_refl). }
  rewrite <- CL. cbn [negb andb].
  rewrite GH.names_size_enc, map_map.
  change (NS.new_heap_size (NS.heap_cap NS.go_cfg)) with 256. change (NS.snod_cap NS.go_cfg) with 32.
  set (A := (blen (GH.enc (map en_name L)) + blen n + 1 <=? 256) && (N.of_nat (length (map en_name L)) <? 32)).
  match goal with |- context [if ?c then (None, NS.Err NS.EHeapFull) else _] => destruct c eqn:EH end.
  { assert (EA : A = false).
    { subst A. apply andb_false_iff. left. apply N.leb_gt. apply N.ltb_lt in EH. exact EH. }
    rewrite EA. cbn [fst snd NS.is_ok]. split; [reflexivity|]. rewrite <- Hn. exact (Hkeep _ eq_refl). }
  match goal with |- context [if ?c then (None, NS.Err NS.ESnodFull) else _] => destruct c eqn:ES end.
  { assert (EA : A = false).
    { subst A. apply andb_false_iff. right. apply N.ltb_ge. apply N.leb_le in ES. unfold NS.blen in ES.
      rewrite map_length in ES. rewrite map_length. exact ES. }
    rewrite EA. cbn [fst snd NS.is_ok]. split; [reflexivity|]. rewrite <- Hn. exact (Hkeep _ eq_refl). }
  assert (EA : A = true).
  { subst A. apply andb_true_iff. split.
    - apply N.leb_le. apply N.ltb_ge in EH. exact EH.
    - apply N.ltb_lt. apply N.leb_gt in ES. unfold NS.blen in ES. rewrite map_length in ES. rewrite map_length. exact ES. }
  rewrite EA. cbn [fst snd NS.is_ok]. split; [reflexivity|].
  unfold NS.s_tick. cbn [NS.aset]. change (0 =? 0) with true. cbv iota.
  set (k := NS.s_clock t) in *.
  assert (Hk0 : (0 =? k) = false) by (apply N.eqb_neq; blia).
  cbn [NS.aset]. rewrite Hk0.
  rewrite aset_fresh.
  2:{ apply Forall_forall. intros [k' v'] Hin. cbn [fst]. apply in_map_iff in Hin as (e & E & He). inversion E; subst.
      pose proof (proj1 (Forall_forall _ _) Hid e He) as [_ H2]. blia. }
  split; [|split; [|split]].
  - cbn [NS.s_nodes]. rewrite !map_app. cbn [map ent_key en_name en_id ent_snode en_grp]. reflexivity.
  - cbn [NS.s_clock]. apply Forall_app. split.
    + eapply Forall_impl; [|exact Hid]. cbn. intros e [H1 H2]. split; blia.
    + constructor; [|constructor]. cbn [en_id]. blia.
  - rewrite map_app. cbn [map en_id]. apply GH.NoDup_snoc; [exact Hnd|].
    intros Hin. apply in_map_iff in Hin as (e & E & He). pose proof (proj1 (Forall_forall _ _) Hid e He) as [_ H2]. blia.
  - cbn [NS.s_clock]. blia.
Qed.

(* ------------------------------------------------------------------ the specification's tree *)
Lemma spec_tree_of t L : SpecInv t L ->
  NS.spec_tree t = Some (NS.TNode 0 NS.KGroup (map (fun e => (en_name e, ent_tree e)) L)).
Proof.
  intros (Hn & Hid & Hnd & Hc). unfold NS.spec_tree, NS.spec_tree_as. cbn [NS.unfold]. rewrite Hn. cbn [NS.alookup].
  change (0 =? 0) with true. cbv iota.
  destruct (N.to_nat (NS.s_clock t)) as [|k] eqn:Ek; [lia|].
  set (nodes := (0, NS.SG (map ent_key L)) :: map (fun e => (en_id e, ent_snode e)) L).
  set (F := NS.unfold NS.KSoft (S k) nodes).
  assert (U : forall L', (forall e, In e L' -> In e L) ->
              NS.umap F (map ent_key L') = Some (map (fun e => (en_name e, ent_tree e)) L')).
  { induction L' as [|e r IH]; intros Hsub; [reflexivity|]. cbn [map NS.umap ent_key].
    assert (He : In e L) by (apply Hsub; now left).
    pose proof (proj1 (Forall_forall _ _) Hid e He) as [H1 _].
    assert (Hl : NS.alookup (en_id e) nodes = Some (ent_snode e)).
    { subst nodes. cbn [NS.alookup]. replace (0 =? en_id e) with false by (symmetry; apply N.eqb_neq; blia).
      apply alookup_in; [now rewrite map_map|]. apply in_map_iff. exists e. split; [reflexivity | exact He]. }
    assert (HF : F (en_id e) = Some (ent_tree e)).
    { subst F. cbn [NS.unfold]. rewrite Hl. unfold ent_snode, ent_tree. destruct (en_grp e); reflexivity. }
    rewrite HF, IH by (intros x Hx; apply Hsub; now right). reflexivity. }
  rewrite (U L (fun e H => H)). reflexivity.
Qed.

(* as hdf5.Open reports it, with the children's recorded addresses *)
Definition ent_addr (L : list ent) (id : N) : N :=
  if id =? 0 then 2168 else match find (fun e => en_id e =? id) L with Some e => en_addr e | None => 0 end.

Lemma node_of_spec_tree L : NoDup (map en_id L) -> Forall (fun e => 1 <= en_id e) L ->
  node_of_tree (ent_addr L) [47] (NS.TNode 0 NS.KGroup (map (fun e => (en_name e, ent_tree e)) L))
  = Grp [47] 2168 (map ent_node L).
Proof.
  intros Hnd Hid. cbn [node_of_tree]. f_equal. rewrite map_map. apply map_ext_in. intros e He. cbn [fst snd].
  assert (Ha : ent_addr L (en_id e) = en_addr e).
  { unfold ent_addr. pose proof (proj1 (Forall_forall _ _) Hid e He).
    replace (en_id e =? 0) with false by (symmetry; apply N.eqb_neq; blia).
    clear H Hid. induction L as [|x r IH]; [contradiction|]. cbn [map] in Hnd. inversion Hnd as [|? ? Hni Hnd']; subst.
    cbn [find]. destruct He as [->|He]; [now rewrite N.eqb_refl|].
    destruct (en_id x =? en_id e) eqn:E; [|now apply IH]. apply N.eqb_eq in E. exfalso. apply Hni. rewrite E. now apply in_map. }
  unfold ent_tree, ent_node. destruct (en_grp e); cbn [node_of_tree map]; now rewrite Ha.
Qed.
