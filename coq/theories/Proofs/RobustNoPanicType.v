(* C07: the nested decoders never panic: filter pipeline, datatype (any nesting depth), compound member
   lists, attribute message.  All statements are for every byte string. *)
From HV Require Import Base.Prelude Base.Outcome Base.Bytes.
From HV Require Import Model.CodecMsg Model.CodecType Model.CodecCompound Model.CodecFilter Model.CodecAttr.
From HV Require Import Proofs.RobustNoPanicBase Proofs.RobustNoPanicMsg.

(* ------------------------------------------------------------------ filter pipeline *)

(* the client-data loop is entered only after  offset + ncd*4 <= len(data)  was checked *)
Lemma read_cd_np n : forall data offset, offset + 4 * N.of_nat n <= blen data -> np (read_cd data n offset).
Proof.
  induction n as [|n IH]; intros data offset H; cbn [read_cd]; np_go.
  apply IH. blia.
Qed.

(* both variants of the version 2 filter name switch *)
Lemma parse_filters_gen_np rep n : forall data version v1 offset, np (parse_filters_gen rep n data version v1 offset).
Proof.
  induction n as [|n IH]; intros; cbn [parse_filters_gen]; np_go.
  all: try (apply read_cd_np; rewrite N2Nat.id; np_side).
  all: repeat match goal with
       | H : context [if ?c then _ else _] |- np (slice _ _ _) => destruct c eqn:?
       end; apply slice_np; np_side.
Qed.
#[export] Hint Resolve parse_filters_gen_np : np.

Lemma parse_filters_np n : forall data version v1 offset, np (parse_filters n data version v1 offset).
Proof. intros. apply parse_filters_gen_np. Qed.
#[export] Hint Resolve parse_filters_np : np.

Lemma dec_pipeline_gen_np rep data : np (dec_pipeline_gen rep data).
Proof. unfold dec_pipeline_gen. np_go. Qed.

Lemma dec_pipeline_np data : np (dec_pipeline data).
Proof. apply dec_pipeline_gen_np. Qed.

(* ------------------------------------------------------------------ datatype *)

(* calculateCompoundPropsLen's loop, for ANY member parser (a failing member parse is an error) *)
Lemma cpl_loop_np parse fuel : forall props remaining offset, np (cpl_loop parse fuel props remaining offset).
Proof.
  induction fuel as [|fuel IH]; intros; cbn [cpl_loop]; np_go.
Qed.
#[export] Hint Resolve cpl_loop_np : np.

Lemma compound_props_len_np parse props version : np (compound_props_len parse props version).
Proof. unfold compound_props_len. np_go. Qed.
#[export] Hint Resolve compound_props_len_np : np.

Lemma dec_dt_np fuel : forall data, np (dec_dt fuel data).
Proof.
  induction fuel as [|fuel IH]; intros data; cbn [dec_dt]; [apply np_err|].
  np_go.
  all: try (exfalso; eapply compound_props_len_np; eassumption).
  all: match goal with |- np (slice _ _ (8 + (if ?c then _ else _))) => destruct c eqn:? end.
  all: apply slice_np; np_side.
Qed.
#[export] Hint Resolve dec_dt_np : np.

Lemma dec_datatype_np data : np (dec_datatype data).
Proof. unfold dec_datatype. apply dec_dt_np. Qed.
#[export] Hint Resolve dec_datatype_np : np.

(* ------------------------------------------------------------------ compound member lists *)

Lemma v3_members_np fuel : forall props remaining offset, np (v3_members fuel props remaining offset).
Proof.
  induction fuel as [|fuel IH]; intros; cbn [v3_members]; [np_go|].
  pose proof (find0_ge props offset). np_go.
Qed.

Lemma v1_members_np fuel : forall props remaining offset, np (v1_members fuel props remaining offset).
Proof.
  induction fuel as [|fuel IH]; intros; cbn [v1_members]; [np_go|].
  pose proof (find0_ge props offset). np_go.
Qed.
#[export] Hint Resolve v3_members_np v1_members_np : np.

Lemma parse_compound_np dt : np (parse_compound dt).
Proof. unfold parse_compound. np_go. Qed.
#[export] Hint Resolve parse_compound_np : np.

Lemma dec_compound_np data : np (dec_compound data).
Proof. unfold dec_compound. np_go. Qed.

(* ------------------------------------------------------------------ attribute message *)

(* both variants of the version 2 padding switch *)
Lemma dec_attribute_gen_np rep bigendian data : np (dec_attribute_gen rep bigendian data).
Proof. unfold dec_attribute_gen, rd16. np_go. Qed.

Lemma dec_attribute_np bigendian data : np (dec_attribute bigendian data).
Proof. apply dec_attribute_gen_np. Qed.

(* ------------------------------------------------------------------ statements *)

Lemma read_cd_no_panic : forall n data offset,
  offset + 4 * N.of_nat n <= blen data -> read_cd data n offset <> Panic.
Proof. exact read_cd_np. Qed.
Lemma parse_filters_no_panic : forall n data version v1 offset, parse_filters n data version v1 offset <> Panic.
Proof. exact parse_filters_np. Qed.
Lemma dec_pipeline_no_panic : forall data, dec_pipeline data <> Panic.
Proof. exact dec_pipeline_np. Qed.
Lemma cpl_loop_no_panic : forall parse fuel props remaining offset,
  cpl_loop parse fuel props remaining offset <> Panic.
Proof. intros. apply cpl_loop_np. Qed.
Lemma compound_props_len_no_panic : forall parse props version, compound_props_len parse props version <> Panic.
Proof. exact compound_props_len_np. Qed.
Lemma dec_dt_no_panic : forall fuel data, dec_dt fuel data <> Panic.
Proof. exact dec_dt_np. Qed.
Lemma dec_datatype_no_panic : forall data, dec_datatype data <> Panic.
Proof. exact dec_datatype_np. Qed.
Lemma v3_members_no_panic : forall fuel props remaining offset, v3_members fuel props remaining offset <> Panic.
Proof. exact v3_members_np. Qed.
Lemma v1_members_no_panic : forall fuel props remaining offset, v1_members fuel props remaining offset <> Panic.
Proof. exact v1_members_np. Qed.
Lemma parse_compound_no_panic : forall dt, parse_compound dt <> Panic.
Proof. exact parse_compound_np. Qed.
Lemma dec_compound_no_panic : forall data, dec_compound data <> Panic.
Proof. exact dec_compound_np. Qed.
Lemma dec_attribute_no_panic : forall be data, dec_attribute be data <> Panic.
Proof. exact dec_attribute_np. Qed.
