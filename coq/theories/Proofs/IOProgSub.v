(* C17: Open depends on the size of the file (file.go:104 maxLoads = size/8 + 1024, file.go:109 root address
   below the size).  A truncated file is smaller.  [sub p' p]: p' is p with some sub-programs replaced by Fail.
   sub_run: such a p' returns what p returns, or an error.  The loader with a smaller budget / file size is
   [sub] the loader with the larger one, hence C17_open_*: Open on the truncated file (with ITS size) returns what
   Open returns on the intact file (with its size), or an error. *)
From HV Require Import Base.Prelude Base.Outcome Base.Bytes Model.IOProg Proofs.IOProg Model.IOProgReader Proofs.IOProgReader.
From HV Require Import Model.IOProgOpen Proofs.IOProgOpen.
From HV Require Import Model.CodecSuper Model.CodecOhdr Model.CodecMsg Model.CodecType Model.CodecLink.

Inductive sub : forall {A : Type}, prog A -> prog A -> Prop :=
| sub_refl : forall A (p : prog A), sub p p
| sub_fail : forall A (p : prog A), sub Fail p
| sub_read : forall A off len (k' k : bytes -> prog A),
    (forall b, sub (k' b) (k b)) -> sub (ReadAt off len k') (ReadAt off len k)
| sub_short : forall A off len (k' k : bytes -> N -> prog A),
    (forall b g, sub (k' b g) (k b g)) -> sub (ReadAtShort off len k') (ReadAtShort off len k)
| sub_swallow_same : forall A B (p : prog B) d (k' k : B -> prog A),
    (forall b, sub (k' b) (k b)) -> sub (Swallow p d k') (Swallow p d k)
| sub_swallow_fail : forall A B (p' p : prog B) d (k' k : B -> prog A),
    sub p' p -> (forall b, sub (k' b) (k b)) -> k' d = Fail -> sub (Swallow p' d k') (Swallow p d k).

Lemma sub_run : forall A (p' p : prog A), sub p' p ->
  forall f fl c, run f fl c p' = run f fl c p \/ fst (run f fl c p') = Err.
Proof.
  intros A p' p H.
  induction H as [A p|A p|A off len k' k Hk IH|A off len k' k Hk IH|A B p d k' k Hk IH
                 |A B p' p d k' k Hp IHp Hk IHk Hd]; intros f fl c.
  - left; reflexivity.
  - right; reflexivity.
  - cbn [run]. destruct (fl c) as [| |m].
    + destruct (in_range f off len); [apply IH | left; reflexivity].
    + left; reflexivity.
    + destruct ((len <=? m) && in_range f off len); [apply IH | left; reflexivity].
  - cbn [run]. destruct (fl c) as [| |m]; [apply IH | left; reflexivity | apply IH].
  - cbn [run]. destruct (run f fl c p) as [[b| |] c']; [apply IH | apply IH | left; reflexivity].
  - cbn [run]. destruct (IHp f fl c) as [E|E].
    + rewrite E. destruct (run f fl c p) as [[b| |] c']; [apply IHk | apply IHk | left; reflexivity].
    + destruct (run f fl c p') as [o' c']. cbn [fst] in E. subst o'. rewrite Hd. right; reflexivity.
Qed.

Lemma sub_bind_same : forall A (p : prog A) B (g' g : A -> prog B),
  (forall a, sub (g' a) (g a)) -> sub (bind p g') (bind p g).
Proof.
  intros A p. induction p as [A a|A|A|A off len k IH|A off len k IH|A B0 p IHp d k IHk] using prog_ind;
    intros B g' g Hg; cbn [bind].
  - apply Hg.
  - apply sub_refl.
  - apply sub_refl.
  - apply sub_read. intros b. now apply IH.
  - apply sub_short. intros b n. now apply IH.
  - apply sub_swallow_same. intros b. now apply IHk.
Qed.

Lemma sub_bind : forall A (p' p : prog A), sub p' p -> forall B (g' g : A -> prog B),
  (forall a, sub (g' a) (g a)) -> sub (bind p' g') (bind p g).
Proof.
  intros A p' p H.
  induction H as [A p|A p|A off len k' k Hk IH|A off len k' k Hk IH|A B0 p d k' k Hk IH
                 |A B0 p' p d k' k Hp IHp Hk IHk Hd]; intros B g' g Hg; cbn [bind].
  - now apply sub_bind_same.
  - apply sub_fail.
  - apply sub_read. intros b. now apply IH.
  - apply sub_short. intros b n. now apply IH.
  - apply sub_swallow_same. intros b. now apply IH.
  - apply sub_swallow_fail; [exact Hp | intros b; now apply IHk | now rewrite Hd].
Qed.

Ltac sub_step :=
  match goal with
  | |- sub ?p ?p => apply sub_refl
  | |- sub Fail _ => apply sub_fail
  | |- sub (ReadAt _ _ _) (ReadAt _ _ _) => apply sub_read; intros
  | |- sub (bind _ _) (bind _ _) => apply sub_bind; [ | intros ]
  | |- sub (Swallow ?p _ _) (Swallow ?p _ _) => apply sub_swallow_same; intros
  | |- sub (if ?c then _ else _) (if ?c then _ else _) => destruct c
  | |- sub (match ?x with _ => _ end) (match ?x with _ => _ end) => destruct x
  | |- sub (let _ := _ in _) _ => cbv zeta
  end.
Ltac sub_auto := repeat (sub_step; try assumption; auto).

Section Loader.
Variable rp : bool.
Variable sb : superblock'.
Variables budget' budget : N.
Hypothesis Hb : budget' <= budget.
Variable hfuel : nat.

Lemma enter_mono st a : enter budget' st a = enter budget st a \/ enter budget' st a = ERefused.
Proof.
  unfold enter. destruct (mem a (loading st)); [left; reflexivity|].
  destruct (1024 <=? lenN' (loading st)); [left; reflexivity|].
  destruct (budget' <? cnt st + 1) eqn:E'; [right; reflexivity|].
  apply N.ltb_ge in E'. replace (budget <? cnt st + 1) with false by (symmetry; apply N.ltb_ge; blia).
  left; reflexivity.
Qed.

Lemma sub_p_sig A a (k' k : bytes -> prog A) : (forall b, sub (k' b) (k b)) -> sub (p_sig rp a k') (p_sig rp a k).
Proof. intros H. unfold p_sig. destruct rp; [now apply sub_read | now apply sub_swallow_same]. Qed.

Lemma sub_with_header A a (k' k : ohdr' -> prog A) :
  (forall h, sub (k' h) (k h)) -> sub (with_header sb hfuel a k') (with_header sb hfuel a k).
Proof.
  intros H. unfold with_header. apply sub_bind_same. intros h. apply sub_swallow_same. intros _. apply H.
Qed.

Section WithRec.
Variables rec' rec : req -> lstate -> prog (node * lstate).
Hypothesis Hrec : forall r st, sub (rec' r st) (rec r st).

Lemma sub_load_entry heap e st : sub (load_entry rec' heap e st) (load_entry rec heap e st).
Proof. destruct e as [[[[lo oa] ct] cb] ch]. unfold load_entry. sub_auto. Qed.

Lemma sub_load_entries heap es : forall st, sub (load_entries rec' heap es st) (load_entries rec heap es st).
Proof.
  induction es; intros; cbn [load_entries]; [apply sub_refl|].
  destruct (is_soft a); [apply IHes|].
  apply sub_bind; [apply sub_load_entry|]. intros x. apply sub_bind; [apply IHes | intros; apply sub_refl].
Qed.

Lemma sub_children_loop heap es : forall st,
  sub (children_loop rp sb rec' heap es st) (children_loop rp sb rec heap es st).
Proof.
  induction es as [|e r IH]; intros; cbn [children_loop]; [apply sub_refl|].
  destruct (is_soft e); [apply IH|].
  destruct e as [[[[lo oa] ct] cb] ch].
  apply sub_p_sig. intros sg.
  destruct ((lo =? 0) && bytes_eqb sg SNOD).
  - apply sub_bind_same. intros nes.
    apply sub_bind; [apply sub_load_entries|]. intros x. apply sub_bind; [apply IH | intros; apply sub_refl].
  - apply sub_bind; [apply sub_load_entry|]. intros x. apply sub_bind; [apply IH | intros; apply sub_refl].
Qed.

Lemma sub_p_children bt hp st : sub (p_children rp sb rec' bt hp st) (p_children rp sb rec bt hp st).
Proof.
  unfold p_children. destruct (mem bt (vbt st)); [apply sub_refl|].
  apply sub_bind_same. intros heap. apply sub_p_sig. intros sg.
  destruct (bytes_eqb sg [84; 82; 69; 69]).
  - apply sub_bind_same. intros; apply sub_children_loop.
  - destruct (bytes_eqb sg [66; 84; 82; 69]); [|apply sub_refl].
    apply sub_bind_same. intros; apply sub_children_loop.
Qed.

Lemma sub_load_entries_trad heap es : forall st,
  sub (load_entries_trad rec' heap es st) (load_entries_trad rec heap es st).
Proof.
  induction es as [|e r IH]; intros; cbn [load_entries_trad]; [apply sub_refl|].
  destruct (is_soft e); [apply IH|].
  destruct e as [[[[lo oa] ct] cb] ch].
  apply sub_bind_same. intros name. apply sub_bind; [apply Hrec|]. intros x.
  apply sub_bind; [apply IH | intros; apply sub_refl].
Qed.

Lemma sub_p_trad a st : sub (p_trad sb hfuel rec' a st) (p_trad sb hfuel rec a st).
Proof.
  unfold p_trad. apply sub_bind_same. intros es. apply sub_swallow_same. intros [h|]; [|apply sub_refl].
  apply sub_bind_same. intros [heap|]; [|apply sub_refl].
  apply sub_bind; [apply sub_load_entries_trad | intros; apply sub_refl].
Qed.

Lemma sub_load_links ms : forall st, sub (load_links sb rec' ms st) (load_links sb rec ms st).
Proof.
  induction ms as [|m r IH]; intros; cbn [load_links]; [apply sub_refl|].
  destruct (negb (hmp_type m =? 6)); [apply IH|].
  apply sub_bind_same. intros lk. destruct (lk_type lk =? 0); [|apply IH].
  apply sub_bind_same. intros oa. apply sub_bind; [apply Hrec|]. intros x.
  apply sub_bind; [apply IH | intros; apply sub_refl].
Qed.

Lemma sub_p_modern a st : sub (p_modern rp sb hfuel rec' a st) (p_modern rp sb hfuel rec a st).
Proof.
  unfold p_modern. apply sub_with_header. intros h. cbv zeta.
  destruct (negb _); [apply sub_refl|].
  destruct (existsb _ _).
  - apply sub_bind; [apply sub_load_links | intros; apply sub_refl].
  - destruct (last_symtab sb (ohp_msgs h)) as [[bt hp]|].
    + apply sub_bind; [apply sub_p_children | intros; apply sub_refl].
    + destruct (_ && _); [|apply sub_refl].
      apply sub_bind; [apply sub_p_children | intros; apply sub_refl].
Qed.

Lemma sub_p_object a name st0 :
  sub (p_object rp sb budget' hfuel rec' a name st0) (p_object rp sb budget hfuel rec a name st0).
Proof.
  unfold p_object. destruct (enter_mono st0 a) as [E|E]; rewrite E; [|apply sub_fail].
  destruct (enter budget st0 a) as [| |st]; [apply sub_refl | apply sub_refl |].
  cbv zeta. apply sub_p_sig. intros sg.
  destruct (bytes_eqb sg SNOD).
  - apply sub_bind_same. intros es.
    assert (Ht : sub (bind (p_trad sb hfuel rec' a st)
                         (fun x => Ret (fst (rename_nonempty name (fst x), snd x), leave (snd (rename_nonempty name (fst x), snd x)) a)))
                     (bind (p_trad sb hfuel rec a st)
                         (fun x => Ret (fst (rename_nonempty name (fst x), snd x), leave (snd (rename_nonempty name (fst x), snd x)) a)))).
    { apply sub_bind; [apply sub_p_trad | intros; apply sub_refl]. }
    destruct es as [|[[[[lo oa] ct] cb] ch] [|e2 es]]; try exact Ht.
    apply sub_with_header. intros h. apply sub_bind_same. intros [heap|]; [|exact Ht].
    destruct (heap_string heap lo) as [nm| |]; try exact Ht.
    destruct (bytes_eqb nm name); [|exact Ht].
    apply sub_bind; [apply Hrec | intros; apply sub_refl].
  - apply sub_with_header. intros h. cbv zeta.
    destruct (det_type (ohp_msgs h) =? 0).
    { apply sub_bind; [apply Hrec | intros; apply sub_refl]. }
    destruct (det_type (ohp_msgs h) =? 1); [apply sub_refl|].
    destruct (det_type (ohp_msgs h) =? 2); [apply sub_refl|].
    destruct (spp_version sb =? 0); [|apply sub_refl].
    apply sub_swallow_fail.
    + apply sub_bind; [apply Hrec | intros; apply sub_refl].
    + intros; apply sub_refl.
    + reflexivity.
Qed.

Lemma sub_dispatch r st : sub (dispatch rp sb budget' hfuel rec' r st) (dispatch rp sb budget hfuel rec r st).
Proof.
  destruct r; cbn [dispatch].
  - apply sub_p_object.
  - unfold p_group. destruct (addr =? 0); [apply sub_refl|]. apply sub_p_sig. intros sg.
    destruct (bytes_eqb sg SNOD); apply Hrec.
  - apply sub_p_modern.
  - apply sub_p_trad.
  - unfold p_cached. apply sub_bind; [apply sub_p_children | intros; apply sub_refl].
Qed.
End WithRec.

Lemma sub_p_load fuel : forall r st, sub (p_load rp sb budget' hfuel fuel r st) (p_load rp sb budget hfuel fuel r st).
Proof. induction fuel; intros; cbn [p_load]; [apply sub_refl|]. apply sub_dispatch. exact IHfuel. Qed.
End Loader.

Lemma sub_p_open rp s' s fuel hfuel : s' <= s -> sub (p_open rp s' fuel hfuel) (p_open rp s fuel hfuel).
Proof.
  intros H. unfold p_open. apply sub_read. intros sg.
  destruct (negb (bytes_eqb sg signature)); [apply sub_refl|].
  apply sub_bind_same. intros sb.
  destruct (s' <=? spp_root sb) eqn:E'; [apply sub_fail|].
  apply N.leb_gt in E'. replace (s <=? spp_root sb) with false by (symmetry; apply N.leb_gt; blia).
  apply sub_bind; [|intros; apply sub_refl].
  apply sub_p_load.
  assert (s' / 8 <= s / 8) by (apply N.div_le_mono; blia). blia.
Qed.

(* ------------------------------------------------------------------ Open: truncation and failing I/O *)

(* Open on the first n bytes of f, as the library runs it there (with that file's size), under any fault pattern *)
Definition open_on (f : bytes) (fl : oracle) (c : nat) (fuel hfuel : nat) : outcome node :=
  fst (run f fl c (p_open true (blen f) fuel hfuel)).

Theorem open_damage fuel hfuel (f : bytes) (n : nat) fl c :
  open_on f nofault 0 fuel hfuel = Panic \/
  open_on (firstn n f) fl c fuel hfuel = open_on f nofault 0 fuel hfuel \/
  open_on (firstn n f) fl c fuel hfuel = Err.
Proof.
  unfold open_on.
  assert (Hs : blen (firstn n f) <= blen f) by apply blen_firstn_le.
  destruct (sub_run _ _ _ (sub_p_open true _ _ fuel hfuel Hs) (firstn n f) fl c) as [E|E].
  - rewrite E. apply (strict_refines _ _ (p_open_strict (blen f) fuel hfuel) f n fl c).
  - right; right; exact E.
Qed.

Corollary open_trunc fuel hfuel (f : bytes) (n : nat) :
  open_on f nofault 0 fuel hfuel <> Panic ->
  open_on (firstn n f) nofault 0 fuel hfuel = open_on f nofault 0 fuel hfuel \/
  open_on (firstn n f) nofault 0 fuel hfuel = Err.
Proof. intros H. destruct (open_damage fuel hfuel f n nofault 0%nat) as [E|[E|E]]; auto. contradiction. Qed.

Corollary open_fault fuel hfuel (f : bytes) k ft :
  open_on f nofault 0 fuel hfuel <> Panic ->
  open_on f (fault_at k ft) 0 fuel hfuel = open_on f nofault 0 fuel hfuel \/
  open_on f (fault_at k ft) 0 fuel hfuel = Err.
Proof.
  intros H. pose proof (open_damage fuel hfuel f (length f) (fault_at k ft) 0%nat) as R.
  rewrite firstn_whole in R. destruct R as [E|[E|E]]; auto. contradiction.
Qed.

Corollary open_no_panic fuel hfuel (f : bytes) n fl c :
  open_on f nofault 0 fuel hfuel <> Panic -> open_on (firstn n f) fl c fuel hfuel <> Panic.
Proof.
  intros H. destruct (open_damage fuel hfuel f n fl c) as [E|[E|E]]; [contradiction | rewrite E; exact H | rewrite E; discriminate].
Qed.
