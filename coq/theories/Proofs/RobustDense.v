(* C07, dense attribute readers (Model/RobustDense.v): for ALL byte strings, addresses and header field values
     - no reader panics (every slice governed by a field is inside the bytes present),
     - every allocation request is <= |file| + 720895 (the leaf buffer is sized by a 16-bit record count BEFORE the read:
       6 + 65535 * 11 + 4 bytes at most; everything sized by a length field goes through ReadBytesAt),
     - the record count of a leaf that parses is bounded by the bytes present: 6 + 11 * records <= |file|. *)
From HV Require Import Base.Prelude Base.Outcome Base.Bytes Model.RobustAlloc Model.RobustGroup Model.CodecAttr Model.RobustDense.
From HV Require Import Proofs.RobustNoPanicBase Proofs.RobustNoPanic Proofs.RobustAlloc Proofs.RobustGroup.

Lemma bytes_ok_zeros k : bytes_ok (repeat 0 k) = true.
Proof. unfold bytes_ok. induction k; cbn [repeat forallb]; auto; rewrite IHk; reflexivity. Qed.

Lemma read_at_eof_spec file off size :
  read_at_eof file off size <> Panic /\
  forall buf n, read_at_eof file off size = Ok (buf, n) ->
    blen buf = size /\ n <= size /\ n <= blen file /\ (n <> 0 -> off + n <= blen file) /\
    (bytes_ok file = true -> bytes_ok buf = true).
Proof.
  unfold read_at_eof, MaxInt64. dif; [split; [discriminate|intros; discriminate]|].
  dif.
  - split; [discriminate|]. intros buf n [= <- <-]. unfold blen. rewrite repeat_length, N2Nat.id.
    repeat split; try lia. intros _. apply bytes_ok_zeros.
  - set (n := N.min size (blen file - off)).
    destruct (slice_in_range file off (off + n)) as (s & Hs & Hl); [lia|unfold n; lia|]. rewrite Hs. cbn [obind].
    split; [discriminate|]. intros buf n' [= <- <-].
    rewrite blen_app. unfold blen at 2. rewrite repeat_length, N2Nat.id.
    repeat split; try (unfold n in *; lia).
    intros Hb. rewrite bytes_ok_app, (bytes_ok_slice _ _ _ _ Hb Hs), bytes_ok_zeros. reflexivity.
Qed.

Ltac fin3 := cbn [fst snd]; split; [discriminate|split; [auto|intros; discriminate]].

(* ---- B-tree v2 header ---- *)
Lemma bt2_header_raw_spec file addr O :
  bytes_ok file = true ->
  fst (bt2_header_raw file addr O) <> Panic /\
  alloc_bounded 0 38 file (snd (bt2_header_raw file addr O)) /\
  forall root nroot total, fst (bt2_header_raw file addr O) = Ok (root, nroot, total) -> nroot <= 65535.
Proof.
  intros Hb. unfold bt2_header_raw.
  assert (B0 : alloc_bounded 0 38 file [38]) by (apply ab_cons; [lia|apply ab_nil]).
  destruct (read_at_eof_spec file addr 38) as [Hnp Hok].
  destruct (read_at_eof file addr 38) as [[buf n]| |] eqn:Er; [|fin3|congruence].
  destruct (Hok buf n eq_refl) as (Hl & Hn & _ & _ & Hbb). specialize (Hbb Hb).
  dif; [fin3|]. dif; [fin3|].
  destruct (index_ok buf 4) as (x1 & ->); [lia|]. cbn [obind].
  destruct (index_ok buf 5) as (x2 & ->); [lia|]. cbn [obind].
  destruct (rd_le_ok buf 6 4) as (x3 & ->); [lia|]. cbn [obind].
  destruct (rd_le_ok buf 10 2) as (x4 & ->); [lia|]. cbn [obind].
  destruct (rd_le_ok buf 12 2) as (x5 & ->); [lia|]. cbn [obind].
  dif; [fin3|].
  destruct (slice_in_range buf 16 (16 + O)) as (s & -> & _); [lia|lia|]. cbn [obind].
  destruct (read_address_ok s O) as (root & ->). cbn [obind].
  dif; [fin3|].
  destruct (rd_le_lt buf (16 + O) 2 Hbb) as (nroot & -> & Hnr); [lia|]. cbn [obind]. change (256 ^ 2) with 65536 in Hnr.
  dif; [fin3|].
  destruct (rd_le_ok buf (16 + O + 2) 8) as (total & ->); [lia|]. cbn [obind].
  cbn [fst snd]. split; [discriminate|split; [auto|]]. intros r nr t [= <- <- <-]. lia.
Qed.

(* ---- B-tree v2 leaf ---- *)
Definition id_ok (id : bytes) : Prop := blen id = 7 /\ bytes_ok id = true.

Lemma bt2_leaf_loop_spec n : forall buf offset, bytes_ok buf = true ->
  bt2_leaf_loop n buf offset <> Panic /\
  forall ids, bt2_leaf_loop n buf offset = Ok ids -> length ids = n /\ Forall id_ok ids.
Proof.
  induction n as [|n IH]; intros buf offset Hb; cbn [bt2_leaf_loop].
  - split; [discriminate|]. intros ids [= <-]. split; [reflexivity|constructor].
  - dif; [split; [discriminate|intros; discriminate]|].
    destruct (slice_in_range buf (offset + 4) (offset + 11)) as (id & Hs & Hl); [lia|lia|]. rewrite Hs. cbn [obind].
    destruct (IH buf (offset + 11) Hb) as [I1 I2].
    destruct (bt2_leaf_loop n buf (offset + 11)) as [rest| |]; cbn [obind].
    + split; [discriminate|]. intros ids [= <-]. destruct (I2 rest eq_refl) as [J1 J2].
      split; [cbn [length]; lia|]. constructor; auto. split; [lia|eapply bytes_ok_slice; eauto].
    + split; [discriminate|intros; discriminate].
    + congruence.
Qed.

Lemma bt2_leaf_records_spec file addr nrec :
  bytes_ok file = true -> nrec <= 65535 ->
  fst (bt2_leaf_records file addr nrec) <> Panic /\
  alloc_bounded 0 720895 file (snd (bt2_leaf_records file addr nrec)) /\
  forall ids, fst (bt2_leaf_records file addr nrec) = Ok ids ->
    N.of_nat (length ids) = nrec /\ 6 + 11 * N.of_nat (length ids) <= blen file /\ Forall id_ok ids.
Proof.
  intros Hb Hn. unfold bt2_leaf_records.
  assert (B0 : alloc_bounded 0 720895 file [6 + nrec * 11 + 4]) by (apply ab_cons; [lia|apply ab_nil]).
  destruct (read_at_eof_spec file addr (6 + nrec * 11 + 4)) as [Hnp Hok].
  destruct (read_at_eof file addr (6 + nrec * 11 + 4)) as [[buf n]| |] eqn:Er; [|fin3|congruence].
  destruct (Hok buf n eq_refl) as (Hl & Hnn & _ & Hfile & Hbb). specialize (Hbb Hb).
  dif; [fin3|]. dif; [fin3|].
  destruct (bt2_leaf_loop_spec (N.to_nat nrec) buf 6 Hbb) as [L1 L2].
  cbn [fst snd]. split; [auto|split].
  - apply ab_app; auto. apply ab_cons; [lia|apply ab_nil].
  - intros ids Hids. destruct (L2 ids Hids) as [J1 J2]. rewrite J1, N2Nat.id.
    split; [reflexivity|split; [|auto]]. assert (n <> 0) by lia. specialize (Hfile H). lia.
Qed.

(* ---- fractal heap header ---- *)
Lemma fh_header_raw_spec file addr O L :
  bytes_ok file = true -> L <= 8 ->
  fst (fh_header_raw file addr O L) <> Panic /\
  alloc_bounded 0 144 file (snd (fh_header_raw file addr O L)) /\
  forall root hos hls, fst (fh_header_raw file addr O L) = Ok (root, hos, hls) -> hos <= 255.
Proof.
  intros Hb HL. unfold fh_header_raw.
  assert (B0 : alloc_bounded 0 144 file [144]) by (apply ab_cons; [lia|apply ab_nil]).
  destruct (read_at_eof_spec file addr 144) as [Hnp Hok].
  destruct (read_at_eof file addr 144) as [[buf n]| |] eqn:Er; [|fin3|congruence].
  destruct (Hok buf n eq_refl) as (Hl & Hn & _ & _ & _).
  dif; [fin3|]. dif; [fin3|].
  destruct (index_ok buf 4) as (x1 & ->); [lia|]. cbn [obind].
  destruct (rd_le_ok buf 5 2) as (x2 & ->); [lia|]. cbn [obind].
  destruct (rd_le_ok buf 7 2) as (x3 & ->); [lia|]. cbn [obind].
  destruct (index_ok buf 9) as (x4 & ->); [lia|]. cbn [obind].
  destruct (rd_le_ok buf 10 4) as (maxman & ->); [lia|]. cbn [obind].
  destruct (slice_in_range buf (110 + 2 + L) (110 + 2 + L + L)) as (mdb & -> & _); [lia|lia|]. cbn [obind].
  cbv zeta. dif; [fin3|].
  destruct (rd_le_ok buf (110 + 2 + L + L) 2) as (mhs & ->); [lia|]. cbn [obind].
  dif; [fin3|].
  destruct (slice_in_range buf 132 (132 + O)) as (s & -> & _); [lia|lia|]. cbn [obind].
  destruct (read_address_ok s O) as (root & ->). cbn [obind].
  cbn [fst snd]. split; [discriminate|split; [auto|]]. intros r h l [= <- <- <-]. unfold wrap8. lia.
Qed.

(* ---- heap id ---- *)
Lemma parse_heap_id_spec id hos hls : id_ok id ->
  parse_heap_id id hos hls <> Panic /\
  forall off len, parse_heap_id id hos hls = Ok (off, len) -> off < 18446744073709551616 /\ len < 18446744073709551616.
Proof.
  intros [Hl Hb]. unfold parse_heap_id.
  destruct (index_ok id 0) as (b0 & ->); [lia|]. cbn [obind].
  dif; [split; [discriminate|intros; discriminate]|].
  destruct (slice_in_range id 1 (1 + N.min hos 6)) as (o & Ho & Hlo); [lia|lia|]. rewrite Ho. cbn [obind].
  destruct (slice_in_range id (1 + N.min hos 6) (1 + N.min hos 6 + N.min hls (6 - N.min hos 6))) as (l & Hs & Hll); [lia|lia|].
  rewrite Hs. cbn [obind]. split; [discriminate|]. intros off len [= <- <-].
  pose proof (unle_lt o (bytes_ok_slice _ _ _ _ Hb Ho)) as U1.
  pose proof (unle_lt l (bytes_ok_slice _ _ _ _ Hb Hs)) as U2.
  assert (P1 : 256 ^ blen o <= 256 ^ 8) by (apply N.pow_le_mono_r; lia).
  assert (P2 : 256 ^ blen l <= 256 ^ 8) by (apply N.pow_le_mono_r; lia).
  change (256 ^ 8) with 18446744073709551616 in *. lia.
Qed.

(* ---- direct block object ---- *)
Lemma read_heap_object_spec file blockAddr offset length O hos :
  O <= 8 -> hos <= 255 -> length < 18446744073709551616 ->
  fst (read_heap_object file blockAddr offset length O hos) <> Panic /\
  alloc_bounded 1 284 file (snd (read_heap_object file blockAddr offset length O hos)) /\
  forall obj, fst (read_heap_object file blockAddr offset length O hos) = Ok obj -> blen obj = length /\ length <= blen file.
Proof.
  intros HO Hh Hlen. unfold read_heap_object.
  assert (B0 : alloc_bounded 1 284 file [4 + 1 + O + hos + 16]) by (apply ab_cons; [lia|apply ab_nil]).
  destruct (read_at_eof_spec file blockAddr (4 + 1 + O + hos + 16)) as [Hnp Hok].
  destruct (read_at_eof file blockAddr (4 + 1 + O + hos + 16)) as [[hb n]| |] eqn:Er; [|fin3|congruence].
  destruct (Hok hb n eq_refl) as (Hl & Hn & _ & _ & _).
  dif; [fin3|]. dif; [fin3|].
  destruct (slice_in_range hb (5 + O) (5 + O + hos)) as (bo & -> & _); [lia|lia|].
  dif; [fin3|].
  set (oa := wrap64 (blockAddr + (5 + O + hos) + (offset - unle (firstn 8 bo)))).
  assert (Hoa : oa < 18446744073709551616) by (unfold oa, wrap64; lia).
  destruct (read_bytes_at_spec file oa length Hoa Hlen) as (R1 & R2 & R3).
  destruct (read_bytes_at file oa length) as [r l]. cbn [fst snd] in *.
  split; [auto|split].
  - apply ab_app; auto. eapply ab_weaken; [| |exact R2]; lia.
  - intros obj Hobj. now apply R3.
Qed.

(* ---- the loop over the heap ids ---- *)
Lemma dense_loop_spec file root O hos hls : O <= 8 -> hos <= 255 ->
  forall ids, Forall id_ok ids ->
  fst (dense_loop file root O hos hls ids) <> Panic /\
  alloc_bounded 1 284 file (snd (dense_loop file root O hos hls ids)) /\
  forall t, fst (dense_loop file root O hos hls ids) = Ok t -> t = N.of_nat (length ids).
Proof.
  intros HO Hh. induction ids as [|id r IH]; intros F; cbn [dense_loop].
  - cbn [fst snd]. split; [discriminate|split; [apply ab_nil|]]. intros t [= <-]. reflexivity.
  - inversion F as [|? ? Hid Fr]; subst. destruct (IH Fr) as (I1 & I2 & I3).
    destruct (parse_heap_id_spec id hos hls Hid) as [P1 P2].
    destruct (parse_heap_id id hos hls) as [[off len]| |]; [|fin3; apply ab_nil|congruence].
    destruct (P2 off len eq_refl) as [_ Ulen].
    destruct (read_heap_object_spec file root off len O hos HO Hh Ulen) as (H1 & H2 & _).
    destruct (read_heap_object file root off len O hos) as [[obj| |] l]; cbn [fst snd] in *; [|fin3|congruence].
    pose proof (dec_attribute_no_panic false obj) as Hd.
    destruct (dec_attribute false obj) as [a| |]; [|fin3|congruence].
    destruct (dense_loop file root O hos hls r) as [res l2]. cbn [fst snd] in *.
    split; [destruct res; congruence|split; [apply ab_app; auto|]].
    intros t Ht. destruct res as [t'| |]; try discriminate. injection Ht as <-.
    rewrite (I3 t' eq_refl). cbn [length]. lia.
Qed.

(* ---- readDenseAttributes ---- *)
Lemma dense_read_spec file fhAddr btAddr O L :
  bytes_ok file = true -> O <= 8 -> L <= 8 ->
  fst (dense_read file fhAddr btAddr O L) <> Panic /\
  alloc_bounded 1 720895 file (snd (dense_read file fhAddr btAddr O L)) /\
  forall t, fst (dense_read file fhAddr btAddr O L) = Ok t -> 6 + 11 * t <= blen file.
Proof.
  intros Hb HO HL. unfold dense_read.
  dif; [cbn [fst snd]; split; [discriminate|split; [apply ab_nil|intros; discriminate]]|].
  destruct (bt2_header_raw_spec file btAddr O Hb) as (A1 & A2 & A3).
  destruct (bt2_header_raw file btAddr O) as [[[[root nroot] total]| |] l1]; cbn [fst snd] in *.
  2:{ split; [discriminate|split; [eapply ab_weaken; [| |exact A2]; lia|intros; discriminate]]. }
  2:{ congruence. }
  specialize (A3 root nroot total eq_refl).
  assert (B1 : alloc_bounded 1 720895 file l1) by (eapply ab_weaken; [| |exact A2]; lia).
  destruct (bt2_leaf_records_spec file root nroot Hb A3) as (C1 & C2 & C3).
  destruct (bt2_leaf_records file root nroot) as [[ids| |] l2]; cbn [fst snd] in *.
  2:{ split; [discriminate|split; [apply ab_app; auto; eapply ab_weaken; [| |exact C2]; lia|intros; discriminate]]. }
  2:{ congruence. }
  assert (B2 : alloc_bounded 1 720895 file l2) by (eapply ab_weaken; [| |exact C2]; lia).
  destruct (C3 ids eq_refl) as (D1 & D2 & D3).
  destruct ids as [|id0 ids'].
  { cbn [fst snd length] in *. split; [discriminate|split; [apply ab_app; auto|]]. intros t [= <-]. lia. }
  destruct (fh_header_raw_spec file fhAddr O L Hb HL) as (E1 & E2 & E3).
  destruct (fh_header_raw file fhAddr O L) as [[[[hroot hos] hls]| |] l3]; cbn [fst snd] in *.
  2:{ split; [discriminate|split; [|intros; discriminate]].
      apply ab_app; auto. apply ab_app; auto. eapply ab_weaken; [| |exact E2]; lia. }
  2:{ congruence. }
  specialize (E3 hroot hos hls eq_refl).
  destruct (dense_loop_spec file hroot O hos hls HO E3 (id0 :: ids') D3) as (F1 & F2 & F3).
  destruct (dense_loop file hroot O hos hls (id0 :: ids')) as [r l4]. cbn [fst snd] in *.
  split; [auto|split].
  - apply ab_app; auto. apply ab_app; auto. apply ab_app; [eapply ab_weaken; [| |exact E2]; lia|].
    apply ab_cons; [lia|]. eapply ab_weaken; [| |exact F2]; lia.
  - intros t Ht. rewrite (F3 t Ht). lia.
Qed.

(* hypotheses are satisfiable: an empty name index (zero records in the root) reads as no attributes *)
Example dense_empty_example :
  let file := repeat 0 8 ++ sigBTHD ++ [0; 8] ++ le 4 512 ++ le 2 11 ++ le 2 0 ++ [100; 40] ++ le 8 60 ++ le 2 0 ++ le 8 0 ++ le 4 0
              ++ repeat 0 14 ++ sigBTLF ++ [0; 8] ++ le 4 0 in
  bytes_ok file = true /\ dense_read file 1 8 8 8 = (Ok 0, [38; 10; 0]).
Proof. vm_compute. split; reflexivity. Qed.
