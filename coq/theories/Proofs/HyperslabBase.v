(* C09: list / range / row-major-index lemmas shared by the Hyperslab proofs. *)
From HV Require Import Base.Prelude Model.Hyperslab.

(* ---------------------------------------------------------------- generic list lemmas *)
Lemma fold_left_flat_map {A B S} (f : S -> B -> S) (g : A -> list B) (l : list A) (st : S) :
  fold_left f (flat_map g l) st = fold_left (fun st x => fold_left f (g x) st) l st.
Proof.
  revert st; induction l as [|x l IH]; intros st; cbn [flat_map fold_left]; [reflexivity|].
  rewrite fold_left_app. apply IH.
Qed.

Lemma fold_left_map {A B S} (f : S -> B -> S) (g : A -> B) (l : list A) (st : S) :
  fold_left f (map g l) st = fold_left (fun st x => f st (g x)) l st.
Proof. revert st; induction l as [|x l IH]; intros st; cbn [map fold_left]; [reflexivity|apply IH]. Qed.

Lemma fold_left_ext_in {A S} (f g : S -> A -> S) (l : list A) (st : S) :
  (forall st x, In x l -> f st x = g st x) -> fold_left f l st = fold_left g l st.
Proof.
  revert st; induction l as [|x l IH]; intros st H; cbn [fold_left]; [reflexivity|].
  rewrite H by (left; reflexivity). apply IH. intros; apply H; right; assumption.
Qed.

Lemma fold_left_id_in {A S} (f : S -> A -> S) (l : list A) (st : S) :
  (forall st x, In x l -> f st x = st) -> fold_left f l st = st.
Proof.
  revert st; induction l as [|x l IH]; intros st H; cbn [fold_left]; [reflexivity|].
  rewrite H by (left; reflexivity). apply IH. intros; apply H; right; assumption.
Qed.

Lemma flat_map_length_const {A B} (g : A -> list B) (l : list A) (k : nat) :
  (forall x, In x l -> length (g x) = k) -> length (flat_map g l) = (length l * k)%nat.
Proof.
  induction l as [|x l IH]; intros H; cbn [flat_map length]; [reflexivity|].
  rewrite app_length, H by (left; reflexivity). rewrite IH by (intros; apply H; right; assumption).
  lia.
Qed.

Lemma map_flat_map {A B C} (f : B -> C) (g : A -> list B) (l : list A) :
  map f (flat_map g l) = flat_map (fun x => map f (g x)) l.
Proof. induction l as [|x l IH]; cbn [flat_map map]; [reflexivity|]. rewrite map_app, IH. reflexivity. Qed.

Lemma flat_map_ext_in {A B} (f g : A -> list B) (l : list A) :
  (forall x, In x l -> f x = g x) -> flat_map f l = flat_map g l.
Proof.
  induction l as [|x l IH]; intros H; cbn [flat_map]; [reflexivity|].
  rewrite H by (left; reflexivity). rewrite IH; [reflexivity|]. intros; apply H; right; assumption.
Qed.

Lemma flat_map_map {A B C} (g : B -> list C) (f : A -> B) (l : list A) :
  flat_map g (map f l) = flat_map (fun x => g (f x)) l.
Proof. induction l as [|x l IH]; cbn [flat_map map]; [reflexivity|]. rewrite IH. reflexivity. Qed.

Lemma flat_map_app' {A B} (g : A -> list B) (l1 l2 : list A) :
  flat_map g (l1 ++ l2) = flat_map g l1 ++ flat_map g l2.
Proof. induction l1 as [|x l1 IH]; cbn [app flat_map]; [reflexivity|]. rewrite IH, app_assoc. reflexivity. Qed.

Lemma flat_map_flat_map {A B C} (g : B -> list C) (f : A -> list B) (l : list A) :
  flat_map g (flat_map f l) = flat_map (fun x => flat_map g (f x)) l.
Proof. induction l as [|x l IH]; cbn [flat_map]; [reflexivity|]. rewrite flat_map_app', IH. reflexivity. Qed.

(* ---------------------------------------------------------------- nseq / nrange *)
Lemma nseq_length s n : length (nseq s n) = n.
Proof. revert s; induction n; intros; cbn [nseq length]; [reflexivity|]. rewrite IHn; reflexivity. Qed.

Lemma nrange_length n : length (nrange n) = N.to_nat n.
Proof. apply nseq_length. Qed.

Lemma nseq_app s n m : nseq s (n + m) = nseq s n ++ nseq (s + N.of_nat n) m.
Proof.
  revert s; induction n as [|n IH]; intros s.
  - cbn [nseq Nat.add app]. f_equal. lia.
  - cbn [nseq Nat.add app]. rewrite IH.
    replace (s + 1 + N.of_nat n) with (s + N.of_nat (S n)) by lia. reflexivity.
Qed.

Lemma in_nseq x s n : In x (nseq s n) <-> s <= x < s + N.of_nat n.
Proof.
  revert s; induction n as [|n IH]; intros s; cbn [nseq In].
  - lia.
  - rewrite IH. lia.
Qed.

Lemma in_nrange x n : In x (nrange n) <-> x < n.
Proof. unfold nrange. rewrite in_nseq. lia. Qed.

Lemma nth_nseq i s n d : (i < n)%nat -> nth i (nseq s n) d = s + N.of_nat i.
Proof.
  revert i s; induction n as [|n IH]; intros i s H; [lia|].
  destruct i; cbn [nseq nth]; [lia|]. rewrite IH by lia. lia.
Qed.

Lemma map_add_nseq k s n : map (N.add k) (nseq s n) = nseq (k + s) n.
Proof.
  revert s; induction n as [|n IH]; intros s; cbn [nseq map]; [reflexivity|].
  rewrite IH. do 2 f_equal. lia.
Qed.

Lemma nseq_ext s s' n : s = s' -> nseq s n = nseq s' n.
Proof. intros ->; reflexivity. Qed.

Lemma nseq_ext2 s s' n n' : s = s' -> n = n' -> nseq s n = nseq s' n'.
Proof. intros -> ->; reflexivity. Qed.

Lemma NoDup_nseq s n : NoDup (nseq s n).
Proof.
  revert s; induction n as [|n IH]; intros s; cbn [nseq]; constructor; [|apply IH].
  rewrite in_nseq. lia.
Qed.

(* concatenating k consecutive runs of length m gives one run of length k*m *)
Lemma flat_map_nseq_runs (base m : N) (s : N) (k : nat) :
  flat_map (fun i => nseq (base + i * m) (N.to_nat m)) (nseq s k)
  = nseq (base + s * m) (k * N.to_nat m).
Proof.
  revert s; induction k as [|k IH]; intros s; cbn [nseq flat_map]; [reflexivity|].
  rewrite IH. replace (S k * N.to_nat m)%nat with (N.to_nat m + k * N.to_nat m)%nat by lia.
  rewrite nseq_app. f_equal. apply nseq_ext. lia.
Qed.

(* ---------------------------------------------------------------- output buffer *)
Lemma upd_nat_length l i v : length (upd_nat l i v) = length l.
Proof. revert i; induction l as [|x l IH]; intros [|i]; cbn [upd_nat length]; auto. Qed.

Lemma upd_length l i v : length (upd l i v) = length l.
Proof. apply upd_nat_length. Qed.

Lemma nth_upd_nat l i v j d :
  nth j (upd_nat l i v) d = if Nat.eqb i j && Nat.ltb i (length l) then v else nth j l d.
Proof.
  revert i j; induction l as [|x l IH]; intros i j.
  - cbn [upd_nat length]. destruct i, j; cbn; try reflexivity; rewrite ?andb_false_r; reflexivity.
  - destruct i as [|i], j as [|j]; cbn [upd_nat nth length]; try reflexivity.
    rewrite IH. cbn [Nat.eqb]. destruct (Nat.eqb i j); cbn [andb]; [|reflexivity].
    change (Nat.ltb (S i) (S (length l))) with (Nat.ltb i (length l)). reflexivity.
Qed.

Lemma zeros_length n : length (zeros n) = N.to_nat n.
Proof. apply repeat_length. Qed.

Lemma nthN_zeros n i : nthN (zeros n) i = 0.
Proof. unfold nthN, zeros. apply nth_repeat. Qed.

(* sequential writes idx, idx+1, ... fill the buffer with the written values *)
Lemma upd_nat_app pre x r v : upd_nat (pre ++ x :: r) (length pre) v = pre ++ v :: r.
Proof. induction pre as [|y pre IH]; cbn [app length upd_nat]; [reflexivity|]. rewrite IH. reflexivity. Qed.

Lemma upd_of_nat l k v : upd l (N.of_nat k) v = upd_nat l k v.
Proof. unfold upd. rewrite Nat2N.id. reflexivity. Qed.

Lemma seq_writes (vals : list N) : forall (pre mid post : list N),
  length mid = length vals ->
  fold_left (fun (st : list N * N) v => (upd (fst st) (snd st) v, snd st + 1)) vals
            (pre ++ mid ++ post, N.of_nat (length pre))
  = (pre ++ vals ++ post, N.of_nat (length pre + length vals)).
Proof.
  induction vals as [|v vals IH]; intros pre mid post H; destruct mid as [|m mid]; cbn [length] in H; try discriminate.
  - cbn [fold_left app length]. rewrite Nat.add_0_r. reflexivity.
  - cbn [fold_left fst snd]. rewrite upd_of_nat.
    change ((m :: mid) ++ post) with (m :: (mid ++ post)). rewrite upd_nat_app.
    replace (N.of_nat (length pre) + 1) with (N.of_nat (length (pre ++ [v]))) by (rewrite app_length; cbn [length]; lia).
    replace (pre ++ v :: mid ++ post) with ((pre ++ [v]) ++ mid ++ post) by (rewrite <- app_assoc; reflexivity).
    rewrite IH by lia. rewrite <- app_assoc. cbn [app length]. rewrite app_length. cbn [length].
    f_equal. f_equal. lia.
Qed.

Lemma seq_writes_all (vals : list N) (n : N) :
  length vals = N.to_nat n ->
  fold_left (fun (st : list N * N) v => (upd (fst st) (snd st) v, snd st + 1)) vals (zeros n, 0)
  = (vals, n).
Proof.
  intros H. pose proof (seq_writes vals [] (zeros n) []) as W.
  cbn [app length Nat.add N.of_nat] in W. rewrite !app_nil_r in W.
  rewrite W by (rewrite zeros_length; lia). f_equal. lia.
Qed.

(* ---------------------------------------------------------------- prodN, lin *)
Lemma lin_go_spec : forall x dims, length x = length dims -> lin_go x dims = (lin dims x, prodN dims).
Proof.
  induction x as [|c cs IH]; intros [|d ds] H; cbn [length] in H; try discriminate; cbn [lin_go lin prodN].
  - reflexivity.
  - rewrite IH by lia. f_equal; lia.
Qed.

Lemma calc_lin_spec x dims : length x = length dims -> calc_lin x dims = lin dims x.
Proof. intros H. unfold calc_lin. rewrite lin_go_spec by assumption. reflexivity. Qed.

Lemma lin_bound : forall dims x, Forall2 N.lt x dims -> lin dims x < prodN dims.
Proof.
  induction dims as [|d ds IH]; intros x H; inversion H; subst; cbn [lin prodN]; [lia|].
  match goal with H : Forall2 _ _ ds |- _ => apply IH in H end. nia.
Qed.

Lemma lin_le_mono : forall dims x y, Forall2 N.le x y -> length x = length dims -> lin dims x <= lin dims y.
Proof.
  induction dims as [|d ds IH]; intros x y H L; inversion H; subst; cbn [lin]; try lia.
  cbn [length] in L.
  match goal with H : Forall2 _ _ _ |- _ => apply IH in H; [|lia] end. nia.
Qed.

Lemma lin_vadd : forall dims x y, length x = length dims -> length y = length dims ->
  lin dims (vadd x y) = lin dims x + lin dims y.
Proof.
  induction dims as [|d ds IH]; intros [|a x] [|b y] Lx Ly; cbn [length] in *; try discriminate; cbn [vadd lin]; try lia.
  rewrite IH by lia. lia.
Qed.

Lemma vadd_length : forall x y, length x = length y -> length (vadd x y) = length x.
Proof. induction x; intros [|b y] H; cbn [length vadd] in *; try discriminate; [reflexivity|]. rewrite IHx by lia. reflexivity. Qed.

Lemma nth_skipn' {A} (l : list A) : forall k i d, nth i (skipn k l) d = nth (k + i) l d.
Proof.
  induction l as [|x l IH]; intros [|k] i d; cbn [skipn Nat.add nth]; try reflexivity.
  - destruct i; reflexivity.
  - apply IH.
Qed.

Lemma nth_firstn' {A} (l : list A) : forall n i d, (i < n)%nat -> nth i (firstn n l) d = nth i l d.
Proof.
  induction l as [|x l IH]; intros [|n] i d H; cbn [firstn nth]; try reflexivity; try lia.
  destruct i; [reflexivity|]. apply IH. lia.
Qed.

Lemma nthN_map_nseq (full : list N) (off : N) (n : nat) :
  (N.to_nat off + n <= length full)%nat ->
  map (nthN full) (nseq off n) = firstn n (skipn (N.to_nat off) full).
Proof.
  intros H. apply nth_ext with (d := nthN full 0) (d' := 0).
  - rewrite map_length, nseq_length, firstn_length, skipn_length. lia.
  - intros i Hi. rewrite map_length, nseq_length in Hi.
    rewrite map_nth, nth_nseq by assumption. rewrite nth_firstn' by assumption.
    rewrite nth_skipn'. unfold nthN. f_equal. lia.
Qed.

Lemma read_at_spec full off n :
  off + n <= lenN full -> read_at full off n = map (nthN full) (nseq off (N.to_nat n)).
Proof.
  unfold read_at, lenN. intros H.
  rewrite !N.min_l by lia.
  rewrite nthN_map_nseq by lia. reflexivity.
Qed.

Lemma read_at_length full off n : off + n <= lenN full -> length (read_at full off n) = N.to_nat n.
Proof. intros H. rewrite read_at_spec by assumption. rewrite map_length, nseq_length. reflexivity. Qed.

Lemma nthN_read_at full off n k : off + n <= lenN full -> k < n -> nthN (read_at full off n) k = nthN full (off + k).
Proof.
  intros H Hk. rewrite read_at_spec by assumption. unfold nthN at 1.
  rewrite nth_indep with (d' := nthN full 0) by (rewrite map_length, nseq_length; lia).
  rewrite map_nth, nth_nseq by lia. f_equal. lia.
Qed.

(* ---------------------------------------------------------------- axis_idx, sel_coords *)
Lemma in_axis_idx a x :
  In x (axis_idx a) <-> exists c b, c < a_count a /\ b < a_block a /\ x = a_start a + c * a_stride a + b.
Proof.
  unfold axis_idx. rewrite in_flat_map. split.
  - intros (c & Hc & Hx). apply in_map_iff in Hx. destruct Hx as (b & <- & Hb).
    apply in_nrange in Hc. apply in_nrange in Hb. eauto.
  - intros (c & b & Hc & Hb & ->). exists c. split; [apply in_nrange; assumption|].
    apply in_map_iff. exists b. split; [reflexivity|apply in_nrange; assumption].
Qed.

Lemma axis_idx_bound a d x : axis_valid a d -> In x (axis_idx a) ->
  a_start a <= x /\ x <= a_start a + (a_count a - 1) * a_stride a + a_block a - 1 /\ x < d.
Proof.
  intros (Hc & Hs & Hb & Hd) Hx. apply in_axis_idx in Hx. destruct Hx as (c & b & Hc' & Hb' & ->).
  assert (c * a_stride a <= (a_count a - 1) * a_stride a) by (apply N.mul_le_mono_r; lia).
  lia.
Qed.

Lemma axis_idx_length a : length (axis_idx a) = (N.to_nat (a_count a) * N.to_nat (a_block a))%nat.
Proof.
  unfold axis_idx. rewrite flat_map_length_const with (k := N.to_nat (a_block a)).
  - rewrite nrange_length. reflexivity.
  - intros. rewrite map_length, nrange_length. reflexivity.
Qed.

Lemma sel_coords_length s :
  length (sel_coords s) = fold_right (fun a t => (N.to_nat (a_count a) * N.to_nat (a_block a) * t)%nat) 1%nat s.
Proof.
  induction s as [|a s IH]; cbn [sel_coords fold_right length]; [reflexivity|].
  rewrite flat_map_length_const with (k := length (sel_coords s)).
  - rewrite axis_idx_length, IH. reflexivity.
  - intros. rewrite map_length. reflexivity.
Qed.

Lemma sel_coords_each_length s x : In x (sel_coords s) -> length x = length s.
Proof.
  revert x; induction s as [|a s IH]; intros x H; cbn [sel_coords] in H.
  - destruct H as [<-|[]]. reflexivity.
  - apply in_flat_map in H. destruct H as (i & _ & H). apply in_map_iff in H. destruct H as (y0 & <- & Hy).
    cbn [length]. rewrite (IH _ Hy). reflexivity.
Qed.

Lemma in_sel_coords_cons a s x :
  In x (sel_coords (a :: s)) <-> exists i y, x = i :: y /\ In i (axis_idx a) /\ In y (sel_coords s).
Proof.
  cbn [sel_coords]. rewrite in_flat_map. split.
  - intros (i & Hi & H). apply in_map_iff in H. destruct H as (y & <- & Hy). eauto.
  - intros (i & y & -> & Hi & Hy). exists i. split; [assumption|]. apply in_map_iff. eauto.
Qed.

Lemma sel_coords_inb : forall s dims x, axes_valid s dims -> In x (sel_coords s) -> Forall2 N.lt x dims.
Proof.
  induction s as [|a s IH]; intros dims x V H; inversion V; subst.
  - destruct H as [<-|[]]. constructor.
  - apply in_sel_coords_cons in H. destruct H as (i & z & -> & Hi & Hz).
    constructor; [|eapply IH; eassumption].
    eapply axis_idx_bound; eassumption.
Qed.

(* out_elems as a product *)
Lemma out_elems_fold s t :
  fold_left (fun t a => t * (a_count a * (if a_block a =? 0 then 1 else a_block a))) s t
  = t * fold_right (fun a r => a_count a * (if a_block a =? 0 then 1 else a_block a) * r) 1 s.
Proof.
  revert t; induction s as [|a s IH]; intros t; cbn [fold_left fold_right]; [lia|].
  rewrite IH. lia.
Qed.

Lemma out_elems_prod s : Forall (fun a => 0 < a_block a) s ->
  fold_right (fun a r => a_count a * (if a_block a =? 0 then 1 else a_block a) * r) 1 s
  = N.of_nat (fold_right (fun a t => (N.to_nat (a_count a) * N.to_nat (a_block a) * t)%nat) 1%nat s).
Proof.
  induction 1 as [|a s Ha Hs IH]; cbn [fold_right]; [reflexivity|].
  rewrite IH. destruct (N.eqb_spec (a_block a) 0); lia.
Qed.

Lemma out_elems_length s : s <> [] -> Forall (fun a => 0 < a_block a) s ->
  out_elems s = N.of_nat (length (sel_coords s)).
Proof.
  intros Hne Hb. unfold out_elems. destruct s as [|a0 s0]; [congruence|].
  rewrite out_elems_fold, N.mul_1_l, sel_coords_length. apply out_elems_prod. assumption.
Qed.

Lemma axes_valid_block s dims : axes_valid s dims -> Forall (fun a => 0 < a_block a) s.
Proof. induction 1 as [|a d s dims H _ IH]; constructor; [apply H|assumption]. Qed.

Lemma Forall2_len {A B} (R : A -> B -> Prop) l m : Forall2 R l m -> length l = length m.
Proof. induction 1; cbn [length]; congruence. Qed.

Lemma axes_valid_length s dims : axes_valid s dims -> length s = length dims.
Proof. apply Forall2_len. Qed.
