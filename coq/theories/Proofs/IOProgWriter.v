(* C17, writer side: an operation that is a sequence of checked calls returns an error when any of its calls fails. *)
From HV Require Import Base.Prelude Base.Outcome Base.Bytes Model.IOProg Proofs.IOProg Model.IOProgWriter.

Lemma w_of_calls_wstrict cs : wstrict (w_of_calls cs).
Proof. induction cs as [|[off data| |s|] r IH]; cbn [w_of_calls wstrict]; auto. Qed.

Lemma w_of_calls_count cs : forall f torn c, snd (wrun f noflt torn c (w_of_calls cs)) = (c + length cs)%nat.
Proof.
  induction cs as [|[off data| |s|] r IH]; intros; cbn [w_of_calls wrun noflt length snd]; try rewrite IH; blia.
Qed.

Theorem write_op_fault_err cs f fl torn i :
  (i < length cs)%nat -> fl i = true -> fst (fst (wrun f fl torn 0 (w_of_calls cs))) = Err.
Proof.
  intros H1 H2. apply w_fault_err; [apply w_of_calls_wstrict|].
  exists i. rewrite w_of_calls_count. repeat split; auto; blia.
Qed.

(* non-vacuity: CreateGroup as observed on a version 2 file (8 writes); the 6th write (parent heap header) fails *)
Definition ex_create_group : list wcallD :=
  [DWrite 2483 (zeros 1288); DWrite 3771 (zeros 544); DWrite 2195 (zeros 32); DWrite 2227 (zeros 256);
   DWrite 4315 (zeros 27); DWrite 48 (zeros 32); DWrite 80 (zeros 256); DWrite 336 (zeros 1288)].
Example ex_create_group_ok : fst (fst (wrun [] noflt (fun _ => 0%nat) 0 (w_of_calls ex_create_group))) = Ok tt.
Proof. vm_compute. reflexivity. Qed.
Example ex_create_group_fault5 :
  fst (fst (wrun [] (fun i => Nat.eqb i 5) (fun _ => 0%nat) 0 (w_of_calls ex_create_group))) = Err.
Proof. vm_compute. reflexivity. Qed.
Example ex_shape :
  shape_ok (2, [(0, S_SNOD, 1288); (0, S_TREE, 544); (0, S_HEAP, 32); (0, [0;0;0;0], 256); (0, S_OHDR, 27);
                (0, S_HEAP, 32); (0, [103;0;0;0], 256); (0, S_SNOD, 1288)]) = true
  /\ shape_ok (2, [(0, S_SNOD, 1288); (0, S_TREE, 544)]) = false.
Proof. split; vm_compute; reflexivity. Qed.
