(* C20 proofs, entry point.  The development is split:
     LowFloatBase.v    bit tests as arithmetic, rne_shift, X32 (piecewise linear, monotone), rne_spec bracket lemma
     LowFloatBF16.v    bfloat16: bit trick = rne16, monotone, run lifting, sign, round trips, nearest-even in value
     LowFloatFP8.v     FP8: monotone, run lifting, sign, code round trips, NaN codes
     LowFloatFP8Rne.v  FP8: nearest-even in value with IEEE overflow
   This file connects the magnitude-level theorems to the full encoders and holds cross-format examples. *)
From HV Require Import Base.Prelude Model.LowFloat Model.LowFloatTie.
From HV Require Export Proofs.LowFloatBase Proofs.LowFloatBF16 Proofs.LowFloatFP8 Proofs.LowFloatFP8Rne.

(* a non-NaN input is encoded as sign bit + encoding of its magnitude *)
Lemma fp8_enc_split F : F = E4M3 \/ F = E5M2 -> forall x, x < 4294967296 -> f32_is_nan x = false ->
  fp8_enc F x = f32_sign x * 128 + fp8_enc_mag F (f32_mag x).
Proof.
  intros HF x Hx Hn. unfold f32_is_nan in Hn. apply N.ltb_ge in Hn.
  destruct (N.lt_ge_cases x 2147483648) as [Hp|Hneg].
  - rewrite mag_small in * by exact Hp. rewrite sign_small by exact Hp. rewrite fp8_enc_pos by auto. lia.
  - replace x with (x - 2147483648 + 2147483648) in * by lia.
    rewrite mag_neg in * by lia. rewrite sign_neg by lia. rewrite fp8_enc_neg by auto. lia.
Qed.

Lemma bf16_enc_split x : x < 4294967296 -> f32_is_nan x = false ->
  bf16_enc x = f32_sign x * 32768 + bf16_enc (f32_mag x).
Proof.
  intros Hx Hn.
  destruct (N.lt_ge_cases x 2147483648) as [Hp|Hneg].
  - rewrite mag_small, sign_small by exact Hp. lia.
  - assert (Hn' : f32_is_nan (x - 2147483648) = false).
    { unfold f32_is_nan in *. rewrite mag_small by lia.
      replace x with (x - 2147483648 + 2147483648) in Hn by lia. rewrite mag_neg in Hn by lia. exact Hn. }
    replace x with (x - 2147483648 + 2147483648) by lia.
    rewrite mag_neg, sign_neg by lia. rewrite bf16_sign by (auto; lia). lia.
Qed.

(* full-encoder form of the rounding theorems: sign bit + correctly rounded magnitude *)
Lemma fp8_enc_correct F : F = E4M3 \/ F = E5M2 -> forall x, x < 4294967296 -> f32_is_nan x = false ->
  exists c, fp8_enc F x = f32_sign x * 128 + c /\ fp8_rne_ok F (f32_mag x) c = true.
Proof.
  intros HF x Hx Hn. exists (fp8_enc_mag F (f32_mag x)). split; [apply fp8_enc_split; auto|].
  unfold f32_is_nan in Hn. apply N.ltb_ge in Hn.
  destruct HF as [->| ->]; [apply fp8_rne_E4M3|apply fp8_rne_E5M2]; exact Hn.
Qed.

Lemma bf16_enc_correct x : x < 4294967296 -> f32_is_nan x = false ->
  exists c, bf16_enc x = f32_sign x * 32768 + c /\ bf16_rne_ok (f32_mag x) c = true.
Proof.
  intros Hx Hn. exists (bf16_enc (f32_mag x)). split; [apply bf16_enc_split; auto|].
  unfold f32_is_nan in Hn. apply N.ltb_ge in Hn. apply bf16_rne, Hn.
Qed.

(* the same float32 in the three formats: -1.5 = 0xBFC00000 *)
Example minus_one_and_a_half :
  fp8_enc E4M3 3217031168 = 188 /\ fp8_enc E5M2 3217031168 = 190 /\ bf16_enc 3217031168 = 49088.
Proof. vm_compute. auto. Qed.
(* hypotheses of the split/correctness lemmas hold for it, and its decoded codes give the value back *)
Example minus_one_and_a_half_back :
  f32_is_nan 3217031168 = false /\ fp8_dec E4M3 188 = 3217031168 /\ fp8_dec E5M2 190 = 3217031168 /\ bf16_dec 49088 = 3217031168.
Proof. vm_compute. auto. Qed.

(* the bfloat16 specification is not vacuous: on the tie 0x3F808000 it accepts the even code 0x3F80 (by
   bf16_rne) and rejects the odd neighbour 0x3F81, which is equally near (shown without enumerating the grid) *)
Lemma forallb_false {A} (f : A -> bool) l x : In x l -> f x = false -> forallb f l = false.
Proof.
  intros Hin Hf. destruct (forallb f l) eqn:E; [|reflexivity].
  rewrite forallb_forall in E. rewrite (E x Hin) in Hf. discriminate.
Qed.

Example bf16_spec_accepts_even_on_tie : bf16_rne_ok 1065385984 16256 = true.
Proof. apply (bf16_rne 1065385984). lia. Qed.

Example bf16_spec_rejects_odd_on_tie : bf16_rne_ok 1065385984 16257 = false.
Proof.
  unfold bf16_rne_ok, rne_spec.
  replace (X32 ((32640 - 1) * 65536) + X32 (32640 * 65536) <=? 2 * X32 1065385984) with false
    by (vm_compute; reflexivity).
  apply andb_false_intro2. apply (forallb_false _ _ 16256).
  - apply codes_below_In. lia.
  - vm_compute. reflexivity.
Qed.
