(* C03 end to end, depth 1: the byte-level model against the SPECIFICATION on histories of root-level creations. *)
From HV Require Import Base.Prelude Base.Outcome Base.Bytes Model.RobustAlloc Model.RobustGroup Model.GroupWire.
From HV Require Import Model.CodecOhdr Model.IOProg Model.IOProgReader Model.IOProgOpen.
From HV Require Import Proofs.GroupWireHeap Proofs.GroupWireSnod.
From HV Require Import Model.FileImage Model.TreeImage Model.TreeFlat Proofs.FileImage.
From HV Require Import Proofs.TreeImageOpen Proofs.TreeImagePlaced Proofs.TreeImageFlat Proofs.TreeImageFlatStep Proofs.TreeImageFlatRead
  Proofs.TreeImageFlatMain Proofs.TreeImageDecide Proofs.TreeImageSpecSide.
From HV Require Model.GroupNS Proofs.GroupNSBase Proofs.GroupNSHeap Proofs.GroupNSPath.

Local Open Scope N_scope.

Definition node_name (x : node) : bytes := match x with Grp n _ _ => n | Dset n _ => n | Dtyp n _ => n end.

Lemma loop_nodes_names es : forall cs, length es = length cs -> map node_name (loop_nodes es cs) = map fst cs.
Proof.
  induction es as [|e r IH]; intros [|[nm c] cs'] H; try discriminate; [reflexivity|].
  cbn [loop_nodes map fst snd]. rewrite IH by (cbn in H; lia). destruct c; reflexivity.
Qed.

Lemma FlatInv_root st nodes : FlatInv st nodes ->
  exists seg s rest, t_file st = image (flat_lay seg s rest) /\ blen seg = 256 /\ snode_ok s = true /\
    (length (stn_entries s) <= 32)%nat /\ Forall item_ok rest /\ GH.gwf seg (map abs_sym (stn_entries s)) (map node_name nodes).
Proof.
  intros (seg & s & rest & cs & ns & Hf & Hs & Hok & Hm & Hr & Hg & Hns & HF & _ & _ & Hn).
  exists seg, s, rest. repeat (split; [assumption|]). subst nodes.
  rewrite loop_nodes_names by (eapply Forall2_len; exact HF). subst ns. exact Hg.
Qed.

(* path facts for "/" name *)
Lemma one_comp_facts p n : NS.split_path p = Some [n] ->
  NS.validate_group_path p = true /\ NS.validate_dataset_name p = true /\ NS.trim_suffix_slash p = p /\
  NS.parse_path p = ([], n) /\ NS.heap_name_ok n = true.
Proof.
  intros H. destruct (GP.split_path_inv p n [] H) as [-> Hok]. pose proof Hok as Hok'. apply Forall_cons_iff in Hok' as [Hn _].
  destruct (proj1 (GP.name_ok_iff n) Hn) as (Hne & Hnz & Hsf).
  split; [now apply GP.validate_group_render|]. split; [apply GP.render_starts|]. split.
  - cbn [NS.render]. rewrite app_nil_r. apply (GP.trim_suffix_nonslash [NS.SL] n Hne Hsf).
  - split; [exact (GP.parse_path_render [] n Hok)|]. apply GH.heap_name_ok_iff. now apply GP.name_ok_hname.
Qed.

Lemma group_answer st nodes p n : FlatInv st nodes -> NS.split_path p = Some [n] -> blen (t_file st) + 3000 < LIM ->
  snd (t_create_group st p) = d1_accept (map node_name nodes) n.
Proof.
  intros HI Hp Hb. destruct (FlatInv_root st nodes HI) as (seg & s & rest & Hf & Hs & Hok & Hm & Hr & Hg).
  destruct (one_comp_facts p n Hp) as (V1 & _ & T & P & Hhn).
  assert (Hokl : Forall item_ok (flat_lay seg s rest)) by (constructor; [cbn [root_item item_ok]; auto | exact Hr]).
  assert (Hlen : blen (t_file st) = 2195 + lsize rest) by (rewrite Hf, blen_image by exact Hokl; apply lsize_flat).
  rewrite Hlen in Hb.
  unfold t_create_group. rewrite V1, T, P. cbn [negb]. unfold parent_registered. change (NS.is_root_parent []) with true. cbn [orb negb].
  rewrite (prepare_root_eq st seg s rest _ Hf Hs Hok Hm Hg [] eq_refl n 0), Hhn. cbn [andb].
  destruct (d1_accept (map node_name nodes) n) eqn:EA; [|reflexivity].
  rewrite Hf. pose proof (alloc_group_image (flat_lay seg s rest) Hokl) as E. rewrite lsize_flat in E.
  specialize (E ltac:(blia)). cbv zeta in E. rewrite E. clear E.
  set (ha := 2195 + lsize rest) in *.
  change (flat_lay seg s rest ++ [new_group_item ha]) with (flat_lay seg s (rest ++ [new_group_item ha])).
  destruct (link_root_ok (with_file st (image (flat_lay seg s (rest ++ [new_group_item ha])))) seg s (rest ++ [new_group_item ha])
              (map node_name nodes) eq_refl Hs Hok Hm Hg [] eq_refl n (ha + 2120) Hhn EA) as (f2 & E2).
  { unfold LIM in Hb. blia. }
  rewrite E2. reflexivity.
Qed.

Lemma dataset_answer st nodes p n code dims data : FlatInv st nodes -> NS.split_path p = Some [n] ->
  blen (t_file st) + blen data + 3000 < LIM ->
  snd (t_create_dataset st p code dims data) = d1_accept (map node_name nodes) n.
Proof.
  intros HI Hp Hb. destruct (FlatInv_root st nodes HI) as (seg & s & rest & Hf & Hs & Hok & Hm & Hr & Hg).
  destruct (one_comp_facts p n Hp) as (_ & V2 & _ & P & Hhn).
  assert (Hokl : Forall item_ok (flat_lay seg s rest)) by (constructor; [cbn [root_item item_ok]; auto | exact Hr]).
  assert (Hlen : blen (t_file st) = 2195 + lsize rest) by (rewrite Hf, blen_image by exact Hokl; apply lsize_flat).
  rewrite Hlen in Hb.
  unfold t_create_dataset. rewrite V2, P. cbn [negb].
  rewrite (prepare_root_eq st seg s rest _ Hf Hs Hok Hm Hg [] eq_refl n 0), Hhn. cbn [andb].
  destruct (d1_accept (map node_name nodes) n) eqn:EA; [|reflexivity].
  rewrite Hf. pose proof (alloc_dataset_image (flat_lay seg s rest) code dims data Hokl) as E. rewrite lsize_flat in E.
  cbv zeta in E. rewrite E. clear E.
  set (da := 2195 + lsize rest) in *. set (it := new_dset_item code dims data da).
  change (flat_lay seg s rest ++ [it]) with (flat_lay seg s (rest ++ [it])).
  destruct (link_root_ok (with_file st (image (flat_lay seg s (rest ++ [it])))) seg s (rest ++ [it])
              (map node_name nodes) eq_refl Hs Hok Hm Hg [] eq_refl n (da + blen data) Hhn EA) as (f2 & E2).
  { unfold LIM in Hb. blia. }
  rewrite E2. reflexivity.
Qed.

Lemma map_name_ent L : map node_name (map ent_node L) = map en_name L.
Proof. rewrite map_map. apply map_ext. intros e. unfold ent_node. destruct (en_grp e); reflexivity. Qed.

Lemma one_component_inv p : one_component p = true -> exists n, NS.split_path p = Some [n].
Proof. unfold one_component. destruct (NS.split_path p) as [[|n [|m r]]|]; try discriminate. intros _. now exists n. Qed.

Lemma d1_step st t L o : FlatInv st (map ent_node L) -> SpecInv t L -> d1_op o = true ->
  blen (t_file st) + op_extent o < FLAT_LIM ->
  exists L1, FlatInv (fst (t_step st o)) (map ent_node L1) /\
    SpecInv (fst (NS.spec_step NS.go_cfg t (ns_op o))) L1 /\
    snd (t_step st o) = NS.is_ok (snd (NS.spec_step NS.go_cfg t (ns_op o))) /\
    map ent_node L1 = map ent_node L ++ (if snd (t_step st o) then [flat_child st o] else []) /\
    flat_step st o.
Proof.
  intros HI HS Hd Hb. unfold FLAT_LIM in Hb.
  destruct o as [p | p code dims data | p q]; [| |discriminate]; cbn [d1_op op_extent] in *.
  - destruct (one_component_inv p Hd) as (n & Hp).
    destruct (one_comp_facts p n Hp) as (_ & _ & T & P & _).
    assert (Hroot : NS.is_root_parent (fst (NS.parse_path (NS.trim_suffix_slash p))) = true) by (rewrite T, P; reflexivity).
    pose proof (group_answer st _ p n HI Hp Hb) as HA. rewrite map_name_ent in HA.
    pose proof (flat_group_step st _ p HI Hroot Hb) as HF. rewrite T, P in HF. cbn [snd] in HF.
    destruct (spec_create t L p n true (blen (t_file st) + 2120) HS Hp) as [S1 S2]. cbv zeta in S1, S2.
    cbn [t_step ns_op NS.spec_step flat_child op_parent_name]. rewrite T, P. cbn [snd].
    exists (if d1_accept (map en_name L) n then L ++ [{| en_name := n; en_id := NS.s_clock t; en_grp := true; en_addr := blen (t_file st) + 2120 |}] else L).
    rewrite HA in *. rewrite S1. split; [|split; [exact S2|split; [reflexivity|split]]].
    + destruct (d1_accept (map en_name L) n); [|exact HF]. rewrite map_app. exact HF.
    + destruct (d1_accept (map en_name L) n); [|now rewrite app_nil_r]. rewrite map_app. reflexivity.
    + right. cbn [is_creation op_parent_name op_args_ok op_extent]. rewrite T, P. repeat split; try reflexivity. unfold FLAT_LIM. exact Hb.
  - apply andb_true_iff in Hd as [Hd Hargs]. destruct (one_component_inv p Hd) as (n & Hp).
    destruct (one_comp_facts p n Hp) as (_ & _ & _ & P & _).
    assert (Hroot : NS.is_root_parent (fst (NS.parse_path p)) = true) by (rewrite P; reflexivity).
    assert (Hb' : blen (t_file st) + blen data + 3000 < LIM) by (unfold LIM; blia).
    pose proof (dataset_answer st _ p n code dims data HI Hp Hb') as HA. rewrite map_name_ent in HA.
    pose proof (flat_dataset_step st _ p code dims data HI Hroot Hargs Hb') as HF. rewrite P in HF. cbn [snd] in HF.
    destruct (spec_create t L p n false (blen (t_file st) + blen data) HS Hp) as [S1 S2]. cbv zeta in S1, S2.
    cbn [t_step ns_op NS.spec_step flat_child op_parent_name]. rewrite P. cbn [snd].
    exists (if d1_accept (map en_name L) n then L ++ [{| en_name := n; en_id := NS.s_clock t; en_grp := false; en_addr := blen (t_file st) + blen data |}] else L).
    rewrite HA in *. rewrite S1. split; [|split; [exact S2|split; [reflexivity|split]]].
    + destruct (d1_accept (map en_name L) n); [|exact HF]. rewrite map_app. exact HF.
    + destruct (d1_accept (map en_name L) n); [|now rewrite app_nil_r]. rewrite map_app. reflexivity.
    + right. cbn [is_creation op_parent_name op_extent]. rewrite P. repeat split; try reflexivity; try exact Hargs. unfold FLAT_LIM. exact Hb.
Qed.

Lemma t_run_snd st o r : snd (t_run st (o :: r)) = snd (t_step st o) :: snd (t_run (fst (t_step st o)) r).
Proof. cbn [t_run]. destruct (t_step st o) as [st1 x]. cbn [fst snd]. destruct (t_run st1 r). reflexivity. Qed.
Lemma ns_run_fst {S O R} (f : S -> O -> S * R) s o r : fst (NS.run f s (o :: r)) = fst (NS.run f (fst (f s o)) r).
Proof. cbn [NS.run]. destruct (f s o) as [s1 x]. cbn [fst]. destruct (NS.run f s1 r). reflexivity. Qed.
Lemma ns_run_snd {S O R} (f : S -> O -> S * R) s o r : snd (NS.run f s (o :: r)) = snd (f s o) :: snd (NS.run f (fst (f s o)) r).
Proof. cbn [NS.run]. destruct (f s o) as [s1 x]. cbn [fst snd]. destruct (NS.run f s1 r). reflexivity. Qed.

Lemma d1_run h : forall st t L, FlatInv st (map ent_node L) -> SpecInv t L -> forallb d1_op h = true -> bounded st h ->
  exists L', FlatInv (fst (t_run st h)) (map ent_node L') /\
    SpecInv (fst (NS.run (NS.spec_step NS.go_cfg) t (map ns_op h))) L' /\
    snd (t_run st h) = map NS.is_ok (snd (NS.run (NS.spec_step NS.go_cfg) t (map ns_op h))) /\
    map ent_node L' = map ent_node L ++ flat_nodes st h /\ flat_hist st h.
Proof.
  induction h as [|o r IH]; intros st t L HI HS Hd Hb.
  - exists L. cbn [t_run NS.run map fst snd flat_nodes flat_hist]. rewrite app_nil_r. auto.
  - cbn [forallb] in Hd. apply andb_true_iff in Hd as [Hd1 Hd2]. destruct Hb as [Hb1 Hb2].
    destruct (d1_step st t L o HI HS Hd1 Hb1) as (L1 & I1 & S1 & A1 & N1 & F1).
    destruct (IH _ _ L1 I1 S1 Hd2 Hb2) as (L' & I2 & S2 & A2 & N2 & F2).
    exists L'. cbn [map]. rewrite t_run_fst, t_run_snd, ns_run_fst, ns_run_snd. cbn [map flat_nodes flat_hist].
    split; [exact I2|]. split; [exact S2|]. split; [now rewrite A1, A2|]. split; [|split; assumption].
    rewrite N2, N1, <- app_assoc. reflexivity.
Qed.

Theorem tree_depth1 h n hfuel : (4 < hfuel)%nat -> forallb d1_op h = true -> bounded t_init h ->
  2197 <= blen (t_file (fst (tree_run h))) -> blen (t_file (fst (tree_run h))) + 4000 < FLAT_LIM ->
  let sp := NS.run (NS.spec_step NS.go_cfg) NS.s_empty (map ns_op h) in
  tree_oks h = map NS.is_ok (snd sp) /\
  exists tr addr, NS.spec_tree (fst sp) = Some tr /\
    node_of_tree addr [47] tr = Grp [47] 2168 (flat_nodes t_init h) /\
    run0 (tree_image h) (p_open true (blen (tree_image h)) (S (S (S (S (S n))))) hfuel) = Ok (node_of_tree addr [47] tr).
Proof.
  intros Hh Hd Hb H1 H2 sp.
  destruct (d1_run h t_init NS.s_empty [] flat_init spec_init Hd Hb) as (L' & I & S & A & N & F). cbn [map app] in N.
  split; [exact A|].
  pose proof S as (_ & Hid & Hnd & _).
  assert (Hid1 : Forall (fun e => 1 <= en_id e) L') by (eapply Forall_impl; [|exact Hid]; cbn; intros e [X _]; exact X).
  exists (NS.TNode 0 NS.KGroup (map (fun e => (en_name e, ent_tree e)) L')), (ent_addr L').
  split; [exact (spec_tree_of _ _ S)|].
  rewrite (node_of_spec_tree L' Hnd Hid1), N. split; [reflexivity|].
  exact (tree_depth1_partial h n hfuel Hh F H1 H2).
Qed.

(* ------------------------------------------------------------------ the hypotheses are satisfiable *)
(* /g, /d (uint8 [3]), /d again (refused by library and specification: duplicate), /g again (refused) *)
Definition d1_ex : list top :=
  [TGroup [47; 103]; TDataset [47; 100] 4 [3] [1; 2; 3]; TDataset [47; 100] 4 [3] [1; 2; 3]; TGroup [47; 103]].
Lemma d1_ex_ok :
  forallb d1_op d1_ex = true /\ bounded t_init d1_ex /\ 2197 <= blen (t_file (fst (tree_run d1_ex))) /\
  blen (t_file (fst (tree_run d1_ex))) + 4000 < FLAT_LIM /\
  tree_oks d1_ex = [true; true; false; false] /\
  map NS.is_ok (snd (NS.run (NS.spec_step NS.go_cfg) NS.s_empty (map ns_op d1_ex))) = [true; true; false; false] /\
  NS.spec_tree (fst (NS.run (NS.spec_step NS.go_cfg) NS.s_empty (map ns_op d1_ex)))
    = Some (NS.TNode 0 NS.KGroup [([103], NS.TNode 1 NS.KGroup []); ([100], NS.TNode 2 NS.KData [])]).
Proof.
  split; [vm_compute; reflexivity|]. split.
  { cbn [bounded d1_ex]. repeat split; vm_compute; reflexivity. }
  vm_compute. repeat split; try reflexivity; discriminate.
Qed.
