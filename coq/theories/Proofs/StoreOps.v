(* Per-operation layer: the command list every API call compiles to passes the static checks
   (sizes within the reservation, owners within the targets), for every bookkeeping state. *)
From HV Require Import Base.Prelude Model.Store Proofs.Store.

Local Open Scope N_scope.

Section WithPatches.
(* the two error-path patches may be present or not; everything below holds in all four cases *)
Variables bp ba : bool.
Notation cfgb := (gcfg bp ba).

(* ------------------------------------------------------------------ bookkeeping invariant *)

Definition obj_ok (ob : obj) : Prop :=
  o_poff ob + 8 <= max_hdr /\ hdr_chunk (o_msgs ob) <= max_chunk /\ o_nrec ob <= bt2_maxrec.
Definition objs_ok (l : list obj) : Prop := Forall obj_ok l.

Lemma get_obj_In : forall l x ob, get_obj l x = Some ob -> In ob l /\ o_id ob = x.
Proof.
  induction l as [|a r IH]; intros x ob H; [discriminate|]. cbn [get_obj] in H.
  destruct (o_id a =? x) eqn:E.
  - inversion H; subst. apply N.eqb_eq in E. split; [left; reflexivity | exact E].
  - destruct (IH _ _ H) as [H1 H2]. split; [right; exact H1 | exact H2].
Qed.

Lemma get_obj_ok : forall l x ob, objs_ok l -> get_obj l x = Some ob -> obj_ok ob.
Proof. intros l x ob Hl H. destruct (get_obj_In _ _ _ H) as [Hin _]. unfold objs_ok in Hl. rewrite Forall_forall in Hl. auto. Qed.

Lemma set_obj_ok : forall l nb, objs_ok l -> obj_ok nb -> objs_ok (set_obj l nb).
Proof.
  induction l as [|a r IH]; intros nb Hl Hn; [constructor|]. cbn [set_obj].
  inversion Hl; subst. destruct (o_id a =? o_id nb); constructor; auto. apply IH; auto.
Qed.

Lemma objs_ok_app : forall l nb, objs_ok l -> obj_ok nb -> objs_ok (l ++ [nb]).
Proof. intros. apply Forall_app. split; [assumption | constructor; [assumption | constructor]]. Qed.

(* ------------------------------------------------------------------ sizes: the crux lemmas *)

(* an in-place header write never exceeds the reserved 7 + 255 bytes: writeToV2 refuses a chunk above 255 *)
Lemma hdr_size_le_reserved : forall m, hdr_chunk m <= max_chunk -> hdr_size m <= max_hdr.
Proof. intros m H. unfold hdr_size, hdr_prefix, max_hdr, max_chunk in *. lia. Qed.

Lemma hdr_write_spec : forall x k m w, hdr_write x k m = Some w -> w = CWrite x k 0 (hdr_size m) /\ hdr_chunk m <= max_chunk.
Proof.
  intros x k m w H. unfold hdr_write in H. destruct (max_chunk <? hdr_chunk m) eqn:E; [discriminate|].
  inversion H; subst. apply N.ltb_ge in E. auto.
Qed.

Lemma hdr_write_none : forall x k m, hdr_write x k m = None -> max_chunk < hdr_chunk m.
Proof. intros x k m H. unfold hdr_write in H. destruct (max_chunk <? hdr_chunk m) eqn:E; [|discriminate]. apply N.ltb_lt; exact E. Qed.

Lemma ws_hdr : forall k m, is_hdr k = true -> hdr_chunk m <= max_chunk -> write_sized cfgb k (0 + hdr_size m) = true.
Proof.
  intros k m Hk H. pose proof (hdr_size_le_reserved m H) as H'.
  destruct k; try discriminate; unfold write_sized, sized, cfgb; cbn [c_reserve_hdr c_reserve_link];
    apply N.leb_le; lia.
Qed.

Lemma is_hdr_kind : forall ob, is_hdr (hdr_kind ob) = true.
Proof. intros ob. unfold hdr_kind. destruct (o_kind ob); reflexivity. Qed.

Lemma ws_patch : forall p, p + 8 <= max_hdr -> write_sized cfgb KHeader (p + 8) = true.
Proof. intros p H. cbn. apply N.leb_le. exact H. Qed.

Lemma ws_leaf : forall n, n <= bt2_maxrec -> write_sized cfgb KBt2Leaf (0 + leaf_size n) = true.
Proof.
  intros n H. cbn. apply N.leb_le. assert (E : bt2_maxrec = 371) by reflexivity. rewrite E in H.
  unfold leaf_size, bt2_node. lia.
Qed.

Lemma hdr_chunk_app : forall a b, hdr_chunk (a ++ b) = hdr_chunk a + hdr_chunk b.
Proof. unfold hdr_chunk. induction a as [|p r IH]; intros b; cbn [app fold_right]; [lia|]. rewrite IH. lia. Qed.

Lemma count_le_chunk : forall t m, 4 * count_type t m <= hdr_chunk m.
Proof.
  intros t m. unfold count_type, hdr_chunk. induction m as [|p r IH]; cbn [filter fold_right List.length]; [cbn; lia|].
  destruct (fst p =? t); cbn [List.length]; lia.
Qed.

Lemma drop_type_chunk : forall t m, hdr_chunk (drop_type t m) <= hdr_chunk m.
Proof.
  intros t m. unfold drop_type, hdr_chunk. induction m as [|p r IH]; cbn [filter fold_right]; [lia|].
  destruct (negb (fst p =? t)); cbn [fold_right]; lia.
Qed.

(* ------------------------------------------------------------------ what compile returns is good *)

Definition fail_targets (o : op) (w : oid) (k : kind) : bool :=
  match o with
  | OpHardLink _ _ _ t => (w =? t) && is_hdr k
  | OpWriteVL _ _ _ => (w =? 0) && is_gcol k     (* the roll-over flush of the current collection comes first *)
  | _ => false
  end.

(* calls whose failure can leave bytes behind (orphan extents, or the reference-count message) *)
Definition may_leave_bytes (o : op) : bool :=
  match o with
  | OpMkGroup _ _ _ | OpMkChunked _ _ _ _ _ _ _ | OpMkLink _ _ _ _ | OpHardLink _ _ _ _ => negb bp
  | OpMkContig _ _ _ _ _ _ => true       (* header too large for one chunk: detected after the data allocation *)
  | OpAttrSet _ None _ _ => negb ba
  | OpWrite _ _ => true                  (* zero-size chunk: Allocate fails after earlier chunks were written *)
  | OpWriteVL _ _ _ => true              (* the same, after the elements went to the global heap *)
  | OpMkDense _ _ _ _ _ => true          (* CreateDenseGroup links after writing everything, without a pre-check *)
  | _ => false
  end.

Definition good (l : list obj) (T Tf : oid -> kind -> bool) (lv : bool) (r : compiled) : Prop :=
  let '(cmds, ok, upd) := r in
  cmds_ok cfgb T [] cmds = true /\ objs_ok (upd l) /\
  (ok = false -> cmds_ok cfgb Tf [] cmds = true) /\
  (ok = false -> lv = false -> cmds = []) /\
  (ok = false -> cmds = [] -> forall l', upd l' = l').

Lemma good_reject : forall l T Tf lv, objs_ok l -> good l T Tf lv reject.
Proof. intros. cbn. auto. Qed.

Lemma link_spec : forall s p nl dup lc lok upd,
  objs_ok (objs s) -> link_to_parent s p nl dup = (lc, lok, upd) ->
  (lok = false -> lc = []) /\ (forall l, objs_ok l -> objs_ok (upd l)) /\
  (forall T fr, T p KHeap = true -> T p KSnod = true -> cmds_ok cfgb T fr lc = true).
Proof.
  intros s p nl dup lc lok upd Ho H. unfold link_to_parent in H.
  assert (R : (lc, lok, upd) = reject -> (lok = false -> lc = []) /\ (forall l, objs_ok l -> objs_ok (upd l)) /\
              (forall T fr, T p KHeap = true -> T p KSnod = true -> cmds_ok cfgb T fr lc = true)).
  { intros E. inversion E; subst. auto. }
  destruct (negb (session s =? 0)); [apply R; auto|].
  destruct (get_obj (objs s) p) as [po|] eqn:Eg; [|apply R; auto].
  destruct (o_kind po); try (apply R; auto; fail).
  destruct dup; [apply R; auto|].
  destruct (heap_data <? o_hused po + (nl + 1)); [apply R; auto|].
  destruct (snod_cap <=? o_nent po); [apply R; auto|].
  inversion H; subst. split; [discriminate|]. split.
  - intros l Hl. apply set_obj_ok; [exact Hl|].
    pose proof (get_obj_ok _ _ _ Ho Eg) as (A & B & C). unfold obj_ok, with_link; cbn. auto.
  - intros T fr H1 H2. cbn [cmds_ok]. rewrite H1, H2. reflexivity.
Qed.

Ltac arith :=
  unfold max_hdr, max_chunk, hdr_prefix, attrinfo_len in *;
  assert (bt2_maxrec = 371) by reflexivity; lia.

Lemma link_refused_spec : forall s p nl dup lc lok upd,
  conf s = cfgb -> link_refused s p nl dup = false -> link_to_parent s p nl dup = (lc, lok, upd) ->
  lok = false -> bp = false.
Proof.
  intros s p nl dup lc lok upd Hcf Hr E F. unfold link_refused in Hr. rewrite Hcf, E in Hr. cbn in Hr.
  subst lok. destruct bp; [discriminate | reflexivity].
Qed.

Lemma seq_link_good : forall s p nl dup pre nb T Tf,
  objs_ok (objs s) -> conf s = cfgb -> link_refused s p nl dup = false -> obj_ok nb ->
  T p KHeap = true -> T p KSnod = true -> pre <> [] ->
  cmds_ok cfgb Tf [] pre = true ->
  (forall o k, Tf o k = true -> T o k = true) ->
  good (objs s) T Tf (negb bp) (seq_link pre (link_to_parent s p nl dup) nb).
Proof.
  intros s p nl dup pre nb T Tf Ho Hcf Hlr Hn H1 H2 Hne Hp HT.
  destruct (link_to_parent s p nl dup) as [[lc lok] upd] eqn:E.
  destruct (link_spec _ _ _ _ _ _ _ Ho E) as (A & B & C).
  cbn [seq_link good]. repeat split.
  - apply cmds_ok_app; [eapply cmds_ok_T_mono; eauto | apply C; auto].
  - apply objs_ok_app; auto.
  - intros F. rewrite (A F), app_nil_r. exact Hp.
  - intros F Hb. rewrite (link_refused_spec _ _ _ _ _ _ _ Hcf Hlr E F) in Hb. discriminate.
  - intros F Hnil. apply app_eq_nil in Hnil. destruct Hnil as [Hnil _]. contradiction.
Qed.

(* the same for a creation path without a link pre-check (CreateDenseGroup) *)
Lemma seq_link_good_lv : forall s p nl dup pre nb T Tf,
  objs_ok (objs s) -> obj_ok nb ->
  T p KHeap = true -> T p KSnod = true -> pre <> [] ->
  cmds_ok cfgb Tf [] pre = true ->
  (forall o k, Tf o k = true -> T o k = true) ->
  good (objs s) T Tf true (seq_link pre (link_to_parent s p nl dup) nb).
Proof.
  intros s p nl dup pre nb T Tf Ho Hn H1 H2 Hne Hp HT.
  destruct (link_to_parent s p nl dup) as [[lc lok] upd] eqn:E.
  destruct (link_spec _ _ _ _ _ _ _ Ho E) as (A & B & C).
  cbn [seq_link good]. repeat split.
  - apply cmds_ok_app; [eapply cmds_ok_T_mono; eauto | apply C; auto].
  - apply objs_ok_app; auto.
  - intros F. rewrite (A F), app_nil_r. exact Hp.
  - discriminate.
  - intros F Hnil. apply app_eq_nil in Hnil. destruct Hnil as [Hnil _]. contradiction.
Qed.

(* creation targets: the new object, and the parent's heap and symbol node *)
Lemma tgt_create_parent : forall x p k, is_heap_snod k = true -> ((p =? x) || ((p =? p) && is_heap_snod k)) = true.
Proof. intros x p k H. rewrite N.eqb_refl, H. apply orb_true_r. Qed.

Lemma ff_imp : forall (T : oid -> kind -> bool) o k, (fun (_ : oid) (_ : kind) => false) o k = true -> T o k = true.
Proof. intros; discriminate. Qed.

Ltac fresh_cmds :=
  cbn [cmds_ok memb existsb fst snd kind_eqb app fail_targets]; rewrite ?N.eqb_refl; cbn [andb orb];
  repeat (rewrite ?ws_hdr by (auto; reflexivity)); try reflexivity.


Lemma chunk_cmds_ok : forall T y sizes fr cc ok, chunk_cmds y sizes = (cc, ok) -> cmds_ok cfgb T fr cc = true.
Proof.
  intros T y. induction sizes as [|n r IH]; intros fr cc ok H; cbn [chunk_cmds] in H.
  - inversion H; subst. reflexivity.
  - destruct (n =? 0); [inversion H; subst; reflexivity|].
    destruct (chunk_cmds y r) as [c ok'] eqn:E. inversion H; subst.
    cbn [cmds_ok]. rewrite (IH _ _ _ eq_refl). reflexivity.
Qed.

(* every command of the global heap writer: a collection is allocated with the size it records, and flushed as a
   whole buffer of that recorded size *)
Lemma vl_walk_ok : forall T lens g fr, (forall sz, T 0 (KGCol sz) = true) ->
  cmds_ok cfgb T fr (fst (vl_walk g lens)) = true.
Proof.
  intros T. induction lens as [|l r IH]; intros g fr HT; [reflexivity|].
  cbn [vl_walk].
  destruct (match g with None => true | Some (_, free) => free <? GHeap.obj_total l end).
  - match goal with |- context [vl_walk (Some ?q) r] => pose proof (IH (Some q)) as IH'; destruct (vl_walk (Some q) r) as [c g'] end.
    cbn [fst] in *. apply cmds_ok_app.
    + destruct g as [[sz fr0]|]; [|reflexivity]. cbn [cmds_ok]. rewrite HT. cbn [orb andb].
      unfold write_sized. cbn [sized]. rewrite N.add_0_l, N.leb_refl. reflexivity.
    + cbn [cmds_ok]. unfold alloc_sized. cbn [sized]. rewrite N.eqb_refl. cbn [andb]. apply IH'. exact HT.
  - apply IH. exact HT.
Qed.

Lemma vl_walk_none : forall lens g', vl_walk None lens = ([], g') -> g' = None.
Proof.
  intros [|l r] g' H; cbn [vl_walk] in H; [inversion H; reflexivity|].
  match type of H with context [vl_walk (Some ?q) r] => destruct (vl_walk (Some q) r) end. discriminate.
Qed.

Lemma chunked_write_good : forall l y ob sizes T Tf,
  objs_ok l -> obj_ok ob -> T y KHeader = true ->
  good l T Tf true (chunked_write y ob sizes).
Proof.
  intros l y ob sizes T Tf Hl Hob HT. unfold chunked_write.
  destruct (max_chunk_entries <? N.of_nat (List.length sizes)); [apply good_reject; auto|].
  destruct (chunk_cmds y sizes) as [cc ok] eqn:Ec. destruct ok.
  - cbn [good]. repeat split; auto; try discriminate.
    apply cmds_ok_app; [eapply chunk_cmds_ok; eauto|].
    cbn [cmds_ok]. rewrite HT. cbn [orb andb]. destruct Hob as (PA & _). rewrite (ws_patch _ PA). reflexivity.
  - cbn [good]. repeat split; auto; try discriminate; try (intros _); eapply chunk_cmds_ok; eauto.
Qed.

Lemma dense_pre_ok : forall T x nlinks, nlinks <= bt2_maxrec ->
  cmds_ok cfgb T []
    [CAlloc x KFHeapHdr fh_hdr_size; CAlloc x KLinkHeapBlk lheap_blk_size;
     CWrite x KFHeapHdr 0 fh_hdr_size; CWrite x KLinkHeapBlk 0 lheap_blk_size;
     CAlloc x KBt2Leaf bt2_node; CWrite x KBt2Leaf 0 (leaf_size nlinks);
     CAllocWrite x KBt2Hdr bt2_hdr_size;
     CAlloc x KHeader (dense_hdr_alloc cfgb dense_msgs); CWrite x KHeader 0 (hdr_size dense_msgs)] = true.
Proof.
  intros T x nlinks Hn. cbn [cmds_ok memb existsb fst snd kind_eqb]. rewrite ?N.eqb_refl. cbn [andb orb].
  rewrite (ws_leaf _ Hn). rewrite ?orb_true_r. reflexivity.
Qed.

Lemma with_msgs_ok : forall ob m n, obj_ok ob -> hdr_chunk m <= max_chunk -> n <= bt2_maxrec -> obj_ok (with_msgs ob m n).
Proof. intros ob m n (A & B & C) Hm Hn. unfold obj_ok, with_msgs; cbn. auto. Qed.

Definition ff (_ : oid) (_ : kind) : bool := false.

Lemma transition_good : forall l ob hfit again T,
  objs_ok l -> obj_ok ob -> (forall k, T (o_id ob) k = true) ->
  good l T ff (negb ba) (transition cfgb ob hfit again).
Proof.
  intros l ob hfit again T Hl Hob HT. unfold transition.
  destruct (negb hfit); [apply good_reject; auto|].
  set (x := o_id ob). set (k := hdr_kind ob). set (m := o_msgs ob).
  set (nattr := count_type M_ATTR m). set (rest := drop_type M_ATTR m).
  set (tmp := rest ++ [(M_ATTRINFO, attrinfo_len)]).
  cbn [c_attrinfo gcfg].
  destruct (ba && (max_hdr <? hdr_size tmp)) eqn:Eai; [apply good_reject; auto|].
  assert (Hearly : negb ba = false -> hdr_chunk rest + (4 + attrinfo_len) <= max_chunk).
  { intros Hb. destruct ba; [|discriminate]. cbn in Eai. apply N.ltb_ge in Eai.
    unfold tmp in Eai. unfold hdr_size in Eai. rewrite hdr_chunk_app in Eai.
    unfold hdr_chunk at 2 in Eai. cbn [fold_right snd] in Eai. arith. }
  assert (Hn : nattr + 1 <= bt2_maxrec).
  { pose proof (count_le_chunk M_ATTR m). destruct Hob as (_ & B & _). fold m in B. subst nattr. arith. }
  assert (Hpre : forall T', cmds_ok cfgb T' []
     [CAdvance x k (hdr_size tmp); CAlloc x KFHeapHdr fh_hdr_size; CAlloc x KFHeapBlk fh_blk_size;
      CWrite x KFHeapHdr 0 fh_hdr_size; CWrite x KFHeapBlk 0 fh_blk_size; CAlloc x KBt2Leaf bt2_node;
      CWrite x KBt2Leaf 0 (leaf_size (nattr + 1)); CAllocWrite x KBt2Hdr bt2_hdr_size] = true).
  { intros T'. cbn [cmds_ok memb existsb fst snd kind_eqb]. rewrite ?N.eqb_refl. cbn [andb orb].
    rewrite (ws_leaf _ Hn). rewrite ?orb_true_r. reflexivity. }
  destruct (max_chunk <? hdr_chunk rest + (4 + attrinfo_len)) eqn:E1.
  { cbn [good]. repeat split; auto; try discriminate.
    intros _ Hb. apply N.ltb_lt in E1. specialize (Hearly Hb). lia. }
  destruct (hdr_write x k tmp) as [w|] eqn:Ew.
  2:{ cbn [good]. repeat split; auto; try discriminate.
      intros _ Hb. apply hdr_write_none in Ew. specialize (Hearly Hb).
      unfold tmp in Ew. rewrite hdr_chunk_app in Ew. unfold hdr_chunk at 2 in Ew. cbn [fold_right snd] in Ew. lia. }
  destruct (hdr_write_spec _ _ _ _ Ew) as [-> Hc].
  cbn [good]. repeat split; try discriminate.
  - apply cmds_ok_app; [apply Hpre|].
    destruct again; cbn [app cmds_ok]; unfold x; rewrite HT; cbn [orb andb];
      rewrite (ws_hdr k tmp (is_hdr_kind ob) Hc); reflexivity.
  - apply set_obj_ok; auto. apply with_msgs_ok; auto.
Qed.

Lemma dense_writes_ok : forall T x n fr, (forall k, T x k = true) -> n <= bt2_maxrec ->
  cmds_ok cfgb T fr (dense_writes x n) = true.
Proof.
  intros T x n fr HT Hn. unfold dense_writes. cbn [cmds_ok]. rewrite !HT. cbn [orb andb].
  rewrite (ws_leaf _ Hn). reflexivity.
Qed.

Lemma replace_chunk_ok : forall x k i alen m w, hdr_write x k (replace_nth_type M_ATTR i alen m) = Some w -> True.
Proof. auto. Qed.

Lemma attr_set_good : forall l ob idx alen hfit T,
  objs_ok l -> obj_ok ob -> (forall k, T (o_id ob) k = true) ->
  good l T ff (match idx with None => negb ba | Some _ => false end) (attr_set cfgb ob idx alen hfit).
Proof.
  intros l ob idx alen hfit T Hl Hob HT. unfold attr_set.
  pose proof Hob as (PA & PB & PC).
  destruct (has_type M_ATTRINFO (o_msgs ob)).
  { destruct idx as [i|].
    - destruct hfit; [|apply good_reject; auto].
      cbn [good]. repeat split; auto; try discriminate. apply dense_writes_ok; auto.
    - destruct (negb hfit); [apply good_reject; auto|].
      destruct (bt2_maxrec <=? o_nrec ob) eqn:E; [apply good_reject; auto|].
      apply N.leb_gt in E.
      cbn [good]. repeat split; auto; try discriminate.
      + apply dense_writes_ok; auto. lia.
      + apply set_obj_ok; auto. apply with_msgs_ok; auto. lia. }
  destruct (count_type M_ATTR (o_msgs ob) <? max_compact).
  - destruct idx as [i|].
    + destruct (hdr_write (o_id ob) (hdr_kind ob) (replace_nth_type M_ATTR i alen (o_msgs ob))) as [w|] eqn:Ew;
        [|apply good_reject; auto].
      destruct (hdr_write_spec _ _ _ _ Ew) as [-> Hc].
      cbn [good]. repeat split; auto; try discriminate.
      * cbn [cmds_ok]. rewrite HT. cbn [orb andb]. rewrite (ws_hdr _ _ (is_hdr_kind ob) Hc). reflexivity.
      * apply set_obj_ok; auto. apply with_msgs_ok; auto. arith.
    + destruct (max_chunk <? hdr_chunk (o_msgs ob) + (4 + alen)).
      * apply transition_good; auto.
      * destruct (hdr_write (o_id ob) (hdr_kind ob) (o_msgs ob ++ [(M_ATTR, alen)])) as [w|] eqn:Ew;
          [|apply good_reject; auto].
        destruct (hdr_write_spec _ _ _ _ Ew) as [-> Hc].
        cbn [good]. repeat split; auto; try discriminate.
        -- cbn [cmds_ok]. rewrite HT. cbn [orb andb]. rewrite (ws_hdr _ _ (is_hdr_kind ob) Hc). reflexivity.
        -- apply set_obj_ok; auto. apply with_msgs_ok; auto. arith.
  - destruct idx as [i|]; [apply good_reject; auto|]. apply transition_good; auto.
Qed.

Lemma attr_del_good : forall l ob idx T,
  objs_ok l -> obj_ok ob -> (forall k, T (o_id ob) k = true) ->
  good l T ff false (attr_del ob idx).
Proof.
  intros l ob idx T Hl Hob HT. unfold attr_del. pose proof Hob as (PA & PB & PC).
  destruct idx as [i|]; [|apply good_reject; auto].
  destruct (has_type M_ATTRINFO (o_msgs ob)).
  - destruct (o_nrec ob =? 0); [apply good_reject; auto|].
    cbn [good]. repeat split; auto; try discriminate.
    + apply dense_writes_ok; auto. lia.
    + apply set_obj_ok; auto. apply with_msgs_ok; auto. lia.
  - destruct (hdr_write (o_id ob) (hdr_kind ob) (remove_nth_type M_ATTR i (o_msgs ob))) as [w|] eqn:Ew;
      [|apply good_reject; auto].
    destruct (hdr_write_spec _ _ _ _ Ew) as [-> Hc].
    cbn [good]. repeat split; auto; try discriminate.
    + cbn [cmds_ok]. rewrite HT. cbn [orb andb]. rewrite (ws_hdr _ _ (is_hdr_kind ob) Hc). reflexivity.
    + apply set_obj_ok; auto. apply with_msgs_ok; auto. arith.
Qed.

Lemma set_msgs_ok : forall l x m, objs_ok l -> hdr_chunk m <= max_chunk -> objs_ok (set_msgs l x m).
Proof.
  intros l x m Hl Hm. unfold set_msgs. destruct (get_obj l x) as [cur|] eqn:E; [|exact Hl].
  apply set_obj_ok; auto. pose proof (get_obj_ok _ _ _ Hl E) as (A & B & C). apply with_msgs_ok; auto. split; auto.
Qed.

Lemma good_weaken : forall l T Tf lv r, good l T ff lv r -> good l T Tf lv r.
Proof.
  intros l T Tf lv [[cmds ok] upd] (A & B & C & D & E). cbn [good]. repeat split; auto.
  intros F. eapply cmds_ok_T_mono; [|apply C; exact F]. intros; discriminate.
Qed.

Lemma good_lv : forall l T Tf lv r, good l T Tf lv r -> good l T Tf true r.
Proof. intros l T Tf lv [[cmds ok] upd] (A & B & C & D & E). cbn [good]. repeat split; auto. discriminate. Qed.

Lemma compile_good : forall s o, objs_ok (objs s) -> conf s = cfgb ->
  good (objs s) (targets s o) (fail_targets o) (may_leave_bytes o) (compile s o).
Proof.
  intros s o Ho Hcf. unfold compile. rewrite Hcf.
  destruct (closed s) eqn:Ecl; [apply good_reject; auto|].
  destruct o as [p nl dup|p nl dup ldt rank dsize|p nl dup ldt rank hasmax lpipe|p nl dup mlen|y sizes|y|y idx alen hfit|y idx|p nl dup tgt
                |p nl dup nlinks fit|y lens sizes| | |];
    try (apply good_reject; auto; fail).
  - (* OpMkGroup *)
    destruct (negb (parent_known s p)); [apply good_reject; auto|].
    destruct (link_refused s p nl dup) eqn:Elr; [apply good_reject; auto|].
    destruct (hdr_write (opidx s + 1) KHeader [(M_SYMTAB, 16)]) as [w|] eqn:Ew; [|apply good_reject; auto].
    destruct (hdr_write_spec _ _ _ _ Ew) as [-> Hc].
    cbn [may_leave_bytes]. apply seq_link_good; auto.
    + unfold obj_ok, new_obj; cbn. arith.
    + cbn [targets]. apply tgt_create_parent; reflexivity.
    + cbn [targets]. apply tgt_create_parent; reflexivity.
    + discriminate.
    + fresh_cmds.
    + apply ff_imp.
  - (* OpMkContig *)
    destruct (dsize =? 0); [apply good_reject; auto|].
    destruct (link_refused s p nl dup) eqn:Elr; [apply good_reject; auto|].
    destruct (hdr_write (opidx s + 1) KHeader _) as [w|] eqn:Ew.
    + destruct (hdr_write_spec _ _ _ _ Ew) as [-> Hc].
      cbn [may_leave_bytes]. eapply good_lv. apply seq_link_good; auto.
      * unfold obj_ok, new_obj; cbn [o_poff o_msgs o_nrec]. arith.
      * cbn [targets]. apply tgt_create_parent; reflexivity.
      * cbn [targets]. apply tgt_create_parent; reflexivity.
      * discriminate.
      * fresh_cmds.
      * apply ff_imp.
    + cbn [good may_leave_bytes]. repeat split; auto; try discriminate.
  - (* OpMkChunked *)
    set (lds := 8 + 8 * rank + (if hasmax then 8 * rank else 0)).
    set (pipe := if lpipe =? 0 then [] else [(M_PIPELINE, lpipe)]).
    destruct (hdr_write (opidx s + 1) KHeader _) as [w|] eqn:Ew; [|apply good_reject; auto].
    destruct (hdr_write_spec _ _ _ _ Ew) as [-> Hc].
    destruct (link_refused s p nl dup) eqn:Elr; [apply good_reject; auto|].
    cbn [may_leave_bytes]. apply seq_link_good; auto.
    + unfold obj_ok, new_obj; cbn [o_poff o_msgs o_nrec].
      split; [|split; [exact Hc | arith]].
      rewrite hdr_chunk_app in Hc. unfold hdr_chunk in Hc at 1. cbn [fold_right snd] in Hc. arith.
    + cbn [targets]. apply tgt_create_parent; reflexivity.
    + cbn [targets]. apply tgt_create_parent; reflexivity.
    + discriminate.
    + fresh_cmds.
    + apply ff_imp.
  - (* OpMkLink *)
    destruct (negb (parent_known s p)); [apply good_reject; auto|].
    destruct (hdr_write (opidx s + 1) KLinkHdr [(M_LINK, mlen)]) as [w|] eqn:Ew; [|apply good_reject; auto].
    destruct (hdr_write_spec _ _ _ _ Ew) as [-> Hc].
    destruct (link_refused s p nl dup) eqn:Elr; [apply good_reject; auto|].
    cbn [may_leave_bytes]. apply seq_link_good; auto.
    + unfold obj_ok, new_obj; cbn [o_poff o_msgs o_nrec]. split; [arith | split; [exact Hc | arith]].
    + cbn [targets]. apply tgt_create_parent; reflexivity.
    + cbn [targets]. apply tgt_create_parent; reflexivity.
    + discriminate.
    + fresh_cmds.
    + apply ff_imp.
  - (* OpWrite *)
    destruct (get_obj (objs s) y) as [ob|] eqn:Eg; [|apply good_reject; auto].
    pose proof (get_obj_ok _ _ _ Ho Eg) as Hob. destruct (get_obj_In _ _ _ Eg) as [_ Hid].
    destruct (o_kind ob); try (apply good_reject; auto; fail).
    + cbn [good targets cmds_ok]. rewrite N.eqb_refl. repeat split; auto; discriminate.
    + destruct (negb (session s =? 0)); [apply good_reject; auto|].
      destruct sizes as [|n0 sz]; [apply good_reject; auto|].
      cbn [may_leave_bytes]. apply chunked_write_good; auto. cbn [targets]. apply N.eqb_refl.
  - (* OpResize *)
    destruct (get_obj (objs s) y) as [ob|] eqn:Eg; [|apply good_reject; auto].
    pose proof (get_obj_ok _ _ _ Ho Eg) as Hob.
    destruct (o_kind ob); try (apply good_reject; auto; fail).
    destruct (negb (session s =? 0)); [apply good_reject; auto|].
    destruct (hdr_write y KHeader (o_msgs ob)) as [w|] eqn:Ew; [|apply good_reject; auto].
    destruct (hdr_write_spec _ _ _ _ Ew) as [-> Hc].
    cbn [good targets cmds_ok]. rewrite N.eqb_refl. cbn [orb andb].
    rewrite (ws_hdr KHeader _ eq_refl Hc). repeat split; auto; discriminate.
  - (* OpAttrSet *)
    destruct (get_obj (objs s) y) as [ob|] eqn:Eg; [|apply good_reject; auto].
    pose proof (get_obj_ok _ _ _ Ho Eg) as Hob. destruct (get_obj_In _ _ _ Eg) as [_ Hid].
    assert (HT : forall k, targets s (OpAttrSet y idx alen hfit) (o_id ob) k = true)
      by (intros k; cbn [targets]; rewrite Hid; apply N.eqb_refl).
    destruct (o_kind ob) eqn:Ek; try (apply good_reject; auto; fail);
      apply good_weaken; cbn [may_leave_bytes]; apply attr_set_good; auto.
  - (* OpAttrDel *)
    destruct (get_obj (objs s) y) as [ob|] eqn:Eg; [|apply good_reject; auto].
    pose proof (get_obj_ok _ _ _ Ho Eg) as Hob. destruct (get_obj_In _ _ _ Eg) as [_ Hid].
    assert (HT : forall k, targets s (OpAttrDel y idx) (o_id ob) k = true)
      by (intros k; cbn [targets]; rewrite Hid; apply N.eqb_refl).
    destruct (o_kind ob) eqn:Ek; try (apply good_reject; auto; fail);
      apply good_weaken; cbn [may_leave_bytes]; apply attr_del_good; auto.
  - (* OpHardLink *)
    destruct (negb (parent_known s p)); [apply good_reject; auto|].
    destruct (negb (session s =? 0)); [apply good_reject; auto|].
    destruct (get_obj (objs s) tgt) as [tb|] eqn:Eg; [|apply good_reject; auto].
    destruct (link_refused s p nl dup) eqn:Elr; [apply good_reject; auto|].
    pose proof (get_obj_ok _ _ _ Ho Eg) as Hob. pose proof Hob as (PA & PB & PC).
    match goal with |- context [match ?X with Some m' => _ | None => reject end] => destruct X as [m'|] end;
      [|apply good_reject; auto].
    destruct (hdr_write tgt (hdr_kind tb) m') as [w|] eqn:Ew; [|apply good_reject; auto].
    destruct (hdr_write_spec _ _ _ _ Ew) as [-> Hc].
    destruct (link_to_parent s p nl dup) as [[lc lok] upd] eqn:El.
    destruct (link_spec _ _ _ _ _ _ _ Ho El) as (A & B & C).
    assert (Hw : forall fr, cmds_ok cfgb (fail_targets (OpHardLink p nl dup tgt)) fr
                   [CWrite tgt (hdr_kind tb) 0 (hdr_size m'); CWrite tgt (hdr_kind tb) 0 (hdr_size m')] = true).
    { intros fr. cbn [cmds_ok fail_targets]. rewrite N.eqb_refl, (is_hdr_kind tb). cbn [andb orb].
      rewrite (ws_hdr _ _ (is_hdr_kind tb) Hc). reflexivity. }
    assert (HTT : forall o k, fail_targets (OpHardLink p nl dup tgt) o k = true -> targets s (OpHardLink p nl dup tgt) o k = true).
    { intros o k H. cbn [fail_targets targets] in *. rewrite H. reflexivity. }
    destruct lok.
    + cbn [good]. repeat split; auto; try discriminate.
      * apply cmds_ok_app.
        -- cbn [cmds_ok targets]. rewrite N.eqb_refl, (is_hdr_kind tb). cbn [andb orb].
           rewrite (ws_hdr _ _ (is_hdr_kind tb) Hc). reflexivity.
        -- apply C; cbn [targets]; rewrite N.eqb_refl; cbn; apply orb_true_r.
      * apply set_msgs_ok; auto.
    + cbn [good may_leave_bytes]. repeat split; auto; try discriminate.
      * eapply cmds_ok_T_mono; [exact HTT | apply Hw].
      * apply set_msgs_ok; auto.
      * intros _ Hb. rewrite (link_refused_spec _ _ _ _ _ _ _ Hcf Elr El eq_refl) in Hb. discriminate.
  - (* OpMkDense *)
    cbn [may_leave_bytes].
    destruct ((nlinks =? 0) || negb (session s =? 0) || negb fit || (bt2_maxrec <? nlinks)) eqn:Ec; [apply good_reject; auto|].
    apply orb_false_iff in Ec. destruct Ec as [_ Emax]. apply N.ltb_ge in Emax.
    destruct (hdr_write (opidx s + 1) KHeader dense_msgs) as [w|] eqn:Ew; [|apply good_reject; auto].
    destruct (hdr_write_spec _ _ _ _ Ew) as [-> Hc].
    destruct (negb (parent_known s p)).
    + cbn [good]. repeat split; auto; try discriminate; try (intros _); apply dense_pre_ok; exact Emax.
    + apply seq_link_good_lv; auto.
      * unfold obj_ok, new_obj; cbn [o_poff o_msgs o_nrec]. split; [arith | split; [exact Hc | arith]].
      * cbn [targets]. apply tgt_create_parent; reflexivity.
      * cbn [targets]. apply tgt_create_parent; reflexivity.
      * discriminate.
      * apply dense_pre_ok; exact Emax.
      * apply ff_imp.
  - (* OpWriteVL *)
    cbn [may_leave_bytes]. unfold vl_compile. rewrite Ecl.
    destruct (get_obj (objs s) y) as [ob|] eqn:Eg; [|apply good_reject; auto].
    pose proof (get_obj_ok _ _ _ Ho Eg) as Hob.
    destruct (vl_walk (gh s) lens) as [hc g'] eqn:Ev.
    assert (Hhc : forall T fr, (forall sz, T 0 (KGCol sz) = true) -> cmds_ok cfgb T fr hc = true).
    { intros T fr HT. pose proof (vl_walk_ok T lens (gh s) fr HT) as A. rewrite Ev in A. exact A. }
    assert (HT1 : forall sz, targets s (OpWriteVL y lens sizes) 0 (KGCol sz) = true)
      by (intros sz; cbn [targets is_gcol]; rewrite N.eqb_refl; apply orb_true_r).
    assert (HT2 : forall sz, fail_targets (OpWriteVL y lens sizes) 0 (KGCol sz) = true) by (intros sz; reflexivity).
    destruct (o_kind ob); cbn [fst]; try (apply good_reject; auto; fail).
    + cbn [good]. repeat split; auto; try discriminate.
      apply cmds_ok_app; [apply Hhc; exact HT1|]. cbn [cmds_ok targets]. rewrite N.eqb_refl. reflexivity.
    + destruct (negb (session s =? 0)); [apply good_reject; auto|].
      destruct sizes as [|n0 sz]; [apply good_reject; auto|].
      pose proof (chunked_write_good (objs s) y ob (n0 :: sz) (targets s (OpWriteVL y lens (n0 :: sz)))
                    (fail_targets (OpWriteVL y lens (n0 :: sz))) Ho Hob) as G.
      destruct (chunked_write y ob (n0 :: sz)) as [[cc ok] upd]. cbn [fst good] in *.
      destruct G as (G1 & G2 & G3 & G4 & G5); [cbn [targets]; rewrite N.eqb_refl; reflexivity|].
      repeat split; auto.
      * apply cmds_ok_app; [apply Hhc; exact HT1 | exact G1].
      * intros F. apply cmds_ok_app; [apply Hhc; exact HT2 | apply G3; exact F].
      * discriminate.
      * intros F Hnil. apply app_eq_nil in Hnil. destruct Hnil as [_ Hnil]. apply G5; auto.
Qed.

End WithPatches.
