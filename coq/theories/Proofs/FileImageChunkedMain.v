(* C01 end to end, chunked: the statement with the mathematical products, the decoded type/shape, a witness. *)
From HV Require Import Base.Prelude Model.Chunk Base.Outcome Base.Bytes Model.RobustTerm Model.ChunkIndex.
From HV Require Import Model.IOProg Proofs.IOProg Model.IOProgReader.
From HV Require Import Model.CodecSuper Model.CodecOhdr Model.CodecMsg Model.CodecType.
From HV Require Import Proofs.CodecMsg Proofs.CodecType.
From HV Require Import Model.FileImage Proofs.FileImage Proofs.FileImageOhdr Proofs.FileImageData Proofs.FileImageProd Proofs.FileImageMain
  Model.FileImageChunked Proofs.ChunkRefine Proofs.FileImageChunked Proofs.FileImageChunkedRead.

Local Open Scope N_scope.

Lemma product_prodN l : product l = prodN l.
Proof. unfold product. rewrite fold_mul_prodN. blia. Qed.

Lemma file_roundtrip_chunked_stmt : forall name class size cbf dims cdims data hfuel,
  link_name_ok name = true -> basic_dtype class size cbf = true -> dims_ok_chunked dims = true -> cdims_ok dims cdims = true ->
  blen data = product dims * size -> blen data < 4294967296 -> product cdims * size <= 1073741824 ->
  total_chunks (num_chunks dims cdims) <= 65535 -> (3 < hfuel)%nat ->
  let f := image_v2_chunked name class size cbf dims cdims data in
  (exists cs, run0 f (api_read_raw SB' hfuel CHDR_ADDR) = Ok (RawChunks cs) /\ assemble_chunks dims cdims size cs = COk data) /\
  (exists h, run0 f (p_ohdr SB' hfuel CHDR_ADDR) = Ok h /\ decoded_type_shape h = Ok (class, size, cbf, dims)) /\
  blen f = c_eof size dims cdims data.
Proof.
  intros name class size cbf dims cdims data hfuel Hname Hdt Hdims Hcd Hlen Hbound Hchunk Hcap Hf f.
  rewrite product_prodN in Hlen, Hchunk. change CHDR_ADDR with 2195.
  split; [|split].
  - exact (dataset_read_chunked name class size cbf dims cdims data Hname Hdt Hdims Hcd Hlen Hbound Hchunk Hcap hfuel Hf).
  - eexists. split; [exact (c_dset_header name class size cbf dims cdims data Hname Hdt Hdims Hcd Hlen Hbound Hchunk Hcap hfuel Hf)|].
    unfold decoded_type_shape, proj_ohdr_v2, c_dset_ohdr. cbn [oh_msgs oh_flags msgs_at_v2 ohp_msgs hm_type hm_data].
    cbn [find_msg fold_left hmp_type hmp_data N.eqb Pos.eqb].
    rewrite (datatype_roundtrip _ (wf_dt _ _ _ Hdt)), (dataspace_roundtrip _ (wf_ds _ (Hdims' dims Hdims))).
    cbn [obind proj_dataspace dsp_dims ds_dims]. unfold proj_datatype, dtype_msg. cbn [dt_class dt_size dt_cbf].
    destruct (dtype_cases _ _ _ Hdt) as [(-> & _)|(-> & _)]; reflexivity.
  - apply image_c_len; [exact Hname|].
    exact (c_dso_bound class size cbf dims cdims data Hdt Hdims Hcd Hlen Hbound Hchunk Hcap).
Qed.

(* the hypotheses are satisfiable: "/d" = uint8 [1,2,3] in chunks of 2 (two chunks, the second one partial) *)
Example file_roundtrip_chunked_witness :
  link_name_ok [100] = true /\ basic_dtype DT_FIXED 1 0 = true /\ dims_ok_chunked [3] = true /\ cdims_ok [3] [2] = true /\
  blen [1; 2; 3] = product [3] * 1 /\ product [2] * 1 <= 1073741824 /\ total_chunks (num_chunks [3] [2]) <= 65535 /\
  blen (image_v2_chunked [100] DT_FIXED 1 0 [3] [2] [1; 2; 3]) = 2549.
Proof. repeat split; try (vm_compute; congruence). Qed.
