(* C11: non-vacuity.  Every well-formedness predicate of the codec theorems is inhabited by a non-trivial
   value, and the theorem's conclusion is re-checked on it by computation. *)
From HV Require Import Base.Prelude Base.Outcome Base.Bytes
  Model.CodecMsg Model.CodecType Model.CodecAttr Model.CodecSuper Model.CodecOhdr Model.CodecLink
  Model.CodecCompound Model.CodecFilter.

Definition ex_dataspace : dataspace :=
  {| ds_dims := [3; 0; 18446744073709551615; 4294967296]; ds_maxdims := [3; 18446744073709551615; 18446744073709551615; 4294967297] |}.
Example ex_dataspace_wf : wf_dataspace ex_dataspace = true. Proof. reflexivity. Qed.
Example ex_dataspace_rt : dec_dataspace (enc_dataspace ex_dataspace) = Ok (proj_dataspace ex_dataspace).
Proof. vm_compute. reflexivity. Qed.
Example ex_dataspace_rank32 : wf_dataspace {| ds_dims := repeat 7 32; ds_maxdims := [] |} = true.
Proof. reflexivity. Qed.

Definition ex_sb : sbparams := {| sb_version := 2; sb_offsize := 4; sb_lensize := 2; sb_bigendian := true |}.
Example ex_layout_wf : wf_layout ex_sb (LChunked [1; 4294967295; 64] 4294967295) = true /\
                       wf_layout ex_sb (LContig 65535 305419896) = true.
Proof. split; reflexivity. Qed.
Example ex_layout_rt : dec_layout ex_sb (enc_layout ex_sb (LChunked [1; 4294967295; 64] 4294967295))
                       = Ok (proj_layout ex_sb (LChunked [1; 4294967295; 64] 4294967295)).
Proof. vm_compute. reflexivity. Qed.

Definition ex_float : datatype :=
  {| dt_class := DT_FLOAT; dt_version := 7; dt_size := 8; dt_cbf := 16777215; dt_props := [1; 2; 3] |}.
Definition ex_opaque : datatype :=
  {| dt_class := DT_OPAQUE; dt_version := 1; dt_size := 4294967295; dt_cbf := 5; dt_props := [116; 97; 103; 0; 1; 2; 3; 4; 5] |}.
Definition ex_compound_dt : datatype :=
  {| dt_class := DT_COMPOUND; dt_version := 3; dt_size := 12; dt_cbf := 0;
     dt_props := skipn 8 (enc_compound compound_ok_example) |}.
Example ex_datatype_wf : wf_datatype ex_float = true /\ wf_datatype ex_opaque = true /\ wf_datatype ex_compound_dt = true.
Proof. repeat split; vm_compute; reflexivity. Qed.
Example ex_datatype_rt : dec_datatype (enc_datatype ex_opaque) = Ok (proj_datatype ex_opaque).
Proof. vm_compute. reflexivity. Qed.
Example ex_vlen_wf : wf_vlen {| dt_class := DT_VLEN; dt_version := 0; dt_size := 16; dt_cbf := 257;
                                dt_props := enc_datatype dt_str8 |} = true.
Proof. reflexivity. Qed.

Definition ex_attr : attribute :=
  {| at_name := [117; 110; 105; 116; 115; 0; 255]; at_dt := ex_float; at_ds := ex_dataspace;
     at_data := [1; 2; 3; 4; 5; 6; 7; 8; 9] |}.
Example ex_attr_wf : wf_attribute ex_attr = true. Proof. vm_compute. reflexivity. Qed.
Example ex_attr_rt : dec_attribute false (enc_attribute ex_attr) = Ok (proj_attribute ex_attr).
Proof. vm_compute. reflexivity. Qed.

Definition ex_super (v : N) : superblock :=
  {| sp_version := v; sp_offsize := 8; sp_lensize := 8; sp_base := 512; sp_root := 18446744073709551614;
     sp_superext := 0; sp_rootbtree := 136; sp_rootheap := 680; sp_eof := 4096 |}.
Example ex_super_wf : wf_superblock (ex_super 0) = true /\ wf_superblock (ex_super 2) = true /\ wf_superblock (ex_super 3) = true.
Proof. repeat split; reflexivity. Qed.
Example ex_super_rt : dec_superblock (enc_superblock (ex_super 3)) = Ok (proj_superblock (ex_super 3)).
Proof. vm_compute. reflexivity. Qed.
(* the checksum the writer stores is CRC-32/IEEE of the first 44 bytes: check value of the standard test vector *)
Example crc32_check : crc32_ieee [49; 50; 51; 52; 53; 54; 55; 56; 57] = 3421780262.
Proof. vm_compute. reflexivity. Qed.

Definition ex_ohdr : ohdr :=
  {| oh_version := 2; oh_flags := 200; oh_refcount := 1;
     oh_msgs := [ {| hm_type := 13; hm_data := [0; 110; 97; 109; 101] |};
                  {| hm_type := 22; hm_data := [5; 0; 0; 0] |};
                  {| hm_type := 1; hm_data := enc_dataspace ex_dataspace |} ] |}.
Example ex_ohdr_wf : wf_ohdr_v2 ex_ohdr = true. Proof. vm_compute. reflexivity. Qed.
Example ex_ohdr_rt : dec_ohdr false (zeros 17 ++ enc_ohdr_v2 ex_ohdr ++ [9]) 17 = Ok (proj_ohdr_v2 false ex_ohdr 17).
Proof. vm_compute. reflexivity. Qed.
Example ex_ohdr_refcount_name :
  ohp_refcount (proj_ohdr_v2 false ex_ohdr 0) = 5 /\ ohp_name (proj_ohdr_v2 false ex_ohdr 0) = [110; 97; 109; 101].
Proof. split; reflexivity. Qed.

Definition ex_link (ty : N) (v : bytes) : linkmsg :=
  {| lk_version := 1; lk_flags := 29 + 224; lk_type := ty; lk_corder := 18446744073709551615; lk_charset := 1;
     lk_name := repeat 120 256; lk_value := v |}.
Example ex_link_wf :
  wf_link 8 (ex_link 0 (le 8 4096)) = true /\
  wf_link 8 (ex_link 1 (le 2 3 ++ [47; 97; 98])) = true /\
  wf_link 8 (ex_link 64 (le 2 2 ++ [102; 46] ++ le 2 1 ++ [47])) = true.
Proof. repeat split; vm_compute; reflexivity. Qed.
Example ex_link_rt : dec_link 8 (enc_link (ex_link 64 (le 2 2 ++ [102; 46] ++ le 2 1 ++ [47])))
                     = Ok (proj_link (ex_link 64 (le 2 2 ++ [102; 46] ++ le 2 1 ++ [47]))).
Proof. vm_compute. reflexivity. Qed.

Example ex_linkinfo_wf :
  wf_linkinfo ex_sb {| li_version := 0; li_flags := 3; li_maxcorder := 9223372036854775807; li_heap := 4294967295;
                       li_btname := 1; li_btorder := 2 |} = true.
Proof. reflexivity. Qed.
Example ex_attrinfo_wf :
  wf_attrinfo {| sb_version := 0; sb_offsize := 2; sb_lensize := 8; sb_bigendian := false |}
              {| ai_version := 9; ai_flags := 255; ai_heap := 65535; ai_btname := 0; ai_maxcidx := 65535; ai_btorder := 7 |} = true.
Proof. reflexivity. Qed.
Example ex_symtab_wf : wf_symtab {| st_btree := 18446744073709551615; st_heap := 96 |} = true.
Proof. reflexivity. Qed.

Example ex_array_wf : wf_array {| ar_base := enc_datatype dt_int32; ar_dims := [2; 4294967295; 3]; ar_size := 24 |} = true.
Proof. reflexivity. Qed.
Example ex_enum_wf : wf_enum {| en_base := enc_datatype dt_int32; en_names := [[82; 69; 68]; [71; 82; 69; 69; 78; 95; 95; 95]; []];
                                en_values := le 4 0 ++ le 4 1 ++ le 4 4294967295; en_size := 4 |} = true.
Proof. reflexivity. Qed.

Definition ex_pipeline : list wfilter :=
  [ {| wf_id := 2; wf_name := [115; 104; 117; 102; 102; 108; 101]; wf_flags := 0; wf_cd := [8] |};
    {| wf_id := 1; wf_name := [100; 101; 102; 108; 97; 116; 101; 33; 33]; wf_flags := 1; wf_cd := [6; 4294967295] |};
    {| wf_id := 32000; wf_name := []; wf_flags := 65535; wf_cd := [] |} ].
Example ex_pipeline_wf : wf_pipeline ex_pipeline = true. Proof. reflexivity. Qed.
Example ex_pipeline_rt : dec_pipeline (enc_pipeline ex_pipeline) = Ok (proj_pipeline ex_pipeline).
Proof. vm_compute. reflexivity. Qed.

(* the compound example with a nested, self-delimiting member list *)
Example ex_compound_rt :
  omap cpp_members (dec_compound (enc_compound compound_ok_example)) = Ok (cp_fields compound_ok_example).
Proof. vm_compute. reflexivity. Qed.
