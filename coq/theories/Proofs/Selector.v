(* C19 part B: lemmas about Model/Selector.v (the gates of ConfigSelector.SelectConfig). *)
From Coq Require Import Floats.SpecFloat.
From HV Require Import Base.Prelude Model.Selector.

Open Scope Z_scope.

(* ------------------------------------------------------------------ small facts *)
Lemma sat_sub_antitone : forall now a b, a <= b -> sat_sub now b <= sat_sub now a.
Proof.
  intros now a b H. unfold sat_sub, min_i64, max_i64.
  destruct (now - b <? -9223372036854775808) eqn:E1;
  destruct (9223372036854775807 <? now - b) eqn:E2;
  destruct (now - a <? -9223372036854775808) eqn:E3;
  destruct (9223372036854775807 <? now - a) eqn:E4; lia.
Qed.

Lemma is_allowed_in : forall c m, allowed c <> [] -> is_allowed c m = true -> In m (allowed c).
Proof.
  intros c m Hne H. unfold is_allowed in H. destruct (allowed c) as [|a l] eqn:E; [congruence|].
  apply existsb_exists in H. destruct H as [x [Hin Heq]]. apply String.eqb_eq in Heq. subst x. exact Hin.
Qed.

Lemma in_is_allowed : forall c m, In m (allowed c) -> is_allowed c m = true.
Proof.
  intros c m H. unfold is_allowed. destruct (allowed c) as [|a l] eqn:E; [reflexivity|].
  apply existsb_exists. exists m. split; [exact H | apply String.eqb_refl].
Qed.

(* ------------------------------------------------------------------ the built-in strategy *)
Lemma calc_confidence_in_unit : forall f, f64_in_unit (calc_confidence f) = true.
Proof.
  intros f. unfold calc_confidence.
  destruct (0 <? f_samples f); cbn [negb]; [|vm_compute; reflexivity].
  destruct (f_burst f);
  destruct (f64_gt (f_delete f) c_0_6 || f64_lt (f_delete f) c_0_05);
  destruct (1000 <=? f_samples f); destruct (100 <=? f_samples f);
  destruct (50 <=? f_samples f); destruct (10 <=? f_samples f);
  vm_compute; reflexivity.
Qed.

Lemma rule_select_conf : forall f w, s_conf (rule_select f w) = calc_confidence f.
Proof.
  intros f w. unfold rule_select.
  destruct (w =? WorkloadBatchDeletion); [reflexivity|].
  destruct (w =? WorkloadAppendOnly); [reflexivity|].
  destruct (w =? WorkloadFrequentWrites); [destruct (mediumFileThreshold <? f_file_size f)%N; reflexivity|].
  destruct (w =? WorkloadReadHeavy); [reflexivity|].
  destruct (w =? WorkloadMixedRW); [destruct (mediumFileThreshold <? f_file_size f)%N; reflexivity|].
  reflexivity.
Qed.

Lemma rule_select_in_unit : forall f w, f64_in_unit (s_conf (rule_select f w)) = true.
Proof. intros. rewrite rule_select_conf. apply calc_confidence_in_unit. Qed.

(* the built-in strategy only proposes the three named modes *)
Lemma rule_select_modes : forall f w,
  s_mode (rule_select f w) = ModeNone \/ s_mode (rule_select f w) = ModeLazy \/ s_mode (rule_select f w) = ModeIncremental.
Proof.
  intros f w. unfold rule_select.
  destruct (w =? WorkloadBatchDeletion); [auto|].
  destruct (w =? WorkloadAppendOnly); [auto|].
  destruct (w =? WorkloadFrequentWrites); [destruct (mediumFileThreshold <? f_file_size f)%N; auto|].
  destruct (w =? WorkloadReadHeavy); [auto|].
  destruct (w =? WorkloadMixedRW); [destruct (mediumFileThreshold <? f_file_size f)%N; auto|].
  auto.
Qed.

(* NaN is outside [0,1] for Go's comparisons and is not below any threshold *)
Lemma nan_not_in_unit : forall x, f64_is_nan x = true -> f64_in_unit x = false.
Proof.
  intros x H. unfold f64_in_unit, f64_le, f64_is_nan in *.
  destruct (sf_of_bits x); try discriminate. reflexivity.
Qed.
Lemma nan_not_lt : forall x y, f64_is_nan x = true -> f64_lt x y = false.
Proof.
  intros x y H. unfold f64_lt, f64_is_nan in *. destruct (sf_of_bits x); try discriminate. reflexivity.
Qed.
Lemma lt_nan_false : forall x y, f64_is_nan y = true -> f64_lt x y = false.
Proof.
  intros x y H. unfold f64_lt, f64_is_nan in *. destruct (sf_of_bits y); try discriminate.
  unfold SFltb, SFcompare. destruct (sf_of_bits x); reflexivity.
Qed.
Lemma in_unit_not_nan : forall x, f64_in_unit x = true -> f64_is_nan x = false.
Proof.
  intros x H. destruct (f64_is_nan x) eqn:E; [|reflexivity].
  rewrite (nan_not_in_unit _ E) in H. discriminate.
Qed.

(* ------------------------------------------------------------------ one call *)
Section Gates.
  Variable patched : bool.
  Variable strategy : features -> Z -> sdec.
  Variable c : constraints.

  (* what the selector remembers, related to what the history shows *)
  Definition inv (st : cstate) (g : ghost) : Prop :=
    match g_rec_time g with
    | None => st = cstate0 /\ g_pass_mode g = None /\ g_change_time g = None
    | Some T => last_time st = T /\ has_last st = true /\ g_pass_mode g = Some (last_mode st)
                /\ is_allowed c (last_mode st) = true /\ exists C, g_change_time g = Some C
    end.

  Definition row_of (st : cstate) (o : obs) : row :=
    let '(f, w, now) := o in mkRow now (strategy f w) (snd (select_config patched strategy st c f w now)).
  Definition next_state (st : cstate) (o : obs) : cstate :=
    let '(f, w, now) := o in fst (select_config patched strategy st c f w now).

  Lemma run_cons : forall st o l, run patched strategy st c (o :: l) = row_of st o :: run patched strategy (next_state st o) c l.
  Proof. intros st [[f w] now] l. reflexivity. Qed.
  Lemma run_state_cons : forall st o l, run_state patched strategy st c (o :: l) = run_state patched strategy (next_state st o) c l.
  Proof. intros st [[f w] now] l. reflexivity. Qed.

  (* the four branches of SelectConfig, as seen from outside *)
  Inductive branch (st : cstate) (o : obs) : Prop :=
  | B_lowconf : passes c (row_of st o) = false -> next_state st o = st ->
      d_mode (r_dec (row_of st o)) = ModeNone ->
      f64_lt (s_conf (r_raw (row_of st o))) (min_conf c) = true -> branch st o
  | B_notallowed : passes c (row_of st o) = false -> next_state st o = st ->
      d_mode (r_dec (row_of st o)) = ModeNone ->
      f64_lt (s_conf (r_raw (row_of st o))) (min_conf c) = false -> branch st o
  | B_held : passes c (row_of st o) = true -> recorded c (row_of st o) = false -> next_state st o = st ->
      d_mode (r_dec (row_of st o)) = last_mode st ->
      armed patched st = true ->
      sat_sub (r_now (row_of st o)) (last_time st) <? min_stab c = true -> branch st o
  | B_recorded : passes c (row_of st o) = true -> recorded c (row_of st o) = true ->
      next_state st o = mkCstate (r_now (row_of st o)) (d_mode (r_dec (row_of st o))) true ->
      d_mode (r_dec (row_of st o)) = s_mode (r_raw (row_of st o)) ->
      is_allowed c (d_mode (r_dec (row_of st o))) = true ->
      (armed patched st = true ->
       sat_sub (r_now (row_of st o)) (last_time st) <? min_stab c = true ->
       d_mode (r_dec (row_of st o)) = last_mode st) -> branch st o.

  Lemma select_branch : forall st o, branch st o.
  Proof.
    intros st [[f w] now].
    destruct (f64_lt (s_conf (strategy f w)) (min_conf c)) eqn:E1.
    { apply B_lowconf; unfold row_of, next_state, select_config, passes; cbn [r_raw r_dec r_now];
        rewrite ?E1; reflexivity. }
    destruct (is_allowed c (s_mode (strategy f w))) eqn:E2.
    2:{ apply B_notallowed; unfold row_of, next_state, select_config, passes; cbn [r_raw r_dec r_now];
        rewrite ?E1, ?E2; reflexivity. }
    destruct (armed patched st && (sat_sub now (last_time st) <? min_stab c)
              && negb (String.eqb (s_mode (strategy f w)) (last_mode st))) eqn:E3.
    - apply andb_prop in E3 as [E3 E5]. apply andb_prop in E3 as [E3 E4].
      apply negb_true_iff in E5.
      apply B_held; unfold row_of, next_state, select_config, passes, recorded, passes;
        cbn [r_raw r_dec r_now]; rewrite ?E1, ?E2, ?E3, ?E4, ?E5; cbn [negb andb fst snd d_mode]; try reflexivity.
      rewrite String.eqb_sym. rewrite E5. reflexivity.
    - apply B_recorded; unfold row_of, next_state, select_config, passes, recorded, passes;
        cbn [r_raw r_dec r_now]; rewrite ?E1, ?E2, ?E3; cbn [negb andb fst snd d_mode]; try reflexivity.
      + rewrite String.eqb_refl. reflexivity.
      + exact E2.
      + intros Hz Hs. rewrite Hz, Hs in E3. cbn [negb andb] in E3.
        apply negb_false_iff in E3. apply String.eqb_eq in E3. exact E3.
  Qed.

  Lemma row_conf : forall st o, d_conf (r_dec (row_of st o)) = s_conf (r_raw (row_of st o)).
  Proof.
    intros st [[f w] now]. unfold row_of, select_config. cbn [r_raw r_dec].
    destruct (f64_lt _ _); [reflexivity|].
    destruct (negb (is_allowed _ _)); [reflexivity|].
    destruct (_ && _ && _); reflexivity.
  Qed.

  Lemma row_raw : forall st f w now, r_raw (row_of st (f, w, now)) = strategy f w.
  Proof. reflexivity. Qed.
  Lemma row_now : forall st f w now, r_now (row_of st (f, w, now)) = now.
  Proof. reflexivity. Qed.

  Lemma armed0 : armed patched cstate0 = false.
  Proof. unfold armed. destruct patched; reflexivity. Qed.
  Lemma armed_recorded : forall st, has_last st = true ->
    armed patched st = patched || negb (is_zero_time (last_time st)).
  Proof. intros st H. unfold armed. rewrite H. destruct patched; reflexivity. Qed.

  (* ---- per-call properties under the invariant *)
  Lemma held_has_memory : forall st g, inv st g -> armed patched st = true ->
    exists T, g_rec_time g = Some T /\ last_time st = T /\ has_last st = true
              /\ g_pass_mode g = Some (last_mode st) /\ is_allowed c (last_mode st) = true
              /\ exists C, g_change_time g = Some C.
  Proof.
    intros st g H Ha. unfold inv in H. destruct (g_rec_time g) as [T|].
    - exists T. tauto.
    - destruct H as [-> _]. rewrite armed0 in Ha. discriminate.
  Qed.

  Lemma step_inv : forall st g o, inv st g -> inv (next_state st o) (ghost_step c g (row_of st o)).
  Proof.
    intros st g o H. destruct (select_branch st o) as [Hp Hs _ _|Hp Hs _ _|Hp Hr Hs Hm Hz Hlt|Hp Hr Hs Hm Ha _];
      unfold ghost_step; rewrite Hp, Hs.
    - exact H.
    - exact H.
    - (* held *) rewrite Hr.
      destruct (held_has_memory st g H Hz) as [T [ET [H1 [H2 [H3 [H4 [C H5]]]]]]].
      unfold inv. cbn [g_rec_time g_pass_mode g_change_time]. rewrite ET.
      rewrite Hm. repeat split; try assumption.
      unfold mode_changed. rewrite H3. rewrite String.eqb_refl. cbn [negb]. exists C. exact H5.
    - (* recorded *) rewrite Hr. unfold inv. cbn [g_rec_time g_pass_mode g_change_time last_time last_mode has_last].
      repeat split; try assumption.
      unfold mode_changed. destruct (g_pass_mode g) as [m'|] eqn:EP; [|eexists; reflexivity].
      destruct (negb (String.eqb m' _)); [eexists; reflexivity|].
      unfold inv in H. destruct (g_rec_time g) as [T|]; [destruct H as [_ [_ [_ [_ HC]]]]; exact HC|].
      destruct H as [_ [H2 _]]. congruence.
  Qed.

  Lemma step_allowed : forall st g o, inv st g -> allowed_ok c (row_of st o) = true.
  Proof.
    intros st g o H. unfold allowed_ok.
    destruct (select_branch st o) as [_ _ Hm _|_ _ Hm _|_ _ _ Hm Hz _|_ _ _ _ Ha _].
    - rewrite Hm. reflexivity.
    - rewrite Hm. reflexivity.
    - rewrite Hm. destruct (held_has_memory st g H Hz) as [T [_ [_ [_ [_ [H4 _]]]]]].
      rewrite H4. apply orb_true_r.
    - rewrite Ha. apply orb_true_r.
  Qed.

  Lemma step_min_conf : forall st o, min_conf_ok c (row_of st o) = true.
  Proof.
    intros st o. unfold min_conf_ok. rewrite row_conf.
    destruct (select_branch st o) as [_ _ Hm _|_ _ Hm _|Hp _ _ _ _ _|Hp _ _ _ _ _].
    - rewrite Hm. apply orb_true_r.
    - rewrite Hm. apply orb_true_r.
    - unfold passes in Hp. apply andb_prop in Hp as [Hp _]. rewrite Hp. reflexivity.
    - unfold passes in Hp. apply andb_prop in Hp as [Hp _]. rewrite Hp. reflexivity.
  Qed.

  (* the repaired code satisfies the strict statement, the code as found the one with the exception *)
  Lemma step_stability : forall st g o, inv st g -> stability_ok_step patched c g (row_of st o) = true.
  Proof.
    intros st g o H. unfold stability_ok_step.
    destruct (select_branch st o) as [Hp _ _ _|Hp _ _ _|Hp _ _ Hm Hz _|Hp _ _ _ _ Hk]; rewrite Hp; try reflexivity.
    - destruct (held_has_memory st g H Hz) as [T [ET [_ [_ [H3 _]]]]].
      rewrite ET, H3, Hm. rewrite String.eqb_refl. destruct (_ && _); reflexivity.
    - unfold inv in H. destruct (g_rec_time g) as [T|]; [|reflexivity].
      destruct H as [H1 [H2 [H3 _]]]. rewrite H3. subst T.
      destruct ((patched || negb (is_zero_time (last_time st)))
                && (sat_sub (r_now (row_of st o)) (last_time st) <? min_stab c)) eqn:E; [|reflexivity].
      apply andb_prop in E as [E1 E2]. rewrite <- (armed_recorded st H2) in E1.
      rewrite (Hk E1 E2). apply String.eqb_refl.
  Qed.

  (* ---- monotone clocks: dwell time *)
  Definition mono_inv (prev : Z) (g : ghost) : Prop :=
    forall T, g_rec_time g = Some T ->
      T <= prev /\ patched || negb (is_zero_time T) = true /\ forall C, g_change_time g = Some C -> C <= T.

  Lemma step_dwell : forall st g o prev, inv st g -> mono_inv prev g ->
    prev <= r_now (row_of st o) -> patched || negb (is_zero_time (r_now (row_of st o))) = true ->
    dwell_ok_step c g (row_of st o) = true /\ mono_inv (r_now (row_of st o)) (ghost_step c g (row_of st o)).
  Proof.
    intros st g o prev H M Hle Hnz. unfold dwell_ok_step, ghost_step.
    destruct (select_branch st o) as [Hp _ _ _|Hp _ _ _|Hp Hr _ Hm Hz _|Hp Hr _ Hm _ Hk]; rewrite Hp.
    - split; [reflexivity|]. intros T ET. destruct (M T ET) as [M1 [M2 M3]]. repeat split; [lia|assumption|assumption].
    - split; [reflexivity|]. intros T ET. destruct (M T ET) as [M1 [M2 M3]]. repeat split; [lia|assumption|assumption].
    - (* held: the mode does not change *)
      destruct (held_has_memory st g H Hz) as [T0 [ET0 [_ [_ [HP _]]]]].
      assert (HC : mode_changed g (d_mode (r_dec (row_of st o))) = false).
      { unfold mode_changed. rewrite HP, Hm, String.eqb_refl. reflexivity. }
      rewrite HC, Hr. split; [destruct (g_change_time g); reflexivity|].
      intros T ET. cbn [g_rec_time g_change_time] in *. destruct (M T ET) as [M1 [M2 M3]].
      repeat split; [lia|assumption|assumption].
    - (* recorded *)
      rewrite Hr. split.
      + destruct (g_change_time g) as [C|] eqn:EC; [|reflexivity].
        destruct (mode_changed g (d_mode (r_dec (row_of st o)))) eqn:HC; [|reflexivity].
        unfold inv in H. destruct (g_rec_time g) as [T|] eqn:ET.
        2:{ destruct H as [_ [_ H3]]. congruence. }
        destruct H as [H1 [H2 [H3 _]]]. destruct (M T ET) as [M1 [M2 M3]]. subst T.
        unfold mode_changed in HC. rewrite H3 in HC. apply negb_true_iff in HC.
        rewrite <- (armed_recorded st H2) in M2.
        destruct (sat_sub (r_now (row_of st o)) (last_time st) <? min_stab c) eqn:ES.
        * rewrite (Hk M2 eq_refl) in HC. rewrite String.eqb_refl in HC. discriminate.
        * pose proof (sat_sub_antitone (r_now (row_of st o)) C (last_time st) (M3 C EC)). lia.
      + intros T ET. cbn [g_rec_time g_change_time] in *. injection ET as <-.
        repeat split; [lia|assumption|].
        intros C EC. destruct (mode_changed g _); [injection EC as <-; lia|].
        unfold inv in H. destruct (g_rec_time g) as [T|] eqn:ET.
        * destruct (M T ET) as [M1 [M2 M3]]. specialize (M3 C EC). lia.
        * destruct H as [_ [_ H3]]. congruence.
  Qed.

  (* ------------------------------------------------------------------ whole histories *)
  Lemma run_forall : forall l st g, inv st g ->
    Forall (fun r => allowed_ok c r = true /\ min_conf_ok c r = true /\ d_conf (r_dec r) = s_conf (r_raw r)
                     /\ exists f w, r_raw r = strategy f w)
           (run patched strategy st c l).
  Proof.
    induction l as [|o l IH]; intros st g H; [constructor|].
    rewrite run_cons. constructor.
    - repeat split; [eapply step_allowed; eassumption | apply step_min_conf | apply row_conf|].
      destruct o as [[f w] now]. exists f, w. reflexivity.
    - eapply IH. apply step_inv. eassumption.
  Qed.

  Lemma run_stability : forall l st g, inv st g ->
    trace_ok_from (stability_ok_step patched) c g (run patched strategy st c l) = true.
  Proof.
    induction l as [|o l IH]; intros st g H; [reflexivity|].
    rewrite run_cons. cbn [trace_ok_from]. rewrite (step_stability st g o H). cbn [andb].
    apply IH. apply step_inv. exact H.
  Qed.

  Lemma clock_mono_cons : forall prev f w now l,
    clock_mono patched prev ((f, w, now) :: l) = true ->
    prev <= now /\ patched || negb (is_zero_time now) = true /\ clock_mono patched now l = true.
  Proof.
    intros prev f w now l H. cbn [clock_mono] in H.
    apply andb_prop in H as [H H3]. apply andb_prop in H as [H1 H2].
    repeat split; [lia|assumption|assumption].
  Qed.

  Lemma run_dwell : forall l st g prev, inv st g -> mono_inv prev g -> clock_mono patched prev l = true ->
    trace_ok_from dwell_ok_step c g (run patched strategy st c l) = true.
  Proof.
    induction l as [|o l IH]; intros st g prev H M Hc; [reflexivity|].
    rewrite run_cons. cbn [trace_ok_from]. destruct o as [[f w] now].
    apply clock_mono_cons in Hc as [H1 [H2 H3]].
    destruct (step_dwell st g (f, w, now) prev H M) as [D1 D2]; [rewrite row_now; exact H1 | rewrite row_now; exact H2|].
    rewrite D1. cbn [andb]. rewrite row_now in D2.
    eapply IH; [apply step_inv; exact H | exact D2 | exact H3].
  Qed.

  Lemma inv0 : inv cstate0 ghost0.
  Proof. unfold inv. cbn. repeat split. Qed.
  Lemma mono_inv0 : forall prev, mono_inv prev ghost0.
  Proof. intros prev T E. discriminate E. Qed.

  (* the remembered state after any history is what the history shows *)
  Lemma fold_ghost_inv : forall l st g, inv st g ->
    inv (run_state patched strategy st c l) (fold_left (ghost_step c) (run patched strategy st c l) g).
  Proof.
    induction l as [|o l IH]; intros st g H; [exact H|].
    rewrite run_cons, run_state_cons. cbn [fold_left]. apply IH. apply step_inv. exact H.
  Qed.

  Lemma run_app1 : forall l st o,
    run patched strategy st c (l ++ [o])
    = run patched strategy st c l ++ [row_of (run_state patched strategy st c l) o].
  Proof.
    induction l as [|a l IH]; intros st o.
    - cbn [app]. rewrite run_cons. reflexivity.
    - cbn [app]. rewrite !run_cons, run_state_cons, IH. reflexivity.
  Qed.
End Gates.

(* ------------------------------------------------------------------ statements used by Props/C19.v
   [p] : false = the code as found, true = the code after notes/fixes/selector-zero-time-stability.patch *)
Theorem allowed_holds : forall p strategy c l r, In r (run p strategy cstate0 c l) ->
  d_mode (r_dec r) = ModeNone \/ is_allowed c (d_mode (r_dec r)) = true.
Proof.
  intros p strategy c l r Hin.
  pose proof (run_forall p strategy c l cstate0 ghost0 (inv0 c)) as F.
  rewrite Forall_forall in F. destruct (F r Hin) as [Ha _]. unfold allowed_ok in Ha.
  apply orb_prop in Ha as [Ha|Ha]; [left; apply String.eqb_eq; exact Ha | right; exact Ha].
Qed.

Theorem allowed_list_holds : forall p strategy c l r, In r (run p strategy cstate0 c l) ->
  allowed c <> [] -> d_mode (r_dec r) = ModeNone \/ In (d_mode (r_dec r)) (allowed c).
Proof.
  intros p strategy c l r Hin Hne. destruct (allowed_holds p strategy c l r Hin) as [H|H]; [left; exact H|].
  right. apply is_allowed_in; assumption.
Qed.

Theorem min_confidence_holds : forall p strategy c l r, In r (run p strategy cstate0 c l) ->
  f64_lt (d_conf (r_dec r)) (min_conf c) = true -> d_mode (r_dec r) = ModeNone.
Proof.
  intros p strategy c l r Hin Hlt.
  pose proof (run_forall p strategy c l cstate0 ghost0 (inv0 c)) as F.
  rewrite Forall_forall in F. destruct (F r Hin) as [_ [Hm _]]. unfold min_conf_ok in Hm.
  rewrite Hlt in Hm. cbn [negb orb] in Hm. apply String.eqb_eq. exact Hm.
Qed.

Theorem confidence_passthrough : forall p strategy c l r, In r (run p strategy cstate0 c l) ->
  d_conf (r_dec r) = s_conf (r_raw r) /\ exists f w, r_raw r = strategy f w.
Proof.
  intros p strategy c l r Hin.
  pose proof (run_forall p strategy c l cstate0 ghost0 (inv0 c)) as F.
  rewrite Forall_forall in F. destruct (F r Hin) as [_ [_ [H1 H2]]]. split; assumption.
Qed.

Theorem confidence_range_any : forall p strategy c l r,
  (forall f w, f64_in_unit (s_conf (strategy f w)) = true) ->
  In r (run p strategy cstate0 c l) -> f64_in_unit (d_conf (r_dec r)) = true.
Proof.
  intros p strategy c l r Hs Hin. destruct (confidence_passthrough p strategy c l r Hin) as [H1 [f [w H2]]].
  rewrite H1, H2. apply Hs.
Qed.

Theorem confidence_range_builtin : forall p c l r,
  In r (run p rule_select cstate0 c l) -> f64_in_unit (d_conf (r_dec r)) = true.
Proof. intros p c l r. apply confidence_range_any. apply rule_select_in_unit. Qed.

(* a NaN confidence: never below the minimum (gate 1 does not fire), reported as it is, outside [0,1] *)
Theorem nan_confidence_passes : forall p strategy c st f w now,
  f64_is_nan (s_conf (strategy f w)) = true ->
  let d := snd (select_config p strategy st c f w now) in
  d_kind d <> 1%N /\ d_conf d = s_conf (strategy f w) /\ f64_in_unit (d_conf d) = false
  /\ (is_allowed c (s_mode (strategy f w)) = true -> armed p st = false ->
      d_mode d = s_mode (strategy f w)).
Proof.
  intros p strategy c st f w now Hn. cbn zeta. unfold select_config.
  rewrite (nan_not_lt _ (min_conf c) Hn).
  destruct (is_allowed c (s_mode (strategy f w))) eqn:Ea; cbn [negb].
  - destruct (armed p st) eqn:Ez; cbn [negb andb snd d_kind d_conf d_mode].
    + destruct (_ && _); cbn [snd d_kind d_conf d_mode];
        repeat split; try discriminate; try (apply nan_not_in_unit; exact Hn); intros; discriminate.
    + repeat split; try discriminate; try (apply nan_not_in_unit; exact Hn).
  - cbn [snd d_kind d_conf d_mode]. repeat split; try discriminate; try (apply nan_not_in_unit; exact Hn).
Qed.

(* a NaN MinConfidence switches gate 1 off for every strategy *)
Theorem nan_min_confidence_never_gates : forall p strategy c st f w now,
  f64_is_nan (min_conf c) = true -> d_kind (snd (select_config p strategy st c f w now)) <> 1%N.
Proof.
  intros p strategy c st f w now Hn. unfold select_config. rewrite (lt_nan_false _ _ Hn).
  destruct (negb _); [discriminate|]. destruct (_ && _ && _); discriminate.
Qed.

Theorem stability_holds : forall p strategy c l, stability_ok p c (run p strategy cstate0 c l) = true.
Proof. intros. apply (run_stability p strategy c l cstate0 ghost0). apply inv0. Qed.

Theorem dwell_holds : forall p strategy c l prev, clock_mono p prev l = true ->
  dwell_ok c (run p strategy cstate0 c l) = true.
Proof.
  intros p strategy c l prev H.
  apply (run_dwell p strategy c l cstate0 ghost0 prev); [apply inv0 | apply mono_inv0 | exact H].
Qed.

(* the readable one-more-call form: after ANY history l, one more call at clock reading [now] *)
Theorem stability_next : forall p strategy c l f w now T m,
  let t := run p strategy cstate0 c l in
  let r := row_of p strategy c (run_state p strategy cstate0 c l) (f, w, now) in
  run p strategy cstate0 c (l ++ [(f, w, now)]) = t ++ [r] /\
  (passes c r = true ->
   g_rec_time (ghost_of c t) = Some T -> g_pass_mode (ghost_of c t) = Some m ->
   p = true \/ T <> zero_instant -> sat_sub now T < min_stab c ->
   d_mode (r_dec r) = m).
Proof.
  intros p strategy c l f w now T m t r. split; [apply run_app1|].
  intros Hp HT Hm Hz Hs.
  pose proof (fold_ghost_inv p strategy c l cstate0 ghost0 (inv0 c)) as I.
  pose proof (step_stability p strategy c _ _ (f, w, now) I) as S.
  unfold stability_ok_step in S. fold r in S. rewrite Hp in S.
  fold t in S. fold (ghost_of c t) in S. rewrite HT, Hm in S.
  assert (E1 : p || negb (is_zero_time T) = true).
  { destruct Hz as [->|Hz]; [reflexivity|]. apply orb_true_iff. right. apply negb_true_iff.
    unfold is_zero_time. apply Z.eqb_neq. exact Hz. }
  assert (E2 : sat_sub (r_now r) T <? min_stab c = true) by (apply Z.ltb_lt; exact Hs).
  rewrite E1, E2 in S. cbn [negb andb] in S. apply String.eqb_eq. exact S.
Qed.

(* what the selector remembers: lastMode is the mode returned by the latest gate-passing decision,
   it is an allowed mode, and lastDecisionTime is the clock reading of the latest recorded decision *)
Theorem memory_invariant : forall p strategy c l,
  let st := run_state p strategy cstate0 c l in
  let g := ghost_of c (run p strategy cstate0 c l) in
  (g_rec_time g = None /\ g_pass_mode g = None /\ st = cstate0) \/
  (g_rec_time g = Some (last_time st) /\ g_pass_mode g = Some (last_mode st)
   /\ has_last st = true /\ is_allowed c (last_mode st) = true).
Proof.
  intros p strategy c l st g.
  pose proof (fold_ghost_inv p strategy c l cstate0 ghost0 (inv0 c)) as I.
  fold st in I. fold (ghost_of c (run p strategy cstate0 c l)) in I. fold g in I.
  unfold inv in I. destruct (g_rec_time g) as [T|].
  - right. destruct I as [H1 [H2 [H3 [H4 _]]]]. subst T. auto.
  - left. destruct I as [H1 [H2 _]]. auto.
Qed.

(* ------------------------------------------------------------------ total order on non-NaN values *)
Lemma SFcompare_antisym : forall a b, SFcompare a b = option_map CompOpp (SFcompare b a).
Proof.
  intros a b. destruct a as [sa|sa| |sa ma ea]; destruct b as [sb|sb| |sb mb eb]; cbn [SFcompare option_map];
    try reflexivity; try (destruct sa; reflexivity); try (destruct sb; reflexivity);
    try (destruct sa, sb; reflexivity).
  f_equal. destruct sa, sb; try reflexivity.
  - rewrite (Z.compare_antisym ea eb). destruct (ea ?= eb) eqn:E; cbn [CompOpp]; try reflexivity.
    change (Pcompare mb ma Eq) with (Pos.compare mb ma). change (Pcompare ma mb Eq) with (Pos.compare ma mb).
    rewrite (Pos.compare_antisym ma mb). destruct (ma ?= mb)%positive; reflexivity.
  - rewrite (Z.compare_antisym ea eb). destruct (ea ?= eb) eqn:E; cbn [CompOpp]; try reflexivity.
    change (Pcompare mb ma Eq) with (Pos.compare mb ma). change (Pcompare ma mb Eq) with (Pos.compare ma mb).
    rewrite (Pos.compare_antisym ma mb). destruct (ma ?= mb)%positive; reflexivity.
Qed.

Lemma not_le_lt : forall a b, f64_is_nan a = false -> f64_is_nan b = false ->
  f64_le a b = false -> f64_lt b a = true.
Proof.
  intros a b Ha Hb H. unfold f64_le, f64_lt, f64_is_nan, SFleb, SFltb in *.
  rewrite (SFcompare_antisym (sf_of_bits b) (sf_of_bits a)).
  destruct (sf_of_bits a) as [sa|sa| |sa ma ea] eqn:EA; try discriminate;
  destruct (sf_of_bits b) as [sb|sb| |sb mb eb] eqn:EB; try discriminate;
  destruct (SFcompare _ _) as [[| |]|] eqn:E; cbn [option_map CompOpp] in *; try discriminate; try reflexivity;
  cbn [SFcompare] in E; try discriminate; destruct sa; discriminate.
Qed.

(* with the built-in strategy and a MinConfidence that is a number: not (confidence >= min) gives none *)
Theorem min_confidence_builtin_total : forall p c l r, f64_is_nan (min_conf c) = false ->
  In r (run p rule_select cstate0 c l) ->
  f64_le (min_conf c) (d_conf (r_dec r)) = false -> d_mode (r_dec r) = ModeNone.
Proof.
  intros p c l r Hn Hin Hle. apply (min_confidence_holds p rule_select c l r Hin).
  apply not_le_lt; [exact Hn | | exact Hle].
  apply in_unit_not_nan. apply (confidence_range_builtin p c l r Hin).
Qed.

(* ------------------------------------------------------------------ refutations and non-vacuity *)
Definition feat (del : f64) (burst : bool) (size : N) (samples : Z) : features :=
  mkFeatures del c_0 c_0 burst size samples.
Definition c_default : constraints := mkConstraints c_0_7 30000000000 [].   (* DefaultSafetyConstraints *)
Definition sec (s : Z) : Z := s * 1000000000.

(* lazy at t=1000 s; at 1020 s the strategy proposes incremental, lazy is kept (stability); at 1031 s
   incremental is returned: 11 s after the previous gate-passing decision, 31 s after the recorded one.
   Same for the code as found and the repaired code. *)
Definition w_pairwise : list obs :=
  [ (feat c_0_9 true 0 1000, WorkloadBatchDeletion, sec 1000);
    (feat c_0 false 600000000 1000, WorkloadFrequentWrites, sec 1020);
    (feat c_0 false 600000000 1000, WorkloadFrequentWrites, sec 1031) ].

Lemma pairwise_refuted : forall p, exists c l,
  clock_mono p 0 l = true /\ pairwise_ok c None (run p rule_select cstate0 c l) = false.
Proof. intros p. exists c_default, w_pairwise. destruct p; split; vm_compute; reflexivity. Qed.

Example w_pairwise_modes : forall p,
  map (fun r => (d_mode (r_dec r), d_kind (r_dec r))) (run p rule_select cstate0 c_default w_pairwise)
  = [(ModeLazy, 0%N); (ModeLazy, 3%N); (ModeIncremental, 0%N)].
Proof. intros p; destruct p; vm_compute; reflexivity. Qed.

(* THE CODE AS FOUND: a decision recorded while the clock reads 0001-01-01T00:00:00Z is forgotten by
   the stability gate (time.Time{} doubles as "no decision yet"): the strict statement fails *)
Definition w_zero : list obs :=
  [ (feat c_0_9 true 0 1000, WorkloadBatchDeletion, zero_instant);
    (feat c_0 false 600000000 1000, WorkloadFrequentWrites, zero_instant + sec 1) ].

Lemma zero_instant_refuted : exists c l,
  clock_mono true zero_instant l = true /\ stability_ok true c (run false rule_select cstate0 c l) = false.
Proof. exists c_default, w_zero. split; vm_compute; reflexivity. Qed.

Example w_zero_modes :
  map (fun p => map (fun r => (d_mode (r_dec r), d_kind (r_dec r))) (run p rule_select cstate0 c_default w_zero))
      [false; true]
  = [ [(ModeLazy, 0%N); (ModeIncremental, 0%N)];     (* as found: flips after 1 s *)
      [(ModeLazy, 0%N); (ModeLazy, 3%N)] ].          (* repaired: lazy is kept *)
Proof. vm_compute. reflexivity. Qed.

(* a custom strategy answering NaN: rebalancing is switched on although "confidence >= 0.7" is false *)
Definition nan_bits : f64 := 9221120237041090561%N.    (* 0x7FF8000000000001, Go's math.NaN() *)
Lemma nan_refuted : forall p, exists strategy c l r,
  In r (run p strategy cstate0 c l) /\ f64_le (min_conf c) (d_conf (r_dec r)) = false
  /\ d_mode (r_dec r) <> ModeNone /\ f64_in_unit (d_conf (r_dec r)) = false.
Proof.
  intros p. exists (scripted [ModeNone; ModeLazy]), c_default, [(feat nan_bits false 1 1, 1, sec 5)].
  eexists. split; [left; reflexivity|]. destruct p; vm_compute; repeat split; discriminate.
Qed.

(* non-vacuity: every gate fires, and the accepted path is taken *)
Example ex_gates : forall p,
  let c := mkConstraints c_0_7 30000000000 [ModeLazy] in
  map (fun r => (d_mode (r_dec r), d_conf (r_dec r), d_kind (r_dec r), d_cfg (r_dec r)))
      (run p rule_select cstate0 c
         [ (feat c_0_3 false 0 5, WorkloadMixedRW, sec 10);              (* 0.3 < 0.7: low confidence *)
           (feat c_0_3 false 600000000 1000, WorkloadMixedRW, sec 11);   (* incremental not allowed *)
           (feat c_0_3 false 0 1000, WorkloadMixedRW, sec 12);           (* lazy accepted *)
           (feat c_0_3 true 0 60, WorkloadReadHeavy, sec 13);            (* 0.65+0.05 = 0.7000000000000001 *)
           (feat c_0 false 0 50, WorkloadReadHeavy, sec 14) ])           (* 0.65+0.1 = 0.75 *)
  = [ (ModeNone, c_0_3, 1%N, 0%N); (ModeNone, c_0_9, 2%N, 0%N); (ModeLazy, c_0_9, 0%N, 1%N);
      (ModeLazy, 4604480259023595111%N, 0%N, 1%N); (ModeLazy, c_0_75, 0%N, 1%N) ].
Proof. intros p; destruct p; vm_compute; reflexivity. Qed.

Example ex_min_conf_ulp :
  (* 0.65 + 0.1 = 0.75 exactly: passes MinConfidence 0.75, fails 0.7500000000000001 *)
  map (fun mc => d_mode (r_dec (row_of false rule_select (mkConstraints mc 0 []) cstate0
                                 (feat c_0 false 0 50, WorkloadReadHeavy, sec 1))))
      [c_0_75; 4604930618986332161%N]
  = [ModeLazy; ModeNone].
Proof. vm_compute. reflexivity. Qed.

Example ex_backwards_clock : forall p,
  (* the clock jumps back by 100 s: now - last = -100 s < 30 s, the previous mode is kept *)
  map (fun r => (d_mode (r_dec r), d_kind (r_dec r)))
      (run p rule_select cstate0 c_default
         [ (feat c_0_9 true 0 1000, WorkloadBatchDeletion, sec 1000);
           (feat c_0 false 600000000 1000, WorkloadFrequentWrites, sec 900) ])
  = [(ModeLazy, 0%N); (ModeLazy, 3%N)].
Proof. intros p; destruct p; vm_compute; reflexivity. Qed.

Example ex_classify :
  map (classify 10)
      [ mkFeatures c_0_9 c_0 c_0 true 0 100;  mkFeatures c_0 c_0_9 c_0 false 0 100;
        mkFeatures c_0_1 c_0_9 c_0 false 0 100; mkFeatures c_0_1 c_0 c_0_9 false 0 100;
        mkFeatures c_0_1 c_0_5 c_0_5 false 0 100; mkFeatures c_0_5 c_0_5 c_0 false 0 100;
        mkFeatures c_0_9 c_0 c_0 true 0 9 ]
  = [WorkloadBatchDeletion; WorkloadAppendOnly; WorkloadFrequentWrites; WorkloadReadHeavy;
     WorkloadMixedRW; WorkloadUnknown; WorkloadUnknown].
Proof. vm_compute. reflexivity. Qed.
