(* C06, reader against specification: the dataspace message (0x0001), versions 1 and 2.
   For every byte string the strict specification decoder accepts, ParseDataspaceMessage (Model/CodecMsg.v
   dec_dataspace, tied to the Go code by C11/C07) returns an error or the same version, kind, extents and maximum
   extents, and never panics.  The reader does not know the superblock's "size of lengths": it guesses 8-byte or
   4-byte extents from the message length.  The guess is proved right for size of lengths 8 and 4 (the one case where
   the reader takes 8 bytes for a 4-byte extent is a rank-1 message followed by at least 4 bytes of zero padding: the
   same number); it is wrong for size of lengths 2 (dataspace_lsz2_refuted). *)
From HV Require Import Base.Prelude Base.Outcome Base.Bytes Spec.Parse Spec.FormatMsg Model.CodecMsg
  Proofs.ReaderSpecBase.

(* what the reader returns against the specification's logical value.  A scalar dataspace is represented by the
   reader as kind 0 with the single extent 1, a null dataspace as kind 2 without extents. *)
Definition ds_agree (s : dataspace_spec) (v : dataspace') : Prop :=
  dsp_version v = dss_version s /\ dsp_type v = dss_type s /\
  (dss_type s = 1 -> dsp_dims v = dss_dims s /\ dsp_maxdims v = dss_maxdims s) /\
  (dss_type s = 0 -> dsp_dims v = [1] /\ dsp_maxdims v = None) /\
  (dss_type s = 2 -> dsp_dims v = [] /\ dsp_maxdims v = None).

(* version 2, kind "simple" with rank 0: accepted by the specification text (the reference library never writes it:
   H5S_set_extent_simple turns rank 0 into a scalar dataspace); the reader reports it as scalar *)
Definition simple_rank0 (s : dataspace_spec) : bool := (dss_type s =? 1) && (length (dss_dims s) =? 0)%nat.

Lemma read_dims1_wider (bs : list N) p k k' l q :
  read_dims bs k 1 p = Ok (l, q) ->
  at_pos bs (p + k) = zeros (N.to_nat (blen bs - (p + k))) ->
  k <= k' -> p + k' <= blen bs ->
  read_dims bs k' 1 p = Ok (l, p + k').
Proof.
  cbn [read_dims]. intros H Z Hk Hb.
  destruct (blen bs <? p + k); [discriminate|].
  destruct (rd_le bs p k) as [d| |] eqn:E; cbn [obind] in H; try discriminate.
  injection H as <- <-.
  rewrite ltb_false_of_le by assumption.
  rewrite (rd_le_wider bs p k k' d E Z Hk Hb). reflexivity.
Qed.

Lemma dataspace_reader_spec (lsz : nat) (pad_ok : bool) (bs : bytes) (s : dataspace_spec) :
  lsz = 4%nat \/ lsz = 8%nat ->
  spec_dec_dataspace lsz pad_ok bs = Ok s ->
  simple_rank0 s = false ->
  err_or (ds_agree s) (dec_dataspace bs).
Proof.
  intros Hl H NS. unfold spec_dec_dataspace in H.
  rewrite (at_pos_0 bs) in H.
  assert (P0 : 0 <= blen bs) by blia.
  sstep H. apply p_byte_at in E as (B1 & -> & I0); auto. rename n into ver.
  sstep H. apply p_byte_at in E as (B2 & -> & I1); [|blia]. rename n into rank.
  sstep H. apply p_byte_at in E as (B3 & -> & I2); [|blia]. rename n into fl.
  sstep H. apply N.ltb_lt in G.
  cbn [N.add] in *. change (0 + 1) with 1 in *. change (1 + 1) with 2 in *. change (2 + 1) with 3 in *.
  unfold dec_dataspace.
  destruct (blen bs <? 3) eqn:L3; [apply N.ltb_lt in L3; blia|].
  rewrite I0. cbn [obind].
  (* the kind and the position after the fixed part *)
  assert (K : exists kind off,
     ((ver = 1 /\ off = 8 /\ kind = (if rank =? 0 then 0 else 1)) \/
      (ver = 2 /\ off = 4 /\ kind < 3 /\ index bs 3 = Ok kind)) /\ off <= blen bs /\
     (obind (guard (if kind =? 1 then true else rank =? 0)) (fun _ =>
        '(dims, r) <- p_us lsz (N.to_nat rank) (at_pos bs off);;
        '(maxd, r) <- (if fl =? 1 then '(m, r) <- p_us lsz (N.to_nat rank) r;; Ok (Some m, r) else Ok (None, r));;
        _ <- guard (match maxd with Some m => forall2b (fun d x => d <=? x) dims m | None => true end);;
        _ <- p_end pad_ok r;;
        Ok {| dss_version := ver; dss_type := kind; dss_dims := dims; dss_maxdims := maxd |}) = Ok s)).
  { destruct (ver =? 1) eqn:V1.
    - apply N.eqb_eq in V1. subst ver.
      destruct (p_zeros 5 (at_pos bs 3)) as [[[] r]| |] eqn:E; cbn [obind] in H; try discriminate H.
      apply p_zeros_at in E as (B4 & -> & _); [|blia].
      exists (if rank =? 0 then 0 else 1), 8. split; [left; auto|]. split; [blia|]. exact H.
    - destruct (ver =? 2) eqn:V2; [|discriminate H].
      apply N.eqb_eq in V2. subst ver.
      sstep H. sstep E. apply p_byte_at in E0 as (B4 & -> & I3); [|blia].
      sstep E. apply N.ltb_lt in G0. injection E as <- <-.
      exists n0, 4. split; [right; auto|]. split; [blia|]. exact H. }
  clear H. destruct K as (kind & off & KV & Boff & H).
  sstep H.
  sstep H. apply p_us_at in E as (B5 & -> & RD & Ld); auto. rename l into dims.
  rewrite N2Nat.id in *.
  assert (FL : fl = 0 \/ fl = 1) by blia.
  assert (LS : N.of_nat lsz = 4 \/ N.of_nat lsz = 8) by (destruct Hl as [-> | ->]; auto).
  rewrite I1. cbn [obind]. rewrite I2. cbn [obind].
  assert (VK : negb (ver =? 1) && negb (ver =? 2) = false) by (destruct KV as [(-> & _) | (-> & _)]; reflexivity).
  rewrite VK.
  (* the reader's version-2 kind byte *)
  assert (T3 : exists t3, (if (ver =? 2) && (4 <=? blen bs) then index bs 3 else Ok 0) = Ok t3 /\
                          ((ver =? 2) && (4 <=? blen bs) && (t3 =? 2) = true <-> (ver = 2 /\ kind = 2))).
  { destruct KV as [(-> & -> & ->) | (-> & -> & K3 & I3)].
    - exists 0. split; [reflexivity|]. cbn [N.eqb andb]. split; [discriminate|]. intros [? _]. discriminate.
    - exists kind. replace (4 <=? blen bs) with true by (symmetry; apply N.leb_le; blia).
      cbn [N.eqb andb Pos.eqb]. split; [exact I3|]. rewrite N.eqb_eq. split; auto. intros [_ ?]; auto. }
  destruct T3 as (t3 & -> & T3). cbn [obind].
  destruct ((ver =? 2) && (4 <=? blen bs) && (t3 =? 2)) eqn:NULL.
  { (* null dataspace *)
    destruct T3 as [T3 _]. destruct (T3 eq_refl) as [-> ->].
    destruct (fl =? 1); repeat sstep H; injection H as <-;
      (split; [reflexivity|split; [reflexivity|]]); cbn [dss_type];
      (split; [discriminate|split; [discriminate|]]); auto. }
  assert (K2 : kind <> 2 \/ ver = 1).
  { destruct KV as [(-> & _) | (-> & -> & K3 & I3)]; auto. left. intros ->.
    destruct T3 as [_ T3]. specialize (T3 (conj eq_refl eq_refl)). discriminate T3. }
  destruct (rank =? 0) eqn:R0.
  { (* rank 0: scalar for the reader *)
    apply N.eqb_eq in R0. subst rank.
    cbn [N.to_nat p_us] in *. destruct dims; [|discriminate Ld].
    assert (KS : kind = 0 \/ kind = 1).
    { destruct KV as [(-> & -> & ->) | (-> & -> & K3 & I3)]; auto. destruct K2 as [K2|K2]; [blia|discriminate]. }
    destruct (fl =? 1); repeat sstep H; injection H as <-; unfold simple_rank0 in NS; cbn [dss_type dss_dims length] in NS;
      (destruct KS as [-> | ->]; [|discriminate NS]);
      (split; [reflexivity|split; [reflexivity|]]); cbn [dss_type];
      (split; [discriminate|split; [|discriminate]]); auto. }
  apply N.eqb_neq in R0.
  assert (K1 : kind = 1).
  { destruct (kind =? 1) eqn:K1; [now apply N.eqb_eq in K1|discriminate G0]. }
  subst kind.
  assert (OFF : (if ver =? 1 then 8 else 4) = off) by (destruct KV as [(-> & -> & _) | (-> & -> & _)]; reflexivity).
  rewrite OFF.
  destruct FL as [-> | ->]; cbn [N.testbit Pos.testbit N.eqb Pos.eqb] in *.
  - (* no maximum extents *)
    change (N.testbit 0 0) with false. cbn iota.
    cbn [obind] in H. s_guard H G1. s_end H PE PF ZZ. injection H as <-.
    destruct LS as [LS | LS]; rewrite LS in *.
    + (* 4-byte lengths *)
      destruct (off + rank * 8 <=? blen bs) eqn:E8; cbn [obind].
      * apply N.leb_le in E8. assert (rank = 1) by blia. subst rank. change (N.to_nat 1) with 1%nat in *.
        rewrite (read_dims1_wider bs off 4 8 dims _ RD) by (auto; blia). cbn [obind].
        repeat split; auto; cbn [dss_type]; discriminate.
      * replace (off + rank * 4 <=? blen bs) with true by (symmetry; apply N.leb_le; blia). cbn [obind].
        rewrite RD. cbn [obind]. repeat split; auto; cbn [dss_type]; discriminate.
    + replace (off + rank * 8 <=? blen bs) with true by (symmetry; apply N.leb_le; blia). cbn [obind].
      rewrite RD. cbn [obind]. repeat split; auto; cbn [dss_type]; discriminate.
  - (* maximum extents present *)
    change (N.testbit 1 0) with true. cbn iota.
    cbn [obind] in H. sstep H. s_us E mx B6 RD2 Lm. rewrite N2Nat.id in *. injection E as <- <-.
    s_guard H G1. s_end H PE PF ZZ. injection H as <-.
    destruct LS as [LS | LS]; rewrite LS in *.
    + destruct (off + rank * 2 * 8 <=? blen bs) eqn:E8; cbn [obind].
      * apply N.leb_le in E8. exfalso. blia.
      * replace (off + rank * 2 * 4 <=? blen bs) with true by (symmetry; apply N.leb_le; blia). cbn [obind].
        rewrite RD. cbn [obind]. rewrite RD2. cbn [obind]. repeat split; auto; cbn [dss_type]; discriminate.
    + replace (off + rank * 2 * 8 <=? blen bs) with true by (symmetry; apply N.leb_le; blia). cbn [obind].
      rewrite RD. cbn [obind]. rewrite RD2. cbn [obind]. repeat split; auto; cbn [dss_type]; discriminate.
Qed.

(* size of lengths 2 (H5Pset_sizes(fcpl, _, 2)): two 2-byte extents 3 and 5, padded to a multiple of 8 in a version 1
   object header; the reader takes one 4-byte extent 3 + 5 * 65536 and a second extent 0 *)
Definition dataspace_lsz2_witness : bytes := [1; 2; 0; 0; 0; 0; 0; 0; 3; 0; 5; 0; 0; 0; 0; 0].
Lemma dataspace_lsz2_refuted :
  spec_dec_dataspace 2 true dataspace_lsz2_witness =
    Ok {| dss_version := 1; dss_type := 1; dss_dims := [3; 5]; dss_maxdims := None |} /\
  dec_dataspace dataspace_lsz2_witness =
    Ok {| dsp_version := 1; dsp_type := 1; dsp_dims := [327683; 0]; dsp_maxdims := None |}.
Proof. split; vm_compute; reflexivity. Qed.

(* version 2, kind "simple", rank 0 (see simple_rank0): the reader says scalar *)
Lemma dataspace_simple_rank0_refuted :
  spec_dec_dataspace 8 false [2; 0; 0; 1] =
    Ok {| dss_version := 2; dss_type := 1; dss_dims := []; dss_maxdims := None |} /\
  dec_dataspace [2; 0; 0; 1] =
    Ok {| dsp_version := 2; dsp_type := 0; dsp_dims := [1]; dsp_maxdims := None |}.
Proof. split; vm_compute; reflexivity. Qed.

(* the hypotheses of dataspace_reader_spec are satisfiable: a rank-2 dataspace with maximum extents, 8-byte lengths *)
Example dataspace_reader_spec_example :
  exists s, spec_dec_dataspace 8 false ([1; 2; 1; 0; 0; 0; 0; 0] ++ le 8 3 ++ le 8 5 ++ le 8 3 ++ le 8 18446744073709551615) = Ok s /\
            simple_rank0 s = false.
Proof. eexists. split; vm_compute; reflexivity. Qed.
