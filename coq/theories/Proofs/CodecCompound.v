(* Lemmas for C11, group 7 (array / enum datatype messages; compound member lists: examples and refutation). *)
From HV Require Import Base.Prelude Base.Outcome Base.Bytes Model.CodecType Model.CodecCompound Proofs.CodecType.

Lemma array_roundtrip x : wf_array x = true -> dec_datatype (enc_array x) = Ok (proj_array x).
Proof.
  unfold wf_array, encok_array. intros H.
  apply andb_true_iff in H as [H Hd64]. apply andb_true_iff in H as [H Hsize].
  apply andb_true_iff in H as [H Hd32]. apply andb_true_iff in H as [H Hbase].
  apply andb_true_iff in H as [Hne Hle]. apply N.ltb_lt in Hsize. apply Nat.leb_le in Hle.
  destruct x as [base dims size]; cbn [ar_base ar_dims ar_size] in *.
  unfold dec_datatype, enc_array, proj_array. cbn [ar_base ar_dims ar_size].
  assert (Hw : wrap8 (blen dims) = blen dims) by (unfold wrap8, blen; apply N.mod_small; blia).
  rewrite Hw.
  assert (Hm : map (fun d => le 4 (wrap32 d)) dims = map (le 4) dims).
  { apply map_ext_in. intros d Hin. rewrite forallb_forall in Hd32. apply Hd32 in Hin. apply N.leb_le in Hin.
    unfold wrap32. rewrite N.mod_small by blia. reflexivity. }
  rewrite Hm.
  rewrite app_length.
  replace (length (dt_header DT_ARRAY 3 0 size)) with 8%nat
    by (pose proof (blen_dt_header DT_ARRAY 3 0 size) as E; unfold blen in E; blia).
  rewrite dec_dt_header by (auto; unfold DT_ARRAY; blia).
  unfold plen. cbv [DT_ARRAY DT_FIXED DT_FLOAT DT_BITFIELD DT_TIME DT_COMPOUND]. cbn [N.eqb Pos.eqb obind].
  rewrite N.ltb_irrefl, firstn_blen. reflexivity.
Qed.

Lemma enum_roundtrip x : wf_enum x = true -> dec_datatype (enc_enum x) = Ok (proj_enum x).
Proof.
  unfold wf_enum, encok_enum. intros H.
  apply andb_true_iff in H as [H Hsize]. apply andb_true_iff in H as [H Hvals].
  apply andb_true_iff in H as [H Hbase]. apply andb_true_iff in H as [Hne Hcnt].
  apply N.ltb_lt in Hsize. apply N.leb_le in Hcnt.
  unfold dec_datatype, enc_enum, proj_enum.
  rewrite app_length.
  replace (length (dt_header DT_ENUM 3 (enum_count x) (en_size x))) with 8%nat
    by (pose proof (blen_dt_header DT_ENUM 3 (enum_count x) (en_size x)) as E; unfold blen in E; blia).
  rewrite dec_dt_header by (auto; unfold DT_ENUM; blia).
  unfold plen. cbv [DT_ENUM DT_FIXED DT_FLOAT DT_BITFIELD DT_TIME DT_COMPOUND]. cbn [N.eqb Pos.eqb obind].
  rewrite N.ltb_irrefl, firstn_blen. reflexivity.
Qed.

(* compound: a string member that is not the last one makes the member list unparsable *)
Lemma compound_member_extent_refuted :
  encok_compound compound_witness = true /\ dec_compound (enc_compound compound_witness) = Err.
Proof. vm_compute. split; reflexivity. Qed.

(* ... with the same two members in the other order the list comes back *)
Lemma compound_ok_example_roundtrip :
  dec_compound (enc_compound compound_ok_example)
  = Ok {| cpp_version := 3; cpp_cbf := 0; cpp_size := 12; cpp_members := cp_fields compound_ok_example |}.
Proof. vm_compute. reflexivity. Qed.
