(* C03 end to end, the writer's step on the FILE: the two in-place rewrites of linkToParent composed.
   For every file that holds a group's local heap (header + segment [seg]) at [blen pre] and its symbol table node [s] further
   behind - with ARBITRARY bytes before, between and behind them (the other objects of the file) -
     link_heap; link_snod  fails exactly when the abstract namespace model's add_string / add_entry fail,
   and otherwise the new file holds the abstract model's new segment and the node with the entry appended AT THE SAME PLACES,
   same lengths, and every other byte of the file is untouched: whatever was placed in [pre], [mid] or [suf] still is. *)
From HV Require Import Base.Prelude Base.Outcome Base.Bytes Model.RobustAlloc Model.RobustGroup Model.GroupWire.
From HV Require Import Proofs.GroupWireHeap Proofs.GroupWireSnod.
From HV Require Import Model.FileImage Model.TreeImage Proofs.FileImage.
From HV Require Model.GroupNS.

Local Open Scope N_scope.

(* what linkToParent does to the file once prepareLink has accepted the call *)
Definition link_both (f : bytes) (ha sa : N) (nm : bytes) (child : N) : outcome bytes :=
  ' (off, f1) <- link_heap f ha nm;; link_snod f1 sa (new_sym off child).

Lemma link_to_parent_eq st parent nm child ha sa :
  prepare_link st parent nm child = Ok (ha, sa) ->
  link_to_parent st parent nm child = link_both (t_file st) ha sa nm child.
Proof. intros H. unfold link_to_parent, link_both. rewrite H. reflexivity. Qed.

(* a file with a group's heap at [blen pre] and its node behind [mid] *)
Definition group_file (pre mid suf seg : list N) (s : snode) : list N :=
  heap_file pre (mid ++ snod_bytes s 32 ++ suf) 1 seg.

Lemma group_file_split (pre mid suf seg : list N) s :
  group_file pre mid suf seg s = (pre ++ heap_header (blen seg) 1 (blen pre + 32) ++ seg ++ mid) ++ snod_bytes s 32 ++ suf.
Proof. unfold group_file, heap_file. now rewrite <- !app_assoc. Qed.

Lemma group_file_snod_addr (pre mid seg : list N) :
  blen (pre ++ heap_header (blen seg) 1 (blen pre + 32) ++ seg ++ mid) = blen pre + 32 + blen seg + blen mid.
Proof. rewrite !blen_app, blen_heap_header. blia. Qed.

Lemma add_string_off_small (h : NS.wheap) nm off h1 : NS.add_string h nm = Some (off, h1) -> off < NS.wh_dss h.
Proof.
  unfold NS.add_string. destruct (NS.wh_dss h <? NS.blen (NS.wh_strings h) + (NS.blen nm + 1)) eqn:E; [discriminate|].
  intros H. inversion H; subst. apply N.ltb_ge in E. blia.
Qed.

Theorem link_both_commutes (pre mid suf seg : list N) s nm child :
  snode_ok s = true -> (length (stn_entries s) <= 32)%nat -> child < 18446744073709551616 ->
  blen pre + 32 + blen seg + blen mid + 8 + 40 * 32 <= MaxInt64 ->
  let sa := blen pre + 32 + blen seg + blen mid in
  match NS.add_string (NS.prepare_for_modification seg) nm with
  | None => link_both (group_file pre mid suf seg s) (blen pre) sa nm child = Err
  | Some (off, h1) =>
      let seg' := snd (NS.write_to h1) in
      blen seg' = blen seg /\
      match NS.add_entry (NS.parse_snod 32 (map abs_sym (stn_entries s))) {| NS.e_off := off; NS.e_obj := child |} with
      | None => link_both (group_file pre mid suf seg s) (blen pre) sa nm child = Err /\ length (stn_entries s) = 32%nat
      | Some n1 =>
          exists s1, snode_ok s1 = true /\ stn_entries s1 = stn_entries s ++ [new_sym off child] /\ abs_snode s1 = n1 /\
            link_both (group_file pre mid suf seg s) (blen pre) sa nm child = Ok (group_file pre mid suf seg' s1)
      end
  end.
Proof.
  intros Hok Hm Hc Hb sa.
  assert (Hb1 : blen pre + 32 + blen seg <= MaxInt64) by blia.
  destruct (link_heap_commutes pre (mid ++ snod_bytes s 32 ++ suf) seg nm Hb1) as [_ LH].
  destruct (NS.add_string (NS.prepare_for_modification seg) nm) as [[off h1]|] eqn:EA.
  - destruct LH as [Hlen LH]. cbn zeta. split; [exact Hlen|].
    pose proof (add_string_off_small _ _ _ _ EA) as Hoff. cbn [NS.prepare_for_modification NS.wh_dss] in Hoff.
    assert (Hoff' : off < 18446744073709551616).
    { rewrite MaxInt64_val in Hb. change (NS.blen seg) with (blen seg) in Hoff. blia. }
    assert (Hsym : sym_ok (new_sym off child) = true).
    { unfold sym_ok, new_sym, u64, u32. cbn [sy_name sy_obj sy_cache sy_res sy_bt sy_heap].
      apply N.ltb_lt in Hoff', Hc. rewrite Hoff', Hc. reflexivity. }
    set (seg' := snd (NS.write_to h1)) in *.
    set (pre' := pre ++ heap_header (blen seg') 1 (blen pre + 32) ++ seg' ++ mid).
    assert (Hpre' : blen pre' = sa).
    { subst pre' sa. rewrite group_file_snod_addr, Hlen. reflexivity. }
    assert (Hb2 : blen pre' + 8 + 40 * 32 <= MaxInt64) by (rewrite Hpre'; subst sa; blia).
    pose proof (link_snod_commutes s (new_sym off child) pre' suf Hok Hsym Hm Hb2) as LS.
    change (abs_sym (new_sym off child)) with {| NS.e_off := off; NS.e_obj := child |} in LS.
    assert (EF : heap_file pre (mid ++ snod_bytes s 32 ++ suf) 1 seg' = pre' ++ snod_bytes s 32 ++ suf).
    { subst pre'. unfold heap_file. now rewrite <- !app_assoc. }
    destruct (NS.add_entry (NS.parse_snod 32 (map abs_sym (stn_entries s))) {| NS.e_off := off; NS.e_obj := child |}) as [n1|].
    + destruct LS as (s1 & H1 & H2 & H3 & H4). exists s1. repeat split; auto.
      unfold link_both, group_file. rewrite LH. cbn [obind]. rewrite EF, <- Hpre'.
      rewrite H4. f_equal. subst pre'. unfold heap_file. now rewrite <- !app_assoc.
    + destruct LS as [LS1 LS2]. split; [|exact LS2].
      unfold link_both, group_file. rewrite LH. cbn [obind]. rewrite EF, <- Hpre'. exact LS1.
  - unfold link_both, group_file. rewrite LH. reflexivity.
Qed.

(* everything else is untouched: a block placed before the heap, between heap and node, or behind the node is still there *)
Lemma placed_pre_kept (pre rest rest' : list N) a b :
  placed pre a b -> placed (pre ++ rest) a b /\ placed (pre ++ rest') a b.
Proof.
  intros (p & q & E & L). split; [exists p, (q ++ rest) | exists p, (q ++ rest')]; (split; [|exact L]); rewrite E, <- !app_assoc; reflexivity.
Qed.

Theorem group_file_others_kept (pre mid suf seg seg' : list N) s s1 a b :
  blen seg' = blen seg ->
  (placed pre a b -> placed (group_file pre mid suf seg' s1) a b) /\
  (placed mid a b -> placed (group_file pre mid suf seg s) (blen pre + 32 + blen seg + a) b /\
                     placed (group_file pre mid suf seg' s1) (blen pre + 32 + blen seg + a) b) /\
  (placed suf a b -> placed (group_file pre mid suf seg s) (blen pre + 32 + blen seg + blen mid + 1288 + a) b /\
                     placed (group_file pre mid suf seg' s1) (blen pre + 32 + blen seg + blen mid + 1288 + a) b).
Proof.
  intros Hlen. repeat split.
  - intros (p & q & E & L). unfold group_file, heap_file. exists p, (q ++ heap_header (blen seg') 1 (blen pre + 32) ++ seg' ++ mid ++ snod_bytes s1 32 ++ suf).
    split; [|exact L]. rewrite E, <- !app_assoc. reflexivity.
  - destruct H as (p & q & E & L). unfold group_file, heap_file.
    exists (pre ++ heap_header (blen seg) 1 (blen pre + 32) ++ seg ++ p), (q ++ snod_bytes s 32 ++ suf).
    split; [rewrite E, <- !app_assoc; reflexivity | rewrite !blen_app, blen_heap_header; blia].
  - destruct H as (p & q & E & L). unfold group_file, heap_file.
    exists (pre ++ heap_header (blen seg') 1 (blen pre + 32) ++ seg' ++ p), (q ++ snod_bytes s1 32 ++ suf).
    split; [rewrite E, <- !app_assoc; reflexivity | rewrite !blen_app, blen_heap_header, Hlen; blia].
  - destruct H as (p & q & E & L). unfold group_file, heap_file.
    exists (pre ++ heap_header (blen seg) 1 (blen pre + 32) ++ seg ++ mid ++ snod_bytes s 32 ++ p), q.
    split; [rewrite E, <- !app_assoc; reflexivity | rewrite !blen_app, blen_heap_header, snod_bytes_size; blia].
  - destruct H as (p & q & E & L). unfold group_file, heap_file.
    exists (pre ++ heap_header (blen seg') 1 (blen pre + 32) ++ seg' ++ mid ++ snod_bytes s1 32 ++ p), q.
    split; [rewrite E, <- !app_assoc; reflexivity | rewrite !blen_app, blen_heap_header, snod_bytes_size, Hlen; blia].
Qed.
