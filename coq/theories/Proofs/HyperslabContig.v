(* C09: contiguous layout.  The single-read path is correct exactly under the (repaired)
   contiguity test; together with the 2-D and the selection-run path the contiguous reader
   returns the selection for every valid selection.  General in the rank. *)
From HV Require Import Base.Prelude Model.Hyperslab Proofs.HyperslabBase Proofs.HyperslabRaw.

Lemma axis_idx_run a :
  a_count a = 1 \/ a_stride a = a_block a ->
  axis_idx a = nseq (a_start a) (N.to_nat (a_count a * a_block a)).
Proof.
  intros [H|H]; unfold axis_idx.
  - rewrite H. change (nrange 1) with [0]. cbn [flat_map]. rewrite app_nil_r.
    rewrite (map_ext _ (N.add (a_start a))) by (intros; lia).
    unfold nrange. rewrite map_add_nseq. rewrite N.add_0_r, N.mul_1_l. reflexivity.
  - rewrite H.
    rewrite (flat_map_ext_in _ (fun c => nseq (a_start a + c * a_block a) (N.to_nat (a_block a)))).
    + unfold nrange at 1. rewrite flat_map_nseq_runs. rewrite N2Nat.inj_mul.
      apply nseq_ext. lia.
    + intros c _. rewrite (map_ext _ (N.add (a_start a + c * a_block a))) by (intros; lia).
      unfold nrange. rewrite map_add_nseq. apply nseq_ext. lia.
Qed.

Lemma map_lin_cons d ds (L : list (list N)) i :
  map (lin (d :: ds)) (map (cons i) L) = map (N.add (i * prodN ds)) (map (lin ds) L).
Proof. rewrite !map_map. apply map_ext. intros x. reflexivity. Qed.

Lemma contig_run : forall s dims, axes_valid s dims -> forall fl, contig_go s dims = (true, fl) ->
  map (lin dims) (sel_coords s) = nseq (lin dims (map a_start s)) (length (sel_coords s))
  /\ (fl = true -> lin dims (map a_start s) = 0 /\ N.of_nat (length (sel_coords s)) = prodN dims).
Proof.
  induction 1 as [|a d s ds Ha V IH]; intros fl E.
  - cbn. split; [reflexivity|]. intros _. split; reflexivity.
  - cbn [contig_go] in E. destruct (contig_go s ds) as [ok' fl'].
    destruct ok'; cbn [negb] in E; [|discriminate].
    destruct (IH fl' eq_refl) as (R & F). clear IH.
    assert (ML : map (lin (d :: ds)) (sel_coords (a :: s))
                 = flat_map (fun i => nseq (i * prodN ds + lin ds (map a_start s)) (length (sel_coords s))) (axis_idx a)).
    { cbn [sel_coords]. rewrite map_flat_map. apply flat_map_ext_in. intros i _.
      rewrite map_lin_cons, R, map_add_nseq. reflexivity. }
    assert (LEN : length (sel_coords (a :: s)) = (length (axis_idx a) * length (sel_coords s))%nat).
    { cbn [sel_coords]. apply flat_map_length_const. intros. apply map_length. }
    rewrite ML, LEN. cbn [map lin].
    destruct fl'; cbn [negb] in E.
    + (* the tail is selected in full *)
      destruct (F eq_refl) as (F0 & FN). clear F.
      destruct (negb (a_count a =? 1) && negb (a_stride a =? a_block a)) eqn:EC; [discriminate|].
      assert (RUN : a_count a = 1 \/ a_stride a = a_block a).
      { destruct (N.eqb_spec (a_count a) 1); [left; assumption|].
        destruct (N.eqb_spec (a_stride a) (a_block a)); [right; assumption|]. discriminate. }
      rewrite (axis_idx_run a RUN), nseq_length, F0.
      assert (LP : length (sel_coords s) = N.to_nat (prodN ds)) by lia.
      rewrite LP.
      rewrite (flat_map_ext_in _ (fun i => nseq (0 + i * prodN ds) (N.to_nat (prodN ds))))
        by (intros; apply nseq_ext; lia).
      rewrite flat_map_nseq_runs. split; [apply nseq_ext; lia|].
      intros ->.
      destruct (N.eqb_spec (a_start a) 0) as [S0|]; cbn [negb orb] in E; [|discriminate].
      destruct (N.eqb_spec (a_count a * a_block a) d) as [CB|]; cbn [negb] in E; [|discriminate].
      cbn [prodN]. split; [rewrite S0; lia|]. rewrite <- CB. lia.
    + (* the tail is one run but not everything: this dimension selects a single index *)
      destruct (N.eqb_spec (a_count a) 1) as [C1|]; cbn [negb orb] in E; [|discriminate].
      destruct (N.eqb_spec (a_block a) 1) as [B1|]; cbn [negb] in E; [|discriminate].
      injection E as <-.
      assert (AI : axis_idx a = [a_start a]).
      { rewrite (axis_idx_run a (or_introl C1)), C1, B1. reflexivity. }
      rewrite AI. cbn [flat_map length]. rewrite app_nil_r, Nat.mul_1_l. split; [reflexivity|discriminate].
Qed.

Lemma nseq_last_in s n : (0 < n)%nat -> In (s + N.of_nat (n - 1)) (nseq s n).
Proof. intros. apply in_nseq. lia. Qed.

Theorem read_contiguous_optimized_correct full dims s :
  axes_valid s dims -> s <> [] -> lenN full = prodN dims ->
  is_contiguous_selection s dims = true ->
  read_contiguous_optimized full dims s = select full dims s.
Proof.
  intros V Hne Hlen C.
  pose proof (axes_valid_block _ _ V) as Hb.
  pose proof (axes_valid_length _ _ V) as Ls.
  unfold read_contiguous_optimized.
  destruct (N.eqb_spec (out_elems s) 0) as [E|E]; [symmetry; apply select_nil; assumption|].
  unfold is_contiguous_selection in C. destruct (contig_go s dims) as [ok fl] eqn:EC. cbn [fst] in C. subst ok.
  destruct (contig_run _ _ V _ EC) as (R & _).
  rewrite out_elems_length in * by assumption.
  set (n := length (sel_coords s)) in *.
  assert (Hfit : lin dims (map a_start s) + N.of_nat n <= lenN full).
  { assert (Hn : (0 < n)%nat) by lia.
    pose proof (nseq_last_in (lin dims (map a_start s)) n Hn) as Hin.
    rewrite <- R in Hin. apply in_map_iff in Hin. destruct Hin as (x & Hx & Hxin).
    pose proof (lin_bound _ _ (sel_coords_inb _ _ _ V Hxin)). lia. }
  assert (G : read_at full (lin dims (map a_start s)) (N.of_nat n) = select full dims s).
  { rewrite read_at_spec by assumption. rewrite Nat2N.id.
    unfold select. rewrite <- R, map_map. reflexivity. }
  destruct dims as [|d0 [|d1 dr]].
  - destruct s; [congruence|discriminate].
  - destruct s as [|a [|a' s']]; try discriminate. rewrite <- G. cbn [map lin prodN]. f_equal. lia.
  - rewrite calc_lin_spec by (rewrite map_length; assumption). exact G.
Qed.

Theorem read_hyperslab_contiguous_correct full dims s :
  axes_valid s dims -> s <> [] -> lenN full = prodN dims ->
  read_hyperslab_contiguous full dims s = select full dims s.
Proof.
  intros V Hne Hlen. unfold read_hyperslab_contiguous.
  destruct (is_contiguous_selection s dims) eqn:C.
  - apply read_contiguous_optimized_correct; assumption.
  - unfold read_contiguous_row_by_row.
    pose proof (axes_valid_block _ _ V) as Hb.
    pose proof (axes_valid_length _ _ V) as Ls.
    destruct (N.eqb_spec (out_elems s) 0) as [E|E]; [symmetry; apply select_nil; assumption|].
    destruct dims as [|d0 [|d1 [|d2 dr]]]; destruct s as [|a0 [|a1 [|a2 sr]]]; try discriminate; try congruence;
      try (apply selection_run_correct; assumption).
    apply read_contiguous_2d_correct; assumption.
Qed.
