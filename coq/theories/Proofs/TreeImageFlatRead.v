(* C03 end to end, depth 1: hdf5.Open on the closed file of any state satisfying FlatInv returns the root with [nodes]. *)
From HV Require Import Base.Prelude Base.Outcome Base.Bytes Model.RobustAlloc Model.RobustGroup Model.GroupWire.
From HV Require Import Model.CodecSuper Model.CodecOhdr Model.CodecMsg Model.CodecType Model.CodecLink.
From HV Require Import Model.IOProg Proofs.IOProg Model.IOProgReader Model.IOProgOpen.
From HV Require Import Proofs.CodecOhdr Proofs.CodecLink Proofs.GroupWireHeap Proofs.GroupWireSnod.
From HV Require Import Model.FileImage Model.TreeImage Proofs.FileImage Proofs.FileImageOhdr Proofs.FileImageData.
From HV Require Import Proofs.TreeImageRead Proofs.TreeImageLink Proofs.TreeImageHdr Proofs.TreeImageOpen Proofs.TreeImagePlaced
  Proofs.TreeImageStep Proofs.TreeImageFlat Proofs.TreeImageFlatStep.
From HV Require Model.GroupNS Proofs.GroupNSBase Proofs.GroupNSHeap.

Local Open Scope N_scope.

Lemma closed_item_placed (P : list N) l1 it l2 : blen P = 48 -> Forall item_ok l1 ->
  placed (P ++ layout 48 (l1 ++ it :: l2)) (48 + lsize l1)
         (item_bytes (48 + lsize l1) it ++ layout (48 + lsize l1 + item_size it) l2).
Proof.
  intros HP H. rewrite layout_app. cbn [layout].
  exists (P ++ layout 48 l1), []. split; [now rewrite app_nil_r, <- !app_assoc|].
  rewrite blen_app, HP, blen_layout; auto.
Qed.

(* the blocks of a group item are a GroupAt *)
Lemma GroupAt_of_bytes f hfuel a (seg : list N) s (tail : list N) :
  placed f a (heap_header 256 1 (a + 32) ++ seg ++ snod_bytes s 32 ++ bt_block (a + 288)
              ++ enc_ohdr_v2 (group_ohdr (a + 1576) a) ++ tail) ->
  blen seg = 256 -> snode_ok s = true -> (length (stn_entries s) <= 32)%nat ->
  Forall (fun e => sy_cache e = 0) (stn_entries s) -> 2 <= blen tail -> (1 < hfuel)%nat -> a + 4000 < 4611686018427387904 ->
  GroupAt f hfuel a seg s.
Proof.
  intros HP Hs Hok Hm Hc Ht Hf Hb.
  set (H32 := heap_header 256 1 (a + 32)) in *. set (SN := snod_bytes s 32) in *. set (BT := bt_block (a + 288)) in *.
  set (OH := enc_ohdr_v2 (group_ohdr (a + 1576) a)) in *.
  assert (L32 : blen H32 = 32) by reflexivity.
  assert (LSN : blen SN = 1288) by (subst SN; rewrite snod_bytes_size; reflexivity).
  assert (LBT : blen BT = 544) by apply blen_bt_block.
  unfold GroupAt. rewrite Hs.
  split; [fold H32; now apply placed_head in HP|].
  split. { replace (a + 32) with (a + blen H32) by (rewrite L32; reflexivity). apply (placed_sub f a H32 seg _ HP). }
  split; [reflexivity|].
  split. { replace (a + 288) with (a + blen (H32 ++ seg)) by (rewrite blen_app, L32, Hs; blia).
           apply (placed_sub f a (H32 ++ seg) SN (BT ++ OH ++ tail)). now rewrite <- !app_assoc. }
  split; [exact Hok|]. split; [exact Hm|]. split; [exact Hc|].
  split. { replace (a + 1576) with (a + blen (H32 ++ seg ++ SN)) by (rewrite !blen_app, L32, Hs, LSN; blia).
           apply (placed_sub f a (H32 ++ seg ++ SN) BT (OH ++ tail)). now rewrite <- !app_assoc. }
  split; [|exact Hb].
  unfold HdrAt. split; [apply group_ohdr_ok|]. split.
  - exists tail. split; [|exact Ht].
    replace (a + 2120) with (a + blen (H32 ++ seg ++ SN ++ BT)) by (rewrite !blen_app, L32, Hs, LSN, LBT; blia).
    apply (placed_tail f a (H32 ++ seg ++ SN ++ BT) (OH ++ tail)). now rewrite <- !app_assoc.
  - split; [cbn [group_ohdr oh_msgs length]; lia | unfold B63; blia].
Qed.

Lemma map_eq_Forall2 {A B C} (g : A -> C) (h : B -> C) l l' : map g l = map h l' -> Forall2 (fun a b => g a = h b) l l'.
Proof.
  revert l'. induction l as [|x r IH]; intros [|y r'] H; try discriminate; constructor.
  - cbn in H. now inversion H.
  - apply IH. cbn in H. now inversion H.
Qed.
Lemma Forall2_and {A B} (P Q : A -> B -> Prop) l l' : Forall2 P l l' -> Forall2 Q l l' -> Forall2 (fun a b => P a b /\ Q a b) l l'.
Proof. induction 1; intros H2; inversion H2; subst; constructor; auto. Qed.

Lemma Forall2_left {A B} (P : A -> Prop) (Q : A -> B -> Prop) l l' : Forall2 (fun a b => P a /\ Q a b) l l' -> Forall P l.
Proof. induction 1 as [|x y r r' [H _] _ IH]; constructor; auto. Qed.

Lemma heap_string_ns (seg : list N) off nm : NS.get_string seg off = Some nm -> heap_string seg off = Ok nm.
Proof.
  intros H. change (heap_string seg off) with (get_string seg off). rewrite get_string_agrees, H. reflexivity.
Qed.

Section Read.
Variable hfuel : nat.
Hypothesis Hhf : (4 < hfuel)%nat.

Theorem flat_open st nodes n : FlatInv st nodes -> 2197 <= blen (t_file st) -> blen (t_file st) + 4000 < LIM ->
  let f := t_close (t_file st) in
  run0 f (p_open true (blen f) (S (S (S (S (S n))))) hfuel) = Ok (Grp [47] 2168 nodes).
Proof.
  intros (seg & s & rest & cs & ns & Hf & Hs & Hok & Hm & Hr & Hg & Hns & HF & Hnd & Hlt & Hn) Hlen Hb f.
  assert (Hokl : Forall item_ok (flat_lay seg s rest)) by (constructor; [cbn [root_item item_ok]; auto | exact Hr]).
  assert (HL : blen (t_file st) = 2195 + lsize rest) by (rewrite Hf, blen_image by exact Hokl; apply lsize_flat).
  rewrite HL in Hlen, Hb. unfold LIM in Hb.
  assert (Ef : f = enc_superblock (sb_eof (2195 + lsize rest)) ++ layout 48 (flat_lay seg s rest)).
  { subst f. rewrite Hf, close_image by exact Hokl. now rewrite lsize_flat. }
  rewrite Ef. subst nodes.
  set (P := enc_superblock (sb_eof (2195 + lsize rest))).
  assert (LP : blen P = 48) by apply blen_sb_eof.
  assert (Hcache : Forall (fun e => sy_cache e = 0) (stn_entries s)).
  { exact (Forall2_left _ _ _ _ HF). }
  apply (open_depth1 (2195 + lsize rest) (layout 48 (flat_lay seg s rest)) hfuel n seg s cs).
  - blia.
  - rewrite blen_layout by exact Hokl. cbn [flat_lay lsize root_item item_size]. rewrite blen_hb0. blia.
  - (* the root *)
    pose proof (closed_item_placed P [] (root_item seg s) rest LP (Forall_nil _)) as HPl.
    cbn [app lsize root_item item_bytes item_size] in HPl. rewrite blen_hb0 in HPl.
    change (48 + 0) with 48 in HPl. change (48 + (2120 + 27)) with 2195 in HPl.
    apply (GroupAt_of_bytes _ hfuel 48 seg s (layout 2195 rest)); auto; try lia; try blia.
    + rewrite <- !app_assoc in HPl. exact HPl.
    + rewrite blen_layout by exact Hr. blia.
  - (* the children *)
    apply Forall2_and.
    + pose proof (GH.names_decode _ _ _ Hg) as D. rewrite map_map, <- Hns, map_map in D.
      apply map_eq_Forall2 in D. eapply Forall2_imp; [|exact D]. intros e nc H. cbn beta in H.
      apply heap_string_ns. exact H.
    + eapply Forall2_imp; [|exact HF]. intros e [nm c] [_ (l1 & it & l2 & -> & HIC)]. cbn [snd] in *.
      assert (Hok1 : Forall item_ok (root_item seg s :: l1)).
      { constructor; [cbn [root_item item_ok]; auto|]. apply Forall_app in Hr as [H1 _]. exact H1. }
      pose proof (closed_item_placed P (root_item seg s :: l1) it l2 LP Hok1) as HPl.
      replace (48 + lsize (root_item seg s :: l1)) with (2195 + lsize l1) in HPl
        by (cbn [lsize root_item item_size]; rewrite blen_hb0; blia).
      change ((root_item seg s :: l1) ++ it :: l2) with (flat_lay seg s (l1 ++ it :: l2)) in HPl.
      assert (Ha : 2195 + lsize l1 + item_size it <= 2195 + lsize (l1 ++ it :: l2)) by (rewrite lsize_app; cbn [lsize]; blia).
      set (a := 2195 + lsize l1) in *.
      inversion HIC as [|d x Hx]; subst.
      * (* an empty group *)
        cbn [ChildAt]. exists a. split; [reflexivity|]. split; [|reflexivity].
        cbn [new_group_item item_bytes] in HPl. unfold ohdr_block in HPl. rewrite <- !app_assoc in HPl.
        rewrite new_group_item_size in Ha.
        eapply GroupAt_of_bytes; try exact HPl; try reflexivity; try (cbn; lia); try constructor; try blia.
        rewrite blen_app, blen_zeros, size_group_ohdr. unfold OHDR_RESERVE. blia.
      * (* a dataset *)
        destruct Hx as (Hxo & Hxc & Hxa & Hxk & Hxl). cbn [ChildAt]. split; [|split; assumption].
        cbn [item_bytes] in HPl. unfold ohdr_block in HPl. rewrite <- !app_assoc in HPl.
        cbn [item_size] in Ha. rewrite blen_ohdr_block in Ha by blia.
        unfold HdrAt. split; [exact Hxo|]. split.
        { eexists. split; [apply (placed_tail _ a d _ HPl)|].
          rewrite blen_app, blen_zeros. unfold OHDR_RESERVE, size_ohdr_v2. blia. }
        split; [lia | unfold B63; blia].
  - exact Hnd.
Qed.
End Read.
