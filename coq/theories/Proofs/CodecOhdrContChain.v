(* Lemmas for C11, group 5b, part 2: the reader on a chain of continuation chunks. *)
From HV Require Import Base.Prelude Base.Outcome Base.Bytes Model.CodecOhdr Proofs.CodecOhdr
  Model.CodecOhdrCont Proofs.CodecOhdrCont.

(* [bs] is found in [file] at offset [off] *)
Definition file_at (file : bytes) (off : N) (bs : bytes) : Prop :=
  exists P S, file = P ++ bs ++ S /\ blen P = off.

Lemma fa_here (P bs S : list N) : file_at (P ++ bs ++ S) (blen P) bs.
Proof. exists P, S. auto. Qed.
Lemma fa_app_l file off (x y : list N) : file_at file off (x ++ y) -> file_at file off x.
Proof. intros (P & S & -> & <-). exists P, (y ++ S). rewrite <- app_assoc. auto. Qed.
Lemma fa_app_r file off (x y : list N) : file_at file off (x ++ y) -> file_at file (off + blen x) y.
Proof. intros (P & S & -> & <-). exists (P ++ x), S. rewrite <- !app_assoc, blen_app. auto. Qed.
Lemma fa_eq file off off' bs : file_at file off bs -> off = off' -> file_at file off' bs.
Proof. intros H <-. exact H. Qed.
Lemma fa_bound file off bs : file_at file off bs -> off + blen bs <= blen file.
Proof. intros (P & S & -> & <-). rewrite !blen_app. blia. Qed.
Lemma fa_slice file off bs e : file_at file off bs -> e = off + blen bs -> slice file off e = Ok bs.
Proof. intros (P & S & -> & <-) ->. apply slice_app'; auto. Qed.
Lemma fa_index file off (b : N) (r : list N) : file_at file off (b :: r) -> index file off = Ok b.
Proof. intros (P & S & -> & <-). cbn [app]. apply index_app; auto. Qed.
Lemma fa_rd_le file off k kN v : file_at file off (le k v) -> kN = N.of_nat k -> v < 256 ^ kN ->
  rd_le file off kN = Ok v.
Proof. intros (P & S & -> & <-) -> Hv. apply rd_le_app; auto. Qed.
Lemma fa_rd_end file off k v bigendian : file_at file off (enc_uint bigendian k v) -> v < 256 ^ k ->
  rd_end file off k bigendian = Ok v.
Proof.
  unfold enc_uint, rd_end. destruct bigendian; intros (P & S & -> & <-) Hv.
  - apply rd_be_at with (k := N.to_nat k); auto. now rewrite N2Nat.id.
  - apply rd_le_at with (k := N.to_nat k); auto. now rewrite N2Nat.id.
Qed.

Lemma blen_enc_uint bigendian k v : blen (enc_uint bigendian k v) = k.
Proof. unfold enc_uint. destruct bigendian; rewrite ?blen_be, ?blen_le; apply N2Nat.id. Qed.

Lemma sub64_4 x : 4 <= x -> x < 18446744073709551616 -> sub64 x 4 = x - 4.
Proof.
  intros. unfold sub64. change (4 mod 18446744073709551616) with 4.
  replace (x + 18446744073709551616 - 4) with (x - 4 + 1 * 18446744073709551616) by blia.
  rewrite N.mod_add by blia. apply N.mod_small. blia.
Qed.

Lemma size_ok_inv k : size_ok k = true -> 1 <= k <= 8.
Proof.
  unfold size_ok. intros H. repeat (apply orb_true_iff in H as [H|H]); apply N.eqb_eq in H; blia.
Qed.

Lemma parse_cont_ok os ls sbBE a s :
  size_ok os = true -> size_ok ls = true -> a < 256 ^ os -> s < 256 ^ ls -> s <> 0 ->
  parse_cont os ls sbBE (enc_uint sbBE os a ++ enc_uint sbBE ls s) = Ok (a, s).
Proof.
  intros Hos Hls Ha Hs Hs0. unfold parse_cont. rewrite Hos, Hls. cbn [negb].
  pose proof (size_ok_inv _ Hos). pose proof (size_ok_inv _ Hls).
  rewrite blen_app, !blen_enc_uint.
  replace (os + ls <? wrap8 (os + ls)) with false
    by (symmetry; apply N.ltb_ge; unfold wrap8; rewrite N.mod_small; blia).
  rewrite (fa_rd_end _ 0 os a sbBE) by (auto; apply (fa_here [] _ _)).
  cbn [obind].
  rewrite (fa_rd_end _ os ls s sbBE); auto.
  - cbn [obind]. replace (s =? 0) with false by (symmetry; apply N.eqb_neq; auto). reflexivity.
  - exists (enc_uint sbBE os a), []. rewrite app_nil_r. split; [reflexivity|apply blen_enc_uint].
Qed.

Lemma body_v2_app x y : body_v2 (x ++ y) = body_v2 x ++ body_v2 y.
Proof. unfold body_v2. rewrite map_app. apply concat_app. Qed.
Lemma chunk_size_v2_app x y : chunk_size_v2 (x ++ y) = chunk_size_v2 x + chunk_size_v2 y.
Proof. rewrite <- !blen_body_v2, body_v2_app. apply blen_app. Qed.
Lemma chunk_size_v2_cons m r : chunk_size_v2 (m :: r) = 4 + blen (hm_data m) + chunk_size_v2 r.
Proof. reflexivity. Qed.
Lemma msgs_at_v2_app x : forall y cur,
  msgs_at_v2 (x ++ y) cur = msgs_at_v2 x cur ++ msgs_at_v2 y (cur + chunk_size_v2 x).
Proof.
  induction x as [|m r IH]; intros y cur.
  - cbn [app msgs_at_v2]. change (chunk_size_v2 []) with 0. now rewrite N.add_0_r.
  - cbn [app msgs_at_v2]. rewrite IH, chunk_size_v2_cons. do 3 f_equal. blia.
Qed.
Lemma length_le_chunk ms : N.of_nat (length ms) <= chunk_size_v2 ms.
Proof. induction ms as [|m r IH]; [cbn; blia|]. rewrite chunk_size_v2_cons. cbn [length]. blia. Qed.

Lemma wf_msgs_c_cons m r : wf_msgs_c (m :: r) = true ->
  hm_type m < 256 /\ (hm_type m =? MSG_CONT) = false /\ 1 <= blen (hm_data m) < 65536 /\ wf_msgs_c r = true.
Proof.
  unfold wf_msgs_c. cbn [forallb]. intros H. apply andb_true_iff in H as [H Hr].
  apply andb_true_iff in H as [H H2]. apply wf_msg_v2_inv in H as (? & ? & ?). apply N.ltb_lt in H2. auto.
Qed.
Lemma wf_msgs_c_app x y : wf_msgs_c (x ++ y) = wf_msgs_c x && wf_msgs_c y.
Proof. apply forallb_app. Qed.

Lemma link_msg_size os ls sbBE ad sz : chunk_size_v2 [cont_msg os ls sbBE ad sz] = link_size os ls.
Proof.
  rewrite chunk_size_v2_cons. unfold cont_msg. cbn [hm_data]. rewrite blen_app, !blen_enc_uint.
  change (chunk_size_v2 []) with 0. unfold link_size. blia.
Qed.

Lemma chunk_msgs_size os ls sbBE a b pos r :
  chunk_size_v2 (chunk_msgs os ls sbBE a b (next_link os ls pos r))
  = chunk_size_v2 a + (if is_nil r then 0 else link_size os ls) + chunk_size_v2 b.
Proof.
  destruct r as [|k' r']; cbn [next_link chunk_msgs is_nil].
  - rewrite chunk_size_v2_app. blia.
  - rewrite !chunk_size_v2_app, link_msg_size. blia.
Qed.

Lemma wf_ochk_inv k : wf_ochk k = true ->
  wf_msgs_c (k_a k) = true /\ wf_msgs_c (k_b k) = true /\ blen (k_gap k) < 4 /\ blen (k_ck k) = 4.
Proof.
  unfold wf_ochk. intros H. apply andb_true_iff in H as [H H4]. apply andb_true_iff in H as [H H3].
  apply andb_true_iff in H as [H1 H2]. apply N.ltb_lt in H3. apply N.eqb_eq in H4. auto.
Qed.

Lemma existsb_fresh a vis : Forall (fun v => v < a) vis -> existsb (N.eqb a) vis = false.
Proof.
  induction 1 as [|v l Hv _ IH]; [reflexivity|]. cbn [existsb]. rewrite IH.
  replace (a =? v) with false by (symmetry; apply N.eqb_neq; blia). reflexivity.
Qed.

Section Loop.
Variables (file : bytes) (os ls : N) (sbBE : bool).
Hypothesis Hfile : blen file < 9223372036854775808.
Hypothesis Hos : size_ok os = true.
Hypothesis Hls : size_ok ls = true.
Hypothesis Hfo : blen file < 256 ^ os.
Hypothesis Hfl : blen file < 256 ^ ls.

Notation LOOP fuel isCont cur E pend vis := (v2_loop_c fuel file os ls false sbBE 4 isCont cur E pend vis).

(* one message header and its data are read *)
Lemma loop_read fuel isCont cur E pend vis ty (data : bytes) :
  file_at file cur ([ty] ++ le 2 (blen data) ++ [0] ++ data) ->
  1 <= blen data < 65536 -> cur + 6 <= blen file ->
  cur < E -> (isCont = true -> cur + 4 <= E) ->
  LOOP (S fuel) isCont cur E pend vis =
    (let m := {| hmp_type := ty; hmp_offset := cur; hmp_data := data |} in
     let next := cur + 4 + blen data in
     if ty =? MSG_CONT then
       c <- parse_cont os ls sbBE data;;
       let a := fst c in let s := snd c in
       if (s <? 8) || existsb (N.eqb a) vis || (1024 <=? N.of_nat (length vis)) then Err else
       if negb (readable file a 4) then Err else
       sig <- slice file a (a + 4);;
       if negb (bytes_eqb sig OCHK) then Err else
       rest <- LOOP fuel isCont next E (pend ++ [(wrap64 (a + 4), sub64 (wrap64 (a + s)) 4)]) (a :: vis);;
       Ok (m :: rest)
     else
       rest <- LOOP fuel isCont next E pend vis;;
       Ok (m :: rest)).
Proof.
  intros Hat Hd H6 HE HC.
  pose proof (fa_bound _ _ _ Hat) as Hb. rewrite !blen_app, blen_le in Hb.
  change (blen [ty]) with 1 in Hb. change (blen [0]) with 1 in Hb.
  assert (A1 : file_at file cur (ty :: le 2 (blen data) ++ [0] ++ data)) by exact Hat.
  assert (A2 : file_at file (cur + 1) (le 2 (blen data))).
  { apply fa_app_r in Hat. apply fa_app_l in Hat. exact Hat. }
  assert (A3 : file_at file (cur + 4) data).
  { apply fa_app_r in Hat. apply fa_app_r in Hat. apply fa_app_r in Hat.
    eapply fa_eq; [exact Hat|]. rewrite blen_le. change (blen [ty]) with 1. change (blen [0]) with 1. blia. }
  change (N.of_nat 2) with 2 in Hb.
  cbn [v2_loop_c].
  rewrite (wrap64_small (cur + 4)) by blia.
  replace ((cur <? E) && negb (isCont && (E <? cur + 4))) with true.
  2:{ symmetry. apply andb_true_iff. split; [apply N.ltb_lt; auto|].
      destruct isCont; cbn [andb negb]; auto. apply negb_true_iff, N.ltb_ge. auto. }
  unfold readable at 1. replace (cur + 6 <=? blen file) with true by (symmetry; apply N.leb_le; blia).
  cbn [negb]. rewrite (fa_index _ _ _ _ A1). cbn [obind].
  rewrite (fa_rd_le _ _ 2 2 (blen data) A2) by (auto; blia). cbn [obind].
  replace (blen data =? 0) with false by (symmetry; apply N.eqb_neq; blia).
  rewrite (wrap64_small (cur + 4 + blen data)) by blia.
  unfold readable at 1. replace (cur + 4 + blen data <=? blen file) with true by (symmetry; apply N.leb_le; blia).
  cbn [negb]. rewrite (fa_slice _ _ _ _ A3) by reflexivity. cbn [obind]. reflexivity.
Qed.

Lemma enc_msg_v2_shape ty (data : bytes) : ty < 256 -> blen data < 65536 ->
  enc_msg_v2 {| hm_type := ty; hm_data := data |} = [ty] ++ le 2 (blen data) ++ [0] ++ data.
Proof. intros. unfold enc_msg_v2, wrap8, wrap16. cbn [hm_type hm_data]. rewrite !N.mod_small by blia. reflexivity. Qed.

(* a run of ordinary messages *)
Lemma loop_seg ms : forall (fuel : nat) (isCont : bool) (cur E : N) pend vis tail,
  file_at file cur (body_v2 ms) -> wf_msgs_c ms = true ->
  cur + chunk_size_v2 ms + 1 <= blen file ->
  cur + chunk_size_v2 ms <= E + (if isCont then 0 else 4) ->
  LOOP fuel isCont (cur + chunk_size_v2 ms) E pend vis = Ok tail ->
  LOOP (length ms + fuel) isCont cur E pend vis = Ok (msgs_at_v2 ms cur ++ tail).
Proof.
  induction ms as [|m r IH]; intros fuel isCont cur E pend vis tail Hat Hwf Hb HE Ht.
  - change (chunk_size_v2 []) with 0 in Ht. rewrite N.add_0_r in Ht. exact Ht.
  - apply wf_msgs_c_cons in Hwf as (Hty & Hnc & Hd & Hr).
    destruct m as [ty data]. cbn [hm_type hm_data] in *.
    rewrite chunk_size_v2_cons in *. cbn [hm_data] in *.
    unfold body_v2 in Hat. cbn [map concat] in Hat. fold (body_v2 r) in Hat.
    rewrite enc_msg_v2_shape in Hat by blia.
    assert (A : file_at file cur ([ty] ++ le 2 (blen data) ++ [0] ++ data)).
    { rewrite <- !app_assoc in Hat. rewrite !app_assoc in Hat. apply fa_app_l in Hat.
      rewrite <- !app_assoc in Hat. exact Hat. }
    assert (B : file_at file (cur + 4 + blen data) (body_v2 r)).
    { apply fa_app_r in Hat. eapply fa_eq; [exact Hat|]. rewrite !blen_app, blen_le.
      change (blen [ty]) with 1. change (blen [0]) with 1. blia. }
    cbn [length Nat.add msgs_at_v2 hm_type hm_data app].
    rewrite loop_read with (ty := ty) (data := data); auto; try blia.
    2:{ destruct isCont; blia. }
    2:{ intros ->. blia. }
    cbv zeta. rewrite Hnc.
    rewrite (IH fuel isCont (cur + 4 + blen data) E pend vis tail); auto; try blia.
    replace (cur + 4 + blen data + chunk_size_v2 r) with (cur + (4 + blen data + chunk_size_v2 r)) by blia. exact Ht.
Qed.

(* a linking message: the chunk it names is queued *)
Lemma loop_cont fuel isCont cur E pend vis a s tail :
  file_at file cur (enc_msg_v2 (cont_msg os ls sbBE a s)) ->
  cur < E -> (isCont = true -> cur + 4 <= E) ->
  file_at file a OCHK -> 8 <= s -> a + s <= blen file ->
  existsb (N.eqb a) vis = false -> (length vis < 1024)%nat ->
  LOOP fuel isCont (cur + link_size os ls) E (pend ++ [(a + 4, a + s - 4)]) (a :: vis) = Ok tail ->
  LOOP (S fuel) isCont cur E pend vis =
    Ok ({| hmp_type := MSG_CONT; hmp_offset := cur; hmp_data := hm_data (cont_msg os ls sbBE a s) |} :: tail).
Proof.
  intros Hat HE HC Hsig Hs8 Has Hvis Hlen Ht.
  pose proof (size_ok_inv _ Hos). pose proof (size_ok_inv _ Hls).
  set (data := hm_data (cont_msg os ls sbBE a s)) in *.
  assert (Hd : blen data = os + ls).
  { subst data. unfold cont_msg. cbn [hm_data]. rewrite blen_app, !blen_enc_uint. reflexivity. }
  unfold cont_msg in Hat. fold data in Hat || idtac.
  change (enc_msg_v2 {| hm_type := MSG_CONT; hm_data := enc_uint sbBE os a ++ enc_uint sbBE ls s |})
    with (enc_msg_v2 {| hm_type := MSG_CONT; hm_data := data |}) in Hat.
  rewrite enc_msg_v2_shape in Hat by (unfold MSG_CONT; blia).
  pose proof (fa_bound _ _ _ Hat) as Hb. rewrite !blen_app, blen_le in Hb.
  change (blen [MSG_CONT]) with 1 in Hb. change (blen [0]) with 1 in Hb.
  pose proof (fa_bound _ _ _ Hsig) as Hb2. change (blen OCHK) with 4 in Hb2.
  rewrite loop_read with (ty := MSG_CONT) (data := data); auto; try blia.
  cbv zeta. change (MSG_CONT =? MSG_CONT) with true. cbv iota.
  subst data. unfold cont_msg at 1. cbn [hm_data].
  rewrite parse_cont_ok; auto; try blia.
  cbn [obind fst snd].
  replace (s <? 8) with false by (symmetry; apply N.ltb_ge; auto).
  rewrite Hvis.
  replace (1024 <=? N.of_nat (length vis)) with false by (symmetry; apply N.leb_gt; blia).
  cbn [orb]. unfold readable. replace (a + 4 <=? blen file) with true by (symmetry; apply N.leb_le; blia).
  cbn [negb]. rewrite (fa_slice _ _ _ _ Hsig) by reflexivity. cbn [obind].
  change (bytes_eqb OCHK OCHK) with true. cbn [negb].
  rewrite !wrap64_small by blia. rewrite sub64_4 by blia.
  fold (cont_msg os ls sbBE a s). rewrite Hd.
  replace (cur + 4 + (os + ls)) with (cur + link_size os ls) by (unfold link_size; blia).
  rewrite Ht. cbn [obind]. reflexivity.
Qed.

(* the end of a chunk *)
Lemma loop_end_cond isCont cur E : cur + 4 < 18446744073709551616 ->
  (E <= cur \/ (isCont = true /\ E < cur + 4)) ->
  (cur <? E) && negb (isCont && (E <? wrap64 (cur + 4))) = false.
Proof.
  intros Hs [H|[-> H]].
  - replace (cur <? E) with false by (symmetry; apply N.ltb_ge; auto). reflexivity.
  - rewrite wrap64_small by auto. replace (E <? cur + 4) with true by (symmetry; apply N.ltb_lt; auto).
    cbn [andb negb]. apply andb_false_r.
Qed.
Lemma loop_end_nil fuel isCont cur E vis : cur + 4 < 18446744073709551616 ->
  (E <= cur \/ (isCont = true /\ E < cur + 4)) -> LOOP (S fuel) isCont cur E [] vis = Ok [].
Proof. intros Hs H. cbn [v2_loop_c]. rewrite loop_end_cond; auto. Qed.
Lemma loop_end_pop fuel isCont cur E s e vis tail : cur + 4 < 18446744073709551616 ->
  (E <= cur \/ (isCont = true /\ E < cur + 4)) ->
  LOOP fuel true s e [] vis = Ok tail -> LOOP (S fuel) isCont cur E [(s, e)] vis = Ok tail.
Proof. intros Hs H Ht. cbn [v2_loop_c]. rewrite loop_end_cond; auto. Qed.

(* a whole chunk without linking message, nothing queued *)
Lemma loop_chunk_last (fuel : nat) (isCont : bool) (cur E : N) vis ms :
  file_at file cur (body_v2 ms) -> wf_msgs_c ms = true ->
  cur + chunk_size_v2 ms + 1 <= blen file ->
  cur + chunk_size_v2 ms <= E + (if isCont then 0 else 4) ->
  (E <= cur + chunk_size_v2 ms \/ (isCont = true /\ E < cur + chunk_size_v2 ms + 4)) ->
  LOOP (length ms + S fuel) isCont cur E [] vis = Ok (msgs_at_v2 ms cur).
Proof.
  intros. rewrite <- (app_nil_r (msgs_at_v2 ms cur)). apply loop_seg; auto.
  apply loop_end_nil; auto. blia.
Qed.

(* a whole chunk with one linking message *)
Lemma loop_chunk_link (fuel : nat) (isCont : bool) (cur E : N) vis ma mb ad sz tail :
  let ms := ma ++ [cont_msg os ls sbBE ad sz] ++ mb in
  file_at file cur (body_v2 ms) -> wf_msgs_c ma = true -> wf_msgs_c mb = true ->
  cur + chunk_size_v2 ms + 1 <= blen file ->
  cur + chunk_size_v2 ms <= E + (if isCont then 0 else 4) ->
  (E <= cur + chunk_size_v2 ms \/ (isCont = true /\ E < cur + chunk_size_v2 ms + 4)) ->
  file_at file ad OCHK -> 8 <= sz -> ad + sz <= blen file ->
  existsb (N.eqb ad) vis = false -> (length vis < 1024)%nat ->
  LOOP fuel true (ad + 4) (ad + sz - 4) [] (ad :: vis) = Ok tail ->
  LOOP (length ma + S (length mb + S fuel)) isCont cur E [] vis = Ok (msgs_at_v2 ms cur ++ tail).
Proof.
  intros ms Hat Hwa Hwb Hb HE Hend Hsig Hs8 Has Hvis Hlen Ht. subst ms.
  pose proof (size_ok_inv _ Hos). pose proof (size_ok_inv _ Hls).
  set (c := cont_msg os ls sbBE ad sz) in *.
  assert (Hc : chunk_size_v2 [c] = link_size os ls).
  { subst c. rewrite chunk_size_v2_cons. unfold cont_msg. cbn [hm_data]. rewrite blen_app, !blen_enc_uint.
    change (chunk_size_v2 []) with 0. unfold link_size. blia. }
  rewrite !chunk_size_v2_app, Hc in *. rewrite !body_v2_app in Hat.
  assert (A1 : file_at file cur (body_v2 ma)) by (apply fa_app_l in Hat; exact Hat).
  assert (A2 : file_at file (cur + chunk_size_v2 ma) (enc_msg_v2 c)).
  { apply fa_app_r in Hat. apply fa_app_l in Hat. rewrite blen_body_v2 in Hat.
    unfold body_v2 in Hat. cbn [map concat] in Hat. rewrite app_nil_r in Hat. exact Hat. }
  assert (A3 : file_at file (cur + chunk_size_v2 ma + link_size os ls) (body_v2 mb)).
  { apply fa_app_r in Hat. apply fa_app_r in Hat. rewrite !blen_body_v2, Hc in Hat. exact Hat. }
  rewrite !msgs_at_v2_app, Hc, <- !app_assoc.
  apply loop_seg; auto; try blia; try (destruct isCont; blia).
  cbn [msgs_at_v2 app]. subst c. unfold cont_msg at 1 2. cbn [hm_type hm_data].
  unfold link_size in *.
  apply loop_cont; auto; try blia; try (destruct isCont; blia); try (intros ->; blia).
  cbn [app]. unfold link_size.
  apply loop_seg; auto; try blia; try (destruct isCont; blia).
  apply loop_end_pop; auto; try blia.
  destruct Hend as [Hend|[-> Hend]]; [left|right; split; auto]; blia.
Qed.


(* ---- the chain of continuation chunks ---- *)

Fixpoint ochk_fuel (ks : list ochk) : nat :=
  match ks with
  | [] => O
  | k :: r => match r with
              | [] => length (k_a k ++ k_b k) + S O
              | _ :: _ => length (k_a k) + S (length (k_b k) + S (ochk_fuel r))
              end
  end.

(* what the file holds where a chain of continuation chunks starts *)
Lemma ochk_head pos k r :
  file_at file pos (build_ochks os ls sbBE pos (k :: r)) -> wf_ochk k = true ->
  let addr := pos + blen (k_between k) in
  let size := ochk_size os ls k (is_nil r) in
  let ms := chunk_msgs os ls sbBE (k_a k) (k_b k) (next_link os ls (addr + size) r) in
  file_at file addr OCHK /\ file_at file (addr + 4) (body_v2 ms) /\ addr + size <= blen file /\
  chunk_size_v2 ms + blen (k_gap k) + 8 = size /\ 8 <= size /\
  file_at file (addr + size) (build_ochks os ls sbBE (addr + size) r).
Proof.
  intros Hat Hwf addr size ms.
  apply wf_ochk_inv in Hwf as (_ & _ & Hg & Hck).
  cbn [build_ochks] in Hat. fold addr size ms in Hat.
  apply fa_app_r in Hat. fold addr in Hat.
  assert (Hsz : chunk_size_v2 ms + blen (k_gap k) + 8 = size).
  { subst ms size. rewrite chunk_msgs_size. unfold ochk_size. blia. }
  assert (Hbl : blen (enc_ochk ms (k_gap k) (k_ck k)) = size).
  { unfold enc_ochk. rewrite !blen_app, blen_body_v2, Hck. change (blen OCHK) with 4. blia. }
  pose proof (fa_app_l _ _ _ _ Hat) as H1. pose proof (fa_app_r _ _ _ _ Hat) as H2. rewrite Hbl in H2.
  pose proof (fa_bound _ _ _ H1) as Hb. rewrite Hbl in Hb.
  unfold enc_ochk in H1.
  repeat split; auto; try blia.
  - apply fa_app_l in H1. exact H1.
  - apply fa_app_r in H1. apply fa_app_l in H1. exact H1.
Qed.

Lemma ochks_loop : forall r k pos vis,
  file_at file pos (build_ochks os ls sbBE pos (k :: r)) ->
  forallb wf_ochk (k :: r) = true ->
  Forall (fun v => v < pos + blen (k_between k) + 1) vis ->
  (length vis + length r <= 1024)%nat ->
  LOOP (ochk_fuel (k :: r)) true (pos + blen (k_between k) + 4)
       (pos + blen (k_between k) + ochk_size os ls k (is_nil r) - 4) [] vis
  = Ok (msgs_ochks os ls sbBE pos (k :: r)).
Proof.
  induction r as [|k' r' IH]; intros k pos vis Hat Hwf Hvis Hlen.
  - cbn [forallb] in Hwf. apply andb_true_iff in Hwf as [Hk _].
    destruct (ochk_head pos k [] Hat Hk) as (Hsig & Hbody & Hb & Hsz & Hs8 & _).
    apply wf_ochk_inv in Hk as (Hwa & Hwb & Hg & Hck).
    cbn [msgs_ochks is_nil next_link chunk_msgs ochk_fuel] in *. rewrite app_nil_r.
    apply loop_chunk_last; auto; try blia;
      try (rewrite wf_msgs_c_app, Hwa, Hwb; reflexivity); try (right; split; auto; blia).
  - cbn [forallb] in Hwf. apply andb_true_iff in Hwf as [Hk Hr].
    destruct (ochk_head pos k (k' :: r') Hat Hk) as (Hsig & Hbody & Hb & Hsz & Hs8 & Hnext).
    pose proof Hr as Hr0. cbn [forallb] in Hr0. apply andb_true_iff in Hr0 as [Hk' _].
    destruct (ochk_head _ k' r' Hnext Hk') as (Hsig' & _ & Hb' & _ & Hs8' & _).
    apply wf_ochk_inv in Hk as (Hwa & Hwb & Hg & Hck).
    cbn [msgs_ochks is_nil ochk_fuel] in *.
    set (addr := pos + blen (k_between k)) in *.
    set (size := ochk_size os ls k false) in *.
    cbn [next_link chunk_msgs fst snd] in *.
    set (ad := addr + size + blen (k_between k')) in *.
    set (sz := ochk_size os ls k' (is_nil r')) in *.
    apply loop_chunk_link; auto; try blia;
      try (right; split; auto; blia);
      try (apply existsb_fresh; eapply Forall_impl; [|exact Hvis]; cbn beta; intros v Hv; blia);
      try (cbn [length] in Hlen; blia).
    apply IH; auto.
    + constructor; [blia|]. eapply Forall_impl; [|exact Hvis]. cbn beta. intros v Hv. blia.
    + cbn [length] in *. blia.
Qed.

Lemma ochk_fuel_bound : forall ks pos, forallb wf_ochk ks = true ->
  N.of_nat (ochk_fuel ks) <= blen (build_ochks os ls sbBE pos ks).
Proof.
  induction ks as [|k r IH]; intros pos Hwf; [cbn; blia|].
  cbn [forallb] in Hwf. apply andb_true_iff in Hwf as [Hk Hr].
  apply wf_ochk_inv in Hk as (_ & _ & _ & Hck).
  cbn [build_ochks]. unfold enc_ochk. rewrite !blen_app, blen_body_v2, chunk_msgs_size, Hck.
  change (blen OCHK) with 4.
  pose proof (length_le_chunk (k_a k)). pose proof (length_le_chunk (k_b k)).
  specialize (IH (pos + blen (k_between k) + ochk_size os ls k (is_nil r)) Hr).
  destruct r as [|k' r']; cbn [ochk_fuel is_nil] in *.
  - rewrite app_length. blia.
  - unfold link_size. blia.
Qed.

End Loop.
