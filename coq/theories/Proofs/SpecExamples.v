(* C05: the specification decoders on bytes of files written by the REFERENCE library (copied from /repo/testdata/hdf5_official):
   the strict decoders accept them.  This validates the reading of the specification in Spec/Format*.v against files this
   library did not write (the tie repeats it on about 2000 structures of 300 reference files every run). *)
From HV Require Import Base.Prelude Base.Outcome Base.Bytes Spec.Lookup3 Spec.Parse Spec.Format Spec.FormatMsg Spec.FormatNode.

Definition ok3 {A B C} (o : outcome (A * B * C)) : bool := match o with Ok _ => true | _ => false end.
Definition ok2 {A B} (o : outcome (A * B)) : bool := match o with Ok _ => true | _ => false end.
Definition ok1 {A} (o : outcome A) : bool := match o with Ok _ => true | _ => false end.

(* h5clear_sec2_v0.h5: superblock version 0 (bytes 0..96) *)
Definition ref_sb0 := unhex "894844460d0a1a0a000000000008080004001000010000000000000000000000ffffffffffffffff2003000000000000ffffffffffffffff0000000000000000600000000000000001000000000000008800000000000000a802000000000000".
Example ref_superblock_v0 :
  match spec_dec_superblock strict ref_sb0 with
  | Ok (s, [], []) => (sbs_version s =? 0) && (sbs_O s =? 8) && (sbs_leafK s =? 4) && (sbs_intK s =? 16) && (sbs_eof s =? 800) &&
                      (sbs_root s =? 96) && (sbs_flags s =? 1)
  | _ => false
  end = true.
Proof. vm_compute. reflexivity. Qed.

(* btree_idx_1_8.h5: superblock version 2; bounds_latest_latest.h5: version 3.  The checksum is lookup3. *)
Definition ref_sb2 := unhex "894844460d0a1a0a020808000000000000000000ffffffffffffffffc91300000000000030000000000000008c46c9cf".
Definition ref_sb3 := unhex "894844460d0a1a0a030808000000000000000000ffffffffffffffff80400100000000003000000000000000e1f03b12".
Example ref_superblock_v2 :
  match spec_dec_superblock strict ref_sb2 with
  | Ok (s, [], []) => (sbs_version s =? 2) && (sbs_eof s =? 5065) && (sbs_root s =? 48) && (sbs_ext s =? undef 8)
  | _ => false
  end = true.
Proof. vm_compute. reflexivity. Qed.
Example ref_superblock_v3 :
  match spec_dec_superblock strict ref_sb3 with Ok (s, [], []) => (sbs_version s =? 3) && (sbs_root s =? 48) | _ => false end = true.
Proof. vm_compute. reflexivity. Qed.
Example ref_superblock_checksum_is_lookup3 : hashlittle (firstn 44 ref_sb2) 0 = unle (skipn 44 ref_sb2).
Proof. vm_compute. reflexivity. Qed.

(* h5clear_sec2_v0.h5: root object header (version 1), local heap header, group B-tree root; 1_a.h5: symbol table node *)
Example ref_ohdr1 :
  match spec_dec_ohdr1 (unhex "0100010001000000180000000000000011001000000000008800000000000000a802000000000000") with
  | Ok (h, []) => (o1_nmsgs h =? 1) && (o1_refcount h =? 1) && (o1_size h =? 24) &&
                  match o1_msgs h with [m] => (ms_type m =? 17) && ok1 (spec_dec_symtab 8 true (ms_data m)) | _ => false end
  | _ => false
  end = true.
Proof. vm_compute. reflexivity. Qed.
Example ref_lheap :
  spec_dec_lheap 8 8 (unhex "484541500000000058000000000000000800000000000000c802000000000000")
  = Ok ({| lh_size := 88; lh_free := 8; lh_addr := 712 |}, []).
Proof. vm_compute. reflexivity. Qed.
Example ref_btree1 :
  ok3 (spec_dec_btree1 strict 8 8 0 0 16 (unhex "5452454500000000ffffffffffffffffffffffffffffffff0000000000000000")) = true.
Proof. vm_compute. reflexivity. Qed.
Example ref_snod :
  match spec_dec_snod strict 8 4 (unhex "534e4f440100010008000000000000002003000000000000000000000000000000000000000000000000000000000000") with
  | Ok ([e], [], []) => (se_name_off e =? 8) && (se_obj e =? 800)
  | _ => false
  end = true.
Proof. vm_compute. reflexivity. Qed.

(* bounds_latest_latest.h5: version 2 object header with times and a lookup3 checksum; its link message;
   h5fc_ext_none.h5: continuation chunk *)
Definition ref_ohdr2 := unhex "4f4844520220f6f60d5af6f60d5af6f60d5af6f60d5a78021200000000ffffffffffffffffffffffffffffffff0a0200010000061e000001001344535f6368756e6b65645f6c61796f75745f34c30000000000000000360000000000000000000000000000000000000000000000000000000000000000000000000000000000000000000000000000000000000000729afad8".
Example ref_ohdr_v2 :
  match spec_dec_ohdr2 strict ref_ohdr2 with
  | Ok (h, [], []) => (o2_flags h =? 32) && (o2_chunk0 h =? 120) && bytes_eqb (map ms_type (o2_msgs h)) [2; 10; 6; 0]
  | _ => false
  end = true.
Proof. vm_compute. reflexivity. Qed.
Example ref_link :
  match spec_dec_link strict 8 false (unhex "01001344535f6368756e6b65645f6c61796f75745f34c300000000000000") with
  | Ok (l, []) => match ls_value l with LHard 195 => true | _ => false end
  | _ => false
  end = true.
Proof. vm_compute. reflexivity. Qed.
Example ref_ochk :
  match spec_dec_ochk strict false (unhex "4f43484b10100000c21d000000000000340000000000000006120000010007445345545f46411c19000000000000826a9b8a") with
  | Ok (ms, []) => bytes_eqb (map ms_type ms) [16; 6]
  | _ => false
  end = true.
Proof. vm_compute. reflexivity. Qed.

(* messages of version 1 headers (padded to 8 bytes): 1_b.h5 deflate pipeline (version 1: odd number of client values padded),
   be_data.h5 big-endian IEEE double and a chunked layout, h5diff_attr1.h5 variable-length sequence of int32,
   tattr4_be.h5 attribute info, tattr.h5 dataspace *)
Example ref_pipeline_v1 :
  spec_dec_pipeline strict true (unhex "010100000000000001000800010001006465666c617465000700000000000000")
  = Ok ([{| fl_id := 1; fl_flags := 1; fl_name := [100; 101; 102; 108; 97; 116; 101; 0]; fl_cd := [7] |}], []).
Proof. vm_compute. reflexivity. Qed.
Example ref_float_be :
  spec_dec_datatype strict true (unhex "11213f000800000000004000340b0034ff03000000000000")
  = Ok (DFloat 1 8 1 0 2 63 0 64 52 11 0 52 1023, []).
Proof. vm_compute. reflexivity. Qed.
Example ref_vlen :
  spec_dec_datatype strict true (unhex "1900000010000000100800000400000000002000")
  = Ok (DVlen 1 16 0 0 0 (DFixed 1 4 0 0 0 true 0 32), []).
Proof. vm_compute. reflexivity. Qed.
Example ref_layout_chunked :
  spec_dec_layout 8 8 true (unhex "030203784b00000000000004000000030000000100000000") = Ok (LyChunked 19320 [4; 3; 1]).
Proof. vm_compute. reflexivity. Qed.
Example ref_attrinfo :
  spec_dec_attrinfo 8 false (unhex "0000f2020000000000008403000000000000")
  = Ok {| ais_flags := 0; ais_maxcidx := None; ais_heap := 754; ais_btname := 900; ais_btorder := None |}.
Proof. vm_compute. reflexivity. Qed.
Example ref_dataspace :
  spec_dec_dataspace 8 true (unhex "01010000000000001800000000000000")
  = Ok {| dss_version := 1; dss_type := 1; dss_dims := [24]; dss_maxdims := None |}.
Proof. vm_compute. reflexivity. Qed.
(* tattrintsize.h5: a version 1 attribute (uint8 [8] data), names and types padded to 8 bytes *)
Example ref_attribute_v1 :
  match spec_dec_attribute strict 8 true (unhex "010009000c002800445530384249545300000000000000001000000001000000000008000000000001020100000000000800000000000000080000000000000008000000000000000800000000000000fffefcf8f0e0c080fefcf8f0e0c08000fcf8f0e0c0800000f8f0e0c080000000f0e0c08000000000e0c0800000000000c0800000000000008000000000000000") with
  | Ok (a, []) => bytes_eqb (as_name a) (ascii_bytes "DU08BITS") && (dtype_size (as_dtype a) =? 1) && (blen (as_data a) =? 64)
  | _ => false
  end = true.
Proof. vm_compute. reflexivity. Qed.
