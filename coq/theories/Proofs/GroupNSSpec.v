(* C03: facts about the specification tree alone.  One insertion (a new child under an existing
   group, possibly together with a fresh leaf / empty group) described by its effect on lookups;
   how path resolution and the preorder of group ids change; the invariant SInv of every tree
   produced by admissible histories (closed, ids below the clock, a group's id below the ids of
   its sub-groups, no group listed twice in preorder). *)
From HV Require Import Base.Prelude Model.GroupNS Proofs.GroupNSBase Proofs.GroupNSHeap Proofs.GroupNSPath.

Definition nodes := list (N * snode).
Definition is_group (t : nodes) (g : N) : Prop := exists ch, alookup g t = Some (SG ch).
Definition is_leaf_node (nd : snode) : Prop := match nd with SG ch => ch = [] | _ => True end.

(* preorder of the group ids in the unfolding of id *)
Fixpoint gpre (fuel : nat) (t : nodes) (id : N) : list N :=
  match fuel with
  | O => []
  | S f => match alookup id t with
           | Some (SG ch) => id :: flat_map (fun nc => gpre f t (snd nc)) ch
           | _ => []
           end
  end.

Record SInv (t : stree) : Prop := {
  s_root : is_group (s_nodes t) 0;
  s_bound : forall id, alookup id (s_nodes t) <> None -> id < s_clock t;
  s_closed : forall g ch n c, alookup g (s_nodes t) = Some (SG ch) -> In (n, c) ch -> alookup c (s_nodes t) <> None;
  s_order : forall g ch n c ch', alookup g (s_nodes t) = Some (SG ch) -> In (n, c) ch ->
            alookup c (s_nodes t) = Some (SG ch') -> g < c;
  s_tree : forall f, NoDup (gpre f (s_nodes t) 0);
  s_pos : 0 < s_clock t
}.

Lemma sinv_empty : SInv s_empty.
Proof.
  constructor; cbn [s_empty s_nodes s_clock].
  - exists []. reflexivity.
  - intros id H. cbn [alookup] in H. destruct (0 =? id) eqn:E; [apply N.eqb_eq in E; lia | contradiction].
  - intros g ch n c H I. cbn [alookup] in H. destruct (0 =? g); [|discriminate]. inversion H; subst. contradiction.
  - intros g ch n c ch' H I. cbn [alookup] in H. destruct (0 =? g); [|discriminate]. inversion H; subst. contradiction.
  - intros [|f]; cbn [gpre alookup]; [constructor|]. rewrite N.eqb_refl. cbn [flat_map]. constructor; [intros [] | constructor].
  - lia.
Qed.

Lemma sinv_tick : forall t, SInv t -> SInv (s_tick t (s_nodes t)).
Proof.
  intros t [A B C D E F]. constructor; cbn [s_tick s_nodes s_clock]; try assumption.
  - intros id H. specialize (B id H). lia.
  - lia.
Qed.

(* ---------------------------------------------------------------- one insertion, by its lookups *)
(* t' = t with (n, child) appended to group g (whose children were ch), and optionally a fresh node *)
Definition upd (t t' : nodes) (g : N) (ch : list (name * N)) (n : name) (child : N) (fresh : option (N * snode)) : Prop :=
  forall k, alookup k t' =
    if g =? k then Some (SG (ch ++ [(n, child)]))
    else match fresh with
         | Some (id, nd) => if id =? k then Some nd else alookup k t
         | None => alookup k t
         end.

Lemma upd_aset : forall t g ch n child, upd t (aset g (SG (ch ++ [(n, child)])) t) g ch n child None.
Proof. intros t g ch n child k. rewrite alookup_aset. reflexivity. Qed.
Lemma upd_aset_fresh : forall t g ch n id nd, g <> id ->
  upd t (aset id nd (aset g (SG (ch ++ [(n, id)])) t)) g ch n id (Some (id, nd)).
Proof.
  intros t g ch n id nd H k. rewrite !alookup_aset. destruct (g =? k) eqn:E1, (id =? k) eqn:E2; try reflexivity.
  apply N.eqb_eq in E1, E2. congruence.
Qed.

(* the side conditions under which the lemmas below describe an insertion *)
Record UpdOk (t t' : nodes) (g : N) (ch : list (name * N)) (n : name) (child : N) (fresh : option (N * snode)) : Prop := {
  u_upd : upd t t' g ch n child fresh;
  u_g : alookup g t = Some (SG ch);
  u_n : clookup n ch = None;
  (* a fresh node is the child itself, is not yet in the tree, and has no children *)
  u_fresh : match fresh with
            | Some (id, nd) => id = child /\ alookup id t = None /\ is_leaf_node nd
            | None => alookup child t <> None
            end;
  u_closed : forall g0 ch0 n0 c0, alookup g0 t = Some (SG ch0) -> In (n0, c0) ch0 -> alookup c0 t <> None
}.

Section Upd.
  Variables (t t' : nodes) (g : N) (ch : list (name * N)) (n : name) (child : N) (fresh : option (N * snode)).
  Hypothesis HU : UpdOk t t' g ch n child fresh.
  Ltac hu := pose proof HU as [U Hg Hn Hfresh Hclosed].

  Lemma upd_old : forall k, alookup k t <> None -> k <> g -> alookup k t' = alookup k t.
  Proof.
    hu.
    intros k Hk Hne. rewrite U. destruct (g =? k) eqn:E; [apply N.eqb_eq in E; congruence|].
    destruct fresh as [[id nd]|]; [|reflexivity]. destruct Hfresh as (_ & Hid & _).
    destruct (id =? k) eqn:E2; [apply N.eqb_eq in E2; subst; contradiction | reflexivity].
  Qed.
  Lemma upd_g : alookup g t' = Some (SG (ch ++ [(n, child)])).
  Proof. hu. rewrite U, N.eqb_refl. reflexivity. Qed.
  Lemma upd_in_t' : forall k, alookup k t <> None -> alookup k t' <> None.
  Proof.
    hu.
    intros k Hk. destruct (N.eq_dec k g) as [->|Hne]; [rewrite upd_g; discriminate|]. rewrite upd_old; assumption.
  Qed.
  Lemma upd_group_old : forall k, is_group t k -> is_group t' k.
  Proof.
    hu.
    intros k [c0 Hk]. destruct (N.eq_dec k g) as [->|Hne]; [eexists; apply upd_g|].
    exists c0. rewrite upd_old; [assumption | congruence | assumption].
  Qed.

  (* existing resolutions survive *)
  Lemma sresolve_mono : forall cs x y, alookup x t <> None -> sresolve t x cs = Some y -> sresolve t' x cs = Some y.
  Proof.
    hu.
    induction cs as [|m cs IH]; intros x y Hx H; [assumption|]. cbn [sresolve] in *.
    destruct (alookup x t) as [[chx| |]|] eqn:Lx; try discriminate.
    destruct (clookup m chx) as [c1|] eqn:Lm; [|discriminate].
    assert (Hc1 : alookup c1 t <> None) by (eapply Hclosed; [eassumption | apply clookup_In; eassumption]).
    destruct (N.eq_dec x g) as [->|Hne].
    - rewrite upd_g. rewrite Hg in Lx. inversion Lx; subst. rewrite clookup_app, Lm. apply IH; assumption.
    - rewrite upd_old by (congruence || assumption). rewrite Lx, Lm. apply IH; assumption.
  Qed.

  (* a resolution in t' is an old one, or goes through the new edge *)
  Lemma sresolve_new : forall cs x y, alookup x t <> None -> sresolve t' x cs = Some y ->
    sresolve t x cs = Some y \/
    exists pre post, cs = pre ++ n :: post /\ sresolve t x pre = Some g /\ sresolve t' child post = Some y.
  Proof.
    hu.
    induction cs as [|m cs IH]; intros x y Hx H; [left; assumption|]. cbn [sresolve] in H.
    destruct (N.eq_dec x g) as [->|Hne].
    - rewrite upd_g in H. rewrite clookup_app in H. destruct (clookup m ch) as [c1|] eqn:Lm.
      + assert (Hc1 : alookup c1 t <> None) by (eapply Hclosed; [eassumption | apply clookup_In; eassumption]).
        destruct (IH c1 y Hc1 H) as [L|(pre & post & E1 & E2 & E3)].
        * left. cbn [sresolve]. rewrite Hg, Lm. assumption.
        * right. exists (m :: pre), post. split; [cbn; congruence|]. split; [cbn [sresolve]; rewrite Hg, Lm; assumption | assumption].
      + cbn [clookup] in H. destruct (bytes_eqb n m) eqn:E; [|discriminate]. apply bytes_eqb_eq in E. subst m.
        right. exists [], cs. split; [reflexivity|]. split; [reflexivity | assumption].
    - rewrite upd_old in H by assumption.
      destruct (alookup x t) as [[chx| |]|] eqn:Lx; try discriminate.
      destruct (clookup m chx) as [c1|] eqn:Lm; [|discriminate].
      assert (Hc1 : alookup c1 t <> None) by (eapply Hclosed; [eassumption | apply clookup_In; eassumption]).
      destruct (IH c1 y Hc1 H) as [L|(pre & post & E1 & E2 & E3)].
      + left. cbn [sresolve]. rewrite Lx, Lm. assumption.
      + right. exists (m :: pre), post. split; [cbn; congruence|]. split; [cbn [sresolve]; rewrite Lx, Lm; assumption | assumption].
  Qed.

  (* the new edge itself *)
  Lemma sresolve_edge : forall pcs, sresolve t 0 pcs = Some g -> alookup 0 t <> None -> sresolve t' 0 (pcs ++ [n]) = Some child.
  Proof.
    hu.
    intros pcs H H0. assert (G : forall cs x, alookup x t <> None -> sresolve t x cs = Some g -> sresolve t' x (cs ++ [n]) = Some child).
    { induction cs as [|m cs IH]; intros x Hx Hr.
      - cbn [sresolve] in Hr. inversion Hr; subst. cbn [app sresolve]. rewrite upd_g, clookup_app, Hn.
        cbn [clookup]. rewrite bytes_eqb_refl. reflexivity.
      - cbn [sresolve] in Hr. destruct (alookup x t) as [[chx| |]|] eqn:Lx; try discriminate.
        destruct (clookup m chx) as [c1|] eqn:Lm; [|discriminate].
        assert (Hc1 : alookup c1 t <> None) by (eapply Hclosed; [eassumption | apply clookup_In; eassumption]).
        cbn [app sresolve]. destruct (N.eq_dec x g) as [->|Hne].
        + rewrite upd_g. rewrite Hg in Lx. inversion Lx; subst. rewrite clookup_app, Lm. apply IH; assumption.
        + rewrite upd_old by (congruence || assumption). rewrite Lx, Lm. apply IH; assumption. }
    apply G; assumption.
  Qed.

  (* resolving anything below a leaf child fails *)
  Lemma sresolve_leaf : forall post y, (forall chc, alookup child t' = Some (SG chc) -> chc = []) ->
    sresolve t' child post = Some y -> post = [] /\ y = child.
  Proof.
    hu.
    intros post y Hleaf H. destruct post as [|m post]; [cbn in H; inversion H; auto|]. exfalso.
    cbn [sresolve] in H. destruct (alookup child t') as [[chc| |]|] eqn:L; try discriminate.
    rewrite (Hleaf chc eq_refl) in H. discriminate.
  Qed.
End Upd.

(* ---------------------------------------------------------------- preorder under an insertion *)
Definition cnt (y : N) (l : list N) : nat := count_occ N.eq_dec l y.

Lemma cnt_app : forall y a b, cnt y (a ++ b) = (cnt y a + cnt y b)%nat.
Proof. intros. unfold cnt. apply count_occ_app. Qed.
Lemma cnt_cons : forall y x l, cnt y (x :: l) = ((if N.eq_dec x y then 1 else 0) + cnt y l)%nat.
Proof. intros. unfold cnt. cbn [count_occ]. destruct (N.eq_dec x y); reflexivity. Qed.

Lemma cnt_flat_map_eq : forall A (F G : A -> list N) y l, (forall a, In a l -> cnt y (F a) = cnt y (G a)) ->
  cnt y (flat_map F l) = cnt y (flat_map G l).
Proof.
  induction l as [|a l IH]; intro H; [reflexivity|]. cbn [flat_map]. rewrite !cnt_app.
  rewrite (H a (or_introl eq_refl)), IH; [reflexivity|]. intros b Hb. apply H. right. assumption.
Qed.
Lemma cnt_flat_map_le : forall A (F G : A -> list N) y z l, (forall a, In a l -> (cnt y (F a) <= cnt z (G a))%nat) ->
  (cnt y (flat_map F l) <= cnt z (flat_map G l))%nat.
Proof.
  induction l as [|a l IH]; intro H; [cbn; lia|]. cbn [flat_map]. rewrite !cnt_app.
  pose proof (H a (or_introl eq_refl)). assert ((cnt y (flat_map F l) <= cnt z (flat_map G l))%nat) by (apply IH; intros b Hb; apply H; right; assumption).
  lia.
Qed.

Lemma flat_map_ext_in : forall A B (f g : A -> list B) l, (forall a, In a l -> f a = g a) -> flat_map f l = flat_map g l.
Proof.
  induction l as [|a l IH]; intro H; [reflexivity|]. cbn [flat_map]. rewrite (H a (or_introl eq_refl)), IH; [reflexivity|].
  intros b Hb. apply H. right. assumption.
Qed.

Section UpdPre.
  Variables (t t' : nodes) (g : N) (ch : list (name * N)) (n : name) (child : N) (fresh : option (N * snode)).
  Hypothesis HU : UpdOk t t' g ch n child fresh.
  Ltac hu2 := pose proof HU as [U Hg Hn Hfresh Hclosed].

  (* the new child is not a group: the preorder of groups does not change *)
  Lemma gpre_upd_leaf : (forall chc, alookup child t' <> Some (SG chc)) ->
    forall f x, alookup x t <> None -> gpre f t' x = gpre f t x.
  Proof.
    hu2.
    intros Hleaf. induction f as [|f IH]; intros x Hx; [reflexivity|]. cbn [gpre].
    destruct (N.eq_dec x g) as [->|Hne].
    - rewrite (upd_g _ _ _ _ _ _ _ HU), Hg. f_equal. rewrite flat_map_app. cbn [flat_map snd]. rewrite app_nil_r.
      replace (gpre f t' child) with (@nil N).
      + rewrite app_nil_r. apply flat_map_ext_in. intros [n0 c0] I. cbn [snd]. apply IH. eapply Hclosed; eassumption.
      + destruct f; [reflexivity|]. cbn [gpre]. destruct (alookup child t') as [[chc| |]|] eqn:L; try reflexivity.
        exfalso. apply (Hleaf chc). reflexivity.
    - rewrite (upd_old _ _ _ _ _ _ _ HU x Hx Hne).
      destruct (alookup x t) as [[chx| |]|] eqn:Lx; try reflexivity. f_equal.
      apply flat_map_ext_in. intros [n0 c0] I. cbn [snd]. apply IH. eapply Hclosed; eassumption.
  Qed.

  (* the new child is a fresh empty group *)
  Lemma gpre_upd_group : alookup child t' = Some (SG []) -> alookup child t = None ->
    forall f x, alookup x t <> None ->
      (forall y, y <> child -> cnt y (gpre f t' x) = cnt y (gpre f t x)) /\
      (cnt child (gpre f t' x) <= cnt g (gpre f t x))%nat.
  Proof.
    hu2.
    intros Hc' Hc. induction f as [|f IH]; intros x Hx; [split; [reflexivity | cbn; lia]|].
    assert (Hxc : x <> child) by (intro; subst; contradiction).
    cbn [gpre]. destruct (N.eq_dec x g) as [->|Hne].
    - rewrite (upd_g _ _ _ _ _ _ _ HU), Hg. rewrite flat_map_app. cbn [flat_map snd]. rewrite app_nil_r.
      assert (Hkid : gpre f t' child = match f with O => [] | S _ => [child] end).
      { destruct f; [reflexivity|]. cbn [gpre]. rewrite Hc'. reflexivity. }
      split.
      + intros y Hy. rewrite !cnt_cons, !cnt_app. f_equal. rewrite Hkid.
        replace (cnt y (match f with O => [] | S _ => [child] end)) with 0%nat
          by (destruct f; [reflexivity | rewrite cnt_cons; destruct (N.eq_dec child y); [congruence | reflexivity]]).
        rewrite Nat.add_0_r. apply cnt_flat_map_eq. intros [n0 c0] I. cbn [snd].
        apply (proj1 (IH c0 (Hclosed _ _ _ _ Hg I))). assumption.
      + rewrite !cnt_cons, !cnt_app. destruct (N.eq_dec g child) as [X|_]; [congruence|]. destruct (N.eq_dec g g) as [_|X]; [|congruence].
        assert ((cnt child (flat_map (fun nc => gpre f t' (snd nc)) ch) <= cnt g (flat_map (fun nc => gpre f t (snd nc)) ch))%nat).
        { apply cnt_flat_map_le. intros [n0 c0] I. cbn [snd]. apply (proj2 (IH c0 (Hclosed _ _ _ _ Hg I))). }
        assert ((cnt child (gpre f t' child) <= 1)%nat).
        { rewrite Hkid. destruct f; [cbn; lia|]. rewrite cnt_cons. destruct (N.eq_dec child child); cbn; lia. }
        lia.
    - rewrite (upd_old _ _ _ _ _ _ _ HU x Hx Hne).
      destruct (alookup x t) as [[chx| |]|] eqn:Lx; try (split; [reflexivity | cbn; lia]). split.
      + intros y Hy. rewrite !cnt_cons. f_equal. apply cnt_flat_map_eq. intros [n0 c0] I. cbn [snd].
        apply (proj1 (IH c0 (Hclosed _ _ _ _ Lx I))). assumption.
      + rewrite !cnt_cons. destruct (N.eq_dec x child) as [X|_]; [congruence|].
        assert ((cnt child (flat_map (fun nc => gpre f t' (snd nc)) chx) <= cnt g (flat_map (fun nc => gpre f t (snd nc)) chx))%nat).
        { apply cnt_flat_map_le. intros [n0 c0] I. cbn [snd]. apply (proj2 (IH c0 (Hclosed _ _ _ _ Lx I))). }
        lia.
  Qed.
End UpdPre.

(* ---------------------------------------------------------------- SInv is preserved by an admissible insertion *)
Lemma sinv_upd : forall t nodes' g ch n child fresh,
  SInv t -> upd (s_nodes t) nodes' g ch n child fresh -> alookup g (s_nodes t) = Some (SG ch) ->
  clookup n ch = None ->
  match fresh with
  | Some (id, nd) => id = child /\ id = s_clock t /\ is_leaf_node nd
  | None => alookup child (s_nodes t) = Some SD
  end ->
  SInv (s_tick t nodes').
Proof.
  intros t nodes' g ch n child fresh I U Hg Hn Hf.
  assert (Hgb : g < s_clock t) by (apply (s_bound _ I); rewrite Hg; discriminate).
  assert (Hfresh : match fresh with
                   | Some (id, nd) => id = child /\ alookup id (s_nodes t) = None /\ is_leaf_node nd
                   | None => alookup child (s_nodes t) <> None end).
  { destruct fresh as [[id nd]|]; [|rewrite Hf; discriminate]. destruct Hf as (A & B & C). repeat split; try assumption.
    destruct (alookup id (s_nodes t)) eqn:L; [|reflexivity]. exfalso.
    assert (id < s_clock t) by (apply (s_bound _ I); rewrite L; discriminate). lia. }
  pose proof (s_closed _ I) as Hclosed.
  assert (HU : UpdOk (s_nodes t) nodes' g ch n child fresh) by (constructor; assumption).
  assert (Hchild : forall chc, alookup child nodes' = Some (SG chc) -> chc = [] /\ exists id nd, fresh = Some (id, nd)).
  { intros chc L. rewrite U in L. destruct (g =? child) eqn:E.
    - apply N.eqb_eq in E. subst child. destruct fresh as [[id nd]|].
      + destruct Hf as (A & B & _). lia.
      + rewrite Hg in Hf. discriminate.
    - destruct fresh as [[id nd]|].
      + destruct Hf as (A & B & C). subst id. rewrite N.eqb_refl in L. inversion L; subst. cbn in C. split; eauto.
      + rewrite Hf in L. discriminate. }
  constructor; cbn [s_tick s_nodes s_clock].
  - apply (upd_group_old _ _ _ _ _ _ _ HU). apply (s_root _ I).
  - intros id H. rewrite U in H. destruct (g =? id) eqn:E; [apply N.eqb_eq in E; subst; lia|].
    destruct fresh as [[id0 nd]|].
    + destruct (id0 =? id) eqn:E2; [apply N.eqb_eq in E2; destruct Hf as (_ & B & _); lia|]. specialize (s_bound _ I id H). lia.
    + specialize (s_bound _ I id H). lia.
  - intros g0 ch0 n0 c0 L In0. rewrite U in L. destruct (g =? g0) eqn:E.
    + inversion L; subst ch0. apply in_app_or in In0. destruct In0 as [In0|[In0|[]]].
      * apply (upd_in_t' _ _ _ _ _ _ _ HU). eapply Hclosed; eassumption.
      * inversion In0; subst. rewrite U. destruct (g =? c0); [discriminate|].
        destruct fresh as [[id nd]|]; [destruct Hf as (A & _); subst; rewrite N.eqb_refl; discriminate | rewrite Hf; discriminate].
    + destruct fresh as [[id nd]|].
      * destruct (id =? g0) eqn:E2.
        -- inversion L; subst. destruct Hf as (_ & _ & C). cbn in C. subst. contradiction.
        -- apply (upd_in_t' _ _ _ _ _ _ _ HU). eapply Hclosed; eassumption.
      * apply (upd_in_t' _ _ _ _ _ _ _ HU). eapply Hclosed; eassumption.
  - intros g0 ch0 n0 c0 ch' L In0 Lc.
    assert (Hold : forall k chk, k <> child \/ fresh = None -> alookup k nodes' = Some (SG chk) -> k <> g -> alookup k (s_nodes t) = Some (SG chk)).
    { intros k chk Hk Lk Hne. rewrite U in Lk. destruct (g =? k) eqn:E; [apply N.eqb_eq in E; congruence|].
      destruct fresh as [[id nd]|]; [|assumption]. destruct (id =? k) eqn:E2; [|assumption].
      apply N.eqb_eq in E2. destruct Hf as (A & _). destruct Hk as [Hk|Hk]; [congruence | discriminate]. }
    rewrite U in L. destruct (g =? g0) eqn:E.
    + apply N.eqb_eq in E. subst g0. inversion L; subst ch0. apply in_app_or in In0. destruct In0 as [In0|[In0|[]]].
      * assert (Hc0 : alookup c0 (s_nodes t) <> None) by (eapply Hclosed; eassumption).
        destruct (N.eq_dec c0 g) as [->|Hne].
        -- eapply (s_order _ I); [exact Hg | exact In0 | exact Hg].
        -- rewrite (upd_old _ _ _ _ _ _ _ HU c0 Hc0 Hne) in Lc. eapply (s_order _ I); eassumption.
      * inversion In0; subst. destruct (Hchild ch' Lc) as (_ & id & nd & Ef). subst fresh. destruct Hf as (A & B & _). lia.
    + destruct fresh as [[id nd]|].
      * destruct (id =? g0) eqn:E2.
        -- inversion L; subst. destruct Hf as (_ & _ & C). cbn in C. subst. contradiction.
        -- assert (Hc0 : alookup c0 (s_nodes t) <> None) by (eapply Hclosed; eassumption).
           destruct (N.eq_dec c0 g) as [->|Hne]; [eapply (s_order _ I); [exact L | exact In0 | exact Hg]|].
           rewrite (upd_old _ _ _ _ _ _ _ HU c0 Hc0 Hne) in Lc. eapply (s_order _ I); eassumption.
      * assert (Hc0 : alookup c0 (s_nodes t) <> None) by (eapply Hclosed; eassumption).
        destruct (N.eq_dec c0 g) as [->|Hne]; [eapply (s_order _ I); [exact L | exact In0 | exact Hg]|].
        rewrite (upd_old _ _ _ _ _ _ _ HU c0 Hc0 Hne) in Lc. eapply (s_order _ I); eassumption.
  - intro f. assert (H0 : alookup 0 (s_nodes t) <> None) by (destruct (s_root _ I) as [c0 L]; rewrite L; discriminate).
    destruct (alookup child nodes') as [[chc| |]|] eqn:Lc.
    + destruct (Hchild chc eq_refl) as (-> & id & nd & Ef). subst fresh. destruct Hf as (A & B & C). subst id.
      destruct Hfresh as (_ & Hnone & _).
      destruct (gpre_upd_group _ _ _ _ _ _ _ HU Lc Hnone f 0 H0) as [P1 P2].
      apply (NoDup_count_occ N.eq_dec). intro y. pose proof (proj1 (NoDup_count_occ N.eq_dec _) (s_tree _ I f)) as ND.
      destruct (N.eq_dec y child) as [->|Hy].
      * specialize (ND g). unfold cnt in *. lia.
      * specialize (ND y). specialize (P1 y Hy). unfold cnt in *. lia.
    + rewrite (gpre_upd_leaf _ _ _ _ _ _ _ HU); [apply (s_tree _ I) | | assumption]. intros chc X. congruence.
    + rewrite (gpre_upd_leaf _ _ _ _ _ _ _ HU); [apply (s_tree _ I) | | assumption]. intros chc X. congruence.
    + rewrite (gpre_upd_leaf _ _ _ _ _ _ _ HU); [apply (s_tree _ I) | | assumption]. intros chc X. congruence.
  - pose proof (s_pos _ I). lia.
Qed.

(* ---------------------------------------------------------------- small facts about the spec functions *)
Lemma sresolve_app : forall t cs x n, sresolve t x (cs ++ [n]) =
  match sresolve t x cs with
  | Some g => match alookup g t with Some (SG ch) => clookup n ch | _ => None end
  | None => None
  end.
Proof.
  induction cs as [|m cs IH]; intros x n; cbn [app sresolve].
  - destruct (alookup x t) as [[ch| |]|]; try reflexivity. destruct (clookup n ch); reflexivity.
  - destruct (alookup x t) as [[ch| |]|]; try reflexivity. destruct (clookup m ch); [apply IH | reflexivity].
Qed.

Lemma sresolve_in : forall t, (forall g0 ch0 n0 c0, alookup g0 t = Some (SG ch0) -> In (n0, c0) ch0 -> alookup c0 t <> None) ->
  forall cs x y, alookup x t <> None -> sresolve t x cs = Some y -> alookup y t <> None.
Proof.
  intros t Hc. induction cs as [|m cs IH]; intros x y Hx H; cbn [sresolve] in H; [inversion H; subst; assumption|].
  destruct (alookup x t) as [[chx| |]|] eqn:Lx; try discriminate. destruct (clookup m chx) as [c1|] eqn:Lm; [|discriminate].
  eapply IH; [|eassumption]. eapply Hc; [eassumption | apply clookup_In; eassumption].
Qed.

Lemma s_link_res : forall c t cs child, (exists t', s_link c t cs child = (Some t', Ok)) \/ (exists e, s_link c t cs child = (None, Err e)).
Proof.
  intros c t cs child. unfold s_link. destruct (unsnoc cs) as [[pcs n]|]; [|right; eauto].
  destruct (sresolve t 0 pcs) as [g|]; [|right; eauto]. destruct (alookup g t) as [[ch| |]|]; try (right; eauto; fail).
  destruct (clookup n ch); [right; eauto|]. destruct (_ <? _); [right; eauto|]. destruct (_ <=? _); [right; eauto | left; eauto].
Qed.

Lemma spec_err_unchanged : forall c t o t' e, spec_step c t o = (t', Err e) -> t' = s_tick t (s_nodes t).
Proof.
  intros c t o t' e. assert (K : forall p nd, s_create c t p nd = (t', Err e) -> t' = s_tick t (s_nodes t)).
  { intros p nd. unfold s_create. destruct (split_path p) as [cs|]; [|intro H; inversion H; reflexivity].
    destruct (s_link_res c (s_nodes t) cs (s_clock t)) as [(x & E)|(x & E)]; rewrite E; intro H; inversion H; reflexivity. }
  destruct o as [p|p|p q|p q]; cbn [spec_step]; try apply K.
  - destruct (split_path p) as [cs|]; [|intro H; inversion H; reflexivity].
    destruct (split_path q) as [qcs|]; [|intro H; inversion H; reflexivity].
    destruct (sresolve (s_nodes t) 0 qcs) as [tgt|]; [|intro H; inversion H; reflexivity].
    destruct (s_link_res c (s_nodes t) cs tgt) as [(x & E)|(x & E)]; rewrite E; intro H; inversion H; reflexivity.
  - destruct (negb (validate_soft_target q)); [intro H; inversion H; reflexivity|].
    destruct (split_path p) as [cs|]; [|intro H; inversion H; reflexivity].
    destruct (unsnoc cs) as [[i n]|]; [|intro H; inversion H; reflexivity].
    destruct (_ <? _); [intro H; inversion H; reflexivity | apply K].
Qed.
