(* C05 - the whole-file walker on a file with a NEW-STYLE GROUP written by the library (CreateDenseGroup), complete bytes
   (531 291 bytes; runs of zero bytes as PZ n), history
     sb = 2;  mkds /a int32 [1];  mkdense /dg {x -> /a, yy -> /a}
   (sha256 9eb57f08628f1455945a470dba84384a4a6ac6ba09878eb90a930bbc30197041; the library's output is deterministic; the check re-creates such
   files on every run and the Coq walker judges them: tools/props/c05.py judge_dense).
   The tolerant walk accepts, resolves both links of the dense group and reports - besides the listed deviations of the fractal heap,
   v2 B-tree and object header encoders - FOUR deviations that only concern new-style groups; for each of them the walk that
   tolerates every deviation BUT this one rejects the file with exactly that deviation as the reason (200 + code): the refutations
   cited by the proposed findings C05-group-dataspace-msg, C05-dense-link-private-layout, C05-btree2-link-id-truncated,
   C05-refcount-ignores-dense-links (notes/c05-dense-known-findings-proposed.json). *)
From HV Require Import Base.Prelude Base.Outcome Base.Bytes Spec.Parse Spec.Walk Model.Wellformed Model.RefWalkTie.
Open Scope string_scope.
Open Scope N_scope.

Definition dense_witness_pieces : list piece :=
  [PH "894844460d0a1a0a020808000000000000000000ffffffffffffffff5b1b08000000000078080000000000007a3e422f484541500000000000010000000000000100000000000000500000000000000061006467"; 
   PZ 252; 
   PH "534e4f4401000200000000000000000097080000000000000000000000000000000000000000000000000000000000000200000000000000551a08"; 
   PZ 1229; PH "5452454500000100ffffffffffffffffffffffffffffffff00000000000000005001"; PZ 510; 
   PH "4f4844520200141110000058060000000000003000000000000000000000004f48445202003a030c00001008000004000000002000000110000001010000000000000100000000000000081200000301930800000000000004"; 
   PZ 204; 
   PH "465248500008000000000000010000000000000000000000000000000000e3ff0700000000000000000000000000000008000000000000000800000000001d0000000000000002000000000000000000000000000000000000000000000000000000000000000000000000000000020000000800000000000000080000000000130000002f0a000000000000000023667b8546484442009d090000000000000000000100040001789708000000000000010004000279799708"; 
   PZ 524245; PH "89f2f19442544c4600058f9b4f35000e00000f0000a785acfa000000000e000097f9d4dc"; PZ 4064; 
   PH "425448440005001000000b00000064282f0a08000000000002000200000000000000658080ed4f4844520200220212000000009d090000000000002f1a0800000000000108000001"; 
   PZ 228].
Definition dense_witness : bytes := pieces_bytes dense_witness_pieces.

(* tolerate every deviation but the one with this code *)
Definition tol_all_but (code : N) : wtolerance := fun t => negb (wtag_code t =? code).

Definition summary_of (r : walk_result) : list (bytes * list (N * bytes) * list N) :=
  map (fun o => (os_path o, os_links o, os_ltargets o)) (wr_tree r).

Lemma dense_witness_length : blen dense_witness = 531291.
Proof. vm_compute. reflexivity. Qed.

(* the tolerant walk: accepted, extents in bounds / below the end-of-file address / pairwise disjoint, the dense group /dg lists its two
   links with the object header address of /a as their target, and the tag set *)
Lemma dense_witness_tolerant :
  match walk wtolerant default_fuel dense_witness with
  | Ok r => extents_ok (blen dense_witness) (wr_eof r) (plain (wr_extents r)) = true /\
            summary_of r = [(unhex "2f6467", [(0, unhex "7979"); (0, unhex "78")], [2199; 2199]);
                            (unhex "2f61", [], []);
                            (unhex "2f", [(0, unhex "61"); (0, unhex "6467")], [2199; 531029])] /\
            nodup N.eq_dec (map wtag_code (wr_tags r)) = [114; 111; 112; 108; 113; 13; 12; 10; 11; 19; 3; 105; 17; 2; 1]
  | _ => False
  end.
Proof. vm_compute. repeat split; reflexivity. Qed.

Lemma dense_witness_walk_ok : walk_ok default_fuel dense_witness = true.
Proof. vm_compute. reflexivity. Qed.

(* each of the four deviations is necessary: without it the specification walk rejects the file, for that reason *)
Lemma dense_witness_needs_group_dataspace_msg : walk_code (tol_all_but 111) default_fuel dense_witness = 311.
Proof. vm_compute. reflexivity. Qed.
Lemma dense_witness_needs_link_private_layout : walk_code (tol_all_but 112) default_fuel dense_witness = 312.
Proof. vm_compute. reflexivity. Qed.
Lemma dense_witness_needs_link_id_truncated : walk_code (tol_all_but 113) default_fuel dense_witness = 313.
Proof. vm_compute. reflexivity. Qed.
Lemma dense_witness_needs_refcount_ignores_dense_links : walk_code (tol_all_but 114) default_fuel dense_witness = 314.
Proof. vm_compute. reflexivity. Qed.
(* and the strict walk rejects it *)
Lemma dense_witness_strict_rejects : walk wstrict default_fuel dense_witness = Err.
Proof. vm_compute. reflexivity. Qed.
