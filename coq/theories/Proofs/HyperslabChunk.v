(* C09: chunked layout.  With the output position computed from the selection indices, the
   chunk-by-chunk extraction returns the selection in row-major order, whatever the order in
   which the chunks are visited.  General in the rank. *)
From HV Require Import Base.Prelude Model.Hyperslab Proofs.HyperslabBase Proofs.HyperslabRaw.

(* ---------------------------------------------------------------- what the recursion visits *)
(* (position in the selection, coordinates) of every leaf, in the order of the recursion *)
Fixpoint idx_coords (s : list axis) (pos : N) (pre : list N) : list (N * list N) :=
  match s with
  | [] => [(pos, pre)]
  | a :: s' =>
      flat_map (fun t => idx_coords s' ((pos * a_count a + fst (fst t)) * a_block a + snd (fst t))
                                    (pre ++ [snd t]))
               (axis_cbx a)
  end.

Definition selN (s : list axis) : N := prodN (map (fun a => a_count a * a_block a) s).

Lemma sel_coords_lengthN s : length (sel_coords s) = N.to_nat (selN s).
Proof.
  rewrite sel_coords_length. unfold selN.
  induction s as [|a s IH]; cbn [fold_right map prodN]; [reflexivity|]. rewrite IH. lia.
Qed.

Lemma idx_coords_snd : forall s pos pre,
  map snd (idx_coords s pos pre) = map (app pre) (sel_coords s).
Proof.
  induction s as [|a s IH]; intros pos pre; cbn [idx_coords sel_coords map].
  - rewrite app_nil_r. reflexivity.
  - rewrite !map_flat_map. rewrite <- (axis_cbx_idx a), flat_map_map.
    apply flat_map_ext_in. intros t _. rewrite IH, map_map. apply map_ext. intros z.
    rewrite <- app_assoc. reflexivity.
Qed.

Lemma idx_coords_fst : forall s pos pre,
  map fst (idx_coords s pos pre) = nseq (pos * selN s) (N.to_nat (selN s)).
Proof.
  induction s as [|a s IH]; intros pos pre; cbn [idx_coords map].
  - unfold selN. cbn [map prodN]. rewrite N.mul_1_r. reflexivity.
  - rewrite map_flat_map.
    rewrite (flat_map_ext_in _ (fun t => nseq (((pos * a_count a + fst (fst t)) * a_block a + snd (fst t)) * selN s)
                                              (N.to_nat (selN s)))) by (intros; apply IH).
    unfold axis_cbx. rewrite flat_map_flat_map.
    assert (E : selN (a :: s) = a_count a * a_block a * selN s) by reflexivity.
    rewrite (flat_map_ext_in _ (fun c => nseq (pos * selN (a :: s) + c * (a_block a * selN s))
                                              (N.to_nat (a_block a * selN s)))).
    + unfold nrange. rewrite flat_map_nseq_runs. rewrite E, !N2Nat.inj_mul. apply nseq_ext2; lia.
    + intros c _. rewrite flat_map_map. cbn [fst snd].
      rewrite (flat_map_ext_in _ (fun b => nseq ((pos * a_count a + c) * a_block a * selN s + b * selN s)
                                                (N.to_nat (selN s)))) by (intros; apply nseq_ext; lia).
      unfold nrange. rewrite flat_map_nseq_runs. rewrite E, !N2Nat.inj_mul. apply nseq_ext2; lia.
Qed.

Lemma idx_coords_length s pos pre : length (idx_coords s pos pre) = N.to_nat (selN s).
Proof. rewrite <- (map_length fst), idx_coords_fst, nseq_length. reflexivity. Qed.

(* the k-th leaf is (k, k-th selected coordinate) *)
Lemma nth_pair {A B} (l : list (A * B)) k d :
  nth k l d = (nth k (map fst l) (fst d), nth k (map snd l) (snd d)).
Proof. rewrite !map_nth. apply surjective_pairing. Qed.

Lemma idx_coords_nth s (k : nat) : (k < length (sel_coords s))%nat ->
  nth k (idx_coords s 0 []) (0, []) = (N.of_nat k, nth k (sel_coords s) []).
Proof.
  intros Hk. rewrite sel_coords_lengthN in Hk.
  rewrite nth_pair, idx_coords_fst, idx_coords_snd. cbn [fst snd].
  rewrite nth_nseq by assumption.
  rewrite (map_ext _ (fun x => x)) by reflexivity. rewrite map_id. f_equal.
Qed.

Lemma idx_coords_in s t : In t (idx_coords s 0 []) ->
  exists k, (k < length (sel_coords s))%nat /\ t = (N.of_nat k, nth k (sel_coords s) []).
Proof.
  intros H. apply (In_nth _ _ (0, [])) in H. destruct H as (k & Hk & <-).
  rewrite idx_coords_length, <- sel_coords_lengthN in Hk.
  exists k. split; [assumption|apply idx_coords_nth; assumption].
Qed.

Lemma idx_coords_prefix : forall s pos pre t, In t (idx_coords s pos pre) -> exists rest, snd t = pre ++ rest.
Proof.
  intros s pos pre t H. apply (in_map snd) in H. rewrite idx_coords_snd in H.
  apply in_map_iff in H. destruct H as (z & <- & _). eauto.
Qed.

(* ---------------------------------------------------------------- pruning is harmless *)
Lemma in_chunk_beyond : forall pre cs cep e rce x rest,
  length cep = length pre -> length cs = length (cep ++ e :: rce) -> e <= x ->
  in_chunk (pre ++ x :: rest) cs (cep ++ e :: rce) = false.
Proof.
  induction pre as [|p pre IH]; intros [|c cs] [|e0 cep] e rce x rest L1 L2 Hle;
    cbn [length app] in *; try discriminate; cbn [in_chunk].
  - destruct (N.ltb_spec x c); cbn [orb]; [reflexivity|].
    destruct (N.leb_spec e x); [reflexivity|lia].
  - destruct ((p <? c) || (e0 <=? p)); [reflexivity|]. apply IH; lia.
Qed.

Definition leafw (chunk cs ce cdims : list N) (st : list N * N) (t : N * list N) : list N * N :=
  chunk_leaf chunk cs ce cdims (snd t) (fst t) st.

Lemma chunk_rec_spec chunk cs ce cdims : forall s rce cep pre pos st,
  ce = cep ++ rce -> length cep = length pre -> length rce = length s -> length cs = length ce ->
  chunk_rec chunk cs ce cdims s rce pre pos st
  = fold_left (leafw chunk cs ce cdims) (idx_coords s pos pre) st.
Proof.
  induction s as [|a s IH]; intros [|e rce] cep pre pos st Hce L1 L2 L3; cbn [length] in L2; try discriminate.
  - reflexivity.
  - cbn [chunk_rec idx_coords]. rewrite axis_loop_cbx, fold_left_flat_map.
    apply fold_left_ext_in. intros st0 [[c b] x] _. cbn [fst snd].
    destruct (N.leb_spec e x) as [Hle|Hgt].
    + symmetry. apply fold_left_id_in. intros st1 t Ht.
      destruct (idx_coords_prefix _ _ _ _ Ht) as (rest & Hr).
      unfold leafw, chunk_leaf. rewrite Hr, <- app_assoc. cbn [app]. subst ce.
      rewrite in_chunk_beyond by (try assumption; lia). reflexivity.
    + apply (IH rce (cep ++ [e])).
      * subst ce. rewrite <- app_assoc. reflexivity.
      * rewrite !app_length. cbn [length]. lia.
      * lia.
      * assumption.
Qed.

(* ---------------------------------------------------------------- stored chunks *)
Lemma nth_flat_map_const {A B} (g : A -> list B) (P : nat) (dA : A) (dB : B) :
  (forall x, length (g x) = P) -> forall l i k, (i < length l)%nat -> (k < P)%nat ->
  nth (i * P + k) (flat_map g l) dB = nth k (g (nth i l dA)) dB.
Proof.
  intros H. induction l as [|x l IH]; intros i k Hi Hk; cbn [length] in Hi; [lia|].
  destruct i as [|i]; cbn [flat_map nth].
  - rewrite app_nth1 by (rewrite H; lia). reflexivity.
  - rewrite app_nth2 by (rewrite H; lia). rewrite H.
    replace (S i * P + k - P)%nat with (i * P + k)%nat by lia. apply IH; lia.
Qed.

Lemma all_coords_length ext : length (all_coords ext) = N.to_nat (prodN ext).
Proof.
  induction ext as [|d r IH]; cbn [all_coords prodN length]; [reflexivity|].
  rewrite flat_map_length_const with (k := length (all_coords r)) by (intros; apply map_length).
  rewrite nrange_length, IH. lia.
Qed.

Lemma all_coords_nth : forall ext rel, Forall2 N.lt rel ext ->
  nth (N.to_nat (lin ext rel)) (all_coords ext) [] = rel.
Proof.
  induction ext as [|d r IH]; intros rel H; inversion H as [|i ? y ? Hi Hy]; subst; cbn [lin all_coords].
  - reflexivity.
  - pose proof (lin_bound _ _ Hy) as B.
    replace (N.to_nat (i * prodN r + lin r y))
      with (N.to_nat i * N.to_nat (prodN r) + N.to_nat (lin r y))%nat by lia.
    rewrite (nth_flat_map_const _ (N.to_nat (prodN r)) 0);
      [|intros; rewrite map_length; apply all_coords_length|rewrite nrange_length; lia|lia].
    rewrite nth_indep with (d' := (nth (N.to_nat i) (nrange d) 0) :: [])
      by (rewrite map_length, all_coords_length; lia).
    rewrite map_nth, IH by assumption. unfold nrange. rewrite nth_nseq by lia. f_equal. lia.
Qed.

Definition chunk_elem (full dims cdims cc rel : list N) : N :=
  let x := vadd (vmul cc cdims) rel in if inb x dims then nthN full (lin dims x) else 0.

Lemma chunk_of_length full dims cdims cc : lenN (chunk_of full dims cdims cc) = prodN cdims.
Proof. unfold lenN, chunk_of. rewrite map_length, all_coords_length. lia. Qed.

Lemma chunk_of_nth full dims cdims cc rel : Forall2 N.lt rel cdims ->
  nthN (chunk_of full dims cdims cc) (lin cdims rel) = chunk_elem full dims cdims cc rel.
Proof.
  intros H. unfold nthN, chunk_of. fold (chunk_elem full dims cdims cc).
  pose proof (lin_bound _ _ H).
  rewrite nth_indep with (d' := chunk_elem full dims cdims cc [])
    by (rewrite map_length, all_coords_length; lia).
  rewrite map_nth, all_coords_nth by assumption. reflexivity.
Qed.

Lemma inb_true : forall x dims, Forall2 N.lt x dims -> inb x dims = true.
Proof.
  unfold inb. induction 1 as [|a d x dims H _ IH]; cbn [forall2b]; [reflexivity|].
  rewrite IH. destruct (N.ltb_spec a d); [reflexivity|lia].
Qed.

(* ---------------------------------------------------------------- per-dimension facts *)
Lemma vmul_length : forall a b, length a = length b -> length (vmul a b) = length a.
Proof. induction a; intros [|y b] H; cbn [length vmul] in *; try discriminate; [reflexivity|]. rewrite IHa by lia. reflexivity. Qed.

Lemma chunk_end_length : forall cs cdims dims, length cs = length dims -> length cdims = length dims ->
  length (chunk_end cs cdims dims) = length dims.
Proof.
  induction cs as [|s cs IH]; intros [|c cd] [|d ds] H1 H2; cbn [length chunk_end] in *; try discriminate; [reflexivity|].
  rewrite IH by lia. reflexivity.
Qed.

Lemma in_chunk_rel : forall x cc cdims dims,
  length cc = length x -> length cdims = length x -> length dims = length x ->
  in_chunk x (vmul cc cdims) (chunk_end (vmul cc cdims) cdims dims) = true ->
  Forall2 N.lt (vsub x (vmul cc cdims)) cdims /\ vadd (vmul cc cdims) (vsub x (vmul cc cdims)) = x.
Proof.
  induction x as [|xi x IH]; intros [|c cc] [|cd cdims] [|d dims] L1 L2 L3 H;
    cbn [length] in *; try discriminate; cbn [vmul chunk_end in_chunk vsub vadd] in *.
  - split; [constructor|reflexivity].
  - destruct (N.ltb_spec xi (c * cd)); cbn [orb] in H; [discriminate|].
    destruct (N.leb_spec (if d <? c * cd + cd then d else c * cd + cd) xi) as [|Hlt]; [discriminate|].
    destruct (IH cc cdims dims) as (R1 & R2); try lia; [assumption|].
    split.
    + constructor; [|assumption]. destruct (N.ltb_spec d (c * cd + cd)); lia.
    + rewrite R2. f_equal. lia.
Qed.

Lemma in_chunk_own : forall x cdims dims,
  Forall2 N.lt x dims -> Forall (fun c => 0 < c) cdims -> length cdims = length x ->
  in_chunk x (vmul (map2 N.div x cdims) cdims) (chunk_end (vmul (map2 N.div x cdims) cdims) cdims dims) = true.
Proof.
  induction x as [|xi x IH]; intros [|cd cdims] [|d dims] H Hc L; inversion H; subst;
    cbn [length] in *; try discriminate; cbn [map2 vmul chunk_end in_chunk]; [reflexivity|].
  inversion Hc; subst.
  assert (xi / cd * cd <= xi) by (rewrite N.mul_comm; apply N.mul_div_le; lia).
  assert (xi < xi / cd * cd + cd).
  { pose proof (N.mul_succ_div_gt xi cd ltac:(lia)). lia. }
  destruct (N.ltb_spec xi (xi / cd * cd)); [lia|]. cbn [orb].
  destruct (N.leb_spec (if d <? xi / cd * cd + cd then d else xi / cd * cd + cd) xi) as [Hle|].
  - destruct (N.ltb_spec d (xi / cd * cd + cd)); lia.
  - apply IH; try assumption. lia.
Qed.

Lemma in_gen_chunk_coords_cons fl r cc :
  In cc (gen_chunk_coords (fl :: r)) <-> exists i y, cc = i :: y /\ In i (span_idx fl) /\ In y (gen_chunk_coords r).
Proof.
  cbn [gen_chunk_coords]. rewrite in_flat_map. split.
  - intros (i & Hi & H). apply in_map_iff in H. destruct H as (y & <- & Hy). eauto.
  - intros (i & y & -> & Hi & Hy). exists i. split; [assumption|]. apply in_map_iff. eauto.
Qed.

Lemma gen_chunk_coords_len : forall spans cc, In cc (gen_chunk_coords spans) -> length cc = length spans.
Proof.
  induction spans as [|fl r IH]; intros cc H.
  - destruct H as [<-|[]]. reflexivity.
  - apply in_gen_chunk_coords_cons in H. destruct H as (i & y & -> & _ & Hy). cbn [length]. rewrite (IH _ Hy). reflexivity.
Qed.

Lemma spans_of_length : forall s cdims dims, length cdims = length s -> length dims = length s ->
  length (spans_of s cdims dims) = length s.
Proof.
  induction s as [|a s IH]; intros [|c cd] [|d ds] H1 H2; cbn [length spans_of] in *; try discriminate; [reflexivity|].
  rewrite IH by lia. reflexivity.
Qed.

Lemma own_in_overlap : forall s cdims dims x,
  axes_valid s dims -> Forall (fun c => 0 < c) cdims -> length cdims = length s ->
  In x (sel_coords s) -> In (map2 N.div x cdims) (gen_chunk_coords (spans_of s cdims dims)).
Proof.
  induction s as [|a s IH]; intros [|cd cdims] dims x V Hc L Hx; inversion V as [|? d ? ds Ha Vs]; subst;
    cbn [length] in *; try discriminate.
  - destruct Hx as [<-|[]]. left. reflexivity.
  - apply in_sel_coords_cons in Hx. destruct Hx as (i & y & -> & Hi & Hy).
    inversion Hc; subst.
    cbn [spans_of map2]. apply in_gen_chunk_coords_cons. exists (i / cd), (map2 N.div y cdims).
    split; [reflexivity|]. split; [|apply IH; try assumption; lia].
    destruct (axis_idx_bound _ _ _ Ha Hi) as (B1 & B2 & B3).
    unfold chunk_span, span_idx. cbn [fst snd].
    set (endPos := a_start a + (a_count a - 1) * a_stride a + a_block a - 1) in *.
    set (endPos' := if d <=? endPos then d - 1 else endPos).
    assert (i <= endPos') by (subst endPos'; destruct (N.leb_spec d endPos); lia).
    assert (a_start a / cd <= i / cd) by (apply N.div_le_mono; lia).
    assert (i / cd <= endPos' / cd) by (apply N.div_le_mono; lia).
    apply in_nseq. lia.
Qed.

(* ---------------------------------------------------------------- steps that only ever write the right value *)
Definition okstep (T : list N) (f : list N * N -> list N * N) : Prop :=
  forall st, length (fst (f st)) = length (fst st) /\
             forall q, nth q (fst st) 0 = nth q T 0 -> nth q (fst (f st)) 0 = nth q T 0.

Lemma okstep_fold {A} T (F : list N * N -> A -> list N * N) (L : list A) :
  (forall x, In x L -> okstep T (fun st => F st x)) -> okstep T (fun st => fold_left F L st).
Proof.
  induction L as [|x L IH]; intros H st; cbn [fold_left]; [split; auto|].
  destruct (H x (or_introl eq_refl) st) as (H1 & H2).
  destruct (IH (fun y Hy => H y (or_intror Hy)) (F st x)) as (H3 & H4).
  split; [congruence|]. intros q Hq. apply H4, H2, Hq.
Qed.

Lemma establish_fold {A} T (F : list N * N -> A -> list N * N) (L : list A) (x0 : A) (p len : nat) :
  In x0 L -> (forall x, In x L -> okstep T (fun st => F st x)) ->
  (forall st, length (fst st) = len -> nth p (fst (F st x0)) 0 = nth p T 0) ->
  forall st, length (fst st) = len -> nth p (fst (fold_left F L st)) 0 = nth p T 0.
Proof.
  intros Hin Hok He st Hl. apply in_split in Hin. destruct Hin as (L1 & L2 & ->).
  rewrite fold_left_app. cbn [fold_left].
  assert (O1 : okstep T (fun st => fold_left F L1 st)).
  { apply okstep_fold. intros; apply Hok. apply in_or_app; left; assumption. }
  assert (O2 : okstep T (fun st => fold_left F L2 st)).
  { apply okstep_fold. intros; apply Hok. apply in_or_app; right; right; assumption. }
  apply O2. apply He. rewrite (proj1 (O1 st)). assumption.
Qed.

Lemma chunk_leaf_okstep T chunk cs ce cdims x p :
  (in_chunk x cs ce = true -> calc_lin (vsub x cs) cdims + 1 <= lenN chunk ->
   nthN chunk (calc_lin (vsub x cs) cdims) = nth (N.to_nat p) T 0) ->
  okstep T (fun st => chunk_leaf chunk cs ce cdims x p st).
Proof.
  intros H st. unfold chunk_leaf.
  destruct (in_chunk x cs ce); cbn [negb]; [|split; auto].
  destruct (N.leb_spec (calc_lin (vsub x cs) cdims + 1) (lenN chunk)); cbn [andb]; [|split; auto].
  destruct (N.leb_spec (p + 1) (lenN (fst st))); [|split; auto].
  cbn [fst]. split; [apply upd_length|].
  intros q Hq. unfold upd. rewrite nth_upd_nat.
  destruct (Nat.eqb_spec (N.to_nat p) q) as [<-|]; cbn [andb]; [|assumption].
  destruct (Nat.ltb_spec (N.to_nat p) (length (fst st))); [|assumption].
  apply H; [reflexivity|assumption].
Qed.

(* ---------------------------------------------------------------- the chunked reader *)
Lemma find_overlapping_nonempty s cdims dims : s <> [] ->
  find_overlapping_chunks s cdims dims = gen_chunk_coords (spans_of s cdims dims).
Proof. destruct s; [congruence|reflexivity]. Qed.

Theorem read_hyperslab_chunked_correct full dims cdims s :
  axes_valid s dims -> s <> [] -> length cdims = length dims -> Forall (fun c => 0 < c) cdims ->
  read_hyperslab_chunked full dims cdims s = select full dims s.
Proof.
  intros V Hne Lc Hc.
  pose proof (axes_valid_block _ _ V) as Hb.
  pose proof (axes_valid_length _ _ V) as Ls.
  unfold read_hyperslab_chunked.
  destruct (N.eqb_spec (out_elems s) 0) as [E|E]; [symmetry; apply select_nil; assumption|].
  rewrite out_elems_length in * by assumption.
  set (coords := sel_coords s) in *. set (len := length coords) in *.
  set (T := select full dims s).
  assert (LT : length T = len) by (unfold T, select; apply map_length).
  assert (TN : forall k, (k < len)%nat -> nth k T 0 = nthN full (lin dims (nth k coords []))).
  { intros k Hk. unfold T, select. fold coords.
    rewrite nth_indep with (d' := nthN full (lin dims [])) by (rewrite map_length; assumption).
    rewrite (map_nth (fun x => nthN full (lin dims x))). reflexivity. }
  rewrite find_overlapping_nonempty by assumption.
  set (ccs := gen_chunk_coords (spans_of s cdims dims)).
  set (IC := idx_coords s 0 []).
  (* every chunk visit is the fold of leaf steps over IC *)
  assert (STEP : forall cc st, In cc ccs ->
     extract_chunk_portion (chunk_of full dims cdims cc) cc cdims dims s st
     = fold_left (leafw (chunk_of full dims cdims cc) (vmul cc cdims)
                        (chunk_end (vmul cc cdims) cdims dims) cdims) IC st).
  { intros cc st Hcc. unfold extract_chunk_portion.
    pose proof (gen_chunk_coords_len _ _ Hcc) as Lcc. rewrite spans_of_length in Lcc by lia.
    apply (chunk_rec_spec _ _ _ _ s _ [] [] 0 st); try reflexivity.
    - rewrite chunk_end_length; rewrite ?vmul_length; lia.
    - rewrite chunk_end_length; rewrite ?vmul_length; lia. }
  (* every leaf step only ever writes the right value *)
  assert (OK : forall cc, In cc ccs -> forall t, In t IC ->
     okstep T (fun st => leafw (chunk_of full dims cdims cc) (vmul cc cdims)
                               (chunk_end (vmul cc cdims) cdims dims) cdims st t)).
  { intros cc Hcc t Ht. apply idx_coords_in in Ht. destruct Ht as (k & Hk & ->). fold coords len in Hk.
    pose proof (gen_chunk_coords_len _ _ Hcc) as Lcc. rewrite spans_of_length in Lcc by lia.
    unfold leafw. cbn [fst snd]. fold coords. apply chunk_leaf_okstep. intros Hin _.
    assert (Hx : In (nth k coords []) coords) by (apply nth_In; assumption).
    pose proof (sel_coords_inb _ _ _ V Hx) as Hinb.
    pose proof (sel_coords_each_length _ _ Hx) as Lx.
    destruct (in_chunk_rel (nth k coords []) cc cdims dims) as (R1 & R2); try lia; [assumption|].
    rewrite calc_lin_spec by (apply (Forall2_len _ _ _ R1)).
    rewrite chunk_of_nth by assumption. unfold chunk_elem. rewrite R2, inb_true by assumption.
    rewrite Nat2N.id, TN by assumption. reflexivity. }
  assert (OKC : forall cc, In cc ccs ->
     okstep T (fun st => extract_chunk_portion (chunk_of full dims cdims cc) cc cdims dims s st)).
  { intros cc Hcc st. rewrite STEP by assumption.
    apply (okstep_fold T _ IC (OK cc Hcc)). }
  (* every position is written by the visit of its own chunk *)
  assert (EST : forall k, (k < len)%nat -> forall st, length (fst st) = len ->
     nth k (fst (fold_left (fun st cc => extract_chunk_portion (chunk_of full dims cdims cc) cc cdims dims s st)
                           ccs st)) 0 = nth k T 0).
  { intros k Hk.
    assert (Hx : In (nth k coords []) coords) by (apply nth_In; assumption).
    pose proof (sel_coords_inb _ _ _ V Hx) as Hinb.
    pose proof (sel_coords_each_length _ _ Hx) as Lx.
    set (x := nth k coords []) in *. set (cc := map2 N.div x cdims).
    assert (Hcc : In cc ccs) by (apply own_in_overlap; try assumption; lia).
    apply (establish_fold T _ ccs cc k len Hcc OKC).
    intros st Hl. rewrite STEP by assumption.
    assert (Ht : In (N.of_nat k, x) IC).
    { unfold IC. change (N.of_nat k, x) with (N.of_nat k, nth k (sel_coords s) []).
      rewrite <- (idx_coords_nth s k Hk). apply nth_In.
      rewrite idx_coords_length, <- sel_coords_lengthN. assumption. }
    apply (establish_fold T _ IC (N.of_nat k, x) k len Ht (OK cc Hcc)); [|assumption].
    intros st1 Hl1. unfold leafw, chunk_leaf. cbn [fst snd].
    pose proof (in_chunk_own x cdims dims Hinb Hc ltac:(lia)) as Hown. fold cc in Hown. rewrite Hown. cbn [negb].
    pose proof (gen_chunk_coords_len _ _ Hcc) as Lcc. rewrite spans_of_length in Lcc by lia.
    destruct (in_chunk_rel x cc cdims dims) as (R1 & R2); try lia; [assumption|].
    rewrite calc_lin_spec by (apply (Forall2_len _ _ _ R1)).
    pose proof (lin_bound _ _ R1) as B. rewrite chunk_of_length.
    destruct (N.leb_spec (lin cdims (vsub x (vmul cc cdims)) + 1) (prodN cdims)); [|lia]. cbn [andb].
    unfold lenN. rewrite Hl1.
    destruct (N.leb_spec (N.of_nat k + 1) (N.of_nat len)); [|lia]. cbn [fst].
    unfold upd. rewrite nth_upd_nat, Nat2N.id, Nat.eqb_refl.
    destruct (Nat.ltb_spec k (length (fst st1))); [|lia]. cbn [andb].
    rewrite chunk_of_nth by assumption. unfold chunk_elem. rewrite R2, inb_true by assumption.
    rewrite TN by assumption. reflexivity. }
  destruct ccs as [|cc0 ccr] eqn:ECC.
  { exfalso. assert (Hx : In (nth 0 coords []) coords) by (apply nth_In; lia).
    pose proof (own_in_overlap s cdims dims _ V Hc ltac:(lia) Hx) as Hin. fold ccs in Hin. rewrite ECC in Hin. destruct Hin. }
  rewrite <- ECC in *.
  apply nth_ext with (d := 0) (d' := 0).
  - destruct (okstep_fold T _ ccs OKC (zeros (N.of_nat len), 0)) as (H1 & _).
    cbn [fst] in H1. rewrite H1, zeros_length, LT. lia.
  - intros k Hk.
    destruct (okstep_fold T _ ccs OKC (zeros (N.of_nat len), 0)) as (H1 & _).
    cbn [fst] in H1. rewrite H1, zeros_length in Hk.
    apply EST; [lia|]. cbn [fst]. rewrite zeros_length. lia.
Qed.
