(* C02 at byte level: the composition (stated with the mathematical product of the extents), the value kinds of WriteAttribute
   (every kind of Model/FileImageAttr.v attr_of_kind gives a well-formed attribute message), and a witness that the hypotheses
   are satisfiable. *)
From HV Require Import Base.Prelude Base.Outcome Base.Bytes Model.IOProg Proofs.IOProg Model.IOProgReader Model.IOProgOpen.
From HV Require Import Model.CodecSuper Model.CodecOhdr Model.CodecMsg Model.CodecType Model.CodecAttr.
From HV Require Import Model.FileImage Model.FileImageAttr Proofs.FileImage Proofs.FileImageOhdr Proofs.FileImageData
  Proofs.FileImageGroup Proofs.FileImageOpen Proofs.FileImageProd Proofs.FileImageMain
  Proofs.FileImageAttrOhdr Proofs.FileImageAttr Proofs.FileImageAttrOpen.

(* the attribute the reader's parser returns for what the writer was given: the name, the datatype as the decoder reports it
   (proj_datatype: for the numeric classes the same class / size / bit field, version 1, the standard properties), a simple
   dataspace of version 1 with the given extents and no maximum extents, the value bytes *)
Definition attr_as_read (aname : bytes) (adt : datatype) (adims : list N) (adata : bytes) : attribute' :=
  {| atp_name := aname; atp_dt := proj_datatype adt;
     atp_ds := {| dsp_version := 1; dsp_type := 1; dsp_dims := adims; dsp_maxdims := None |};
     atp_data := match adata with [] => None | d => Some d end |}.

Section Main.
Variable name : bytes.
Variables class size cbf : N.
Variable dims : list N.
Variable data : bytes.
Variable aname : bytes.
Variable adt : datatype.
Variable adims : list N.
Variable adata : bytes.
Hypothesis Hname : link_name_ok name = true.
Hypothesis Hdt : basic_dtype class size cbf = true.
Hypothesis Hdims : dims_ok dims = true.
Hypothesis Hlen : blen data = product dims * size.
Hypothesis Hbound : blen data < 4294967296.
Hypothesis Hwf : wf_attribute (attr_msg aname adt adims adata) = true.
Hypothesis Hfit : attr_fits class size cbf dims aname adt adims adata = true.
Local Notation f := (image_v2_attr name class size cbf dims data aname adt adims adata).

Theorem file_attribute_roundtrip fuel hfuel : (3 <= fuel)%nat -> (4 < hfuel)%nat ->
  run0 f (api_attributes SB' hfuel (dset_addr data)) = Ok [(aname, adata)] /\
  (exists h, run0 f (p_ohdr SB' hfuel (dset_addr data)) = Ok h /\
             decoded_attr h = Ok (attr_as_read aname adt adims adata) /\
             decoded_type_shape h = Ok (class, size, cbf, dims)) /\
  run0 f (api_read_raw SB' hfuel (dset_addr data)) = Ok (RawBytes data) /\
  run0 f p_superblock = Ok SB' /\
  run0 f (p_open true (blen f) fuel hfuel) = Ok (Grp [47] ROOT_ADDR [Dset name (dset_addr data)]).
Proof.
  intros Hf Hh.
  pose proof (Hlen' class size cbf dims data Hdt Hdims Hlen Hbound) as HL.
  pose proof (Hpos' class size cbf dims data Hdt Hdims Hlen) as HP.
  split; [|split; [|split; [|split]]].
  - exact (dataset_attributes name class size cbf dims data aname adt adims adata Hname Hdt Hdims HL Hbound Hwf Hfit hfuel Hh).
  - destruct (dataset_attr_decoded name class size cbf dims data aname adt adims adata Hname Hdt Hdims HL Hbound Hwf Hfit hfuel Hh)
      as (h & E1 & E2).
    destruct (dataset_type_shape_attr name class size cbf dims data aname adt adims adata Hname Hdt Hdims HL Hbound Hwf Hfit hfuel Hh)
      as (h' & E1' & E2').
    rewrite E1 in E1'. injection E1' as <-.
    exists h. split; [exact E1|]. split; [exact E2 | exact E2'].
  - exact (dataset_read_attr name class size cbf dims data aname adt adims adata Hname Hdt Hdims HL HP Hbound Hwf Hfit hfuel Hh).
  - exact (superblock_stage_a name class size cbf dims data aname adt adims adata Hname HL HP Hbound).
  - destruct fuel as [|[|[|n]]]; try blia.
    apply (open_image_a name class size cbf dims data aname adt adims adata Hname Hdt Hdims HL HP Hbound Hwf Hfit (blen f / 8 + 1024)); auto.
    blia.
Qed.
End Main.

Lemma file_attribute_roundtrip_stmt : forall name class size cbf dims data aname adt adims adata fuel hfuel,
  link_name_ok name = true -> basic_dtype class size cbf = true -> dims_ok dims = true ->
  blen data = product dims * size -> blen data < 4294967296 ->
  wf_attribute (attr_msg aname adt adims adata) = true ->
  attr_fits class size cbf dims aname adt adims adata = true ->
  (3 <= fuel)%nat -> (4 < hfuel)%nat ->
  let f := image_v2_attr name class size cbf dims data aname adt adims adata in
  run0 f (api_attributes SB' hfuel (dset_addr data)) = Ok [(aname, adata)] /\
  (exists h, run0 f (p_ohdr SB' hfuel (dset_addr data)) = Ok h /\
             decoded_attr h = Ok (attr_as_read aname adt adims adata) /\
             decoded_type_shape h = Ok (class, size, cbf, dims)) /\
  run0 f (api_read_raw SB' hfuel (dset_addr data)) = Ok (RawBytes data) /\
  run0 f p_superblock = Ok SB' /\
  run0 f (p_open true (blen f) fuel hfuel) = Ok (Grp [47] ROOT_ADDR [Dset name (dset_addr data)]).
Proof. intros. now apply file_attribute_roundtrip. Qed.

Lemma image_attr_len_stmt : forall name class size cbf dims data aname adt adims adata,
  link_name_ok name = true -> basic_dtype class size cbf = true -> dims_ok dims = true ->
  blen data = total_elems dims * size -> blen data < 4294967296 ->
  wf_attribute (attr_msg aname adt adims adata) = true ->
  attr_fits class size cbf dims aname adt adims adata = true ->
  blen (image_v2_attr name class size cbf dims data aname adt adims adata) = eof_addr data.
Proof. intros. now apply image_attr_len. Qed.

(* the hypotheses are satisfiable: "/d" = uint8 [1,2,3] with the attribute a = int32(42) *)
Example file_attribute_roundtrip_witness :
  link_name_ok [100] = true /\ basic_dtype DT_FIXED 1 0 = true /\ dims_ok [3] = true /\
  blen [1; 2; 3] = product [3] * 1 /\ blen [1; 2; 3] < 4294967296 /\
  wf_attribute (attr_msg [97] (dtype_msg DT_FIXED 4 8) [1] [42; 0; 0; 0]) = true /\
  attr_fits DT_FIXED 1 0 [3] [97] (dtype_msg DT_FIXED 4 8) [1] [42; 0; 0; 0] = true.
Proof. repeat split. Qed.
