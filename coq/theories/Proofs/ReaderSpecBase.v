(* C06, reader against specification: bridge between the two styles of decoder.
   A specification decoder (Spec/Parse.v) consumes the unread suffix; a reader model (Model/Codec*.v) indexes the whole
   message with Go-style checked slicing.  With the parser state written as [skipn (N.to_nat p) bs] ("the suffix at
   position p"), every successful primitive step gives: the bound the reader's own length check needs, the equation
   for the reader's read at position p, and the next state in the same form. *)
From HV Require Import Base.Prelude Base.Outcome Base.Bytes Spec.Parse Spec.FormatMsg Model.CodecMsg.

Definition at_pos (bs : bytes) (p : N) : bytes := skipn (N.to_nat p) bs.

Lemma at_pos_0 (bs : bytes) : bs = at_pos bs 0.
Proof. reflexivity. Qed.

Lemma at_pos_len (bs : list N) p : p <= blen bs -> blen (at_pos bs p) = blen bs - p.
Proof. unfold at_pos, blen. intros H. rewrite skipn_length. blia. Qed.

Lemma length_at_pos (bs : list N) p : length (at_pos bs p) = (length bs - N.to_nat p)%nat.
Proof. unfold at_pos. apply skipn_length. Qed.

Lemma skipn_skipn (a b : nat) (l : list N) : skipn a (skipn b l) = skipn (a + b) l.
Proof.
  revert l. induction b as [|b IH]; intros l.
  - cbn [skipn]. now rewrite Nat.add_0_r.
  - destruct l as [|x l]; [now rewrite !skipn_nil|]. rewrite Nat.add_succ_r. cbn [skipn]. apply IH.
Qed.

Lemma at_pos_at_pos (bs : list N) p q : at_pos (at_pos bs p) q = at_pos bs (p + q).
Proof. unfold at_pos. rewrite skipn_skipn. f_equal. blia. Qed.

(* ------------------------------------------------------------------ p_take / p_u / p_byte / p_zeros at a position *)
Lemma p_take_at (bs : list N) p n b r :
  p <= blen bs ->
  p_take n (at_pos bs p) = Ok (b, r) ->
  p + N.of_nat n <= blen bs /\ r = at_pos bs (p + N.of_nat n) /\
  slice bs p (p + N.of_nat n) = Ok b /\ length b = n.
Proof.
  intros Hp0. unfold p_take. rewrite length_at_pos.
  destruct (n <=? length bs - N.to_nat p)%nat eqn:E; [|discriminate].
  apply Nat.leb_le in E. intros H. injection H as <- <-.
  assert (Hp : p + N.of_nat n <= blen bs) by (unfold blen in *; blia).
  repeat split; auto.
  - unfold at_pos. rewrite skipn_skipn. f_equal. blia.
  - unfold slice.
    replace ((p <=? p + N.of_nat n) && (p + N.of_nat n <=? blen bs)) with true
      by (symmetry; apply andb_true_iff; split; apply N.leb_le; blia).
    unfold at_pos. do 2 f_equal. blia.
  - unfold at_pos. rewrite firstn_length, skipn_length. unfold blen in *. blia.
Qed.

Lemma p_u_at (bs : list N) p n v r :
  p <= blen bs ->
  p_u n (at_pos bs p) = Ok (v, r) ->
  p + N.of_nat n <= blen bs /\ r = at_pos bs (p + N.of_nat n) /\
  rd_le bs p (N.of_nat n) = Ok v.
Proof.
  intros Hp. unfold p_u. destruct (p_take n (at_pos bs p)) as [[b r']| |] eqn:E; cbn [obind]; try discriminate.
  intros H. injection H as <- <-. apply p_take_at in E as (H1 & H2 & H3 & H4); auto.
  repeat split; auto. unfold rd_le. rewrite H3. reflexivity.
Qed.

Lemma p_byte_at (bs : list N) p x r :
  p <= blen bs ->
  p_byte (at_pos bs p) = Ok (x, r) ->
  p + 1 <= blen bs /\ r = at_pos bs (p + 1) /\ index bs p = Ok x.
Proof.
  intros Hp. unfold p_byte. destruct (at_pos bs p) as [|y t] eqn:E; [discriminate|].
  intros H. injection H as <- <-.
  assert (L : length (at_pos bs p) = S (length t)) by (rewrite E; reflexivity).
  rewrite length_at_pos in L.
  repeat split.
  - unfold blen in *. blia.
  - unfold at_pos in *. replace (N.to_nat (p + 1)) with (1 + N.to_nat p)%nat by blia.
    rewrite <- (skipn_skipn 1 (N.to_nat p)). bnorm. rewrite E. reflexivity.
  - unfold index. unfold at_pos in E. bnorm.
    rewrite <- (firstn_skipn (N.to_nat p) bs) at 1. rewrite E.
    rewrite nth_error_app2; rewrite firstn_length; [|blia].
    replace (N.to_nat p - Nat.min (N.to_nat p) (length bs))%nat with 0%nat by (unfold blen in *; blia). reflexivity.
Qed.

Lemma all_zero_zeros_eq (b : list N) : all_zero b = true -> b = zeros (length b).
Proof.
  induction b as [|x b IH]; cbn [all_zero forallb length zeros repeat]; auto.
  intros H. apply andb_true_iff in H as [H1 H2]. apply N.eqb_eq in H1. subst x. f_equal. apply IH, H2.
Qed.

Lemma p_zeros_at (bs : list N) p n r :
  p <= blen bs ->
  p_zeros n (at_pos bs p) = Ok (tt, r) ->
  p + N.of_nat n <= blen bs /\ r = at_pos bs (p + N.of_nat n) /\
  slice bs p (p + N.of_nat n) = Ok (zeros n).
Proof.
  intros Hp. unfold p_zeros. destruct (p_take n (at_pos bs p)) as [[b r']| |] eqn:E; cbn [obind]; try discriminate.
  destruct (all_zero b) eqn:Z; [|discriminate].
  intros H. injection H as <-. apply p_take_at in E as (H1 & H2 & H3 & H4); auto.
  repeat split; auto. rewrite H3. f_equal. rewrite <- H4. now apply all_zero_zeros_eq.
Qed.

(* k fields of n bytes: the reader's bounds-checked loop [read_dims] reads the same list *)
Lemma p_us_at n k : forall (bs : list N) p l r,
  p <= blen bs ->
  p_us n k (at_pos bs p) = Ok (l, r) ->
  p + N.of_nat n * N.of_nat k <= blen bs /\ r = at_pos bs (p + N.of_nat n * N.of_nat k) /\
  read_dims bs (N.of_nat n) k p = Ok (l, p + N.of_nat n * N.of_nat k) /\ length l = k.
Proof.
  induction k as [|k IH]; intros bs p l r Hp; cbn [p_us read_dims].
  - intros H. injection H as <- <-. replace (p + N.of_nat n * N.of_nat 0) with p by blia. auto.
  - destruct (p_u n (at_pos bs p)) as [[v r1]| |] eqn:E; cbn [obind]; try discriminate.
    apply p_u_at in E as (H1 & -> & H3); auto.
    destruct (p_us n k (at_pos bs (p + N.of_nat n))) as [[vs r2]| |] eqn:E2; cbn [obind]; try discriminate.
    intros H. injection H as <- <-.
    apply IH in E2 as (G1 & G2 & G3 & G4); auto.
    replace (p + N.of_nat n * N.of_nat (S k)) with (p + N.of_nat n + N.of_nat n * N.of_nat k) by blia.
    repeat split; auto.
    + replace (blen bs <? p + N.of_nat n) with false by (symmetry; apply N.ltb_ge; blia).
      rewrite H3. cbn [obind]. rewrite G3. reflexivity.
    + cbn [length]. now rewrite G4.
Qed.

(* the end of a message body: nothing, or (version 1 headers) fewer than 8 zero bytes *)
Lemma p_end_at (bs : list N) p pad :
  p <= blen bs ->
  p_end pad (at_pos bs p) = Ok tt ->
  blen bs - p < 8 /\ (pad = false -> blen bs = p) /\ at_pos bs p = zeros (N.to_nat (blen bs - p)).
Proof.
  intros Hp. unfold p_end. destruct (at_pos bs p) as [|y t] eqn:E.
  - intros _. assert (L : length (at_pos bs p) = 0%nat) by (rewrite E; reflexivity).
    rewrite length_at_pos in L. assert (blen bs = p) by (unfold blen in *; blia).
    replace (blen bs - p) with 0 by blia. repeat split; auto; try blia; try reflexivity.
  - unfold guard. destruct pad; cbn [andb]; [|discriminate].
    destruct ((length (y :: t) <? 8)%nat) eqn:L8; cbn [andb]; [|discriminate].
    destruct (all_zero (y :: t)) eqn:Z; [|discriminate]. intros _.
    apply Nat.ltb_lt in L8. assert (L : length (at_pos bs p) = length (y :: t)) by (rewrite E; reflexivity).
    rewrite length_at_pos in L.
    repeat split; try discriminate.
    + unfold blen in *. blia.
    + rewrite (all_zero_zeros_eq _ Z). f_equal. unfold blen in *. blia.
Qed.

(* ------------------------------------------------------------------ reading a field together with zero padding after it *)
Lemma unle_app_zeros (b : list N) k : unle (b ++ zeros k) = unle b.
Proof.
  induction b as [|x b IH]; cbn [app unle].
  - induction k as [|k IHk]; cbn [zeros repeat unle]; auto. fold (zeros k). rewrite IHk. blia.
  - now rewrite IH.
Qed.

Lemma firstn_zeros a b : (a <= b)%nat -> firstn a (zeros b) = zeros a.
Proof.
  revert b. induction a as [|a IH]; intros [|b] H; cbn [zeros repeat firstn]; auto; try blia.
  f_equal. apply IH. blia.
Qed.

(* a k-byte field followed only by zero bytes reads the same when read k' >= k bytes wide *)
Lemma rd_le_wider (bs : list N) p k k' v :
  rd_le bs p k = Ok v ->
  at_pos bs (p + k) = zeros (N.to_nat (blen bs - (p + k))) ->
  k <= k' -> p + k' <= blen bs ->
  rd_le bs p k' = Ok v.
Proof.
  unfold rd_le, slice. intros H Z Hk Hb.
  destruct ((p <=? p + k) && (p + k <=? blen bs)) eqn:E; cbn [obind] in H; [|discriminate].
  injection H as <-.
  replace ((p <=? p + k') && (p + k' <=? blen bs)) with true
    by (symmetry; apply andb_true_iff; split; apply N.leb_le; blia).
  cbn [obind]. f_equal.
  replace (p + k' - p) with k' by blia. replace (p + k - p) with k by blia.
  bnorm. set (t := skipn (N.to_nat p) bs).
  assert (T : skipn (N.to_nat k) t = zeros (N.to_nat (blen bs - (p + k)))).
  { unfold t. rewrite skipn_skipn. unfold at_pos in Z. rewrite <- Z. f_equal. blia. }
  rewrite <- (firstn_skipn (N.to_nat k) t) at 1.
  replace (N.to_nat k') with (N.to_nat k + (N.to_nat k' - N.to_nat k))%nat at 1 by blia.
  assert (Lt : (N.to_nat k <= length t)%nat).
  { unfold t. rewrite skipn_length. unfold blen in *. blia. }
  rewrite firstn_app. rewrite firstn_length.
  replace (Nat.min (N.to_nat k) (length t)) with (N.to_nat k) by blia.
  replace (N.to_nat k + (N.to_nat k' - N.to_nat k) - N.to_nat k)%nat with (N.to_nat k' - N.to_nat k)%nat by blia.
  rewrite firstn_firstn. replace (Nat.min (N.to_nat k + (N.to_nat k' - N.to_nat k)) (N.to_nat k)) with (N.to_nat k) by blia.
  rewrite T. rewrite firstn_zeros by (unfold blen in *; blia). apply unle_app_zeros.
Qed.

(* ------------------------------------------------------------------ small facts about outcomes *)
Definition no_panic {A} (o : outcome A) : Prop := o <> Panic.

(* "the reader returns an error, or a value that satisfies R": what C06 asks of a decoder on a conformant message *)
Definition err_or {A} (R : A -> Prop) (o : outcome A) : Prop :=
  match o with Ok v => R v | Err => True | Panic => False end.

Lemma err_or_err {A} (R : A -> Prop) : err_or R Err.
Proof. exact I. Qed.
Lemma err_or_ok {A} (R : A -> Prop) v : R v -> err_or R (Ok v).
Proof. auto. Qed.
Lemma err_or_if {A} (R : A -> Prop) (c : bool) (o : outcome A) : err_or R o -> err_or R (if c then Err else o).
Proof. destruct c; auto. intros _. exact I. Qed.

Lemma ltb_false_of_le a b : b <= a -> (a <? b) = false.
Proof. intros. apply N.ltb_ge. assumption. Qed.

(* one step of a successful specification decoder: name the result of the first parser / guard *)
Ltac sstep H :=
  match type of H with
  | obind (guard ?c) _ = Ok _ =>
      let G := fresh "G" in destruct c eqn:G; cbn [guard obind] in H; [|discriminate H]
  | obind ?o _ = Ok _ =>
      let E := fresh "E" in
      first [ destruct o as [[? ?]| |] eqn:E; cbn [obind] in H; [|discriminate H|discriminate H]
            | destruct o as [?| |] eqn:E; cbn [obind] in H; [|discriminate H|discriminate H] ]
  end.

(* named steps: [H] is the hypothesis "the specification decoder returned Ok"; the first parser runs on [at_pos bs p] *)
Ltac side := first [assumption | blia].
Ltac s_guard H G :=
  match type of H with
  | obind (guard ?c) _ = Ok _ => destruct c eqn:G; cbn [guard obind] in H; [|discriminate H]
  end.
Ltac s_byte H x B I :=
  match type of H with
  | obind (p_byte (at_pos ?bs ?p)) _ = Ok _ =>
      let E := fresh "E" in let r := fresh "r" in
      destruct (p_byte (at_pos bs p)) as [[x r]| |] eqn:E; cbn [obind] in H; [|discriminate H|discriminate H];
      apply p_byte_at in E as (B & -> & I); [|side]
  end.
Ltac s_u H v B R :=
  match type of H with
  | obind (p_u ?n (at_pos ?bs ?p)) _ = Ok _ =>
      let E := fresh "E" in let r := fresh "r" in
      destruct (p_u n (at_pos bs p)) as [[v r]| |] eqn:E; cbn [obind] in H; [|discriminate H|discriminate H];
      apply p_u_at in E as (B & -> & R); [|side]
  end.
Ltac s_take H b B S L :=
  match type of H with
  | obind (p_take ?n (at_pos ?bs ?p)) _ = Ok _ =>
      let E := fresh "E" in let r := fresh "r" in
      destruct (p_take n (at_pos bs p)) as [[b r]| |] eqn:E; cbn [obind] in H; [|discriminate H|discriminate H];
      apply p_take_at in E as (B & -> & S & L); [|side]
  end.
Ltac s_zeros H B S :=
  match type of H with
  | obind (p_zeros ?n (at_pos ?bs ?p)) _ = Ok _ =>
      let E := fresh "E" in let r := fresh "r" in
      destruct (p_zeros n (at_pos bs p)) as [[[] r]| |] eqn:E; cbn [obind] in H; [|discriminate H|discriminate H];
      apply p_zeros_at in E as (B & -> & S); [|side]
  end.
Ltac s_us H l B RD L :=
  match type of H with
  | obind (p_us ?n ?k (at_pos ?bs ?p)) _ = Ok _ =>
      let E := fresh "E" in let r := fresh "r" in
      destruct (p_us n k (at_pos bs p)) as [[l r]| |] eqn:E; cbn [obind] in H; [|discriminate H|discriminate H];
      apply p_us_at in E as (B & -> & RD & L); [|side]
  end.
Ltac s_end H PE PF ZZ :=
  match type of H with
  | obind (p_end ?pad (at_pos ?bs ?p)) _ = Ok _ =>
      let E := fresh "E" in
      destruct (p_end pad (at_pos bs p)) as [[]| |] eqn:E; cbn [obind] in H; [|discriminate H|discriminate H];
      apply p_end_at in E as (PE & PF & ZZ); [|side]
  end.
