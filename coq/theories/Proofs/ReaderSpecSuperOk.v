(* C06, reader against specification: the superblock when size of offsets = size of lengths = 8 (the class the
   refutations of ReaderSpecSuper.v leave).  For every file image the strict specification decoder accepts as a version
   0, 2 or 3 superblock with both sizes 8, the UNREPAIRED ReadSuperblock (Model/CodecSuper.v dec_superblock_gen false; the
   repaired one is covered for every size by ReaderSpecSuperRepaired.v) returns an error or the same
   version, sizes, little-endian byte order, root group address, and - versions 2/3 - base address and superblock
   extension address, - version 0 - the cached B-tree / local heap addresses when the root entry's cache type is 1.
   Version 1 is an error for the reader.  Version 0: the reader reports base address 0 whatever the file says
   (superblock_v0_base_refuted). *)
From HV Require Import Base.Prelude Base.Outcome Base.Bytes Spec.Parse Spec.Format Model.CodecSuper
  Proofs.RobustNoPanicBase Proofs.ReaderSpecBase Proofs.ReaderSpecSuper.

Definition sb_agree (s : superblock_spec) (v : superblock') : Prop :=
  spp_version v = sbs_version s /\ spp_offsize v = sbs_O s /\ spp_lensize v = sbs_L s /\ spp_bigendian v = false /\
  spp_root v = sbs_root s /\
  match sbs_root_entry s with
  | Some e => se_cache e = 1 -> spp_rootbtree v = se_btree e /\ spp_rootheap v = se_heap e
  | None => spp_base v = sbs_base s /\ spp_superext v = sbs_ext s
  end.

(* ------------------------------------------------------------------ the 128-byte read buffer *)
Definition sbuf (file : bytes) : bytes := firstn 128 file ++ zeros (N.to_nat (128 - N.min (blen file) 128)).

Lemma nth_error_firstn_lt (l : list N) n p : (p < n)%nat -> nth_error (firstn n l) p = nth_error l p.
Proof.
  revert n l. induction p as [|p IH]; intros [|n] [|x l] H; cbn [nth_error firstn]; auto; try blia.
  apply IH. blia.
Qed.

Lemma blen_sbuf file : blen (sbuf file) = 128.
Proof. unfold sbuf, blen. rewrite app_length, firstn_length, length_zeros. blia. Qed.

Lemma index_sbuf file p : p < N.min (blen file) 128 -> index (sbuf file) p = index file p.
Proof.
  intros H. unfold index, sbuf. unfold blen in H. rewrite nth_error_app1.
  - rewrite nth_error_firstn_lt by blia. reflexivity.
  - rewrite firstn_length. blia.
Qed.

Lemma slice_sbuf file a b : b <= N.min (blen file) 128 -> slice (sbuf file) a b = slice file a b.
Proof.
  intros H. unfold slice. rewrite blen_sbuf.
  destruct (a <=? b) eqn:E; cbn [andb]; [|reflexivity]. apply N.leb_le in E.
  rewrite (proj2 (N.leb_le b 128)) by blia. rewrite (proj2 (N.leb_le b (blen file))) by blia.
  f_equal. unfold sbuf. unfold blen in H.
  rewrite skipn_app, firstn_app.
  rewrite skipn_length, firstn_length. bnorm.
  replace (N.to_nat (b - a) - (Nat.min 128 (length file) - N.to_nat a))%nat with 0%nat by blia.
  rewrite firstn_O, app_nil_r.
  rewrite skipn_firstn_comm, firstn_firstn. f_equal. blia.
Qed.

Lemma rd_le_sbuf file p k : p + k <= N.min (blen file) 128 -> rd_le (sbuf file) p k = rd_le file p k.
Proof. intros H. unfold rd_le. now rewrite slice_sbuf. Qed.

(* a field read inside a slice is the field at the corresponding position of the whole *)
Lemma rd_le_in_slice (bs : list N) a b s i k v :
  slice bs a b = Ok s -> rd_le s i k = Ok v -> rd_le bs (a + i) k = Ok v.
Proof.
  unfold rd_le, slice. intros S R.
  destruct ((a <=? b) && (b <=? blen bs)) eqn:E; [|discriminate].
  apply andb_true_iff in E as [E1 E2]. apply N.leb_le in E1, E2. injection S as <-.
  match type of R with
  | context [if ?c then _ else _] => destruct c eqn:E3; cbn [obind] in R; [|discriminate]
  end.
  apply andb_true_iff in E3 as [_ E3]. apply N.leb_le in E3. unfold blen in E3, E2.
  rewrite firstn_length, skipn_length in E3. injection R as <-.
  replace ((a + i <=? a + i + k) && (a + i + k <=? blen bs)) with true
    by (symmetry; apply andb_true_iff; split; apply N.leb_le; unfold blen; blia).
  cbn [obind]. do 2 f_equal.
  replace (a + i + k - (a + i)) with k by blia. replace (i + k - i) with k by blia.
  rewrite skipn_firstn_comm, firstn_firstn, skipn_skipn. f_equal; [blia | f_equal; blia].
Qed.

Lemma read_value_8 (buf : list N) p v : blen buf = 128 -> p + 8 <= 128 -> rd_le buf p 8 = Ok v ->
  read_value buf p 8 false = Ok v.
Proof.
  intros L Hp R. unfold read_value. rewrite L. rewrite ltb_false_of_le by exact Hp.
  change (valid_size 8) with true. cbv beta iota. exact R.
Qed.

(* walk to the end of a successful decoder run, keeping nothing but the result *)
Ltac unwind H :=
  repeat (cbv beta iota in H;
          match type of H with
          | obind ?o _ = Ok _ =>
              let x := fresh "x" in
              destruct o as [x| |]; cbn [obind] in H; try discriminate H; try (destruct x as [? ?])
          | (if ?c then _ else _) = Ok _ => destruct c; try discriminate H
          end).

Lemma p_expect_sig_at (bs : list N) r0 :
  p_expect hdf5_sig (at_pos bs 0) = Ok (tt, r0) -> 8 <= blen bs /\ r0 = at_pos bs 8 /\ slice bs 0 8 = Ok hdf5_sig.
Proof.
  unfold p_expect. intros EX.
  destruct (p_take (length hdf5_sig) (at_pos bs 0)) as [[sg r1]| |] eqn:ET; cbn [obind] in EX; try discriminate EX.
  apply p_take_at in ET as (B0 & -> & SG & LSG); [|blia].
  destruct (bytes_eqb sg hdf5_sig) eqn:EQ; [|discriminate EX]. injection EX as <-.
  apply bytes_eqb_eq in EQ. subst sg.
  change (N.of_nat (length hdf5_sig)) with 8 in *. change (0 + 8) with 8 in *. auto.
Qed.

(* the version the specification decoder reports is byte 8 *)
Lemma spec_sb_version (bs : bytes) s tg r :
  spec_dec_superblock strict bs = Ok (s, tg, r) -> index bs 8 = Ok (sbs_version s).
Proof.
  intros H. unfold spec_dec_superblock in H. rewrite (at_pos_0 bs) in H.
  destruct (p_expect hdf5_sig (at_pos bs 0)) as [[[] r0]| |] eqn:EX; cbn [obind] in H; try discriminate H.
  apply p_expect_sig_at in EX as (B0 & -> & SG).
  s_byte H v B1 I8.
  unwind H; injection H as <- _ _; cbn [sbs_version]; exact I8.
Qed.

(* ------------------------------------------------------------------ versions 2 and 3 *)
Lemma superblock_v23_reader_spec (bs : bytes) (s : superblock_spec) (tg : list tag) (r : bytes) :
  spec_dec_superblock strict bs = Ok (s, tg, r) ->
  sbs_version s = 2 \/ sbs_version s = 3 -> sbs_O s = 8 -> sbs_L s = 8 ->
  err_or (sb_agree s) (dec_superblock_gen false bs).
Proof.
  intros H HV HO HL. pose proof (spec_sb_version _ _ _ _ H) as IV.
  unfold spec_dec_superblock in H. rewrite (at_pos_0 bs) in H.
  assert (P0 : 0 <= blen bs) by blia.
  destruct (p_expect hdf5_sig (at_pos bs 0)) as [[[] r0]| |] eqn:EX; cbn [obind] in H; try discriminate H.
  apply p_expect_sig_at in EX as (B0 & -> & SG).
  s_byte H v B1 I8.
  assert (VV : v = 2 \/ v = 3) by (rewrite I8 in IV; injection IV as EV; rewrite EV; exact HV).
  clear IV.
  replace ((v =? 0) || (v =? 1)) with false in H by (destruct VV as [-> | ->]; reflexivity).
  replace ((v =? 2) || (v =? 3)) with true in H by (destruct VV as [-> | ->]; reflexivity).
  cbv beta iota in H.
  change (8 + 1) with 9 in *.
  s_byte H osz B2 I9. change (9 + 1) with 10 in *.
  s_byte H lsz B3 I10. change (10 + 1) with 11 in *.
  s_byte H flags B4 I11. change (11 + 1) with 12 in *.
  s_guard H GS. s_guard H GF.
  s_u H base B5 RB. s_u H ext B6 RE. s_u H eof B7 RF. s_u H root B8 RR.
  s_u H stored B9 RC.
  match type of H with obind ?o _ = _ => destruct o as [tg0| |]; cbn [obind] in H; try discriminate H end.
  injection H as <- <- <-. cbn [sbs_version sbs_O sbs_L sbs_root_entry sbs_base sbs_ext sbs_root] in *.
  subst osz lsz. change (N.of_nat (N.to_nat 8)) with 8 in *. change (N.of_nat 4) with 4 in *.
  change (12 + 8) with 20 in *. change (20 + 8) with 28 in *. change (28 + 8) with 36 in *. change (36 + 8) with 44 in *.
  change (44 + 4) with 48 in *.
  (* the reader *)
  unfold dec_superblock_gen. fold (sbuf bs).
  assert (MN : 48 <= N.min (blen bs) 128) by blia.
  rewrite (ltb_false_of_le (N.min (blen bs) 128) 48) by exact MN.
  rewrite slice_sbuf by blia. rewrite SG. cbn [obind].
  change (bytes_eqb hdf5_sig signature) with true. cbv beta iota.
  rewrite index_sbuf by blia. rewrite I8. cbn [obind].
  destruct VV as [-> | ->]; cbn [N.eqb Pos.eqb orb negb andb];
    rewrite !index_sbuf by blia; rewrite I9; cbn [obind]; rewrite I10; cbn [obind];
    cbn [andb]; cbv beta iota; change (valid_size 8) with true; cbv beta iota; cbn [obind]; cbv beta iota;
    change (8 =? 0) with false; cbv beta iota; change (valid_size 8) with true; cbn [andb negb]; cbv beta iota;
    change (N.testbit 8 0) with false;
    rewrite (read_value_8 (sbuf bs) 12 base) by (try apply blen_sbuf; try blia; rewrite rd_le_sbuf by blia; exact RB);
    cbn [obind];
    change (12 + 8) with 20;
    rewrite (read_value_8 (sbuf bs) 20 ext) by (try apply blen_sbuf; try blia; rewrite rd_le_sbuf by blia; exact RE);
    cbn [obind];
    change (12 + 3 * 8) with 36;
    rewrite (read_value_8 (sbuf bs) 36 root) by (try apply blen_sbuf; try blia; rewrite rd_le_sbuf by blia; exact RR);
    cbn [obind]; repeat split.
Qed.

(* ------------------------------------------------------------------ version 0 *)
(* what a strict version 0 superblock with 8-byte sizes says about the file bytes *)
Lemma superblock_v0_spec_facts (bs : bytes) (s : superblock_spec) (tg : list tag) (r : bytes) :
  spec_dec_superblock strict bs = Ok (s, tg, r) ->
  sbs_version s = 0 -> sbs_O s = 8 -> sbs_L s = 8 ->
  96 <= blen bs /\ slice bs 0 8 = Ok hdf5_sig /\ index bs 8 = Ok 0 /\ index bs 13 = Ok 8 /\ index bs 14 = Ok 8 /\
  rd_le bs 64 8 = Ok (sbs_root s) /\
  exists e, sbs_root_entry s = Some e /\
            (se_cache e = 1 -> rd_le bs 80 8 = Ok (se_btree e) /\ rd_le bs 88 8 = Ok (se_heap e)).
Proof.
  intros H HV HO HL. pose proof (spec_sb_version _ _ _ _ H) as IV.
  unfold spec_dec_superblock in H. rewrite (at_pos_0 bs) in H.
  assert (P0 : 0 <= blen bs) by blia.
  destruct (p_expect hdf5_sig (at_pos bs 0)) as [[[] r0]| |] eqn:EX; cbn [obind] in H; try discriminate H.
  apply p_expect_sig_at in EX as (B0 & -> & SG).
  s_byte H v B1 I8.
  assert (VV : v = 0) by (rewrite I8 in IV; injection IV as EV; rewrite EV; exact HV).
  clear IV. subst v.
  change ((0 =? 0) || (0 =? 1)) with true in H. cbv beta iota in H.
  change (8 + 1) with 9 in *.
  s_byte H fsv B2 I9. change (9 + 1) with 10 in *.
  s_byte H rgv B3 I10. change (10 + 1) with 11 in *.
  s_byte H rs1 B4 I11. change (11 + 1) with 12 in *.
  s_byte H shv B5 I12. change (12 + 1) with 13 in *.
  s_byte H osz B6 I13. change (13 + 1) with 14 in *.
  s_byte H lsz B7 I14. change (14 + 1) with 15 in *.
  s_byte H rs2 B8 I15. change (15 + 1) with 16 in *.
  s_guard H G1. s_guard H G2.
  s_u H leafK B9 R16. s_u H intK B10 R18. s_guard H G3.
  s_u H flags B11 R20. s_guard H G4.
  change (0 =? 1) with false in H. cbv beta iota in H. cbn [obind] in H. cbv beta iota in H.
  s_u H base B12 RB. s_u H fsinfo B13 RFS. s_u H eof B14 RE. s_u H driver B15 RD.
  s_guard H G5.
  match type of H with
  | obind (spec_dec_sym_entry ?o ?rr) _ = _ =>
      destruct (spec_dec_sym_entry o rr) as [[e r1]| |] eqn:EE; cbn [obind] in H; try discriminate H
  end.
  injection H as <- <- <-. cbn [sbs_version sbs_O sbs_L sbs_root sbs_root_entry] in *.
  subst osz lsz.
  unfold spec_dec_sym_entry in EE.
  change (N.to_nat 8) with 8%nat in *.
  change (N.of_nat 2) with 2 in *. change (N.of_nat 4) with 4 in *. change (N.of_nat 8) with 8 in *.
  change (16 + 2) with 18 in *. change (18 + 2) with 20 in *. change (20 + 4) with 24 in *.
  change (24 + 8) with 32 in *. change (32 + 8) with 40 in *. change (40 + 8) with 48 in *. change (48 + 8) with 56 in *.
  s_u EE noff B16 RNO. change (N.of_nat 8) with 8 in *. change (56 + 8) with 64 in *.
  s_u EE obj B17 RO. change (N.of_nat 8) with 8 in *. change (64 + 8) with 72 in *.
  s_u EE cache B18 RCA. change (N.of_nat 4) with 4 in *. change (72 + 4) with 76 in *.
  s_zeros EE B19 ZR. change (N.of_nat 4) with 4 in *. change (76 + 4) with 80 in *.
  s_take EE scratch B20 SS LSC. change (N.of_nat 16) with 16 in *. change (80 + 16) with 96 in *.
  assert (EO : se_obj e = obj /\
               (se_cache e = 1 -> rd_le bs 80 8 = Ok (se_btree e) /\ rd_le bs 88 8 = Ok (se_heap e))).
  { destruct (cache =? 0) eqn:C0.
    - injection EE as <- <-. cbn [se_obj se_cache]. split; [reflexivity|discriminate].
    - destruct (cache =? 1) eqn:C1.
      + rewrite (at_pos_0 scratch) in EE. assert (PS : 0 <= blen scratch) by blia.
        s_u EE bt BB1 RB1. s_u EE hp BB2 RB2. injection EE as <- <-. cbn [se_obj se_cache se_btree se_heap].
        split; [reflexivity|]. intros _. change (N.of_nat 8) with 8 in *. change (0 + 8) with 8 in *.
        split.
        * exact (rd_le_in_slice bs 80 96 scratch 0 8 bt SS RB1).
        * exact (rd_le_in_slice bs 80 96 scratch 8 8 hp SS RB2).
      + destruct (cache =? 2) eqn:C2; [|discriminate EE].
        rewrite (at_pos_0 scratch) in EE. assert (PS : 0 <= blen scratch) by blia.
        s_u EE lo BB1 RB1. injection EE as <- <-. cbn [se_obj se_cache]. split; [reflexivity|discriminate]. }
  destruct EO as (EO1 & EO2).
  rewrite EO1. repeat split; auto. exists e. split; [reflexivity|exact EO2].
Qed.

(* what the reader makes of such bytes *)
Lemma superblock_v0_reader_facts (bs : bytes) (root : N) :
  96 <= blen bs -> slice bs 0 8 = Ok hdf5_sig -> index bs 8 = Ok 0 -> index bs 13 = Ok 8 -> index bs 14 = Ok 8 ->
  rd_le bs 64 8 = Ok root ->
  exists bt hp, rd_le bs 80 8 = Ok bt /\ rd_le bs 88 8 = Ok hp /\
    dec_superblock_gen false bs =
      Ok {| spp_version := 0; spp_offsize := 8; spp_lensize := 8; spp_bigendian := false; spp_base := 0; spp_root := root;
            spp_superext := 0; spp_driverinfo := 0; spp_rootbtree := bt; spp_rootheap := hp |}.
Proof.
  intros B20 SG I8 I13 I14 RO.
  destruct (rd_le_ok bs 80 8) as (bt' & RBT); [blia|]. destruct (rd_le_ok bs 88 8) as (hp' & RHP); [blia|].
  exists bt', hp'. split; [exact RBT|]. split; [exact RHP|].
  unfold dec_superblock_gen. fold (sbuf bs).
  assert (MN : 96 <= N.min (blen bs) 128) by blia.
  rewrite (ltb_false_of_le (N.min (blen bs) 128) 48) by blia.
  rewrite (ltb_false_of_le (N.min (blen bs) 128) 96) by blia.
  rewrite slice_sbuf by blia. rewrite SG. cbn [obind].
  change (bytes_eqb hdf5_sig signature) with true. cbv beta iota.
  rewrite index_sbuf by blia. rewrite I8. cbn [obind].
  cbn [N.eqb Pos.eqb orb negb andb]. cbv beta iota.
  rewrite !index_sbuf by blia. rewrite I13. cbn [obind]. rewrite I14. cbn [obind]. cbv beta iota.
  change (8 =? 0) with false. cbv beta iota. change (valid_size 8) with true. cbn [andb negb]. cbv beta iota.
  assert (V64 : read_value (sbuf bs) 64 8 false = Ok root).
  { apply read_value_8; [apply blen_sbuf | clear; blia | rewrite rd_le_sbuf by (clear - MN; blia); exact RO]. }
  assert (V80 : read_value (sbuf bs) 80 8 false = Ok bt').
  { apply read_value_8; [apply blen_sbuf | clear; blia | rewrite rd_le_sbuf by (clear - MN; blia); exact RBT]. }
  assert (V88 : read_value (sbuf bs) 88 8 false = Ok hp').
  { apply read_value_8; [apply blen_sbuf | clear; blia | rewrite rd_le_sbuf by (clear - MN; blia); exact RHP]. }
  rewrite V64. cbn [obind]. rewrite V80. cbn [obind]. rewrite V88. reflexivity.
Qed.

Lemma superblock_v0_reader_spec (bs : bytes) (s : superblock_spec) (tg : list tag) (r : bytes) :
  spec_dec_superblock strict bs = Ok (s, tg, r) ->
  sbs_version s = 0 -> sbs_O s = 8 -> sbs_L s = 8 ->
  err_or (sb_agree s) (dec_superblock_gen false bs).
Proof.
  intros H HV HO HL.
  destruct (superblock_v0_spec_facts bs s tg r H HV HO HL) as (B & SG & I8 & I13 & I14 & RO & e & EE & EC).
  destruct (superblock_v0_reader_facts bs (sbs_root s) B SG I8 I13 I14 RO) as (bt & hp & RBT & RHP & D).
  rewrite D. cbn [err_or]. unfold sb_agree.
  cbn [spp_version spp_offsize spp_lensize spp_bigendian spp_root spp_rootbtree spp_rootheap].
  rewrite HV, HO, HL, EE.
  split; [reflexivity|]. split; [reflexivity|]. split; [reflexivity|]. split; [reflexivity|]. split; [reflexivity|].
  intros C. destruct (EC C) as (Q1 & Q2). rewrite Q1 in RBT. rewrite Q2 in RHP.
  injection RBT as <-. injection RHP as <-. split; reflexivity.
Qed.

(* version 0, base address: the reader reports 0 whatever the superblock says (the reference library writes a non-zero
   base address only together with a user block, which moves the superblock away from file position 0, where this reader
   looks for it) *)
Definition sb0_base (base : N) : bytes :=
  hdf5_sig ++ [0; 0; 0; 0; 0; 8; 8; 0] ++ le 2 4 ++ le 2 16 ++ le 4 0
    ++ le 8 base ++ le 8 (undef 8) ++ le 8 2048 ++ le 8 (undef 8)
    ++ le 8 0 ++ le 8 96 ++ le 4 1 ++ le 4 0 ++ le 8 136 ++ le 8 680 ++ zeros 32.
Lemma superblock_v0_base_refuted :
  spec_view (sb0_base 512) = Ok (0, 8, 8, 512, 96) /\ reader_view (sb0_base 512) = Ok (0, 8, 8, 0, 96).
Proof. split; vm_compute; reflexivity. Qed.

(* the hypotheses of the two theorems are satisfiable (views: version, size of offsets, size of lengths, base, root) *)
Example superblock_v0_example : spec_view (sb0_base 0) = Ok (0, 8, 8, 0, 96).
Proof. vm_compute. reflexivity. Qed.
Example superblock_v2_example : spec_view (sb2 2 8 8 2048 48) = Ok (2, 8, 8, 0, 48).
Proof. vm_compute. reflexivity. Qed.
