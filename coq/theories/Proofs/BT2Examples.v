(* Concrete instances: refutation witnesses (computed by vm_compute on the model) and non-vacuity
   examples for the C14 theorems. *)
From HV Require Import Base.Prelude Base.Crc32 Spec.Lookup3 Model.BT2 Proofs.Lookup3 Proofs.BT2.

Local Open Scope N_scope.

Ltac le_compute := vm_compute; first [reflexivity | (let H := fresh in intro H; discriminate H)].

Lemma cfg_ok_intro m osz ns :
  osz_ok osz -> 10 <= node_size (new_bt ns) -> node_size (new_bt ns) < 4294967296 ->
  max_records (node_size (new_bt ns)) <= 65535 -> cfg_ok (mkCfg m osz ns).
Proof. intros. unfold cfg_ok, cap_ok, ns_of. cbn [c_osz c_ns]. auto. Qed.

(* ---- hash: published lookup3 vectors through the Go-shaped loop ---- *)
Example jenkins_empty : jenkins [] = 3735928559.                                       (* 0xdeadbeef *)
Proof. vm_compute. reflexivity. Qed.
Example jenkins_four_score : jenkins (ascii_bytes "Four score and seven years ago") = 393676113.   (* 0x17770551 *)
Proof. vm_compute. reflexivity. Qed.
Example jenkins_len12 : jenkins (ascii_bytes "abcdefghijkl") = hashlittle (ascii_bytes "abcdefghijkl") 0.
Proof. vm_compute. reflexivity. Qed.
Example jenkins_len24 : jenkins (repeat 255 24) = hashlittle (repeat 255 24) 0.
Proof. vm_compute. reflexivity. Qed.

(* ---- the collision: "ayou" and "cpxv" (corpus/C14/collision.json) ---- *)
Definition n_a : bytes := ascii_bytes "ayou".
Definition n_b : bytes := ascii_bytes "cpxv".
Definition coll_cfg : cfg := mkCfg MImmediate 8 4096.
Definition coll_ops : list op :=
  [OInsert n_a 1; OHas n_b; OSearch n_b; OUpdate n_b 2; OSearch n_a; ODelete n_b; OHas n_a].

Lemma coll_cfg_ok : cfg_ok coll_cfg.
Proof. apply cfg_ok_intro; [right; right; right; reflexivity| | |]; le_compute. Qed.

Lemma collision_pair : n_a <> n_b /\ jenkins n_a = jenkins n_b /\ jenkins n_a = 3167425818.
Proof. split; [intro H; vm_compute in H; discriminate H|split; vm_compute; reflexivity]. Qed.

(* after insert("ayou"): has("cpxv") = true, search("cpxv") finds ayou's id, update("cpxv") overwrites
   it, delete("cpxv") removes it -- the map says false / not found / error / unchanged / error / true *)
Lemma collision_run :
  snd (run coll_cfg coll_ops)
  = [ROk; RBool true; RFound [1;0;0;0;0;0;0;0]; ROk; RFound [2;0;0;0;0;0;0;0]; ROk; RBool false]
  /\ snd (spec_run coll_cfg coll_ops)
  = [ROk; RBool false; RNotFound; RErr; RFound [1;0;0;0;0;0;0;0]; RErr; RBool true].
Proof. split; vm_compute; reflexivity. Qed.

(* the hypothesis "no two names of the history collide" of C14_refines_map cannot be dropped *)
Theorem collision_refuted :
  ~ (forall c ops, cfg_ok c -> addr_ok c ops -> snd (run c ops) = snd (spec_run c ops)).
Proof.
  intro H. specialize (H coll_cfg coll_ops coll_cfg_ok ltac:(le_compute)).
  destruct collision_run as [A B]. rewrite A, B in H. discriminate H.
Qed.

Lemma collision_detected : has_collision (names_of coll_ops) = true.
Proof. vm_compute. reflexivity. Qed.

(* ---- node sizes below 10: the capacity computation wraps, the leaf outgrows its allocation ---- *)
Definition tiny_cfg : cfg := mkCfg MOff 8 5.
Lemma tiny_node_run :
  max_records 5 = 390451571
  /\ snd (run tiny_cfg [OInsert [97] 1; OStoreLoad]) = [ROk; RErr]
  /\ snd (spec_run tiny_cfg [OInsert [97] 1; OStoreLoad]) = [ROk; ROk].
Proof. repeat split; vm_compute; reflexivity. Qed.

(* the hypothesis 10 <= node size of cfg_ok cannot be dropped either *)
Theorem node_size_precondition_needed :
  ~ (forall c ops, osz_ok (c_osz c) -> addr_ok c ops -> has_collision (names_of ops) = false ->
       snd (run c ops) = snd (spec_run c ops)).
Proof.
  intro H. specialize (H tiny_cfg [OInsert [97] 1; OStoreLoad]
                         ltac:(right; right; right; reflexivity) ltac:(le_compute) ltac:(vm_compute; reflexivity)).
  destruct tiny_node_run as (_ & A & B). rewrite A, B in H. discriminate H.
Qed.

(* ---- non-vacuity: a history that satisfies every hypothesis, in lazy mode, capacity 2 ---- *)
Definition ex_cfg : cfg := mkCfg (MLazy 50 false) 8 32.
Definition ex_ops : list op :=
  [OInsert [97] 1; OInsert [98] 2; OInsert [99] 3; OStoreLoad; OUpdate [98] 7; ODelete [97];
   ORewrite; OSearch [98]; OHas [97]; OInsert [99] 4; OHas [99]].

Lemma ex_cfg_ok : cfg_ok ex_cfg.
Proof. apply cfg_ok_intro; [right; right; right; reflexivity| | |]; le_compute. Qed.
Lemma ex_addr_ok : addr_ok ex_cfg ex_ops.
Proof. le_compute. Qed.
Lemma ex_no_collision : has_collision (names_of ex_ops) = false.
Proof. vm_compute. reflexivity. Qed.

Example ex_results :
  snd (run ex_cfg ex_ops)
  = [ROk; ROk; RErr (* full *); ROk; ROk; ROk; ROk; RFound [7;0;0;0;0;0;0;0]; RBool false; ROk; RBool true].
Proof. vm_compute. reflexivity. Qed.

Example ex_final :
  let s := bt (fst (run ex_cfg ex_ops)) in
  hashes (recs s) = [jenkins [99]; jenkins [98]] /\ jenkins [99] <= jenkins [98]
  /\ h_nroot (header s) = 2 /\ h_total (header s) = 2 /\ List.length (leaf_recs s) = 2%nat.
Proof. cbv zeta. repeat split; try (vm_compute; reflexivity). le_compute. Qed.

(* capacity: node size 32 holds (32-10)/11 = 2 records; the third insert is refused, nothing changes *)
Example ex_capacity :
  let w := fst (run ex_cfg [OInsert [97] 1; OInsert [98] 2]) in
  max_records (node_size (bt w)) = 2 /\ N.of_nat (List.length (recs (bt w))) = 2
  /\ step ex_cfg w (OInsert [99] 3) = (w, RErr).
Proof. cbv zeta. repeat split; vm_compute; reflexivity. Qed.

(* persistence on bytes: header and leaf of a two-record index, stored and loaded back *)
Example ex_persist :
  let w := fst (run ex_cfg [OInsert [97] 1; OInsert [98] 2]) in
  let '(w1, a) := write_to_file 8 w in
  a = 96 /\ List.length (fil w1) = 134%nat
  /\ match load_from 8 (new_bt 32) (fil w1) a with
     | LOk s' => recs s' = recs (bt w) /\ h_nroot (header s') = 2 /\ encode_leaf s' = encode_leaf (bt w)
     | LErr _ => False
     end.
Proof. vm_compute. repeat split; reflexivity. Qed.

(* a flipped bit in the stored leaf is rejected by the checksum *)
Example ex_corrupt_rejected :
  let w := fst (run ex_cfg [OInsert [97] 1; OInsert [98] 2]) in
  let '(w1, a) := write_to_file 8 w in
  load_from 8 (new_bt 32) (write_at (fil w1) 71 [N.lxor (nth 71 (fil w1) 0) 1]) a = LErr 4.
Proof. vm_compute. reflexivity. Qed.

(* ---- one loaded handle written in place several times (OWriteAt: WriteAt without reload) ----
   load -> insert -> WriteAt -> delete -> WriteAt -> update -> WriteAt -> load.  The record count goes
   2 -> 3 -> 2: at the second WriteAt the in-memory header is again equal to the header that was loaded,
   while the header in the file is the one written by the first WriteAt. *)
Definition wa_cfg : cfg := mkCfg (MLazy 50 false) 8 64.          (* capacity (64-10)/11 = 4 *)
Definition wa_ops : list op :=
  [OInsert [97] 1; OInsert [98] 2; OStoreLoad;       (* a loaded handle with two records *)
   OInsert [99] 3; OWriteAt;                         (* three records, written in place *)
   ODelete [99]; OWriteAt;                           (* two records again, second write on the same handle *)
   OUpdate [97] 9; OWriteAt;                         (* update only: header bytes unchanged *)
   OSearch [97]; OHas [99]].

Lemma wa_cfg_ok : cfg_ok wa_cfg.
Proof. apply cfg_ok_intro; [right; right; right; reflexivity| | |]; le_compute. Qed.
Lemma wa_addr_ok k : addr_ok wa_cfg (firstn k wa_ops).
Proof.
  do 12 (destruct k as [|k]; [le_compute|]). le_compute.
Qed.

Example wa_results :
  snd (run wa_cfg wa_ops)
  = [ROk; ROk; ROk; ROk; ROk; ROk; ROk; ROk; ROk; RFound [9;0;0;0;0;0;0;0]; RBool false].
Proof. vm_compute. reflexivity. Qed.

(* the handle is the same object across the three writes: its loaded addresses never change and the
   lazy counters of the object survive (PendingDeletes = 1 from the lazy delete; a reload would reset it) *)
Example wa_same_handle :
  let w3 := fst (run wa_cfg (firstn 3 wa_ops)) in
  let w9 := fst (run wa_cfg (firstn 9 wa_ops)) in
  loaded_hdr (bt w9) = loaded_hdr (bt w3) /\ loaded_leaf (bt w9) = loaded_leaf (bt w3) /\ next w9 = next w3
  /\ loaded_hdr (bt w3) = 128 /\ loaded_leaf (bt w3) = 64
  /\ option_map lz_pending (lazy (bt w9)) = Some 1 /\ option_map lz_nodes (lazy (bt w9)) = Some 1.
Proof. vm_compute. repeat split; reflexivity. Qed.

(* after each of the three in-place writes, LoadFromFile of the file at the loaded header address gives
   the in-memory index: records, counts, header, addresses (everything but the lazy state) *)
Example wa_image_after_each_write :
  Forall (fun k =>
    let w := fst (run wa_cfg (firstn k wa_ops)) in
    load_from 8 (new_bt 64) (fil w) (loaded_hdr (bt w)) = LOk (strip_bt (bt w))
    /\ h_nroot (header (bt w)) = N.of_nat (List.length (recs (bt w)))) [3; 5; 7; 9]%nat.
Proof. repeat constructor; vm_compute; reflexivity. Qed.

(* ... as the general theorem says (its hypotheses are satisfiable: instance for the second write) *)
Example wa_image_by_theorem :
  let w := fst (run wa_cfg (firstn 7 wa_ops)) in
  load_from 8 (new_bt 64) (fil w) (loaded_hdr (bt w)) = LOk (with_lazy (bt w) None).
Proof.
  exact (image_after_write wa_cfg (firstn 6 wa_ops) OWriteAt (new_bt 64) wa_cfg_ok (wa_addr_ok 7)
           eq_refl ltac:(vm_compute; reflexivity)).
Qed.

(* the final load reproduces exactly the live keys with their latest values: a -> 9, b -> 2 *)
Example wa_final_load :
  let w := fst (run wa_cfg wa_ops) in
  match load_from 8 (new_bt 64) (fil w) (loaded_hdr (bt w)) with
  | LOk s' => recs s' = recs (bt w) /\ h_nroot (header s') = 2 /\ h_total (header s') = 2
              /\ search_record s' [97] = Some [9;0;0;0;0;0;0;0] /\ search_record s' [98] = Some [2;0;0;0;0;0;0;0]
              /\ has_key s' [99] = false
  | LErr _ => False
  end.
Proof. vm_compute. repeat split; reflexivity. Qed.

(* what the theorem excludes: if the second WriteAt rewrote the leaf but left the header of the first
   WriteAt in the file (record count 3), the image would not load: the header asks for 3 records, the leaf
   checksum sits after 2 *)
Example wa_stale_header_would_not_load :
  let w := fst (run wa_cfg (firstn 6 wa_ops)) in
  let f := write_at (fil w) (loaded_leaf (bt w)) (encode_leaf (bt w)) in
  load_from 8 (new_bt 64) f (loaded_hdr (bt w)) = LErr 4.
Proof. vm_compute. reflexivity. Qed.

(* WriteToFile on a loaded handle (OStore) does not move the handle: a following WriteAt still goes to the
   loaded addresses, and both images load *)
Example wa_store_keeps_loaded_addresses :
  let w := fst (run wa_cfg [OInsert [97] 1; OStoreLoad; OInsert [98] 2; OStore; ODelete [97]; OWriteAt]) in
  loaded_hdr (bt w) = 128 /\ loaded_leaf (bt w) = 64 /\ h_root (header (bt w)) = 64
  /\ match load_from 8 (new_bt 64) (fil w) 128, load_from 8 (new_bt 64) (fil w) 230 with
     | LOk s1, LOk s2 => hashes (recs s1) = [jenkins [98]] /\ List.length (recs s2) = 2%nat /\ h_root (header s2) = 166
     | _, _ => False
     end.
Proof. vm_compute. repeat split; reflexivity. Qed.
