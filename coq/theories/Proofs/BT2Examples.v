(* Concrete instances: refutation witnesses (computed by vm_compute on the model) and non-vacuity
   examples for the C14 theorems. *)
From HV Require Import Base.Prelude Base.Crc32 Spec.Lookup3 Model.BT2 Proofs.Lookup3 Proofs.BT2.

Local Open Scope N_scope.

Ltac le_compute := vm_compute; first [reflexivity | (let H := fresh in intro H; discriminate H)].

Lemma cfg_ok_intro m osz ns :
  osz_ok osz -> 10 <= node_size (new_bt ns) -> node_size (new_bt ns) < 4294967296 ->
  max_records (node_size (new_bt ns)) <= 65535 -> cfg_ok (mkCfg m osz ns).
Proof. intros. unfold cfg_ok, cap_ok, ns_of. cbn [c_osz c_ns]. auto. Qed.

(* ---- hash: published lookup3 vectors through the Go-shaped loop ---- *)
Example jenkins_empty : jenkins [] = 3735928559.                                       (* 0xdeadbeef *)
Proof. vm_compute. reflexivity. Qed.
Example jenkins_four_score : jenkins (ascii_bytes "Four score and seven years ago") = 393676113.   (* 0x17770551 *)
Proof. vm_compute. reflexivity. Qed.
Example jenkins_len12 : jenkins (ascii_bytes "abcdefghijkl") = hashlittle (ascii_bytes "abcdefghijkl") 0.
Proof. vm_compute. reflexivity. Qed.
Example jenkins_len24 : jenkins (repeat 255 24) = hashlittle (repeat 255 24) 0.
Proof. vm_compute. reflexivity. Qed.

(* ---- the collision: "ayou" and "cpxv" (corpus/C14/collision.json) ---- *)
Definition n_a : bytes := ascii_bytes "ayou".
Definition n_b : bytes := ascii_bytes "cpxv".
Definition coll_cfg : cfg := mkCfg MImmediate 8 4096.
Definition coll_ops : list op :=
  [OInsert n_a 1; OHas n_b; OSearch n_b; OUpdate n_b 2; OSearch n_a; ODelete n_b; OHas n_a].

Lemma coll_cfg_ok : cfg_ok coll_cfg.
Proof. apply cfg_ok_intro; [right; right; right; reflexivity| | |]; le_compute. Qed.

Lemma collision_pair : n_a <> n_b /\ jenkins n_a = jenkins n_b /\ jenkins n_a = 3167425818.
Proof. split; [intro H; vm_compute in H; discriminate H|split; vm_compute; reflexivity]. Qed.

(* after insert("ayou"): has("cpxv") = true, search("cpxv") finds ayou's id, update("cpxv") overwrites
   it, delete("cpxv") removes it -- the map says false / not found / error / unchanged / error / true *)
Lemma collision_run :
  snd (run coll_cfg coll_ops)
  = [ROk; RBool true; RFound [1;0;0;0;0;0;0;0]; ROk; RFound [2;0;0;0;0;0;0;0]; ROk; RBool false]
  /\ snd (spec_run coll_cfg coll_ops)
  = [ROk; RBool false; RNotFound; RErr; RFound [1;0;0;0;0;0;0;0]; RErr; RBool true].
Proof. split; vm_compute; reflexivity. Qed.

(* the hypothesis "no two names of the history collide" of C14_refines_map cannot be dropped *)
Theorem collision_refuted :
  ~ (forall c ops, cfg_ok c -> addr_ok c ops -> snd (run c ops) = snd (spec_run c ops)).
Proof.
  intro H. specialize (H coll_cfg coll_ops coll_cfg_ok ltac:(le_compute)).
  destruct collision_run as [A B]. rewrite A, B in H. discriminate H.
Qed.

Lemma collision_detected : has_collision (names_of coll_ops) = true.
Proof. vm_compute. reflexivity. Qed.

(* ---- node sizes below 10: the capacity computation wraps, the leaf outgrows its allocation ---- *)
Definition tiny_cfg : cfg := mkCfg MOff 8 5.
Lemma tiny_node_run :
  max_records 5 = 390451571
  /\ snd (run tiny_cfg [OInsert [97] 1; OStoreLoad]) = [ROk; RErr]
  /\ snd (spec_run tiny_cfg [OInsert [97] 1; OStoreLoad]) = [ROk; ROk].
Proof. repeat split; vm_compute; reflexivity. Qed.

(* the hypothesis 10 <= node size of cfg_ok cannot be dropped either *)
Theorem node_size_precondition_needed :
  ~ (forall c ops, osz_ok (c_osz c) -> addr_ok c ops -> has_collision (names_of ops) = false ->
       snd (run c ops) = snd (spec_run c ops)).
Proof.
  intro H. specialize (H tiny_cfg [OInsert [97] 1; OStoreLoad]
                         ltac:(right; right; right; reflexivity) ltac:(le_compute) ltac:(vm_compute; reflexivity)).
  destruct tiny_node_run as (_ & A & B). rewrite A, B in H. discriminate H.
Qed.

(* ---- non-vacuity: a history that satisfies every hypothesis, in lazy mode, capacity 2 ---- *)
Definition ex_cfg : cfg := mkCfg (MLazy 50 false) 8 32.
Definition ex_ops : list op :=
  [OInsert [97] 1; OInsert [98] 2; OInsert [99] 3; OStoreLoad; OUpdate [98] 7; ODelete [97];
   ORewrite; OSearch [98]; OHas [97]; OInsert [99] 4; OHas [99]].

Lemma ex_cfg_ok : cfg_ok ex_cfg.
Proof. apply cfg_ok_intro; [right; right; right; reflexivity| | |]; le_compute. Qed.
Lemma ex_addr_ok : addr_ok ex_cfg ex_ops.
Proof. le_compute. Qed.
Lemma ex_no_collision : has_collision (names_of ex_ops) = false.
Proof. vm_compute. reflexivity. Qed.

Example ex_results :
  snd (run ex_cfg ex_ops)
  = [ROk; ROk; RErr (* full *); ROk; ROk; ROk; ROk; RFound [7;0;0;0;0;0;0;0]; RBool false; ROk; RBool true].
Proof. vm_compute. reflexivity. Qed.

Example ex_final :
  let s := bt (fst (run ex_cfg ex_ops)) in
  hashes (recs s) = [jenkins [99]; jenkins [98]] /\ jenkins [99] <= jenkins [98]
  /\ h_nroot (header s) = 2 /\ h_total (header s) = 2 /\ List.length (leaf_recs s) = 2%nat.
Proof. cbv zeta. repeat split; try (vm_compute; reflexivity). le_compute. Qed.

(* capacity: node size 32 holds (32-10)/11 = 2 records; the third insert is refused, nothing changes *)
Example ex_capacity :
  let w := fst (run ex_cfg [OInsert [97] 1; OInsert [98] 2]) in
  max_records (node_size (bt w)) = 2 /\ N.of_nat (List.length (recs (bt w))) = 2
  /\ step ex_cfg w (OInsert [99] 3) = (w, RErr).
Proof. cbv zeta. repeat split; vm_compute; reflexivity. Qed.

(* persistence on bytes: header and leaf of a two-record index, stored and loaded back *)
Example ex_persist :
  let w := fst (run ex_cfg [OInsert [97] 1; OInsert [98] 2]) in
  let '(w1, a) := write_to_file 8 w in
  a = 96 /\ List.length (fil w1) = 134%nat
  /\ match load_from 8 (new_bt 32) (fil w1) a with
     | LOk s' => recs s' = recs (bt w) /\ h_nroot (header s') = 2 /\ encode_leaf s' = encode_leaf (bt w)
     | LErr _ => False
     end.
Proof. vm_compute. repeat split; reflexivity. Qed.

(* a flipped bit in the stored leaf is rejected by the checksum *)
Example ex_corrupt_rejected :
  let w := fst (run ex_cfg [OInsert [97] 1; OInsert [98] 2]) in
  let '(w1, a) := write_to_file 8 w in
  load_from 8 (new_bt 32) (write_at (fil w1) 71 [N.lxor (nth 71 (fil w1) 0) 1]) a = LErr 4.
Proof. vm_compute. reflexivity. Qed.
