(* C01 end to end, chunked: on image_v2_chunked the dataset read program (api_read_raw, Model/IOProgReader.v) returns chunks
   that, scattered as readChunkedData does, are exactly the written data.  Composition of
     - Proofs/FileImageChunked.v   the image from 2457 on is what the writer model write_chunked_file appends,
     - Proofs/ChunkEndToEnd.v      chunked_end_to_end: the function model of the reader returns the data on that file,
     - Proofs/ChunkRefine.v        chunked_branch_refines: the reader program refines the function model,
     - Proofs/FileImageOhdr.v      the object header stage, and the C11 message round trips. *)
From HV Require Import Base.Prelude Model.Chunk Base.Outcome Base.Bytes Model.RobustTerm Model.ChunkIndex.
From HV Require Import Model.IOProg Proofs.IOProg Model.IOProgReader.
From HV Require Import Model.CodecSuper Model.CodecOhdr Model.CodecMsg Model.CodecType Model.CodecLink Model.GroupWire.
From HV Require Import Proofs.CodecSuper Proofs.CodecOhdr Proofs.CodecMsg Proofs.CodecType.
From HV Require Import Proofs.ChunkLists Proofs.ChunkSpec Proofs.ChunkCoords Proofs.ChunkTiling Proofs.ChunkIndex Proofs.ChunkEndToEnd.
From HV Require Import Model.FileImage Proofs.FileImage Proofs.FileImageOhdr Proofs.FileImageData Proofs.FileImageOpen Proofs.FileImageProd
  Model.FileImageChunked Proofs.ChunkRefine Proofs.FileImageChunked.

From Coq Require Import Permutation.
Local Open Scope N_scope.

(* ------------------------------------------------------------------ the root node the writer emits is a leaf *)
Lemma parse_node_level0 f a n cd nd k X :
  placed f a (node_header k ++ X) -> parse_node true f a 8 n cd = Ok nd -> n_level nd = 0.
Proof.
  intros HP H. unfold parse_node in H. change (8 + 8 * 2) with 24 in H.
  destruct (read_at f a 24) as [h|] eqn:Eh; [|discriminate].
  apply read_at_some in Eh as [_ ->].
  assert (Eh : rd f a 24 = node_header k).
  { apply placed_head in HP. rewrite <- (placed_rd_exact _ _ _ HP). now rewrite blen_node_header. }
  rewrite Eh in H. set (h := node_header k) in *.
  assert (I5 : index h 5 = Ok 0) by reflexivity.
  destruct (slice h 0 4) as [sg| |]; cbn [obind] in H; try discriminate.
  destruct (negb (bytes_eqb sg SIG_TREE)); try discriminate.
  destruct (index h 4) as [ty| |]; cbn [obind] in H; try discriminate. rewrite I5 in H. cbn [obind] in H.
  destruct (rd_le h 6 2) as [eu| |]; cbn [obind] in H; try discriminate.
  destruct (slice_from h 8) as [t1| |]; cbn [obind] in H; try discriminate.
  destruct (slice_from h (8 + 8)) as [t2| |]; cbn [obind] in H; try discriminate.
  destruct (eu =? 0); [injection H as <-; reflexivity|].
  destruct (read_bytes_at f _ _); [|discriminate].
  destruct (parse_entries _ _ _ _ _ _ _ _); cbn [obind] in H; try discriminate.
  injection H as <-. reflexivity.
Qed.

(* ------------------------------------------------------------------ sizes *)
Lemma chunks_blen dims cdims esz data : length cdims = length dims -> lenN data = vol dims esz ->
  forall L, Forall (fun c => length c = length dims) L ->
  blen (concat (map snd (map (fun c => (chunk_key cdims c, extract_padded dims cdims esz data c)) L)))
  = N.of_nat (length L) * vol cdims esz.
Proof.
  intros Hc Hd. induction 1 as [|c L Hl _ IH]; [reflexivity|].
  cbn [map snd concat length]. rewrite blen_app, IH.
  pose proof (lenN_extract_padded dims cdims esz data c Hc Hl Hd) as E. unfold lenN in E. unfold blen at 1. bnorm. rewrite E. blia.
Qed.

Lemma cdims_ok_facts : forall dims cdims, cdims_ok dims cdims = true ->
  length cdims = length dims /\ posl cdims /\ Forall2 N.le cdims dims.
Proof.
  induction dims as [|d ds IH]; intros [|c cs] H; cbn [cdims_ok] in H; try discriminate.
  - repeat split; constructor.
  - apply andb_true_iff in H as [H H3]. apply andb_true_iff in H as [H1 H2].
    apply N.ltb_lt in H1. apply N.leb_le in H2. destruct (IH _ H3) as (L & P & F).
    cbn [length]. repeat split; [blia | constructor; auto | constructor; auto].
Qed.

Lemma Forall2_le_bound (a b : list N) M : Forall2 N.le a b -> Forall (fun x => x <= M) b -> Forall (fun x => x <= M) a.
Proof. induction 1; intros Hb; constructor; inversion Hb; subst; auto; blia. Qed.

Lemma loop_entries_spec dim : forall cks eof, Forall (fun kd : list N * bytes => length (fst kd) = dim) cks ->
  Forall (fun e => length (w_coord e) = dim) (loop_entries cks eof) /\ length (loop_entries cks eof) = length cks.
Proof.
  induction cks as [|[k d] r IH]; intros eof H; cbn [loop_entries]; [split; [constructor|reflexivity]|].
  inversion H; subst. destruct (IH (wrap64 (eof + blen d)) ltac:(assumption)) as [F L]. split; [constructor; auto|cbn [length]; blia].
Qed.

Lemma fold_mul_prodN : forall l a, fold_left N.mul l a = a * prodN l.
Proof. induction l as [|x l IH]; intros a; cbn [fold_left prodN fold_right]; [blia|]. rewrite IH. fold (prodN l). blia. Qed.

Section ImageC.
Variable name : bytes.
Variables class size cbf : N.
Variables dims cdims : list N.
Variable data : bytes.
Hypothesis Hname : link_name_ok name = true.
Hypothesis Hdt : basic_dtype class size cbf = true.
Hypothesis Hdims : dims_ok_chunked dims = true.
Hypothesis Hcd : cdims_ok dims cdims = true.
Hypothesis Hlen : blen data = prodN dims * size.
Hypothesis Hbound : blen data < 4294967296.
Hypothesis Hchunk : prodN cdims * size <= 1073741824.
Hypothesis Hcap : total_chunks (num_chunks dims cdims) <= 65535.

Local Notation f := (image_v2_chunked name class size cbf dims cdims data).
Local Notation dso := (c_dset_ohdr class size cbf dims cdims data).
Local Notation dsb := (c_dset_block class size cbf dims cdims data).
Local Notation cb := (c_chunk_bytes size dims cdims data).
Local Notation leaf := (c_leaf size dims cdims data).
Local Notation pre := (c_prefix name class size cbf dims cdims data).
Local Notation bta := (c_btree_addr size dims cdims data).

Lemma Hdims' : dims_ok dims = true.
Proof using Hdims. clear - Hdims. unfold dims_ok_chunked in Hdims. now apply andb_true_iff in Hdims as [H _]. Qed.
Lemma rank17 : (1 <= length dims <= 17)%nat.
Proof using Hdims. clear - Hdims. pose proof (rank_bounds dims Hdims'). unfold dims_ok_chunked in Hdims.
  apply andb_true_iff in Hdims as [_ H17]. apply Nat.leb_le in H17. blia. Qed.
Lemma c_shape : shape_ok dims cdims size.
Proof using Hdt Hdims Hcd. clear - Hdt Hdims Hcd.
  destruct (cdims_ok_facts _ _ Hcd) as (L & P & _). pose proof rank17. pose proof (size_pos _ _ _ Hdt).
  repeat split; auto; try blia.
  - intros ->. cbn [length] in *. blia.
  - exact (dims_ok_pos dims Hdims').
Qed.
Lemma c_lenN : lenN data = vol dims size.
Proof using Hlen. clear - Hlen. unfold lenN, vol. exact Hlen. Qed.
Lemma cdims_u32 : u32_ok cdims = true.
Proof using Hdt Hdims Hcd Hlen Hbound. clear - Hdt Hdims Hcd Hlen Hbound.
  destruct (cdims_ok_facts _ _ Hcd) as (_ & _ & F). pose proof (le_prodN dims (dims_ok_pos dims Hdims')) as HP.
  pose proof (size_pos _ _ _ Hdt) as [S1 _]. unfold u32_ok. apply forallb_forall. intros x Hx. apply N.ltb_lt.
  pose proof (Forall2_le_bound _ _ _ F HP) as HC. rewrite Forall_forall in HC. specialize (HC x Hx). cbv beta in HC. nia.
Qed.

Lemma chunks_len : blen cb = total_chunks (num_chunks dims cdims) * vol cdims size.
Proof using Hdt Hdims Hcd Hlen. clear - Hdt Hdims Hcd Hlen.
  pose proof c_shape as (Hne & Hc & Hpd & Hpc & Hez).
  unfold c_chunk_bytes, c_chunks, write_chunks. rewrite (chunks_blen dims cdims size data Hc c_lenN).
  - unfold all_chunk_coords. rewrite map_length, length_rangeN. blia.
  - apply Forall_forall. intros c Hin. rewrite all_chunk_coords_enum in Hin by auto.
    pose proof (in_coords_length _ _ Hin) as L. rewrite length_num_chunks in L by auto. exact L.
Qed.

Lemma wf_cly : wf_layout SBP (LChunked cdims bta) = true.
Proof using Hdt Hdims Hcd Hlen Hbound Hchunk Hcap. clear - Hdt Hdims Hcd Hlen Hbound Hchunk Hcap.
  destruct (cdims_ok_facts _ _ Hcd) as (L & _ & _). pose proof rank17.
  unfold wf_layout. cbn [sb_ok SBP sb_offsize sb_lensize sb_version encok_layout]. rewrite cdims_u32.
  replace (length cdims =? 0)%nat with false by (symmetry; apply Nat.eqb_neq; blia).
  replace (length cdims <=? 255)%nat with true by (symmetry; apply Nat.leb_le; blia).
  replace (bta <? 256 ^ 8) with true; [reflexivity|]. symmetry. apply N.ltb_lt.
  unfold c_btree_addr. rewrite chunks_len. change CHUNKS_ADDR with 2457. change (256 ^ 8) with 18446744073709551616.
  unfold vol. nia.
Qed.
Lemma cly_msg_len : blen (enc_layout SBP (LChunked cdims bta)) = 11 + 4 * blen cdims.
Proof using Hdt Hdims Hcd Hlen Hbound Hchunk Hcap. clear - Hdt Hdims Hcd Hlen Hbound Hchunk Hcap.
  rewrite layout_blen by exact wf_cly. cbn [size_layout SBP sb_offsize]. blia. Qed.
Lemma c_dso_chunk : chunk_size_v2 (oh_msgs dso) = (if class =? DT_FIXED then 12 else 20) + 12 * blen dims + 31.
Proof using Hdt Hdims Hcd Hlen Hbound Hchunk Hcap. clear - Hdt Hdims Hcd Hlen Hbound Hchunk Hcap.
  destruct (cdims_ok_facts _ _ Hcd) as (L & _ & _).
  unfold c_dset_ohdr. cbn [oh_msgs chunk_size_v2 fold_right hm_data].
  rewrite (dt_msg_len _ _ _ Hdt), ds_msg_len, cly_msg_len. unfold blen. rewrite L. blia.
Qed.
Lemma c_dso_bound : chunk_size_v2 (oh_msgs dso) <= 255.
Proof using Hdt Hdims Hcd Hlen Hbound Hchunk Hcap. clear - Hdt Hdims Hcd Hlen Hbound Hchunk Hcap.
  rewrite c_dso_chunk. pose proof rank17. unfold blen. destruct (class =? DT_FIXED); blia. Qed.
Lemma c_dso_ok : ohdr_ok dso.
Proof using Hdt Hdims Hcd Hlen Hbound Hchunk Hcap. clear - Hdt Hdims Hcd Hlen Hbound Hchunk Hcap.
  unfold ohdr_ok. split; [reflexivity|]. split; [reflexivity|]. split; [exact c_dso_bound|]. split; [discriminate|].
  unfold c_dset_ohdr. cbn [oh_msgs]. repeat constructor; cbn [hm_type hm_data]; unfold MSG_CONT; try blia; try discriminate.
  - rewrite (dt_msg_len _ _ _ Hdt). destruct (class =? DT_FIXED); blia.
  - rewrite ds_msg_len. blia.
  - rewrite cly_msg_len. blia.
Qed.

Lemma leaf_shape : exists X, leaf = node_header (N.of_nat (length (sort_entries (c_entries size dims cdims data)))) ++ X.
Proof using. clear. unfold c_leaf, serialize_leaf. eexists. reflexivity. Qed.
Lemma leaf_len : 24 <= blen leaf.
Proof using. clear. destruct leaf_shape as (X & ->). rewrite blen_app, blen_node_header. blia. Qed.

Lemma c_dset_header fuel : (3 < fuel)%nat -> run0 f (p_ohdr SB' fuel 2195) = Ok (proj_ohdr_v2 false dso 2195).
Proof using Hname Hdt Hdims Hcd Hlen Hbound Hchunk Hcap.
  intros Hf.
  apply (p_ohdr_placed SB' fuel f 2195 dso (zeros (N.to_nat (OHDR_RESERVE - size_ohdr_v2 dso)) ++ cb ++ leaf) c_dso_ok).
  - pose proof (PC_dset_rest name class size cbf dims cdims data Hname) as H. unfold c_dset_block in H.
    rewrite <- app_assoc in H. exact H.
  - rewrite !blen_app. pose proof leaf_len. blia.
  - exact Hf.
  - reflexivity.
Qed.

(* the function model of the reader on the image *)
Lemma model_read : read_chunked_file true f bta 8 dims cdims size = COk data.
Proof using Hname Hdt Hdims Hcd Hlen Hbound Hchunk Hcap.
  pose proof c_shape as Hs. pose proof Hs as (Hne & Hc & Hpd & Hpc & Hez). pose proof rank17 as R.
  pose proof (pre_len name class size cbf dims cdims data Hname c_dso_bound) as PL.
  assert (HB : vol cdims size <= MAX_CHUNK) by (unfold vol, MAX_CHUNK; exact Hchunk).
  assert (HV : vol dims size <= MAX_CHUNK * 1024) by (unfold vol, MAX_CHUNK; rewrite <- Hlen; blia).
  assert (HG : 2457 + chunked_file_growth dims cdims size <= MAXINT64).
  { unfold chunked_file_growth, MAXINT64, MAX_ENTRIES, MAX_CHUNK in *.
    set (n := total_chunks (num_chunks dims cdims)) in *. set (B := vol cdims size) in *.
    assert (n * B <= 65535 * 1073741824) by (apply N.mul_le_mono; auto).
    assert (N.of_nat (length dims) <= 17) by blia.
    assert (n * (16 + 8 * N.of_nat (length dims)) <= 65535 * 152) by (apply N.mul_le_mono; blia). blia. }
  destruct (chunked_end_to_end dims cdims size data pre 2457 Hs c_lenN Hcap HB HV HG) as (f' & eof' & root & Hw & Hr).
  rewrite <- PL in Hw.
  apply write_chunked_file_appends in Hw.
  - cbv zeta in Hw. destruct Hw as [-> ->]. rewrite PL in Hr.
    rewrite (image_split name class size cbf dims cdims data). exact Hr.
  - rewrite PL. fold (c_chunks size dims cdims data). fold cb. rewrite chunks_len.
    unfold MAX_CHUNK in HB. assert (total_chunks (num_chunks dims cdims) * vol cdims size <= 65535 * 1073741824) by (apply N.mul_le_mono; auto).
    blia.
Qed.

Lemma c_leaf_len : blen leaf = 24 + total_chunks (num_chunks dims cdims) * (16 + 8 * N.of_nat (length dims)) + (8 + 8 * N.of_nat (length dims)).
Proof using Hdt Hdims Hcd. clear - Hdt Hdims Hcd.
  pose proof c_shape as (Hne & Hc & Hpd & Hpc & Hez).
  assert (Hck : Forall (fun kd : list N * bytes => length (fst kd) = length dims) (c_chunks size dims cdims data)).
  { unfold c_chunks, write_chunks. apply Forall_forall. intros kd Hin. apply in_map_iff in Hin as (c & <- & Hin). cbn [fst].
    rewrite all_chunk_coords_enum in Hin by auto. pose proof (in_coords_length _ _ Hin) as L. rewrite length_num_chunks in L by auto.
    rewrite length_chunk_key; blia. }
  destruct (loop_entries_spec _ _ CHUNKS_ADDR Hck) as [F L]. fold (c_entries size dims cdims data) in F, L.
  pose proof (sort_entries_perm (c_entries size dims cdims data)) as P.
  unfold c_leaf, serialize_leaf. rewrite !blen_app, blen_node_header, blen_enc_key, repeat_length.
  rewrite (blen_enc_entries (length dims)) by (eapply Permutation_Forall; [apply Permutation_sym, P|exact F]).
  rewrite (Permutation_length P), L. unfold c_chunks, write_chunks, all_chunk_coords. rewrite !map_length, length_rangeN. blia.
Qed.

Theorem dataset_read_chunked fuel : (3 < fuel)%nat ->
  exists cs, run0 f (api_read_raw SB' fuel 2195) = Ok (RawChunks cs) /\ assemble_chunks dims cdims size cs = COk data.
Proof using Hname Hdt Hdims Hcd Hlen Hbound Hchunk Hcap.
  intros Hf. pose proof c_shape as (Hne & Hc & Hpd & Hpc & Hez). pose proof rank17 as R.
  assert (Hf63 : blen f <= MAXI64).
  { rewrite (image_c_len name class size cbf dims cdims data Hname c_dso_bound). unfold c_eof, c_btree_addr.
    rewrite chunks_len, c_leaf_len. change CHUNKS_ADDR with 2457. unfold MAXI64, vol.
    set (n := total_chunks (num_chunks dims cdims)) in *.
    assert (n * (prodN cdims * size) <= 65535 * 1073741824) by (apply N.mul_le_mono; auto).
    assert (n * (16 + 8 * N.of_nat (length dims)) <= 65535 * 152) by (apply N.mul_le_mono; blia). blia. }
  assert (Hap : all_pos cdims = true).
  { unfold all_pos. apply forallb_forall. intros x Hx. apply N.ltb_lt. rewrite Forall_forall in Hpc. auto. }
  assert (Hlv : forall nd, parse_node true f bta 8 (length cdims) cdims = Ok nd -> n_level nd = 0).
  { intros nd Hnd. destruct leaf_shape as (X & EX).
    pose proof (PC_leaf name class size cbf dims cdims data Hname c_dso_bound) as PL. rewrite EX in PL.
    exact (parse_node_level0 _ _ _ _ _ _ _ PL Hnd). }
  destruct (chunked_branch_refines SB' eq_refl f bta dims cdims size data fuel Hf63 Hap ltac:(blia) Hlv model_read) as (cs & Erun & Has).
  exists cs. split; [|exact Has].
  unfold api_read_raw. rewrite run0_bind, (c_dset_header fuel Hf). rewrite run0_swallow.
  unfold proj_ohdr_v2, c_dset_ohdr. cbn [oh_msgs oh_flags msgs_at_v2 ohp_msgs hm_type hm_data].
  rewrite dset_attrs. cbn [bind]. rewrite run0_ret.
  unfold p_dataset_raw. cbn [find_msg fold_left hmp_type hmp_data N.eqb Pos.eqb].
  rewrite (datatype_roundtrip _ (wf_dt _ _ _ Hdt)), (dataspace_roundtrip _ (wf_ds _ Hdims')).
  change (sbp SB') with SBP. rewrite (layout_roundtrip _ _ wf_cly).
  cbn [obind lift bind fst snd proj_dataspace proj_layout dsp_type dsp_dims ds_dims ly_class ly_addr ly_compact ly_chunk N.eqb Pos.eqb].
  fold (total_elements dims).
  assert (Hsz : dt_size (proj_datatype (dtype_msg class size cbf)) = size).
  { unfold proj_datatype, dtype_msg. cbn [dt_class dt_size]. destruct (dtype_cases _ _ _ Hdt) as [(-> & _)|(-> & _)]; reflexivity. }
  rewrite Hsz.
  assert (Htot : total_elements dims = prodN dims).
  { apply total_elements_prod; [|exact Hpd]. pose proof (size_pos _ _ _ Hdt). nia. }
  assert (Hp0 : 0 < prodN dims) by (apply ChunkCoords.prodN_pos; exact Hpd).
  replace (total_elements dims =? 0) with false by (symmetry; apply N.eqb_neq; rewrite Htot; blia).
  replace (length cdims <? length dims)%nat with false by (symmetry; apply Nat.ltb_ge; blia).
  unfold chunked_branch in Erun. exact Erun.
Qed.
End ImageC.
