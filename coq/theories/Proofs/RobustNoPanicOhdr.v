(* C07: the object-header readers never panic.
   Version 2: unconditionally.  Version 1 and ReadObjectHeader: for every file image shorter than 2^64
   bytes, or consisting of bytes (< 256); see the comment at [v1_loop_np_partial] for why the model
   needs one of the two. *)
From HV Require Import Base.Prelude Base.Outcome Base.Bytes.
From HV Require Import Model.CodecOhdr.
From HV Require Import Proofs.RobustNoPanicBase.

(* ------------------------------------------------------------------ version 2 *)

Lemma v2_loop_np fuel : forall file isBE hdr current end_, np (v2_loop fuel file isBE hdr current end_).
Proof.
  induction fuel as [|fuel IH]; intros; cbn [v2_loop]; [apply np_err|].
  unfold readable. np_go.
Qed.
#[export] Hint Resolve v2_loop_np : np.

Lemma parse_v2_np file addr flags isBE sbBE version : np (parse_v2 file addr flags isBE sbBE version).
Proof. unfold parse_v2, readable. np_go. Qed.

(* ------------------------------------------------------------------ version 1 *)

Lemma rd_end_np file off k bigendian : off + k <= blen file -> np (rd_end file off k bigendian).
Proof. intros H. unfold rd_end. np_go. Qed.

(* The model guards the message-data read with  readable file (wrap64 (current + 8)) size  (Go:
   r.ReadAt(data, int64(current+8)) on uint64 current) but slices the image at the unwrapped
   current + 8.  The two agree whenever current + 8 < 2^64, which follows from the preceding
   readable file current 8  when the image is shorter than 2^64 bytes, and from  current < end_  when
   end_ <= 2^64 - 8. *)
Lemma v1_loop_np_partial fuel : forall file sbBE current end_ count max,
  blen file < 18446744073709551616 \/ end_ + 8 <= 18446744073709551616 ->
  np (v1_loop fuel file sbBE current end_ count max).
Proof.
  induction fuel as [|fuel IH]; intros file sbBE current end_ count max Hs; cbn [v1_loop]; [apply np_err|].
  unfold readable. np_go.
  all: try (apply rd_end_np; np_side).
  all: try (apply IH; exact Hs).
  bool_hyps.
  assert (Hw : wrap64 (current + 8) = current + 8) by (unfold wrap64; apply N.mod_small; blia).
  rewrite Hw in *. apply slice_np; blia.
Qed.

Lemma parse_v1_np_partial file addr flags sbBE :
  blen file < 18446744073709551616 -> np (parse_v1 file addr flags sbBE).
Proof.
  intros Hs. unfold parse_v1, readable. np_go.
  all: try (apply rd_end_np; np_side).
  apply v1_loop_np_partial. left; exact Hs.
Qed.

Lemma dec_ohdr_np_partial sbBE file addr :
  blen file < 18446744073709551616 -> np (dec_ohdr sbBE file addr).
Proof.
  intros Hs. unfold dec_ohdr, readable. cbv zeta.
  destruct (9223372036854775808 <=? addr) eqn:Ea; [apply np_err|].
  destruct (negb (addr + 8 <=? blen file)) eqn:Er; [apply np_err|].
  apply np_bind; [np_go|]. intros p Hp. apply slice_len in Hp.
  replace (addr + 8 - addr) with 8 in Hp by blia.
  np_go.
  all: first [ apply parse_v1_np_partial; exact Hs | apply parse_v2_np ].
Qed.

(* ---- the same for images of any length whose elements are bytes ---- *)

Lemma bytes_ok_firstn n (l : list N) : bytes_ok l = true -> bytes_ok (firstn n l) = true.
Proof.
  revert l. induction n as [|n IH]; intros [|x l]; cbn [firstn bytes_ok forallb]; auto.
  intros H. apply andb_true_iff in H as [H1 H2]. apply andb_true_iff; split; [exact H1 | apply IH; exact H2].
Qed.
Lemma bytes_ok_skipn n (l : list N) : bytes_ok l = true -> bytes_ok (skipn n l) = true.
Proof.
  revert l. induction n as [|n IH]; intros [|x l]; cbn [skipn bytes_ok forallb]; auto.
  intros H. apply andb_true_iff in H as [H1 H2]. apply IH; exact H2.
Qed.
Lemma bytes_ok_rev (l : list N) : bytes_ok l = true -> bytes_ok (rev l) = true.
Proof.
  intros H. unfold bytes_ok in *. rewrite forallb_forall in *. intros x Hx. apply H. apply in_rev. exact Hx.
Qed.
Lemma slice_bytes_ok (bs : list N) a b s : bytes_ok bs = true -> slice bs a b = Ok s -> bytes_ok s = true.
Proof.
  unfold slice. destruct ((a <=? b) && (b <=? blen bs)); [|discriminate].
  intros H E; injection E as <-. apply bytes_ok_firstn, bytes_ok_skipn, H.
Qed.
Lemma unle_bound (s : list N) : bytes_ok s = true -> unle s < 256 ^ blen s.
Proof.
  induction s as [|x s IH]; intros H.
  - cbn [unle]. rewrite blen_nil. cbv. reflexivity.
  - cbn [bytes_ok forallb] in H. apply andb_true_iff in H as [H1 H2]. apply N.ltb_lt in H1.
    specialize (IH H2). cbn [unle]. rewrite blen_cons.
    replace (1 + blen s) with (N.succ (blen s)) by blia. rewrite N.pow_succ_r'. blia.
Qed.
Lemma rd_end_bound file off k bigendian v :
  bytes_ok file = true -> rd_end file off k bigendian = Ok v -> v < 256 ^ k.
Proof.
  intros Hb. unfold rd_end, rd_be, rd_le.
  destruct (slice file off (off + k)) as [s| |] eqn:Es; destruct bigendian; cbn [obind]; try discriminate.
  all: intros E; injection E as <-.
  all: pose proof (slice_len _ _ _ _ Es) as Hl; replace (off + k - off) with k in Hl by blia.
  all: pose proof (slice_bytes_ok _ _ _ _ Hb Es) as Hs; rewrite <- Hl.
  - unfold unbe. replace (blen s) with (blen (rev s)) by (unfold blen; rewrite rev_length; reflexivity).
    apply unle_bound, bytes_ok_rev, Hs.
  - apply unle_bound, Hs.
Qed.

Lemma parse_v1_np_bytes file addr flags sbBE :
  bytes_ok file = true -> addr < 9223372036854775808 -> np (parse_v1 file addr flags sbBE).
Proof.
  intros Hb Ha. unfold parse_v1, readable. np_go.
  all: try (apply rd_end_np; np_side).
  apply v1_loop_np_partial. right.
  match goal with H : rd_end file (addr + 8) 4 sbBE = Ok ?h |- _ =>
    pose proof (rd_end_bound _ _ _ _ _ Hb H) as Hh end.
  change (256 ^ 4) with 4294967296 in Hh.
  unfold wrap64. rewrite N.mod_small; blia.
Qed.

Lemma dec_ohdr_np_bytes sbBE file addr : bytes_ok file = true -> np (dec_ohdr sbBE file addr).
Proof.
  intros Hb. unfold dec_ohdr, readable. cbv zeta.
  destruct (9223372036854775808 <=? addr) eqn:Ea; [apply np_err|].
  destruct (negb (addr + 8 <=? blen file)) eqn:Er; [apply np_err|].
  apply np_bind; [np_go|]. intros p Hp. apply slice_len in Hp.
  replace (addr + 8 - addr) with 8 in Hp by blia.
  np_go.
  all: first [ apply parse_v1_np_bytes; [exact Hb | np_side] | apply parse_v2_np ].
Qed.

(* ------------------------------------------------------------------ statements *)

Lemma v2_loop_no_panic : forall fuel file isBE hdr current end_, v2_loop fuel file isBE hdr current end_ <> Panic.
Proof. exact v2_loop_np. Qed.
Lemma parse_v2_no_panic : forall file addr flags isBE sbBE version, parse_v2 file addr flags isBE sbBE version <> Panic.
Proof. exact parse_v2_np. Qed.
Lemma v1_loop_no_panic_partial : forall fuel file sbBE current end_ count max,
  blen file < 18446744073709551616 \/ end_ + 8 <= 18446744073709551616 ->
  v1_loop fuel file sbBE current end_ count max <> Panic.
Proof. exact v1_loop_np_partial. Qed.
Lemma parse_v1_no_panic_partial : forall file addr flags sbBE,
  blen file < 18446744073709551616 -> parse_v1 file addr flags sbBE <> Panic.
Proof. exact parse_v1_np_partial. Qed.
Lemma parse_v1_no_panic_bytes : forall file addr flags sbBE,
  bytes_ok file = true -> addr < 9223372036854775808 -> parse_v1 file addr flags sbBE <> Panic.
Proof. exact parse_v1_np_bytes. Qed.
Lemma dec_ohdr_no_panic_partial : forall sbBE file addr,
  blen file < 18446744073709551616 -> dec_ohdr sbBE file addr <> Panic.
Proof. exact dec_ohdr_np_partial. Qed.
Lemma dec_ohdr_no_panic_bytes : forall sbBE file addr,
  bytes_ok file = true -> dec_ohdr sbBE file addr <> Panic.
Proof. exact dec_ohdr_np_bytes. Qed.
