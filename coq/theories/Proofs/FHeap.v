(* C15 - lemmas about the fractal heap model (Model/FHeap.v). *)
From HV Require Import Base.Prelude Base.Crc32 Model.FHeap.
From Coq Require Import Sorting.Sorted.

Local Open Scope N_scope.

(* ------------------------------------------------------------------ lists indexed by N *)
Lemma len_nil {A} : len (@nil A) = 0. Proof. reflexivity. Qed.
Lemma len_cons {A} (x : A) l : len (x :: l) = 1 + len l.
Proof. unfold len. cbn [length]. lia. Qed.
Lemma len_app {A} (a b : list A) : len (a ++ b) = len a + len b.
Proof. unfold len. rewrite app_length. lia. Qed.
Lemma len_zeros n : len (zeros n) = n.
Proof. unfold len, zeros. rewrite repeat_length. lia. Qed.
Lemma len_take {A} n (l : list A) : len (take n l) = N.min n (len l).
Proof. unfold len, take. rewrite firstn_length. lia. Qed.
Lemma len_drop {A} n (l : list A) : len (drop n l) = len l - n.
Proof. unfold len, drop. rewrite skipn_length. lia. Qed.
Lemma len_slice {A} (l : list A) off n : off + n <= len l -> len (slice l off n) = n.
Proof. intros. unfold slice. rewrite len_take, len_drop. lia. Qed.
Lemma len_le k v : len (le k v) = N.of_nat k.
Proof. revert v. induction k; intros; cbn [le]. reflexivity. rewrite len_cons, IHk. lia. Qed.

Lemma take_all {A} n (l : list A) : len l <= n -> take n l = l.
Proof. intros. unfold take. apply firstn_all2. unfold len in *. lia. Qed.
Lemma drop_all {A} n (l : list A) : len l <= n -> drop n l = [].
Proof. intros. unfold drop. apply skipn_all2. unfold len in *. lia. Qed.
Lemma take_0 {A} (l : list A) : take 0 l = [].
Proof. reflexivity. Qed.
Lemma drop_0 {A} (l : list A) : drop 0 l = l.
Proof. reflexivity. Qed.
Lemma take_drop {A} n (l : list A) : take n l ++ drop n l = l.
Proof. apply firstn_skipn. Qed.

Lemma take_app_l {A} n (a b : list A) : n <= len a -> take n (a ++ b) = take n a.
Proof.
  intros. unfold take. rewrite firstn_app.
  replace (N.to_nat n - length a)%nat with 0%nat by (unfold len in *; lia).
  cbn [firstn]. apply app_nil_r.
Qed.
Lemma take_app_r {A} n (a b : list A) : len a <= n -> take n (a ++ b) = a ++ take (n - len a) b.
Proof.
  intros. unfold take. rewrite firstn_app. rewrite firstn_all2 by (unfold len in *; lia).
  f_equal. f_equal. unfold len in *. lia.
Qed.
Lemma drop_app_l {A} n (a b : list A) : n <= len a -> drop n (a ++ b) = drop n a ++ b.
Proof.
  intros. unfold drop. rewrite skipn_app.
  replace (N.to_nat n - length a)%nat with 0%nat by (unfold len in *; lia). reflexivity.
Qed.
Lemma drop_app_r {A} n (a b : list A) : len a <= n -> drop n (a ++ b) = drop (n - len a) b.
Proof.
  intros. unfold drop. rewrite skipn_app. rewrite skipn_all2 by (unfold len in *; lia).
  cbn [app]. f_equal. unfold len in *. lia.
Qed.
Lemma skipn_skipn' {A} (a b : nat) (l : list A) : skipn a (skipn b l) = skipn (b + a) l.
Proof.
  revert l. induction b; intros; cbn [skipn plus]. reflexivity.
  destruct l. now rewrite !skipn_nil. apply IHb.
Qed.
Lemma drop_drop {A} a b (l : list A) : drop a (drop b l) = drop (a + b) l.
Proof. unfold drop. rewrite skipn_skipn'. f_equal. lia. Qed.
Lemma take_take {A} a b (l : list A) : a <= b -> take a (take b l) = take a l.
Proof. intros. unfold take. rewrite firstn_firstn. f_equal. lia. Qed.

Lemma slice_app_l {A} (a b : list A) off n : off + n <= len a -> slice (a ++ b) off n = slice a off n.
Proof.
  intros. unfold slice. rewrite drop_app_l by lia. apply take_app_l. rewrite len_drop. lia.
Qed.
Lemma slice_app_r {A} (a b : list A) off n : len a <= off -> slice (a ++ b) off n = slice b (off - len a) n.
Proof. intros. unfold slice. rewrite drop_app_r by lia. reflexivity. Qed.
Lemma slice_exact {A} (a : list A) b : slice (a ++ b) 0 (len a) = a.
Proof. unfold slice. rewrite drop_0. rewrite take_app_l by lia. apply take_all. lia. Qed.
Lemma slice_mid {A} (a b c : list A) : slice (a ++ b ++ c) (len a) (len b) = b.
Proof.
  rewrite slice_app_r by lia. replace (len a - len a) with 0 by lia. apply slice_exact.
Qed.
Lemma slice_full {A} (l : list A) : slice l 0 (len l) = l.
Proof. unfold slice. rewrite drop_0. apply take_all. lia. Qed.
Lemma split3 {A} (l : list A) off n : off + n <= len l ->
  l = take off l ++ slice l off n ++ drop (off + n) l.
Proof.
  intros. unfold slice.
  replace (drop (off + n) l) with (drop n (drop off l)) by (rewrite drop_drop; f_equal; lia).
  rewrite take_drop, take_drop. reflexivity.
Qed.

(* copy_into *)
Lemma len_copy_into dst src : len (copy_into dst src) = len dst.
Proof.
  revert src. induction dst; intros; destruct src; cbn [copy_into]; try reflexivity.
  rewrite !len_cons, IHdst. reflexivity.
Qed.
Lemma copy_into_same dst src : len src = len dst -> copy_into dst src = src.
Proof.
  revert src. induction dst; intros; destruct src; cbn [copy_into]; try reflexivity.
  - rewrite len_cons, len_nil in H. lia.
  - rewrite len_cons, len_nil in H. lia.
  - f_equal. apply IHdst. rewrite !len_cons in H. lia.
Qed.
Lemma copy_into_app dst1 dst2 src : len src = len dst1 -> copy_into (dst1 ++ dst2) src = src ++ dst2.
Proof.
  revert src. induction dst1; intros; destruct src; cbn [copy_into app].
  - destruct dst2; reflexivity.
  - rewrite len_cons, len_nil in H. lia.
  - rewrite len_cons, len_nil in H. lia.
  - f_equal. apply IHdst1. rewrite !len_cons in H. lia.
Qed.
Lemma zeros_add a b : zeros (a + b) = zeros a ++ zeros b.
Proof. unfold zeros. rewrite N2Nat.inj_add. apply repeat_app. Qed.
Lemma copy_into_zeros n src : len src <= n -> copy_into (zeros n) src = src ++ zeros (n - len src).
Proof.
  intros. replace n with (len src + (n - len src)) at 1 by lia.
  rewrite zeros_add. apply copy_into_app. rewrite len_zeros. reflexivity.
Qed.

(* little endian *)
Lemma unle_le k v : unle (le k v) = v mod 256 ^ N.of_nat k.
Proof.
  revert v. induction k; intros.
  - cbn [le unle]. change (N.of_nat 0) with 0. rewrite N.pow_0_r, N.mod_1_r. reflexivity.
  - cbn [le unle]. rewrite IHk. rewrite Nat2N.inj_succ, N.pow_succ_r'.
    assert (256 ^ N.of_nat k <> 0) by (apply N.pow_nonzero; lia).
    rewrite (N.mod_mul_r v 256 (256 ^ N.of_nat k)) by lia. reflexivity.
Qed.
Lemma unle_le_small k v : v < 256 ^ N.of_nat k -> unle (le k v) = v.
Proof. intros. rewrite unle_le. apply N.mod_small. assumption. Qed.

(* ------------------------------------------------------------------ heap ids *)
Lemma mkid_unfold off n :
  mkid off n = [0; off mod 256; (off / 256) mod 256; n mod 256; (n / 256) mod 256; (n / 256 / 256) mod 256; 0; 0].
Proof. reflexivity. Qed.

Lemma len_mkid off n : len (mkid off n) = 8.
Proof. reflexivity. Qed.

Lemma id_off_mkid off n : off < 65536 -> id_off (mkid off n) = off.
Proof.
  intros. unfold id_off. rewrite mkid_unfold. unfold slice, take, drop.
  change (N.to_nat 1) with 1%nat. change (N.to_nat 2) with 2%nat. cbn [skipn firstn unle]. lia.
Qed.
Lemma id_len_mkid off n : n < 16777216 -> id_len (mkid off n) = n.
Proof.
  intros. unfold id_len. rewrite mkid_unfold. unfold slice, take, drop.
  change (N.to_nat 3) with 3%nat. cbn [skipn firstn unle]. lia.
Qed.

Definition lensz_ok (bs lensz : N) : Prop :=
  (lensz = 1 /\ bs <= 256) \/ (lensz = 2 /\ bs <= 65536) \/ (lensz = 3 /\ bs <= 16777216).

Lemma encode_id_mkid bs lensz off n : lensz_ok bs lensz -> n < bs -> encode_id lensz off n = mkid off n.
Proof.
  intros L Hn. rewrite mkid_unfold. unfold encode_id, ID_LEN, OFF_SZ.
  destruct L as [[-> Hb]|[[-> Hb]|[-> Hb]]].
  - change (N.to_nat 1) with 1%nat. cbn [le app]. unfold zeros. change (N.to_nat (8 - 1 - 2 - 1)) with 4%nat.
    cbn [repeat app]. repeat f_equal; lia.
  - change (N.to_nat 2) with 2%nat. cbn [le app]. unfold zeros. change (N.to_nat (8 - 1 - 2 - 2)) with 3%nat.
    cbn [repeat app]. repeat f_equal; lia.
  - change (N.to_nat 3) with 3%nat. cbn [le app]. unfold zeros. change (N.to_nat (8 - 1 - 2 - 3)) with 2%nat.
    cbn [repeat app]. reflexivity.
Qed.

Lemma parse_id_mkid h bs off n :
  lensz_ok bs (h_lensz h) -> off < 65536 -> n < bs -> parse_id h (mkid off n) = Ok (off, n).
Proof.
  intros L Ho Hn. rewrite mkid_unfold. unfold parse_id.
  change (N.shiftr (N.land 0 192) 6 =? 0) with true. change (N.land 0 48 =? 0) with true.
  cbn [negb]. change (len [0; off mod 256; (off / 256) mod 256; n mod 256; (n / 256) mod 256; (n / 256 / 256) mod 256; 0; 0] =? ID_LEN) with true.
  cbn [negb]. unfold slice, take, drop, OFF_SZ.
  change (N.to_nat 1) with 1%nat. change (N.to_nat 2) with 2%nat. change (N.to_nat (1 + 2)) with 3%nat.
  cbn [skipn firstn unle].
  destruct L as [[-> Hb]|[[-> Hb]|[-> Hb]]].
  - change (N.to_nat 1) with 1%nat. cbn [firstn unle]. f_equal. f_equal; lia.
  - change (N.to_nat 2) with 2%nat. cbn [firstn unle]. f_equal. f_equal; lia.
  - change (N.to_nat 3) with 3%nat. cbn [firstn unle]. f_equal. f_equal; lia.
Qed.

Lemma size_upper n k : n < 2 ^ k -> N.size n <= k.
Proof.
  intros. pose proof (N.size_le n). rewrite N.succ_double_spec in H0.
  assert (2 ^ N.size n < 2 ^ (k + 1)) by (rewrite N.pow_add_r; change (2 ^ 1) with 2; lia).
  apply N.pow_lt_mono_r_iff in H1; lia.
Qed.
Lemma size_lower n k : 2 ^ k <= n -> k < N.size n.
Proof.
  intros. pose proof (N.size_gt n).
  assert (2 ^ k < 2 ^ N.size n) by lia.
  apply N.pow_lt_mono_r_iff in H1; lia.
Qed.

Lemma lensz_of_ok bs : 0 < bs <= 65536 -> lensz_ok bs (lensz_of bs MAX_OBJ).
Proof.
  intros [Hp Hb]. unfold lensz_of. change (offset_size MAX_OBJ) with 3.
  unfold offset_size. destruct (N.eqb_spec bs 0); [lia|].
  assert (1 <= N.size bs) by (pose proof (size_lower bs 0); change (2 ^ 0) with 1 in *; lia).
  unfold lensz_ok.
  destruct (N.ltb_spec bs 256); [|destruct (N.ltb_spec bs 65536)].
  - pose proof (size_upper bs 8). change (2 ^ 8) with 256 in *. left. split; lia.
  - pose proof (size_upper bs 16). pose proof (size_lower bs 8).
    change (2 ^ 16) with 65536 in *. change (2 ^ 8) with 256 in *. right. left. split; lia.
  - pose proof (size_upper bs 17). pose proof (size_lower bs 16).
    change (2 ^ 16) with 65536 in *. change (2 ^ 17) with 131072 in *. right. right. split; lia.
Qed.
Lemma lensz_new_ok bs : bs <= 65536 -> lensz_ok bs (offset_size MAX_OBJ).
Proof. intros. change (offset_size MAX_OBJ) with 3. right. right. split; lia. Qed.

(* ------------------------------------------------------------------ splicing a range *)
Lemma drop_take_comm {A} o off (l : list A) : o <= off -> drop o (take off l) = take (off - o) (drop o l).
Proof.
  intros. unfold drop, take. rewrite firstn_skipn_comm. f_equal. f_equal. lia.
Qed.
Lemma slice_take {A} (l : list A) off o m : o + m <= off -> slice (take off l) o m = slice l o m.
Proof.
  intros. unfold slice. rewrite drop_take_comm by lia. apply take_take. lia.
Qed.

Section Splice.
  Variables (l X : bytes) (off n : N).
  Hypothesis Hin : off + n <= len l.
  Hypothesis HX : len X = n.
  Let l' := take off l ++ X ++ drop (off + n) l.

  Lemma splice_len : len l' = len l.
  Proof. unfold l'. rewrite !len_app, len_take, len_drop. lia. Qed.
  Lemma splice_before o m : o + m <= off -> slice l' o m = slice l o m.
  Proof.
    intros. unfold l'. rewrite slice_app_l by (rewrite len_take; lia). apply slice_take. lia.
  Qed.
  Lemma splice_after o m : off + n <= o -> slice l' o m = slice l o m.
  Proof.
    intros. unfold l'. rewrite slice_app_r by (rewrite len_take; lia).
    rewrite slice_app_r by (rewrite len_take; lia).
    unfold slice. rewrite drop_drop. f_equal. f_equal. rewrite len_take. lia.
  Qed.
  Lemma splice_at : slice l' off n = X.
  Proof.
    unfold l'. pose proof (slice_mid (take off l) X (drop (off + n) l)) as M.
    rewrite len_take, HX in M. replace (N.min off (len l)) with off in M by lia. exact M.
  Qed.
End Splice.

Lemma copy_at_spec l off d : off + len d <= len l -> copy_at l off d = take off l ++ d ++ drop (off + len d) l.
Proof.
  intros. unfold copy_at. f_equal.
  rewrite <- (take_drop (len d) (drop off l)) at 1.
  rewrite copy_into_app by (rewrite len_take, len_drop; lia).
  f_equal. rewrite drop_drop. f_equal. lia.
Qed.

(* ------------------------------------------------------------------ association lists *)
Lemma bytes_eqb_eq a b : bytes_eqb a b = true <-> a = b.
Proof.
  unfold bytes_eqb. revert b. induction a; destruct b; cbn [list_eqb]; split; intros; try reflexivity; try discriminate.
  - apply andb_true_iff in H as [H1 H2]. apply N.eqb_eq in H1. apply IHa in H2. congruence.
  - injection H as -> ->. rewrite N.eqb_refl. cbn [andb]. apply IHa. reflexivity.
Qed.
Lemma bytes_eqb_refl a : bytes_eqb a a = true.
Proof. apply bytes_eqb_eq. reflexivity. Qed.
Lemma bytes_eqb_neq a b : bytes_eqb a b = false <-> a <> b.
Proof.
  split; intros.
  - intros E. apply bytes_eqb_eq in E. congruence.
  - destruct (bytes_eqb a b) eqn:E; [apply bytes_eqb_eq in E; congruence|reflexivity].
Qed.

Lemma sum_len_app a b : sum_len (a ++ b) = sum_len a + sum_len b.
Proof. induction a as [|[k v] a]; cbn [sum_len app]. lia. rewrite IHa. lia. Qed.

Lemma lookup_in id l d : lookup id l = Some d -> In (id, d) l.
Proof.
  induction l as [|[k v] l]; cbn [lookup]; intros. discriminate.
  destruct (bytes_eqb k id) eqn:E.
  - apply bytes_eqb_eq in E. injection H as ->. left. congruence.
  - right. auto.
Qed.

Lemma replace_len id d l : len (replace_id id d l) = len l.
Proof.
  induction l as [|[k v] l]; cbn [replace_id]. reflexivity.
  destruct (bytes_eqb k id); rewrite !len_cons; [reflexivity|]. rewrite IHl. reflexivity.
Qed.
Lemma replace_sum id d l old : lookup id l = Some old -> len d = len old -> sum_len (replace_id id d l) = sum_len l.
Proof.
  induction l as [|[k v] l]; cbn [lookup replace_id sum_len]; intros. discriminate.
  destruct (bytes_eqb k id).
  - injection H as ->. cbn [sum_len]. lia.
  - cbn [sum_len]. rewrite IHl by assumption. reflexivity.
Qed.
Lemma remove_len id l old : lookup id l = Some old -> len (remove_id id l) + 1 = len l.
Proof.
  induction l as [|[k v] l]; cbn [lookup remove_id]; intros. discriminate.
  destruct (bytes_eqb k id).
  - rewrite len_cons. lia.
  - rewrite !len_cons. rewrite <- (IHl H). lia.
Qed.
Lemma remove_sum id l old : lookup id l = Some old -> sum_len (remove_id id l) + len old = sum_len l.
Proof.
  induction l as [|[k v] l]; cbn [lookup remove_id sum_len]; intros. discriminate.
  destruct (bytes_eqb k id).
  - injection H as ->. lia.
  - cbn [sum_len]. rewrite <- (IHl H). lia.
Qed.

Lemma sorted_snoc {A} (P : A -> A -> Prop) l e :
  StronglySorted P l -> Forall (fun a => P a e) l -> StronglySorted P (l ++ [e]).
Proof.
  induction 1; intros F; cbn [app].
  - constructor. constructor. constructor.
  - inversion F; subst. constructor. auto.
    apply Forall_app. split. assumption. constructor. assumption. constructor.
Qed.

(* ------------------------------------------------------------------ representation relation *)
Definition eoff (e : bytes * bytes) : N := id_off (fst e).
Definition elen (e : bytes * bytes) : N := len (snd e).

Definition entry_ok (objs : bytes) (vol : N) (e : bytes * bytes) : Prop :=
  fst e = mkid (eoff e) (elen e) /\ 0 < elen e /\ eoff e + elen e <= vol /\ slice objs (eoff e) (elen e) = snd e.

Definition before (a b : bytes * bytes) : Prop := eoff a + elen a <= eoff b.

(* a single-direct-block heap [h] (with file state [fs]) represents the specification state [sp] *)
Record R (bs : N) (h : heap) (fs : fstate) (sp : spec) : Prop := mkR {
  R_ind : h_ind h = None;
  R_others : h_others h = [];
  R_size : db_size (h_blk h) = bs;
  R_boff : db_boff (h_blk h) = 0;
  R_start : h_start h = bs;
  R_maxdb : h_maxdb h = bs;
  R_mansize : h_mansize h = bs;
  R_alloc : h_alloc h = bs;
  R_rows : h_rows h = 0;
  R_fhmax : h_fhmax h = bs;
  R_lensz : lensz_ok bs (h_lensz h);
  R_freeoff : db_free (h_blk h) = sp_vol sp;
  R_manoff : h_manoff h = sp_vol sp;
  R_vol : sp_vol sp <= len (db_objs (h_blk h));
  R_objlen : len (db_objs (h_blk h)) <= cap_new bs;
  R_nobj : h_nobj h = len (sp_live sp);
  R_free : h_free h = bs - sum_len (sp_live sp);
  R_sum : sum_len (sp_live sp) <= sp_vol sp;
  R_cnt : len (sp_live sp) <= sp_vol sp;
  R_live : Forall (entry_ok (db_objs (h_blk h)) (sp_vol sp)) (sp_live sp);
  R_sorted : StronglySorted before (sp_live sp);
  R_addr : (h_loaded h = None /\ f_next fs = 2048) \/ h_loaded h = Some (2048, 2194)
}.

Lemma bs_ok_bounds bs : bs_ok bs = true -> 19 < bs <= 65536 /\ cap_new bs = bs - 19.
Proof.
  unfold bs_ok, cap_new, PREFIX, CKSUM. intros H. apply andb_true_iff in H as [H1 H2].
  apply N.ltb_lt in H1. apply N.leb_le in H2. change (15 + 4) with 19 in *.
  destruct (N.ltb_spec bs 19); lia.
Qed.

Lemma R_new bs : bs_ok bs = true -> R bs (new_heap bs) fs0 spec0.
Proof.
  intros H. apply bs_ok_bounds in H as [[H1 H2] H3].
  constructor; cbn; try reflexivity; try lia.
  - apply lensz_new_ok. lia.
  - constructor.
  - constructor.
  - left. split; reflexivity.
Qed.

Lemma entry_ok_weaken objs objs' vol vol' e :
  entry_ok objs vol e -> vol <= vol' ->
  (forall o m, o + m <= vol -> slice objs' o m = slice objs o m) -> entry_ok objs' vol' e.
Proof.
  intros (A & B & C & D) Hv Hs. repeat split; try assumption; try lia. rewrite Hs by lia. assumption.
Qed.

(* ------------------------------------------------------------------ insert *)
Lemma wrap64_small x : x < 18446744073709551616 -> wrap64 x = x.
Proof. intros. unfold wrap64. apply N.mod_small. assumption. Qed.
Lemma sub64_small a b : b <= a -> a < 18446744073709551616 -> sub64 a b = a - b.
Proof. intros. unfold sub64. lia. Qed.

Lemma insert_R bs h fs sp d pick :
  bs_ok bs = true -> R bs h fs sp -> 0 < len d -> len d <= MAX_OBJ -> sp_vol sp + len d <= cap_new bs ->
  exists h', insert cap_new h d pick = (h', Ok (mkid (sp_vol sp) (len d)))
    /\ R bs h' fs (mkSpec (sp_live sp ++ [(mkid (sp_vol sp) (len d), d)]) (sp_vol sp + len d)).
Proof.
  intros Hbs HR Hn0 Hmax Hfit. pose proof (bs_ok_bounds bs Hbs) as [[Hb1 Hb2] Hcap].
  destruct HR. set (n := len d) in *. set (vol := sp_vol sp) in *.
  unfold insert. fold n.
  destruct (N.eqb_spec n 0); [lia|]. destruct (N.ltb_spec MAX_OBJ n); [lia|].
  unfold needs_transition. rewrite R_ind0, R_freeoff0, R_size0.
  destruct (N.leb_spec (vol + n) (cap_new bs)); [|lia]. cbn [negb]. rewrite R_ind0.
  unfold insert_direct. fold n. rewrite R_freeoff0, R_size0.
  destruct (N.ltb_spec (cap_new bs) (vol + n)); [lia|].
  eexists. split.
  { f_equal. f_equal. apply (encode_id_mkid bs); [assumption|lia]. }
  (* the new object bytes *)
  set (objs := db_objs (h_blk h)) in *.
  set (objsX := if len objs <? vol + n then objs ++ zeros (vol + n - len objs) else objs).
  assert (HX1 : vol + n <= len objsX).
  { unfold objsX. destruct (N.ltb_spec (len objs) (vol + n)); [rewrite len_app, len_zeros|]; lia. }
  assert (HX2 : len objsX <= cap_new bs).
  { unfold objsX. destruct (N.ltb_spec (len objs) (vol + n)); [rewrite len_app, len_zeros|]; lia. }
  assert (HX3 : forall o m, o + m <= vol -> slice objsX o m = slice objs o m).
  { intros. unfold objsX. destruct (N.ltb_spec (len objs) (vol + n)); [|reflexivity]. apply slice_app_l. lia. }
  assert (Hobjs : db_objs (blk_put (h_blk h) d) = take vol objsX ++ d ++ drop (vol + n) objsX).
  { unfold blk_put. cbn [db_objs]. rewrite R_freeoff0. fold n objs vol objsX. apply copy_at_spec. fold n. lia. }
  constructor; cbn [bump_stats set_blk h_ind h_others h_blk db_size db_boff h_start h_maxdb h_mansize h_alloc h_rows
                    h_fhmax h_lensz h_manoff h_nobj h_free h_loaded sp_vol sp_live blk_put db_free]; try assumption.
  - rewrite R_freeoff0. reflexivity.
  - rewrite R_manoff0. apply wrap64_small. lia.
  - fold (blk_put (h_blk h) d). rewrite Hobjs. rewrite splice_len; fold n; lia.
  - fold (blk_put (h_blk h) d). rewrite Hobjs. rewrite splice_len; fold n; lia.
  - rewrite R_nobj0, len_app, len_cons, len_nil. rewrite wrap64_small; lia.
  - rewrite R_free0, sum_len_app. cbn [sum_len]. fold n. rewrite sub64_small; lia.
  - rewrite sum_len_app. cbn [sum_len]. fold n. lia.
  - rewrite len_app, len_cons, len_nil. lia.
  - fold (blk_put (h_blk h) d). rewrite Hobjs. apply Forall_app. split.
    + eapply Forall_impl; [|exact R_live0]. intros e He. eapply entry_ok_weaken; [exact He|lia|].
      intros. rewrite splice_before by (fold n; lia). apply HX3. lia.
    + constructor; [|constructor]. unfold entry_ok, eoff, elen. cbn [fst snd]. fold n.
      rewrite id_off_mkid by lia. repeat split; try lia. apply splice_at; fold n; [lia|reflexivity].
  - apply sorted_snoc. assumption.
    eapply Forall_impl; [|exact R_live0]. intros e (A & B & C & D). unfold before. unfold eoff at 2. cbn [fst].
    rewrite id_off_mkid by lia. assumption.
Qed.

(* ------------------------------------------------------------------ get *)
Lemma R_entry bs h fs sp id d :
  bs_ok bs = true -> R bs h fs sp -> lookup id (sp_live sp) = Some d ->
  entry_ok (db_objs (h_blk h)) (sp_vol sp) (id, d) /\ id_off id < 65536 /\ len d < bs
  /\ parse_id h id = Ok (id_off id, len d).
Proof.
  intros Hbs HR Hl. pose proof (bs_ok_bounds bs Hbs) as [[Hb1 Hb2] Hcap]. destruct HR.
  apply lookup_in in Hl. rewrite Forall_forall in R_live0. specialize (R_live0 _ Hl).
  split. assumption.
  destruct R_live0 as (A & B & C & D). unfold eoff, elen in *. cbn [fst snd] in *.
  assert (id_off id < 65536) by lia. assert (len d < bs) by lia.
  repeat split; try assumption. rewrite A at 1. apply (parse_id_mkid h bs); assumption.
Qed.

Lemma get_R bs h fs sp id d :
  bs_ok bs = true -> R bs h fs sp -> lookup id (sp_live sp) = Some d -> get h id = Ok d.
Proof.
  intros Hbs HR Hl. destruct (R_entry _ _ _ _ _ _ Hbs HR Hl) as ((A & B & C & D) & Ho & Hn & Hp).
  unfold eoff, elen in *. cbn [fst snd] in *. destruct HR.
  unfold get. rewrite Hp, R_ind0. unfold get_in.
  destruct (N.leb_spec (len (db_objs (h_blk h))) (id_off id)); [lia|].
  destruct (N.ltb_spec (len (db_objs (h_blk h))) (id_off id + len d)); [lia|].
  f_equal. assumption.
Qed.

(* ------------------------------------------------------------------ overwrite / delete *)
Lemma before_replace a id d old l :
  Forall (before a) l -> lookup id l = Some old -> len d = len old -> Forall (before a) (replace_id id d l).
Proof.
  induction l as [|[k v] l]; cbn [lookup replace_id]; intros F Hl Hd. constructor.
  inversion F; subst. destruct (bytes_eqb k id).
  - injection Hl as ->. constructor; [|assumption]. unfold before, eoff, elen in *. cbn [fst snd] in *. lia.
  - constructor. assumption. auto.
Qed.
Lemma forall_remove (P : bytes * bytes -> Prop) id l : Forall P l -> Forall P (remove_id id l).
Proof.
  induction l as [|[k v] l]; cbn [remove_id]; intros F. constructor.
  inversion F; subst. destruct (bytes_eqb k id). assumption. constructor; auto.
Qed.
Lemma sorted_remove id l : StronglySorted before l -> StronglySorted before (remove_id id l).
Proof.
  induction 1 as [|[k v] l S IH F]; cbn [remove_id]. constructor.
  destruct (bytes_eqb k id). assumption. constructor. assumption. apply forall_remove. assumption.
Qed.

Section Modify.
  (* objs' = objs with the range of the live id replaced by X *)
  Variables (objs X : bytes) (vol : N) (id old : bytes).
  Let off := id_off id.
  Let n := len old.
  Hypothesis Hin : off + n <= len objs.
  Hypothesis HX : len X = n.
  Let objs' := take off objs ++ X ++ drop (off + n) objs.

  Lemma modify_replace d l :
    StronglySorted before l -> Forall (entry_ok objs vol) l -> lookup id l = Some old ->
    len d = n -> X = d ->
    Forall (entry_ok objs' vol) (replace_id id d l) /\ StronglySorted before (replace_id id d l).
  Proof.
    intros S F Hl Hd HXd. induction S as [|[k v] l S IH Fb]; cbn [lookup replace_id] in *. discriminate.
    inversion F as [|? ? E F']; subst x l0.
    destruct (bytes_eqb k id) eqn:Ek.
    - apply bytes_eqb_eq in Ek. injection Hl as Hv. subst k v. split.
      + constructor.
        * destruct E as (A & B & C & D). unfold entry_ok, eoff, elen in *. cbn [fst snd] in *.
          fold off in A, C, D |- *. rewrite Hd. fold n in A, B, C, D |- *. repeat split; try assumption.
          unfold objs'. rewrite <- HXd. apply splice_at; assumption.
        * rewrite Forall_forall in *. intros e He. specialize (Fb e He). specialize (F' e He).
          destruct F' as (A & B & C & D). repeat split; try assumption.
          unfold objs'. rewrite splice_after; assumption.
      + constructor. assumption.
        eapply Forall_impl; [|exact Fb]. intros e He. unfold before, eoff, elen in *. cbn [fst snd] in *. lia.
    - destruct (IH F' Hl) as [IH1 IH2]. split.
      + constructor; [|assumption].
        destruct E as (A & B & C & D). repeat split; try assumption.
        unfold objs'. rewrite splice_before; try assumption.
        apply lookup_in in Hl. rewrite Forall_forall in Fb. specialize (Fb _ Hl).
        unfold before, eoff at 2 in Fb. cbn [fst] in Fb. assumption.
      + constructor. assumption. eapply before_replace; eassumption.
  Qed.

  Lemma modify_remove l :
    StronglySorted before l -> Forall (entry_ok objs vol) l -> lookup id l = Some old ->
    Forall (entry_ok objs' vol) (remove_id id l).
  Proof.
    intros S F Hl. induction S as [|[k v] l S IH Fb]; cbn [lookup remove_id] in *. discriminate.
    inversion F as [|? ? E F']; subst x l0.
    destruct (bytes_eqb k id) eqn:Ek.
    - apply bytes_eqb_eq in Ek. injection Hl as Hv. subst k v.
      rewrite Forall_forall in *. intros e He. specialize (Fb e He). specialize (F' e He).
      destruct F' as (A & B & C & D). repeat split; try assumption.
      unfold objs'. rewrite splice_after; assumption.
    - constructor; [|auto].
      destruct E as (A & B & C & D). repeat split; try assumption.
      unfold objs'. rewrite splice_before; try assumption.
      apply lookup_in in Hl. rewrite Forall_forall in Fb. specialize (Fb _ Hl).
      unfold before, eoff at 2 in Fb. cbn [fst] in Fb. assumption.
  Qed.
End Modify.

Lemma overwrite_err_R bs h fs sp id d old :
  bs_ok bs = true -> R bs h fs sp -> lookup id (sp_live sp) = Some old -> len d <> len old ->
  overwrite h id d = (h, Err).
Proof.
  intros Hbs HR Hl Hd. destruct (R_entry _ _ _ _ _ _ Hbs HR Hl) as (_ & _ & _ & Hp).
  unfold overwrite. rewrite Hp. destruct (N.eqb_spec (len d) (len old)); [contradiction|]. reflexivity.
Qed.

Lemma overwrite_R bs h fs sp id d old :
  bs_ok bs = true -> R bs h fs sp -> lookup id (sp_live sp) = Some old -> len d = len old ->
  exists h', overwrite h id d = (h', Ok tt) /\ R bs h' fs (mkSpec (replace_id id d (sp_live sp)) (sp_vol sp)).
Proof.
  intros Hbs HR Hl Hd. destruct (R_entry _ _ _ _ _ _ Hbs HR Hl) as ((A & B & C & D) & Ho & Hn & Hp).
  unfold eoff, elen in *. cbn [fst snd] in *. destruct HR.
  set (objs := db_objs (h_blk h)) in *. set (off := id_off id) in *. set (n := len old) in *.
  unfold overwrite. rewrite Hp. fold objs.
  destruct (N.eqb_spec (len d) n); [|contradiction]. cbn [negb].
  destruct (N.leb_spec (len objs) off); [lia|].
  destruct (N.ltb_spec (len objs) (off + n)); [lia|].
  eexists. split. reflexivity.
  rewrite copy_into_same by (rewrite len_slice; lia).
  assert (Hin : off + n <= len objs) by lia.
  destruct (modify_replace objs d (sp_vol sp) id old Hin Hd d (sp_live sp) R_sorted0 R_live0 Hl Hd eq_refl) as [M1 M2].
  constructor; cbn [set_blk set_objs h_ind h_others h_blk db_size db_boff h_start h_maxdb h_mansize h_alloc h_rows
                    h_fhmax h_lensz h_manoff h_nobj h_free h_loaded sp_vol sp_live db_free db_objs]; try assumption.
  - rewrite splice_len; assumption.
  - rewrite splice_len; assumption.
  - rewrite replace_len. assumption.
  - rewrite (replace_sum id d _ old) by assumption. assumption.
  - rewrite (replace_sum id d _ old) by assumption. assumption.
  - rewrite replace_len. assumption.
Qed.

Lemma delete_R bs h fs sp id old :
  bs_ok bs = true -> R bs h fs sp -> lookup id (sp_live sp) = Some old ->
  exists h', delete h id = (h', Ok tt) /\ R bs h' fs (mkSpec (remove_id id (sp_live sp)) (sp_vol sp)).
Proof.
  intros Hbs HR Hl. destruct (R_entry _ _ _ _ _ _ Hbs HR Hl) as ((A & B & C & D) & Ho & Hn & Hp).
  pose proof (bs_ok_bounds bs Hbs) as [[Hb1 Hb2] Hcap].
  unfold eoff, elen in *. cbn [fst snd] in *. destruct HR.
  set (objs := db_objs (h_blk h)) in *. set (off := id_off id) in *. set (n := len old) in *.
  unfold delete. rewrite Hp. fold objs.
  destruct (N.leb_spec (len objs) off); [lia|].
  destruct (N.ltb_spec (len objs) (off + n)); [lia|].
  eexists. split. reflexivity.
  assert (Hin : off + n <= len objs) by lia.
  pose proof (modify_remove objs (zeros n) (sp_vol sp) id old Hin (len_zeros n) (sp_live sp) R_sorted0 R_live0 Hl) as M.
  pose proof (remove_len id _ old Hl) as L1. pose proof (remove_sum id _ old Hl) as L2. fold n in L2.
  constructor; cbn [set_blk set_objs h_ind h_others h_blk db_size db_boff h_start h_maxdb h_mansize h_alloc h_rows
                    h_fhmax h_lensz h_manoff h_nobj h_free h_loaded sp_vol sp_live db_free db_objs]; try assumption.
  - rewrite splice_len; [assumption..|apply len_zeros].
  - rewrite splice_len; [assumption..|apply len_zeros].
  - rewrite R_nobj0. rewrite sub64_small; lia.
  - rewrite R_free0. rewrite wrap64_small; lia.
  - lia.
  - lia.
  - apply sorted_remove. assumption.
Qed.

(* ------------------------------------------------------------------ serialisation round trip *)
Lemma get_le_le n k v r : N.to_nat n = k -> get_le n (le k v ++ r) = (v mod 256 ^ N.of_nat k, r).
Proof.
  intros. unfold get_le. assert (len (le k v) = n) by (rewrite len_le; lia).
  rewrite take_app_l by lia. rewrite take_all by lia. rewrite drop_app_l by lia.
  rewrite drop_all by lia. rewrite unle_le. reflexivity.
Qed.
Lemma get_le_le8 v r : get_le 8 (le 8 v ++ r) = (v mod 18446744073709551616, r).
Proof. apply (get_le_le 8 8). reflexivity. Qed.
Lemma get_le_le4 v r : get_le 4 (le 4 v ++ r) = (v mod 4294967296, r).
Proof. apply (get_le_le 4 4). reflexivity. Qed.
Lemma get_le_le2 v r : get_le 2 (le 2 v ++ r) = (v mod 65536, r).
Proof. apply (get_le_le 2 2). reflexivity. Qed.
Lemma get_le_one v r : get_le 1 ([v] ++ r) = (v, r).
Proof. unfold get_le, take, drop. change (N.to_nat 1) with 1%nat. cbn [app firstn skipn unle]. f_equal. lia. Qed.

Lemma len_header_body h : len (header_body h) = 142.
Proof. reflexivity. Qed.

Definition m64 (x : N) : N := x mod 18446744073709551616.

Lemma parse_header_body h :
  parse_header (header_body h) =
  Ok (mkRH 8 0 0 65536 (m64 (h_free h)) (m64 (h_mansize h)) (m64 (h_alloc h)) (m64 (h_manoff h)) (m64 (h_nobj h))
           2 (m64 (h_start h)) (m64 (h_maxdb h)) 16 (m64 (h_root h)) (h_rows h mod 65536)).
Proof.
  unfold parse_header, header_body.
  change (take 4 (SIG_FRHP ++ ?x)) with SIG_FRHP.
  change (bytes_eqb SIG_FRHP SIG_FRHP) with true. cbn [negb].
  change (drop 4 (SIG_FRHP ++ ?x)) with x.
  rewrite get_le_one. change (0 =? 0) with true. cbn [negb].
  rewrite get_le_le2, get_le_le2, get_le_one, get_le_le4.
  rewrite !get_le_le8. rewrite get_le_le2. rewrite !get_le_le8. rewrite !get_le_le2. rewrite get_le_le8.
  rewrite <- (app_nil_r (le 2 (h_rows h))). rewrite get_le_le2.
  reflexivity.
Qed.

Lemma take_zeros a b : a <= b -> take a (zeros b) = zeros a.
Proof.
  intros. replace b with (a + (b - a)) by lia. rewrite zeros_add. rewrite take_app_l by (rewrite len_zeros; lia).
  apply take_all. rewrite len_zeros. lia.
Qed.

(* the serialised direct block when the objects fit the usable space: nothing is cut off *)
Lemma encode_dblock_shape b :
  19 <= db_size b -> len (db_objs b) <= db_size b - 19 ->
  exists c, encode_dblock b =
    (SIG_FHDB ++ [0]) ++ le 8 (db_hdraddr b) ++ le 2 (db_boff b)
    ++ (db_objs b ++ zeros (db_size b - 19 - len (db_objs b))) ++ le 4 c.
Proof.
  intros Hs Ho. unfold encode_dblock, PREFIX, CKSUM.
  set (pre := SIG_FHDB ++ [0] ++ le 8 (db_hdraddr b) ++ le 2 (db_boff b)).
  assert (Hpre : len pre = 15) by reflexivity.
  rewrite copy_into_zeros by lia.
  set (body := take (db_size b - 4) (pre ++ db_objs b ++ zeros (db_size b - 15 - len (db_objs b)))).
  assert (Hbody : body = pre ++ db_objs b ++ zeros (db_size b - 19 - len (db_objs b))).
  { unfold body. rewrite take_app_r by lia. f_equal. rewrite Hpre.
    rewrite take_app_r by lia. f_equal. rewrite take_zeros by lia. f_equal. lia. }
  exists (crc32 body). rewrite Hbody at 1. unfold pre. rewrite <- !app_assoc. reflexivity.
Qed.

Lemma len_encode_dblock b :
  19 <= db_size b -> len (db_objs b) <= db_size b - 19 -> len (encode_dblock b) = db_size b.
Proof.
  intros Hs Ho. destruct (encode_dblock_shape b Hs Ho) as [c ->].
  rewrite !len_app, !len_le, len_zeros. change (len SIG_FHDB) with 4. change (len [0]) with 1. lia.
Qed.

Lemma len_encode_header h : len (encode_header h) = 146.
Proof. reflexivity. Qed.

(* file primitives *)
Lemma len_write_at f a d : len (write_at f a d) = N.max (len f) (a + len d).
Proof.
  unfold write_at. destruct (N.ltb_spec (len f) (a + len d)).
  - rewrite !len_app, len_take, len_drop, len_app, len_zeros. lia.
  - rewrite !len_app, len_take, len_drop. lia.
Qed.
Lemma slice_write_at_same f a d : slice (write_at f a d) a (len d) = d.
Proof.
  unfold write_at. set (f' := if len f <? a + len d then f ++ zeros (a + len d - len f) else f).
  assert (a + len d <= len f').
  { unfold f'. destruct (N.ltb_spec (len f) (a + len d)); [rewrite len_app, len_zeros|]; lia. }
  apply splice_at. assumption. reflexivity.
Qed.
Lemma slice_write_at_before f a d o m :
  o + m <= a -> o + m <= len f -> slice (write_at f a d) o m = slice f o m.
Proof.
  intros. unfold write_at. set (f' := if len f <? a + len d then f ++ zeros (a + len d - len f) else f).
  assert (a + len d <= len f').
  { unfold f'. destruct (N.ltb_spec (len f) (a + len d)); [rewrite len_app, len_zeros|]; lia. }
  rewrite splice_before; try assumption; try reflexivity.
  unfold f'. destruct (N.ltb_spec (len f) (a + len d)); [|reflexivity]. apply slice_app_l. assumption.
Qed.

Lemma slice_slice {A} (l : list A) a n o m : o + m <= n -> slice (slice l a n) o m = slice l (a + o) m.
Proof.
  intros. unfold slice at 2. rewrite slice_take by lia. unfold slice. rewrite drop_drop. f_equal. f_equal. lia.
Qed.

Lemma slice_mid' {A} (a b c : list A) off n : len a = off -> len b = n -> slice (a ++ b ++ c) off n = b.
Proof. intros <- <-. apply slice_mid. Qed.

Lemma m64_small x : x < 18446744073709551616 -> m64 x = x.
Proof. intros. unfold m64. apply N.mod_small. assumption. Qed.

(* what LoadFromFile rebuilds from the bytes written by WriteToFile / WriteAt at addresses 2048 / 2194 *)
Definition reloaded (bs : N) (h : heap) : heap :=
  let objs := db_objs (h_blk h) in
  mkHeap (h_free h) bs bs (h_manoff h) (h_nobj h) bs bs 2194 0 (lensz_of bs MAX_OBJ)
         (mkDB 2048 0 bs (objs ++ zeros (bs - 19 - len objs)) (h_manoff h)) None bs [] (Some (2048, 2194)).

Lemma load_after_store bs h fs sp f :
  bs_ok bs = true -> R bs h fs sp ->
  let h1 := set_addrs h 2048 2194 in
  load bs (write_at (write_at f 2048 (encode_header h1)) 2194 (encode_dblock (h_blk h1))) 2048 = Ok (reloaded bs h).
Proof.
  intros Hbs HR h1. pose proof (bs_ok_bounds bs Hbs) as [[Hb1 Hb2] Hcap]. destruct HR.
  set (H := encode_header h1). set (B := encode_dblock (h_blk h1)).
  set (f1 := write_at f 2048 H). set (f2 := write_at f1 2194 B).
  assert (HlenH : len H = 146) by reflexivity.
  assert (Hsz : db_size (h_blk h1) = bs) by (unfold h1; cbn [set_addrs h_blk db_size]; assumption).
  assert (Hob : db_objs (h_blk h1) = db_objs (h_blk h)) by reflexivity.
  assert (HlenB : len B = bs).
  { unfold B. rewrite len_encode_dblock; rewrite ?Hsz, ?Hob; lia. }
  assert (Hlf1 : len f1 = N.max (len f) 2194) by (unfold f1; rewrite len_write_at, HlenH; lia).
  assert (Hlf2 : len f2 = N.max (len f1) (2194 + bs)) by (unfold f2; rewrite len_write_at, HlenB; reflexivity).
  unfold load. change ((2048 =? 0) || (2048 =? ALL_ONES)) with false. cbv iota.
  unfold read_at, HDR_BODY. destruct (N.leb_spec (2048 + 142) (len f2)); [|lia].
  (* the header bytes *)
  assert (Hhb : slice f2 2048 142 = header_body h1).
  { unfold f2. rewrite slice_write_at_before by lia.
    replace (slice f1 2048 142) with (slice (slice f1 2048 146) 0 142) by (rewrite slice_slice by lia; reflexivity).
    unfold f1. rewrite <- HlenH. rewrite slice_write_at_same. unfold H, encode_header.
    change 142 with (len (header_body h1)). apply slice_exact. }
  rewrite Hhb, parse_header_body.
  cbn [r_rows r_root r_start r_free r_mansize r_alloc r_manoff r_nobj r_maxdb r_maxobj].
  assert (Hrows : h_rows h1 = 0) by assumption. rewrite Hrows. change (0 mod 65536 =? 0) with true. cbn [negb].
  assert (Hroot : h_root h1 = 2194) by reflexivity. rewrite Hroot. change (m64 2194) with 2194.
  assert (Hst : h_start h1 = bs) by assumption. rewrite Hst. rewrite (m64_small bs) by lia.
  (* the direct block *)
  unfold read_dblock_w. change ((2194 =? 0) || (2194 =? ALL_ONES)) with false. cbv iota.
  unfold read_at. destruct (N.leb_spec (2194 + bs) (len f2)); [|lia].
  assert (HB : slice f2 2194 bs = B) by (unfold f2; rewrite <- HlenB; apply slice_write_at_same).
  rewrite HB.
  destruct (encode_dblock_shape (h_blk h1)) as [c Hshape]; [rewrite Hsz; lia|rewrite Hsz, Hob; lia|].
  fold B in Hshape. rewrite Hsz, Hob in Hshape.
  assert (Hha : db_hdraddr (h_blk h1) = 2048) by reflexivity.
  assert (Hbo : db_boff (h_blk h1) = 0) by assumption. rewrite Hha, Hbo in Hshape.
  set (objs := db_objs (h_blk h)) in *. set (data := objs ++ zeros (bs - 19 - len objs)) in *.
  assert (Hld : len data = bs - 19) by (unfold data; rewrite len_app, len_zeros; lia).
  rewrite Hshape.
  change (take 4 ((SIG_FHDB ++ [0]) ++ ?x)) with SIG_FHDB.
  change (bytes_eqb SIG_FHDB SIG_FHDB) with true. cbn [negb].
  change (slice ((SIG_FHDB ++ [0]) ++ ?x) 4 1) with [0]. change (unle [0] =? 0) with true. cbn [negb].
  rewrite (slice_mid' (SIG_FHDB ++ [0]) (le 8 2048)) by reflexivity.
  change (unle (le 8 2048) =? 2048) with true. cbn [negb].
  rewrite (app_assoc (SIG_FHDB ++ [0])).
  rewrite (slice_mid' ((SIG_FHDB ++ [0]) ++ le 8 2048) (le 2 0)) by reflexivity.
  rewrite (app_assoc ((SIG_FHDB ++ [0]) ++ le 8 2048)).
  unfold PREFIX, CKSUM.
  rewrite (slice_mid' (((SIG_FHDB ++ [0]) ++ le 8 2048) ++ le 2 0) data); [|reflexivity|lia].
  change (unle (le 8 2048)) with 2048. change (unle (le 2 0)) with 0.
  unfold reloaded. fold objs data.
  assert (Hmd : h_maxdb h1 = bs) by assumption. assert (Hms : h_mansize h1 = bs) by assumption.
  assert (Hal : h_alloc h1 = bs) by assumption.
  assert (Hfr : h_free h1 = h_free h) by reflexivity. assert (Hmo : h_manoff h1 = h_manoff h) by reflexivity.
  assert (Hno : h_nobj h1 = h_nobj h) by reflexivity.
  rewrite Hmd, Hms, Hal, Hfr, Hmo, Hno. rewrite !(m64_small bs) by lia.
  rewrite (m64_small (h_free h)) by lia. rewrite (m64_small (h_manoff h)) by lia. rewrite (m64_small (h_nobj h)) by lia.
  reflexivity.
Qed.

Lemma R_reloaded bs h fs fs' sp : bs_ok bs = true -> R bs h fs sp -> R bs (reloaded bs h) fs' sp.
Proof.
  intros Hbs HR. pose proof (bs_ok_bounds bs Hbs) as [[Hb1 Hb2] Hcap]. destruct HR.
  constructor; unfold reloaded;
    cbn [h_ind h_others h_blk db_size db_boff h_start h_maxdb h_mansize h_alloc h_rows
         h_fhmax h_lensz h_manoff h_nobj h_free h_loaded db_free db_objs]; try assumption; try reflexivity.
  - apply lensz_of_ok. lia.
  - rewrite len_app, len_zeros. lia.
  - rewrite len_app, len_zeros. lia.
  - eapply Forall_impl; [|exact R_live0]. intros e He. eapply entry_ok_weaken; [exact He|lia|].
    intros. apply slice_app_l. lia.
  - right. reflexivity.
Qed.

Lemma store_files bs h fs sp :
  R bs h fs sp ->
  exists nx, store h fs =
    Ok (set_addrs h 2048 2194,
        mkFS (write_at (write_at (f_bytes fs) 2048 (encode_header (set_addrs h 2048 2194))) 2194
                       (encode_dblock (h_blk (set_addrs h 2048 2194)))) nx, 2048).
Proof.
  intros HR. destruct HR. unfold store, store_direct. rewrite R_ind0. destruct R_addr0 as [[-> Hn]| ->].
  - rewrite Hn. change (2048 + HDR_SIZE) with 2194. eexists. reflexivity.
  - eexists. reflexivity.
Qed.

Lemma step_SL_R bs h fs sp :
  bs_ok bs = true -> R bs h fs sp ->
  exists fs1, step cap_new bs (h, fs) SL = (reloaded bs h, fs1, OUnit) /\ R bs (reloaded bs h) fs1 sp.
Proof.
  intros Hbs HR. destruct (store_files bs h fs sp HR) as [nx Hs].
  unfold step. rewrite Hs. cbn [f_bytes].
  rewrite (load_after_store bs h fs sp (f_bytes fs) Hbs HR).
  eexists. split. reflexivity. eapply R_reloaded; eassumption.
Qed.

(* ------------------------------------------------------------------ the refinement *)
Lemma entry_id_len objs vol bs e : entry_ok objs vol e -> vol <= cap_new bs -> bs <= 65536 ->
  id_off (fst e) = eoff e /\ id_len (fst e) = elen e.
Proof.
  intros (A & B & C & D) Hv Hb. split. reflexivity.
  rewrite A. apply id_len_mkid. unfold cap_new, PREFIX, CKSUM in Hv. destruct (bs <? 15 + 4); lia.
Qed.

Lemma R_observables bs h fs sp : bs_ok bs = true -> R bs h fs sp -> observables bs h sp.
Proof.
  intros Hbs HR. pose proof (bs_ok_bounds bs Hbs) as [[Hb1 Hb2] Hcap].
  split; [|split; [|split; [|split]]].
  - intros. eapply get_R; eassumption.
  - destruct HR. clear - R_live0 R_sorted0.
    induction R_sorted0 as [|e l S IH F]; cbn [map]. constructor.
    inversion R_live0; subst. constructor; [|auto].
    intros Hin. apply in_map_iff in Hin as (e' & Heq & Hin').
    rewrite Forall_forall in F, H2. specialize (F _ Hin'). specialize (H2 _ Hin').
    destruct H1 as (A & B & C & D). destruct H2 as (A' & B' & C' & D').
    unfold before, eoff in F. rewrite Heq in F. unfold eoff in *. lia.
  - destruct HR.
    assert (Hv : sp_vol sp <= cap_new bs) by lia.
    clear - R_live0 R_sorted0 Hv Hb2.
    induction R_sorted0 as [|e l S IH F]. constructor.
    inversion R_live0; subst. constructor; [|auto].
    rewrite Forall_forall in *. intros e' Hin'. specialize (F _ Hin'). specialize (H2 _ Hin').
    destruct (entry_id_len _ _ bs _ H1 Hv Hb2) as [E1 E2]. destruct (entry_id_len _ _ bs _ H2 Hv Hb2) as [E1' E2'].
    unfold disjoint_ids. rewrite E1, E2, E1'. unfold before in F.
    apply orb_true_iff. left. apply N.leb_le. assumption.
  - destruct HR. assumption.
  - destruct HR. assumption.
Qed.

Lemma step_refines bs h fs sp o sp' x :
  bs_ok bs = true -> R bs h fs sp -> spec_step bs sp o = Some (sp', x) ->
  exists h' fs', step cap_new bs (h, fs) o = (h', fs', x) /\ R bs h' fs' sp'.
Proof.
  intros Hbs HR Hs. destruct o as [d pick|id|id d|id|]; cbn [spec_step] in Hs.
  - (* insert *)
    destruct ((len d =? 0) || (MAX_OBJ <? len d)) eqn:Ebad.
    + injection Hs as <- <-. exists h, fs. split; [|assumption].
      unfold step, insert. apply orb_true_iff in Ebad as [E|E].
      * rewrite E. reflexivity.
      * rewrite E. destruct (len d =? 0); reflexivity.
    + apply orb_false_iff in Ebad as [E1 E2]. apply N.eqb_neq in E1. apply N.ltb_ge in E2.
      destruct (N.ltb_spec (cap_new bs) (sp_vol sp + len d)); [discriminate|].
      injection Hs as <- <-.
      destruct (insert_R bs h fs sp d pick Hbs HR) as (h' & Hi & HR'); try lia.
      exists h', fs. split; [|assumption]. unfold step. rewrite Hi. reflexivity.
  - (* get *)
    destruct (lookup id (sp_live sp)) as [d|] eqn:El; [|discriminate]. injection Hs as <- <-.
    exists h, fs. split; [|assumption]. unfold step. rewrite (get_R bs h fs sp id d) by assumption. reflexivity.
  - (* overwrite *)
    destruct (lookup id (sp_live sp)) as [old|] eqn:El; [|discriminate].
    destruct (N.eqb_spec (len d) (len old)).
    + injection Hs as <- <-. destruct (overwrite_R bs h fs sp id d old Hbs HR El e) as (h' & Ho & HR').
      exists h', fs. split; [|assumption]. unfold step. rewrite Ho. reflexivity.
    + injection Hs as <- <-. exists h, fs. split; [|assumption].
      unfold step. rewrite (overwrite_err_R bs h fs sp id d old) by assumption. reflexivity.
  - (* delete *)
    destruct (lookup id (sp_live sp)) as [old|] eqn:El; [|discriminate]. injection Hs as <- <-.
    destruct (delete_R bs h fs sp id old Hbs HR El) as (h' & Hd & HR').
    exists h', fs. split; [|assumption]. unfold step. rewrite Hd. reflexivity.
  - (* store + load *)
    injection Hs as <- <-. destruct (step_SL_R bs h fs sp Hbs HR) as (fs1 & Hst & HR').
    exists (reloaded bs h), fs1. split; assumption.
Qed.

Lemma run_refines bs hist : forall h fs sp sp' eouts,
  bs_ok bs = true -> R bs h fs sp -> spec_run bs sp hist = Some (sp', eouts) ->
  exists h' fs', run cap_new bs (h, fs) hist = (h', fs', eouts) /\ R bs h' fs' sp'.
Proof.
  induction hist as [|o r IH]; intros h fs sp sp' eouts Hbs HR Hs; cbn [spec_run run] in *.
  - injection Hs as <- <-. exists h, fs. split; [reflexivity|assumption].
  - destruct (spec_step bs sp o) as [[sp1 x]|] eqn:E1; [|discriminate].
    destruct (spec_run bs sp1 r) as [[sp2 xs]|] eqn:E2; [|discriminate]. injection Hs as <- <-.
    destruct (step_refines bs h fs sp o sp1 x Hbs HR E1) as (h1 & fs1 & Hst & HR1).
    destruct (IH h1 fs1 sp1 sp2 xs Hbs HR1 E2) as (h2 & fs2 & Hrun & HR2).
    exists h2, fs2. split; [|assumption]. rewrite Hst, Hrun. reflexivity.
Qed.

(* the named exclusions together say exactly that the specification is defined on the history *)
Lemma admissible_spec_run bs hist : forall sp,
  one_block_from bs (sp_vol sp) hist = true -> targets_live_from bs sp hist = true ->
  exists sp' eouts, spec_run bs sp hist = Some (sp', eouts).
Proof.
  induction hist as [|o r IH]; intros sp H1 H2; cbn [spec_run].
  - eexists _, _. reflexivity.
  - cbn [targets_live_from] in H2. apply andb_true_iff in H2 as [Hok Hrest].
    assert (Hstep : exists sp1 x, spec_step bs sp o = Some (sp1, x)
                     /\ one_block_from bs (sp_vol sp1) r = true).
    { destruct o as [d pick|id|id d|id|]; cbn [spec_step one_block_from] in *.
      - destruct ((len d =? 0) || (MAX_OBJ <? len d)).
        + eexists _, _. split; [reflexivity|assumption].
        + apply andb_true_iff in H1 as [Hf Hr]. apply N.leb_le in Hf.
          destruct (N.ltb_spec (cap_new bs) (sp_vol sp + len d)); [lia|].
          eexists _, _. split; [reflexivity|assumption].
      - destruct (lookup id (sp_live sp)); [|discriminate]. eexists _, _. split; [reflexivity|assumption].
      - destruct (lookup id (sp_live sp)); [|discriminate].
        destruct (len d =? len b); eexists _, _; (split; [reflexivity|assumption]).
      - destruct (lookup id (sp_live sp)); [|discriminate]. eexists _, _. split; [reflexivity|assumption].
      - eexists _, _. split; [reflexivity|assumption]. }
    destruct Hstep as (sp1 & x & Es & Hob). rewrite Es in Hrest |- *.
    destruct (IH sp1 Hob Hrest) as (sp2 & xs & Er). rewrite Er. eexists _, _. reflexivity.
Qed.

Lemma refines bs hist :
  bs_ok bs = true -> one_block bs hist = true -> targets_live bs hist = true ->
  exists sp eouts h fs,
    spec_run bs spec0 hist = Some (sp, eouts)
    /\ run cap_new bs (new_heap bs, fs0) hist = (h, fs, eouts)
    /\ R bs h fs sp /\ observables bs h sp.
Proof.
  intros Hbs H1 H2. destruct (admissible_spec_run bs hist spec0 H1 H2) as (sp & eouts & Hs).
  destruct (run_refines bs hist _ _ _ _ _ Hbs (R_new bs Hbs) Hs) as (h & fs & Hr & HR).
  exists sp, eouts, h, fs.
  split; [assumption|split; [assumption|split; [assumption|eapply R_observables; eassumption]]].
Qed.

(* ------------------------------------------------------------------ a failing insert changes nothing *)
Lemma insert_direct_full cap h d :
  cap (db_size (h_blk h)) < db_free (h_blk h) + len d -> insert_direct cap h d = (h, Err).
Proof.
  intros. unfold insert_direct. destruct (N.ltb_spec (cap (db_size (h_blk h))) (db_free (h_blk h) + len d)); [reflexivity|lia].
Qed.

Lemma insert_err_unchanged cap h d pick :
  h_ind h = None -> h_others h = [] ->
  snd (insert cap h d pick) = Err ->
  fst (insert cap h d pick) = h /\ (len d = 0 \/ MAX_OBJ < len d).
Proof.
  intros Hi Ho. unfold insert.
  destruct (N.eqb_spec (len d) 0). { intros _. cbn [fst]. auto. }
  destruct (N.ltb_spec MAX_OBJ (len d)). { intros _. cbn [fst]. auto. }
  unfold needs_transition. rewrite Hi.
  destruct (db_free (h_blk h) + len d <=? cap (db_size (h_blk h))) eqn:Efit; cbn [negb].
  - rewrite Hi. unfold insert_direct. apply N.leb_le in Efit.
    destruct (N.ltb_spec (cap (db_size (h_blk h))) (db_free (h_blk h) + len d)); [lia|]. cbv zeta. cbn [snd]. intros X; discriminate X.
  - cbn [transition h_ind]. unfold insert_indirect.
    assert (Hv : blocks_view (transition h) = [(db_boff (h_blk h), h_blk h)]).
    { unfold blocks_view. cbn [transition h_ind h_blk h_others]. rewrite Ho. reflexivity. }
    rewrite Hv. cbn [filter]. unfold fits. cbn [snd]. rewrite Efit.
    cbn [length Nat.max]. rewrite Nat.mod_1_r. cbn [nth_error].
    cbn [transition h_ind].
    change (len (zeros (1 * TABLE_WIDTH)) <=? len [(db_boff (h_blk h), h_blk h)]) with false.
    cbv iota zeta. cbn [snd]. intros X; discriminate X.
Qed.

(* ------------------------------------------------------------------ no stored byte is lost on write-out *)
Lemma block_bytes bs h fs sp id d :
  bs_ok bs = true -> R bs h fs sp -> lookup id (sp_live sp) = Some d ->
  slice (encode_dblock (h_blk h)) (PREFIX + id_off id) (len d) = d.
Proof.
  intros Hbs HR Hl. pose proof (bs_ok_bounds bs Hbs) as [[Hb1 Hb2] Hcap].
  destruct (R_entry _ _ _ _ _ _ Hbs HR Hl) as ((A & B & C & D) & Ho & Hn & Hp).
  unfold eoff, elen in *. cbn [fst snd] in *. destruct HR.
  destruct (encode_dblock_shape (h_blk h)) as [c Hs]; [lia|lia|]. rewrite Hs, R_size0.
  set (objs := db_objs (h_blk h)) in *.
  rewrite (app_assoc (SIG_FHDB ++ [0])). rewrite (app_assoc ((SIG_FHDB ++ [0]) ++ _)).
  rewrite slice_app_r by (unfold PREFIX; change (len _) with 15; lia).
  change (len (((SIG_FHDB ++ [0]) ++ le 8 (db_hdraddr (h_blk h))) ++ le 2 (db_boff (h_blk h)))) with 15.
  unfold PREFIX. replace (15 + id_off id - 15) with (id_off id) by lia.
  rewrite slice_app_l by (rewrite len_app, len_zeros; lia).
  rewrite slice_app_l by lia. assumption.
Qed.

Lemma no_byte_lost bs hist :
  bs_ok bs = true -> one_block bs hist = true -> targets_live bs hist = true ->
  exists sp eouts h fs,
    spec_run bs spec0 hist = Some (sp, eouts)
    /\ run cap_new bs (new_heap bs, fs0) hist = (h, fs, eouts)
    /\ forall id d, lookup id (sp_live sp) = Some d ->
         slice (encode_dblock (h_blk h)) (PREFIX + id_off id) (len d) = d.
Proof.
  intros Hbs H1 H2. destruct (refines bs hist Hbs H1 H2) as (sp & eouts & h & fs & Hs & Hr & HR & _).
  exists sp, eouts, h, fs. split; [assumption|split; [assumption|]].
  intros. eapply block_bytes; eassumption.
Qed.

(* ------------------------------------------------------------------ persistence *)
Lemma persist bs hist :
  bs_ok bs = true -> one_block bs hist = true -> targets_live bs hist = true ->
  exists sp eouts h fs,
    spec_run bs spec0 hist = Some (sp, eouts)
    /\ run cap_new bs (new_heap bs, fs0) hist = (h, fs, eouts)
    /\ exists h1 fs1 ha h2,
         store h fs = Ok (h1, fs1, ha) /\ load bs (f_bytes fs1) ha = Ok h2
         /\ observables bs h2 sp
         /\ h_nobj h2 = h_nobj h /\ h_free h2 = h_free h /\ h_manoff h2 = h_manoff h
         /\ db_free (h_blk h2) = db_free (h_blk h)
         /\ (forall id d, lookup id (sp_live sp) = Some d -> get h2 id = get h id).
Proof.
  intros Hbs H1 H2. destruct (refines bs hist Hbs H1 H2) as (sp & eouts & h & fs & Hs & Hr & HR & Hobs).
  exists sp, eouts, h, fs. split; [assumption|split; [assumption|]].
  destruct (store_files bs h fs sp HR) as [nx Hst].
  eexists _, _, _, (reloaded bs h). split; [exact Hst|]. cbn [f_bytes].
  split. { apply (load_after_store bs h fs sp); assumption. }
  pose proof (R_reloaded bs h fs fs sp Hbs HR) as HR2.
  split. { eapply R_observables; eassumption. }
  split; [reflexivity|]. split; [reflexivity|]. split; [reflexivity|].
  split. { destruct HR. unfold reloaded. cbn [h_blk db_free]. congruence. }
  intros id d Hl. rewrite (get_R bs _ fs sp id d Hbs HR2 Hl).
  symmetry. destruct Hobs as [Hg _]. apply Hg. assumption.
Qed.

(* store + load anywhere in a history: the specification ignores it, hence so does every later answer *)
Lemma spec_run_app bs a b sp :
  spec_run bs sp (a ++ b) =
  match spec_run bs sp a with
  | None => None
  | Some (sp1, xs) => match spec_run bs sp1 b with None => None | Some (sp2, ys) => Some (sp2, xs ++ ys) end
  end.
Proof.
  revert sp. induction a as [|o a IH]; intros sp; cbn [app spec_run].
  - destruct (spec_run bs sp b) as [[? ?]|]; reflexivity.
  - destruct (spec_step bs sp o) as [[sp1 x]|]; [|reflexivity]. rewrite IH.
    destruct (spec_run bs sp1 a) as [[sp2 xs]|]; [|reflexivity].
    destruct (spec_run bs sp2 b) as [[sp3 ys]|]; reflexivity.
Qed.

Lemma persist_commutes bs pre post sp eouts :
  bs_ok bs = true -> spec_run bs spec0 (pre ++ post) = Some (sp, eouts) ->
  exists xs ys h fs h' fs',
    eouts = xs ++ ys /\ length xs = length pre
    /\ run cap_new bs (new_heap bs, fs0) (pre ++ post) = (h, fs, xs ++ ys)
    /\ run cap_new bs (new_heap bs, fs0) (pre ++ SL :: post) = (h', fs', xs ++ OUnit :: ys)
    /\ observables bs h sp /\ observables bs h' sp.
Proof.
  intros Hbs Hs. rewrite spec_run_app in Hs.
  destruct (spec_run bs spec0 pre) as [[sp1 xs]|] eqn:E1; [|discriminate].
  destruct (spec_run bs sp1 post) as [[sp2 ys]|] eqn:E2; [|discriminate]. injection Hs as <- <-.
  assert (Hs1 : spec_run bs spec0 (pre ++ post) = Some (sp2, xs ++ ys)) by (rewrite spec_run_app, E1, E2; reflexivity).
  assert (Hs2 : spec_run bs spec0 (pre ++ SL :: post) = Some (sp2, xs ++ OUnit :: ys)).
  { rewrite spec_run_app, E1. cbn [spec_run spec_step]. rewrite E2. reflexivity. }
  destruct (run_refines bs _ _ _ _ _ _ Hbs (R_new bs Hbs) Hs1) as (h & fs & Hr1 & HR1).
  destruct (run_refines bs _ _ _ _ _ _ Hbs (R_new bs Hbs) Hs2) as (h' & fs' & Hr2 & HR2).
  exists xs, ys, h, fs, h', fs'. split; [reflexivity|]. split.
  { clear - E1. revert E1. generalize spec0. revert xs sp1.
    induction pre as [|o pre IH]; intros xs sp1 s E1; cbn [spec_run] in E1.
    - injection E1 as <- <-. reflexivity.
    - destruct (spec_step bs s o) as [[s1 x]|]; [|discriminate].
      destruct (spec_run bs s1 pre) as [[s2 zs]|] eqn:E; [|discriminate]. injection E1 as <- <-.
      cbn [length]. f_equal. eapply IH. eassumption. }
  split; [assumption|]. split; [assumption|].
  split; eapply R_observables; eassumption.
Qed.

(* ------------------------------------------------------------------ refutations (witnesses by computation) *)
(* D12, the pinned capacity rule: 60 bytes are accepted into a 64-byte block; the serialised block holds only
   the first 45 of them, and after store + load the id no longer resolves *)
Lemma no_byte_lost_refuted_old_rule :
  let d := obj 1 60 in
  let id := mkid 0 60 in
  bs_ok 64 = true /\ targets_live 64 [Ins d 0; SL; Get id] = true
  /\ outs_of cap_old 64 [Ins d 0; Get id] = [OId id; OData d]
  /\ bytes_eqb (slice (encode_dblock (h_blk (heap_of cap_old 64 [Ins d 0]))) (PREFIX + id_off id) (len d)) d = false
  /\ outs_of cap_old 64 [Ins d 0; SL; Get id] = [OId id; OUnit; OErr].
Proof. vm_compute. repeat split; reflexivity. Qed.

(* with the repaired rule the same insert no longer fits the first block (it is not silently truncated) *)
Lemma old_witness_excluded_new_rule : one_block 64 [Ins (obj 1 60) 0] = false.
Proof. vm_compute. reflexivity. Qed.

(* class "total volume exceeds one direct block": the insert that does not fit does not fail, the heap moves to
   an indirect root in memory (get still answers), and from then on every write-out is refused: nothing of the
   heap - including the object just accepted - can reach the file *)
Lemma multi_block_refuted :
  let a := obj 1 40 in let b := obj 101 40 in
  let hist := [Ins a 0; Ins b 0] in
  let idb := mkid 64 40 in
  bs_ok 64 = true /\ targets_live 64 hist = true /\ one_block 64 hist = false
  /\ outs_of cap_new 64 (hist ++ [Get idb; SL; Get idb]) = [OId (mkid 0 40); OId idb; OData b; OErr; OData b]
  /\ store (heap_of cap_new 64 hist) (file_of cap_new 64 hist) = Err
  /\ f_bytes (file_of cap_new 64 (hist ++ [SL])) = [].
Proof. vm_compute. repeat split; reflexivity. Qed.

(* ... and a failing insert on the indirect path has already changed the heap (a third block is registered,
   managed space and free space have grown) *)
Lemma full_refuted_indirect :
  let hist := [Ins (obj 1 40) 0; Ins (obj 2 40) 0] in
  let h := heap_of cap_new 64 hist in
  let '(h', r) := insert cap_new h (obj 3 40) 0 in
  r = Err /\ h_mansize h = 128 /\ h_mansize h' = 192 /\ h_free h' = h_free h + 64
  /\ length (h_others h') = S (length (h_others h)).
Proof. vm_compute. repeat split; reflexivity. Qed.

(* class "delete of an id that is not live": accepted, and the header accounting is corrupted *)
Lemma dead_id_refuted :
  let id := mkid 0 10 in
  let hist := [Ins (obj 1 10) 0; Del id; Del id] in
  bs_ok 64 = true /\ one_block 64 hist = true /\ targets_live 64 hist = false
  /\ outs_of cap_new 64 hist = [OId id; OUnit; OUnit]
  /\ h_nobj (heap_of cap_new 64 hist) = 18446744073709551615
  /\ h_free (heap_of cap_new 64 hist) = 74.
Proof. vm_compute. repeat split; reflexivity. Qed.

(* block sizes above 64 KiB (dense groups use 512 KiB): 2-byte offsets wrap; two live objects get ids with
   overlapping ranges and get returns the bytes of another object *)
Lemma offset_wrap_refuted :
  let a := repeat 1 (N.to_nat 65536) in
  let b := repeat 2 (N.to_nat 10) in
  let hist := [Ins a 0; Ins b 0] in
  bs_ok 524288 = false
  /\ outs_of cap_new 524288 (hist ++ [Get (mkid 0 10)]) = [OId (mkid 0 65536); OId (mkid 0 10); OData (repeat 1 (N.to_nat 10))]
  /\ disjoint_ids (mkid 0 65536) (mkid 0 10) = false.
Proof. vm_compute. repeat split; reflexivity. Qed.

(* ------------------------------------------------------------------ non-vacuity *)
Definition demo_hist : list op :=
  let a := obj 1 20 in let b := obj 50 5 in let c := obj 90 20 in
  [Ins a 0; Ins b 0; Get (mkid 0 20); Ovw (mkid 0 20) (obj 7 20); Ovw (mkid 0 20) (obj 7 19); SL; Get (mkid 0 20);
   Del (mkid 20 5); Ins [] 0; SL; Ins c 0; Get (mkid 25 20); SL; Get (mkid 25 20); Get (mkid 0 20)].

(* a history that fills a 64-byte block exactly to its usable size (45), with every kind of operation and
   three store/load cycles, is admissible, and the model's answers are the expected ones *)
Example demo_admissible :
  bs_ok 64 = true /\ one_block 64 demo_hist = true /\ targets_live 64 demo_hist = true.
Proof. vm_compute. repeat split; reflexivity. Qed.

Example demo_outputs :
  outs_of cap_new 64 demo_hist =
  [OId (mkid 0 20); OId (mkid 20 5); OData (obj 1 20); OUnit; OErr; OUnit; OData (obj 7 20);
   OUnit; OErr; OUnit; OId (mkid 25 20); OData (obj 90 20); OUnit; OData (obj 90 20); OData (obj 7 20)]
  /\ h_nobj (heap_of cap_new 64 demo_hist) = 2 /\ h_free (heap_of cap_new 64 demo_hist) = 24
  /\ db_free (h_blk (heap_of cap_new 64 demo_hist)) = 45.
Proof. vm_compute. repeat split; reflexivity. Qed.

(* the next byte does not fit: the history leaves the single-block class *)
Example demo_overflow_excluded : one_block 64 (demo_hist ++ [Ins [1] 0]) = false.
Proof. vm_compute. reflexivity. Qed.

(* both read-only readers return the stored bytes from the file written after demo_hist *)
Example demo_readers :
  match store (heap_of cap_new 64 demo_hist) (file_of cap_new 64 demo_hist) with
  | Err => False
  | Ok (h1, fs1, ha) =>
  ro_read (f_bytes fs1) ha (mkid 25 20) = Ok (obj 90 20) /\ core_read (f_bytes fs1) ha (mkid 25 20) = Ok (obj 90 20)
  /\ ro_read (f_bytes fs1) ha (mkid 0 20) = Ok (obj 7 20) /\ core_read (f_bytes fs1) ha (mkid 0 20) = Ok (obj 7 20)
  end.
Proof. vm_compute. repeat split; reflexivity. Qed.

(* ------------------------------------------------------------------ the two read-only readers *)
Lemma R_set_addrs bs h fs sp a b : R bs h fs sp -> R bs (set_addrs h a b) fs sp.
Proof. intros []. constructor; assumption. Qed.

Lemma id_fields bs lensz off n :
  lensz_ok bs lensz -> off < 65536 -> n < bs ->
  unle (slice (mkid off n) 1 2) = off /\ unle (slice (mkid off n) 3 lensz) = n.
Proof.
  intros L Ho Hn. rewrite mkid_unfold. unfold slice, take, drop.
  change (N.to_nat 1) with 1%nat. change (N.to_nat 2) with 2%nat. change (N.to_nat 3) with 3%nat.
  cbn [skipn firstn unle]. split. lia.
  destruct L as [[-> Hb]|[[-> Hb]|[-> Hb]]].
  - change (N.to_nat 1) with 1%nat. cbn [firstn unle]. lia.
  - change (N.to_nat 2) with 2%nat. cbn [firstn unle]. lia.
  - change (N.to_nat 3) with 3%nat. cbn [firstn unle]. lia.
Qed.

Section Stored.
  Variables (bs : N) (h : heap) (fs : fstate) (sp : spec) (f : bytes).
  Hypothesis Hbs : bs_ok bs = true.
  Hypothesis HR : R bs h fs sp.
  Let h1 := set_addrs h 2048 2194.
  Let H := encode_header h1.
  Let B := encode_dblock (h_blk h1).
  Let f2 := write_at (write_at f 2048 H) 2194 B.

  Lemma stored_lenB : len B = bs.
  Proof.
    pose proof (bs_ok_bounds bs Hbs) as [[Hb1 Hb2] Hcap]. destruct HR.
    unfold B. rewrite len_encode_dblock; unfold h1; cbn [set_addrs h_blk db_size db_objs]; lia.
  Qed.
  Lemma stored_len : 2194 + bs <= len f2.
  Proof. unfold f2. rewrite len_write_at, stored_lenB. lia. Qed.
  Lemma stored_block : slice f2 2194 bs = B.
  Proof. unfold f2. rewrite <- stored_lenB. apply slice_write_at_same. Qed.
  Lemma stored_header : slice f2 2048 146 = H.
  Proof.
    unfold f2. rewrite slice_write_at_before; [|lia|rewrite len_write_at; change (len H) with 146; lia].
    change 146 with (len H). apply slice_write_at_same.
  Qed.
  Lemma stored_header_part o m : o + m <= 142 -> slice f2 (2048 + o) m = slice (header_body h1) o m.
  Proof.
    intros. rewrite <- (slice_slice f2 2048 146) by lia. rewrite stored_header.
    unfold H, encode_header. apply slice_app_l. change (len (header_body h1)) with 142. assumption.
  Qed.

  Variables (id d : bytes).
  Hypothesis Hl : lookup id (sp_live sp) = Some d.

  Lemma stored_object : slice f2 (2194 + 15 + id_off id) (len d) = d.
  Proof.
    pose proof (bs_ok_bounds bs Hbs) as [[Hb1 Hb2] Hcap].
    destruct (R_entry _ _ _ _ _ _ Hbs HR Hl) as ((A & B0 & C & D) & Ho & Hn & Hp).
    unfold eoff, elen in *. cbn [fst snd] in *.
    replace (2194 + 15 + id_off id) with (2194 + (15 + id_off id)) by lia.
    rewrite <- (slice_slice f2 2194 bs) by (destruct HR; lia). rewrite stored_block.
    apply (block_bytes bs h1 fs sp id d Hbs (R_set_addrs _ _ _ _ _ _ HR) Hl).
  Qed.

  Lemma ro_read_stored : ro_read f2 2048 id = Ok d.
  Proof.
    pose proof (bs_ok_bounds bs Hbs) as [[Hb1 Hb2] Hcap].
    destruct (R_entry _ _ _ _ _ _ Hbs HR Hl) as ((A & B0 & C & D) & Ho & Hn & Hp).
    unfold eoff, elen in *. cbn [fst snd] in *.
    pose proof stored_len as Hlen. pose proof HR as HR'. destruct HR'.
    remember (id_off id) as off eqn:Eoff. rewrite A.
    unfold ro_read. change ((2048 =? 0) || (2048 =? ALL_ONES)) with false. cbv iota.
    unfold read_at, HDR_BODY. destruct (N.leb_spec (2048 + 142) (len f2)); [|lia].
    replace (slice f2 2048 142) with (header_body h1).
    2:{ pose proof (stored_header_part 0 142). rewrite N.add_0_r in H1. rewrite H1 by lia.
        change 142 with (len (header_body h1)). symmetry. apply slice_full. }
    rewrite parse_header_body.
    cbn [r_rows r_root r_start r_flags r_maxheap r_maxdb r_maxobj].
    rewrite mkid_unfold.
    change (N.shiftr (N.land 0 192) 6 =? 0) with true. cbn [negb]. change (N.land 0 48) with 0.
    change (0 =? 0) with true. cbv iota.
    change (wrap8 (wrap16 (16 + 7) / 8)) with 2.
    assert (Hmd : h_maxdb h1 = bs) by assumption. assert (Hst : h_start h1 = bs) by assumption.
    assert (Hrw : h_rows h1 = 0) by assumption. assert (Hrt : h_root h1 = 2194) by reflexivity.
    rewrite Hmd, Hst, Hrw, Hrt. rewrite !(m64_small bs) by lia. change (m64 2194) with 2194.
    pose proof (lensz_of_ok bs ltac:(lia)) as Lz. change MAX_OBJ with 65536 in Lz.
    set (lz := lensz_of bs 65536) in *.
    rewrite <- mkid_unfold. rewrite len_mkid.
    destruct (N.ltb_spec 8 (1 + 2 + lz)).
    { destruct Lz as [[-> _]|[[-> _]|[-> _]]]; lia. }
    destruct (id_fields bs lz off (len d) Lz Ho Hn) as [F1 F2].
    change (1 + 2) with 3. rewrite F1, F2.
    change (0 mod 65536 =? 0) with true. cbn [negb].
    change ((2194 =? 0) || (2194 =? ALL_ONES)) with false. cbv iota.
    destruct (N.leb_spec (2194 + bs) (len f2)); [|lia].
    rewrite stored_block.
    destruct (encode_dblock_shape (h_blk h1)) as [c Hshape];
      [unfold h1; cbn [set_addrs h_blk db_size]; lia|unfold h1; cbn [set_addrs h_blk db_size db_objs]; lia|].
    fold B in Hshape. unfold h1 in Hshape. cbn [set_addrs h_blk db_size db_objs db_hdraddr db_boff] in Hshape.
    rewrite R_size0, R_boff0 in Hshape.
    set (objs := db_objs (h_blk h)) in *. set (data := objs ++ zeros (bs - 19 - len objs)) in *.
    assert (Hld : len data = bs - 19) by (unfold data; rewrite len_app, len_zeros; lia).
    rewrite Hshape.
    change (take 4 ((SIG_FHDB ++ [0]) ++ ?x)) with SIG_FHDB.
    change (bytes_eqb SIG_FHDB SIG_FHDB) with true. cbn [negb].
    change (slice ((SIG_FHDB ++ [0]) ++ ?x) 4 1) with [0]. change (unle [0] =? 0) with true. cbn [negb].
    rewrite (slice_mid' (SIG_FHDB ++ [0]) (le 8 2048)) by reflexivity.
    change (unle (le 8 2048) =? 2048) with true. cbn [negb].
    rewrite (app_assoc (SIG_FHDB ++ [0])).
    rewrite (slice_mid' ((SIG_FHDB ++ [0]) ++ le 8 2048) (le 2 0)) by reflexivity.
    change (unle (le 2 0)) with 0. change (N.land 0 2 =? 0) with true. cbv iota.
    rewrite (app_assoc ((SIG_FHDB ++ [0]) ++ le 8 2048)).
    change (13 + 2) with 15.
    rewrite slice_app_r by (change (len _) with 15; lia).
    change (len (((SIG_FHDB ++ [0]) ++ le 8 2048) ++ le 2 0)) with 15.
    replace (15 - 15) with 0 by lia.
    replace (bs - 15) with (len (data ++ le 4 c)) by (rewrite len_app, len_le; lia).
    rewrite slice_full.
    destruct (N.ltb_spec off 0); [lia|]. rewrite N.sub_0_r.
    rewrite len_app, len_le.
    destruct (N.ltb_spec (len data + N.of_nat 4) off); [lia|].
    destruct (N.ltb_spec (len data + N.of_nat 4) (off + len d)); [lia|].
    f_equal. rewrite slice_app_l by lia. unfold data. rewrite slice_app_l by lia. assumption.
  Qed.

  Lemma core_read_stored : core_read f2 2048 id = Ok d.
  Proof.
    pose proof (bs_ok_bounds bs Hbs) as [[Hb1 Hb2] Hcap].
    destruct (R_entry _ _ _ _ _ _ Hbs HR Hl) as ((A & B0 & C & D) & Ho & Hn & Hp).
    unfold eoff, elen in *. cbn [fst snd] in *.
    pose proof stored_len as Hlen. pose proof stored_object as Hobj. pose proof HR as HR'. destruct HR'.
    remember (id_off id) as off eqn:Eoff. rewrite A.
    unfold core_read, read_some.
    assert (Hgot : len (slice f2 2048 144) = 144) by (apply len_slice; lia).
    rewrite Hgot. change (144 <? 20) with false. cbv iota.
    change (zeros (144 - 144)) with (@nil byte). rewrite app_nil_r.
    assert (Hpart : forall o m, o + m <= 142 -> slice (slice f2 2048 144) o m = slice (header_body h1) o m).
    { intros. rewrite slice_slice by lia. apply stored_header_part. assumption. }
    replace (take 4 (slice f2 2048 144)) with SIG_FRHP.
    2:{ change (take 4 (slice f2 2048 144)) with (slice (slice f2 2048 144) 0 4). rewrite Hpart by lia. reflexivity. }
    change (bytes_eqb SIG_FRHP SIG_FRHP) with true. cbn [negb].
    rewrite !Hpart by lia.
    change (slice (header_body h1) 10 4) with (le 4 MAX_OBJ).
    change (slice (header_body h1) 120 8) with (le 8 (h_maxdb h1)).
    change (slice (header_body h1) 128 2) with (le 2 MAX_HEAP_BITS).
    change (slice (header_body h1) 132 8) with (le 8 (h_root h1)).
    change (unle (le 4 MAX_OBJ)) with 65536. change (unle (le 2 MAX_HEAP_BITS)) with 16.
    change (wrap8 (wrap16 (16 + 7) / 8)) with 2.
    assert (Hmd : h_maxdb h1 = bs) by assumption. assert (Hrt : h_root h1 = 2194) by reflexivity.
    rewrite Hmd, Hrt. change (unle (le 8 2194)) with 2194.
    rewrite (unle_le_small 8 bs) by (change (256 ^ N.of_nat 8) with 18446744073709551616; lia).
    pose proof (lensz_of_ok bs ltac:(lia)) as Lz. change MAX_OBJ with 65536 in Lz.
    set (lz := lensz_of bs 65536) in *.
    rewrite mkid_unfold.
    change (take 7 ([0; off mod 256; (off / 256) mod 256; len d mod 256; (len d / 256) mod 256;
                     (len d / 256 / 256) mod 256; 0; 0] ++ zeros 7))
      with [0; off mod 256; (off / 256) mod 256; len d mod 256; (len d / 256) mod 256; (len d / 256 / 256) mod 256; 0].
    cbn [nth]. change (N.shiftr (N.land 0 48) 4 =? 0) with true. cbn [negb].
    change (N.min 2 6) with 2. change (1 + 2) with 3. change (5 + 8 + 2) with 15. change (15 + 16) with 31.
    set (ob := unle (take 2 (drop 1 _))).
    assert (Hoff : ob = off).
    { unfold ob, take, drop. change (N.to_nat 2) with 2%nat. change (N.to_nat 1) with 1%nat. cbn [skipn firstn unle]. lia. }
    rewrite Hoff. clear ob Hoff.
    set (lb := unle (take lz (drop 3 _))).
    assert (Hlenf : lb = len d).
    { unfold lb, take, drop. change (N.to_nat 3) with 3%nat. cbn [skipn].
      destruct Lz as [[-> Hb]|[[-> Hb]|[-> Hb]]].
      - change (N.to_nat 1) with 1%nat. cbn [firstn unle]. lia.
      - change (N.to_nat 2) with 2%nat. cbn [firstn unle]. lia.
      - change (N.to_nat 3) with 3%nat. cbn [firstn unle]. lia. }
    rewrite Hlenf. clear lb Hlenf.
    assert (Hhb : 15 <= len (slice f2 2194 31)).
    { unfold slice. rewrite len_take, len_drop. lia. }
    destruct (N.ltb_spec (len (slice f2 2194 31)) 15); [lia|].
    destruct (encode_dblock_shape (h_blk h1)) as [c Hshape];
      [unfold h1; cbn [set_addrs h_blk db_size]; lia|unfold h1; cbn [set_addrs h_blk db_size db_objs]; lia|].
    fold B in Hshape. unfold h1 in Hshape. cbn [set_addrs h_blk db_size db_objs db_hdraddr db_boff] in Hshape.
    rewrite R_size0, R_boff0 in Hshape.
    assert (HB4 : take 4 (slice f2 2194 31) = SIG_FHDB).
    { change (take 4 (slice f2 2194 31)) with (slice (slice f2 2194 31) 0 4). rewrite slice_slice by lia.
      rewrite N.add_0_r. rewrite <- (N.add_0_r 2194) at 1. rewrite <- (slice_slice f2 2194 bs) by lia.
      rewrite stored_block, Hshape. reflexivity. }
    rewrite HB4. change (bytes_eqb SIG_FHDB SIG_FHDB) with true. cbn [negb].
    assert (HB13 : slice (slice f2 2194 31) 13 2 = le 2 0).
    { rewrite slice_slice by lia. rewrite <- (slice_slice f2 2194 bs) by lia. rewrite stored_block, Hshape.
      rewrite (app_assoc (SIG_FHDB ++ [0])). apply slice_mid'; reflexivity. }
    rewrite HB13. change (unle (le 2 0)) with 0.
    destruct (N.ltb_spec off 0); [lia|]. rewrite N.sub_0_r.
    rewrite Hobj, N.ltb_irrefl. reflexivity.
  Qed.
End Stored.

Lemma refines_obs bs hist :
  bs_ok bs = true -> one_block bs hist = true -> targets_live bs hist = true ->
  exists sp eouts h fs,
    spec_run bs spec0 hist = Some (sp, eouts)
    /\ run cap_new bs (new_heap bs, fs0) hist = (h, fs, eouts)
    /\ observables bs h sp.
Proof.
  intros Hbs H1 H2. destruct (refines bs hist Hbs H1 H2) as (sp & eouts & h & fs & Hs & Hr & _ & Hobs).
  exists sp, eouts, h, fs. auto.
Qed.

Lemma readers bs hist :
  bs_ok bs = true -> one_block bs hist = true -> targets_live bs hist = true ->
  exists sp eouts h fs,
    spec_run bs spec0 hist = Some (sp, eouts)
    /\ run cap_new bs (new_heap bs, fs0) hist = (h, fs, eouts)
    /\ exists h1 fs1 ha,
         store h fs = Ok (h1, fs1, ha)
         /\ forall id d, lookup id (sp_live sp) = Some d ->
              ro_read (f_bytes fs1) ha id = Ok d /\ core_read (f_bytes fs1) ha id = Ok d.
Proof.
  intros Hbs H1 H2. destruct (refines bs hist Hbs H1 H2) as (sp & eouts & h & fs & Hs & Hr & HR & _).
  exists sp, eouts, h, fs. split; [assumption|split; [assumption|]].
  destruct (store_files bs h fs sp HR) as [nx Hst].
  eexists _, _, _. split; [exact Hst|]. cbn [f_bytes]. intros id d Hl. split.
  - eapply ro_read_stored; eassumption.
  - eapply core_read_stored; eassumption.
Qed.
