(* C02 at byte level, superblock / group / Open stages on image_v2_attr: the proofs of Proofs/FileImageGroup.v and
   Proofs/FileImageOpen.v (stated there for image_v2 only) carried over to the image with the attribute - the first six blocks
   are the same, the dataset's header has four messages: ReadSuperblock returns SB', hdf5.Open's loader returns the tree "/"
   with exactly one child, the dataset `name` (the loader parses the attributes of every header it visits and drops them). *)
From HV Require Import Base.Prelude Base.Outcome Base.Bytes Model.IOProg Proofs.IOProg Model.IOProgReader Model.IOProgOpen.
From HV Require Import Model.CodecSuper Model.CodecOhdr Model.CodecMsg Model.CodecType Model.CodecLink Model.GroupWire Model.CodecAttr.
From HV Require Import Proofs.CodecSuper Proofs.CodecOhdr.
From HV Require Import Model.FileImage Model.FileImageAttr Proofs.FileImage Proofs.FileImageOhdr Proofs.FileImageData
  Proofs.FileImageGroup Proofs.FileImageOpen Proofs.FileImageAttrOhdr Proofs.FileImageAttr.

Lemma dset_det4 m3 m1 m8 m12 o3 o1 o8 o12 :
  det_type [ {| hmp_type := 3; hmp_offset := o3; hmp_data := m3 |}; {| hmp_type := 1; hmp_offset := o1; hmp_data := m1 |};
             {| hmp_type := 8; hmp_offset := o8; hmp_data := m8 |}; {| hmp_type := 12; hmp_offset := o12; hmp_data := m12 |} ] = 1.
Proof. reflexivity. Qed.

Section Image.
Variable name : bytes.
Variables class size cbf : N.
Variable dims : list N.
Variable data : bytes.
Variable aname : bytes.
Variable adt : datatype.
Variable adims : list N.
Variable adata : bytes.
Hypothesis Hname : link_name_ok name = true.
Hypothesis Hdt : basic_dtype class size cbf = true.
Hypothesis Hdims : dims_ok dims = true.
Hypothesis Hlen : blen data = total_elems dims * size.
Hypothesis Hpos : 0 < blen data.
Hypothesis Hbound : blen data < 4294967296.
Hypothesis Hwf : wf_attribute (attr_msg aname adt adims adata) = true.
Hypothesis Hfit : attr_fits class size cbf dims aname adt adims adata = true.

Local Notation f := (image_v2_attr name class size cbf dims data aname adt adims adata).
Local Notation da := (dset_addr data).
Local Notation seg := ((name ++ [0]) ++ zeros (N.to_nat (256 - (blen name + 1)))).

(* ------------------------------------------------------------------ superblock *)


Theorem superblock_stage_a : run0 f p_superblock = Ok SB'.
Proof.
  unfold p_superblock. rewrite run0_short.
  pose proof (PA_sb_rest name class size cbf dims data aname adt adims adata) as HP. 
  destruct HP as (pre & suf & E & L). destruct pre; [|cbn in L; blia]. cbn [app] in E.
  set (R := concat (skipn 1 (blocks_v2_attr name class size cbf dims data aname adt adims adata))) in *.
  assert (HR : 80 <= blen R).
  { subst R. cbn [skipn blocks_v2_attr concat]. rewrite blen_app, (heap_block_len name Hname). blia. }
  assert (Hrd : rd f 0 128 = enc_superblock (final_sb data) ++ firstn 80 R).
  { rewrite E. unfold rd. change (N.to_nat 0) with 0%nat. change (N.to_nat 128) with 128%nat. cbn [skipn].
    rewrite <- app_assoc. rewrite firstn_app.
    pose proof (sb_block_len data) as L48. unfold blen in L48.
    rewrite firstn_all2 by blia. f_equal.
    replace (128 - length (enc_superblock (final_sb data)))%nat with 80%nat by blia.
    rewrite firstn_app. unfold blen in HR. replace (80 - length R)%nat with 0%nat by blia. cbn [firstn]. now rewrite app_nil_r. }
  assert (Hav : avail f 0 128 = 128).
  { unfold avail. rewrite Hrd, blen_app, sb_block_len. unfold blen. rewrite firstn_length. unfold blen in HR. blia. }
  unfold padded. rewrite Hav, Hrd. change (N.to_nat (128 - 128)) with 0%nat. cbn [zeros repeat]. rewrite app_nil_r.
  rewrite dec_sb_buf_v2; [reflexivity | exact (wf_final_sb data Hbound) | reflexivity |].
  unfold blen. rewrite firstn_length. unfold blen in HR. blia.
Qed.

Lemma sig_read_a A (k : bytes -> prog A) : run0 f (ReadAt 0 8 k) = run0 f (k signature).
Proof.
  apply run0_read_exact; [|reflexivity].
  pose proof (PA_sb_rest name class size cbf dims data aname adt adims adata) as HP. 
  unfold enc_superblock in HP. cbn [sp_version final_sb] in HP. change (2 =? 0) with false in HP. cbv iota in HP.
  rewrite <- !app_assoc in HP. apply placed_head in HP. exact HP.
Qed.

(* ------------------------------------------------------------------ root object header *)
Theorem root_header_a fuel : (1 < fuel)%nat ->
  run0 f (p_ohdr SB' fuel 2168) =
  Ok {| ohp_version := 2; ohp_flags := 0; ohp_refcount := 1; ohp_name := []; ohp_msgs := root_msgs |}.
Proof.
  intros Hf.
  rewrite (p_ohdr_placed SB' fuel f 2168 root_ohdr (data ++ dset_block_attr class size cbf dims aname adt adims adata) root_ok).
  - reflexivity.
  - exact (PA_root_rest name class size cbf dims data aname adt adims adata Hname).
  - unfold dset_block_attr, enc_ohdr_v2. rewrite !blen_app. change (blen [79; 72; 68; 82]) with 4. blia.
  - exact Hf.
  - reflexivity.
Qed.

(* ------------------------------------------------------------------ local heap *)
Lemma P_heap_hdr_a : placed f 48 (heap_header 256 1 80).
Proof.
  pose proof (PA_heap name class size cbf dims data aname adt adims adata) as H.  rewrite (heap_block_bytes name Hname) in H.
  apply placed_head in H. exact H.
Qed.
Lemma P_heap_seg_a : placed f 80 seg.
Proof.
  pose proof (PA_heap name class size cbf dims data aname adt adims adata) as H.  rewrite (heap_block_bytes name Hname) in H.
  apply placed_tail in H. exact H.
Qed.
Theorem heap_stage_a : run0 f (p_local_heap SB' 48) = Ok seg.
Proof.
  unfold p_local_heap. cbn [SB' spp_offsize spp_lensize spp_bigendian]. change (8 + 2 * 8 + 8) with 32.
  rewrite (run0_read_exact _ f 48 (heap_header 256 1 80) 32 _ P_heap_hdr_a eq_refl).
  change (run0 f (p_read_bytes_at 80 256) = Ok seg).
  apply run0_read_bytes_at; [exact P_heap_seg_a | symmetry; exact (heap_seg_len name Hname) | blia | unfold MAXI64; blia].
Qed.


(* ------------------------------------------------------------------ B-tree node and symbol table node *)

Theorem snod_stage_a : run0 f (p_snod SB' 336) = Ok [(0, da, 0, 0, 0)].
Proof.
  pose proof (PA_snod name class size cbf dims data aname adt adims adata Hname) as HP.  rewrite snod_block_bytes in HP.
  unfold p_snod. cbn [SB' spp_offsize spp_lensize spp_bigendian].
  rewrite (run0_read_exact _ f 336 [83; 78; 79; 68; 1; 0; 1; 0] 8 _ (placed_head _ _ _ _ HP) eq_refl).
  change (run0 f (ReadAt (336 + 8) 40 (fun d => lift (snod_entries SB' 1 d 0))) = Ok [(0, da, 0, 0, 0)]).
  assert (HP2 : placed f (336 + 8) (enc_sym 8 (final_sym data))).
  { apply (placed_sub f 336 [83; 78; 79; 68; 1; 0; 1; 0] _ (zeros 1240)). exact HP. }
  rewrite (run0_read_exact _ f (336 + 8) _ 40 _ HP2) by (symmetry; apply enc_sym_len).
  unfold enc_sym, write_address, final_sym. cbn [sy_name sy_obj sy_cache sy_res N.to_nat Pos.to_nat Pos.iter_op Nat.add].
  rewrite snod_entries_one by apply length_le.
  rewrite unle_le_small by exact (da_u64 data Hbound). reflexivity.
Qed.

Theorem btree_stage_a : run0 f (p_group_btree SB' 1624) = Ok [(0, da, 0, 0, 0)].
Proof.
  pose proof (PA_bt name class size cbf dims data aname adt adims adata Hname) as HP.  rewrite bt_block_bytes in HP.
  unfold p_group_btree. cbn [SB' spp_offsize spp_lensize spp_bigendian]. change (8 + 2 * 8) with 24.
  assert (E : [84; 82; 69; 69; 0; 0; 1; 0] ++ le 8 UNDEF ++ le 8 UNDEF ++ (le 8 0 ++ le 8 336 ++ le 8 0) ++ zeros 496
             = ([84; 82; 69; 69; 0; 0; 1; 0] ++ le 8 UNDEF ++ le 8 UNDEF) ++ (le 8 0 ++ le 8 336 ++ le 8 0) ++ zeros 496)
    by reflexivity.
  rewrite E in HP.
  assert (HP1 : placed f 1624 ([84; 82; 69; 69; 0; 0; 1; 0] ++ le 8 UNDEF ++ le 8 UNDEF))
    by (apply (placed_head _ _ _ _ HP)).
  rewrite (run0_read_exact _ f 1624 _ 24 _ HP1 eq_refl).
  change (run0 f (ReadAt (1624 + 24) 24 (fun d => bind (lift (btree_children SB' 1 d 0)) (p_snods SB'))) = Ok [(0, da, 0, 0, 0)]).
  assert (HP2 : placed f (1624 + 24) (le 8 0 ++ le 8 336 ++ le 8 0)).
  { apply (placed_sub f 1624 ([84; 82; 69; 69; 0; 0; 1; 0] ++ le 8 UNDEF ++ le 8 UNDEF) _ (zeros 496)). exact HP. }
  rewrite (run0_read_exact _ f (1624 + 24) _ 24 _ HP2 eq_refl).
  change (run0 f (bind (p_snod SB' 336) (fun es => bind (Ret []) (fun rest => Ret (es ++ rest)))) = Ok [(0, da, 0, 0, 0)]).
  rewrite run0_bind, snod_stage_a. reflexivity.
Qed.

Lemma P_dset_sig_a : placed f da [79; 72; 68; 82].
Proof.
  pose proof (PA_dset name class size cbf dims data aname adt adims adata Hname) as H. 
  unfold dset_block_attr, enc_ohdr_v2 in H. rewrite <- !app_assoc in H. apply placed_head in H. exact H.
Qed.
Lemma P_root_sig_a : placed f 2168 [79; 72; 68; 82].
Proof.
  pose proof (PA_root_rest name class size cbf dims data aname adt adims adata Hname) as H. 
  unfold enc_ohdr_v2 in H. rewrite <- !app_assoc in H. apply placed_head in H. exact H.
Qed.
Lemma P_bt_sig_a : placed f 1624 [84; 82; 69; 69].
Proof.
  pose proof (PA_bt name class size cbf dims data aname adt adims adata Hname) as H.  rewrite bt_block_bytes in H.
  change ([84; 82; 69; 69; 0; 0; 1; 0]) with ([84; 82; 69; 69] ++ [0; 0; 1; 0]) in H.
  rewrite <- !app_assoc in H. apply placed_head in H. exact H.
Qed.

(* ------------------------------------------------------------------ Open's loader (as Proofs/FileImageOpen.v) *)
Variable B : N.
Hypothesis HB : 1 <= B.
Variable hfuel : nat.
Hypothesis Hhf : (4 < hfuel)%nat.

Lemma object_stage_a rec v :
  run0 f (p_object true SB' B hfuel rec da name {| vbt := v; loading := []; cnt := 0 |})
  = Ok (Dset name da, {| vbt := v; loading := []; cnt := 1 |}).
Proof.
  unfold p_object, enter. cbn [loading cnt vbt mem existsb lenN' length N.of_nat].
  change (1024 <=? 0) with false. change (0 + 1) with 1.
  replace (B <? 1) with false by (symmetry; apply N.ltb_ge; exact HB). cbv iota.
  unfold p_sig.
  rewrite (run0_read_exact _ f da [79; 72; 68; 82] 4 _ (P_dset_sig_a) eq_refl).
  change (bytes_eqb [79; 72; 68; 82] SNOD) with false. cbv iota.
  unfold with_header. rewrite run0_bind.
  rewrite (dset_header_attr name class size cbf dims data aname adt adims adata Hname Hdt Hdims Hlen Hbound Hwf Hfit hfuel Hhf).
  rewrite run0_swallow.
  unfold proj_ohdr_v2, dset_ohdr_attr. cbn [oh_msgs oh_flags msgs_at_v2 ohp_msgs hm_type hm_data].
  rewrite (attrs4 aname adt adims adata Hwf). cbn [bind]. rewrite run0_ret. rewrite dset_det4.
  change (1 =? 0) with false. change (1 =? 1) with true. cbv iota.
  unfold leave. cbn [fst snd vbt loading cnt filter]. rewrite N.eqb_refl. cbn [negb]. reflexivity.
Qed.

Lemma children_stage_a n :
  run0 f (p_children true SB' (p_load true SB' B hfuel (S n)) 1624 48 {| vbt := []; loading := []; cnt := 0 |})
  = Ok ([Dset name da], {| vbt := [1624]; loading := []; cnt := 1 |}).
Proof.
  unfold p_children. cbn [mem existsb vbt loading cnt].
  rewrite run0_bind, (heap_stage_a).
  unfold p_sig.
  rewrite (run0_read_exact _ f 1624 [84; 82; 69; 69] 4 _ (P_bt_sig_a) eq_refl).
  change (bytes_eqb [84; 82; 69; 69] [84; 82; 69; 69]) with true. cbv iota.
  rewrite run0_bind, (btree_stage_a).
  cbn [children_loop is_soft]. change (0 =? 2) with false. cbv iota.
  unfold p_sig.
  rewrite (run0_read_exact _ f da [79; 72; 68; 82] 4 _ (P_dset_sig_a) eq_refl).
  change (bytes_eqb [79; 72; 68; 82] SNOD) with false. rewrite andb_false_r.
  rewrite run0_bind. unfold load_entry.
  rewrite (run0_lift_ok _ _ _ _ f name (heap_name name Hname)).
  change (0 =? 1) with false. cbn [andb].
  cbn [p_load dispatch].
  rewrite object_stage_a. cbn [fst snd]. reflexivity.
Qed.

Lemma modern_stage_a n :
  run0 f (p_modern true SB' hfuel (p_load true SB' B hfuel (S n)) 2168 {| vbt := []; loading := []; cnt := 0 |})
  = Ok (Grp [] 2168 [Dset name da], {| vbt := [1624]; loading := []; cnt := 1 |}).
Proof.
  unfold p_modern, with_header. rewrite run0_bind.
  rewrite (root_header_a hfuel ltac:(blia)).
  rewrite run0_swallow. cbn [ohp_msgs ohp_name]. rewrite root_attrs. cbn [bind]. rewrite run0_ret.
  rewrite root_det, root_nolinks, root_stab.
  change (0 =? 0) with true. cbn [orb negb]. cbv iota.
  rewrite run0_bind, children_stage_a. reflexivity.
Qed.

Theorem open_image_a n : B = blen f / 8 + 1024 ->
  run0 f (p_open true (blen f) (S (S (S n))) hfuel) = Ok (Grp [47] 2168 [Dset name da]).
Proof.
  intros HBe. unfold p_open.
  rewrite (sig_read_a).
  change (bytes_eqb signature signature) with true. cbn [negb].
  rewrite run0_bind, (superblock_stage_a).
  cbn [spp_root SB'].
  replace (blen f <=? 2168) with false.
  2:{ symmetry. apply N.leb_gt. rewrite (image_attr_len name class size cbf dims data aname adt adims adata Hname Hdt Hdims Hlen Hbound Hwf Hfit).
      unfold eof_addr, dset_addr. change DATA_ADDR with 2195. blia. }
  rewrite run0_bind. rewrite <- HBe.
  cbn [p_load dispatch]. unfold p_group. change (2168 =? 0) with false. cbv iota.
  unfold p_sig.
  rewrite (run0_read_exact _ f 2168 [79; 72; 68; 82] 4 _ (P_root_sig_a) eq_refl).
  change (bytes_eqb [79; 72; 68; 82] SNOD) with false. cbv iota.
  cbn [p_load dispatch].
  change (fun (r : req) (st : lstate) => dispatch true SB' B hfuel (p_load true SB' B hfuel n) r st) with (p_load true SB' B hfuel (S n)).
  rewrite modern_stage_a. reflexivity.
Qed.
End Image.
