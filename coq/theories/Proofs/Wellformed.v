(* C05 - lemmas about the extent sweep and the append-only allocator. *)
From HV Require Import Base.Prelude Model.Wellformed.
From Coq Require Import Permutation Sorted.

(* ---------------------------------------------------------------- sorting *)
Lemma insert_perm : forall e l, Permutation (e :: l) (insert_ext e l).
Proof.
  induction l as [|x r IH]; cbn [insert_ext]; [reflexivity|].
  destruct (fst e <=? fst x); [reflexivity|].
  eapply perm_trans; [apply perm_swap|]. apply perm_skip. exact IH.
Qed.

Lemma sort_perm : forall l, Permutation l (sort_ext l).
Proof.
  induction l as [|x r IH]; cbn [sort_ext]; [constructor|].
  eapply perm_trans; [apply perm_skip; exact IH|]. apply insert_perm.
Qed.

Definition le_start (a b : ext) : Prop := fst a <= fst b.

Lemma insert_sorted : forall e l, StronglySorted le_start l -> StronglySorted le_start (insert_ext e l).
Proof.
  induction l as [|x r IH]; intros Hs; cbn [insert_ext].
  - repeat constructor.
  - destruct (fst e <=? fst x) eqn:E.
    + constructor; [exact Hs|]. inversion Hs; subst. constructor; [unfold le_start; lia|].
      eapply Forall_impl; [|eassumption]. unfold le_start. intros; lia.
    + inversion Hs; subst. constructor; [auto|].
      eapply Permutation_Forall; [apply insert_perm|]. constructor; [unfold le_start; lia|assumption].
Qed.

Lemma sort_sorted : forall l, StronglySorted le_start (sort_ext l).
Proof. induction l; cbn [sort_ext]; [constructor|]. apply insert_sorted. assumption. Qed.

(* ---------------------------------------------------------------- pairwise disjointness *)
Lemma disjoint_sym : forall a b, disjoint a b -> disjoint b a.
Proof. unfold disjoint. intros; tauto. Qed.

Lemma fop_cons : forall (R : ext -> ext -> Prop) x l,
  ForallOrdPairs R (x :: l) <-> Forall (R x) l /\ ForallOrdPairs R l.
Proof. intros; split; [inversion 1; auto|intros [? ?]; constructor; auto]. Qed.

Lemma fop_perm : forall l l', Permutation l l' -> ForallOrdPairs disjoint l -> ForallOrdPairs disjoint l'.
Proof.
  induction 1; intros Hf.
  - exact Hf.
  - apply fop_cons in Hf. destruct Hf as [H1 H2]. apply fop_cons. split; [|auto].
    eapply Permutation_Forall; eassumption.
  - apply fop_cons in Hf. destruct Hf as [H1 H2]. apply fop_cons in H2. destruct H2 as [H2 H3].
    inversion H1; subst. apply fop_cons. split.
    + constructor; [apply disjoint_sym; assumption|assumption].
    + apply fop_cons. split; assumption.
  - auto.
Qed.

(* the sweep on a list sorted by start, all extents non-empty *)
Lemma chain_sound : forall l, StronglySorted le_start l -> chain_ok l = true -> ForallOrdPairs disjoint l.
Proof.
  induction l as [|a r IH]; intros Hs Hc; [constructor|].
  inversion Hs as [|? ? Hs' Hall]; subst.
  destruct r as [|b r']; [repeat constructor|].
  cbn [chain_ok] in Hc. apply andb_true_iff in Hc. destruct Hc as [Hab Hc].
  constructor; [|apply IH; assumption].
  inversion Hall as [|? ? Hb Hr]; subst. inversion Hs' as [|? ? _ Hbr]; subst.
  constructor; [left; lia|].
  rewrite Forall_forall in *. intros x Hx. left. specialize (Hbr x Hx). unfold le_start in *. lia.
Qed.

Lemma chain_complete : forall l, StronglySorted le_start l -> Forall (fun e => fst e < snd e) l ->
  ForallOrdPairs disjoint l -> chain_ok l = true.
Proof.
  induction l as [|a r IH]; intros Hs Hne Hd; [reflexivity|].
  destruct r as [|b r']; [reflexivity|].
  inversion Hs as [|? ? Hs' Hall]; subst. inversion Hne as [|? ? Ha Hne']; subst.
  apply fop_cons in Hd. destruct Hd as [Hd1 Hd2].
  cbn [chain_ok]. apply andb_true_iff. split; [|apply IH; assumption].
  inversion Hall; subst. inversion Hd1; subst. inversion Hne'; subst.
  unfold le_start, disjoint in *. lia.
Qed.

Lemma ext_in_spec : forall fs eof e, ext_in fs eof e = true <-> ext_inside fs eof e.
Proof. unfold ext_in, ext_inside. intros. rewrite !andb_true_iff. lia. Qed.

Lemma extents_ok_sound : forall fs eof l, extents_ok fs eof l = true ->
  Forall (ext_inside fs eof) l /\ pairwise_disjoint l.
Proof.
  unfold extents_ok. intros fs eof l H. apply andb_true_iff in H. destruct H as [H1 H2]. split.
  - rewrite forallb_forall in H1. apply Forall_forall. intros x Hx. apply ext_in_spec. auto.
  - unfold pairwise_disjoint. eapply fop_perm; [apply Permutation_sym, sort_perm|].
    apply chain_sound; [apply sort_sorted|assumption].
Qed.

Lemma extents_ok_complete : forall fs eof l,
  Forall (ext_inside fs eof) l -> pairwise_disjoint l -> extents_ok fs eof l = true.
Proof.
  unfold extents_ok, pairwise_disjoint. intros fs eof l H1 H2. apply andb_true_iff. split.
  - apply forallb_forall. intros x Hx. apply ext_in_spec. rewrite Forall_forall in H1. auto.
  - apply chain_complete; [apply sort_sorted| |eapply fop_perm; [apply sort_perm|assumption]].
    eapply Permutation_Forall; [apply sort_perm|]. eapply Forall_impl; [|eassumption].
    unfold ext_inside. intros; tauto.
Qed.

Lemma extents_ok_iff : forall fs eof l,
  extents_ok fs eof l = true <-> (Forall (ext_inside fs eof) l /\ pairwise_disjoint l).
Proof. intros; split; [apply extents_ok_sound|intros [? ?]; apply extents_ok_complete; assumption]. Qed.

(* ---------------------------------------------------------------- allocator *)
Lemma tiles_app : forall l s m b, tiles s l m -> fst b = m -> fst b < snd b -> tiles s (l ++ [b]) (snd b).
Proof.
  induction l as [|x r IH]; intros s m b Ht Hb Hlt; cbn [tiles app] in *.
  - subst. auto.
  - destruct Ht as (? & ? & ?). repeat split; try assumption. eapply IH; eassumption.
Qed.

Lemma tiles_le : forall l s e, tiles s l e -> s <= e.
Proof.
  induction l as [|x r IH]; intros s e Ht; cbn [tiles] in Ht; [lia|].
  destruct Ht as (? & ? & Ht). apply IH in Ht. lia.
Qed.

Lemma tiles_bounds : forall l s e, tiles s l e -> Forall (fun b => s <= fst b /\ fst b < snd b /\ snd b <= e) l.
Proof.
  induction l as [|x r IH]; intros s e Ht; cbn [tiles] in Ht; [constructor|].
  destruct Ht as (H1 & H2 & Ht). constructor.
  - pose proof (tiles_le _ _ _ Ht). lia.
  - eapply Forall_impl; [|apply IH; eassumption]. cbn beta. intros; lia.
Qed.

Lemma tiles_disjoint : forall l s e, tiles s l e -> ForallOrdPairs disjoint l.
Proof.
  induction l as [|x r IH]; intros s e Ht; cbn [tiles] in Ht; [constructor|].
  destruct Ht as (H1 & H2 & Ht). constructor; [|eapply IH; eassumption].
  eapply Forall_impl; [|apply tiles_bounds; eassumption]. unfold disjoint. cbn beta. intros; lia.
Qed.

Lemma tiles_sorted : forall l s e, tiles s l e -> StronglySorted (fun a b => snd a <= fst b) l.
Proof.
  induction l as [|x r IH]; intros s e Ht; cbn [tiles] in Ht; [constructor|].
  destruct Ht as (H1 & H2 & Ht). constructor; [eapply IH; eassumption|].
  eapply Forall_impl; [|apply tiles_bounds; eassumption]. cbn beta. intros; lia.
Qed.

Lemma block_exts_app : forall bl b nx,
  block_exts {| blocks := bl ++ [b]; next_offset := nx |} = map block_ext bl ++ [block_ext b].
Proof. intros. unfold block_exts. cbn [blocks]. rewrite map_app. reflexivity. Qed.

(* invariant of the allocator: its blocks tile [initial, nextOffset) *)
Lemma allocate_all_tiles : forall reqs a init,
  tiles init (block_exts a) (next_offset a) ->
  next_offset a + sum_sizes reqs < 18446744073709551616 ->
  tiles init (block_exts (allocate_all a reqs)) (next_offset (allocate_all a reqs)) /\
  next_offset (allocate_all a reqs) = next_offset a + sum_sizes reqs.
Proof.
  induction reqs as [|s r IH]; intros a init Ht Hb; cbn [allocate_all sum_sizes fold_right] in *.
  - split; [assumption|lia].
  - unfold allocate. destruct (s =? 0) eqn:E; cbn [fst].
    + apply N.eqb_eq in E. subst. destruct (IH a init Ht) as [? ?]; [unfold sum_sizes; lia|]. split; [assumption|].
      unfold sum_sizes in *. lia.
    + apply N.eqb_neq in E. unfold sum_sizes in Hb.
      assert (Hw : wrap64 (next_offset a + s) = next_offset a + s) by (unfold wrap64; apply N.mod_small; lia).
      rewrite Hw.
      match goal with |- context [allocate_all ?a' r] => destruct (IH a' init) as [H1 H2] end.
      * rewrite block_exts_app. cbn [next_offset].
        replace (next_offset a + s) with (snd (block_ext (next_offset a, s))) by reflexivity.
        eapply tiles_app; [exact Ht|reflexivity|]. unfold block_ext. cbn [fst snd]. lia.
      * cbn [next_offset]. unfold sum_sizes. lia.
      * split; [exact H1|]. rewrite H2. cbn [next_offset]. unfold sum_sizes. lia.
Qed.

Lemma alloc_disjoint : forall initial reqs,
  initial + sum_sizes reqs < 18446744073709551616 ->
  let a := allocate_all (new_allocator initial) reqs in
  pairwise_disjoint (block_exts a) /\
  StronglySorted (fun x y => snd x <= fst y) (block_exts a) /\
  tiles initial (block_exts a) (end_of_file a) /\
  end_of_file a = initial + sum_sizes reqs.
Proof.
  intros initial reqs Hb a.
  destruct (allocate_all_tiles reqs (new_allocator initial) initial) as [Ht He].
  - reflexivity.
  - exact Hb.
  - fold a in Ht, He. unfold end_of_file. repeat split.
    + eapply tiles_disjoint; eassumption.
    + eapply tiles_sorted; eassumption.
    + assumption.
    + exact He.
Qed.

(* hence the extents handed out pass the executable check against the allocator's end of file *)
Lemma alloc_extents_ok : forall initial reqs,
  initial + sum_sizes reqs < 18446744073709551616 ->
  let a := allocate_all (new_allocator initial) reqs in
  extents_ok (end_of_file a) (end_of_file a) (block_exts a) = true.
Proof.
  intros initial reqs Hb a. destruct (alloc_disjoint initial reqs Hb) as (Hd & _ & Ht & _). fold a in Hd, Ht.
  apply extents_ok_complete; [|assumption].
  eapply Forall_impl; [|apply tiles_bounds; eassumption]. unfold ext_inside. cbn beta. intros; lia.
Qed.

(* ---------------------------------------------------------------- recorded end-of-file address *)
(* As written: after the first successful allocation some block ends beyond the recorded address. *)
Lemma eof_refuted : exists initial reqs, ~ below_eof (wf_close (wf_allocs (wf_create initial) reqs)).
Proof.
  exists 48, [32]. unfold below_eof, wf_close, wf_allocs, wf_create. cbn. intros H. inversion H; subst. cbn in *. lia.
Qed.

Lemma eof_stale_general : forall initial s reqs, s <> 0 ->
  initial + sum_sizes (s :: reqs) < 18446744073709551616 ->
  ~ below_eof (wf_close (wf_allocs (wf_create initial) (s :: reqs))).
Proof.
  intros initial s reqs Hs Hb Hbelow. unfold below_eof, wf_close, wf_allocs, wf_create in Hbelow. cbn [sb_eof wf_alloc] in Hbelow.
  destruct (alloc_disjoint initial (s :: reqs) Hb) as (_ & _ & Ht & He).
  set (a := allocate_all (new_allocator initial) (s :: reqs)) in *.
  destruct (block_exts a) as [|b r] eqn:Eb.
  - cbn [tiles] in Ht. rewrite He in Ht. cbn [sum_sizes fold_right] in Ht. lia.
  - cbn [tiles] in Ht. inversion Hbelow; subst. lia.
Qed.

Lemma eof_full_refuted : ~ eof_full.
Proof.
  intros H. apply (eof_stale_general 48 32 []); [discriminate|vm_compute; reflexivity|].
  apply H. vm_compute. reflexivity.
Qed.

(* With the repair (Close rewrites the field) every block lies at or below the recorded address. *)
Lemma eof_fixed : forall initial reqs, initial + sum_sizes reqs < 18446744073709551616 ->
  below_eof (wf_close_fixed (wf_allocs (wf_create initial) reqs)).
Proof.
  intros initial reqs Hb. unfold below_eof, wf_close_fixed, wf_allocs, wf_create. cbn [sb_eof wf_alloc].
  destruct (alloc_disjoint initial reqs Hb) as (_ & _ & Ht & _).
  eapply Forall_impl; [|apply tiles_bounds; eassumption]. cbn beta. intros; lia.
Qed.

(* non-vacuity *)
Example extents_ok_ex1 : extents_ok 100 100 [(48,80);(0,48);(80,100)] = true.
Proof. vm_compute. reflexivity. Qed.
Example extents_ok_ex2 : extents_ok 100 100 [(48,81);(0,48);(80,100)] = false.
Proof. vm_compute. reflexivity. Qed.
Example extents_ok_ex3 : extents_ok 100 90 [(48,80);(0,48);(80,100)] = false.
Proof. vm_compute. reflexivity. Qed.
Example extents_ok_ex4 : extents_ok 100 100 [(10,20);(10,20)] = false.
Proof. vm_compute. reflexivity. Qed.
Example alloc_ex : block_exts (allocate_all (new_allocator 48) [288;0;1288;544]) = [(48,336);(336,1624);(1624,2168)].
Proof. vm_compute. reflexivity. Qed.
