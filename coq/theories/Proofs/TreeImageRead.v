(* C03 end to end, reader stages for groups placed ANYWHERE in a file (Model/TreeImage.v appends a group's blocks at the end of
   the file, so their addresses are symbolic):
     local_heap_placed   LoadLocalHeap's program on a placed heap (header + 256-byte segment) returns the segment;
     snod_placed         ParseSymbolTableNode's program on a placed well-formed node of n <= 32 entries (the bytes
                         SymbolTableNode.WriteAt(.., 32) produces, Proofs/GroupWireSnod.v snod_bytes) returns its n entries
                         (link name offset, object address) in order.
   Both hold for every file and address: they are the generalisations of Proofs/FileImageGroup.v heap_stage / snod_stage
   (one fixed address, one entry) that the induction over creation histories needs. *)
From HV Require Import Base.Prelude Base.Outcome Base.Bytes Model.IOProg Proofs.IOProg Model.IOProgReader.
From HV Require Import Model.CodecSuper Model.CodecOhdr Model.GroupWire Model.RobustGroup.
From HV Require Import Proofs.GroupWireHeap Proofs.GroupWireSnod.
From HV Require Import Model.FileImage Proofs.FileImage Proofs.FileImageOhdr Proofs.FileImageData.

Local Open Scope N_scope.

(* ------------------------------------------------------------------ local heap *)
Theorem local_heap_placed f a (seg : list N) :
  placed f a (heap_header (blen seg) 1 (a + 32)) -> placed f (a + 32) seg ->
  0 < blen seg -> a + 32 + blen seg <= MAXI64 ->
  run0 f (p_local_heap SB' a) = Ok seg.
Proof.
  intros Hh Hs Hpos Hb. unfold p_local_heap. cbn [SB' spp_offsize spp_lensize spp_bigendian]. change (8 + 2 * 8 + 8) with 32.
  rewrite (run0_read_exact _ f a (heap_header (blen seg) 1 (a + 32)) 32 _ Hh eq_refl).
  unfold heap_header at 1. cbn [app firstn sigHEAP]. change (bytes_eqb [72; 69; 65; 80] [72; 69; 65; 80]) with true. cbn [negb].
  change ((8 =? 2) || (8 =? 4) || (8 =? 8)) with true. cbv iota. unfold rd_end.
  assert (Hs64 : blen seg < 256 ^ 8) by (unfold MAXI64 in Hb; change (256 ^ 8) with 18446744073709551616; blia).
  assert (Ha64 : a + 32 < 256 ^ 8) by (unfold MAXI64 in Hb; change (256 ^ 8) with 18446744073709551616; blia).
  assert (E : heap_header (blen seg) 1 (a + 32) = [72; 69; 65; 80; 0; 0; 0; 0] ++ le 8 (blen seg) ++ (le 8 1 ++ le 8 (a + 32))) by reflexivity.
  assert (E2 : heap_header (blen seg) 1 (a + 32) = ([72; 69; 65; 80; 0; 0; 0; 0] ++ le 8 (blen seg) ++ le 8 1) ++ le 8 (a + 32) ++ []).
  { rewrite E, app_nil_r, <- !app_assoc. reflexivity. }
  rewrite E at 1. rewrite (rd_le_at [72; 69; 65; 80; 0; 0; 0; 0] 8 8 (blen seg)) by (auto; reflexivity). cbn [obind].
  change (8 + 2 * 8) with 24.
  rewrite E2. rewrite (rd_le_at ([72; 69; 65; 80; 0; 0; 0; 0] ++ le 8 (blen seg) ++ le 8 1) 8 8 (a + 32));
    [| rewrite !blen_app, !blen_le; reflexivity | reflexivity | exact Ha64].
  cbn [obind bind lift fst snd].
  apply run0_read_bytes_at; [exact Hs | reflexivity | exact Hpos | exact Hb].
Qed.

(* ------------------------------------------------------------------ symbol table node *)
Lemma read_addr_end_le8 v (r : list N) : v < 18446744073709551616 -> read_addr_end SB' (le 8 v ++ r) 8 = Ok v.
Proof.
  intros H. unfold read_addr_end. cbn [SB' spp_bigendian]. rewrite blen_app, blen_le.
  replace (N.min 8 (N.of_nat 8 + blen r)) with 8 by blia.
  change (valid_size 8) with true. cbv iota. unfold rd_end.
  apply rd_le_head; [reflexivity | exact H].
Qed.

(* what the reader makes of an entry the writer produced *)
Definition stentry_of (e : sym) : stentry := (sy_name e, sy_obj e, 0, 0, 0).

Lemma snod_entry_step (p r : list N) e k :
  sym_ok e = true -> sy_cache e = 0 ->
  IOProgReader.snod_entries SB' (S k) (p ++ enc_sym 8 e ++ r) (blen p) =
    (rest <- IOProgReader.snod_entries SB' k (p ++ enc_sym 8 e ++ r) (blen p + 40);; Ok (stentry_of e :: rest)).
Proof.
  intros He Hc0. destruct (sym_ok_spec e He) as (H1 & H2 & H3 & H4 & H5 & H6).
  cbn [IOProgReader.snod_entries]. cbn [SB' spp_offsize spp_bigendian]. change (2 * 8 + 24) with 40.
  rewrite !blen_app, blen_enc_sym.
  replace (blen p + (40 + blen r) <? blen p + 40) with false by (symmetry; apply N.ltb_ge; blia).
  unfold enc_sym, write_address. change (N.to_nat 8) with 8%nat. rewrite Hc0.
  set (A := le 8 (sy_name e)). set (B := le 8 (sy_obj e)). set (D := le 4 (sy_res e)).
  assert (LA : blen A = 8) by apply blen_le. assert (LB : blen B = 8) by apply blen_le.
  rewrite slice_from_app by reflexivity. cbn [obind].
  rewrite <- !app_assoc. unfold A at 1. rewrite read_addr_end_le8 by exact H1. cbn [obind].
  replace (p ++ A ++ B ++ le 4 0 ++ D ++ zeros 16 ++ r) with ((p ++ A) ++ B ++ le 4 0 ++ D ++ zeros 16 ++ r) by (now rewrite <- !app_assoc).
  rewrite slice_from_app by (rewrite blen_app; blia). cbn [obind].
  unfold B at 1. rewrite read_addr_end_le8 by exact H2. cbn [obind].
  replace ((p ++ A) ++ B ++ le 4 0 ++ D ++ zeros 16 ++ r) with ((p ++ A ++ B) ++ le 4 0 ++ (D ++ zeros 16 ++ r))
    by (now rewrite <- !app_assoc).
  unfold rd_end.
  rewrite (rd_le_at (p ++ A ++ B) 4 4 0); [|rewrite !blen_app; blia | reflexivity | reflexivity]. cbn [obind].
  change (0 =? 1) with false. cbv iota. cbn [obind].
  destruct (IOProgReader.snod_entries SB' k ((p ++ A ++ B) ++ le 4 0 ++ D ++ zeros 16 ++ r) (blen p + 40)) as [rest| |]; reflexivity.
Qed.

Lemma snod_entries_enc es : forall (p r : list N),
  Forall (fun e => sym_ok e = true /\ sy_cache e = 0) es ->
  IOProgReader.snod_entries SB' (length es) (p ++ flat_map (enc_sym 8) es ++ r) (blen p) = Ok (map stentry_of es).
Proof.
  induction es as [|e es IH]; intros p r H; [reflexivity|].
  apply Forall_cons_iff in H as [[He Hc] Hr]. cbn [length flat_map map]. rewrite <- app_assoc.
  rewrite snod_entry_step by assumption.
  replace (p ++ enc_sym 8 e ++ flat_map (enc_sym 8) es ++ r) with ((p ++ enc_sym 8 e) ++ flat_map (enc_sym 8) es ++ r)
    by (now rewrite <- app_assoc).
  replace (blen p + 40) with (blen (p ++ enc_sym 8 e)) by (rewrite blen_app, blen_enc_sym; reflexivity).
  rewrite IH by exact Hr. reflexivity.
Qed.

Theorem snod_placed f a s :
  placed f a (snod_bytes s 32) -> snode_ok s = true -> (length (stn_entries s) <= 32)%nat ->
  Forall (fun e => sy_cache e = 0) (stn_entries s) ->
  run0 f (p_snod SB' a) = Ok (map stentry_of (stn_entries s)).
Proof.
  intros HP Hok Hm Hc. destruct (snode_ok_spec s Hok) as (Hv & Hn & Hlt & Hes & Hcap).
  unfold snod_bytes in HP. rewrite firstn_all2 in HP by exact Hm.
  set (es := stn_entries s) in *.
  assert (E : sigSNOD ++ [stn_version s; 0] ++ le 2 (stn_num s) ++ flat_map (enc_sym 8) es ++ zeros (40 * (32 - length es))
            = (sigSNOD ++ [stn_version s; 0] ++ le 2 (stn_num s)) ++ flat_map (enc_sym 8) es ++ zeros (40 * (32 - length es)))
    by (now rewrite <- !app_assoc).
  rewrite E in HP.
  assert (HP1 : placed f a (sigSNOD ++ [stn_version s; 0] ++ le 2 (stn_num s))) by (apply (placed_head _ _ _ _ HP)).
  assert (L8 : blen (sigSNOD ++ [stn_version s; 0] ++ le 2 (stn_num s)) = 8) by (rewrite !blen_app, blen_le; reflexivity).
  unfold p_snod. cbn [SB' spp_offsize spp_bigendian].
  rewrite (run0_read_exact _ f a _ 8 _ HP1 (eq_sym L8)).
  cbn [sigSNOD app firstn]. change (bytes_eqb [83; 78; 79; 68] [83; 78; 79; 68]) with true. cbn [negb].
  cbn [index nth_error N.to_nat Pos.to_nat Pos.iter_op Nat.add]. cbn [obind].
  unfold rd_end.
  rewrite (rd_le_at [83; 78; 79; 68; stn_version s; 0] 2 2 (stn_num s) []);
    [| reflexivity | reflexivity | change (256 ^ 2) with 65536; exact Hlt].
  rewrite Hv. change (index (83 :: 78 :: 79 :: 68 :: 1 :: 0 :: le 2 (stn_num s)) 4) with (@Ok N 1).
  cbn [obind bind lift fst snd]. change (1 =? 1) with true. cbn [negb].
  destruct (stn_num s =? 0) eqn:E0.
  - apply N.eqb_eq in E0. rewrite E0 in Hn. unfold llen in Hn. destruct es; [reflexivity | cbn in Hn; blia].
  - change (2 * 8 + 24) with 40.
    assert (HP2 : placed f (a + 8) (flat_map (enc_sym 8) es)).
    { replace (a + 8) with (a + blen (sigSNOD ++ [stn_version s; 0] ++ le 2 (stn_num s))) by (rewrite L8; reflexivity).
      apply (placed_sub f a _ _ _ HP). }
    assert (LF : blen (flat_map (enc_sym 8) es) = stn_num s * 40).
    { unfold blen. rewrite length_flat_enc. rewrite Hn. unfold llen. blia. }
    rewrite (run0_read_exact _ f (a + 8) _ (stn_num s * 40) _ HP2 (eq_sym LF)).
    cbn [lift]. rewrite Hn. unfold llen. rewrite Nat2N.id.
    pose proof (snod_entries_enc es [] []) as Q. cbn [app blen length N.of_nat] in Q. rewrite app_nil_r in Q.
    change (blen []) with 0 in Q.
    rewrite Q; [reflexivity|].
    apply Forall_forall. intros e He. split; [exact (proj1 (Forall_forall _ _) Hes e He) | exact (proj1 (Forall_forall _ _) Hc e He)].
Qed.
