(* C02 at byte level: every value kind of WriteAttribute modelled by Model/FileImageAttr.v attr_of_kind gives a well-formed
   attribute message (the hypothesis wf_attribute of the roundtrip theorem). *)
From HV Require Import Base.Prelude Base.Outcome Base.Bytes.
From HV Require Import Model.CodecMsg Model.CodecType Model.CodecAttr Model.FileImage Model.FileImageAttr.
From HV Require Import Proofs.FileImage Proofs.FileImageOhdr Proofs.FileImageData.

Lemma wf_datatype_encok x : wf_datatype x = true -> encok_datatype x = true.
Proof. unfold wf_datatype. intros H. do 6 (apply andb_true_iff in H as [H _]). exact H. Qed.
Lemma wf_dataspace_encok x : wf_dataspace x = true -> encok_dataspace x = true.
Proof. unfold wf_dataspace. intros H. do 3 (apply andb_true_iff in H as [H _]). exact H. Qed.

Lemma attr_name_ne aname : attr_name_ok aname = true -> negb (length aname =? 0)%nat = true.
Proof. unfold attr_name_ok. intros H. now apply andb_true_iff in H as [H _]. Qed.

(* any datatype / dataspace the codec theorems cover *)
Lemma wf_attr_gen aname adt adims adata :
  attr_name_ok aname = true -> blen aname < 65535 -> wf_datatype adt = true -> size_datatype adt < 65536 ->
  wf_dataspace {| ds_dims := adims; ds_maxdims := [] |} = true -> blen adata <= MaxAttributeSize ->
  wf_attribute (attr_msg aname adt adims adata) = true.
Proof.
  intros Hn Hl Hdt Hsz Hds Hd.
  unfold wf_attribute, encok_attribute, attr_msg. cbn [at_name at_dt at_ds at_data].
  rewrite (attr_name_ne _ Hn), (wf_datatype_encok _ Hdt), (wf_dataspace_encok _ Hds), Hdt, Hds.
  replace (blen aname <? 65535) with true by (symmetry; apply N.ltb_lt; blia).
  replace (blen aname <=? 65534) with true by (symmetry; apply N.leb_le; blia).
  replace (size_datatype adt <? 65536) with true by (symmetry; apply N.ltb_lt; blia).
  replace (blen adata <=? MaxAttributeSize) with true by (symmetry; apply N.leb_le; blia).
  reflexivity.
Qed.

Lemma size_basic c s b : basic_dtype c s b = true -> size_datatype (dtype_msg c s b) < 65536.
Proof. intros H. destruct (dtype_cases c s b H) as [(-> & _)|(-> & _)]; reflexivity. Qed.

Lemma wf_attr_basic aname c s b adims adata :
  attr_name_ok aname = true -> blen aname < 65535 -> basic_dtype c s b = true ->
  wf_dataspace {| ds_dims := adims; ds_maxdims := [] |} = true -> blen adata <= MaxAttributeSize ->
  wf_attribute (attr_msg aname (dtype_msg c s b) adims adata) = true.
Proof. intros Hn Hl Hb Hds Hd. apply wf_attr_gen; auto. - now apply wf_dt. - now apply size_basic. Qed.

Lemma wf_string_dt n : 0 < n -> n < 4294967296 -> wf_datatype (string_dt n) = true.
Proof.
  intros H0 H1. unfold wf_datatype, encok_datatype, string_dt. cbn [dt_size dt_class dt_cbf dt_props dt_version].
  replace (n =? 0) with false by (symmetry; apply N.eqb_neq; blia).
  replace (n <? 4294967296) with true by (symmetry; apply N.ltb_lt; blia).
  reflexivity.
Qed.

Lemma dims1_wf d : d < 18446744073709551616 -> wf_dataspace {| ds_dims := [d]; ds_maxdims := [] |} = true.
Proof.
  intros H. unfold wf_dataspace, encok_dataspace, u64_ok. cbn [ds_dims ds_maxdims length forallb Nat.eqb Nat.leb negb andb orb].
  replace (d <? 18446744073709551616) with true by (symmetry; apply N.ltb_lt; exact H). reflexivity.
Qed.

Lemma dtype_of_code_basic k : forall c s b, dtype_of_code k = (c, s, b) -> basic_dtype c s b = true.
Proof.
  destruct k as [|p]; [intros c s b E; injection E as <- <- <-; reflexivity|].
  do 4 (destruct p as [p|p|]; try (intros c s b E; injection E as <- <- <-; reflexivity)).
Qed.

Lemma attr_kinds_wf : forall aname k raw,
  attr_name_ok aname = true -> blen aname < 65535 -> attr_kind_raw_ok k raw = true -> blen raw < MaxAttributeSize ->
  let '(adt, adims, adata) := attr_of_kind k raw in wf_attribute (attr_msg aname adt adims adata) = true.
Proof.
  intros aname k raw Hn Hl Hk Hr. unfold MaxAttributeSize in Hr.
  unfold attr_of_kind, attr_kind_raw_ok in *. apply andb_true_iff in Hk as [_ Hk].
  destruct (k <? 10).
  - destruct (dtype_of_code k) as [[c s] b] eqn:E. pose proof (dtype_of_code_basic k c s b E) as Hb.
    apply wf_attr_basic; [exact Hn | exact Hl | exact Hb | apply dims1_wf; blia | unfold MaxAttributeSize; blia].
  - destruct (k <? 14).
    + destruct (dtype_of_code (slice_elem_code k)) as [[c s] b] eqn:E.
      pose proof (dtype_of_code_basic _ c s b E) as Hb. pose proof (size_pos c s b Hb) as [Hs _].
      apply wf_attr_basic; [exact Hn | exact Hl | exact Hb | | unfold MaxAttributeSize; blia].
      apply dims1_wf. apply N.div_lt_upper_bound; [blia | nia].
    + apply wf_attr_gen; [exact Hn | exact Hl | | | | ].
      * apply wf_string_dt; blia.
      * reflexivity.
      * apply dims1_wf; blia.
      * rewrite blen_app. change (blen [0]) with 1. unfold MaxAttributeSize. blia.
Qed.
