(* C03 end to end, depth 1: CreateGroup / CreateDataset under the root preserve FlatInv (Proofs/TreeImageFlat.v) and append
   exactly the expected child when they succeed; any call that leaves the state as it is preserves it trivially. *)
From HV Require Import Base.Prelude Base.Outcome Base.Bytes Model.RobustAlloc Model.RobustGroup Model.GroupWire.
From HV Require Import Model.CodecSuper Model.CodecOhdr Model.CodecMsg Model.CodecType Model.CodecLink Model.IOProgOpen.
From HV Require Import Proofs.CodecOhdr Proofs.CodecLink Proofs.GroupWireHeap Proofs.GroupWireSnod.
From HV Require Import Model.FileImage Model.TreeImage Proofs.FileImage Proofs.FileImageOhdr Proofs.FileImageData.
From HV Require Import Proofs.TreeImageLink Proofs.TreeImageHdr Proofs.TreeImageOpen Proofs.TreeImagePlaced Proofs.TreeImageFlat.
From HV Require Model.GroupNS Proofs.GroupNSBase Proofs.GroupNSHeap.

Local Open Scope N_scope.

Lemma loop_bts_app es cs e nc : length es = length cs ->
  loop_bts (es ++ [e]) (cs ++ [nc]) = loop_bts es cs ++ child_bt (sy_obj e) (snd nc).
Proof.
  revert cs. induction es as [|x r IH]; intros [|y cs'] H; try discriminate.
  - cbn [app loop_bts]. now rewrite app_nil_r.
  - cbn [app loop_bts]. rewrite IH by (cbn in H; lia). now rewrite app_assoc.
Qed.
Lemma loop_nodes_app es cs e nc : length es = length cs ->
  loop_nodes (es ++ [e]) (cs ++ [nc]) = loop_nodes es cs ++ [child_node (fst nc) (sy_obj e) (snd nc)].
Proof.
  revert cs. induction es as [|x r IH]; intros [|y cs'] H; try discriminate.
  - reflexivity.
  - cbn [app loop_nodes]. now rewrite IH by (cbn in H; lia).
Qed.

(* the datatype table: every code names a basic registry type *)
Lemma dtype_code_basic code : code < 10 -> let '(c, s, b) := dtype_of_code code in basic_dtype c s b = true.
Proof.
  intros H.
  assert (C : code = 0 \/ code = 1 \/ code = 2 \/ code = 3 \/ code = 4 \/ code = 5 \/ code = 6 \/ code = 7 \/ code = 8 \/ code = 9) by lia.
  repeat (destruct C as [->|C]; [reflexivity|]). subst. reflexivity.
Qed.

Lemma dset_hdr_at_ok class size cbf dims da : basic_dtype class size cbf = true -> dims_ok dims = true ->
  dset_hdr_ok (dset_ohdr_at class size cbf dims da).
Proof.
  intros Hdt Hdims.
  assert (Lt := dt_msg_len class size cbf Hdt). assert (Ls := ds_msg_len dims).
  assert (Ll : blen (enc_layout SBP (LContig (data_size size dims) da)) = 18).
  { unfold enc_layout, write_uint. cbn [SBP sb_offsize sb_lensize sb_bigendian]. cbn [N.eqb Pos.eqb orb].
    rewrite !blen_app, !blen_le. reflexivity. }
  destruct (rank_bounds dims Hdims) as [R1 R2].
  assert (Hc : chunk_size_v2 (oh_msgs (dset_ohdr_at class size cbf dims da)) <= 250).
  { unfold dset_ohdr_at. cbn [oh_msgs chunk_size_v2 fold_right hm_data]. rewrite Lt, Ls, Ll. unfold blen.
    destruct (class =? DT_FIXED); blia. }
  unfold dset_hdr_ok. split; [|split; [blia|]; split; [reflexivity|]; split; [reflexivity | cbn; lia]].
  unfold ohdr_ok. split; [reflexivity|]. split; [reflexivity|]. split; [blia|]. split; [discriminate|].
  unfold dset_ohdr_at. cbn [oh_msgs]. repeat constructor; cbn [hm_type hm_data]; unfold MSG_CONT; try blia; try discriminate. all: try (rewrite Lt; destruct (class =? DT_FIXED); blia); try (rewrite Ls; blia).
Qed.

Lemma Forall2_imp {A B} (P Q : A -> B -> Prop) l l' : (forall a b, P a b -> Q a b) -> Forall2 P l l' -> Forall2 Q l l'.
Proof. intros H. induction 1; constructor; auto. Qed.

Lemma Forall2_len {A B} (P : A -> B -> Prop) l l' : Forall2 P l l' -> length l = length l'.
Proof. induction 1; cbn [length]; congruence. Qed.

Lemma flat_orphan st nodes seg s rest cs ns it :
  t_file st = image (flat_lay seg s rest) ->
  blen seg = 256 -> snode_ok s = true -> (length (stn_entries s) <= 32)%nat -> Forall item_ok rest ->
  GH.gwf seg (map abs_sym (stn_entries s)) ns -> map fst cs = ns ->
  Forall2 (fun e nc => sy_cache e = 0 /\ EntryItem rest (sy_obj e) (snd nc)) (stn_entries s) cs ->
  NoDup (1624 :: loop_bts (stn_entries s) cs) ->
  Forall (fun b => b < 2195 + lsize rest) (1624 :: loop_bts (stn_entries s) cs) ->
  nodes = loop_nodes (stn_entries s) cs -> item_ok it ->
  FlatInv (with_file st (image (flat_lay seg s (rest ++ [it])))) nodes.
Proof.
  intros Hf Hs Hok Hm Hr Hg Hns HF Hnd Hlt Hn Hit.
  exists seg, s, (rest ++ [it]), cs, ns. split; [reflexivity|]. repeat (split; [assumption|]).
  split; [apply Forall_app; split; [assumption | now constructor]|]. repeat (split; [assumption|]).
  split.
  { eapply Forall2_imp; [|exact HF]. intros e nc [H1 H2]. split; [exact H1 | now apply EntryItem_app]. }
  split; [assumption|]. split; [|assumption].
  eapply Forall_impl; [|exact Hlt]. intros b Hb. rewrite lsize_app. blia.
Qed.

Lemma NoDup_snoc_lt (L : list N) B b : NoDup L -> Forall (fun x => x < B) L -> B <= b -> NoDup (L ++ [b]).
Proof.
  intros Hn Hf Hb. apply GH.NoDup_snoc; [exact Hn|]. intros Hin.
  pose proof (proj1 (Forall_forall _ _) Hf b Hin). blia.
Qed.

Lemma flat_linked st nodes seg s rest cs ns it oa c parent nm f2 groups' :
  blen seg = 256 -> snode_ok s = true -> (length (stn_entries s) <= 32)%nat -> Forall item_ok rest ->
  GH.gwf seg (map abs_sym (stn_entries s)) ns -> map fst cs = ns ->
  Forall2 (fun e nc => sy_cache e = 0 /\ EntryItem rest (sy_obj e) (snd nc)) (stn_entries s) cs ->
  NoDup (1624 :: loop_bts (stn_entries s) cs) ->
  Forall (fun b => b < 2195 + lsize rest) (1624 :: loop_bts (stn_entries s) cs) ->
  nodes = loop_nodes (stn_entries s) cs -> item_ok it ->
  ItemChild (2195 + lsize rest) it oa c -> oa < 18446744073709551616 ->
  Forall (fun b => 2195 + lsize rest <= b /\ b < 2195 + lsize (rest ++ [it])) (child_bt oa c) ->
  NS.is_root_parent parent = true ->
  link_to_parent (with_file st (image (flat_lay seg s (rest ++ [it])))) parent nm oa = Ok f2 ->
  FlatInv {| t_file := f2; t_groups := groups' |} (nodes ++ [child_node nm oa c]).
Proof.
  intros Hs Hok Hm Hr Hg Hns HF Hnd Hlt Hn Hit HIC Hoa Hbt Hroot HL.
  destruct (link_root (with_file st (image (flat_lay seg s (rest ++ [it])))) seg s (rest ++ [it]) ns parent nm oa f2
              eq_refl Hs Hok Hm Hg Hoa Hroot HL) as (seg' & s1 & off & -> & Hs' & Hok' & He' & Hm' & Hg').
  assert (Hlen : length (stn_entries s) = length cs) by (eapply Forall2_len; exact HF).
  exists seg', s1, (rest ++ [it]), (cs ++ [(nm, c)]), (ns ++ [nm]).
  split; [reflexivity|]. split; [exact Hs'|]. split; [exact Hok'|]. split; [exact Hm'|].
  split; [apply Forall_app; split; [assumption | now constructor]|]. split; [exact Hg'|].
  split; [rewrite map_app, Hns; reflexivity|].
  rewrite He'. split.
  { apply Forall2_app.
    - eapply Forall2_imp; [|exact HF]. intros e nc [H1 H2]. split; [exact H1 | now apply EntryItem_app].
    - constructor; [|constructor]. split; [reflexivity|]. cbn [new_sym sy_obj snd]. exists rest, it, []. split; [reflexivity | exact HIC]. }
  rewrite (loop_bts_app _ _ _ (nm, c) Hlen), (loop_nodes_app _ _ _ (nm, c) Hlen). cbn [fst snd new_sym sy_obj].
  split; [|split].
  - change (NoDup ((1624 :: loop_bts (stn_entries s) cs) ++ child_bt oa c)).
    destruct (child_bt oa c) as [|b [|b' r']] eqn:EB.
    + now rewrite app_nil_r.
    + inversion Hbt as [|? ? [Hb1 Hb2] _]; subst. eapply NoDup_snoc_lt; eauto.
    + destruct c; cbn [child_bt] in EB; discriminate.
  - change (Forall (fun b => b < 2195 + lsize (rest ++ [it])) ((1624 :: loop_bts (stn_entries s) cs) ++ child_bt oa c)).
    apply Forall_app. split.
    + eapply Forall_impl; [|exact Hlt]. intros b Hb. rewrite lsize_app. blia.
    + eapply Forall_impl; [|exact Hbt]. intros b [_ Hb]. exact Hb.
  - now rewrite Hn.
Qed.

(* ------------------------------------------------------------------ CreateGroup under the root *)
Theorem flat_group_step st nodes p : FlatInv st nodes ->
  NS.is_root_parent (fst (NS.parse_path (NS.trim_suffix_slash p))) = true -> blen (t_file st) + 3000 < LIM ->
  FlatInv (fst (t_create_group st p))
    (if snd (t_create_group st p)
     then nodes ++ [Grp (snd (NS.parse_path (NS.trim_suffix_slash p))) (blen (t_file st) + 2120) []] else nodes).
Proof.
  intros HI Hroot Hb. pose proof HI as (seg & s & rest & cs & ns & Hf & Hs & Hok & Hm & Hr & Hg & Hns & HF & Hnd & Hlt & Hn).
  assert (Hokl : Forall item_ok (flat_lay seg s rest)) by (constructor; [cbn [root_item item_ok]; auto | exact Hr]).
  assert (Hlen : blen (t_file st) = 2195 + lsize rest) by (rewrite Hf, blen_image by exact Hokl; apply lsize_flat).
  rewrite Hlen in *. unfold t_create_group.
  destruct (negb (NS.validate_group_path p)); [exact HI|].
  destruct (NS.parse_path (NS.trim_suffix_slash p)) as [parent nm]. cbn [fst snd] in *.
  destruct (negb (parent_registered st parent)); [exact HI|].
  destruct (prepare_link st parent nm 0); [|exact HI|exact HI].
  rewrite Hf. pose proof (alloc_group_image (flat_lay seg s rest) Hokl) as EA. rewrite lsize_flat in EA.
  specialize (EA ltac:(blia)). cbv zeta in EA. rewrite EA. clear EA.
  set (ha := 2195 + lsize rest) in *. change (flat_lay seg s rest ++ [new_group_item ha]) with (flat_lay seg s (rest ++ [new_group_item ha])).
  destruct (link_to_parent (with_file st (image (flat_lay seg s (rest ++ [new_group_item ha])))) parent nm (ha + 2120)) as [f2| |] eqn:EL; cbn [fst snd].
  - apply (flat_linked st nodes seg s rest cs ns (new_group_item ha) (ha + 2120) (CGroup (zeros 256) (new_snode 32)) parent nm f2);
      auto using new_group_item_ok.
    + constructor.
    + unfold LIM in Hb. blia.
    + cbn [child_bt]. constructor; [|constructor]. rewrite lsize_app. cbn [lsize]. rewrite new_group_item_size. blia.
  - apply (flat_orphan st nodes seg s rest cs ns); auto using new_group_item_ok.
  - apply (flat_orphan st nodes seg s rest cs ns); auto using new_group_item_ok.
Qed.

(* ------------------------------------------------------------------ CreateDataset under the root *)
Theorem flat_dataset_step st nodes p code dims data : FlatInv st nodes ->
  NS.is_root_parent (fst (NS.parse_path p)) = true -> op_args_ok (TDataset p code dims data) = true ->
  blen (t_file st) + blen data + 3000 < LIM ->
  FlatInv (fst (t_create_dataset st p code dims data))
    (if snd (t_create_dataset st p code dims data)
     then nodes ++ [Dset (snd (NS.parse_path p)) (blen (t_file st) + blen data)] else nodes).
Proof.
  intros HI Hroot Hargs Hb. pose proof HI as (seg & s & rest & cs & ns & Hf & Hs & Hok & Hm & Hr & Hg & Hns & HF & Hnd & Hlt & Hn).
  assert (Hokl : Forall item_ok (flat_lay seg s rest)) by (constructor; [cbn [root_item item_ok]; auto | exact Hr]).
  assert (Hlen : blen (t_file st) = 2195 + lsize rest) by (rewrite Hf, blen_image by exact Hokl; apply lsize_flat).
  rewrite Hlen in *. unfold t_create_dataset.
  destruct (negb (NS.validate_dataset_name p)); [exact HI|].
  destruct (NS.parse_path p) as [parent nm]. cbn [fst snd] in *.
  destruct (prepare_link st parent nm 0); [|exact HI|exact HI].
  rewrite Hf. pose proof (alloc_dataset_image (flat_lay seg s rest) code dims data Hokl) as EA. rewrite lsize_flat in EA.
  cbv zeta in EA. rewrite EA. clear EA.
  set (da := 2195 + lsize rest) in *.
  cbn [op_args_ok] in Hargs. apply andb_true_iff in Hargs as [Hcode Hargs]. apply N.ltb_lt in Hcode.
  pose proof (dtype_code_basic code Hcode) as Hbasic.
  unfold new_dset_item, ds_args_ok in *. destruct (dtype_of_code code) as [[class size] cbf].
  apply andb_true_iff in Hargs as [Hargs _]. apply andb_true_iff in Hargs as [Hargs _]. apply andb_true_iff in Hargs as [Hdims _].
  pose proof (dset_hdr_at_ok class size cbf dims da Hbasic Hdims) as Hx.
  set (x := dset_ohdr_at class size cbf dims da) in *. set (it := IDset data (ohdr_block x)).
  change (flat_lay seg s rest ++ [it]) with (flat_lay seg s (rest ++ [it])).
  destruct (link_to_parent (with_file st (image (flat_lay seg s (rest ++ [it])))) parent nm (da + blen data)) as [f2| |] eqn:EL; cbn [fst snd].
  - unfold with_file at 1. cbn [t_groups].
    apply (flat_linked st nodes seg s rest cs ns it (da + blen data) (CDset x) parent nm f2); auto.
    + exact I.
    + constructor. exact Hx.
    + unfold LIM in Hb. blia.
    + cbn [child_bt]. constructor.
  - apply (flat_orphan st nodes seg s rest cs ns); auto. exact I.
  - apply (flat_orphan st nodes seg s rest cs ns); auto. exact I.
Qed.
