(* C06, reader against specification: the datatype message header for ALL eleven classes (fixed, float, time, string,
   bit field, opaque, compound, reference, enumeration, variable length, array; nested descriptions included).
   For every byte string (bytes < 256) the strict specification decoder accepts, ParseDatatypeMessage returns an error or a
   value whose class, version, size and 24-bit class bit field are the ones the specification reads; never a panic.
   (The class-specific meaning of the bit field for classes 0 / 1 / 3 is in ReaderSpecType.v; member lists, base types and
   array dimensions are handed back by the reader as raw property bytes.) *)
From HV Require Import Base.Prelude Base.Outcome Base.Bytes Spec.Parse Spec.FormatMsg Model.CodecMsg Model.CodecType
  Proofs.RobustNoPanicBase Proofs.RobustNoPanicOhdr Proofs.RobustNoPanicType Proofs.ReaderSpecBase Proofs.ReaderSpecType.

Definition dt_header_agree (t : dtype) (v : datatype) : Prop :=
  dt_class v = dtype_class t /\ dt_size v = dtype_size t /\ dt_version v = dtype_ver t.

(* the header fields of whatever the reader returns *)
Lemma dec_dt_fields (fuel : nat) (bs : list N) cv b size v :
  bytes_ok bs = true ->
  index bs 0 = Ok cv -> rd_le bs 1 3 = Ok b -> rd_le bs 4 4 = Ok size ->
  dec_dt fuel bs = Ok v ->
  dt_class v = N.land cv 15 /\ dt_version v = N.shiftr cv 4 /\ dt_size v = size /\ dt_cbf v = b.
Proof.
  intros Hb I0 R1 R4.
  pose proof (index_byte _ _ _ Hb I0) as Hcv.
  pose proof (rd_le_lt _ _ _ _ Hb R1) as Hbits. change (256 ^ 3) with 16777216 in Hbits.
  pose proof (rd_le_cons bs 0 3 cv b I0 R1) as R0. change (3 + 1) with 4 in R0.
  destruct fuel as [|fuel]; [discriminate|]. cbn [dec_dt].
  destruct (blen bs <? 8); [discriminate|].
  rewrite R0. cbn [obind]. rewrite R4. cbn [obind].
  match goal with |- obind ?o _ = _ -> _ => destruct o as [pl| |] end; cbn [obind]; try discriminate.
  match goal with |- obind ?o _ = _ -> _ => destruct o as [pp| |] end; cbn [obind]; try discriminate.
  intros H. injection H as <-. cbn [dt_class dt_version dt_size dt_cbf].
  rewrite head_class, head_version, head_cbf by assumption. repeat split.
Qed.

(* walk through a successful strict decoder run, remembering every decision *)
Ltac walke H :=
  repeat first
    [ discriminate H
    | progress cbn [obind dev strict] in H
    | match type of H with
      | obind ?o _ = _ => destruct o eqn:?
      | context [match ?x with _ => _ end] => destruct x eqn:?
      end ].

(* the header fields of whatever the specification decoder returns *)
Lemma p_dtype_fields (pad_ok : bool) (fuel : nat) (bs : bytes) t tg r :
  p_dtype strict pad_ok (S fuel) bs = Ok (t, tg, r) ->
  exists cv bits size,
    index bs 0 = Ok cv /\ rd_le bs 1 3 = Ok bits /\ rd_le bs 4 4 = Ok size /\
    dtype_class t = N.land cv 15 /\ dtype_ver t = N.shiftr cv 4 /\ dtype_size t = size.
Proof.
  intros H. cbn [p_dtype] in H. change (p_byte bs) with (p_byte (at_pos bs 0)) in H.
  assert (P0 : 0 <= blen bs) by blia.
  s_byte H cv B1 I0. change (0 + 1) with 1 in *.
  s_u H bits B2 R1. change (N.of_nat 3) with 3 in *. change (1 + 3) with 4 in *.
  s_u H size B3 R4. change (N.of_nat 4) with 4 in *.
  s_guard H GV. s_guard H GS.
  exists cv, bits, size. split; [exact I0|]. split; [exact R1|]. split; [exact R4|].
  clear I0 R1 R4 B1 B2 B3 P0.
  walke H; injection H as <- <- <-; cbn [dtype_class dtype_ver dtype_size]; repeat split; blia.
Qed.

Lemma datatype_header_reader_spec (pad_ok : bool) (bs : bytes) (t : dtype) (tg : list tag) :
  bytes_ok bs = true ->
  spec_dec_datatype strict pad_ok bs = Ok (t, tg) ->
  err_or (dt_header_agree t) (dec_datatype bs).
Proof.
  intros Hb H. unfold spec_dec_datatype in H.
  destruct (p_dtype strict pad_ok (S (length bs)) bs) as [[[t' tg'] r]| |] eqn:E; cbn [obind] in H; try discriminate.
  assert (t' = t) by (destruct (p_end pad_ok r); cbn [obind] in H; try discriminate; now injection H).
  subst t'. clear H.
  destruct (p_dtype_fields _ _ _ _ _ _ E) as (cv & bits & size & I0 & R1 & R4 & C & V & SZ).
  destruct (dec_datatype bs) as [v| |] eqn:D; cbn [err_or]; [|exact I|].
  - unfold dec_datatype in D.
    destruct (dec_dt_fields _ _ _ _ _ _ Hb I0 R1 R4 D) as (F1 & F2 & F3 & F4).
    unfold dt_header_agree. rewrite F1, F2, F3, C, V, SZ. repeat split.
  - revert D. apply dec_datatype_no_panic.
Qed.
