(* C03: what linkToParent does to a well-formed group, the invariant of reachable writer states, and the
   theorems that need no specification: names stay distinct, a failing call leaves every namespace
   structure as it was, duplicate / missing-parent / capacity requests fail. *)
From HV Require Import Base.Prelude Model.GroupNS Proofs.GroupNSBase Proofs.GroupNSHeap Proofs.GroupNSPath.

(* ---------------------------------------------------------------- linkToParent, case by case *)
Lemma ltp_err_unchanged : forall c w parent nm child w' e,
  link_to_parent c w parent nm child = (w', Err e) -> w' = w.
Proof.
  intros c w parent nm child w' e. unfold link_to_parent.
  destruct (strict_names c && negb (heap_name_ok nm)); [intro H; inversion H; reflexivity|].
  destruct (parent_group w parent); [|intro H; inversion H; reflexivity].
  destruct (alookup n (heaps w)); [|intro H; inversion H; reflexivity].
  destruct (alookup n (snods w)); [|intro H; inversion H; reflexivity].
  destruct (existsb _ _); [intro H; inversion H; reflexivity|].
  destruct (add_string _ _) as [[off h1]|]; [|intro H; inversion H; reflexivity].
  destruct (add_entry _ _); intro H; inversion H; reflexivity.
Qed.

Definition linked (w : wstate) (g : N) (seg' : bytes) (ents' : list entry) : wstate :=
  set_snods (set_heaps w (aset g seg' (heaps w))) (aset g ents' (snods w)).

Lemma ltp_spec : forall c w parent nm child g seg ents ns,
  parent_group w parent = Some g -> alookup g (heaps w) = Some seg -> alookup g (snods w) = Some ents ->
  gwf seg ents ns -> hname_ok nm ->
  (In nm ns /\ link_to_parent c w parent nm child = (w, Err EDup)) \/
  (~ In nm ns /\ blen seg < blen (enc ns) + blen nm + 1 /\ link_to_parent c w parent nm child = (w, Err EHeapFull)) \/
  (~ In nm ns /\ blen (enc ns) + blen nm + 1 <= blen seg /\ snod_cap c <= blen ents /\
     link_to_parent c w parent nm child = (w, Err ESnodFull)) \/
  (~ In nm ns /\ blen (enc ns) + blen nm + 1 <= blen seg /\ blen ents < snod_cap c /\
     exists seg', let ents' := ents ++ [{| e_off := blen (enc ns); e_obj := child |}] in
       link_to_parent c w parent nm child = (linked w g seg' ents', Ok) /\
       gwf seg' ents' (ns ++ [nm]) /\ blen seg' = blen seg).
Proof.
  intros c w parent nm child g seg ents ns Hp Hh Hs Hwf Hnm.
  unfold link_to_parent. rewrite (proj2 (heap_name_ok_iff nm) Hnm), andb_false_r.
  rewrite Hp, Hh, Hs. cbn [parse_snod sn_entries].
  destruct (existsb (entry_has_name seg nm) ents) eqn:D.
  - left. split; [apply (dup_check_iff _ _ _ nm Hwf); assumption | reflexivity].
  - right. assert (Hnin : ~ In nm ns) by (intro I; apply (dup_check_iff _ _ _ nm Hwf) in I; congruence).
    destruct (heap_link seg ents ns nm Hwf Hnm Hnin) as [HA HB].
    destruct (add_string (prepare_for_modification seg) nm) as [[off h1]|] eqn:A.
    + right. destruct (HB off h1 eq_refl) as (Hoff & Hlen & Hg). subst off.
      assert (Hfit : blen (enc ns) + blen nm + 1 <= blen seg).
      { destruct (N.lt_ge_cases (blen seg) (blen (enc ns) + blen nm + 1)) as [X|X]; [|assumption].
        apply HA in X. congruence. }
      unfold add_entry, parse_snod. cbn [sn_cap sn_entries].
      destruct (N.max (snod_cap c) (blen ents) <=? blen ents) eqn:E.
      * left. apply N.leb_le in E. split; [assumption|]. split; [assumption|]. split; [nlia | reflexivity].
      * right. apply N.leb_gt in E. assert (Hlt : blen ents < snod_cap c) by nlia.
        split; [assumption|]. split; [assumption|]. split; [assumption|].
        exists (snd (write_to h1)). cbv zeta. split; [|split; [apply Hg | assumption]].
        unfold linked. cbn [snods set_heaps]. f_equal. f_equal. f_equal.
        unfold snod_write_at. cbn [sn_entries]. apply firstn_all2.
        rewrite app_length. cbn [length]. unfold blen in Hlt. lia.
    + left. split; [assumption|]. split; [apply HA; reflexivity | reflexivity].
Qed.

(* ---------------------------------------------------------------- invariant of reachable states *)
Record InvB (c : cfg) (n : N) (w : wstate) : Prop := {
  i_wf : forall g seg ents, alookup g (heaps w) = Some seg -> alookup g (snods w) = Some ents ->
         exists ns, gwf seg ents ns /\ blen seg = new_heap_size (heap_cap c);
  i_reg : forall p g, plookup p (groups w) = Some g ->
          (exists seg, alookup g (heaps w) = Some seg) /\ (exists ents, alookup g (snods w) = Some ents);
  i_root : (exists seg, alookup 0 (heaps w) = Some seg) /\ (exists ents, alookup 0 (snods w) = Some ents);
  i_fresh_h : forall g, n <= g -> alookup g (heaps w) = None;
  i_fresh_s : forall g, n <= g -> alookup g (snods w) = None;
  i_fresh_o : forall g, n <= g -> alookup g (objects w) = None;
  i_pos : 0 < n
}.
Definition Inv1 (c : cfg) (w : wstate) : Prop := InvB c (clock w) w.

Lemma invb_mono : forall c n m w, n <= m -> InvB c n w -> InvB c m w.
Proof.
  intros c n m w L [A B C D E F G]. constructor; try assumption.
  - intros g Hg. apply D. lia.
  - intros g Hg. apply E. lia.
  - intros g Hg. apply F. lia.
  - lia.
Qed.

Lemma invb_tick : forall c n w, InvB c n w -> InvB c n (tick w).
Proof. intros c n w [A B C D E F G]. constructor; assumption. Qed.

Lemma init_heaps : forall c, heaps (init c) = [(0, zeros (new_heap_size (heap_cap c)))].
Proof. intro c. unfold init. cbn [heaps]. rewrite new_heap_segment. reflexivity. Qed.
Lemma init_snods : forall c, snods (init c) = [(0, [])].
Proof. intro c. unfold init. cbn [snods]. unfold snod_write_at, new_snod. cbn [sn_entries]. rewrite firstn_nil. reflexivity. Qed.

Lemma invb_init : forall c, Inv1 c (init c).
Proof.
  intro c. unfold Inv1. replace (clock (init c)) with 1 by reflexivity.
  constructor; rewrite ?init_heaps, ?init_snods.
  - intros g seg ents Hh Hs. cbn [alookup] in Hh, Hs. destruct (0 =? g); [|discriminate].
    injection Hh as <-. injection Hs as <-. exists []. split; [apply gwf_empty | apply blen_zeros].
  - intros p g H. discriminate.
  - split; eexists; cbn [alookup]; rewrite N.eqb_refl; reflexivity.
  - intros g Hg. cbn [alookup]. destruct (0 =? g) eqn:E; [apply N.eqb_eq in E; lia | reflexivity].
  - intros g Hg. cbn [alookup]. destruct (0 =? g) eqn:E; [apply N.eqb_eq in E; lia | reflexivity].
  - intros g Hg. unfold init. cbn [objects alookup]. destruct (0 =? g) eqn:E; [apply N.eqb_eq in E; lia | reflexivity].
  - lia.
Qed.

Lemma parent_group_structs : forall c n w parent g, InvB c n w -> parent_group w parent = Some g ->
  (exists seg, alookup g (heaps w) = Some seg) /\ (exists ents, alookup g (snods w) = Some ents).
Proof.
  intros c n w parent g I H. unfold parent_group in H. destruct (is_root_parent parent).
  - inversion H; subst. apply (i_root _ _ _ I).
  - apply (i_reg _ _ _ I parent). assumption.
Qed.

Lemma invb_linked : forall c n w g seg ents ns seg' ents',
  InvB c n w -> alookup g (heaps w) = Some seg -> alookup g (snods w) = Some ents ->
  gwf seg' ents' ns -> blen seg' = blen seg -> InvB c n (linked w g seg' ents').
Proof.
  intros c n w g seg ents ns seg' ents' I Hh Hs Hwf Hlen.
  assert (Hg : g < n).
  { destruct (N.lt_ge_cases g n) as [X|X]; [assumption|]. rewrite (i_fresh_h _ _ _ I g X) in Hh. discriminate. }
  destruct (i_wf _ _ _ I g seg ents Hh Hs) as (ns0 & _ & Hcap).
  constructor; unfold linked; cbn [heaps snods groups objects set_heaps set_snods].
  - intros g' s e. rewrite !alookup_aset. destruct (g =? g') eqn:E.
    + intros X Y. inversion X; inversion Y; subst. exists ns. split; [assumption | congruence].
    + apply (i_wf _ _ _ I).
  - intros p g' H. destruct (i_reg _ _ _ I p g' H) as [[s Hs'] [e He']]. rewrite !alookup_aset.
    destruct (g =? g'); split; eauto.
  - destruct (i_root _ _ _ I) as [[s Hs'] [e He']]. rewrite !alookup_aset. destruct (g =? 0); split; eauto.
  - intros g' L. rewrite alookup_aset. destruct (g =? g') eqn:E; [apply N.eqb_eq in E; lia|]. apply (i_fresh_h _ _ _ I). assumption.
  - intros g' L. rewrite alookup_aset. destruct (g =? g') eqn:E; [apply N.eqb_eq in E; lia|]. apply (i_fresh_s _ _ _ I). assumption.
  - apply (i_fresh_o _ _ _ I).
  - apply (i_pos _ _ _ I).
Qed.

(* linkToParent preserves the invariant, whatever it answers, when the name is well formed or
   linkToParent checks that itself *)
Lemma invb_ltp : forall c n w parent nm child, InvB c n w -> (strict_names c = true \/ hname_ok nm) ->
  InvB c n (fst (link_to_parent c w parent nm child)).
Proof.
  intros c n w parent nm child I Hd.
  destruct (heap_name_ok nm) eqn:Hb.
  - assert (Hnm : hname_ok nm) by (apply heap_name_ok_iff; assumption).
    destruct (parent_group w parent) as [g|] eqn:P.
    + destruct (parent_group_structs _ _ _ _ _ I P) as [[seg Hh] [ents Hs]].
      destruct (i_wf _ _ _ I g seg ents Hh Hs) as (ns & Hwf & _).
      destruct (ltp_spec c w parent nm child g seg ents ns P Hh Hs Hwf Hnm)
        as [(_ & E)|[(_ & _ & E)|[(_ & _ & _ & E)|(_ & _ & _ & seg' & E & Hwf' & Hl)]]]; rewrite E; cbn [fst]; try assumption.
      eapply invb_linked; eassumption.
    + unfold link_to_parent. rewrite Hb, andb_false_r, P. assumption.
  - assert (S : strict_names c = true).
    { destruct Hd as [S|Hn]; [assumption|]. apply heap_name_ok_iff in Hn. congruence. }
    unfold link_to_parent. rewrite S, Hb. assumption.
Qed.

Lemma invb_add_object : forall c n w id o, InvB c n w -> id < n -> InvB c n (set_objects w (aset id o (objects w))).
Proof.
  intros c n w id o [A B C D E F G] L. constructor; cbn [heaps snods groups objects set_objects]; try assumption.
  intros g Hg. rewrite alookup_aset. destruct (id =? g) eqn:X; [apply N.eqb_eq in X; lia | apply F; assumption].
Qed.

Lemma invb_add_group : forall c n w id, InvB c n w -> id < n ->
  alookup id (heaps w) = None -> alookup id (snods w) = None ->
  let w1 := set_heaps w (aset id (snd (write_to (new_local_heap (heap_cap c)))) (heaps w)) in
  InvB c n (set_snods w1 (aset id (snod_write_at (new_snod (snod_cap c)) (snod_cap c)) (snods w1))).
Proof.
  intros c n w id [A B C D E F G] L Hh Hs. cbv zeta. constructor; cbn [heaps snods groups objects set_heaps set_snods]; try assumption.
  - intros g seg ents. rewrite !alookup_aset, new_heap_segment.
    replace (snod_write_at (new_snod (snod_cap c)) (snod_cap c)) with (@nil entry)
      by (unfold snod_write_at, new_snod; cbn [sn_entries]; rewrite firstn_nil; reflexivity).
    destruct (id =? g) eqn:X.
    + intros P Q. injection P as <-. injection Q as <-. exists [].
      split; [apply gwf_empty | apply blen_zeros].
    + apply A.
  - intros p g H. destruct (B p g H) as [[s Hs'] [e He']]. rewrite !alookup_aset. destruct (id =? g); split; eauto.
  - destruct C as [[s Hs'] [e He']]. rewrite !alookup_aset. destruct (id =? 0); split; eauto.
  - intros g Hg. rewrite alookup_aset. destruct (id =? g) eqn:X; [apply N.eqb_eq in X; lia | apply D; assumption].
  - intros g Hg. rewrite alookup_aset. destruct (id =? g) eqn:X; [apply N.eqb_eq in X; lia | apply E; assumption].
Qed.

Lemma invb_set_groups : forall c n w p id, InvB c n w ->
  (exists seg, alookup id (heaps w) = Some seg) -> (exists ents, alookup id (snods w) = Some ents) ->
  InvB c n (set_groups w (pset p id (groups w))).
Proof.
  intros c n w p id [A B C D E F G] Hh Hs. constructor; cbn [heaps snods groups objects set_groups]; try assumption.
  intros p' g H. destruct (list_eq_dec N.eq_dec p p') as [X|X].
  - subst. rewrite plookup_pset_eq in H. inversion H; subst. split; assumption.
  - rewrite plookup_pset_neq in H by assumption. apply (B p' g H).
Qed.

(* pieces of the state that linkToParent never touches *)
Lemma ltp_frame : forall c w parent nm child,
  let w' := fst (link_to_parent c w parent nm child) in
  groups w' = groups w /\ objects w' = objects w /\ clock w' = clock w.
Proof.
  intros c w parent nm child. unfold link_to_parent.
  destruct (strict_names c && negb (heap_name_ok nm)); [cbn; auto|].
  destruct (parent_group w parent); [|cbn; auto].
  destruct (alookup n (heaps w)); [|cbn; auto].
  destruct (alookup n (snods w)); [|cbn; auto].
  destruct (existsb _ _); [cbn; auto|].
  destruct (add_string _ _) as [[off h1]|]; [|cbn; auto].
  destruct (add_entry _ _); cbn; auto.
Qed.

Lemma ltp_keeps_keys : forall c w parent nm child k,
  let w' := fst (link_to_parent c w parent nm child) in
  (alookup k (heaps w) <> None -> alookup k (heaps w') <> None) /\
  (alookup k (snods w) <> None -> alookup k (snods w') <> None).
Proof.
  intros c w parent nm child k. unfold link_to_parent.
  destruct (strict_names c && negb (heap_name_ok nm)); [cbn; auto|].
  destruct (parent_group w parent); [|cbn; auto].
  destruct (alookup n (heaps w)); [|cbn; auto].
  destruct (alookup n (snods w)); [|cbn; auto].
  destruct (existsb _ _); [cbn; auto|].
  destruct (add_string _ _) as [[off h1]|]; [|cbn; auto].
  destruct (add_entry _ _); cbn [fst heaps snods set_heaps set_snods]; auto.
  split; intro H; rewrite alookup_aset; destruct (n =? k); congruence.
Qed.

Lemma step_body_clock : forall c w o, clock (fst (step_body c w o)) = clock w.
Proof.
  intros c w o. destruct o as [p|p|p q|p q]; cbn [step_body].
  - unfold create_group. destruct (negb (validate_group_path p)); [reflexivity|].
    cbv zeta. destruct (parse_path _) as [parent nm]. destruct (negb (parent_registered w parent)); [reflexivity|].
    destruct (precheck c w parent nm); [reflexivity|].
    match goal with |- context [link_to_parent ?c ?w ?a ?b ?d] =>
      pose proof (ltp_frame c w a b d) as F; destruct (link_to_parent c w a b d) as [w4 [|e]] end;
      cbn [fst clock set_groups set_objects set_snods set_heaps] in *; destruct F as (_ & _ & F); rewrite F; reflexivity.
  - unfold create_dataset. destruct (negb (validate_dataset_name p)); [reflexivity|].
    destruct (parse_path p) as [parent nm]. destruct (precheck c w parent nm); [reflexivity|].
    match goal with |- context [link_to_parent ?c ?w ?a ?b ?d] => pose proof (ltp_frame c w a b d) as F end.
    destruct F as (_ & _ & F). cbv zeta in F. rewrite F. reflexivity.
  - unfold create_hard_link. destruct (negb (validate_link_path p)); [reflexivity|].
    destruct (negb (validate_link_path q)); [reflexivity|].
    destruct (parse_path p) as [parent nm]. destruct (negb (parent_registered w parent)); [reflexivity|].
    destruct (resolve_object_address w q) as [t|]; [|reflexivity].
    destruct (alookup t (objects w)) as [o|]; [|reflexivity]. destruct (precheck c w parent nm); [reflexivity|].
    match goal with |- context [link_to_parent ?c ?w ?a ?b ?d] =>
      pose proof (ltp_frame c w a b d) as F; destruct (link_to_parent c w a b d) as [w4 [|e]] end;
      cbn [fst clock set_groups set_objects set_snods set_heaps] in *; destruct F as (_ & _ & F); rewrite F; reflexivity.
  - unfold create_soft_link. destruct (negb (validate_link_path p)); [reflexivity|].
    destruct (negb (validate_soft_target q)); [reflexivity|].
    destruct (parse_path p) as [parent nm]. destruct (negb (parent_registered w parent)); [reflexivity|].
    destruct (soft_max c <? blen nm + blen q); [reflexivity|]. destruct (precheck c w parent nm); [reflexivity|].
    match goal with |- context [link_to_parent ?c ?w ?a ?b ?d] => pose proof (ltp_frame c w a b d) as F end.
    destruct F as (_ & _ & F). cbv zeta in F. rewrite F. reflexivity.
Qed.

(* one API call preserves the invariant when its link name is well formed or linkToParent checks it *)
Definition name_cond (c : cfg) (nm : name) : Prop := strict_names c = true \/ hname_ok nm.

Lemma step_body_inv : forall c w o, Inv1 c w -> name_cond c (op_link_name c o) ->
  InvB c (clock w + 1) (fst (step_body c w o)).
Proof.
  intros c w o I Hnm. unfold Inv1 in I. unfold op_link_name in Hnm.
  assert (I' : InvB c (clock w + 1) w) by (eapply invb_mono; [|eassumption]; lia).
  destruct o as [p|p|p q|p q]; cbn [step_body op_path_eff] in *.
  - unfold create_group. destruct (negb (validate_group_path p)); [assumption|]. cbv zeta.
    destruct (parse_path (if canon_group_key c then trim_suffix_slash p else p)) as [parent nm] eqn:PP. cbn [snd] in Hnm.
    destruct (negb (parent_registered w parent)); [assumption|]. destruct (precheck c w parent nm); [assumption|].
    set (w3 := set_objects _ _).
    assert (I3 : InvB c (clock w + 1) w3).
    { unfold w3. apply invb_add_object; [|lia]. apply invb_add_group; try assumption; try lia.
      - apply (i_fresh_h _ _ _ I). lia.
      - apply (i_fresh_s _ _ _ I). lia. }
    pose proof (invb_ltp c _ w3 parent nm (clock w) I3 Hnm) as I4.
    pose proof (ltp_keeps_keys c w3 parent nm (clock w) (clock w)) as K.
    destruct (link_to_parent c w3 parent nm (clock w)) as [w4 [|e]]; cbn [fst] in *; [|assumption].
    destruct K as [K1 K2].
    apply invb_set_groups; [assumption | |].
    + destruct (alookup (clock w) (heaps w4)) eqn:X; [eauto|]. exfalso. apply K1; [|reflexivity].
      unfold w3. cbn [heaps set_objects set_snods set_heaps]. rewrite alookup_aset_eq. discriminate.
    + destruct (alookup (clock w) (snods w4)) eqn:X; [eauto|]. exfalso. apply K2; [|reflexivity].
      unfold w3. cbn [snods set_objects set_snods set_heaps]. rewrite alookup_aset_eq. discriminate.
  - unfold create_dataset. destruct (negb (validate_dataset_name p)); [assumption|].
    destruct (parse_path p) as [parent nm] eqn:PP. cbn [snd] in Hnm. destruct (precheck c w parent nm); [assumption|].
    apply invb_ltp; [|assumption]. apply invb_add_object; [assumption | lia].
  - unfold create_hard_link. destruct (negb (validate_link_path p)); [assumption|].
    destruct (negb (validate_link_path q)); [assumption|].
    destruct (parse_path p) as [parent nm] eqn:PP. cbn [snd] in Hnm.
    destruct (negb (parent_registered w parent)); [assumption|].
    destruct (resolve_object_address w q) as [t|]; [|assumption].
    destruct (alookup t (objects w)) as [o|] eqn:Ho; [|assumption]. destruct (precheck c w parent nm); [assumption|].
    assert (Ht : t < clock w + 1).
    { destruct (N.lt_ge_cases t (clock w)) as [X|X]; [lia|]. rewrite (i_fresh_o _ _ _ I t X) in Ho. discriminate. }
    match goal with |- context [link_to_parent ?c ?w1 ?a ?b ?d] =>
      assert (I1 : InvB c (clock w + 1) w1) by (apply invb_add_object; assumption);
      pose proof (invb_ltp c _ w1 a b d I1 Hnm) as I2;
      destruct (link_to_parent c w1 a b d) as [w2 [|e]] end; cbn [fst] in *; [assumption|].
    apply invb_add_object; assumption.
  - unfold create_soft_link. destruct (negb (validate_link_path p)); [assumption|].
    destruct (negb (validate_soft_target q)); [assumption|].
    destruct (parse_path p) as [parent nm] eqn:PP. cbn [snd] in Hnm.
    destruct (negb (parent_registered w parent)); [assumption|].
    destruct (soft_max c <? blen nm + blen q); [assumption|]. destruct (precheck c w parent nm); [assumption|].
    apply invb_ltp; [|assumption]. apply invb_add_object; [assumption | lia].
Qed.

Lemma step_inv : forall c w o, Inv1 c w -> name_cond c (op_link_name c o) -> Inv1 c (fst (step c w o)).
Proof.
  intros c w o I H. unfold step. pose proof (step_body_inv c w o I H) as B. pose proof (step_body_clock c w o) as C.
  destruct (step_body c w o) as [w' r]. cbn [fst] in *. unfold Inv1. cbn [clock tick]. rewrite C.
  apply invb_tick. assumption.
Qed.

Lemma names_ok_cons : forall c o h, names_ok c (o :: h) = true -> name_cond c (op_link_name c o) /\ names_ok c h = true.
Proof.
  intros c o h N. unfold names_ok, name_cond in *. destruct (strict_names c); [auto|]. cbn [orb forallb] in *.
  apply andb_true_iff in N. destruct N as [N1 N2]. split; [right; apply heap_name_ok_iff; assumption | assumption].
Qed.

Lemma run_inv : forall c h w, Inv1 c w -> names_ok c h = true -> Inv1 c (fst (run (step c) w h)).
Proof.
  intros c h. induction h as [|o h IH]; intros w I N; [assumption|].
  destruct (names_ok_cons c o h N) as [N1 N2].
  cbn [run]. pose proof (step_inv c w o I N1) as I1.
  destruct (step c w o) as [w1 r]. cbn [fst] in I1. specialize (IH w1 I1 N2).
  destruct (run (step c) w1 h) as [w2 rs]. assumption.
Qed.

(* ---------------------------------------------------------------- names are pairwise distinct *)
Lemma NoDup_map_Some : forall A (l : list A), NoDup l -> NoDup (map Some l).
Proof.
  induction l as [|x l IH]; intro H; cbn [map]; [constructor|]. inversion H; subst. constructor; [|auto].
  intro I. apply in_map_iff in I. destruct I as (y & Hy & Iy). inversion Hy; subst. contradiction.
Qed.

Lemma inv_no_dup : forall c w g names, Inv1 c w -> group_names w g = Some names ->
  NoDup names /\ Forall (fun x => x <> None) names.
Proof.
  intros c w g names I H. unfold group_names in H.
  destruct (alookup g (heaps w)) as [seg|] eqn:Hh; [|discriminate].
  destruct (alookup g (snods w)) as [ents|] eqn:Hs; [|discriminate]. inversion H; subst.
  destruct (i_wf _ _ _ I g seg ents Hh Hs) as (ns & Hwf & _).
  rewrite (names_decode _ _ _ Hwf). destruct Hwf as (_ & _ & _ & _ & Hnd). split.
  - apply NoDup_map_Some. assumption.
  - apply Forall_forall. intros x Hx. apply in_map_iff in Hx. destruct Hx as (y & Hy & _). congruence.
Qed.

(* ---------------------------------------------------------------- a failing call changes no namespace structure *)
(* everything that existed before the call (ids below the clock) is as it was; objects allocated by
   the failing call itself (id = clock) are unreachable leftovers; a failed hard link may change the
   target's stored reference count (see create_hard_link), never its kind *)
Definition same_ns (n : N) (w w' : wstate) : Prop :=
  groups w' = groups w /\
  forall k, k < n ->
    alookup k (heaps w') = alookup k (heaps w) /\ alookup k (snods w') = alookup k (snods w) /\
    option_map o_kind (alookup k (objects w')) = option_map o_kind (alookup k (objects w)).
Definition same_all (n : N) (w w' : wstate) : Prop :=
  same_ns n w w' /\ forall k, k < n -> alookup k (objects w') = alookup k (objects w).

Lemma same_ns_refl : forall n w, same_ns n w w.
Proof. intros. split; [reflexivity | intros; auto]. Qed.
Lemma same_all_refl : forall n w, same_all n w w.
Proof. intros. split; [apply same_ns_refl | auto]. Qed.

Lemma step_err_same_ns : forall c w o w' e, step_body c w o = (w', Err e) -> same_ns (clock w) w w'.
Proof.
  intros c w o w' e. destruct o as [p|p|p q|p q]; cbn [step_body].
  - unfold create_group. destruct (negb (validate_group_path p)); [intro H; inversion H; apply same_ns_refl|].
    cbv zeta. destruct (parse_path _) as [parent nm]. destruct (negb (parent_registered w parent)); [intro H; inversion H; apply same_ns_refl|].
    destruct (precheck c w parent nm); [intro H; inversion H; apply same_ns_refl|].
    match goal with |- context [link_to_parent ?c ?w3 ?a ?b ?d] =>
      destruct (link_to_parent c w3 a b d) as [w4 [|e4]] eqn:L end; intro H; inversion H; subst.
    apply ltp_err_unchanged in L. subst. split; [reflexivity|]. intros k Hk.
    cbn [heaps snods objects set_objects set_snods set_heaps].
    rewrite !alookup_aset_neq by lia. auto.
  - unfold create_dataset. destruct (negb (validate_dataset_name p)); [intro H; inversion H; apply same_ns_refl|].
    destruct (parse_path p) as [parent nm]. destruct (precheck c w parent nm); [intro H; inversion H; apply same_ns_refl|]. intro L. apply ltp_err_unchanged in L. subst.
    split; [reflexivity|]. intros k Hk. cbn [heaps snods objects set_objects]. rewrite !alookup_aset_neq by lia. auto.
  - unfold create_hard_link. destruct (negb (validate_link_path p)); [intro H; inversion H; apply same_ns_refl|].
    destruct (negb (validate_link_path q)); [intro H; inversion H; apply same_ns_refl|].
    destruct (parse_path p) as [parent nm]. destruct (negb (parent_registered w parent)); [intro H; inversion H; apply same_ns_refl|].
    destruct (resolve_object_address w q) as [t|]; [|intro H; inversion H; apply same_ns_refl].
    destruct (alookup t (objects w)) as [o|] eqn:Ho; [|intro H; inversion H; apply same_ns_refl].
    destruct (precheck c w parent nm); [intro H; inversion H; apply same_ns_refl|].
    match goal with |- context [link_to_parent ?c ?w1 ?a ?b ?d] =>
      destruct (link_to_parent c w1 a b d) as [w2 [|e2]] eqn:L end; intro H; inversion H; subst.
    apply ltp_err_unchanged in L. subst. split; [reflexivity|]. intros k Hk.
    cbn [heaps snods objects set_objects]. repeat split; try reflexivity.
    rewrite !alookup_aset. destruct (t =? k) eqn:E; [|reflexivity]. apply N.eqb_eq in E. subst. rewrite Ho. reflexivity.
  - unfold create_soft_link. destruct (negb (validate_link_path p)); [intro H; inversion H; apply same_ns_refl|].
    destruct (negb (validate_soft_target q)); [intro H; inversion H; apply same_ns_refl|].
    destruct (parse_path p) as [parent nm]. destruct (negb (parent_registered w parent)); [intro H; inversion H; apply same_ns_refl|].
    destruct (soft_max c <? blen nm + blen q); [intro H; inversion H; apply same_ns_refl|]. destruct (precheck c w parent nm); [intro H; inversion H; apply same_ns_refl|].
    intro L. apply ltp_err_unchanged in L. subst.
    split; [reflexivity|]. intros k Hk. cbn [heaps snods objects set_objects]. rewrite !alookup_aset_neq by lia. auto.
Qed.

Definition is_hard_link (o : op) : bool := match o with HardLink _ _ => true | _ => false end.

Lemma step_err_same_all : forall c w o w' e, is_hard_link o = false ->
  step_body c w o = (w', Err e) -> same_all (clock w) w w'.
Proof.
  intros c w o w' e Hh H. split; [eapply step_err_same_ns; eassumption|].
  destruct o as [p|p|p q|p q]; [| |discriminate|]; cbn [step_body] in H.
  - unfold create_group in H. destruct (negb (validate_group_path p)); [inversion H; auto|].
    cbv zeta in H. destruct (parse_path _) as [parent nm]. destruct (negb (parent_registered w parent)); [inversion H; auto|].
    destruct (precheck c w parent nm); [inversion H; auto|].
    match type of H with context [link_to_parent ?c ?w3 ?a ?b ?d] =>
      destruct (link_to_parent c w3 a b d) as [w4 [|e4]] eqn:L end; inversion H; subst.
    apply ltp_err_unchanged in L. subst. intros k Hk. cbn [objects set_objects set_snods set_heaps].
    rewrite alookup_aset_neq by lia. reflexivity.
  - unfold create_dataset in H. destruct (negb (validate_dataset_name p)); [inversion H; auto|].
    destruct (parse_path p) as [parent nm]. destruct (precheck c w parent nm); [inversion H; auto|]. apply ltp_err_unchanged in H. subst. intros k Hk.
    cbn [objects set_objects]. rewrite alookup_aset_neq by lia. reflexivity.
  - unfold create_soft_link in H. destruct (negb (validate_link_path p)); [inversion H; auto|].
    destruct (negb (validate_soft_target q)); [inversion H; auto|].
    destruct (parse_path p) as [parent nm]. destruct (negb (parent_registered w parent)); [inversion H; auto|].
    destruct (soft_max c <? blen nm + blen q); [inversion H; auto|]. destruct (precheck c w parent nm); [inversion H; auto|].
    apply ltp_err_unchanged in H. subst. intros k Hk.
    cbn [objects set_objects]. rewrite alookup_aset_neq by lia. reflexivity.
Qed.

(* ---------------------------------------------------------------- every call is "checks, then linkToParent" *)
Definition op_parent (c : cfg) (o : op) : path := fst (parse_path (op_path_eff c o)).

(* either the call returns early with the state untouched, or its answer is the answer of linkToParent
   on a state that differs from w only in object headers and in structures at the fresh address *)
Lemma step_body_shape : forall c w o,
  (exists e, step_body c w o = (w, Err e)) \/
  (exists wpre child, groups wpre = groups w /\
     (forall k, k <> clock w -> alookup k (heaps wpre) = alookup k (heaps w) /\ alookup k (snods wpre) = alookup k (snods w)) /\
     is_ok (snd (step_body c w o)) = is_ok (snd (link_to_parent c wpre (op_parent c o) (op_link_name c o) child))).
Proof.
  intros c w o. unfold op_parent, op_link_name. destruct o as [p|p|p q|p q]; cbn [step_body op_path_eff].
  - unfold create_group. destruct (negb (validate_group_path p)); [left; eauto|]. cbv zeta.
    destruct (parse_path (if canon_group_key c then trim_suffix_slash p else p)) as [parent nm].
    destruct (negb (parent_registered w parent)); [left; eauto|]. destruct (precheck c w parent nm); [left; eauto|].
    right. match goal with |- context [link_to_parent ?c ?w3 ?a ?b ?d] => exists w3, d end.
    split; [reflexivity|]. split.
    + intros k Hk. cbn [heaps snods set_objects set_snods set_heaps]. rewrite !alookup_aset_neq by congruence. auto.
    + cbn [fst snd]. match goal with |- context [link_to_parent ?c ?w3 ?a ?b ?d] => destruct (link_to_parent c w3 a b d) as [w4 [|e]] end; reflexivity.
  - unfold create_dataset. destruct (negb (validate_dataset_name p)); [left; eauto|].
    destruct (parse_path p) as [parent nm]. destruct (precheck c w parent nm); [left; eauto|]. right.
    match goal with |- context [link_to_parent ?c ?w3 ?a ?b ?d] => exists w3, d end.
    split; [reflexivity|]. split; [intros; cbn [heaps snods set_objects]; auto | reflexivity].
  - unfold create_hard_link. destruct (negb (validate_link_path p)); [left; eauto|].
    destruct (negb (validate_link_path q)); [left; eauto|].
    destruct (parse_path p) as [parent nm]. destruct (negb (parent_registered w parent)); [left; eauto|].
    destruct (resolve_object_address w q) as [t|]; [|left; eauto].
    destruct (alookup t (objects w)) as [o|]; [|left; eauto]. destruct (precheck c w parent nm); [left; eauto|].
    right. match goal with |- context [link_to_parent ?c ?w3 ?a ?b ?d] => exists w3, d end.
    split; [reflexivity|]. split; [intros; cbn [heaps snods set_objects]; auto|].
    cbn [fst snd]. match goal with |- context [link_to_parent ?c ?w3 ?a ?b ?d] => destruct (link_to_parent c w3 a b d) as [w4 [|e]] end; reflexivity.
  - unfold create_soft_link. destruct (negb (validate_link_path p)); [left; eauto|].
    destruct (negb (validate_soft_target q)); [left; eauto|].
    destruct (parse_path p) as [parent nm]. destruct (negb (parent_registered w parent)); [left; eauto|].
    destruct (soft_max c <? blen nm + blen q); [left; eauto|]. destruct (precheck c w parent nm); [left; eauto|].
    right. match goal with |- context [link_to_parent ?c ?w3 ?a ?b ?d] => exists w3, d end.
    split; [reflexivity|]. split; [intros; cbn [heaps snods set_objects]; auto | reflexivity].
Qed.

Lemma parent_group_groups : forall w w' parent, groups w' = groups w -> parent_group w' parent = parent_group w parent.
Proof. intros w w' parent H. unfold parent_group. rewrite H. reflexivity. Qed.

Lemma ltp_dup_raw : forall c w parent nm child g seg ents,
  parent_group w parent = Some g -> alookup g (heaps w) = Some seg -> alookup g (snods w) = Some ents ->
  In (Some nm) (map (name_of seg) ents) -> exists e, link_to_parent c w parent nm child = (w, Err e).
Proof.
  intros c w parent nm child g seg ents Hp Hh Hs I. unfold link_to_parent.
  destruct (strict_names c && negb (heap_name_ok nm)); [eauto|]. rewrite Hp, Hh, Hs. cbn [parse_snod sn_entries].
  assert (E : existsb (entry_has_name seg nm) ents = true).
  { apply existsb_exists. apply in_map_iff in I. destruct I as (e & He & Ie). exists e. split; [assumption|].
    unfold entry_has_name. rewrite He. apply bytes_eqb_refl. }
  rewrite E. eauto.
Qed.

(* the name is already present in the group the call would link into *)
Definition name_exists (c : cfg) (w : wstate) (o : op) : Prop :=
  exists g names, parent_group w (op_parent c o) = Some g /\ group_names w g = Some names /\ In (Some (op_link_name c o)) names.

Lemma structs_not_fresh : forall c w g names, Inv1 c w -> group_names w g = Some names -> g <> clock w.
Proof.
  intros c w g names I H E. subst. unfold group_names in H. rewrite (i_fresh_h _ _ _ I (clock w)) in H by lia. discriminate.
Qed.

Lemma step_reject_dup : forall c w o, Inv1 c w -> name_exists c w o -> is_ok (snd (step_body c w o)) = false.
Proof.
  intros c w o I (g & names & Hp & Hn & Hin).
  destruct (step_body_shape c w o) as [(e & E)|(wpre & child & Hg & Hk & E)]; [rewrite E; reflexivity|].
  rewrite E. pose proof (structs_not_fresh _ _ _ _ I Hn) as Hne. destruct (Hk g Hne) as [K1 K2].
  unfold group_names in Hn. destruct (alookup g (heaps w)) as [seg|] eqn:Hh; [|discriminate].
  destruct (alookup g (snods w)) as [ents|] eqn:Hs; [|discriminate]. inversion Hn; subst.
  destruct (ltp_dup_raw c wpre (op_parent c o) (op_link_name c o) child g seg ents) as (e & X); try congruence.
  - rewrite (parent_group_groups _ _ _ Hg). assumption.
  - rewrite X. reflexivity.
Qed.

Lemma step_reject_missing_parent : forall c w o, parent_group w (op_parent c o) = None -> is_ok (snd (step_body c w o)) = false.
Proof.
  intros c w o Hp.
  destruct (step_body_shape c w o) as [(e & E)|(wpre & child & Hg & Hk & E)]; [rewrite E; reflexivity|].
  rewrite E. unfold link_to_parent. destruct (strict_names c && _); [reflexivity|]. rewrite (parent_group_groups _ _ _ Hg), Hp. reflexivity.
Qed.

(* bytes of the heap in use, computed from the names the reader decodes *)
Fixpoint used_bytes (names : list (option name)) : N :=
  match names with [] => 0 | Some n :: r => blen n + 1 + used_bytes r | None :: r => used_bytes r end.
Lemma used_bytes_enc : forall ns, used_bytes (map Some ns) = blen (enc ns).
Proof.
  induction ns as [|n ns IH]; [reflexivity|]. cbn [map used_bytes]. rewrite IH. unfold enc. cbn [flat_map]. fold (enc ns).
  rewrite !blen_app, !blen_cons, !blen_nil. nlia.
Qed.

Lemma step_capacity : forall c w o g names, Inv1 c w -> hname_ok (op_link_name c o) ->
  parent_group w (op_parent c o) = Some g -> group_names w g = Some names ->
  (snod_cap c <= blen names \/ new_heap_size (heap_cap c) < used_bytes names + blen (op_link_name c o) + 1) ->
  is_ok (snd (step_body c w o)) = false.
Proof.
  intros c w o g names I Hnm Hp Hn Hcap.
  destruct (step_body_shape c w o) as [(e & E)|(wpre & child & Hg & Hk & E)]; [rewrite E; reflexivity|].
  rewrite E. pose proof (structs_not_fresh _ _ _ _ I Hn) as Hne. destruct (Hk g Hne) as [K1 K2].
  unfold group_names in Hn. destruct (alookup g (heaps w)) as [seg|] eqn:Hh; [|discriminate].
  destruct (alookup g (snods w)) as [ents|] eqn:Hs; [|discriminate]. inversion Hn; subst. clear Hn.
  destruct (i_wf _ _ _ I g seg ents Hh Hs) as (ns & Hwf & Hlen).
  rewrite (names_decode _ _ _ Hwf) in Hcap. rewrite used_bytes_enc, blen_map in Hcap.
  pose proof (gwf_length _ _ _ Hwf) as HL.
  assert (Hp' : parent_group wpre (op_parent c o) = Some g) by (rewrite (parent_group_groups _ _ _ Hg); assumption).
  rewrite <- K1 in Hh. rewrite <- K2 in Hs.
  destruct (ltp_spec c wpre (op_parent c o) (op_link_name c o) child g seg ents ns Hp' K1 K2 Hwf Hnm)
    as [(_ & X)|[(_ & _ & X)|[(_ & _ & _ & X)|(_ & F1 & F2 & _)]]]; try (rewrite X; reflexivity).
  exfalso. unfold blen in *. destruct Hcap; nlia.
Qed.

(* ---------------------------------------------------------------- statements used by Props/C03.v *)
Definition reach (c : cfg) (h : list op) : wstate := fst (run (step c) (init c) h).

Lemma reach_inv : forall c h, names_ok c h = true -> Inv1 c (reach c h).
Proof. intros c h H. apply run_inv; [apply invb_init | assumption]. Qed.

Lemma err_same_ns_of_not_ok : forall c w o, is_ok (snd (step_body c w o)) = false -> same_ns (clock w) w (fst (step_body c w o)).
Proof.
  intros c w o H. destruct (step_body c w o) as [w' [|e]] eqn:B; [discriminate|]. cbn [fst]. eapply step_err_same_ns; eassumption.
Qed.

Lemma no_dup_reach : forall c h g names, names_ok c h = true -> group_names (reach c h) g = Some names ->
  NoDup names /\ Forall (fun x => x <> None) names.
Proof. intros c h g names H. apply inv_no_dup with (c := c). apply reach_inv. assumption. Qed.

Lemma reject_dup_reach : forall c h o, names_ok c h = true -> name_exists c (reach c h) o ->
  is_ok (snd (step_body c (reach c h) o)) = false /\
  same_ns (clock (reach c h)) (reach c h) (fst (step_body c (reach c h) o)).
Proof.
  intros c h o H E. assert (X : is_ok (snd (step_body c (reach c h) o)) = false) by (apply step_reject_dup; [apply reach_inv|]; assumption).
  split; [assumption | apply err_same_ns_of_not_ok; assumption].
Qed.

Lemma reject_missing_parent_any : forall c w o, parent_group w (op_parent c o) = None ->
  is_ok (snd (step_body c w o)) = false /\ same_ns (clock w) w (fst (step_body c w o)).
Proof.
  intros c w o H. assert (X : is_ok (snd (step_body c w o)) = false) by (apply step_reject_missing_parent; assumption).
  split; [assumption | apply err_same_ns_of_not_ok; assumption].
Qed.

Lemma capacity_reach : forall c h o g names, names_ok c h = true -> heap_name_ok (op_link_name c o) = true ->
  parent_group (reach c h) (op_parent c o) = Some g -> group_names (reach c h) g = Some names ->
  (snod_cap c <= blen names \/ new_heap_size (heap_cap c) < used_bytes names + blen (op_link_name c o) + 1) ->
  is_ok (snd (step_body c (reach c h) o)) = false /\
  same_ns (clock (reach c h)) (reach c h) (fst (step_body c (reach c h) o)).
Proof.
  intros c h o g names H Hn P G K.
  assert (X : is_ok (snd (step_body c (reach c h) o)) = false).
  { eapply step_capacity; try eassumption; [apply reach_inv; assumption | apply heap_name_ok_iff; assumption]. }
  split; [assumption | apply err_same_ns_of_not_ok; assumption].
Qed.
