(* C05: the writer's datatype encoder (Model/CodecType.v enc_datatype, CodecCompound.v) against the specification decoder
   Spec/FormatMsg.v spec_dec_datatype. *)
From HV Require Import Base.Prelude Base.Outcome Base.Bytes Spec.Parse Spec.Format Spec.FormatMsg
  Model.CodecType Model.CodecCompound Proofs.CodecType Proofs.SpecSuper.

(* ---- fixed-point and floating-point: every combination the encoder accepts, by evaluation ---- *)
Definition mk_num (c size cbf : N) : datatype := {| dt_class := c; dt_version := 1; dt_size := size; dt_cbf := cbf; dt_props := [] |}.

(* the encoder looks at class, size and class bits only *)
Lemma enc_numeric_fields x : (dt_class x =? DT_FIXED) || (dt_class x =? DT_FLOAT) = true ->
  enc_datatype x = enc_datatype (mk_num (dt_class x) (dt_size x) (dt_cbf x)).
Proof.
  intros H. unfold enc_datatype, enc_datatype_gen. cbn [mk_num dt_class dt_size dt_cbf]. rewrite H. reflexivity.
Qed.

Definition logical_fixed (size cbf : N) : dtype :=
  DFixed 1 size (bit cbf 0) (bit cbf 1) (bit cbf 2) (N.testbit cbf 3) 0 (8 * size).


(* Integer types (sizes 1, 2, 4, 8; class bits without reserved bits): the property bytes are (byte order, bits, 0, 0) where the
   specification has bit offset (2) and precision (2): read per specification the precision is 0.  The strict decoder rejects; the
   tolerant decoder accepts exactly this layout and reports fixed-props-malformed. *)
Lemma spec_fixed tol size cbf :
  (size = 1 \/ size = 2 \/ size = 4 \/ size = 8) -> cbf < 16 ->
  spec_dec_datatype tol false (enc_datatype (mk_num DT_FIXED size cbf)) =
    (tg <- dev tol T_fixed_props_malformed;; Ok (logical_fixed size cbf, tg)).
Proof.
  intros Hs Hc.
  assert (C : cbf = 0 \/ cbf = 1 \/ cbf = 2 \/ cbf = 3 \/ cbf = 4 \/ cbf = 5 \/ cbf = 6 \/ cbf = 7 \/ cbf = 8 \/ cbf = 9 \/
              cbf = 10 \/ cbf = 11 \/ cbf = 12 \/ cbf = 13 \/ cbf = 14 \/ cbf = 15) by lia.
  unfold dev.
  repeat (destruct Hs as [Hs|Hs]); subst size;
    repeat (destruct C as [C|C]); subst cbf; destruct (tol T_fixed_props_malformed) eqn:E;
    vm_compute; rewrite ?E; reflexivity.
Qed.

Definition logical_float (size cbf : N) : dtype :=
  if size =? 4 then DFloat 1 4 cbf 0 2 31 0 32 23 8 0 23 127 else DFloat 1 8 cbf 0 2 63 0 64 52 11 0 52 1023.

(* Floating-point types (sizes 4, 8; class bits 0 or 1 = the byte order): sign location and normalisation bits are 0 and the 12
   property bytes are (byte order, bits, 0, exponent bits, mantissa bits, bias, 0...) - read per specification the fields lie
   outside the precision.  Strict: rejected.  Tolerant: float-props-malformed, and for 64-bit floats also float64-bias-127. *)
Lemma spec_float tol size cbf :
  (size = 4 \/ size = 8) -> cbf < 2 ->
  spec_dec_datatype tol false (enc_datatype (mk_num DT_FLOAT size cbf)) =
    (tg1 <- dev tol T_float_props_malformed;;
     tg2 <- (if size =? 8 then dev tol T_float64_bias_127 else Ok []);;
     Ok (logical_float size cbf, tg1 ++ tg2)).
Proof.
  intros Hs Hc. assert (C : cbf = 0 \/ cbf = 1) by lia.
  unfold dev.
  destruct Hs; subst size; destruct C; subst cbf;
    destruct (tol T_float_props_malformed) eqn:E1; destruct (tol T_float64_bias_127) eqn:E2;
    vm_compute; rewrite ?E1, ?E2; reflexivity.
Qed.

(* ---- the common header, for symbolic sizes and class bits ---- *)
Lemma le4_split w : le 4 w = (w mod 256) :: le 3 (w / 256).
Proof. reflexivity. Qed.

Lemma dt_header_bytes c v b s (rest : list N) : c < 16 -> v < 16 -> b < 16777216 ->
  dt_header c v b s ++ rest = (c + 16 * v) :: le 3 b ++ le 4 s ++ rest.
Proof.
  intros Hc Hv Hb. unfold dt_header. rewrite dt_word_arith by assumption. rewrite le4_split.
  replace ((c + 16 * v + 256 * b) mod 256) with (c + 16 * v) by lia.
  replace ((c + 16 * v + 256 * b) / 256) with b by lia.
  rewrite <- !app_assoc. reflexivity.
Qed.

Lemma pow3 : 16777216 = 256 ^ N.of_nat 3.  Proof. reflexivity. Qed.
Lemma pow4' : 4294967296 = 256 ^ N.of_nat 4.  Proof. reflexivity. Qed.

Ltac pul := let Q := fresh "Q" in pose proof p_u_le as Q; bnorm; rewrite Q by assumption; clear Q; cbn [obind].

(* ---- strings: one extra property byte ---- *)
Definition string_bits_ok (cbf : N) : bool := (bits_of cbf 0 4 <? 3) && (bits_of cbf 4 4 <? 2) && (cbf <? 256).

Lemma spec_string tol x : wf_datatype x = true -> dt_class x = DT_STRING -> string_bits_ok (dt_cbf x) = true ->
  spec_dec_datatype tol false (enc_datatype x) =
    (tg <- dev tol T_string_extra_prop_byte;;
     Ok (DString 1 (dt_size x) (bits_of (dt_cbf x) 0 4) (bits_of (dt_cbf x) 4 4), tg)).
Proof.
  unfold wf_datatype, encok_datatype. intros W C B. repeat (apply andb_true_iff in W as [W ?]).
  destruct x as [c v s cbf props]; cbn [dt_class dt_version dt_size dt_cbf dt_props] in *. subst c.
  repeat match goal with H : (_ <? _) = true |- _ => apply N.ltb_lt in H end.
  assert (S0 : (0 <? s) = true) by (apply N.ltb_lt; destruct (s =? 0) eqn:E; [discriminate | apply N.eqb_neq in E; lia]).
  unfold enc_datatype, enc_datatype_gen. cbn [dt_class dt_version dt_size dt_cbf dt_props].
  change ((DT_STRING =? DT_FIXED) || (DT_STRING =? DT_FLOAT)) with false. change (DT_STRING =? DT_STRING) with true. cbv iota.
  rewrite dt_header_bytes by (try reflexivity; assumption).
  match goal with H : cbf < 16777216 |- _ => rewrite pow3 in H end.
  match goal with H : s < 4294967296 |- _ => rewrite pow4' in H end.
  unfold spec_dec_datatype. cbn [p_dtype p_byte obind]. pul. pul.
  change (N.land (DT_STRING + 16 * 1) 15) with 3. change (N.shiftr (DT_STRING + 16 * 1) 4) with 1.
  cbn [N.leb N.compare Pos.compare Pos.compare_cont andb guard obind]. rewrite S0. cbn [guard obind N.eqb Pos.eqb].
  unfold string_bits_ok in B. rewrite B. cbn [guard obind].
  destruct (tol T_string_extra_prop_byte) eqn:E; unfold dev; rewrite E; cbn [obind p_end]; reflexivity.
Qed.

(* ---- references: conformant ---- *)
Lemma spec_reference tol x : wf_datatype x = true -> dt_class x = DT_REFERENCE -> dt_cbf x < 2 ->
  spec_dec_datatype tol false (enc_datatype x) = Ok (DReference 1 (dt_size x) (dt_cbf x), []).
Proof.
  unfold wf_datatype, encok_datatype. intros W C B. repeat (apply andb_true_iff in W as [W ?]).
  destruct x as [c v s cbf props]; cbn [dt_class dt_version dt_size dt_cbf dt_props] in *. subst c.
  repeat match goal with H : (_ <? _) = true |- _ => apply N.ltb_lt in H end.
  assert (S0 : (0 <? s) = true) by (apply N.ltb_lt; destruct (s =? 0) eqn:E; [discriminate | apply N.eqb_neq in E; lia]).
  unfold enc_datatype, enc_datatype_gen. cbn [dt_class dt_version dt_size dt_cbf dt_props].
  change ((DT_REFERENCE =? DT_FIXED) || (DT_REFERENCE =? DT_FLOAT)) with false.
  change (DT_REFERENCE =? DT_STRING) with false. change (DT_REFERENCE =? DT_REFERENCE) with true. cbv iota.
  rewrite <- (app_nil_r (dt_header _ _ _ _)).
  rewrite dt_header_bytes by (try reflexivity; assumption).
  match goal with H : cbf < 16777216 |- _ => rewrite pow3 in H end.
  match goal with H : s < 4294967296 |- _ => rewrite pow4' in H end.
  unfold spec_dec_datatype. cbn [p_dtype p_byte obind]. pul. pul.
  change (N.land (DT_REFERENCE + 16 * 1) 15) with 7. change (N.shiftr (DT_REFERENCE + 16 * 1) 4) with 1.
  cbn [N.leb N.compare Pos.compare Pos.compare_cont andb guard obind]. rewrite S0. cbn [guard obind N.eqb Pos.eqb].
  assert (B' : (cbf <? 2) = true) by (apply N.ltb_lt; exact B). rewrite B'. cbn [guard obind p_end]. reflexivity.
Qed.

(* ---- opaque: conformant when the padded tag fits the 8-bit length field ---- *)
Lemma pad8_mod8 n : pad8 n mod 8 = 0.
Proof. unfold pad8. rewrite N.mod_mul by lia. reflexivity. Qed.

Lemma spec_opaque tol x : wf_datatype x = true -> dt_class x = DT_OPAQUE -> pad8 (blen (dt_props x)) < 256 ->
  spec_dec_datatype tol false (enc_datatype x) =
    Ok (DOpaque 1 (dt_size x) (dt_props x ++ zeros (N.to_nat (pad8 (blen (dt_props x)) - blen (dt_props x)))), []).
Proof.
  unfold wf_datatype, encok_datatype. intros W C B. repeat (apply andb_true_iff in W as [W ?]).
  destruct x as [c v s cbf props]; cbn [dt_class dt_version dt_size dt_cbf dt_props] in *. subst c.
  repeat match goal with H : (_ <? _) = true |- _ => apply N.ltb_lt in H end.
  assert (S0 : (0 <? s) = true) by (apply N.ltb_lt; destruct (s =? 0) eqn:E; [discriminate | apply N.eqb_neq in E; lia]).
  unfold enc_datatype, enc_datatype_gen. cbn [dt_class dt_version dt_size dt_cbf dt_props].
  change ((DT_OPAQUE =? DT_FIXED) || (DT_OPAQUE =? DT_FLOAT)) with false.
  change (DT_OPAQUE =? DT_STRING) with false. change (DT_OPAQUE =? DT_REFERENCE) with false.
  change (DT_OPAQUE =? DT_OPAQUE) with true. cbv iota.
  set (P := pad8 (blen props)) in *.
  assert (WP : wrap32 P = P) by (unfold wrap32; apply N.mod_small; lia). rewrite WP.
  rewrite dt_header_bytes by (try reflexivity; lia).
  assert (P3 : P < 256 ^ N.of_nat 3) by (rewrite <- pow3; lia).
  match goal with H : s < 4294967296 |- _ => rewrite pow4' in H end.
  unfold spec_dec_datatype. cbn [p_dtype p_byte obind]. pul. pul.
  change (N.land (DT_OPAQUE + 16 * 1) 15) with 5. change (N.shiftr (DT_OPAQUE + 16 * 1) 4) with 1.
  cbn [N.leb N.compare Pos.compare Pos.compare_cont andb guard obind]. rewrite S0. cbn [guard obind N.eqb Pos.eqb].
  assert (G : (P <? 256) && (P mod 8 =? 0) = true).
  { apply andb_true_iff; split; [apply N.ltb_lt; exact B | apply N.eqb_eq; apply pad8_mod8]. }
  rewrite G. cbn [guard obind].
  assert (PG : blen props <= P) by apply pad8_ge.
  let Q := fresh "Q" in pose proof p_take_all as Q; bnorm; rewrite Q; [clear Q | ].
  - cbn [obind p_end]. reflexivity.
  - rewrite app_length, length_zeros. unfold blen in *. lia.
Qed.
