(* Lemmas for C11, group 1 (dataspace, layout v3, symbol-table message). *)
From HV Require Import Base.Prelude Base.Outcome Base.Bytes Model.CodecMsg.

Lemma blen_enc_dims8 l : blen (enc_dims8 l) = 8 * blen l.
Proof.
  induction l as [|d r IH]; [reflexivity|].
  unfold enc_dims8 in *. cbn [map concat]. rewrite blen_app, IH, blen_le, blen_cons. blia.
Qed.

Lemma u64_ok_cons d r : u64_ok (d :: r) = true -> d < 256 ^ N.of_nat 8 /\ u64_ok r = true.
Proof.
  unfold u64_ok. cbn [forallb]. intros H. apply andb_true_iff in H as [H1 H2]. split; auto.
  apply N.ltb_lt in H1. exact H1.
Qed.

Lemma read_dims8_app ds : forall pre suf off,
  off = blen pre -> u64_ok ds = true ->
  read_dims (pre ++ enc_dims8 ds ++ suf) 8 (length ds) off = Ok (ds, off + 8 * blen ds).
Proof.
  induction ds as [|d r IH]; intros pre suf off Hoff Hok.
  - cbn [length read_dims]. f_equal. f_equal. unfold blen; cbn [length]; blia.
  - apply u64_ok_cons in Hok as [Hd Hr].
    cbn [length read_dims]. unfold enc_dims8. cbn [map concat]. fold (enc_dims8 r).
    rewrite <- (app_assoc (le 8 d)).
    replace (blen (pre ++ le 8 d ++ enc_dims8 r ++ suf) <? off + 8) with false
      by (symmetry; apply N.ltb_ge; rewrite !blen_app, blen_le; blia).
    change 8 with (N.of_nat 8) at 2.
    rewrite rd_le_app by auto. cbn [obind].
    rewrite (app_assoc pre (le 8 d)).
    rewrite IH; auto.
    + cbn [obind]. f_equal. f_equal. rewrite blen_cons. blia.
    + rewrite blen_app, blen_le. blia.
Qed.

Lemma wf_dataspace_inv x : wf_dataspace x = true ->
  (1 <= length (ds_dims x) <= 255)%nat /\
  (ds_maxdims x = [] \/ length (ds_maxdims x) = length (ds_dims x)) /\
  u64_ok (ds_dims x) = true /\ u64_ok (ds_maxdims x) = true.
Proof.
  unfold wf_dataspace, encok_dataspace. intros H.
  apply andb_true_iff in H as [H Hm]. apply andb_true_iff in H as [H Hd].
  apply andb_true_iff in H as [H Hr]. apply andb_true_iff in H as [Hne Hmx].
  apply negb_true_iff, Nat.eqb_neq in Hne. apply Nat.leb_le in Hr.
  repeat split; auto; try blia.
  apply orb_true_iff in Hmx as [E|E]; apply Nat.eqb_eq in E; auto.
  left. destruct (ds_maxdims x); [auto|discriminate].
Qed.

Lemma dataspace_len x : length (enc_dataspace x) = N.to_nat (size_dataspace x).
Proof.
  unfold enc_dataspace, size_dataspace.
  cbn [app length]. rewrite !app_length, length_zeros.
  pose proof (blen_enc_dims8 (ds_dims x)) as H1. pose proof (blen_enc_dims8 (ds_maxdims x)) as H2.
  unfold blen in *. blia.
Qed.

Lemma dataspace_roundtrip x : wf_dataspace x = true ->
  dec_dataspace (enc_dataspace x) = Ok (proj_dataspace x).
Proof.
  intros Hwf. apply wf_dataspace_inv in Hwf as (Hrank & Hmax & Hd & Hm).
  destruct x as [dims mx]; cbn [ds_dims ds_maxdims] in *.
  unfold dec_dataspace.
  assert (Hlen : blen (enc_dataspace {| ds_dims := dims; ds_maxdims := mx |})
                 = 8 + 8 * blen dims + 8 * blen mx).
  { unfold blen at 1. rewrite dataspace_len. unfold size_dataspace. cbn [ds_dims ds_maxdims]. blia. }
  rewrite Hlen.
  replace (8 + 8 * blen dims + 8 * blen mx <? 3) with false by (symmetry; apply N.ltb_ge; blia).
  unfold enc_dataspace; cbn [ds_dims ds_maxdims].
  assert (Hw : wrap8 (blen dims) = blen dims) by (unfold wrap8, blen; apply N.mod_small; blia).
  rewrite Hw.
  cbn [app zeros repeat]. rewrite index0, index1, index2. cbn [obind].
  cbn [N.eqb Pos.eqb negb andb]. cbn [obind]. cbv iota.
  replace (blen dims =? 0) with false by (symmetry; apply N.eqb_neq; unfold blen; blia).
  set (flags := match mx with [] => 0 | _ => 1 end).
  change (1 :: blen dims :: flags :: 0 :: 0 :: 0 :: 0 :: 0 :: enc_dims8 dims ++ enc_dims8 mx)
    with ([1; blen dims; flags; 0; 0; 0; 0; 0] ++ enc_dims8 dims ++ enc_dims8 mx).
  assert (Hn : N.to_nat (blen dims) = length dims) by (unfold blen; blia).
  rewrite Hn.
  destruct Hmax as [-> | Hml].
  - (* no max dims *)
    subst flags. cbn [N.testbit].
    replace (blen (@nil N)) with 0 by reflexivity.
    replace (8 + blen dims * 8 <=? 8 + 8 * blen dims + 8 * 0) with true by (symmetry; apply N.leb_le; blia).
    cbn [obind].
    rewrite read_dims8_app by auto. cbn [obind]. reflexivity.
  - destruct mx as [|m0 mr]; [cbn [length] in Hml; blia|].
    subst flags. change (N.testbit 1 0) with true. cbv iota.
    replace (8 + blen dims * 2 * 8 <=? 8 + 8 * blen dims + 8 * blen (m0 :: mr)) with true
      by (symmetry; apply N.leb_le; unfold blen; rewrite Hml; blia).
    cbn [obind].
    rewrite read_dims8_app by auto. cbn [obind].
    rewrite app_assoc. rewrite <- (app_nil_r (enc_dims8 (m0 :: mr))).
    rewrite <- Hml.
    rewrite read_dims8_app; auto.
    rewrite blen_app, blen_enc_dims8. unfold blen; cbn [length]; blia.
Qed.

Lemma dataspace_blen x : blen (enc_dataspace x) = size_dataspace x.
Proof. unfold blen. rewrite dataspace_len. blia. Qed.

(* the length of an encoding is never in the region where the decoder would fall back to 4-byte extents *)
Lemma dataspace_not_ambiguous x : wf_dataspace x = true ->
  ambiguous_dataspace_len (blen (ds_dims x)) (negb (length (ds_maxdims x) =? 0)%nat) (blen (enc_dataspace x)) = false.
Proof.
  intros Hwf. apply wf_dataspace_inv in Hwf as (Hrank & Hmax & Hd & Hm).
  unfold ambiguous_dataspace_len. rewrite dataspace_blen. unfold size_dataspace.
  apply andb_false_iff. right. apply N.ltb_ge.
  destruct Hmax as [E | Hml].
  - rewrite E. cbn [length Nat.eqb negb]. unfold blen; cbn [length]. blia.
  - destruct (ds_maxdims x) as [|m0 mr] eqn:E; [cbn [length] in Hml; blia|].
    cbn [length Nat.eqb negb]. unfold blen. rewrite <- Hml. cbn [length]. blia.
Qed.

(* ------------------------------------------------------------------ layout *)

Definition enc_dimsk (k : nat) (l : list N) : bytes := concat (map (le k) l).
Definition fits (k : nat) (l : list N) : Prop := Forall (fun d => d < 256 ^ N.of_nat k) l.

Lemma blen_enc_dimsk k l : blen (enc_dimsk k l) = N.of_nat k * blen l.
Proof.
  induction l as [|d r IH]; [unfold enc_dimsk, blen; cbn [map concat length]; blia|].
  unfold enc_dimsk in *. cbn [map concat]. rewrite blen_app, IH, blen_le, blen_cons. blia.
Qed.

Lemma read_dimsk_app k ds : forall pre suf off,
  off = blen pre -> fits k ds ->
  read_dims (pre ++ enc_dimsk k ds ++ suf) (N.of_nat k) (length ds) off = Ok (ds, off + N.of_nat k * blen ds).
Proof.
  induction ds as [|d r IH]; intros pre suf off Hoff Hok.
  - cbn [length read_dims]. f_equal. f_equal. unfold blen; cbn [length]; blia.
  - inversion Hok as [|? ? Hd Hr]; subst.
    cbn [length read_dims]. unfold enc_dimsk. cbn [map concat]. fold (enc_dimsk k r).
    rewrite <- (app_assoc (le k d)).
    replace (blen (pre ++ le k d ++ enc_dimsk k r ++ suf) <? blen pre + N.of_nat k) with false
      by (symmetry; apply N.ltb_ge; rewrite !blen_app, blen_le; blia).
    rewrite rd_le_app by auto. cbn [obind].
    rewrite (app_assoc pre (le k d)).
    rewrite IH; auto.
    + cbn [obind]. f_equal. f_equal. rewrite blen_cons. blia.
    + rewrite blen_app, blen_le. blia.
Qed.

Lemma u32_ok_fits cd : u32_ok cd = true -> fits 4 cd.
Proof.
  unfold u32_ok, fits. intros H. apply Forall_forall. intros d Hin.
  rewrite forallb_forall in H. apply H in Hin. apply N.ltb_lt in Hin. exact Hin.
Qed.

Lemma enc_chunk_dims cd : u32_ok cd = true ->
  concat (map (fun d => le 4 (wrap32 d)) cd) = enc_dimsk 4 cd.
Proof.
  intros H. unfold enc_dimsk. f_equal. apply map_ext_in. intros d Hin.
  unfold u32_ok in H. rewrite forallb_forall in H. apply H in Hin. apply N.ltb_lt in Hin.
  unfold wrap32. rewrite N.mod_small; auto.
Qed.

Definition size1248 (s : N) : Prop := s = 1 \/ s = 2 \/ s = 4 \/ s = 8.

Lemma size1248_of_bool s : (s =? 1) || (s =? 2) || (s =? 4) || (s =? 8) = true -> size1248 s.
Proof.
  intros H. unfold size1248.
  apply orb_true_iff in H as [H|H]; [|apply N.eqb_eq in H; auto].
  apply orb_true_iff in H as [H|H]; [|apply N.eqb_eq in H; auto].
  apply orb_true_iff in H as [H|H]; apply N.eqb_eq in H; auto.
Qed.

Lemma blen_write_uint v s b : size1248 s -> blen (write_uint v s b) = s.
Proof.
  intros [-> | [-> | [-> | ->]]]; unfold write_uint; cbn [N.eqb Pos.eqb orb];
    destruct b; rewrite ?blen_be, ?blen_le; reflexivity.
Qed.

Lemma read_write_uint v s b suf : size1248 s -> v < 256 ^ s ->
  read_uint (write_uint v s b ++ suf) s b = Ok v.
Proof.
  intros Hs Hv. unfold read_uint.
  replace (blen (write_uint v s b ++ suf) <? s) with false
    by (symmetry; apply N.ltb_ge; rewrite blen_app, blen_write_uint by auto; blia).
  unfold write_uint.
  destruct Hs as [-> | [-> | [-> | ->]]]; cbn [N.eqb Pos.eqb orb]; destruct b.
  - apply (rd_be_app [] suf 0 1%nat v); [reflexivity | exact Hv].
  - apply (rd_le_app [] suf 0 1%nat v); [reflexivity | exact Hv].
  - apply (rd_be_app [] suf 0 2%nat v); [reflexivity | exact Hv].
  - apply (rd_le_app [] suf 0 2%nat v); [reflexivity | exact Hv].
  - apply (rd_be_app [] suf 0 4%nat v); [reflexivity | exact Hv].
  - apply (rd_le_app [] suf 0 4%nat v); [reflexivity | exact Hv].
  - apply (rd_be_app [] suf 0 8%nat v); [reflexivity | exact Hv].
  - apply (rd_le_app [] suf 0 8%nat v); [reflexivity | exact Hv].
Qed.

Lemma layout_blen sb x : wf_layout sb x = true -> blen (enc_layout sb x) = size_layout sb x.
Proof.
  unfold wf_layout, sb_ok. intros H.
  apply andb_true_iff in H as [H Hx]. apply andb_true_iff in H as [Hsb Hok].
  apply andb_true_iff in Hsb as [Hsb Hv]. apply andb_true_iff in Hsb as [Ho Hl].
  apply size1248_of_bool in Ho, Hl.
  destruct x as [size addr | cd addr]; unfold enc_layout, size_layout.
  - rewrite !blen_app, !blen_write_uint by auto. unfold blen; cbn [length]. blia.
  - unfold encok_layout in Hok. apply andb_true_iff in Hok as [_ Hu].
    rewrite enc_chunk_dims by auto.
    rewrite !blen_app, blen_write_uint, blen_enc_dimsk by auto. unfold blen; cbn [length]. blia.
Qed.

Lemma layout_roundtrip sb x : wf_layout sb x = true ->
  dec_layout sb (enc_layout sb x) = Ok (proj_layout sb x).
Proof.
  intros Hwf. pose proof (layout_blen sb x Hwf) as Hlen.
  unfold wf_layout, sb_ok in Hwf.
  apply andb_true_iff in Hwf as [H Hx]. apply andb_true_iff in H as [Hsb Hok].
  apply andb_true_iff in Hsb as [Hsb Hv]. apply andb_true_iff in Hsb as [Ho Hl].
  apply size1248_of_bool in Ho, Hl. apply N.ltb_lt in Hv.
  unfold dec_layout. rewrite Hlen.
  destruct x as [size addr | cd addr]; unfold size_layout, proj_layout.
  - apply andb_true_iff in Hx as [Ha Hs]. apply N.ltb_lt in Ha, Hs.
    assert (Ho' : 1 <= sb_offsize sb) by (destruct Ho as [-> | [-> | [-> | ->]]]; blia).
    replace (2 + sb_offsize sb + sb_lensize sb <? 1) with false by (symmetry; apply N.ltb_ge; blia).
    replace (2 + sb_offsize sb + sb_lensize sb <? 2) with false by (symmetry; apply N.ltb_ge; blia).
    rewrite N.ltb_irrefl.
    unfold enc_layout. cbn [app]. rewrite index0, index1. cbn [obind].
    cbn [N.ltb N.compare Pos.compare Pos.compare_cont orb N.eqb Pos.eqb].
    change (3 :: 1 :: write_uint addr (sb_offsize sb) (sb_bigendian sb) ++ write_uint size (sb_lensize sb) (sb_bigendian sb))
      with ([3; 1] ++ write_uint addr (sb_offsize sb) (sb_bigendian sb) ++ write_uint size (sb_lensize sb) (sb_bigendian sb)).
    rewrite slice_from_app by reflexivity. cbn [obind].
    rewrite read_write_uint by auto. cbn [obind].
    rewrite app_assoc. rewrite slice_from_app
      by (rewrite blen_app, blen_write_uint by auto; reflexivity).
    cbn [obind]. rewrite <- (app_nil_r (write_uint size _ _)).
    rewrite read_write_uint by auto. reflexivity.
  - apply N.ltb_lt in Hx. unfold encok_layout in Hok.
    apply andb_true_iff in Hok as [Hok Hu]. apply andb_true_iff in Hok as [Hne Hle].
    apply negb_true_iff, Nat.eqb_neq in Hne. apply Nat.leb_le in Hle.
    replace (3 + sb_offsize sb + 4 * blen cd <? 1) with false by (symmetry; apply N.ltb_ge; blia).
    replace (3 + sb_offsize sb + 4 * blen cd <? 2) with false by (symmetry; apply N.ltb_ge; blia).
    replace (3 + sb_offsize sb + 4 * blen cd <? 3) with false by (symmetry; apply N.ltb_ge; blia).
    replace (3 + sb_offsize sb + 4 * blen cd <? 3 + sb_offsize sb) with false by (symmetry; apply N.ltb_ge; blia).
    unfold enc_layout. rewrite enc_chunk_dims by auto.
    assert (Hw : wrap8 (blen cd) = blen cd) by (unfold wrap8, blen; apply N.mod_small; blia).
    rewrite Hw.
    cbn [app]. rewrite index0, index1, index2. cbn [obind].
    cbn [N.ltb N.compare Pos.compare Pos.compare_cont orb N.eqb Pos.eqb].
    change (3 :: 2 :: blen cd :: write_uint addr (sb_offsize sb) (sb_bigendian sb) ++ enc_dimsk 4 cd)
      with ([3; 2; blen cd] ++ write_uint addr (sb_offsize sb) (sb_bigendian sb) ++ enc_dimsk 4 cd).
    rewrite slice_from_app by reflexivity. cbn [obind].
    rewrite read_write_uint by auto. cbn [obind].
    unfold chunk_key_size. replace (4 <=? sb_version sb) with false by (symmetry; apply N.leb_gt; blia).
    rewrite app_assoc. rewrite <- (app_nil_r (enc_dimsk 4 cd)).
    replace (N.to_nat (blen cd)) with (length cd) by (unfold blen; blia).
    change 4 with (N.of_nat 4) at 1.
    rewrite read_dimsk_app.
    + cbn [obind]. reflexivity.
    + rewrite blen_app, blen_write_uint by auto. reflexivity.
    + apply u32_ok_fits; auto.
Qed.
