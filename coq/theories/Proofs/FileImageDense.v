(* C02 at byte level, dense storage: where the blocks of image_v2_dense sit, the dataset's header with the Attribute Info message as
   the reader returns it, and the DENSE stage: on the image, Dataset.Attributes (api_attributes) walks Attribute Info -> B-tree v2
   header -> leaf records -> fractal heap header -> heap objects and returns exactly the written attributes, in the order of the
   leaf records (dense_order: ascending name hash). *)
From HV Require Import Base.Prelude Base.Outcome Base.Bytes Base.Crc32 Model.IOProg Proofs.IOProg Model.IOProgReader.
From HV Require Import Model.CodecSuper Model.CodecOhdr Model.CodecMsg Model.CodecType Model.CodecLink Model.GroupWire Model.CodecAttr.
From HV Require Import Proofs.CodecSuper Proofs.CodecOhdr Proofs.CodecMsg Proofs.CodecType Proofs.CodecAttr Proofs.Lookup3.
From HV Require Import Model.FileImage Model.FileImageAttr Model.FileImageDense Proofs.FileImage Proofs.FileImageOhdr Proofs.FileImageData
  Proofs.FileImageAttrOhdr Proofs.FileImageAttr Proofs.FileImageDenseRead.
From Coq Require Import Sorting.Permutation Sorting.Sorted.

(* ------------------------------------------------------------------ records = the records of the (attribute, id) pairs *)
Definition rec_of_pair (p : dattr * bytes) : MB.rec := dense_rec (fst p) (snd p).

Lemma ins_hash_recs : forall l x, map rec_of_pair (ins_hash l x) = MB.insert_sorted (map rec_of_pair l) (rec_of_pair x).
Proof.
  induction l as [|y t IH]; intros x; rewrite PB.insert_sorted_rec; [reflexivity|].
  cbn [map ins_hash]. change (fst (rec_of_pair x)) with (pair_hash x). change (fst (rec_of_pair y)) with (pair_hash y).
  destruct (pair_hash x <=? pair_hash y); [reflexivity|]. cbn [map]. now rewrite IH.
Qed.
Lemma fold_ins_hash_recs : forall ps acc,
  map rec_of_pair (fold_left ins_hash ps acc) = fold_left MB.insert_sorted (map rec_of_pair ps) (map rec_of_pair acc).
Proof.
  induction ps as [|p ps IH]; intros acc; [reflexivity|]. cbn [fold_left map]. rewrite IH, ins_hash_recs. reflexivity.
Qed.
Lemma recs_of_pairs attrs : dense_recs attrs = map rec_of_pair (dense_pairs attrs).
Proof. unfold dense_recs, dense_pairs. rewrite fold_ins_hash_recs. reflexivity. Qed.

Lemma ins_hash_perm l x : Permutation (ins_hash l x) (x :: l).
Proof.
  induction l as [|y t IH]; cbn [ins_hash]; [reflexivity|].
  destruct (pair_hash x <=? pair_hash y); [reflexivity|].
  etransitivity; [apply perm_skip; exact IH|apply perm_swap].
Qed.
Lemma fold_ins_hash_perm : forall ps acc, Permutation (fold_left ins_hash ps acc) (acc ++ ps).
Proof.
  induction ps as [|p ps IH]; intros acc; cbn [fold_left]; [now rewrite app_nil_r|].
  etransitivity; [apply IH|]. etransitivity; [apply Permutation_app_tail; apply ins_hash_perm|].
  cbn [app]. apply Permutation_middle.
Qed.
Lemma dense_pairs_perm attrs : Permutation (dense_pairs attrs) (combine attrs (heap_ids 0 (map dattr_bytes attrs))).
Proof. exact (fold_ins_hash_perm _ []). Qed.

Lemma length_heap_ids : forall l off, length (heap_ids off l) = length l.
Proof. induction l as [|m r IH]; intros off; cbn [heap_ids length]; [reflexivity|]. now rewrite IH. Qed.
Lemma map_fst_combine_ids attrs off : map fst (combine attrs (heap_ids off (map dattr_bytes attrs))) = attrs.
Proof.
  revert off. induction attrs as [|a r IH]; intros off; cbn [map combine heap_ids fst]; [reflexivity|]. now rewrite IH.
Qed.
(* the listing order is a permutation of the written attributes *)
Lemma dense_order_perm attrs : Permutation (dense_order attrs) attrs.
Proof.
  unfold dense_order. rewrite <- (map_fst_combine_ids attrs 0) at 2. apply Permutation_map. apply dense_pairs_perm.
Qed.
Lemma dense_pairs_length attrs : length (dense_pairs attrs) = length attrs.
Proof.
  rewrite (Permutation_length (dense_pairs_perm attrs)), combine_length, length_heap_ids, map_length. apply Nat.min_id.
Qed.

(* ascending name hash; strictly when the hashes are pairwise distinct *)
Lemma dense_order_sorted attrs : StronglySorted N.le (dattr_hashes (dense_order attrs)).
Proof.
  assert (E : dattr_hashes (dense_order attrs) = PB.hashes (dense_recs attrs)).
  { rewrite recs_of_pairs. unfold dattr_hashes, dense_order, PB.hashes. rewrite !map_map. reflexivity. }
  rewrite E. unfold dense_recs.
  set (rs := map _ _). generalize rs. clear.
  assert (G : forall (rs acc : list MB.rec), PB.sorted_h acc -> PB.sorted_h (fold_left MB.insert_sorted rs acc)).
  { induction rs as [|r rs IH]; intros acc H; cbn [fold_left]; [exact H|]. apply IH. now apply PB.insert_sorted_sorted. }
  intros rs. apply G. constructor.
Qed.

(* every (attribute, id) pair names the byte range of the attribute's message among the heap objects *)
Lemma pairs_split : forall l (pre : bytes) a id, In (a, id) (combine l (heap_ids (blen pre) (map dattr_bytes l))) ->
  exists x y, pre ++ concat (map dattr_bytes l) = x ++ dattr_bytes a ++ y /\ id = MF.encode_id 3 (blen x) (blen (dattr_bytes a)).
Proof.
  induction l as [|a0 r IH]; intros pre a id H; cbn [map heap_ids combine In concat] in *; [contradiction|].
  destruct H as [H|H].
  - injection H as <- <-. exists pre, (concat (map dattr_bytes r)). split; reflexivity.
  - replace (blen pre + blen (dattr_bytes a0)) with (blen (pre ++ dattr_bytes a0)) in H by (rewrite blen_app; blia).
    destruct (IH _ _ _ H) as (x & y & E & Ei). exists x, y. split; [|exact Ei]. rewrite <- E, <- app_assoc. reflexivity.
Qed.

Section Image.
Variable name : bytes.
Variables class size cbf : N.
Variable dims : list N.
Variable data : bytes.
Variable attrs : list dattr.
Hypothesis Hname : link_name_ok name = true.
Hypothesis Hdt : basic_dtype class size cbf = true.
Hypothesis Hdims : dims_ok dims = true.
Hypothesis Hlen : blen data = total_elems dims * size.
Hypothesis Hbound : blen data < 4294967296.
(* every attribute message is one the encoder accepts and the decoder inverts (Proofs/CodecAttr.v) *)
Hypothesis Hwf : Forall (fun a => wf_attribute (dattr_msg a) = true) attrs.
(* the header with the Attribute Info message fits its chunk; the messages fit the direct block; the records fit the leaf *)
Hypothesis Hdense : dense_fits class size cbf dims data = true.
Hypothesis Hheap : heap_fits attrs = true.
Hypothesis Hleaf : leaf_fits attrs = true.

Local Notation f := (image_v2_dense name class size cbf dims data attrs).
Local Notation da := (dset_addr data).
Local Notation dso := (dset_ohdr class size cbf dims).
Local Notation dho := (dense_ohdr class size cbf dims data).
Local Notation dsbd := (dset_block_dense class size cbf dims data attrs).
Local Notation blocks := (blocks_v2_dense name class size cbf dims data attrs).
Local Notation FH := (FH_ADDR data).
Local Notation DB := (DB_ADDR data).
Local Notation LEAF := (LEAF_ADDR data).
Local Notation BTH := (BTH_ADDR data).
Local Notation fbt := (final_bt2 data attrs).
Local Notation fhp := (final_fheap data attrs).
Local Notation fdb := (final_dblock data attrs).

(* ------------------------------------------------------------------ the compact phase: the old header fits its reserve *)
Lemma compact_count_inv : forall l ms c, chunk_size_v2 ms <= 255 ->
  exists j, compact_count ms c l = (c + j)%nat /\ chunk_size_v2 (ms ++ map amsg (firstn j l)) <= 255.
Proof using. clear.
  induction l as [|a r IH]; intros ms c H; cbn [compact_count].
  - exists 0%nat. split; [blia|]. cbn [firstn map]. now rewrite app_nil_r.
  - destruct ((c <? MAX_COMPACT)%nat && (chunk_size_v2 (ms ++ [amsg a]) <=? 255)) eqn:E.
    + apply andb_true_iff in E as [_ E]. apply N.leb_le in E.
      destruct (IH (ms ++ [amsg a]) (S c) E) as (j & Ej & Hj). exists (S j). split; [blia|].
      cbn [firstn map]. rewrite <- app_assoc in Hj. exact Hj.
    + exists 0%nat. split; [blia|]. cbn [firstn map]. now rewrite app_nil_r.
Qed.
Lemma compact_chunk_bound : chunk_size_v2 (oh_msgs (compact_ohdr class size cbf dims attrs)) <= 255.
Proof using Hdt Hdims Hlen Hbound. clear - Hdt Hdims Hlen Hbound.
  unfold compact_ohdr, n_compact. cbn [oh_msgs].
  assert (Hb : chunk_size_v2 (base_msgs class size cbf dims) <= 255).
  { pose proof (dso_chunk_bound class size cbf dims data Hdt Hdims Hlen Hbound). unfold base_msgs. blia. }
  destruct (compact_count_inv attrs _ 0%nat Hb) as (j & Ej & Hj). rewrite Ej. exact Hj.
Qed.
Lemma compact_block_len : blen (compact_block class size cbf dims attrs) = OHDR_RESERVE.
Proof using Hdt Hdims Hlen Hbound. clear - Hdt Hdims Hlen Hbound.
  unfold compact_block. rewrite blen_app, blen_zeros, ohdr_v2_blen.
  pose proof compact_chunk_bound. unfold size_ohdr_v2, OHDR_RESERVE in *. blia.
Qed.

(* ------------------------------------------------------------------ the header with the Attribute Info message *)
Lemma ainfo_bytes : enc_attrinfo SBP (dense_info data) = [0; 0] ++ le 8 FH ++ le 8 BTH.
Proof using. clear. reflexivity. Qed.
Lemma dho_chunk : chunk_size_v2 (oh_msgs dho) = chunk_size_v2 (oh_msgs dso) + 22.
Proof using. clear.
  unfold dense_ohdr, base_msgs, dset_ohdr. cbn [oh_msgs chunk_size_v2 fold_right hm_data app]. rewrite ainfo_bytes.
  rewrite !blen_app, !blen_le. change (blen [0; 0]) with 2. blia.
Qed.
Lemma dho_chunk_bound : chunk_size_v2 (oh_msgs dho) <= 255.
Proof using Hdense. clear - Hdense. unfold dense_fits in Hdense. now apply N.leb_le in Hdense. Qed.
Lemma dho_ok : ohdr_ok2 dho.
Proof using Hdt Hdims Hlen Hbound Hdense. clear - Hdt Hdims Hlen Hbound Hdense.
  unfold ohdr_ok2. split; [reflexivity|]. split; [reflexivity|]. split; [exact dho_chunk_bound|].
  split; [discriminate|].
  unfold dense_ohdr, base_msgs, dset_ohdr. cbn [oh_msgs app]. repeat constructor; cbn [hm_type hm_data]; unfold MSG_CONT; try blia; try discriminate.
  - rewrite (dt_msg_len class size cbf Hdt). destruct (class =? DT_FIXED); blia.
  - rewrite ds_msg_len; blia.
Qed.
Lemma dsbd_len : blen dsbd = OHDR_RESERVE.
Proof using Hdt Hdims Hlen Hbound Hdense. clear - Hdt Hdims Hlen Hbound Hdense.
  unfold dset_block_dense. rewrite blen_app. unfold blen at 2. rewrite skipn_length.
  pose proof compact_block_len as L. unfold blen in L.
  pose proof (ohdr_v2_blen dho) as L2. unfold blen in L2.
  pose proof dho_chunk_bound. unfold size_ohdr_v2, OHDR_RESERVE in *. unfold blen. blia.
Qed.

(* ------------------------------------------------------------------ heap objects and records *)
Lemma objs_bound : objs_total attrs <= 65517.
Proof using Hheap. clear - Hheap. unfold heap_fits in Hheap. apply andb_true_iff in Hheap as [H _]. apply N.leb_le in H. exact H. Qed.
Lemma nattrs_bound : N.of_nat (length attrs) <= 371.
Proof using Hleaf. clear - Hleaf. unfold leaf_fits in Hleaf. apply N.leb_le in Hleaf. exact Hleaf. Qed.

Lemma wf_in a : In a attrs -> wf_attribute (dattr_msg a) = true.
Proof using Hwf. clear - Hwf. intros H. rewrite Forall_forall in Hwf. now apply Hwf. Qed.
Lemma msg_len_ge a : In a attrs -> 11 <= blen (dattr_bytes a).
Proof using Hwf. clear - Hwf. intros H. pose proof (wf_in a H) as W. destruct a as [[[aname adt] adims] adata].
  exact (am_len_ge aname adt adims adata W).
Qed.

(* a pair of the final index: its attribute was written, its id names the range of the attribute's message *)
Lemma pair_good p : In p (dense_pairs attrs) ->
  In (fst p) attrs /\
  exists x y, concat (objs attrs) = x ++ dattr_bytes (fst p) ++ y /\ snd p = MF.encode_id 3 (blen x) (blen (dattr_bytes (fst p))).
Proof using. clear.
  intros H. apply (Permutation_in _ (dense_pairs_perm attrs)) in H. destruct p as [a id]. cbn [fst snd]. split.
  - exact (in_combine_l _ _ _ _ H).
  - change 0 with (blen (@nil N)) in H. destruct (pairs_split attrs [] a id H) as (x & y & E & Ei). exists x, y. split; [exact E|exact Ei].
Qed.

Lemma encode_id_len off n : length (MF.encode_id 3 off n) = 8%nat.
Proof using. clear. unfold MF.encode_id. change (N.to_nat 3) with 3%nat. cbn [length]. rewrite !app_length, !length_le. reflexivity. Qed.

Lemma recs_wf : Forall PB.rec_wf (final_recs attrs).
Proof using. clear.
  unfold final_recs. rewrite recs_of_pairs. apply Forall_forall. intros r Hr. apply in_map_iff in Hr as (p & <- & Hp).
  destruct (pair_good p Hp) as (_ & x & y & _ & Ei). split.
  - cbn [rec_of_pair dense_rec fst]. apply jenkins_lt.
  - cbn [rec_of_pair dense_rec snd]. rewrite Ei, firstn_length, encode_id_len. reflexivity.
Qed.
Lemma recs_len : length (final_recs attrs) = length attrs.
Proof using. clear. unfold final_recs. rewrite recs_of_pairs, map_length. apply dense_pairs_length. Qed.

(* ------------------------------------------------------------------ block lengths *)
Lemma fh_block_len : blen (MF.encode_header fhp) = 146.
Proof using. clear. exact (PF.len_encode_header fhp). Qed.
Lemma db_block_len : blen (MF.encode_dblock fdb) = 65536.
Proof using Hheap. clear - Hheap.
  apply (PF.len_encode_dblock fdb); cbn [final_dblock MF.db_size MF.db_objs]; unfold HEAP_BLOCK; [blia|].
  pose proof objs_bound. unfold objs_total in *. change (MF.len (concat (objs attrs))) with (blen (concat (objs attrs))). blia.
Qed.
Lemma leaf_enc_len : blen (MB.encode_leaf fbt) = 10 + N.of_nat (length attrs) * 11.
Proof using. clear.
  rewrite blen_encode_leaf by (cbn [final_bt2 MB.leaf_recs]; exact recs_wf).
  cbn [final_bt2 MB.leaf_recs]. rewrite recs_len. blia.
Qed.
Lemma leaf_block_len : blen (leaf_block data attrs) = 4096.
Proof using Hleaf. clear - Hleaf.
  unfold leaf_block. rewrite blen_app, blen_zeros. pose proof leaf_enc_len. pose proof nattrs_bound. unfold BT2_NODE. blia.
Qed.
Lemma bth_block_len : blen (MB.encode_header 8 fbt) = 38.
Proof using. clear.
  assert (E : length (MB.encode_header 8 fbt) = MB.hdr_size 8) by (apply PB.encode_header_length; unfold PB.osz_ok; blia).
  unfold blen. bnorm. rewrite E. reflexivity.
Qed.
Lemma sbd_block_len : blen (enc_superblock (final_sb_dense data)) = 48.
Proof using. clear. reflexivity. Qed.

(* ------------------------------------------------------------------ where the blocks sit *)
Lemma PD_sb_rest : placed f 0 (enc_superblock (final_sb_dense data) ++ concat (skipn 1 blocks)).
Proof using. clear. exact (place_all_placed_rest blocks 0 ltac:(cbn; blia)). Qed.
Lemma PD_heap : placed f 48 (heap_image (final_heap name) HEAP_ADDR).
Proof using. clear.
  pose proof (place_all_placed blocks 1 _ eq_refl) as H. cbn [block_addr blocks_v2_dense] in H.
  rewrite sbd_block_len in H. exact H.
Qed.
Lemma PD_snod : placed f 336 (snod_block data).
Proof using Hname. clear - Hname.
  pose proof (place_all_placed blocks 2 _ eq_refl) as H. cbn [block_addr blocks_v2_dense] in H.
  rewrite sbd_block_len, (heap_block_len name Hname) in H. exact H.
Qed.
Lemma PD_bt : placed f 1624 (bt_write_at final_btnode 8 GROUP_K).
Proof using Hname. clear - Hname.
  pose proof (place_all_placed blocks 3 _ eq_refl) as H. cbn [block_addr blocks_v2_dense] in H.
  rewrite sbd_block_len, (heap_block_len name Hname), snod_block_len in H. exact H.
Qed.
Lemma PD_root_rest : placed f 2168 (enc_ohdr_v2 root_ohdr ++ concat (skipn 5 blocks)).
Proof using Hname. clear - Hname.
  pose proof (place_all_placed_rest blocks 4 ltac:(cbn; blia)) as H.
  cbn [block_addr blocks_v2_dense] in H.
  rewrite sbd_block_len, (heap_block_len name Hname), snod_block_len, bt_block_len in H. exact H.
Qed.
Lemma PD_data : placed f 2195 data.
Proof using Hname. clear - Hname.
  pose proof (place_all_placed blocks 5 _ eq_refl) as H. cbn [block_addr blocks_v2_dense] in H.
  rewrite sbd_block_len, (heap_block_len name Hname), snod_block_len, bt_block_len, root_block_len in H. exact H.
Qed.
Lemma PD_dset : placed f da dsbd.
Proof using Hname. clear - Hname.
  pose proof (place_all_placed blocks 6 _ eq_refl) as H. cbn [block_addr blocks_v2_dense] in H.
  rewrite sbd_block_len, (heap_block_len name Hname), snod_block_len, bt_block_len, root_block_len in H.
  match type of H with placed _ ?X _ => replace da with X by (unfold da, dset_addr; change DATA_ADDR with 2195; blia) end.
  exact H.
Qed.
Lemma PD_fh : placed f FH (MF.encode_header fhp).
Proof using Hname Hdt Hdims Hlen Hbound Hdense. clear - Hname Hdt Hdims Hlen Hbound Hdense.
  pose proof (place_all_placed blocks 7 _ eq_refl) as H. cbn [block_addr blocks_v2_dense] in H.
  rewrite sbd_block_len, (heap_block_len name Hname), snod_block_len, bt_block_len, root_block_len, dsbd_len in H.
  match type of H with placed _ ?X _ => replace FH with X
    by (unfold FH_ADDR, eof_addr, dset_addr, OHDR_RESERVE; change DATA_ADDR with 2195; blia) end.
  exact H.
Qed.
Lemma PD_db : placed f DB (MF.encode_dblock fdb).
Proof using Hname Hdt Hdims Hlen Hbound Hdense. clear - Hname Hdt Hdims Hlen Hbound Hdense.
  pose proof (place_all_placed blocks 8 _ eq_refl) as H. cbn [block_addr blocks_v2_dense] in H.
  rewrite sbd_block_len, (heap_block_len name Hname), snod_block_len, bt_block_len, root_block_len, dsbd_len, fh_block_len in H.
  match type of H with placed _ ?X _ => replace DB with X
    by (unfold DB_ADDR, FH_ADDR, eof_addr, dset_addr, OHDR_RESERVE, MF.HDR_SIZE; change DATA_ADDR with 2195; blia) end.
  exact H.
Qed.
Lemma PD_leaf : placed f LEAF (leaf_block data attrs).
Proof using Hname Hdt Hdims Hlen Hbound Hdense Hheap. clear - Hname Hdt Hdims Hlen Hbound Hdense Hheap.
  pose proof (place_all_placed blocks 9 _ eq_refl) as H. cbn [block_addr blocks_v2_dense] in H.
  rewrite sbd_block_len, (heap_block_len name Hname), snod_block_len, bt_block_len, root_block_len, dsbd_len, fh_block_len, db_block_len in H.
  match type of H with placed _ ?X _ => replace LEAF with X
    by (unfold LEAF_ADDR, DB_ADDR, FH_ADDR, eof_addr, dset_addr, OHDR_RESERVE, MF.HDR_SIZE, HEAP_BLOCK; change DATA_ADDR with 2195; blia) end.
  exact H.
Qed.
Lemma PD_bth : placed f BTH (MB.encode_header 8 fbt).
Proof using Hname Hdt Hdims Hlen Hbound Hdense Hheap Hleaf. clear - Hname Hdt Hdims Hlen Hbound Hdense Hheap Hleaf.
  pose proof (place_all_placed blocks 10 _ eq_refl) as H. cbn [block_addr blocks_v2_dense] in H.
  rewrite sbd_block_len, (heap_block_len name Hname), snod_block_len, bt_block_len, root_block_len, dsbd_len, fh_block_len, db_block_len,
    leaf_block_len in H.
  match type of H with placed _ ?X _ => replace BTH with X
    by (unfold BTH_ADDR, LEAF_ADDR, DB_ADDR, FH_ADDR, eof_addr, dset_addr, OHDR_RESERVE, MF.HDR_SIZE, HEAP_BLOCK, BT2_NODE; change DATA_ADDR with 2195; blia) end.
  exact H.
Qed.

Lemma image_dense_len : blen f = eof_dense data.
Proof using Hname Hdt Hdims Hlen Hbound Hdense Hheap Hleaf. clear - Hname Hdt Hdims Hlen Hbound Hdense Hheap Hleaf.
  unfold image_v2_dense, place_all, blocks_v2_dense. cbn [concat]. rewrite !blen_app.
  rewrite sbd_block_len, (heap_block_len name Hname), snod_block_len, bt_block_len, root_block_len, dsbd_len, fh_block_len, db_block_len,
    leaf_block_len, bth_block_len.
  change (blen []) with 0.
  unfold eof_dense, BTH_ADDR, LEAF_ADDR, DB_ADDR, FH_ADDR, eof_addr, dset_addr, OHDR_RESERVE, MF.HDR_SIZE, HEAP_BLOCK, BT2_NODE.
  change DATA_ADDR with 2195. blia.
Qed.

Lemma addr_bounds : 2457 <= FH /\ BTH + 38 < 4295040000.
Proof using Hbound. clear - Hbound.
  unfold BTH_ADDR, LEAF_ADDR, DB_ADDR, FH_ADDR, eof_addr, dset_addr, OHDR_RESERVE, MF.HDR_SIZE, HEAP_BLOCK, BT2_NODE.
  change DATA_ADDR with 2195. blia.
Qed.
Lemma addr_order : FH < DB /\ DB < LEAF /\ LEAF < BTH.
Proof using. clear. unfold BTH_ADDR, LEAF_ADDR, DB_ADDR, MF.HDR_SIZE, HEAP_BLOCK, BT2_NODE. blia. Qed.

(* ------------------------------------------------------------------ the dataset's header, as the reader returns it *)
Lemma dset_header_dense fuel : (4 < fuel)%nat ->
  run0 f (p_ohdr SB' fuel da) = Ok (proj_ohdr_v2 false dho da).
Proof using Hname Hdt Hdims Hlen Hbound Hdense.
  intros Hf.
  apply (p_ohdr_placed2 SB' fuel f da dho (skipn (length (enc_ohdr_v2 dho)) (compact_block class size cbf dims attrs)) dho_ok).
  - exact PD_dset.
  - exact Hf.
  - exact (da_bound data Hbound).
Qed.

(* ParseAttributeInfoMessage on the writer's Attribute Info message *)
Lemma ainfo_decoded : IOProgReader.dec_attrinfo SB' (enc_attrinfo SBP (dense_info data)) = Ok (FH, BTH).
Proof using Hbound. clear - Hbound.
  rewrite ainfo_bytes. pose proof addr_bounds as (B1 & B2).
  unfold IOProgReader.dec_attrinfo. cbn [SB' spp_offsize].
  assert (L : blen ([0; 0] ++ le 8 FH ++ le 8 BTH) = 18) by (rewrite !blen_app, !blen_le; reflexivity).
  rewrite L. change (18 <? 2) with false. cbv iota.
  change (index ([0; 0] ++ le 8 FH ++ le 8 BTH) 1) with (@Ok N 0). cbn [obind].
  change (N.testbit 0 0) with false. change (N.testbit 0 1) with false. cbn [andb]. cbv iota.
  change (18 <? 2 + 8) with false. cbv iota.
  match goal with |- context [slice ?b ?x ?y] => replace (slice b x y) with (Ok (le 8 FH))
    by (symmetry; apply (slice_app' [0; 0] (le 8 FH) (le 8 BTH)); reflexivity) end.
  cbn [obind].
  change (18 <? 2 + 8 + 8) with false. cbv iota.
  match goal with |- context [slice ?b ?x ?y] => replace (slice b x y) with (Ok (le 8 BTH))
    by (symmetry; apply (slice_app_end ([0; 0] ++ le 8 FH) (le 8 BTH)); reflexivity) end.
  cbn [obind]. pose proof addr_order. rewrite !read_addr_le8 by blia. reflexivity.
Qed.

(* ParseAttributesFromMessages on the four messages: no compact attribute, dense storage at (FH, BTH) *)
Lemma attrs4_dense m3 m1 m8 o3 o1 o8 o21 :
  p_attrs SB' [ {| hmp_type := 3; hmp_offset := o3; hmp_data := m3 |}; {| hmp_type := 1; hmp_offset := o1; hmp_data := m1 |};
                {| hmp_type := 8; hmp_offset := o8; hmp_data := m8 |};
                {| hmp_type := 21; hmp_offset := o21; hmp_data := enc_attrinfo SBP (dense_info data) |} ]
  = bind (p_dense SB' FH BTH) (fun d => Ret ([] ++ d)).
Proof using Hbound. clear - Hbound.
  unfold p_attrs. cbn [compact_attrs first_ainfo hmp_type hmp_data N.eqb Pos.eqb bind].
  rewrite ainfo_decoded. pose proof addr_bounds as (B1 & B2). pose proof addr_order as B3.
  replace (FH =? 0) with false by (symmetry; apply N.eqb_neq; blia).
  replace (FH =? UNDEF) with false by (symmetry; apply N.eqb_neq; unfold UNDEF; blia).
  reflexivity.
Qed.

(* ------------------------------------------------------------------ the dense walk *)
Lemma bt2hdr_stage : run0 f (p_bt2hdr SB' BTH) = Ok (LEAF, N.of_nat (length attrs)).
Proof using Hname Hdt Hdims Hlen Hbound Hdense Hheap Hleaf.
  unfold p_bt2hdr. replace BTH with (BTH + 0) at 1 by blia.
  rewrite (run0_short_placed _ f BTH (MB.encode_header 8 fbt) 0 38 _ PD_bth) by (rewrite bth_block_len; blia).
  rewrite (rd_all _ 38) by (symmetry; exact bth_block_len).
  pose proof addr_bounds as (B1 & B2). pose proof nattrs_bound.
  rewrite dec_bt2hdr_enc; cbn [final_bt2 MB.header MB.h_root MB.h_nroot]; [reflexivity | | blia].
  unfold BTH_ADDR in B2. blia.
Qed.

Lemma bt2leaf_stage : run0 f (p_bt2leaf LEAF (N.of_nat (length attrs))) = Ok (map snd (final_recs attrs)).
Proof using Hname Hdt Hdims Hlen Hbound Hdense Hheap Hleaf.
  unfold p_bt2leaf. replace LEAF with (LEAF + 0) at 1 by blia.
  pose proof leaf_enc_len as Ll. pose proof nattrs_bound as Hn.
  rewrite (run0_short_placed _ f LEAF (leaf_block data attrs) 0 _ _ PD_leaf) by (rewrite leaf_block_len; blia).
  unfold leaf_block at 1. rewrite rd_head by (rewrite Ll; blia).
  pose proof (dec_bt2leaf_enc fbt) as D. cbn [final_bt2 MB.leaf_recs] in D. rewrite recs_len in D.
  cbn [lift]. rewrite (D recs_wf). reflexivity.
Qed.

Lemma fheaphdr_stage : run0 f (p_fheaphdr SB' FH) = Ok (DB, 2, 3).
Proof using Hname Hdt Hdims Hlen Hbound Hdense.
  unfold p_fheaphdr. replace FH with (FH + 0) at 1 by blia.
  rewrite (run0_short_placed _ f FH (MF.encode_header fhp) 0 144 _ PD_fh) by (rewrite fh_block_len; blia).
  destruct (rd_fheap_header fhp) as (tail & Lt & E). rewrite E.
  pose proof addr_bounds as (B1 & B2).
  cbn [lift]. rewrite dec_fheaphdr_enc; [reflexivity | reflexivity | | exact Lt].
  cbn [final_fheap MF.h_root]. unfold BTH_ADDR, LEAF_ADDR in B2. blia.
Qed.


Lemma dense_objs_stage : forall ps, (forall p, In p ps -> In p (dense_pairs attrs)) ->
  run0 f (p_dense_objs SB' (map (fun p => firstn 7 (snd p)) ps) DB 2 3) = Ok (map (fun p => listed (fst p)) ps).
Proof using Hname Hdt Hdims Hlen Hbound Hwf Hdense Hheap.
  induction ps as [|p ps IH]; intros Hin; [reflexivity|].
  cbn [map]. cbn beta. cbn [p_dense_objs].
  destruct (pair_good p (Hin p (or_introl eq_refl))) as (Ha & x & y & E & Ei).
  pose proof objs_bound as Ht. unfold objs_total in Ht.
  assert (Lo : blen (concat (objs attrs)) = blen x + blen (dattr_bytes (fst p)) + blen y) by (rewrite E, !blen_app; blia).
  pose proof (msg_len_ge _ Ha) as Lm.
  bnorm. rewrite Ei. rewrite parse_heap_id_enc by blia. cbn [lift bind fst snd].
  rewrite run0_bind.
  pose proof addr_bounds as (B1 & B2).
  rewrite (heap_object_read f DB fdb) with (y := y).
  - cbn [lift].
    destruct (fst p) as [[[aname adt] adims] adata] eqn:Ep.
    pose proof (wf_in _ Ha) as W. cbn [dattr_msg] in W.
    unfold dattr_bytes, dattr_msg. cbn [SB' spp_bigendian].
    rewrite (attribute_roundtrip _ W). cbn [lift bind]. rewrite run0_bind, IH by (intros q Hq; apply Hin; now right).
    cbn [map]. rewrite attr_of_proj. reflexivity.
  - cbn [final_dblock MF.db_size]. unfold HEAP_BLOCK. blia.
  - cbn [final_dblock MF.db_size MF.db_objs]. unfold HEAP_BLOCK. blia.
  - reflexivity.
  - exact PD_db.
  - cbn [final_dblock MF.db_size]. unfold MAXI64, HEAP_BLOCK, BTH_ADDR, LEAF_ADDR in *. blia.
  - exact E.
  - blia.
Qed.

Theorem dense_stage : run0 f (p_dense SB' FH BTH) = Ok (map listed (dense_order attrs)).
Proof using Hname Hdt Hdims Hlen Hbound Hwf Hdense Hheap Hleaf.
  unfold p_dense. pose proof addr_bounds as (B1 & B2).
  replace (FH =? 0) with false by (symmetry; apply N.eqb_neq; blia).
  replace (BTH =? 0) with false by (symmetry; apply N.eqb_neq; unfold BTH_ADDR, LEAF_ADDR, DB_ADDR; blia).
  cbn [orb]. rewrite run0_bind, bt2hdr_stage. cbn [fst snd]. rewrite run0_bind, bt2leaf_stage.
  unfold final_recs. rewrite recs_of_pairs, map_map.
  change (fun x : dattr * bytes => snd (rec_of_pair x)) with (fun p : dattr * bytes => firstn 7 (snd p)).
  unfold dense_order. rewrite map_map.
  destruct (dense_pairs attrs) as [|p0 ps] eqn:Eps; [reflexivity|].
  cbn [map]. rewrite run0_bind, fheaphdr_stage. cbn [fst snd].
  change (firstn 7 (snd p0) :: map (fun p => firstn 7 (snd p)) ps) with (map (fun p : dattr * bytes => firstn 7 (snd p)) (p0 :: ps)).
  change (listed (fst p0) :: map (fun x => listed (fst x)) ps) with (map (fun p : dattr * bytes => listed (fst p)) (p0 :: ps)).
  apply dense_objs_stage. intros p Hp. rewrite Eps. exact Hp.
Qed.

(* ------------------------------------------------------------------ Dataset.Attributes *)
Theorem dataset_attributes_dense fuel : (4 < fuel)%nat ->
  run0 f (api_attributes SB' fuel da) = Ok (map listed (dense_order attrs)).
Proof using Hname Hdt Hdims Hlen Hbound Hwf Hdense Hheap Hleaf.
  intros Hf. unfold api_attributes. rewrite run0_bind, (dset_header_dense fuel Hf).
  rewrite run0_swallow.
  unfold proj_ohdr_v2, dense_ohdr, base_msgs, dset_ohdr. cbn [oh_msgs oh_flags app msgs_at_v2 ohp_msgs hm_type hm_data].
  rewrite attrs4_dense. rewrite !run0_bind, dense_stage. reflexivity.
Qed.
End Image.
