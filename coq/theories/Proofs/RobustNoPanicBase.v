(* C07 "no input can crash the reader": generic part.
   [np o] = the outcome [o] is not a Go run-time panic.  Lemmas for the checked slicing primitives of
   Base/Bytes.v (each is panic-free under the bounds condition Go itself checks) and the tactic
   [np_go] that walks through a decoder body: it splits every [if], binds every primitive using the
   guards collected so far, and closes the [Ok]/[Err] leaves. *)
From HV Require Import Base.Prelude Base.Outcome Base.Bytes.

Definition np {A} (o : outcome A) : Prop := o <> Panic.

Lemma np_ok {A} (a : A) : np (Ok a).
Proof. discriminate. Qed.
Lemma np_err {A} : np (@Err A).
Proof. discriminate. Qed.
Lemma np_bind {A B} (o : outcome A) (f : A -> outcome B) :
  np o -> (forall a, o = Ok a -> np (f a)) -> np (obind o f).
Proof.
  unfold np. destruct o as [a| |]; cbn [obind]; intros H1 H2.
  - apply H2; reflexivity.
  - discriminate.
  - congruence.
Qed.
(* monad laws in the form the walking tactic uses: the continuation is pushed into the first argument,
   so no information about a bound tuple is lost *)
Lemma np_bind_ok {A B} (a : A) (f : A -> outcome B) : np (f a) -> np (obind (Ok a) f).
Proof. exact (fun H => H). Qed.
Lemma np_bind_err {A B} (f : A -> outcome B) : np (obind Err f).
Proof. discriminate. Qed.
Lemma np_bind_assoc {A B C} (o : outcome A) (g : A -> outcome B) (f : B -> outcome C) :
  np (obind o (fun a => obind (g a) f)) -> np (obind (obind o g) f).
Proof. destruct o; exact (fun H => H). Qed.
Lemma np_bind_if {A B} (c : bool) (x y : outcome A) (f : A -> outcome B) :
  np (if c then obind x f else obind y f) -> np (obind (if c then x else y) f).
Proof. destruct c; exact (fun H => H). Qed.
(* the statement suggested in the task, in its own words *)
Lemma obind_no_panic {A B} (o : outcome A) (f : A -> outcome B) :
  o <> Panic -> (forall a, o = Ok a -> f a <> Panic) -> obind o f <> Panic.
Proof. exact (np_bind o f). Qed.
Lemma np_omap {A B} (f : A -> B) (o : outcome A) : np o -> np (omap f o).
Proof. unfold np. destruct o; cbn [omap]; congruence. Qed.

(* ------------------------------------------------------------------ primitives *)

Lemma slice_ok (bs : list N) a b :
  a <= b -> b <= blen bs -> exists s, slice bs a b = Ok s /\ blen s = b - a.
Proof.
  intros H1 H2. unfold slice.
  replace ((a <=? b) && (b <=? blen bs)) with true
    by (symmetry; apply andb_true_iff; split; apply N.leb_le; blia).
  eexists; split; [reflexivity|].
  unfold blen in *. rewrite firstn_length, skipn_length. blia.
Qed.
Lemma slice_len (bs : list N) a b s : slice bs a b = Ok s -> blen s = b - a.
Proof.
  unfold slice. destruct ((a <=? b) && (b <=? blen bs)) eqn:E; [|discriminate].
  apply andb_true_iff in E as [E1 E2]. apply N.leb_le in E1, E2.
  intros H; injection H as <-.
  unfold blen in *. rewrite firstn_length, skipn_length. blia.
Qed.
Lemma slice_np (bs : list N) a b : a <= b -> b <= blen bs -> np (slice bs a b).
Proof. intros H1 H2. destruct (slice_ok bs a b H1 H2) as (s & -> & _). apply np_ok. Qed.

Lemma slice_from_ok (bs : list N) a :
  a <= blen bs -> exists s, slice_from bs a = Ok s /\ blen s = blen bs - a.
Proof.
  intros H. unfold slice_from.
  replace (a <=? blen bs) with true by (symmetry; apply N.leb_le; blia).
  eexists; split; [reflexivity|]. unfold blen in *. rewrite skipn_length. blia.
Qed.
Lemma slice_from_len (bs : list N) a s : slice_from bs a = Ok s -> blen s = blen bs - a.
Proof.
  unfold slice_from. destruct (a <=? blen bs) eqn:E; [|discriminate].
  intros H; injection H as <-. unfold blen in *. rewrite skipn_length. blia.
Qed.
Lemma slice_from_np (bs : list N) a : a <= blen bs -> np (slice_from bs a).
Proof. intros H. destruct (slice_from_ok bs a H) as (s & -> & _). apply np_ok. Qed.

Lemma index_ok (bs : list N) i : i < blen bs -> exists b, index bs i = Ok b.
Proof.
  intros H. unfold index. bnorm. destruct (nth_error bs (N.to_nat i)) eqn:E.
  - eexists; reflexivity.
  - apply nth_error_None in E. unfold blen in H. blia.
Qed.
Lemma index_np (bs : list N) i : i < blen bs -> np (index bs i).
Proof. intros H. destruct (index_ok bs i H) as (b & ->). apply np_ok. Qed.

Lemma rd_le_ok (bs : list N) off k : off + k <= blen bs -> exists v, rd_le bs off k = Ok v.
Proof.
  intros H. unfold rd_le. destruct (slice_ok bs off (off + k)) as (s & -> & _); [blia|blia|].
  cbn [obind]. eexists; reflexivity.
Qed.
Lemma rd_le_np (bs : list N) off k : off + k <= blen bs -> np (rd_le bs off k).
Proof. intros H. destruct (rd_le_ok bs off k H) as (v & ->). apply np_ok. Qed.
Lemma rd_be_ok (bs : list N) off k : off + k <= blen bs -> exists v, rd_be bs off k = Ok v.
Proof.
  intros H. unfold rd_be. destruct (slice_ok bs off (off + k)) as (s & -> & _); [blia|blia|].
  cbn [obind]. eexists; reflexivity.
Qed.
Lemma rd_be_np (bs : list N) off k : off + k <= blen bs -> np (rd_be bs off k).
Proof. intros H. destruct (rd_be_ok bs off k H) as (v & ->). apply np_ok. Qed.

(* the NUL scan never goes backwards *)
Lemma find0_aux_ge (bs : list N) pos : pos <= find0_aux bs pos.
Proof.
  revert pos. induction bs as [|b r IH]; intros pos; cbn [find0_aux]; [blia|].
  destruct (b =? 0); [blia|]. specialize (IH (pos + 1)). blia.
Qed.
Lemma find0_ge (bs : list N) from : from <= find0 bs from.
Proof. unfold find0. apply find0_aux_ge. Qed.

(* ------------------------------------------------------------------ the walking tactic *)

Create HintDb np discriminated.
#[export] Hint Resolve np_ok np_err : np.

(* boolean guards -> arithmetic facts (lia also understands most of them through ZifyBool) *)
Ltac bool_hyps :=
  repeat match goal with
  | H : (_ <? _) = true |- _ => apply N.ltb_lt in H
  | H : (_ <? _) = false |- _ => apply N.ltb_ge in H
  | H : (_ <=? _) = true |- _ => apply N.leb_le in H
  | H : (_ <=? _) = false |- _ => apply N.leb_gt in H
  | H : (_ =? _) = true |- _ => apply N.eqb_eq in H
  | H : (_ =? _) = false |- _ => apply N.eqb_neq in H
  | H : negb _ = true |- _ => apply negb_true_iff in H
  | H : negb _ = false |- _ => apply negb_false_iff in H
  | H : (_ && _) = true |- _ => apply andb_true_iff in H; destruct H
  | H : (_ || _) = false |- _ => apply orb_false_iff in H; destruct H
  end.

(* side conditions: arithmetic from the guards in the context *)
Ltac np_side := first [ blia | bool_hyps; blia ].

Ltac np_go :=
  cbv beta iota zeta;
  lazymatch goal with
  | |- np (Ok _) => apply np_ok
  | |- np Err => apply np_err
  | |- np (if ?c then _ else _) => let E := fresh "E" in destruct c eqn:E; np_go
  | |- np (obind (Ok _) _) => apply np_bind_ok; np_go
  | |- np (obind Err _) => apply np_bind_err
  | |- np (obind (obind _ _) _) => apply np_bind_assoc; np_go
  | |- np (obind (if _ then _ else _) _) => apply np_bind_if; np_go
  | |- np (obind _ _) =>
      apply np_bind; [ np_go | let a := fresh "a" in let Ha := fresh "Ha" in intros a Ha; np_go ]
  | |- np (match ?p with pair _ _ => _ end) =>
      let x := fresh "x" in let y := fresh "y" in destruct p as [x y]; np_go
  | |- np (match ?p with Some _ => _ | None => _ end) =>
      let E := fresh "E" in destruct p eqn:E; np_go
  | |- np (match ?o with Ok _ => _ | Err => _ | Panic => _ end) =>
      let E := fresh "E" in destruct o eqn:E; np_go
  | |- np (slice _ _ _) => try (apply slice_np; np_side)
  | |- np (slice_from _ _) => try (apply slice_from_np; np_side)
  | |- np (index _ _) => try (apply index_np; np_side)
  | |- np (rd_le _ _ _) => try (apply rd_le_np; np_side)
  | |- np (rd_be _ _ _) => try (apply rd_be_np; np_side)
  | |- _ => try solve [ auto with np ]
  end.
