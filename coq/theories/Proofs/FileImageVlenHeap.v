(* C12 end to end, heap side:
   (A) with no other allocation in between (history = W only), the extents the heap writer of Model/GHeap.v has written after
       Close are ADJACENT, from the end-of-file it started at to the end-of-file it leaves (chain);
   (B) a file that contains a chain behind a prefix of the right length has every extent placed at its address;
   (C) the reader program p_gheap (Model/IOProgReader.v: ReadGlobalHeapCollection as an I/O program) on a file in which every
       extent of the heap writer is placed returns the objects that GHeap.read_collection (the C12 reader model) returns on the
       extents: the two transcriptions of the object loop agree (gcol_parse). *)
From HV Require Import Base.Prelude Model.GHeap.
From HV Require Proofs.GHeap.
From HV Require Import Base.Outcome Base.Bytes Model.CodecSuper Model.IOProg Proofs.IOProg Model.IOProgReader.
From HV Require Import Model.FileImage Proofs.FileImage.

Local Open Scope N_scope.

Lemma gblen (b : bytes) : GHeap.blen b = blen b. Proof. reflexivity. Qed.
Lemma gslice_rd (b : bytes) off n : GHeap.slice b off n = rd b off n. Proof. reflexivity. Qed.

Lemma writes_map_W (es : list bytes) : writes (map W es) = es.
Proof. induction es as [|e r IH]; cbn [map writes]; [reflexivity|now rewrite IH]. Qed.

(* ------------------------------------------------------------------ (A) adjacency *)
(* extents in address order starting at a and ending at e, each where the previous one ends *)
Fixpoint chain (a : N) (l : list (N * bytes)) (e : N) : Prop :=
  match l with
  | [] => a = e
  | (a0, b) :: r => a0 = a /\ chain (a + blen b) r e
  end.

Lemma chain_snoc : forall l a e b, chain a l e -> chain a (l ++ [(e, b)]) (e + blen b).
Proof.
  induction l as [|[a0 b0] r IH]; intros a e b H; cbn [chain app] in *.
  - subst. split; reflexivity.
  - destruct H as [-> H]. split; [reflexivity|]. now apply IH.
Qed.

Lemma encode_len c b : encode_collection c = Some b -> blen b = c_size c.
Proof.
  unfold encode_collection. destruct (GHeap.blen (coll_content c) <=? c_size c) eqn:E; [|discriminate].
  intros H. assert (Hb : b = coll_content c ++ GHeap.zeros (c_size c - GHeap.blen (coll_content c))) by congruence.
  subst b. clear H. apply N.leb_le in E.
  unfold GHeap.zeros, GHeap.blen, blen in *. rewrite app_length, repeat_length. blia.
Qed.

Section Chain.
Variables minsz blk e0 : N.

(* the invariant of a history without foreign allocations *)
Definition tiled (st : gstate) : Prop :=
  match cur st with
  | None => disk st = [] /\ eof st = e0
  | Some c => chain e0 (rev (disk st)) (c_addr c) /\ eof st = c_addr c + c_size c
  end.

Lemma write_obj_tiled st d st' id : tiled st -> write_obj minsz blk st d = Some (st', id) -> tiled st'.
Proof.
  unfold tiled, write_obj. intros HT H.
  destruct (cur st) as [c|] eqn:Ec.
  - destruct HT as [HC HE].
    destruct (negb (has_space c (obj_total (GHeap.blen d)))) eqn:Es.
    + unfold flush in H. rewrite Ec in H.
      destruct (encode_collection c) as [b|] eqn:Ee; [|discriminate].
      cbn [create_heap cur eof disk add_object] in H. injection H as <- _.
      cbn [cur eof disk c_addr c_size rev]. split; [|reflexivity].
      rewrite HE, <- (encode_len c b Ee). now apply chain_snoc.
    + rewrite Ec in H. cbn [add_object] in H. injection H as <- _.
      cbn [cur eof disk c_addr c_size]. split; assumption.
  - destruct HT as [HD HE]. cbn [negb flush] in H. unfold flush in H. rewrite Ec in H.
    cbn [create_heap cur eof disk add_object] in H. injection H as <- _.
    cbn [cur eof disk c_addr c_size]. rewrite HD, HE. cbn [rev chain]. split; reflexivity.
Qed.

Lemma run_tiled : forall es st st' ids, tiled st -> GHeap.run minsz blk st (map W es) = Some (st', ids) -> tiled st'.
Proof.
  induction es as [|e r IH]; intros st st' ids HT H; cbn [map GHeap.run] in H.
  - now injection H as <- _.
  - destruct (write_obj minsz blk st e) as [[st1 id]|] eqn:Ew; [|discriminate].
    destruct (GHeap.run minsz blk st1 (map W r)) as [[st2 ids2]|] eqn:Er; [|discriminate].
    injection H as <- _. exact (IH st1 st2 ids2 (write_obj_tiled st e st1 id HT Ew) Er).
Qed.

Theorem run_close_chain es fin ids :
  run_close minsz blk e0 (map W es) = Some (fin, ids) -> chain e0 (rev (disk fin)) (eof fin).
Proof.
  unfold run_close. intros H.
  destruct (GHeap.run minsz blk (mkst None e0 []) (map W es)) as [[st ids']|] eqn:Er; [|discriminate].
  assert (HT : tiled st) by (apply (run_tiled es (mkst None e0 []) st ids' ltac:(unfold tiled; cbn [cur disk eof]; split; reflexivity) Er)).
  revert H HT. unfold flush, tiled. destruct (cur st) as [c|]; intros H HT.
  - destruct (encode_collection c) as [b|] eqn:Ee; [|discriminate]. injection H as <- _.
    cbn [disk eof rev]. destruct HT as [HC ->]. rewrite <- (encode_len c b Ee). now apply chain_snoc.
  - injection H as <- _. destruct HT as [-> ->]. reflexivity.
Qed.
End Chain.

(* ------------------------------------------------------------------ (B) a chain behind a prefix is placed *)
Lemma chain_placed : forall l a e (pre suf : bytes), chain a l e -> blen pre = a ->
  (forall a0 b, In (a0, b) l -> placed (pre ++ concat (map snd l) ++ suf) a0 b) /\ blen (pre ++ concat (map snd l)) = e.
Proof.
  induction l as [|[a1 b1] r IH]; intros a e pre suf H Hp; cbn [chain map snd concat] in *.
  - split; [intros ? ? []|]. rewrite app_nil_r. congruence.
  - destruct H as [-> H].
    assert (Hp' : blen (pre ++ b1) = a + blen b1) by (rewrite blen_app, Hp; reflexivity).
    destruct (IH (a + blen b1) e (pre ++ b1) suf H Hp') as [IH1 IH2].
    split.
    + intros a0 b [E|Hin].
      * injection E as <- <-. exists pre, (concat (map snd r) ++ suf). split; [now rewrite <- !app_assoc|exact Hp].
      * specialize (IH1 a0 b Hin). rewrite <- !app_assoc in IH1. rewrite <- !app_assoc. exact IH1.
    + now rewrite <- app_assoc in IH2.
Qed.

Lemma chain_ge : forall l a e a0 b, chain a l e -> In (a0, b) l -> a <= a0.
Proof.
  induction l as [|[a1 b1] r IH]; intros a e a0 b H Hin; [destruct Hin|]. cbn [chain] in H. destruct H as [-> H].
  destruct Hin as [E|Hin].
  - assert (a = a0) by congruence. blia.
  - pose proof (IH (a + blen b1) e a0 b H Hin). blia.
Qed.

Lemma read_at_ge : forall dk a n x lo, (forall a0 b, In (a0, b) dk -> lo <= a0) -> read_at dk a n = Some x -> lo <= a.
Proof.
  induction dk as [|[a0 b] r IH]; intros a n x lo HL H; cbn [read_at] in H; [discriminate|].
  destruct ((a0 <=? a) && (a + n <=? a0 + GHeap.blen b)) eqn:E.
  - apply andb_true_iff in E as [E1 _]. apply N.leb_le in E1. specialize (HL a0 b (or_introl eq_refl)). blia.
  - apply (IH a n x lo); [|exact H]. intros a1 b1 Hin. apply (HL a1 b1). now right.
Qed.

Lemma read_collection_ge dk a rc lo : (forall a0 b, In (a0, b) dk -> lo <= a0) -> read_collection dk a = GHeap.Ok rc -> lo <= a.
Proof.
  unfold read_collection. intros HL H. destruct (read_at dk a 16) as [h|] eqn:Eh; [|discriminate].
  exact (read_at_ge dk a 16 h lo HL Eh).
Qed.

(* ------------------------------------------------------------------ (C) the two object loops agree *)
Definition obj_pair (x : gobj) : N * bytes := (o_index x, o_data x).

Lemma skipn_blen (d : bytes) off : blen (skipn (N.to_nat off) d) = blen d - off.
Proof. unfold blen. rewrite skipn_length. blia. Qed.

Lemma gcol_parse : forall k k' (data : bytes) off l, (k <= k')%nat ->
  parse_objs k (skipn (N.to_nat off) data) = GHeap.Ok l ->
  gcol_objs k' 8 data off = Ok (map obj_pair l).
Proof.
  induction k as [|k IH]; intros k' data off l Hk H; [discriminate|].
  destruct k' as [|k']; [blia|].
  cbn [parse_objs gcol_objs] in *. rewrite gblen, skipn_blen in H.
  set (rest := skipn (N.to_nat off) data) in *.
  destruct (blen data - off <? 16) eqn:E16.
  - injection H as <-. apply N.ltb_lt in E16.
    destruct (off <? blen data) eqn:Eo; [|reflexivity].
    replace (blen data <? off + (8 + 8)) with true by (symmetry; apply N.ltb_lt; blia). reflexivity.
  - apply N.ltb_ge in E16.
    replace (off <? blen data) with true by (symmetry; apply N.ltb_lt; blia).
    replace (blen data <? off + (8 + 8)) with false by (symmetry; apply N.ltb_ge; blia).
    assert (R2 : rd_le data off 2 = Ok (unle (GHeap.slice rest 0 2))).
    { unfold rd_le, Bytes.slice.
      replace ((off <=? off + 2) && (off + 2 <=? blen data)) with true
        by (symmetry; apply andb_true_iff; split; apply N.leb_le; blia).
      replace (off + 2 - off) with 2 by blia. reflexivity. }
    assert (R8 : rd_le data (off + 8) 8 = Ok (unle (GHeap.slice rest 8 8))).
    { unfold rd_le, Bytes.slice.
      replace ((off + 8 <=? off + 8 + 8) && (off + 8 + 8 <=? blen data)) with true
        by (symmetry; apply andb_true_iff; split; apply N.leb_le; blia).
      replace (off + 8 + 8 - (off + 8)) with 8 by blia.
      unfold GHeap.slice, rest. rewrite skipn_skipn'.
      replace (N.to_nat off + N.to_nat 8)%nat with (N.to_nat (off + 8)) by blia. reflexivity. }
    rewrite R2, R8. cbn [obind].
    set (id := unle (GHeap.slice rest 0 2)) in *. set (sz := unle (GHeap.slice rest 8 8)) in *.
    replace (blen data - off - (8 + 8)) with (blen data - off - 16) by blia.
    destruct (blen data - off - 16 <? sz) eqn:Es.
    + destruct (id =? 0); [|discriminate]. injection H as <-. reflexivity.
    + apply N.ltb_ge in Es.
      assert (Hskip : skipn (N.to_nat (16 + align8 sz)) rest = skipn (N.to_nat (off + (8 + 8) + align8 sz)) data).
      { unfold rest. rewrite skipn_skipn'. f_equal. blia. }
      fold (align8 sz). rewrite Hskip in H.
      destruct (id =? 0).
      * exact (IH k' data _ l ltac:(blia) H).
      * replace (blen data - off <? 16 + sz) with false in H by (symmetry; apply N.ltb_ge; blia).
        destruct (parse_objs k (skipn (N.to_nat (off + (8 + 8) + align8 sz)) data)) as [l'|] eqn:Ep; [|discriminate].
        injection H as <-.
        rewrite (IH k' data _ l' ltac:(blia) Ep).
        unfold Bytes.slice.
        replace ((off + (8 + 8) <=? off + (8 + 8) + sz) && (off + (8 + 8) + sz <=? blen data)) with true
          by (symmetry; apply andb_true_iff; split; apply N.leb_le; blia).
        cbn [obind map obj_pair o_index o_data]. do 3 f_equal.
        replace (off + (8 + 8) + sz - (off + (8 + 8))) with sz by blia.
        unfold GHeap.slice, rest, obj_pair. cbn [o_index o_data]. rewrite skipn_skipn'.
        replace (N.to_nat off + N.to_nat 16)%nat with (N.to_nat (off + (8 + 8))) by blia. reflexivity.
Qed.

Lemma get_object_find : forall l idx x, get_object l idx = GHeap.Ok x ->
  find (fun p => fst p =? idx) (map obj_pair l) = Some (idx, o_data x).
Proof.
  induction l as [|y r IH]; intros idx x H; cbn [get_object map find obj_pair fst] in *; [discriminate|].
  destruct (o_index y =? idx) eqn:E.
  - apply N.eqb_eq in E. assert (y = x) by congruence. subst. reflexivity.
  - now apply IH.
Qed.

(* ------------------------------------------------------------------ reads of the extents on the image *)
Section OnImage.
Variable f : bytes.
Variable dk : list (N * bytes).
Hypothesis Hpl : forall a b, In (a, b) dk -> placed f a b.

Lemma read_at_placed : forall a n x, read_at dk a n = Some x -> placed f a x /\ blen x = n.
Proof.
  revert Hpl. induction dk as [|[a0 b] r IH]; intros HP a n x H; cbn [read_at] in H; [discriminate|].
  destruct ((a0 <=? a) && (a + n <=? a0 + GHeap.blen b)) eqn:E.
  - apply andb_true_iff in E as [E1 E2]. apply N.leb_le in E1, E2. rewrite gblen in E2.
    injection H as <-. rewrite gslice_rd. split.
    + replace a with (a0 + (a - a0)) at 1 by blia. apply placed_slice; [apply HP; now left|blia].
    + apply blen_rd. blia.
  - apply IH; [|exact H]. intros a1 b1 Hin. apply HP. now right.
Qed.

Variable sb : superblock'.
Hypothesis Ho : spp_offsize sb = 8.
Hypothesis Hf : blen f <= MAXI64.

(* ReadGlobalHeapCollection as an I/O program on the image = the C12 reader model on the extents *)
Theorem p_gheap_read_collection a rc fuel :
  read_collection dk a = GHeap.Ok rc -> (N.to_nat (blen f / 16) + 2 <= fuel)%nat ->
  run0 f (p_gheap sb fuel a) = Ok (map obj_pair (r_objs rc)).
Proof.
  unfold read_collection. intros H Hfuel.
  destruct (read_at dk a 16) as [h|] eqn:Eh; [|discriminate].
  destruct (read_at_placed _ _ _ Eh) as [Ph Lh].
  destruct (negb (bytes_eqb (GHeap.slice h 0 4) sig_gcol)) eqn:Esig; [discriminate|].
  destruct (negb (nth 4 h 0 =? 1)) eqn:Ever; [discriminate|].
  set (sz := unle (GHeap.slice h 8 8)) in *.
  destruct (sz <? 16) eqn:Esz; [discriminate|]. apply N.ltb_ge in Esz.
  destruct (read_at dk a sz) as [d|] eqn:Ed; [|discriminate].
  destruct (read_at_placed _ _ _ Ed) as [Pd Ld].
  destruct (parse_objs (S (S (N.to_nat (sz / 16)))) (skipn 16 d)) as [l|] eqn:Ep; [|discriminate].
  injection H as <-. cbn [r_objs].
  unfold p_gheap. rewrite Ho. change (negb ((8 =? 4) || (8 =? 8))) with false. cbv iota.
  change (8 + 8) with 16.
  rewrite (run0_read_exact _ f a h 16 _ Ph (eq_sym Lh)).
  assert (L16 : length h = 16%nat) by (unfold blen in Lh; blia).
  do 16 (destruct h as [|? h]; [discriminate L16|]). destruct h; [|discriminate L16].
  cbv [GHeap.slice N.to_nat Pos.to_nat Pos.iter_op Nat.add skipn firstn nth] in Esig, Ever, sz.
  unfold sig_gcol in Esig. cbv [firstn]. rewrite Esig.
  match goal with |- context [index ?hl 4] =>
    replace (index hl 4) with (Ok b3) by reflexivity; replace (rd_le hl 8 8) with (Ok sz) by reflexivity end.
  cbn [obind lift bind fst snd].
  apply negb_false_iff in Ever. rewrite Ever. cbn [negb].
  fold sz. replace (sz <? 16) with false by (symmetry; apply N.ltb_ge; exact Esz).
  rewrite run0_bind.
  pose proof (placed_bound _ _ _ Pd) as Hb.
  rewrite (run0_read_bytes_at f a d sz Pd (eq_sym Ld)) by blia.
  change (if 16 mod 8 =? 0 then 16 else 16 + (8 - 16 mod 8)) with 16.
  cbn [run0 run lift].
  assert (Hg : gcol_objs fuel 8 d 16 = Ok (map obj_pair l)).
  { apply (gcol_parse (S (S (N.to_nat (sz / 16)))) fuel d 16 l); [|exact Ep].
    assert (sz / 16 <= blen f / 16) by (apply N.div_le_mono; blia). blia. }
  rewrite Hg. reflexivity.
Qed.
End OnImage.
