(* C09 at file level: element-level facts about valid selections that the I/O side needs: what the single-run and the
   selection-run paths read lies inside the dataset; the 2-D selection spelled out. *)
From HV Require Import Base.Prelude Model.Hyperslab Proofs.HyperslabBase Proofs.HyperslabRaw Proofs.HyperslabContig.

Lemma out_elems_pos s dims : axes_valid s dims -> s <> [] -> 0 < out_elems s.
Proof.
  intros V Hne. unfold out_elems. destruct s as [|a0 s0]; [congruence|]. rewrite out_elems_fold, N.mul_1_l.
  clear Hne. induction V as [|a d s ds H _ IH]; cbn [fold_right]; [lia|].
  destruct H as (A1 & A2 & A3 & A4). destruct (N.eqb_spec (a_block a) 0); nia.
Qed.

Lemma starts_lt s dims : axes_valid s dims -> Forall2 N.lt (map a_start s) dims.
Proof.
  induction 1 as [|a d s ds H _ IH]; cbn [map]; constructor; [|assumption].
  destruct H as (A1 & A2 & A3 & A4). nia.
Qed.
Lemma last_lt s dims : axes_valid s dims -> Forall2 N.lt (last_rel s) dims.
Proof.
  induction 1 as [|a d s ds H _ IH]; cbn [map last_rel]; constructor; [|assumption].
  destruct H as (A1 & A2 & A3 & A4). set (m := (a_count a - 1) * a_stride a) in *. lia.
Qed.

(* the single run of a contiguous selection lies inside the dataset *)
Lemma contig_fit s dims : axes_valid s dims -> s <> [] -> is_contiguous_selection s dims = true ->
  lin dims (map a_start s) + out_elems s <= prodN dims.
Proof.
  intros V Hne C.
  pose proof (axes_valid_block _ _ V) as Hb.
  unfold is_contiguous_selection in C. destruct (contig_go s dims) as [ok fl] eqn:EC. cbn [fst] in C. subst ok.
  destruct (contig_run _ _ V _ EC) as (R & _).
  pose proof (out_elems_pos _ _ V Hne) as Hp.
  rewrite out_elems_length in * by assumption.
  set (n := length (sel_coords s)) in *.
  assert (Hn : (0 < n)%nat) by lia.
  pose proof (nseq_last_in (lin dims (map a_start s)) n Hn) as Hin.
  rewrite <- R in Hin. apply in_map_iff in Hin. destruct Hin as (x & Hx & Hxin).
  pose proof (lin_bound _ _ (sel_coords_inb _ _ _ V Hxin)). lia.
Qed.

(* the run from the first to the last selected element lies inside the dataset *)
Lemma span_fit s dims : axes_valid s dims ->
  lin dims (map a_start s) + (lin dims (last_rel s) + 1) <= prodN dims.
Proof.
  intros V. pose proof (axes_valid_length _ _ V) as Ls.
  pose proof (lin_bound _ _ (start_plus_last_inb _ _ V)) as B.
  rewrite lin_vadd in B by (rewrite ?map_length, ?last_rel_length; assumption). lia.
Qed.

(* a 2-D selection, row by row *)
Lemma sel_coords_2d a0 a1 :
  sel_coords [a0; a1] = flat_map (fun i => map (fun j => [i; j]) (axis_idx a1)) (axis_idx a0).
Proof.
  cbn [sel_coords]. apply flat_map_ext_in. intros i _.
  assert (E : flat_map (fun j => map (cons j) [[]]) (axis_idx a1) = map (fun j => [j]) (axis_idx a1)).
  { induction (axis_idx a1) as [|j r IH]; [reflexivity|]. cbn [flat_map map app]. f_equal; try exact IH. }
  rewrite E, map_map. reflexivity.
Qed.
Lemma select_2d full d0 d1 a0 a1 :
  select full [d0; d1] [a0; a1]
  = flat_map (fun i => map (fun j => nthN full (i * d1 + j)) (axis_idx a1)) (axis_idx a0).
Proof.
  unfold select. rewrite sel_coords_2d, map_flat_map. apply flat_map_ext_in. intros i _.
  rewrite map_map. apply map_ext. intros j. cbn [lin prodN]. f_equal. lia.
Qed.

Lemma map_a_start_zip4 : forall a b c d, length b = length a -> length c = length a -> length d = length a ->
  map a_start (zip4 a b c d) = a.
Proof.
  induction a as [|x a IH]; intros [|y b] [|z c] [|w d] L1 L2 L3; cbn [length] in *; try discriminate; [reflexivity|].
  cbn [zip4 map a_start]. f_equal. apply IH; lia.
Qed.
Lemma zip4_length : forall a b c d, length b = length a -> length c = length a -> length d = length a ->
  length (zip4 a b c d) = length a.
Proof.
  induction a as [|x a IH]; intros [|y b] [|z c] [|w d] L1 L2 L3; cbn [length] in *; try discriminate; [reflexivity|].
  cbn [zip4 length]. f_equal. apply IH; lia.
Qed.
