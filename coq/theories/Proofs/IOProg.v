(* C17: generic theorems about reader programs (Model/IOProg.v).
   strict_refines: for every file, every program of the strict fragment, every truncation and every fault oracle,
   the result is the intact result or an error (or the intact run itself panics).  trunc_monotone, fault_monotone,
   no_panic are its corollaries.  Counter-examples show that the side conditions are necessary. *)
From HV Require Import Base.Prelude Base.Outcome Base.Bytes Model.IOProg.

(* ------------------------------------------------------------------ slices of a prefix *)

Lemma blen_firstn_le n (f : bytes) : blen (firstn n f) <= blen f.
Proof. unfold blen. rewrite firstn_length. blia. Qed.

Lemma skipn_firstn_comm' {A} (m n : nat) (l : list A) : skipn m (firstn n l) = firstn (n - m) (skipn m l).
Proof. apply skipn_firstn_comm. Qed.

Lemma firstn_min_length {A} (a : nat) (l : list A) : firstn a l = firstn (Nat.min a (length l)) l.
Proof.
  destruct (Nat.le_gt_cases a (length l)) as [H|H].
  - now rewrite Nat.min_l.
  - rewrite Nat.min_r by blia. rewrite firstn_all. apply firstn_all2. blia.
Qed.

(* rd of a prefix is a prefix of rd *)
Lemma rd_prefix n (f : bytes) off len :
  rd (firstn n f) off len = firstn (N.to_nat (avail (firstn n f) off len)) (rd f off len).
Proof.
  unfold avail, rd, blen. rewrite Nat2N.id.
  rewrite skipn_firstn_comm'.
  set (S := skipn (N.to_nat off) f). set (L := N.to_nat len). set (m := (n - N.to_nat off)%nat).
  rewrite !firstn_firstn. rewrite firstn_length.
  rewrite (firstn_min_length (Nat.min L m) S).
  f_equal. blia.
Qed.

Lemma avail_prefix_le n (f : bytes) off len : avail (firstn n f) off len <= avail f off len.
Proof.
  unfold avail, rd, blen. rewrite skipn_firstn_comm'. rewrite firstn_firstn.
  rewrite !firstn_length. blia.
Qed.

Lemma avail_le_len (f : bytes) off len : avail f off len <= len.
Proof. unfold avail, rd, blen. rewrite firstn_length. blia. Qed.

Lemma in_range_prefix n (f : bytes) off len :
  in_range (firstn n f) off len = true -> in_range f off len = true.
Proof.
  unfold in_range. intros H. apply N.leb_le in H. apply N.leb_le.
  pose proof (blen_firstn_le n f). blia.
Qed.

Lemma rd_in_range_prefix n (f : bytes) off len :
  in_range (firstn n f) off len = true -> rd (firstn n f) off len = rd f off len.
Proof.
  unfold in_range, rd, blen. intros H. apply N.leb_le in H.
  rewrite firstn_length in H.
  rewrite skipn_firstn_comm'. rewrite firstn_firstn. f_equal. blia.
Qed.

Lemma rd_length_in_range (f : bytes) off len :
  in_range f off len = true -> length (rd f off len) = N.to_nat len.
Proof.
  unfold in_range, rd, blen. intros H. apply N.leb_le in H.
  rewrite firstn_length, skipn_length. blia.
Qed.

Lemma rd_rd_prefix (f : bytes) off len len' :
  len <= len' -> firstn (N.to_nat len) (rd f off len') = rd f off len.
Proof. intros H. unfold rd. rewrite firstn_firstn. f_equal. blia. Qed.

Lemma firstn_app_pad {A} (g : nat) (x z : list A) :
  (g <= length x)%nat -> firstn g (firstn g x ++ z) = firstn g x.
Proof.
  intros H. rewrite firstn_app. rewrite firstn_firstn. rewrite Nat.min_id.
  rewrite firstn_length. replace (g - Nat.min g (length x))%nat with 0%nat by blia.
  cbn [firstn]. apply app_nil_r.
Qed.

Lemma firstn_app_pad' {A} (g h : nat) (x z : list A) :
  (g <= h)%nat -> (h <= length x)%nat -> firstn g (firstn h x ++ z) = firstn g x.
Proof.
  intros H1 H2. rewrite firstn_app. rewrite firstn_firstn. rewrite firstn_length.
  replace (Nat.min g h) with g by blia.
  replace (g - Nat.min h (length x))%nat with 0%nat by blia.
  cbn [firstn]. apply app_nil_r.
Qed.

(* ------------------------------------------------------------------ the counter is irrelevant without faults *)

Lemma run_nofault_counter : forall A (p : prog A) f c c',
  fst (run f nofault c p) = fst (run f nofault c' p).
Proof.
  intros A p. induction p as [A a|A|A|A off len k IH|A off len k IH|A B p IHp d k IHk] using prog_ind; intros f c c'.
  - reflexivity.
  - reflexivity.
  - reflexivity.
  - cbn [run nofault]. destruct (in_range f off len); [apply IH | reflexivity].
  - cbn [run nofault limit]. apply IH.
  - cbn [run]. specialize (IHp f c c').
    destruct (run f nofault c p) as [o1 c1]. destruct (run f nofault c' p) as [o2 c2].
    cbn [fst] in IHp. subst o2.
    destruct o1; [apply IHk | apply IHk | reflexivity].
Qed.

Lemma run0_counter A (p : prog A) f c : fst (run f nofault c p) = run0 f p.
Proof. unfold run0. apply run_nofault_counter. Qed.

Lemma run0_read_in A off len (k : bytes -> prog A) f :
  in_range f off len = true -> run0 f (ReadAt off len k) = run0 f (k (rd f off len)).
Proof. intros H. unfold run0 at 1. cbn [run nofault]. rewrite H. apply run0_counter. Qed.
Lemma run0_read_out A off len (k : bytes -> prog A) f :
  in_range f off len = false -> run0 f (ReadAt off len k) = Err.
Proof. intros H. unfold run0. cbn [run nofault]. now rewrite H. Qed.

Lemma firstn_all_rd (f : bytes) off len :
  firstn (N.to_nat (avail f off len)) (rd f off len) = rd f off len.
Proof. unfold avail, blen. rewrite Nat2N.id. apply firstn_all. Qed.

Lemma run0_short A off len (k : bytes -> N -> prog A) f :
  run0 f (ReadAtShort off len k) = run0 f (k (padded f off len) (avail f off len)).
Proof.
  unfold run0 at 1. cbn [run nofault limit]. rewrite firstn_all_rd. apply run0_counter.
Qed.

Lemma run0_swallow A B (p : prog B) d (k : B -> prog A) f :
  run0 f (Swallow p d k) =
  match run0 f p with Ok b => run0 f (k b) | Err => run0 f (k d) | Panic => Panic end.
Proof.
  unfold run0 at 1 2. cbn [run]. destruct (run f nofault 0 p) as [o c]. cbn [fst].
  destruct o; [apply run0_counter | apply run0_counter | reflexivity].
Qed.

Lemma run_swallow_eq A B (p : prog B) d (k : B -> prog A) f fl c :
  run f fl c (Swallow p d k) =
  match run f fl c p with
  | (Ok b, c') => run f fl c' (k b)
  | (Err, c') => run f fl c' (k d)
  | (Panic, c') => (Panic, c')
  end.
Proof. reflexivity. Qed.

Lemma run_sigread f fl c off len :
  (run f fl c (ReadAt off len (fun b => Ret b)) = (Ok (rd f off len), S c) /\ in_range f off len = true)
  \/ run f fl c (ReadAt off len (fun b => Ret b)) = (Err, S c).
Proof.
  cbn [run]. destruct (fl c) as [| |m].
  - destruct (in_range f off len); [left; split; reflexivity | right; reflexivity].
  - right; reflexivity.
  - destruct (len <=? m); cbn [andb]; [|right; reflexivity].
    destruct (in_range f off len); [left; split; reflexivity | right; reflexivity].
Qed.

(* ------------------------------------------------------------------ the main theorem *)

(* the damaged result is the intact result, or an error; nothing is claimed when the intact run itself panics *)
Definition refines3 {A} (o' o : outcome A) : Prop := o = Panic \/ o' = o \/ o' = Err.

Theorem strict_refines : forall A (p : prog A), strict p ->
  forall (f : bytes) (n : nat) (fl : oracle) (c : nat),
    refines3 (fst (run (firstn n f) fl c p)) (run0 f p).
Proof.
  intros A p H.
  induction H as [A a|A|A|A off len k Hk IH|A off len k Hk IH Hs
                 |A B p d k Hp IHp Hk IHk Hd|A B p d k Hp IHp Hig Hkd IHkd
                 |A off len len' d k k' Hle Hkd Hk IHk Hsig]; intros f n fl c.
  - right; left; reflexivity.
  - right; left; reflexivity.
  - left; reflexivity.
  - (* ReadAt *)
    cbn [run].
    assert (Hin : in_range (firstn n f) off len = true ->
                  refines3 (fst (run (firstn n f) fl (S c) (k (rd (firstn n f) off len)))) (run0 f (ReadAt off len k))).
    { intros Hr. rewrite (rd_in_range_prefix _ _ _ _ Hr).
      rewrite (run0_read_in _ _ _ _ _ (in_range_prefix _ _ _ _ Hr)). apply IH. }
    destruct (fl c) as [| |m].
    + destruct (in_range (firstn n f) off len) eqn:Hr; [now apply Hin | right; right; reflexivity].
    + right; right; reflexivity.
    + destruct ((len <=? m) && in_range (firstn n f) off len) eqn:Hr.
      * apply andb_true_iff in Hr. destruct Hr as [_ Hr]. rewrite Hr in Hin. now apply Hin.
      * right; right; reflexivity.
  - (* ReadAtShort *)
    cbn [run].
    rewrite run0_short.
    assert (Hgen : forall g', g' <= avail (firstn n f) off len ->
       refines3 (fst (run (firstn n f) fl (S c)
                        (k (firstn (N.to_nat g') (rd (firstn n f) off len) ++ zeros (N.to_nat (len - g'))) g')))
                (run0 f (k (padded f off len) (avail f off len)))).
    { intros g' Hg'.
      pose proof (avail_prefix_le n f off len) as Hav.
      pose proof (avail_le_len f off len) as Hal.
      destruct (Hs (padded f off len)
                   (firstn (N.to_nat g') (rd (firstn n f) off len) ++ zeros (N.to_nat (len - g')))
                   (avail f off len) g') as [E|E].
      - blia.
      - exact Hal.
      - unfold padded. rewrite blen_app, blen_zeros. fold (avail f off len). blia.
      - rewrite blen_app, blen_zeros. unfold blen. rewrite firstn_length.
        unfold avail, blen in *. blia.
      - (* the two buffers agree on the first g' bytes *)
        unfold padded.
        rewrite firstn_app_pad.
        2:{ unfold avail, blen in Hg'. blia. }
        rewrite rd_prefix. rewrite firstn_firstn.
        replace (Nat.min (N.to_nat g') (N.to_nat (avail (firstn n f) off len))) with (N.to_nat g') by blia.
        rewrite <- (firstn_all_rd f off len) at 2.
        rewrite firstn_app_pad'.
        + reflexivity.
        + blia.
        + unfold avail, blen. blia.
      - rewrite E. apply IH.
      - rewrite E. right; right; reflexivity. }
    destruct (fl c) as [| |m].
    + cbn [limit]. apply Hgen. blia.
    + right; right; reflexivity.
    + cbn [limit]. apply Hgen. blia.
  - (* Swallow, converted to a failure *)
    cbn [run]. rewrite run0_swallow.
    specialize (IHp f n fl c).
    destruct (run (firstn n f) fl c p) as [o' c'] eqn:E. cbn [fst] in IHp.
    destruct IHp as [IHp|[IHp|IHp]].
    + rewrite IHp. left; reflexivity.
    + rewrite <- IHp. destruct o'.
      * apply IHk.
      * rewrite Hd. right; right; reflexivity.
      * left; reflexivity.
    + subst o'. rewrite Hd. right; right; reflexivity.
  - (* Swallow, result ignored *)
    cbn [run]. rewrite run0_swallow.
    specialize (IHp f n fl c).
    destruct (run (firstn n f) fl c p) as [o' c'] eqn:E. cbn [fst] in IHp.
    assert (Hint : run0 f p = Panic \/
                   match run0 f p with Ok b => run0 f (k b) | Err => run0 f (k d) | Panic => Panic end = run0 f (k d)).
    { destruct (run0 f p); [right; now rewrite Hig | right; reflexivity | left; reflexivity]. }
    destruct Hint as [Hint|Hint].
    { rewrite Hint. left; reflexivity. }
    rewrite Hint.
    destruct IHp as [IHp|[IHp|IHp]].
    + rewrite IHp in Hint. left. symmetry. exact Hint.
    + destruct o'.
      * rewrite Hig. apply IHkd.
      * apply IHkd.
      * rewrite <- IHp in Hint. left. symmetry. exact Hint.
    + subst o'. apply IHkd.
  - (* Swallow of a signature read, followed by a strict read of the same place *)
    rewrite run_swallow_eq. rewrite run0_swallow.
    destruct (run_sigread (firstn n f) fl c off len) as [[E Hr']|E]; rewrite E.
    + pose proof (in_range_prefix _ _ _ _ Hr') as Hr.
      rewrite (rd_in_range_prefix _ _ _ _ Hr').
      rewrite (run0_read_in _ _ _ _ _ Hr). unfold run0 at 1. cbn [run fst]. apply IHk.
    + destruct (in_range f off len) eqn:Hr.
      * rewrite (run0_read_in _ _ _ _ _ Hr). unfold run0 at 1. cbn [run fst].
        destruct (Hsig (rd f off len)) as [Hs|Hs].
        -- rewrite Hs. apply IHk.
        -- (* the strict re-read on the damaged file fails or sees a buffer that starts with the signature *)
           rewrite Hkd. cbn [run].
           assert (Hbuf : in_range (firstn n f) off len' = true ->
                          k' (rd (firstn n f) off len') = Fail).
           { intros Hr'. apply Hs. rewrite (rd_in_range_prefix _ _ _ _ Hr').
             now apply rd_rd_prefix. }
           destruct (fl (S c)) as [| |m].
           ++ destruct (in_range (firstn n f) off len') eqn:Hr'; [rewrite (Hbuf eq_refl)|]; right; right; reflexivity.
           ++ right; right; reflexivity.
           ++ destruct ((len' <=? m) && in_range (firstn n f) off len') eqn:Hr'.
              ** apply andb_true_iff in Hr'. destruct Hr' as [_ Hr']. rewrite (Hbuf Hr'). right; right; reflexivity.
              ** right; right; reflexivity.
      * rewrite (run0_read_out _ _ _ _ _ Hr). apply IHk.
Qed.

(* ------------------------------------------------------------------ corollaries in the words of the property *)

Lemma firstn_whole {A} (f : list A) : firstn (length f) f = f.
Proof. apply firstn_all. Qed.

Corollary trunc_monotone A (p : prog A) : strict p -> forall f n, (n <= length f)%nat ->
  run0 f p <> Panic ->
  run0 (firstn n f) p = run0 f p \/ run0 (firstn n f) p = Err.
Proof.
  intros H f n _ Hnp. destruct (strict_refines A p H f n nofault 0%nat) as [E|[E|E]]; auto. contradiction.
Qed.

Corollary fault_monotone A (p : prog A) : strict p -> forall f k ft,
  run0 f p <> Panic ->
  fst (run f (fault_at k ft) 0 p) = run0 f p \/ fst (run f (fault_at k ft) 0 p) = Err.
Proof.
  intros H f k ft Hnp.
  pose proof (strict_refines A p H f (length f) (fault_at k ft) 0%nat) as R.
  rewrite firstn_whole in R. destruct R as [E|[E|E]]; auto. contradiction.
Qed.

(* truncation and any combination of failing / short calls together *)
Corollary damage_monotone A (p : prog A) : strict p -> forall f n fl c,
  run0 f p <> Panic ->
  fst (run (firstn n f) fl c p) = run0 f p \/ fst (run (firstn n f) fl c p) = Err.
Proof.
  intros H f n fl c Hnp. destruct (strict_refines A p H f n fl c) as [E|[E|E]]; auto. contradiction.
Qed.

Corollary no_panic A (p : prog A) : strict p -> forall f n fl c,
  run0 f p <> Panic -> fst (run (firstn n f) fl c p) <> Panic.
Proof.
  intros H f n fl c Hnp. destruct (damage_monotone A p H f n fl c Hnp) as [E|E]; rewrite E; [exact Hnp | discriminate].
Qed.

(* ------------------------------------------------------------------ closure properties used by the transcriptions *)

Lemma bind_fail {A B} (g : A -> prog B) : bind Fail g = Fail.
Proof. reflexivity. Qed.

Lemma strict_bind : forall A (p : prog A), strict p -> forall B (g : A -> prog B),
  (forall a, strict (g a)) -> strict (bind p g).
Proof.
  intros A p H.
  induction H as [A a|A|A|A off len k Hk IH|A off len k Hk IH Hs
                 |A B0 p d k Hp IHp Hk IHk Hd|A B0 p d k Hp IHp Hig Hkd IHkd
                 |A off len len' d k k' Hle Hkd Hk IHk Hsig]; intros B g Hg; cbn [bind].
  - apply Hg.
  - constructor.
  - constructor.
  - constructor. intros b. now apply IH.
  - constructor.
    + intros b n. now apply IH.
    + intros b b' n n' H1 H2 L1 L2 H3. destruct (Hs b b' n n' H1 H2 L1 L2 H3) as [E|E]; rewrite E; [left|right]; reflexivity.
  - apply st_swallow_fail; [exact Hp | intros b; now apply IHk | now rewrite Hd].
  - apply st_swallow_ignore; [exact Hp | intros b; now rewrite Hig | now apply IHkd].
  - apply (st_swallow_reread B off len len' d (fun x => bind (k x) g) (fun x => bind (k' x) g));
      [exact Hle | now rewrite Hkd | intros b; now apply IHk | ].
    intros sg. destruct (Hsig sg) as [E|E]; [left; now rewrite E | right; intros b Hb; now rewrite (E b Hb)].
Qed.

Lemma strict_lift A (o : outcome A) : strict (lift o).
Proof. destruct o; constructor. Qed.

(* the simplest form of short_safe: the count is compared with need, and only the first need bytes are decoded *)
Lemma short_safe_need A len need (dec : bytes -> prog A) :
  need <= len ->
  (forall b b', firstn (N.to_nat need) b' = firstn (N.to_nat need) b -> dec b' = dec b) ->
  short_safe len (fun b g => if g <? need then Fail else dec b).
Proof.
  intros Hn Hdec b b' g g' H1 H2 _ _ H3.
  destruct (g' <? need) eqn:E'.
  - right; reflexivity.
  - apply N.ltb_ge in E'. assert (E : g <? need = false) by (apply N.ltb_ge; blia). rewrite E.
    left. apply Hdec.
    transitivity (firstn (N.to_nat need) (firstn (N.to_nat g') b')).
    { rewrite firstn_firstn. f_equal. blia. }
    rewrite H3. rewrite firstn_firstn. f_equal. blia.
Qed.

(* run of a bind *)
Lemma run_bind : forall A (p : prog A) B (g : A -> prog B) f fl c,
  run f fl c (bind p g) =
  match run f fl c p with
  | (Ok a, c') => run f fl c' (g a)
  | (Err, c') => (Err, c')
  | (Panic, c') => (Panic, c')
  end.
Proof.
  intros A p. induction p as [A a|A|A|A off len k IH|A off len k IH|A B0 p IHp d k IHk] using prog_ind;
    intros B g f fl c; cbn [bind run].
  - reflexivity.
  - reflexivity.
  - reflexivity.
  - destruct (fl c) as [| |m].
    + destruct (in_range f off len); [apply IH | reflexivity].
    + reflexivity.
    + destruct ((len <=? m) && in_range f off len); [apply IH | reflexivity].
  - destruct (fl c) as [| |m]; [apply IH | reflexivity | apply IH].
  - destruct (run f fl c p) as [o c']. destruct o; [apply IHk | apply IHk | reflexivity].
Qed.

(* ------------------------------------------------------------------ the side conditions are necessary *)

(* Pre-fix shape of ReadSuperblock (before /repo 07228cc) and of the dense attribute readers (before d9e66d7):
   the count is checked against 8 although 16 bytes are decoded. *)
Definition short_unchecked : prog N :=
  ReadAtShort 0 16 (fun b g => if g <? 8 then Fail else Ret (unle (firstn 8 (skipn 8 b)))).

Definition file16 : bytes := [1;2;3;4;5;6;7;8;9;10;11;12;13;14;15;16].

Lemma trunc_short_refuted :
  exists f n, (n <= length f)%nat /\ run0 f short_unchecked <> Panic /\
              run0 (firstn n f) short_unchecked <> run0 f short_unchecked /\
              run0 (firstn n f) short_unchecked <> Err.
Proof.
  exists file16, 12%nat. split; [cbn; blia|]. split; [|split]; vm_compute; discriminate.
Qed.

Lemma short_unchecked_not_safe :
  ~ short_safe 16 (fun b g => if g <? 8 then Fail else Ret (unle (firstn 8 (skipn 8 b)))).
Proof.
  intros H.
  destruct (H file16 (firstn 12 file16 ++ zeros 4) 16 12) as [E|E].
  - blia.
  - blia.
  - reflexivity.
  - reflexivity.
  - reflexivity.
  - vm_compute in E. discriminate.
  - vm_compute in E. discriminate.
Qed.

(* the repaired shape satisfies the side condition (short_safe_need) *)
Definition short_checked : prog N :=
  ReadAtShort 0 16 (fun b g => if g <? 16 then Fail else Ret (unle (firstn 8 (skipn 8 b)))).
Lemma short_checked_strict : strict short_checked.
Proof.
  apply st_short.
  - intros b g. destruct (g <? 16); constructor.
  - apply (short_safe_need N 16 16 (fun b => Ret (unle (firstn 8 (skipn 8 b))))); [blia|].
    intros b b' E. f_equal. f_equal.
    rewrite (firstn_skipn_comm 8 8 b'), (firstn_skipn_comm 8 8 b).
    change (8 + 8)%nat with (N.to_nat 16). now rewrite E.
Qed.

(* Pre-fix shape of loadModernGroup (before /repo a539b60): `child, err := loadObject(...); if err != nil { continue }`.
   Two members, each needs its 4 bytes; a member that cannot be read is left out of the listing. *)
Definition member (off : N) : prog (list N) := ReadAt off 4 (fun b => Ret [unle b]).
Definition listing_skipping : prog (list N) :=
  Swallow (member 0) [] (fun a => Swallow (member 4) [] (fun b => Ret (a ++ b))).
Definition file8 : bytes := [1;0;0;0;2;0;0;0].

Lemma trunc_swallow_refuted :
  exists f n, (n <= length f)%nat /\
              run0 f listing_skipping = Ok [1; 2] /\
              run0 (firstn n f) listing_skipping = Ok [1].      (* a member is silently omitted *)
Proof. exists file8, 6%nat. split; [cbn; blia | split; vm_compute; reflexivity]. Qed.

Lemma fault_swallow_refuted :
  exists f k, run0 f listing_skipping = Ok [1; 2] /\
              fst (run f (fault_at k FailIO) 0 listing_skipping) = Ok [2].
Proof. exists file8, 0%nat. split; vm_compute; reflexivity. Qed.

(* the repaired shape: the error is returned *)
Definition listing_failing : prog (list N) :=
  bind (member 0) (fun a => bind (member 4) (fun b => Ret (a ++ b))).
Lemma listing_failing_strict : strict listing_failing.
Proof.
  unfold listing_failing, member. cbn [bind]. constructor. intros b. constructor. intros b'. constructor.
Qed.

(* ------------------------------------------------------------------ writer programs *)

Definition noflt : nat -> bool := fun _ => false.

(* a program without dropped errors returns an error as soon as one of its I/O calls fails *)
Theorem w_fault_err : forall A (p : wprog A), wstrict p ->
  forall f fl torn c,
    (exists i, (c <= i)%nat /\ (i < snd (wrun f noflt torn c p))%nat /\ fl i = true) ->
    fst (fst (wrun f fl torn c p)) = Err.
Proof.
  intros A p. induction p as [A a|A|A off data k IH|A k IH|A size k IH|A k IH|A q IHq k IHk] using wprog_ind; intros Hs f fl torn c [i [H1 [H2 H3]]];
    cbn [wrun wstrict noflt] in *.
  - cbn [snd] in H2. blia.
  - reflexivity.
  - destruct (fl c) eqn:E; [reflexivity|].
    apply IH; auto. exists i. repeat split; auto.
    destruct (Nat.eq_dec i c) as [->|]; [congruence | blia].
  - destruct (fl c) eqn:E; [reflexivity|].
    apply IH; auto. exists i. repeat split; auto.
    destruct (Nat.eq_dec i c) as [->|]; [congruence | blia].
  - destruct (fl c) eqn:E; [reflexivity|].
    apply IH; auto. exists i. repeat split; auto.
    destruct (Nat.eq_dec i c) as [->|]; [congruence | blia].
  - destruct (fl c) eqn:E; [reflexivity|].
    apply IH; auto. exists i. repeat split; auto.
    destruct (Nat.eq_dec i c) as [->|]; [congruence | blia].
  - contradiction.
Qed.

Lemma wrun_counter_mono : forall A (p : wprog A), wstrict p ->
  forall f torn c, (c <= snd (wrun f noflt torn c p))%nat.
Proof.
  intros A p. induction p as [A a|A|A off data k IH|A k IH|A size k IH|A k IH|A q IHq k IHk] using wprog_ind;
    intros Hs f torn c; cbn [wrun wstrict noflt snd] in *; try blia; try contradiction.
  - specialize (IH Hs (write_at f off data) torn (S c)). blia.
  - specialize (IH Hs f torn (S c)). blia.
  - specialize (IH Hs (truncate_to f size) torn (S c)). blia.
  - specialize (IH Hs f torn (S c)). blia.
Qed.

(* and without a failing call the run is the fault-free run *)
Theorem w_nofault_same : forall A (p : wprog A), wstrict p ->
  forall f fl torn c,
    (forall i, (c <= i)%nat -> (i < snd (wrun f noflt torn c p))%nat -> fl i = false) ->
    wrun f fl torn c p = wrun f noflt torn c p.
Proof.
  intros A p. induction p as [A a|A|A off data k IH|A k IH|A size k IH|A k IH|A q IHq k IHk] using wprog_ind;
    intros Hs f fl torn c Hn; cbn [wrun wstrict noflt] in *; try reflexivity; try contradiction.
  - pose proof (wrun_counter_mono A k Hs (write_at f off data) torn (S c)) as M.
    rewrite (Hn c) by blia. apply IH; auto. intros i Hi1 Hi2. apply Hn; [blia | exact Hi2].
  - pose proof (wrun_counter_mono A k Hs f torn (S c)) as M.
    rewrite (Hn c) by blia. apply IH; auto. intros i Hi1 Hi2. apply Hn; [blia | exact Hi2].
  - pose proof (wrun_counter_mono A k Hs (truncate_to f size) torn (S c)) as M.
    rewrite (Hn c) by blia. apply IH; auto. intros i Hi1 Hi2. apply Hn; [blia | exact Hi2].
  - pose proof (wrun_counter_mono A k Hs f torn (S c)) as M.
    rewrite (Hn c) by blia. apply IH; auto. intros i Hi1 Hi2. apply Hn; [blia | exact Hi2].
Qed.

(* what the file holds when the first failing call is the j-th call of the program (0-based, counted from c):
   the calls before it were applied completely, the failing one (if a write) up to torn bytes, nothing after it *)
Fixpoint wfile_upto {A} (f : bytes) (p : wprog A) (j : nat) (t : nat) : bytes :=
  match p with
  | WRet _ | WFail => f
  | WriteAt off data k => match j with O => write_at f off (firstn t data) | S j' => wfile_upto (write_at f off data) k j' t end
  | WSync k | WClose k => match j with O => f | S j' => wfile_upto f k j' t end
  | WTruncate size k => match j with O => f | S j' => wfile_upto (truncate_to f size) k j' t end
  | WSwallow _ _ => f
  end.

Theorem w_fault_file : forall A (p : wprog A), wstrict p ->
  forall f fl torn c j,
    (forall i, (c <= i)%nat -> (i < c + j)%nat -> fl i = false) -> fl (c + j)%nat = true ->
    (c + j < snd (wrun f noflt torn c p))%nat ->
    snd (fst (wrun f fl torn c p)) = wfile_upto f p j (torn (c + j)%nat).
Proof.
  intros A p. induction p as [A a|A|A off data k IH|A k IH|A size k IH|A k IH|A q IHq k IHk] using wprog_ind; intros Hs f fl torn c j Hn Hf Hlt;
    cbn [wrun wstrict noflt wfile_upto] in *; try contradiction.
  - cbn [snd] in Hlt. blia.
  - reflexivity.
  - destruct j as [|j'].
    + rewrite Nat.add_0_r in *. rewrite Hf. reflexivity.
    + rewrite (Hn c) by blia. replace (c + S j')%nat with (S c + j')%nat in * by blia. apply IH; auto. intros i Hi1 Hi2. apply Hn; blia.
  - destruct j as [|j'].
    + rewrite Nat.add_0_r in *. rewrite Hf. reflexivity.
    + rewrite (Hn c) by blia. replace (c + S j')%nat with (S c + j')%nat in * by blia. apply IH; auto. intros i Hi1 Hi2. apply Hn; blia.
  - destruct j as [|j'].
    + rewrite Nat.add_0_r in *. rewrite Hf. reflexivity.
    + rewrite (Hn c) by blia. replace (c + S j')%nat with (S c + j')%nat in * by blia. apply IH; auto. intros i Hi1 Hi2. apply Hn; blia.
  - destruct j as [|j'].
    + rewrite Nat.add_0_r in *. rewrite Hf. reflexivity.
    + rewrite (Hn c) by blia. replace (c + S j')%nat with (S c + j')%nat in * by blia. apply IH; auto. intros i Hi1 Hi2. apply Hn; blia.
Qed.

(* a dropped write error: the call reports success although a write failed *)
Definition w_dropping : wprog unit := WSwallow (WriteAt 0 [1;2;3;4] (WRet tt)) (WRet tt).
Lemma w_swallow_refuted :
  exists fl, fl 0%nat = true /\ fst (fst (wrun [] fl (fun _ => 0%nat) 0 w_dropping)) = Ok tt.
Proof. exists (fun _ => true). split; reflexivity. Qed.
