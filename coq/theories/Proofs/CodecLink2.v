(* Lemmas for C11, group 6b: the second link-message parser (internal/structures/linkmessage.go):
   it inverts core.EncodeLinkMessage, and it agrees with the first parser wherever both accept. *)
From HV Require Import Base.Prelude Base.Outcome Base.Bytes Model.CodecMsg Model.CodecLink Model.CodecLink2
  Proofs.CodecMsg Proofs.CodecLink.

(* ------------------------------------------------------------------ small facts *)

Lemma leb_ltb1 a b : (a <=? b) = (a <? b + 1).
Proof. destruct (N.leb_spec a b), (N.ltb_spec a (b + 1)); auto; blia. Qed.

(* one byte read as a slice and as an index *)
Lemma slice1 (data : list N) o : o < blen data ->
  exists b, slice data o (o + 1) = Ok [b] /\ index data o = Ok b.
Proof.
  intros H. unfold index, slice. bnorm.
  destruct (nth_error data (N.to_nat o)) as [b|] eqn:E.
  - exists b. apply nth_error_split in E as (l1 & l2 & -> & Hl).
    replace ((o <=? o + 1) && (o + 1 <=? blen (l1 ++ b :: l2))) with true
      by (symmetry; apply andb_true_iff; split; apply N.leb_le; blia).
    split; auto. f_equal. rewrite <- Hl.
    rewrite skipn_app, skipn_all, Nat.sub_diag. cbn [skipn app].
    replace (N.to_nat (o + 1 - o)) with 1%nat by blia. reflexivity.
  - apply nth_error_None in E. unfold blen in H. blia.
Qed.

Lemma rd_le1 (data : list N) o : o < blen data -> rd_le data o 1 = index data o.
Proof.
  intros H. destruct (slice1 data o H) as (b & Hs & Hi). unfold rd_le. bnorm. rewrite Hs, Hi.
  cbn [obind unle]. f_equal. blia.
Qed.

Lemma un_end1 be (b : N) : un_end be [b] = b.
Proof. destruct be; unfold un_end, unbe; cbn [rev app unle]; blia. Qed.

Lemma blen_ge2 (a b : N) (r : list N) : (blen (a :: b :: r) <? 2) = false.
Proof. apply N.ltb_ge. unfold blen. cbn [length]. blia. Qed.

(* ------------------------------------------------------------------ the two parsers read the same header *)

Definition hdr12 (t : N * N * N * N * N) : N * N * N * bool * N * N :=
  let '(f, ty, co, cs, off) := t in (f, ty, co, lk_has_corder f, cs, off).

Ltac hstep :=
  cbn [obind omap hdr12]; cbv beta iota; rewrite ?leb_ltb1;
  try match goal with H : lk_has_corder _ = _ |- _ => rewrite ?H end; try reflexivity;
  match goal with
  | |- context [if ?c then _ else _] => destruct c
  | |- context [obind (index ?d ?i) _] => destruct (index d i)
  | |- context [obind (rd_le ?d ?i ?k) _] => destruct (rd_le d i k)
  end.

Lemma link2_header_eq data : dec_link2_header data = omap hdr12 (dec_link_header data).
Proof.
  destruct data as [|a [|b rest]]; [reflexivity | reflexivity |].
  unfold dec_link2_header, dec_link_header. rewrite blen_ge2, index0, index1.
  set (D := a :: b :: rest). cbn [obind].
  destruct (negb (a =? 1)); [reflexivity|].
  destruct (lk_has_corder b) eqn:B2; repeat hstep.
Qed.

Lemma land3_cases f : N.land f 3 = 0 \/ N.land f 3 = 1 \/ N.land f 3 = 2 \/ N.land f 3 = 3.
Proof.
  change 3 with (N.ones 2). rewrite N.land_ones.
  assert (H : f mod 2 ^ 2 < 4) by (apply N.mod_lt; discriminate).
  exact (flags_lt4 _ H).
Qed.

Lemma link2_namelen_eq data off f : dec_link2_namelen data off f = dec_link_namelen data off f.
Proof.
  unfold dec_link2_namelen, dec_link_namelen, lk_lensize.
  destruct (land3_cases f) as [E | [E | [E | E]]]; rewrite E; cbn [N.eqb Pos.eqb]; cbv iota.
  - change (N.shiftl 1 0) with 1. rewrite leb_ltb1.
    destruct (N.ltb_spec (blen data) (off + 1)); auto.
    rewrite rd_le1 by blia. reflexivity.
  - reflexivity.
  - reflexivity.
  - reflexivity.
Qed.

(* ------------------------------------------------------------------ round trip with core's encoder *)

Lemma link2_name_dec (pre name rest : list N) :
  1 <= blen name ->
  dec_link2_name (pre ++ name ++ rest) (blen pre) (blen name) = Ok (name, blen pre + blen name).
Proof.
  intros H. unfold dec_link2_name.
  replace (blen name =? 0) with false by (symmetry; apply N.eqb_neq; blia).
  replace (blen (pre ++ name ++ rest) - blen pre <? blen name) with false
    by (symmetry; apply N.ltb_ge; rewrite !blen_app; blia).
  rewrite slice_app by reflexivity. reflexivity.
Qed.

Lemma link2_value_dec os be (pre v : list N) ty :
  link_value_ok2 os ty v = true ->
  dec_link2_value os be (pre ++ v) (blen pre) ty
  = Ok (if ty =? 0 then un_end be v else 0, if ty =? 1 then skipn 2 v else []).
Proof.
  unfold link_value_ok2, dec_link2_value. intros H.
  destruct (ty =? 0) eqn:T0.
  - apply andb_true_iff in H as [Hl Hs]. apply N.eqb_eq in Hl. apply size1248_of_bool in Hs.
    apply N.eqb_eq in T0. subst ty. change (0 =? 1) with false. cbv iota.
    rewrite blen_app. replace (blen pre + blen v <? blen pre + os) with false by (symmetry; apply N.ltb_ge; blia).
    destruct Hs as [E | [E | [E | E]]]; rewrite E in *; cbn [N.eqb Pos.eqb]; cbv iota.
    + destruct v as [|b [|c r]]; try (unfold blen in Hl; cbn [length] in Hl; blia).
      rewrite index_app by reflexivity. cbn [obind]. now rewrite un_end1.
    + unfold rd_end, rd_be, rd_le. rewrite slice_app_end by (auto; blia). destruct be; reflexivity.
    + unfold rd_end, rd_be, rd_le. rewrite slice_app_end by (auto; blia). destruct be; reflexivity.
    + unfold rd_end, rd_be, rd_le. rewrite slice_app_end by (auto; blia). destruct be; reflexivity.
  - destruct (ty =? 1) eqn:T1.
    + apply andb_true_iff in H as [H3 Hn]. apply N.leb_le in H3. apply N.eqb_eq in Hn.
      rewrite blen_app.
      replace (blen pre + blen v <? blen pre + 2) with false by (symmetry; apply N.ltb_ge; blia).
      unfold rd_le.
      replace (blen pre + 2) with (blen pre + 0 + 2) at 1 by blia.
      replace (blen pre) with (blen pre + 0) at 1 by blia.
      rewrite slice_mid_firstn by blia. cbn [obind]. change (N.to_nat 0) with 0%nat. change (skipn 0 v) with v.
      change (N.to_nat 2) with 2%nat. bnorm. rewrite Hn.
      replace (blen v - 2 =? 0) with false by (symmetry; apply N.eqb_neq; blia).
      replace (blen pre + blen v <? blen pre + 2 + (blen v - 2)) with false by (symmetry; apply N.ltb_ge; blia).
      rewrite slice_mid_firstn by blia. cbn [obind].
      f_equal. f_equal. change (N.to_nat 2) with 2%nat. apply firstn_all2.
      unfold blen in *. rewrite skipn_length. blia.
    + apply N.leb_le in H.
      rewrite blen_app.
      replace (blen pre + blen v <? blen pre + 2) with false by (symmetry; apply N.ltb_ge; blia).
      unfold rd_le.
      replace (blen pre + 2) with (blen pre + 0 + 2) at 1 by blia.
      replace (blen pre) with (blen pre + 0) at 1 by blia.
      rewrite slice_mid_firstn by blia. reflexivity.
Qed.

Lemma wf_link2_inv os be x : wf_link2 os be x = true ->
  lk_version x = 1 /\ lk_corder x < 256 ^ 8 /\ 1 <= blen (lk_name x) /\
  blen (lk_name x) < 256 ^ lk_lensize (lk_flags x) /\
  (lk_has_type (lk_flags x) = false -> lk_type x = 0) /\
  (lk_has_corder (lk_flags x) = false -> lk_corder x = 0) /\
  (lk_has_charset (lk_flags x) = false -> lk_charset x = 0) /\
  link_value_ok2 os (lk_type x) (lk_value x) = true.
Proof.
  unfold wf_link2, encok_link. intros H.
  apply andb_true_iff in H as [H H12]. apply andb_true_iff in H as [H H11].
  apply andb_true_iff in H as [H H10]. apply andb_true_iff in H as [H H9].
  apply andb_true_iff in H as [H H8]. apply andb_true_iff in H as [H H7].
  apply andb_true_iff in H as [H H6]. apply andb_true_iff in H as [H H5].
  apply andb_true_iff in H as [H H4]. apply andb_true_iff in H as [H H3].
  apply andb_true_iff in H as [H H2]. apply andb_true_iff in H as [Hv Hl].
  apply N.eqb_eq in Hv. apply N.ltb_lt in H5, H7. apply N.leb_le in H6.
  repeat (split; auto).
  - apply orb_true_iff in Hl as [E|E].
    + apply N.eqb_eq in E. rewrite E. change (256 ^ 8) with 18446744073709551616. blia.
    + apply N.ltb_lt in E. exact E.
  - intros E. rewrite E in H9. cbn [orb] in H9. apply N.eqb_eq in H9. exact H9.
  - intros E. rewrite E in H10. cbn [orb] in H10. apply N.eqb_eq in H10. exact H10.
  - intros E. rewrite E in H11. cbn [orb] in H11. apply N.eqb_eq in H11. exact H11.
Qed.

Lemma link2_roundtrip os be x : wf_link2 os be x = true ->
  dec_link2 os be (enc_link x) = Ok (proj_link2 os be x).
Proof.
  intros Hwf. apply wf_link2_inv in Hwf as (Hv & Hco & Hn1 & Hnf & Ht & Hc & Hs & Hval).
  rewrite enc_link_shape by auto.
  destruct x as [ver f ty co cs name v]; cbn [lk_version lk_flags lk_type lk_corder lk_charset lk_name lk_value] in *.
  subst ver. unfold dec_link2, proj_link2.
  cbn [lk_version lk_flags lk_type lk_corder lk_charset lk_name lk_value].
  rewrite link2_header_eq.
  bnorm. rewrite link_header_dec by auto. cbn [omap hdr12 obind]. cbv beta iota.
  rewrite link2_namelen_eq.
  brewrite (link_namelen_dec (link_hdr f ty co cs) (name ++ v) f (blen name)) by auto.
  cbn [obind]. cbv beta iota.
  set (Hd := link_hdr f ty co cs) in *. set (L := le (N.to_nat (lk_lensize f)) (blen name)) in *.
  assert (EL : blen Hd + lk_lensize f = blen (Hd ++ L)) by (subst L; rewrite blen_app, blen_le; blia).
  rewrite EL. rewrite (app_assoc Hd L).
  rewrite (link2_name_dec (Hd ++ L) name v) by auto. cbn [obind]. cbv beta iota.
  rewrite <- (blen_app (Hd ++ L) name).
  rewrite (app_assoc (Hd ++ L) name).
  rewrite (link2_value_dec os be ((Hd ++ L) ++ name) v ty) by auto. cbn [obind]. cbv beta iota.
  destruct (lk_has_corder f) eqn:B2; [reflexivity|]. reflexivity.
Qed.

(* a value the first parser's round-trip theorem covers is covered here as soon as the three extra
   requirements hold *)
Lemma wf_link2_of_wf_link os be x :
  wf_link os x = true -> 1 <= blen (lk_name x) ->
  (lk_type x = 0 -> size1248 os) -> (lk_type x = 1 -> 3 <= blen (lk_value x)) ->
  wf_link2 os be x = true.
Proof.
  unfold wf_link, wf_link2. intros H Hn Hh Hsft.
  apply andb_true_iff in H as [H H11]. apply andb_true_iff in H as [H H10].
  apply andb_true_iff in H as [H H9]. apply andb_true_iff in H as [H H8].
  apply andb_true_iff in H as [H H7]. apply andb_true_iff in H as [H H6].
  apply andb_true_iff in H as [H H5]. apply andb_true_iff in H as [H H4].
  apply andb_true_iff in H as [H H3]. apply andb_true_iff in H as [H H2].
  rewrite H, H2, H3, H4, H5, H7, H8, H9, H10. cbn [andb].
  apply N.leb_le in H6.
  replace (1 <=? blen (lk_name x)) with true by (symmetry; apply N.leb_le; exact Hn).
  replace (blen (lk_name x) <? 9223372036854775808) with true by (symmetry; apply N.ltb_lt; blia).
  cbn [andb].
  unfold link_value_ok in H11. unfold link_value_ok2.
  destruct (lk_type x =? 0) eqn:T0.
  - rewrite H11. cbn [andb]. apply N.eqb_eq in T0.
    destruct (Hh T0) as [-> | [-> | [-> | ->]]]; reflexivity.
  - destruct (lk_type x =? 1) eqn:T1.
    + apply N.eqb_eq in T1. apply andb_true_iff in H11 as [_ H11]. rewrite H11.
      replace (3 <=? blen (lk_value x)) with true by (symmetry; apply N.leb_le; auto). reflexivity.
    + destruct (lk_type x =? 64); [|discriminate].
      apply andb_true_iff in H11 as [H11 _]. apply N.leb_le in H11. apply N.leb_le. blia.
Qed.

(* ------------------------------------------------------------------ agreement of the two parsers, all inputs *)

Lemma link_parsers_agree os be data x y :
  dec_link os data = Ok x -> dec_link2 os be data = Ok y -> y = link2_of_link be x.
Proof.
  unfold dec_link, dec_link2. rewrite link2_header_eq.
  destruct (dec_link_header data) as [[[[[f ty] co] cs] off] | |]; cbn [obind omap hdr12]; try discriminate.
  cbv beta iota. rewrite link2_namelen_eq.
  destruct (dec_link_namelen data off f) as [[nl off2] | |]; cbn [obind]; try discriminate.
  cbv beta iota. unfold dec_link_name, dec_link2_name.
  destruct (1048576 <? nl); [discriminate|].
  destruct (blen data <? off2 + nl); [discriminate|].
  destruct (nl =? 0); [discriminate|].
  destruct (blen data - off2 <? nl); [discriminate|].
  destruct (slice data off2 (off2 + nl)) as [name | |]; cbn [obind]; try discriminate.
  cbv beta iota. set (o := off2 + nl).
  unfold dec_link_value, dec_link2_value, link2_of_link.
  destruct (ty =? 0) eqn:T0.
  - (* hard link *)
    destruct (N.ltb_spec (blen data) (o + os)) as [L|L]; [discriminate|].
    destruct (os =? 1) eqn:O1.
    { apply N.eqb_eq in O1. subst os.
      destruct (slice1 data o) as (b & Hs & Hi); [blia|]. bnorm. rewrite Hs, Hi. cbn [obind].
      intros Hx Hy. injection Hx as <-. injection Hy as <-.
      cbn [lk_version lk_flags lk_type lk_corder lk_charset lk_name lk_value]. rewrite T0, un_end1.
      apply N.eqb_eq in T0. subst ty. reflexivity. }
    assert (R : forall k, rd_end be data o k = (s <- slice data o (o + k);; Ok (un_end be s)))
      by (intros k; unfold rd_end, rd_be, rd_le, un_end; destruct be; reflexivity).
    rewrite !R.
    destruct (os =? 2) eqn:O2; [apply N.eqb_eq in O2; subst os|
    destruct (os =? 4) eqn:O4; [apply N.eqb_eq in O4; subst os|
    destruct (os =? 8) eqn:O8; [apply N.eqb_eq in O8; subst os|]]];
    try (destruct (slice data o _) as [s | |]; cbn [obind]; try discriminate;
         intros Hx Hy; injection Hx as <-; injection Hy as <-;
         cbn [lk_version lk_flags lk_type lk_corder lk_charset lk_name lk_value]; rewrite T0;
         apply N.eqb_eq in T0; subst ty; reflexivity).
  - destruct (ty =? 1) eqn:T1.
    + (* soft link *)
      destruct (blen data <? o + 2); [discriminate|].
      destruct (rd_le data o 2) as [tl | |]; cbn [obind]; try discriminate.
      destruct (tl =? 0); [intros _ Hy; discriminate|].
      destruct (blen data <? o + 2 + tl); [discriminate|].
      destruct (slice data (o + 2) (o + 2 + tl)) as [p | |]; cbn [obind]; try discriminate.
      intros Hx Hy. injection Hx as <-. injection Hy as <-.
      cbn [lk_version lk_flags lk_type lk_corder lk_charset lk_name lk_value]. rewrite T0, T1. reflexivity.
    + (* other types: only 64 is accepted by the first parser *)
      destruct (ty =? 64); [|discriminate].
      destruct (blen data <? o + 2); [discriminate|].
      destruct (rd_le data o 2) as [fl | |]; cbn [obind]; try discriminate.
      intros Hx Hy. injection Hy as <-.
      destruct (blen data <? o + 2 + fl + 2); [discriminate|].
      destruct (rd_le data (o + 2 + fl) 2) as [pl | |]; cbn [obind] in Hx; try discriminate.
      destruct (blen data <? o + (2 + fl + 2 + pl)); [discriminate|].
      destruct (slice data o (o + (2 + fl + 2 + pl))) as [s | |]; cbn [obind] in Hx; try discriminate.
      injection Hx as <-.
      cbn [lk_version lk_flags lk_type lk_corder lk_charset lk_name lk_value]. rewrite T0, T1. reflexivity.
Qed.

(* the second parser returns on the encoder's output what it makes of the first parser's result *)
Lemma proj_link2_of_proj os be x : proj_link2 os be x = link2_of_link be (proj_link x).
Proof.
  unfold proj_link2, link2_of_link, proj_link.
  cbn [lk_version lk_flags lk_type lk_corder lk_charset lk_name lk_value].
  destruct (lk_type x =? 0) eqn:T0, (lk_type x =? 1) eqn:T1; try reflexivity.
  apply N.eqb_eq in T0, T1. congruence.
Qed.

(* ------------------------------------------------------------------ where the two parsers differ in outcome *)

Lemma slice_blen (data : list N) a b s : slice data a b = Ok s -> blen s = b - a.
Proof.
  unfold slice. destruct ((a <=? b) && (b <=? blen data)) eqn:E; [|discriminate].
  intros H. injection H as <-. apply andb_true_iff in E as [E1 E2]. apply N.leb_le in E1, E2.
  unfold blen in *. rewrite firstn_length, skipn_length. blia.
Qed.

(* whatever the first parser accepts, the second accepts too (with the corresponding value), EXCEPT an empty
   name, a hard link under an offset size other than 1,2,4,8, and a soft link with an empty path *)
Lemma link2_accepts os be data x :
  dec_link os data = Ok x -> 1 <= blen (lk_name x) ->
  (lk_type x = 0 -> size1248 os) -> (lk_type x = 1 -> 1 <= blen (lk_value x)) ->
  dec_link2 os be data = Ok (link2_of_link be x).
Proof.
  unfold dec_link, dec_link2. rewrite link2_header_eq.
  destruct (dec_link_header data) as [[[[[f ty] co] cs] off] | |]; cbn [obind omap hdr12]; try discriminate.
  cbv beta iota. rewrite link2_namelen_eq.
  destruct (dec_link_namelen data off f) as [[nl off2] | |]; cbn [obind]; try discriminate.
  cbv beta iota. unfold dec_link_name, dec_link2_name.
  destruct (1048576 <? nl); [discriminate|].
  destruct (N.ltb_spec (blen data) (off2 + nl)) as [L|L]; [discriminate|].
  destruct (slice data off2 (off2 + nl)) as [name | |] eqn:Sn; cbn [obind]; try discriminate.
  cbv beta iota. set (o := off2 + nl) in *.
  destruct (dec_link_value os data o ty) as [v | |] eqn:V; cbn [obind]; try discriminate.
  intros Hx. injection Hx as <-. cbn [lk_version lk_flags lk_type lk_corder lk_charset lk_name lk_value].
  intros Hn Hh Hs. apply slice_blen in Sn.
  replace (nl =? 0) with false by (symmetry; apply N.eqb_neq; blia).
  replace (blen data - off2 <? nl) with false by (symmetry; apply N.ltb_ge; blia).
  cbn [obind]. cbv beta iota. fold o.
  unfold link2_of_link. cbn [lk_version lk_flags lk_type lk_corder lk_charset lk_name lk_value].
  unfold dec_link_value in V. unfold dec_link2_value.
  destruct (ty =? 0) eqn:T0.
  - apply N.eqb_eq in T0. subst ty. change (0 =? 1) with false. cbv iota.
    destruct (N.ltb_spec (blen data) (o + os)) as [L2|L2]; [discriminate|].
    assert (R : forall k, rd_end be data o k = (s <- slice data o (o + k);; Ok (un_end be s)))
      by (intros k; unfold rd_end, rd_be, rd_le, un_end; destruct be; reflexivity).
    destruct (Hh eq_refl) as [-> | [-> | [-> | ->]]]; cbn [N.eqb Pos.eqb]; cbv iota; rewrite ?R.
    + destruct (slice1 data o) as (b & Hb & Hi); [blia|]. bnorm. rewrite Hi. rewrite Hb in V.
      injection V as <-. cbn [obind]. now rewrite un_end1.
    + bnorm. rewrite V. reflexivity.
    + bnorm. rewrite V. reflexivity.
    + bnorm. rewrite V. reflexivity.
  - destruct (ty =? 1) eqn:T1.
    + apply N.eqb_eq in T1. subst ty.
      destruct (blen data <? o + 2); [discriminate|].
      destruct (rd_le data o 2) as [tl | |]; cbn [obind] in *; try discriminate.
      destruct (blen data <? o + 2 + tl); [discriminate|].
      pose proof (slice_blen _ _ _ _ V) as Lv. specialize (Hs eq_refl).
      replace (tl =? 0) with false by (symmetry; apply N.eqb_neq; blia).
      bnorm. rewrite V. reflexivity.
    + destruct (ty =? 64); [|discriminate].
      destruct (blen data <? o + 2); [discriminate|].
      destruct (rd_le data o 2) as [fl | |]; cbn [obind] in *; try discriminate.
      reflexivity.
Qed.

(* a name longer than 1 MiB: the second parser reads it back (link2_roundtrip), the first refuses it *)
Lemma link_long_name_core_err os be x :
  wf_link2 os be x = true -> 1048576 < blen (lk_name x) -> dec_link os (enc_link x) = Err.
Proof.
  intros Hwf Hlong. apply wf_link2_inv in Hwf as (Hv & Hco & Hn1 & Hnf & Ht & Hc & Hs & Hval).
  rewrite enc_link_shape by auto.
  destruct x as [ver f ty co cs name v]; cbn [lk_version lk_flags lk_type lk_corder lk_charset lk_name lk_value] in *.
  subst ver. unfold dec_link.
  bnorm. rewrite link_header_dec by auto. cbn [obind]. cbv beta iota.
  brewrite (link_namelen_dec (link_hdr f ty co cs) (name ++ v) f (blen name)) by auto.
  cbn [obind]. cbv beta iota. unfold dec_link_name.
  replace (1048576 <? blen name) with true by (symmetry; apply N.ltb_lt; exact Hlong).
  reflexivity.
Qed.

(* byte strings on which the outcomes differ (offset size 8, little-endian) *)
Definition l2w_empty_name : bytes := [1; 0; 0; 1; 2; 3; 4; 5; 6; 7; 8].        (* hard link, name length 0 *)
Definition l2w_empty_soft : bytes := [1; 8; 1; 1; 108; 0; 0].                  (* soft link "l" -> "" *)
Definition l2w_type5      : bytes := [1; 8; 5; 1; 108; 0; 0].                  (* link type 5 *)
Definition l2w_short_ext  : bytes := [1; 8; 64; 1; 108; 0; 0].                 (* external link, 2 value bytes *)
Definition l2w_hard       : bytes := [1; 0; 1; 108; 1; 2; 3].                  (* hard link, offset size 3 *)

Lemma link2_empty_name_differs :
  dec_link 8 l2w_empty_name = Ok {| lk_version := 1; lk_flags := 0; lk_type := 0; lk_corder := 0; lk_charset := 0;
                                    lk_name := []; lk_value := [1; 2; 3; 4; 5; 6; 7; 8] |} /\
  dec_link2 8 false l2w_empty_name = Err.
Proof. vm_compute. split; reflexivity. Qed.

Lemma link2_empty_soft_differs :
  dec_link 8 l2w_empty_soft = Ok {| lk_version := 1; lk_flags := 8; lk_type := 1; lk_corder := 0; lk_charset := 0;
                                    lk_name := [108]; lk_value := [] |} /\
  dec_link2 8 false l2w_empty_soft = Err.
Proof. vm_compute. split; reflexivity. Qed.

Lemma link2_other_type_differs :
  dec_link 8 l2w_type5 = Err /\
  dec_link2 8 false l2w_type5 =
    Ok {| l2_version := 1; l2_flags := 8; l2_type := 5; l2_name := [108]; l2_corder := 0; l2_corder_valid := false;
          l2_charset := 0; l2_addr := 0; l2_target := [] |}.
Proof. vm_compute. split; reflexivity. Qed.

Lemma link2_short_external_differs :
  dec_link 8 l2w_short_ext = Err /\
  dec_link2 8 false l2w_short_ext =
    Ok {| l2_version := 1; l2_flags := 8; l2_type := 64; l2_name := [108]; l2_corder := 0; l2_corder_valid := false;
          l2_charset := 0; l2_addr := 0; l2_target := [] |}.
Proof. vm_compute. split; reflexivity. Qed.

Lemma link2_offsize3_differs :
  dec_link 3 l2w_hard = Ok {| lk_version := 1; lk_flags := 0; lk_type := 0; lk_corder := 0; lk_charset := 0;
                              lk_name := [108]; lk_value := [1; 2; 3] |} /\
  dec_link2 3 false l2w_hard = Err.
Proof. vm_compute. split; reflexivity. Qed.

(* so "both parsers accept the same messages" is false in both directions *)
Lemma link_parsers_same_outcome_refuted :
  ~ (forall os be data, oclass (dec_link os data) = oclass (dec_link2 os be data)).
Proof. intros H. specialize (H 8 false l2w_empty_name). vm_compute in H. discriminate. Qed.

(* a message with creation order AND character set (flags 0x1C | width), the fields seeded change C11-a swaps:
   both parsers read creation order first *)
Definition l2w_both : bytes := [1; 28; 0] ++ le 8 72623859790382856 ++ [1; 2; 108; 109] ++ le 8 4096.
Lemma link2_corder_charset_example :
  dec_link 8 l2w_both = Ok {| lk_version := 1; lk_flags := 28; lk_type := 0; lk_corder := 72623859790382856;
                              lk_charset := 1; lk_name := [108; 109]; lk_value := le 8 4096 |} /\
  dec_link2 8 false l2w_both =
    Ok {| l2_version := 1; l2_flags := 28; l2_type := 0; l2_name := [108; 109]; l2_corder := 72623859790382856;
          l2_corder_valid := true; l2_charset := 1; l2_addr := 4096; l2_target := [] |}.
Proof. vm_compute. split; reflexivity. Qed.

(* wf_link2 is satisfiable: hard, soft and external link with type, creation order and charset stored
   (flags 0x1C | width code), under a big-endian superblock for the hard link *)
Definition l2x_hard : linkmsg :=
  {| lk_version := 1; lk_flags := 28; lk_type := 0; lk_corder := 7; lk_charset := 1;
     lk_name := [100; 115]; lk_value := [0; 0; 0; 0; 0; 0; 16; 0] |}.
Definition l2x_soft : linkmsg :=
  {| lk_version := 1; lk_flags := 29; lk_type := 1; lk_corder := 18446744073709551615; lk_charset := 0;
     lk_name := [115]; lk_value := le 2 2 ++ [47; 97] |}.
Definition l2x_ext : linkmsg :=
  {| lk_version := 1; lk_flags := 31; lk_type := 64; lk_corder := 1; lk_charset := 1;
     lk_name := [101]; lk_value := le 2 1 ++ [102] ++ le 2 1 ++ [47] |}.
Lemma wf_link2_examples :
  wf_link2 8 true l2x_hard = true /\ wf_link2 8 false l2x_soft = true /\ wf_link2 4 false l2x_ext = true /\
  l2_addr (proj_link2 8 true l2x_hard) = 4096 /\ l2_target (proj_link2 8 false l2x_soft) = [47; 97].
Proof. vm_compute. repeat split. Qed.
