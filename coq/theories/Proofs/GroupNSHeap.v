(* C03: the local heap as a byte layout.  A group's heap segment is well formed (gwf) when it is the
   concatenation of its NUL-terminated names followed by zero padding, the node's name offsets are the
   running sums, and the names are non-empty, NUL-free and pairwise distinct.  Under gwf the
   trailing-zero scan of PrepareForModification finds exactly the end of the last name, the reader
   decodes exactly the names, and one linkToParent insertion preserves gwf. *)
From HV Require Import Base.Prelude Model.GroupNS Proofs.GroupNSBase.

Definition enc (ns : list name) : bytes := flat_map (fun n => n ++ [0]) ns.
Definition nz (n : bytes) : Prop := Forall (fun b => b <> 0) n.
Definition hname_ok (n : name) : Prop := n <> [] /\ nz n.
Definition allzero (z : bytes) : Prop := Forall (fun b => b = 0) z.

Lemma heap_name_ok_iff : forall n, heap_name_ok n = true <-> hname_ok n.
Proof.
  intro n. unfold heap_name_ok, hname_ok, nz. rewrite andb_true_iff, forallb_forall, Forall_forall. split.
  - intros [H1 H2]. split.
    + destruct n; [discriminate | discriminate].
    + intros b Hb. specialize (H2 b Hb). apply negb_true_iff in H2. apply N.eqb_neq in H2. assumption.
  - intros [H1 H2]. split.
    + destruct n; [contradiction | reflexivity].
    + intros b Hb. apply negb_true_iff. apply N.eqb_neq. apply H2. assumption.
Qed.

Lemma enc_app : forall a b, enc (a ++ b) = enc a ++ enc b.
Proof. intros. unfold enc. apply flat_map_app. Qed.
Lemma enc_snoc : forall ns n, enc (ns ++ [n]) = enc ns ++ n ++ [0].
Proof. intros. rewrite enc_app. unfold enc at 2. cbn [flat_map]. rewrite app_nil_r. reflexivity. Qed.

Lemma allzero_zeros : forall k, allzero (zeros k).
Proof. intro k. unfold allzero, zeros. apply Forall_forall. intros b Hb. apply repeat_spec in Hb. assumption. Qed.

Lemma skipn_length_app : forall A (a b : list A), skipn (length a) (a ++ b) = b.
Proof. induction a; intro b; cbn [length skipn app]; auto. Qed.
Lemma firstn_length_app : forall A (a b : list A), firstn (length a) (a ++ b) = a.
Proof. induction a; intro b; cbn [length firstn app]; [reflexivity | f_equal; auto]. Qed.

(* ---------------------------------------------------------------- GetString *)
Lemma get_string_from_nz : forall n rest, nz n -> get_string_from (n ++ 0 :: rest) = Some n.
Proof.
  induction n as [|b n IH]; intros rest H; cbn [app get_string_from].
  - reflexivity.
  - inversion H; subst. destruct (b =? 0) eqn:E; [apply N.eqb_eq in E; contradiction|].
    rewrite IH by assumption. reflexivity.
Qed.

Lemma get_string_at : forall pre n rest, nz n -> get_string (pre ++ n ++ 0 :: rest) (blen pre) = Some n.
Proof.
  intros pre n rest H. unfold get_string.
  destruct (blen (pre ++ n ++ 0 :: rest) <=? blen pre) eqn:E.
  - apply N.leb_le in E. rewrite !blen_app, blen_cons in E. nlia.
  - rewrite to_nat_blen, skipn_length_app. apply get_string_from_nz. assumption.
Qed.

(* ---------------------------------------------------------------- PrepareForModification *)
Lemma prep_scan_zeros : forall z rd suffix, allzero z -> prep_scan (z ++ rd) suffix = prep_scan rd (rev z ++ suffix).
Proof.
  induction z as [|b z IH]; intros rd suffix H; [reflexivity|].
  inversion H; subst. cbn [app prep_scan rev]. rewrite N.eqb_refl. rewrite IH by assumption.
  rewrite <- app_assoc. reflexivity.
Qed.

Lemma allzero_rev : forall z, allzero z -> allzero (rev z).
Proof. intros z H. unfold allzero in *. rewrite Forall_forall in *. intros b Hb. apply H. apply in_rev. assumption. Qed.

Lemma used_size_allzero : forall z, allzero z -> used_size z = 0.
Proof.
  intros z H. unfold used_size. rewrite <- (app_nil_r (rev z)). rewrite prep_scan_zeros by (apply allzero_rev; assumption).
  reflexivity.
Qed.

(* data = P ++ [b] ++ [0] ++ Z, b the last non-zero byte: usedSize = index of b + 2 *)
Lemma used_size_last : forall P b Z, b <> 0 -> allzero Z -> used_size (P ++ b :: 0 :: Z) = blen P + 2.
Proof.
  intros P b Z Hb HZ. unfold used_size.
  replace (P ++ b :: 0 :: Z) with ((P ++ [b; 0]) ++ Z) by (rewrite <- app_assoc; reflexivity).
  rewrite rev_app_distr. rewrite prep_scan_zeros by (apply allzero_rev; assumption).
  rewrite rev_app_distr. cbn [rev app]. cbn [prep_scan]. rewrite N.eqb_refl.
  cbn [prep_scan]. destruct (b =? 0) eqn:E; [apply N.eqb_eq in E; contradiction|].
  cbn [find_zero_from]. rewrite N.eqb_refl. unfold blen. rewrite rev_length. nlia.
Qed.

Lemma used_size_enc : forall ns Z, Forall hname_ok ns -> allzero Z -> used_size (enc ns ++ Z) = blen (enc ns).
Proof.
  intros ns Z Hns HZ. induction ns as [|n ns' _] using rev_ind.
  - cbn. apply used_size_allzero. assumption.
  - apply Forall_app in Hns. destruct Hns as [_ Hn]. inversion Hn as [|? ? [Hne Hnz] _]; subst.
    destruct (@exists_last _ n Hne) as [n' [b E]]. subst n.
    apply Forall_app in Hnz. destruct Hnz as [_ Hb]. inversion Hb; subst.
    rewrite enc_snoc.
    replace ((enc ns' ++ (n' ++ [b]) ++ [0]) ++ Z) with ((enc ns' ++ n') ++ b :: 0 :: Z)
      by (rewrite <- !app_assoc; reflexivity).
    rewrite used_size_last by assumption. rewrite !blen_app, !blen_cons, !blen_nil. nlia.
Qed.

Lemma prepare_enc : forall ns Z, Forall hname_ok ns -> allzero Z ->
  prepare_for_modification (enc ns ++ Z) = {| wh_strings := enc ns; wh_dss := blen (enc ns ++ Z) |}.
Proof.
  intros. unfold prepare_for_modification. rewrite used_size_enc by assumption.
  rewrite to_nat_blen, firstn_length_app. reflexivity.
Qed.

(* ---------------------------------------------------------------- offsets and well-formed groups *)
Fixpoint offs (base : N) (ns : list name) : list N :=
  match ns with [] => [] | n :: r => base :: offs (base + blen n + 1) r end.

Lemma offs_length : forall ns b, length (offs b ns) = length ns.
Proof. induction ns; intro b; cbn [offs length]; auto. Qed.

Lemma offs_snoc : forall ns b n, offs b (ns ++ [n]) = offs b ns ++ [b + blen (enc ns)].
Proof.
  induction ns as [|m ns IH]; intros b n; cbn [app offs].
  - unfold enc. cbn [flat_map app]. rewrite blen_nil. apply (f_equal (fun z : N => z :: nil)). nlia.
  - rewrite IH. cbn [app]. f_equal. f_equal. unfold enc. cbn [flat_map]. fold (enc ns).
    rewrite !blen_app, !blen_cons, !blen_nil. apply (f_equal (fun z : N => z :: nil)). nlia.
Qed.

Definition gwf (seg : bytes) (ents : list entry) (ns : list name) : Prop :=
  exists k, seg = enc ns ++ zeros k /\ map e_off ents = offs 0 ns /\ Forall hname_ok ns /\ NoDup ns.

Lemma gwf_empty : forall k, gwf (zeros k) [] [].
Proof. intro k. exists k. repeat split; try constructor. Qed.

Lemma gwf_length : forall seg ents ns, gwf seg ents ns -> length ents = length ns.
Proof.
  intros seg ents ns (k & _ & H & _). rewrite <- (map_length e_off ents), H. apply offs_length.
Qed.

Lemma decode_gen : forall ns ents pre rest,
  Forall hname_ok ns -> map e_off ents = offs (blen pre) ns ->
  map (name_of (pre ++ enc ns ++ rest)) ents = map Some ns.
Proof.
  induction ns as [|n ns IH]; intros ents pre rest Hok Hoff.
  - destruct ents; [reflexivity | discriminate].
  - destruct ents as [|e ents]; [discriminate|]. cbn [map offs] in Hoff. inversion Hoff as [[H1 H2]].
    inversion Hok as [|? ? [Hne Hnz] Hok']; subst. cbn [map]. f_equal.
    + unfold name_of. rewrite H1. unfold enc. cbn [flat_map]. fold (enc ns).
      rewrite <- !app_assoc. cbn [app]. apply get_string_at. assumption.
    + unfold enc. cbn [flat_map]. fold (enc ns).
      rewrite <- (app_assoc (n ++ [0])). rewrite (app_assoc pre).
      apply IH; [assumption|]. rewrite H2. f_equal. rewrite !blen_app, !blen_cons, !blen_nil. nlia.
Qed.

Lemma names_decode : forall seg ents ns, gwf seg ents ns -> map (name_of seg) ents = map Some ns.
Proof.
  intros seg ents ns (k & Hs & Ho & Hok & _). subst seg.
  apply (decode_gen ns ents [] (zeros k)); assumption.
Qed.

Lemma dup_check_iff : forall seg ents ns nm, gwf seg ents ns ->
  (existsb (entry_has_name seg nm) ents = true <-> In nm ns).
Proof.
  intros seg ents ns nm H. pose proof (names_decode _ _ _ H) as D. rewrite existsb_exists. split.
  - intros (e & He & Hn). unfold entry_has_name in Hn. destruct (name_of seg e) as [s|] eqn:E; [|discriminate].
    apply bytes_eqb_eq in Hn. subst s.
    assert (I : In (Some nm) (map (name_of seg) ents)) by (rewrite <- E; apply in_map; assumption).
    rewrite D in I. apply in_map_iff in I. destruct I as (x & Hx & Ix). inversion Hx; subst. assumption.
  - intro I. assert (I' : In (Some nm) (map Some ns)) by (apply in_map; assumption).
    rewrite <- D in I'. apply in_map_iff in I'. destruct I' as (e & He & Ie). exists e. split; [assumption|].
    unfold entry_has_name. rewrite He. apply bytes_eqb_refl.
Qed.

Lemma find_has_name : forall seg ents ns nm, gwf seg ents ns ->
  match find (entry_has_name seg nm) ents with
  | Some e => In e ents /\ name_of seg e = Some nm
  | None => ~ In nm ns
  end.
Proof.
  intros seg ents ns nm H. destruct (find (entry_has_name seg nm) ents) as [e|] eqn:F.
  - apply find_some in F. destruct F as [I Hn]. split; [assumption|].
    unfold entry_has_name in Hn. destruct (name_of seg e); [|discriminate]. apply bytes_eqb_eq in Hn. congruence.
  - intro I. apply (dup_check_iff _ _ _ nm H) in I. apply existsb_exists in I. destruct I as (e & Ie & He).
    pose proof (find_none _ _ F e Ie). congruence.
Qed.

Lemma NoDup_snoc : forall A (l : list A) x, NoDup l -> ~ In x l -> NoDup (l ++ [x]).
Proof.
  induction l as [|y l IH]; intros x H N; cbn [app].
  - constructor; [intros [] | constructor].
  - inversion H; subst. constructor.
    + intro I. apply in_app_or in I. destruct I as [I|[I|[]]]; [contradiction | subst; apply N; left; reflexivity].
    + apply IH; [assumption | intro I; apply N; right; assumption].
Qed.

Lemma names_size_enc : forall ch, names_size ch = blen (enc (map fst ch)).
Proof.
  induction ch as [|[n c] ch IH]; cbn [names_size map fst]; [reflexivity|].
  unfold enc. cbn [flat_map]. fold (enc (map fst ch)). rewrite IH, !blen_app, blen_cons, blen_nil. nlia.
Qed.

(* ---------------------------------------------------------------- one insertion (the heap half of linkToParent) *)
Lemma heap_link : forall seg ents ns nm, gwf seg ents ns -> hname_ok nm -> ~ In nm ns ->
  let h := prepare_for_modification seg in
  (add_string h nm = None <-> blen seg < blen (enc ns) + blen nm + 1) /\
  (forall off h1, add_string h nm = Some (off, h1) ->
     off = blen (enc ns) /\ blen (snd (write_to h1)) = blen seg /\
     forall c, gwf (snd (write_to h1)) (ents ++ [{| e_off := off; e_obj := c |}]) (ns ++ [nm])).
Proof.
  intros seg ents ns nm (k & Hs & Ho & Hok & Hnd) Hnm Hnin h. subst h seg.
  rewrite prepare_enc by (try assumption; apply allzero_zeros).
  unfold add_string. cbn [wh_strings wh_dss].
  destruct (blen (enc ns ++ zeros k) <? blen (enc ns) + (blen nm + 1)) eqn:E.
  - split; [split; intro; [apply N.ltb_lt in E; nlia | reflexivity] | intros; discriminate].
  - apply N.ltb_ge in E. split; [split; intro X; [discriminate | nlia]|].
    intros off h1 X. inversion X; subst; clear X. split; [reflexivity|].
    unfold write_to. cbn [wh_strings wh_dss snd].
    set (L := blen (enc ns ++ zeros k)) in *. set (S' := enc ns ++ nm ++ [0]).
    assert (HS : S' = enc (ns ++ [nm])) by (unfold S'; rewrite enc_snoc; reflexivity).
    assert (HL : blen S' <= L) by (unfold S'; rewrite !blen_app, !blen_cons, !blen_nil; nlia).
    assert (HX : exists k', (if blen S' <? L then S' ++ zeros (L - blen S') else S') = S' ++ zeros k' /\ blen S' + k' = L).
    { destruct (blen S' <? L) eqn:E2.
      - exists (L - blen S'). split; [reflexivity | nlia].
      - apply N.ltb_ge in E2. exists 0. split; [unfold zeros; cbn; rewrite app_nil_r; reflexivity | nlia]. }
    destruct HX as (k' & HX1 & HX2). rewrite HX1. split.
    + rewrite blen_app, blen_zeros. assumption.
    + intro c. exists k'. rewrite HS. repeat split.
      * rewrite map_app. cbn [map e_off]. rewrite Ho, offs_snoc. f_equal.
      * apply Forall_app. split; [assumption | constructor; [assumption | constructor]].
      * apply NoDup_snoc; assumption.
Qed.

Lemma new_heap_segment : forall n, snd (write_to (new_local_heap n)) = zeros (new_heap_size n).
Proof.
  intro n. unfold write_to, new_local_heap. cbn [wh_strings wh_dss snd]. rewrite blen_nil.
  destruct (0 <? new_heap_size n) eqn:E.
  - cbn [app]. f_equal. nlia.
  - apply N.ltb_ge in E. assert (new_heap_size n = 0) by nlia. rewrite H. reflexivity.
Qed.
