(* C20, FP8 half (E4M3 and E5M2): monotonicity, run lifting, sign symmetry, code round trips,
   NaN handling.  Nearest-even in value is in LowFloatFP8Rne.v. *)
From HV Require Import Base.Prelude Model.LowFloat Model.LowFloatTie Proofs.LowFloatBase Proofs.LowFloatBF16.

(* compute closed subtractions / powers that appear after substituting a concrete exponent *)
Ltac csub :=
  repeat match goal with
  | |- context [N.sub (Npos ?a) (Npos ?b)] =>
      let v := eval vm_compute in (N.sub (Npos a) (Npos b)) in change (N.sub (Npos a) (Npos b)) with v
  | |- context [N.pow (Npos ?a) (Npos ?b)] =>
      let v := eval vm_compute in (N.pow (Npos a) (Npos b)) in change (N.pow (Npos a) (Npos b)) with v
  end.

(* ------------------------------------------------------------------ the encoders with constants folded *)
Lemma enc_mag_E4M3 mag : fp8_enc_mag E4M3 mag =
  let e32 := mag / 8388608 in let frac := mag mod 8388608 in
  if 135 <? e32 then 127
  else if e32 <? 121 then (if e32 <? 117 then 0 else rne_shift (8388608 + frac) (141 - e32))
  else let code := (e32 + 7 - 127) * 8 + rne_shift frac 20 in if 120 <=? code then 127 else code.
Proof. reflexivity. Qed.

Lemma enc_mag_E5M2 mag : fp8_enc_mag E5M2 mag =
  let e32 := mag / 8388608 in let frac := mag mod 8388608 in
  if 143 <? e32 then 127
  else if e32 <? 113 then (if e32 <? 110 then 0 else rne_shift (8388608 + frac) (134 - e32))
  else let code := (e32 + 15 - 127) * 4 + rne_shift frac 21 in if 124 <=? code then 127 else code.
Proof. reflexivity. Qed.

(* value of the encoder at the start of binade e (a table; monotone) *)
Definition L43 (e : N) : N :=
  if e <? 118 then 0 else if e <? 119 then 1 else if e <? 120 then 2 else if e <? 121 then 4
  else if e <? 135 then (e - 120) * 8 else 127.
Definition L52 (e : N) : N :=
  if e <? 111 then 0 else if e <? 112 then 1 else if e <? 113 then 2
  else if e <? 143 then (e - 112) * 4 else 127.

Ltac ltb_cases :=
  repeat match goal with
  | |- context [?a <? ?b] => destruct (N.ltb_spec a b)
  | |- context [?a <=? ?b] => destruct (N.leb_spec a b)
  end.

Lemma L43_mono a b : a <= b -> L43 a <= L43 b.
Proof. intro H. unfold L43. ltb_cases; lia. Qed.
Lemma L52_mono a b : a <= b -> L52 a <= L52 b.
Proof. intro H. unfold L52. ltb_cases; lia. Qed.

Lemma enc_bounds_E4M3 mag :
  L43 (mag / 8388608) <= fp8_enc_mag E4M3 mag /\ fp8_enc_mag E4M3 mag <= L43 (mag / 8388608 + 1) /\
  (fp8_enc_mag E4M3 mag < 120 \/ fp8_enc_mag E4M3 mag = 127).
Proof.
  rewrite enc_mag_E4M3. cbv zeta.
  assert (Hf := N.mod_lt mag 8388608).
  set (e := mag / 8388608) in *. set (f := mag mod 8388608) in *. clearbody e f.
  assert (Hf' : f < 8388608) by lia. clear Hf.
  destruct (N.ltb_spec 135 e). { unfold L43. ltb_cases; lia. }
  destruct (N.ltb_spec e 121).
  - destruct (N.ltb_spec e 117). { unfold L43. ltb_cases; lia. }
    assert (Hc : e = 117 \/ e = 118 \/ e = 119 \/ e = 120) by lia.
    destruct Hc as [-> | [-> | [-> | -> ]]]; csub.
    + assert (R1 := rne_shift_hi 24 (8388608 + f) 1). unfold L43. ltb_cases; lia.
    + assert (R1 := rne_shift_hi 23 (8388608 + f) 2). assert (R2 := rne_shift_lo 23 (8388608 + f) 1).
      unfold L43. ltb_cases; lia.
    + assert (R1 := rne_shift_hi 22 (8388608 + f) 4). assert (R2 := rne_shift_lo 22 (8388608 + f) 2).
      unfold L43. ltb_cases; lia.
    + assert (R1 := rne_shift_hi 21 (8388608 + f) 8). assert (R2 := rne_shift_lo 21 (8388608 + f) 4).
      unfold L43. ltb_cases; lia.
  - assert (R1 := rne_shift_hi 20 f 8). unfold L43. ltb_cases; lia.
Qed.

Lemma enc_bounds_E5M2 mag :
  L52 (mag / 8388608) <= fp8_enc_mag E5M2 mag /\ fp8_enc_mag E5M2 mag <= L52 (mag / 8388608 + 1) /\
  (fp8_enc_mag E5M2 mag < 124 \/ fp8_enc_mag E5M2 mag = 127).
Proof.
  rewrite enc_mag_E5M2. cbv zeta.
  assert (Hf := N.mod_lt mag 8388608).
  set (e := mag / 8388608) in *. set (f := mag mod 8388608) in *. clearbody e f.
  assert (Hf' : f < 8388608) by lia. clear Hf.
  destruct (N.ltb_spec 143 e). { unfold L52. ltb_cases; lia. }
  destruct (N.ltb_spec e 113).
  - destruct (N.ltb_spec e 110). { unfold L52. ltb_cases; lia. }
    assert (Hc : e = 110 \/ e = 111 \/ e = 112) by lia.
    destruct Hc as [-> | [-> | -> ]]; csub.
    + assert (R1 := rne_shift_hi 24 (8388608 + f) 1). unfold L52. ltb_cases; lia.
    + assert (R1 := rne_shift_hi 23 (8388608 + f) 2). assert (R2 := rne_shift_lo 23 (8388608 + f) 1).
      unfold L52. ltb_cases; lia.
    + assert (R1 := rne_shift_hi 22 (8388608 + f) 4). assert (R2 := rne_shift_lo 22 (8388608 + f) 2).
      unfold L52. ltb_cases; lia.
  - assert (R1 := rne_shift_hi 21 f 4). unfold L52. ltb_cases; lia.
Qed.

(* inside one binade the encoder is monotone in the fraction *)
Lemma enc_same_binade_E4M3 a b :
  a <= b -> a / 8388608 = b / 8388608 -> fp8_enc_mag E4M3 a <= fp8_enc_mag E4M3 b.
Proof.
  intros Hab He. rewrite !enc_mag_E4M3. cbv zeta. rewrite <- He.
  assert (Hf : a mod 8388608 <= b mod 8388608) by lia.
  set (e := a / 8388608) in *. clearbody e.
  assert (R1 := rne_shift_mono (141 - e) (8388608 + a mod 8388608) (8388608 + b mod 8388608)).
  assert (R2 := rne_shift_mono 20 (a mod 8388608) (b mod 8388608)).
  set (s1 := rne_shift (8388608 + a mod 8388608) (141 - e)) in *.
  set (s2 := rne_shift (8388608 + b mod 8388608) (141 - e)) in *.
  set (n1 := rne_shift (a mod 8388608) 20) in *. set (n2 := rne_shift (b mod 8388608) 20) in *.
  clearbody s1 s2 n1 n2. ltb_cases; lia.
Qed.

Lemma enc_same_binade_E5M2 a b :
  a <= b -> a / 8388608 = b / 8388608 -> fp8_enc_mag E5M2 a <= fp8_enc_mag E5M2 b.
Proof.
  intros Hab He. rewrite !enc_mag_E5M2. cbv zeta. rewrite <- He.
  assert (Hf : a mod 8388608 <= b mod 8388608) by lia.
  set (e := a / 8388608) in *. clearbody e.
  assert (R1 := rne_shift_mono (134 - e) (8388608 + a mod 8388608) (8388608 + b mod 8388608)).
  assert (R2 := rne_shift_mono 21 (a mod 8388608) (b mod 8388608)).
  set (s1 := rne_shift (8388608 + a mod 8388608) (134 - e)) in *.
  set (s2 := rne_shift (8388608 + b mod 8388608) (134 - e)) in *.
  set (n1 := rne_shift (a mod 8388608) 21) in *. set (n2 := rne_shift (b mod 8388608) 21) in *.
  clearbody s1 s2 n1 n2. ltb_cases; lia.
Qed.

(* monotone on all magnitudes (the bound b <= +Inf of the statement is not needed) *)
Lemma fp8_mono_E4M3 a b : a <= b -> fp8_enc_mag E4M3 a <= fp8_enc_mag E4M3 b.
Proof.
  intro Hab. assert (He : a / 8388608 <= b / 8388608) by (apply N.div_le_mono; lia).
  destruct (N.eq_dec (a / 8388608) (b / 8388608)) as [Heq|Hne].
  - apply enc_same_binade_E4M3; assumption.
  - destruct (enc_bounds_E4M3 a) as (_ & Ha & _). destruct (enc_bounds_E4M3 b) as (Hb & _).
    assert (L43 (a / 8388608 + 1) <= L43 (b / 8388608)) by (apply L43_mono; lia). lia.
Qed.

Lemma fp8_mono_E5M2 a b : a <= b -> fp8_enc_mag E5M2 a <= fp8_enc_mag E5M2 b.
Proof.
  intro Hab. assert (He : a / 8388608 <= b / 8388608) by (apply N.div_le_mono; lia).
  destruct (N.eq_dec (a / 8388608) (b / 8388608)) as [Heq|Hne].
  - apply enc_same_binade_E5M2; assumption.
  - destruct (enc_bounds_E5M2 a) as (_ & Ha & _). destruct (enc_bounds_E5M2 b) as (Hb & _).
    assert (L52 (a / 8388608 + 1) <= L52 (b / 8388608)) by (apply L52_mono; lia). lia.
Qed.

Lemma fp8_mono F : F = E4M3 \/ F = E5M2 ->
  forall a b, a <= b -> b <= 2139095040 -> fp8_enc_mag F a <= fp8_enc_mag F b.
Proof.
  intros [->| ->] a b Hab _; [apply fp8_mono_E4M3|apply fp8_mono_E5M2]; exact Hab.
Qed.

(* the result is a finite code below the exponent-all-ones block, or the infinity code *)
Lemma fp8_enc_mag_range F : F = E4M3 \/ F = E5M2 ->
  forall mag, fp8_enc_mag F mag < f_expmask F \/ fp8_enc_mag F mag = 127.
Proof.
  intros [->| ->] mag.
  - change (f_expmask E4M3) with 120. apply enc_bounds_E4M3.
  - change (f_expmask E5M2) with 124. apply enc_bounds_E5M2.
Qed.

(* ------------------------------------------------------------------ the full encoder on the four segments *)
Lemma fp8_enc_pos F x : F = E4M3 \/ F = E5M2 -> x <= 2139095040 -> fp8_enc F x = fp8_enc_mag F x.
Proof.
  intros HF Hx. unfold fp8_enc, f32_is_nan, f32_is_inf.
  rewrite mag_small, sign_small by lia.
  replace (2139095040 <? x) with false by (symmetry; apply N.ltb_ge; lia).
  destruct (N.eqb_spec x 2139095040) as [->|Hi]. { destruct HF as [->| ->]; vm_compute; reflexivity. }
  destruct (N.eqb_spec x 0) as [->|Hz]. { destruct HF as [->| ->]; vm_compute; reflexivity. }
  lia.
Qed.

Lemma fp8_enc_neg F x : F = E4M3 \/ F = E5M2 -> x <= 2139095040 ->
  fp8_enc F (x + 2147483648) = fp8_enc_mag F x + 128.
Proof.
  intros HF Hx. unfold fp8_enc, f32_is_nan, f32_is_inf.
  rewrite mag_neg, sign_neg by lia.
  replace (2139095040 <? x) with false by (symmetry; apply N.ltb_ge; lia).
  destruct (N.eqb_spec x 2139095040) as [->|Hi]. { destruct HF as [->| ->]; vm_compute; reflexivity. }
  destruct (N.eqb_spec x 0) as [->|Hz]. { destruct HF as [->| ->]; vm_compute; reflexivity. }
  lia.
Qed.

Lemma fp8_enc_nan F x : f32_is_nan x = true -> fp8_enc F x = 127.
Proof. intro H. unfold fp8_enc. rewrite H. reflexivity. Qed.

Lemma fp8_run_lifting F : F = E4M3 \/ F = E5M2 -> forall s e c x,
  run_ok (fp8_enc F) (s, e, c) = true -> s <= x -> x <= e -> x < 4294967296 -> fp8_enc F x = c.
Proof.
  intros HF s e c x H Hsx Hxe Hx.
  apply run_ok_inv in H. destruct H as (Hse & Hseg & Hs & He).
  destruct (seg_cases s) as [[S Rs]|[[S Rs]|[[S Rs]|[S Rs]]]], (seg_cases e) as [[S' Re]|[[S' Re]|[[S' Re]|[S' Re]]]];
    try (exfalso; lia).
  - rewrite fp8_enc_pos in * by (auto; lia).
    assert (fp8_enc_mag F s <= fp8_enc_mag F x) by (apply fp8_mono; auto; lia).
    assert (fp8_enc_mag F x <= fp8_enc_mag F e) by (apply fp8_mono; auto; lia). lia.
  - rewrite <- Hs. rewrite !fp8_enc_nan; [reflexivity| |]; unfold f32_is_nan; rewrite mag_small by lia; apply N.ltb_lt; lia.
  - replace x with (x - 2147483648 + 2147483648) by lia.
    replace s with (s - 2147483648 + 2147483648) in Hs by lia.
    replace e with (e - 2147483648 + 2147483648) in He by lia.
    rewrite fp8_enc_neg in * by (auto; lia).
    assert (fp8_enc_mag F (s - 2147483648) <= fp8_enc_mag F (x - 2147483648)) by (apply fp8_mono; auto; lia).
    assert (fp8_enc_mag F (x - 2147483648) <= fp8_enc_mag F (e - 2147483648)) by (apply fp8_mono; auto; lia). lia.
  - rewrite <- Hs. rewrite !fp8_enc_nan; [reflexivity| |]; unfold f32_is_nan, f32_mag; apply N.ltb_lt; lia.
Qed.

(* ------------------------------------------------------------------ sign symmetry (any format) *)
Lemma fp8_sign F x : x < 2147483648 -> f32_is_nan x = false ->
  fp8_enc F (x + 2147483648) = fp8_enc F x + 128.
Proof.
  intros Hx Hn. unfold fp8_enc, f32_is_nan, f32_is_inf in *.
  rewrite mag_neg, sign_neg by lia. rewrite mag_small, sign_small in * by lia. rewrite Hn.
  destruct (x =? 2139095040); [lia|]. destruct (x =? 0); lia.
Qed.

(* ------------------------------------------------------------------ finite checks over all codes *)
Lemma codes_below_In d n : d < n -> In d (codes_below n).
Proof.
  intro H. unfold codes_below. apply in_map_iff. exists (N.to_nat d). split; [apply N2Nat.id|].
  apply in_seq. lia.
Qed.

Lemma forall_codes (P : N -> bool) n : forallb P (codes_below n) = true -> forall c, c < n -> P c = true.
Proof. intros H c Hc. rewrite forallb_forall in H. apply H, codes_below_In, Hc. Qed.

Lemma fp8_code_roundtrip F : F = E4M3 \/ F = E5M2 ->
  forall c, c < 256 -> fp8_nan_code F c = false -> fp8_enc F (fp8_dec F c) = c.
Proof.
  intros HF c Hc Hn.
  assert (H : forallb (fun c => fp8_nan_code F c || (fp8_enc F (fp8_dec F c) =? c)) (codes_below 256) = true)
    by (destruct HF as [->| ->]; vm_compute; reflexivity).
  apply forall_codes with (c := c) in H; [|exact Hc]. rewrite Hn in H. apply N.eqb_eq, H.
Qed.

(* a code whose low seven bits are a finite code or 0x7F is not a NaN code *)
Lemma not_nan_code F : F = E4M3 \/ F = E5M2 ->
  forall c, c < 256 -> c mod 128 < f_expmask F \/ c mod 128 = 127 -> fp8_nan_code F c = false.
Proof.
  intros HF c Hc Hr.
  assert (H : forallb (fun c => negb ((c mod 128 <? f_expmask F) || (c mod 128 =? 127)) || negb (fp8_nan_code F c))
                (codes_below 256) = true) by (destruct HF as [->| ->]; vm_compute; reflexivity).
  apply forall_codes with (c := c) in H; [|exact Hc].
  replace ((c mod 128 <? f_expmask F) || (c mod 128 =? 127)) with true in H.
  - cbn [negb orb] in H. destruct (fp8_nan_code F c); [discriminate|reflexivity].
  - symmetry. apply orb_true_iff. destruct Hr; [left; apply N.ltb_lt|right; apply N.eqb_eq]; assumption.
Qed.

Lemma fp8_no_nan_from_number F : F = E4M3 \/ F = E5M2 ->
  forall x, x < 4294967296 -> f32_is_nan x = false -> fp8_nan_code F (fp8_enc F x) = false.
Proof.
  intros HF x Hx Hn.
  assert (Hs : f32_sign x < 2) by (unfold f32_sign; lia).
  assert (Hm := fp8_enc_mag_range F HF (f32_mag x)).
  assert (Hk : f_expmask F < 128) by (destruct HF as [->| ->]; vm_compute; reflexivity).
  assert (Hk0 : 0 < f_expmask F) by (destruct HF as [->| ->]; vm_compute; reflexivity).
  unfold fp8_enc. rewrite Hn.
  set (sg := f32_sign x) in *. set (y := fp8_enc_mag F (f32_mag x)) in *. clearbody sg y.
  destruct (f32_is_inf x); [|destruct (f32_mag x =? 0)]; apply not_nan_code; auto; lia.
Qed.

Lemma fp8_nan_refuted :
  exists x, f32_is_nan x = true /\ f32_is_inf (fp8_dec E4M3 (fp8_enc E4M3 x)) = true.
Proof. exists f32_canon_nan. vm_compute. auto. Qed.

Lemma fp8_nan_refuted_e5m2 :
  exists x, f32_is_nan x = true /\ f32_is_inf (fp8_dec E5M2 (fp8_enc E5M2 x)) = true.
Proof. exists f32_canon_nan. vm_compute. auto. Qed.

(* ------------------------------------------------------------------ hypotheses are satisfiable *)
(* 1.96875 = 0x3FFC0000: mantissa rounds up to 8 and carries into the exponent: 2.0 = 0x40 *)
Example e4m3_carry : fp8_enc E4M3 1073479680 = 64. Proof. vm_compute. reflexivity. Qed.
(* 1.0625 = 0x3F880000 is a tie between 0x38 (1.0, even) and 0x39 (1.125): down; 1.1875 ties up to 0x3A *)
Example e4m3_tie_down : fp8_enc E4M3 1065877504 = 56. Proof. vm_compute. reflexivity. Qed.
Example e4m3_tie_up : fp8_enc E4M3 1066926080 = 58. Proof. vm_compute. reflexivity. Qed.
(* exponent field 15 is reserved, so the largest finite E4M3 value is 240 = 0x77 (odd code) and the next grid
   point is 256; 248 = 0x43780000 is the midpoint: overflow to 0x7F; the float just below stays finite *)
Example e4m3_overflow_tie : fp8_enc E4M3 1131937792 = 127. Proof. vm_compute. reflexivity. Qed.
Example e4m3_below_overflow : fp8_enc E4M3 1131937791 = 119. Proof. vm_compute. reflexivity. Qed.
(* 2^-10 = 0x3A800000 is half the smallest subnormal: tie to even -> 0; the next float gives code 1 *)
Example e4m3_underflow_tie : fp8_enc E4M3 981467136 = 0. Proof. vm_compute. reflexivity. Qed.
Example e4m3_underflow_up : fp8_enc E4M3 981467137 = 1. Proof. vm_compute. reflexivity. Qed.
(* largest subnormal 7*2^-9 rounds up into the smallest normal 0x08 when above the midpoint *)
Example e4m3_sub_carry : fp8_enc E4M3 (1006632960 + 7340033) = 8. Proof. vm_compute. reflexivity. Qed.
Example e5m2_overflow : fp8_enc E5M2 1198522368 = 127 /\ fp8_enc E5M2 1198522367 = 123. Proof. vm_compute. auto. Qed.
Example e5m2_negative : fp8_enc E5M2 (1065353216 + 2147483648) = 188. Proof. vm_compute. reflexivity. Qed.
Example e4m3_run_example : run_ok (fp8_enc E4M3) (1065091073, 1065877504, 56) = true. Proof. vm_compute. reflexivity. Qed.
Example e4m3_roundtrip_hyp : fp8_nan_code E4M3 119 = false /\ fp8_nan_code E4M3 126 = true /\ fp8_nan_code E4M3 127 = false.
Proof. vm_compute. auto. Qed.
