(* List vocabulary lemmas for the chunk model: takeN/dropN/slice/blit/blk/rangeN/concat of blocks. *)
From HV Require Import Base.Prelude Model.Chunk.
From Coq Require Import Permutation.

Local Open Scope N_scope.

(* ---------------- lengths ---------------- *)
Lemma lenN_nil {A} : lenN (@nil A) = 0. Proof. reflexivity. Qed.
Lemma lenN_app {A} (a b : list A) : lenN (a ++ b) = lenN a + lenN b.
Proof. unfold lenN. rewrite app_length. lia. Qed.
Lemma lenN_takeN {A} n (l : list A) : lenN (takeN n l) = N.min n (lenN l).
Proof. unfold lenN, takeN. rewrite firstn_length. lia. Qed.
Lemma lenN_dropN {A} n (l : list A) : lenN (dropN n l) = lenN l - n.
Proof. unfold lenN, dropN. rewrite skipn_length. lia. Qed.
Lemma lenN_slice {A} (l : list A) off len : off + len <= lenN l -> lenN (slice l off len) = len.
Proof. intros. unfold slice. rewrite lenN_takeN, lenN_dropN. lia. Qed.
Lemma lenN_zerosN n : lenN (zerosN n) = n.
Proof. unfold lenN, zerosN. rewrite repeat_length. lia. Qed.
Lemma lenN_blit dst off src : off + lenN src <= lenN dst -> lenN (blit dst off src) = lenN dst.
Proof. intros. unfold blit. rewrite !lenN_app, lenN_takeN, lenN_dropN. lia. Qed.
Lemma lenN_0 {A} (l : list A) : lenN l = 0 -> l = [].
Proof. destruct l; auto. unfold lenN. cbn [length]. lia. Qed.

(* ---------------- nat-level helpers missing from the 8.16 library ---------------- *)
Lemma skipn_skipn' {A} (a b : nat) (l : list A) : skipn a (skipn b l) = skipn (b + a) l.
Proof.
  revert l. induction b; intros l; cbn [Nat.add]; [reflexivity|].
  destruct l; cbn [skipn]; [apply skipn_nil | apply IHb].
Qed.
Lemma firstn_add' {A} (a b : nat) (l : list A) : firstn (a + b) l = firstn a l ++ firstn b (skipn a l).
Proof.
  revert l. induction a; intros l; cbn [Nat.add]; [reflexivity|].
  destruct l; cbn [firstn skipn app]; [rewrite firstn_nil; reflexivity | f_equal; apply IHa].
Qed.

(* ---------------- takeN / dropN ---------------- *)
Lemma takeN_all {A} n (l : list A) : lenN l <= n -> takeN n l = l.
Proof. intros. unfold takeN. apply firstn_all2. unfold lenN in *. lia. Qed.
Lemma dropN_all {A} n (l : list A) : lenN l <= n -> dropN n l = [].
Proof. intros. unfold dropN. apply skipn_all2. unfold lenN in *. lia. Qed.
Lemma takeN_0 {A} (l : list A) : takeN 0 l = [].
Proof. reflexivity. Qed.
Lemma dropN_0 {A} (l : list A) : dropN 0 l = l.
Proof. reflexivity. Qed.
Lemma takeN_dropN {A} n (l : list A) : takeN n l ++ dropN n l = l.
Proof. apply firstn_skipn. Qed.
Lemma takeN_app_l {A} n (a b : list A) : n <= lenN a -> takeN n (a ++ b) = takeN n a.
Proof.
  intros. unfold takeN, lenN in *. rewrite firstn_app.
  replace (N.to_nat n - length a)%nat with 0%nat by lia. cbn [firstn]. apply app_nil_r.
Qed.
Lemma takeN_app_r {A} n (a b : list A) : lenN a <= n -> takeN n (a ++ b) = a ++ takeN (n - lenN a) b.
Proof.
  intros. unfold takeN, lenN in *. rewrite firstn_app, firstn_all2 by lia.
  f_equal. f_equal. lia.
Qed.
Lemma takeN_app_exact {A} (a b : list A) : takeN (lenN a) (a ++ b) = a.
Proof. rewrite takeN_app_l by lia. apply takeN_all. lia. Qed.
Lemma dropN_app_l {A} n (a b : list A) : n <= lenN a -> dropN n (a ++ b) = dropN n a ++ b.
Proof.
  intros. unfold dropN, lenN in *. rewrite skipn_app.
  replace (N.to_nat n - length a)%nat with 0%nat by lia. reflexivity.
Qed.
Lemma dropN_app_r {A} n (a b : list A) : lenN a <= n -> dropN n (a ++ b) = dropN (n - lenN a) b.
Proof.
  intros. unfold dropN, lenN in *. rewrite skipn_app, skipn_all2 by lia.
  cbn [app]. f_equal. lia.
Qed.
Lemma dropN_app_exact {A} (a b : list A) : dropN (lenN a) (a ++ b) = b.
Proof. rewrite dropN_app_r by lia. rewrite N.sub_diag. reflexivity. Qed.
Lemma dropN_dropN {A} a b (l : list A) : dropN a (dropN b l) = dropN (b + a) l.
Proof. unfold dropN. rewrite skipn_skipn'. f_equal. lia. Qed.
Lemma takeN_takeN {A} a b (l : list A) : takeN a (takeN b l) = takeN (N.min a b) l.
Proof. unfold takeN. rewrite firstn_firstn. f_equal. lia. Qed.
Lemma takeN_dropN_comm {A} a b (l : list A) : takeN a (dropN b l) = dropN b (takeN (b + a) l).
Proof.
  unfold takeN, dropN. rewrite firstn_skipn_comm. f_equal. f_equal. lia.
Qed.
Lemma takeN_add {A} a b (l : list A) : takeN (a + b) l = takeN a l ++ takeN b (dropN a l).
Proof.
  unfold takeN, dropN. replace (N.to_nat (a + b)) with (N.to_nat a + N.to_nat b)%nat by lia.
  apply firstn_add'.
Qed.

(* ---------------- slice ---------------- *)
Lemma slice_0_all {A} (l : list A) n : lenN l <= n -> slice l 0 n = l.
Proof. intros. unfold slice. rewrite dropN_0. apply takeN_all; auto. Qed.
Lemma slice_slice {A} (l : list A) a L b n : b + n <= L -> slice (slice l a L) b n = slice l (a + b) n.
Proof.
  intros. unfold slice, takeN, dropN.
  rewrite skipn_firstn_comm, firstn_firstn, skipn_skipn'.
  f_equal; [lia|]. f_equal. lia.
Qed.
Lemma slice_app_mid {A} (a x b : list A) : slice (a ++ x ++ b) (lenN a) (lenN x) = x.
Proof. unfold slice. rewrite dropN_app_exact. apply takeN_app_exact. Qed.
Lemma slice_add {A} (l : list A) off a b : slice l off (a + b) = slice l off a ++ slice l (off + a) b.
Proof. unfold slice. rewrite takeN_add, dropN_dropN. reflexivity. Qed.
Lemma slice_zeros off n m : off + n <= m -> slice (zerosN m) off n = zerosN n.
Proof.
  intros. unfold slice, takeN, dropN, zerosN.
  replace (N.to_nat m) with (N.to_nat off + (N.to_nat n + (N.to_nat m - N.to_nat off - N.to_nat n)))%nat by lia.
  rewrite !repeat_app.
  rewrite skipn_app, skipn_all2 by (rewrite repeat_length; lia).
  rewrite repeat_length, Nat.sub_diag. cbn [skipn app].
  rewrite firstn_app, firstn_all2 by (rewrite repeat_length; lia).
  rewrite repeat_length, Nat.sub_diag. cbn [firstn]. apply app_nil_r.
Qed.

(* ---------------- blit ---------------- *)
Lemma blit_slice_id l off n : off + n <= lenN l -> blit l off (slice l off n) = l.
Proof.
  intros. unfold blit. rewrite lenN_slice by auto. unfold slice.
  rewrite <- dropN_dropN. rewrite takeN_dropN. apply takeN_dropN.
Qed.
Lemma slice_blit_same l off x : off + lenN x <= lenN l -> slice (blit l off x) off (lenN x) = x.
Proof.
  intros. unfold blit.
  pose proof (slice_app_mid (takeN off l) x (dropN (off + lenN x) l)) as E.
  rewrite lenN_takeN in E. replace (N.min off (lenN l)) with off in E by lia. exact E.
Qed.
Lemma slice_blit_after l off x o n :
  off + lenN x <= lenN l -> off + lenN x <= o -> slice (blit l off x) o n = slice l o n.
Proof.
  intros. unfold blit, slice. rewrite app_assoc.
  rewrite dropN_app_r by (rewrite lenN_app, lenN_takeN; lia).
  rewrite lenN_app, lenN_takeN, dropN_dropN. f_equal. f_equal. lia.
Qed.
Lemma slice_blit_before l off x o n :
  off + lenN x <= lenN l -> o + n <= off -> slice (blit l off x) o n = slice l o n.
Proof.
  intros. unfold blit, slice.
  rewrite dropN_app_l by (rewrite lenN_takeN; lia).
  rewrite takeN_app_l by (rewrite lenN_dropN, lenN_takeN; lia).
  unfold takeN, dropN. rewrite skipn_firstn_comm, firstn_firstn. f_equal. lia.
Qed.
(* two adjacent blits are one blit of the concatenation *)
Lemma blit_blit_adjacent l off x y :
  off + lenN x + lenN y <= lenN l -> blit (blit l off x) (off + lenN x) y = blit l off (x ++ y).
Proof.
  intros. unfold blit.
  assert (E : lenN (takeN off l ++ x) = off + lenN x) by (rewrite lenN_app, lenN_takeN; lia).
  rewrite (app_assoc (takeN off l) x).
  rewrite <- E at 1. rewrite takeN_app_exact.
  rewrite dropN_app_r by lia. rewrite E, dropN_dropN, lenN_app.
  rewrite <- !app_assoc. f_equal. f_equal. f_equal. f_equal. lia.
Qed.
Lemma blit_nil l off : off <= lenN l -> blit l off [] = l.
Proof. intros. unfold blit. cbn [app]. rewrite lenN_nil, N.add_0_r. apply takeN_dropN. Qed.
(* a blit inside a blitted region *)
Lemma blit_blit_inner l off L a x :
  off + L <= lenN l -> a + lenN x <= L ->
  blit l off (blit (slice l off L) a x) = blit l (off + a) x.
Proof.
  intros. unfold blit.
  assert (HS : lenN (slice l off L) = L) by (apply lenN_slice; auto).
  rewrite !lenN_app, !lenN_takeN, lenN_dropN, HS.
  replace (off + (N.min a L + (lenN x + (L - (a + lenN x))))) with (off + L) by lia.
  rewrite takeN_add. rewrite <- !app_assoc. f_equal.
  unfold slice. rewrite takeN_takeN. replace (N.min a L) with a by lia.
  f_equal. f_equal.
  set (D := dropN off l).
  assert (E1 : dropN (off + L) l = dropN L D) by (unfold D; rewrite dropN_dropN; reflexivity).
  assert (E2 : dropN (off + a + lenN x) l = dropN (a + lenN x) D)
    by (unfold D; rewrite dropN_dropN; f_equal; lia).
  rewrite E1, E2.
  rewrite <- (takeN_dropN L D) at 3.
  rewrite dropN_app_l; [reflexivity|].
  rewrite lenN_takeN. unfold D. rewrite lenN_dropN. lia.
Qed.

(* ---------------- rangeN ---------------- *)
Lemma rangeN_0 : rangeN 0 = [].
Proof. reflexivity. Qed.
Lemma rangeN_succ n : rangeN (n + 1) = rangeN n ++ [n].
Proof.
  unfold rangeN. replace (N.to_nat (n + 1)) with (N.to_nat n + 1)%nat by lia.
  rewrite seq_app, map_app. cbn [seq map Nat.add]. f_equal. f_equal. lia.
Qed.
Lemma in_rangeN x n : In x (rangeN n) <-> x < n.
Proof.
  unfold rangeN. rewrite in_map_iff. split.
  - intros (k & <- & Hk). apply in_seq in Hk. lia.
  - intros. exists (N.to_nat x). split; [lia|]. apply in_seq. lia.
Qed.
Lemma length_rangeN n : length (rangeN n) = N.to_nat n.
Proof. unfold rangeN. rewrite map_length, seq_length. reflexivity. Qed.
Lemma rangeN_ind (P : N -> Prop) : P 0 -> (forall n, P n -> P (n + 1)) -> forall n, P n.
Proof. intros. induction n using N.peano_ind; auto. rewrite <- N.add_1_r. auto. Qed.
Lemma rangeN_add a b : rangeN (a + b) = rangeN a ++ map (fun i => a + i) (rangeN b).
Proof.
  induction b using rangeN_ind.
  - rewrite N.add_0_r, rangeN_0. cbn [map]. symmetry; apply app_nil_r.
  - rewrite N.add_assoc, !rangeN_succ, IHb, map_app, app_assoc. reflexivity.
Qed.

(* ---------------- concat of blocks ---------------- *)
Lemma lenN_concat_const {A B} (f : A -> list B) (l : list A) b :
  (forall x, In x l -> lenN (f x) = b) -> lenN (concat (map f l)) = lenN l * b.
Proof.
  induction l; intros H; cbn [map concat].
  - reflexivity.
  - rewrite lenN_app, IHl, H by (auto with datatypes). unfold lenN. cbn [length]. lia.
Qed.
Lemma lenN_rangeN n : lenN (rangeN n) = n.
Proof. unfold lenN. rewrite length_rangeN. lia. Qed.
Lemma lenN_concat_range (f : N -> bytes) n b :
  (forall k, k < n -> lenN (f k) = b) -> lenN (concat (map f (rangeN n))) = n * b.
Proof.
  intros. pose proof (lenN_concat_const f (rangeN n) b) as E.
  rewrite lenN_rangeN in E. apply E.
  intros x Hx. apply in_rangeN in Hx. auto.
Qed.

Lemma concat_range_succ (f : N -> bytes) n :
  concat (map f (rangeN (n + 1))) = concat (map f (rangeN n)) ++ f n.
Proof. rewrite rangeN_succ, map_app, concat_app. cbn [map concat]. rewrite app_nil_r. reflexivity. Qed.

Lemma slice_takeN {A} (l : list A) off n m : off + n <= m -> slice (takeN m l) off n = slice l off n.
Proof.
  intros. unfold slice, takeN, dropN. rewrite skipn_firstn_comm, firstn_firstn. f_equal. lia.
Qed.
Lemma slice_dropN {A} (l : list A) off n a : slice (dropN a l) off n = slice l (a + off) n.
Proof. unfold slice. rewrite dropN_dropN. reflexivity. Qed.

(* l = its blocks *)
Lemma concat_blocks B n l : lenN l = n * B -> concat (map (fun k => blk B k l) (rangeN n)) = l.
Proof.
  revert l. induction n using rangeN_ind; intros l H.
  - rewrite rangeN_0. cbn [map concat]. symmetry. apply lenN_0. lia.
  - rewrite concat_range_succ.
    transitivity (takeN (n * B) l ++ dropN (n * B) l); [| apply takeN_dropN].
    f_equal.
    + rewrite <- (IHn (takeN (n * B) l)) by (rewrite lenN_takeN; lia).
      f_equal. apply map_ext_in. intros k Hk. apply in_rangeN in Hk.
      unfold blk. symmetry. apply slice_takeN. nia.
    + unfold blk, slice. apply takeN_all. rewrite lenN_dropN. lia.
Qed.

Lemma blk_concat B n (f : N -> bytes) k :
  (forall i, i < n -> lenN (f i) = B) -> k < n -> blk B k (concat (map f (rangeN n))) = f k.
Proof.
  intros Hf. revert k. induction n using rangeN_ind; intros k Hk; [lia|].
  rewrite concat_range_succ.
  assert (Hlen : lenN (concat (map f (rangeN n))) = n * B) by (apply lenN_concat_range; intros; apply Hf; lia).
  destruct (N.eq_dec k n) as [->|Hne].
  - unfold blk, slice. rewrite <- Hlen, dropN_app_exact. apply takeN_all. rewrite Hf; lia.
  - assert (k < n) by lia.
    rewrite <- (IHn (fun i Hi => Hf i ltac:(lia)) k) by auto.
    unfold blk, slice. rewrite dropN_app_l by nia.
    apply takeN_app_l. rewrite lenN_dropN. nia.
Qed.

Lemma lenN_blk B k l : k * B + B <= lenN l -> lenN (blk B k l) = B.
Proof. intros. unfold blk. apply lenN_slice. auto. Qed.

Lemma blk_zeros B k n : k * B + B <= n -> blk B k (zerosN n) = zerosN B.
Proof. intros. unfold blk. apply slice_zeros. auto. Qed.

Lemma concat_zeros n B : concat (map (fun _ => zerosN B) (rangeN n)) = zerosN (n * B).
Proof.
  induction n using rangeN_ind.
  - rewrite rangeN_0. reflexivity.
  - rewrite concat_range_succ, IHn. unfold zerosN. rewrite <- repeat_app. f_equal. lia.
Qed.

(* blocks of a slice *)
Lemma blk_slice B k l off L : k * B + B <= L -> blk B k (slice l off L) = slice l (off + k * B) B.
Proof. intros. unfold blk. apply slice_slice. auto. Qed.

(* windowed block update = one blit *)
Lemma window_blit B d a n (g : N -> bytes) full :
  lenN full = d * B -> a + n <= d -> (forall i, i < n -> lenN (g i) = B) ->
  concat (map (fun k => if (a <=? k) && (k <? a + n) then g (k - a) else blk B k full) (rangeN d))
  = blit full (a * B) (concat (map g (rangeN n))).
Proof.
  intros Hlen Han Hg.
  replace d with (a + (n + (d - a - n))) by lia.
  rewrite !rangeN_add, !map_app, !concat_app, !map_map.
  assert (Hmid : lenN (concat (map g (rangeN n))) = n * B) by (apply lenN_concat_range; auto).
  unfold blit. f_equal; [|f_equal].
  - rewrite <- (concat_blocks B a (takeN (a * B) full)) by (rewrite lenN_takeN; nia).
    f_equal. apply map_ext_in. intros k Hk. apply in_rangeN in Hk.
    replace ((a <=? k) && (k <? a + n)) with false by lia.
    unfold blk. symmetry. apply slice_takeN. nia.
  - f_equal. apply map_ext_in. intros k Hk. apply in_rangeN in Hk.
    replace ((a <=? a + k) && (a + k <? a + n)) with true by lia. f_equal. lia.
  - rewrite Hmid.
    rewrite <- (concat_blocks B (d - a - n) (dropN (a * B + n * B) full)) by (rewrite lenN_dropN; nia).
    f_equal. apply map_ext_in. intros k Hk. apply in_rangeN in Hk.
    replace ((a <=? a + (n + k)) && (a + (n + k) <? a + n)) with false by lia.
    unfold blk. rewrite slice_dropN. f_equal. nia.
Qed.

(* ---------------- folds ---------------- *)
Lemma fold_left_filter {A B} (p : B -> bool) (f : A -> B -> A) l a :
  fold_left (fun acc x => if p x then f acc x else acc) l a = fold_left f (filter p l) a.
Proof.
  revert a. induction l; intros; cbn [fold_left filter]; auto.
  destruct (p a); cbn [fold_left]; auto.
Qed.
Lemma fold_left_map {A B C} (g : B -> C) (f : A -> C -> A) l a :
  fold_left (fun acc x => f acc (g x)) l a = fold_left f (map g l) a.
Proof. revert a. induction l; intros; cbn [fold_left map]; auto. Qed.
Lemma fold_left_ext_in {A B} (f g : A -> B -> A) l a :
  (forall acc x, In x l -> f acc x = g acc x) -> fold_left f l a = fold_left g l a.
Proof.
  revert a. induction l; intros a0 H; cbn [fold_left]; auto.
  rewrite H by auto with datatypes. apply IHl. intros; apply H; auto with datatypes.
Qed.
Lemma fold_left_id {A B} (f : A -> B -> A) l a :
  (forall x, In x l -> f a x = a) -> fold_left f l a = a.
Proof.
  induction l; intros H; cbn [fold_left]; auto.
  rewrite H by auto with datatypes. apply IHl. intros; apply H; auto with datatypes.
Qed.
Lemma fold_left_inv {A B} (P : A -> Prop) (f : A -> B -> A) l a :
  P a -> (forall acc x, In x l -> P acc -> P (f acc x)) -> P (fold_left f l a).
Proof.
  revert a. induction l; intros a0 Ha H; cbn [fold_left]; auto.
  apply IHl; [apply H; auto with datatypes|]. intros; apply H; auto with datatypes.
Qed.

Lemma bind_fold_ok {A B} (f : A -> B -> res A) (g : A -> B -> A) (P : A -> Prop) l a :
  P a ->
  (forall acc x, In x l -> P acc -> f acc x = Ok (g acc x) /\ P (g acc x)) ->
  bind_fold f l a = Ok (fold_left g l a) /\ P (fold_left g l a).
Proof.
  unfold bind_fold. revert a. induction l; intros a0 Ha H; cbn [fold_left]; auto.
  destruct (H a0 a) as [E Pn]; auto with datatypes. rewrite E.
  apply IHl; auto. intros; apply H; auto with datatypes.
Qed.

(* a fold whose i-th step rewrites block i (of B bytes, at off) of the buffer *)
Lemma fold_blit_blocks m B off (step : bytes -> N -> bytes) (g : N -> bytes) dst0 :
  (forall i, i < m -> lenN (g i) = B) ->
  off + m * B <= lenN dst0 ->
  (forall i dst, i < m -> lenN dst = lenN dst0 ->
                 slice dst (off + i * B) B = slice dst0 (off + i * B) B ->
                 step dst i = blit dst (off + i * B) (g i)) ->
  fold_left step (rangeN m) dst0 = blit dst0 off (concat (map g (rangeN m))).
Proof.
  induction m using rangeN_ind; intros Hg Hlen Hstep.
  - rewrite rangeN_0. cbn [fold_left map concat]. symmetry. apply blit_nil. lia.
  - rewrite rangeN_succ, fold_left_app. cbn [fold_left].
    rewrite IHm; [| intros; apply Hg; lia | nia | intros; apply Hstep; auto; lia].
    assert (Hc : lenN (concat (map g (rangeN m))) = m * B) by (apply lenN_concat_range; intros; apply Hg; lia).
    rewrite Hstep.
    + rewrite map_app, concat_app. cbn [map concat]. rewrite app_nil_r.
      rewrite <- blit_blit_adjacent by (rewrite Hc, Hg; nia).
      rewrite Hc. reflexivity.
    + lia.
    + apply lenN_blit. rewrite Hc. nia.
    + apply slice_blit_after; rewrite Hc; nia.
Qed.

Lemma bind_fold_blit_blocks m B off (step : bytes -> N -> res bytes) (g : N -> bytes) dst0 :
  (forall i, i < m -> lenN (g i) = B) ->
  off + m * B <= lenN dst0 ->
  (forall i dst, i < m -> lenN dst = lenN dst0 ->
                 slice dst (off + i * B) B = slice dst0 (off + i * B) B ->
                 step dst i = Ok (blit dst (off + i * B) (g i))) ->
  bind_fold step (rangeN m) dst0 = Ok (blit dst0 off (concat (map g (rangeN m)))).
Proof.
  unfold bind_fold.
  induction m using rangeN_ind; intros Hg Hlen Hstep.
  - rewrite rangeN_0. cbn [fold_left map concat]. f_equal. symmetry. apply blit_nil. lia.
  - rewrite rangeN_succ, fold_left_app. cbn [fold_left].
    rewrite IHm; [| intros; apply Hg; lia | nia | intros; apply Hstep; auto; lia].
    assert (Hc : lenN (concat (map g (rangeN m))) = m * B) by (apply lenN_concat_range; intros; apply Hg; lia).
    rewrite Hstep.
    + rewrite map_app, concat_app. cbn [map concat]. rewrite app_nil_r.
      rewrite <- blit_blit_adjacent by (rewrite Hc, Hg; nia).
      rewrite Hc. reflexivity.
    + lia.
    + apply lenN_blit. rewrite Hc. nia.
    + apply slice_blit_after; rewrite Hc; nia.
Qed.
