(* C19 part B: the decisions of a SmartRebalancer.Evaluate session are the decisions of the selector
   on the extracted observations, so every theorem about [run] applies to them. *)
From HV Require Import Base.Prelude Model.Selector Model.Detector.

Open Scope Z_scope.

(* the observations the detector hands to the selector during a session *)
Fixpoint session_obs (window min_samples capacity : Z) (evs : list event) (steps : list estep) : list obs :=
  match steps with
  | [] => []
  | (op, size, now) :: r =>
      if op =? 9 then
        let f := extract_features window min_samples evs now in
        (f, classify min_samples f, now) :: session_obs window min_samples capacity evs r
      else session_obs window min_samples capacity (record_event capacity (op, now, size) evs) r
  end.

Lemma session_is_run : forall p c window min_samples capacity steps evs st,
  map e_dec (run_session p c window min_samples capacity evs st steps)
  = map r_dec (run p rule_select st c (session_obs window min_samples capacity evs steps)).
Proof.
  intros p c window min_samples capacity. induction steps as [|[[op size] now] r IH]; intros evs st; [reflexivity|].
  cbn [run_session session_obs]. destruct (op =? 9).
  - cbn [map run e_dec r_dec]. f_equal. apply IH.
  - apply IH.
Qed.

(* and the workload type handed over is the classification of the features handed over *)
Lemma session_obs_classified : forall window min_samples capacity steps evs f w now,
  In (f, w, now) (session_obs window min_samples capacity evs steps) -> w = classify min_samples f.
Proof.
  intros window min_samples capacity. induction steps as [|[[op size] t] r IH]; intros evs f w now H; [destruct H|].
  cbn [session_obs] in H. destruct (op =? 9).
  - destruct H as [H|H]; [injection H as <- <- <-; reflexivity | eapply IH; exact H].
  - eapply IH; exact H.
Qed.
