(* Non-vacuity: concrete histories (hash = lookup3, parameter values of the source tree and a variant with a
   roomy header so that the 8-attribute threshold itself is reached) that satisfy the hypotheses of the
   C02 theorems and drive the model through compact storage, both kinds of transition, dense updates of
   equal and different size, deletions and refusals. *)
From HV Require Import Base.Prelude Model.Attr Model.AttrTie Spec.Lookup3 Proofs.AttrBase Proofs.Attr.

(* decidable form of NoHashCollision for a concrete list of names *)
Definition no_collision_b (f : bytes -> N) (ns : list bytes) : bool :=
  forallb (fun a => forallb (fun b => negb (f a =? f b) || bytes_eqb a b) ns) ns.

Lemma no_collision_b_sound : forall f ns, no_collision_b f ns = true -> NoHashCollision f ns.
Proof.
  intros f ns H a b Ha Hb E. unfold no_collision_b in H. rewrite forallb_forall in H.
  specialize (H a Ha). rewrite forallb_forall in H. specialize (H b Hb).
  rewrite E, N.eqb_refl in H. cbn in H. apply bytes_eqb_eq. exact H.
Qed.

Definition run_tags (f : bytes -> N) (P : params) (st : state) (h : list op) : list N := snd (run_tagged f P st h).
Definition nm (s : string) : bytes := ascii_bytes s.
Definition i32 (x : N) : option value := Some (mkValue 0 4 8 [1] (le 4 x)).
Definition f64s (k : nat) : option value := Some (mkValue 1 8 0 [N.of_nat k] (repeat 7 (8 * k))).
Definition str (k : nat) : option value := Some (mkValue 3 (N.of_nat k + 1) 0 [1] (repeat 65 k ++ [0])).

(* ---- source-tree parameters: the header fills up long before 8 attributes ---- *)
Definition ex1 : list op :=
  [ OWrite (nm "a") (i32 1); OWrite (nm "b") (i32 2); OWrite (nm "c") (i32 3);
    OWrite (nm "b") (i32 20);                       (* compact replace *)
    OWrite (nm "c") (f64s 12);                      (* compact replace that does not fit: refused *)
    ODelete (nm "a"); ODelete (nm "a");             (* compact delete, then absent *)
    OWrite (nm "d") (i32 4); OWrite (nm "e") (i32 5);
    OWrite (nm "f") (i32 6);                        (* header full => transition to dense with 4 + 1 attributes *)
    OWrite (nm "g") (i32 7); OWrite (nm "h") (i32 8); OWrite (nm "i") (i32 9); OWrite (nm "j") (i32 10);   (* 9 attributes *)
    OWrite (nm "e") (i32 50);                       (* dense, same size *)
    OWrite (nm "e") (str 40);                       (* dense, other size *)
    ODelete (nm "b"); ODelete (nm "b");             (* dense delete, then absent *)
    OWrite (nm "k") None;                           (* value the API rejects *)
    OWrite [] (i32 1);                              (* empty name *)
    ODelete (nm "i"); ODelete (nm "j"); OWrite (nm "b") (str 3) ].

Lemma ex1_no_collision : NoHashCollision lk3 (names ex1).
Proof. apply no_collision_b_sound. vm_compute. reflexivity. Qed.

Lemma ex1_volume : volume ex1 <= p_hcap (go_params 58).
Proof. vm_compute. discriminate. Qed.

Example ex1_run :
  let '(st, rs) := run lk3 (go_params 58) init ex1 in
  map res_code rs = [0;0;0; 0; 1; 0;1; 0;0; 0; 0;0;0;0; 0; 0; 0;1; 1; 1; 0;0;0] /\
  form_code st = 1 /\
  run_tags lk3 (go_params 58) init ex1 = [5;5;5; 3; 4; 11;12; 5;5; 6; 9;9;9;9; 7; 8; 13;14; 1; 9; 13;13;9] /\
  match read_attrs st with
  | Some l => map aname l = map nm ["d"; "e"; "c"; "b"; "f"; "g"; "h"]%string   (* index order = hash order *)
  | None => False
  end.
Proof. vm_compute. repeat split; reflexivity. Qed.

(* the refinement theorem applies to it (its hypotheses are satisfiable) and yields the expected map *)
Example ex1_refines :
  exists st rs l, run lk3 (go_params 58) init ex1 = (st, rs) /\ read_attrs st = Some l /\
    attr_get l (nm "e") = str 40 /\ attr_get l (nm "a") = None /\ attr_get l (nm "b") = str 3 /\
    sp_get (run_spec [] ex1 rs) (nm "e") = str 40.
Proof.
  destruct (run lk3 (go_params 58) init ex1) as [st rs] eqn:R.
  destruct (refines_map_volume lk3 (go_params 58) ex1 st rs) as [l [RD [ND [T RO]]]];
    [vm_compute; discriminate | exact ex1_no_collision | exact ex1_volume | exact R |].
  exists st, rs, l. split; [reflexivity|]. split; [exact RD|].
  assert (E : forall n, attr_get l n = sp_get (run_spec [] ex1 rs) n) by exact T.
  vm_compute in R. inversion R; subst rs. rewrite !E. vm_compute. repeat split; reflexivity.
Qed.

(* ---- a roomy header (limit 4000 instead of 255): the MaxCompactAttributes threshold decides ---- *)
Definition roomy : params := mkParams 58 4000 8 18 371 65536 65517 true.
Definition ex2 : list op :=
  [ OWrite (nm "a0") (i32 0); OWrite (nm "a1") (i32 1); OWrite (nm "a2") (i32 2); OWrite (nm "a3") (i32 3);
    OWrite (nm "a4") (i32 4); OWrite (nm "a5") (i32 5); OWrite (nm "a6") (i32 6);
    OWrite (nm "a7") (i32 7);                       (* 8th attribute: still compact *)
    OWrite (nm "a3") (i32 33);                      (* overwrite with exactly 8 compact attributes: REFUSED
                                                       (the transition re-adds "a3": "attribute already exists") *)
    ODelete (nm "a7"); OWrite (nm "a3") (f64s 5);   (* back to 7: compact replace of other size works *)
    OWrite (nm "a7") (i32 7);
    OWrite (nm "a8") (i32 8);                       (* 9th attribute: transition to dense *)
    ODelete (nm "a0"); ODelete (nm "a1"); ODelete (nm "a2");   (* 6 left: stays dense *)
    OWrite (nm "a3") (i32 3); OWrite (nm "a0") (str 10); ODelete (nm "zz") ].

Lemma ex2_no_collision : NoHashCollision lk3 (names ex2).
Proof. apply no_collision_b_sound. vm_compute. reflexivity. Qed.

Example ex2_run :
  let '(st, rs) := run lk3 roomy init ex2 in
  map res_code rs = [0;0;0;0;0;0;0;0; 1; 0;0; 0; 0; 0;0;0; 0;0;1] /\
  form_code st = 1 /\
  run_tags lk3 roomy init ex2 = [5;5;5;5;5;5;5;5; 2; 11;3; 5; 2; 13;13;13; 8;9;14] /\
  match read_attrs st with Some l => List.length l = 7%nat | None => False end.
Proof. vm_compute. repeat split; reflexivity. Qed.

(* the two parameter settings keep the attributes in different storage forms at different times and give the
   same map whenever they give the same answers (C02_storage_irrelevant is not vacuous) *)
Definition ex3 : list op :=
  [ OWrite (nm "a") (i32 1); OWrite (nm "b") (i32 2); OWrite (nm "c") (i32 3); OWrite (nm "d") (i32 4);
    OWrite (nm "e") (i32 5); OWrite (nm "b") (str 9); ODelete (nm "c"); OWrite (nm "f") (f64s 3) ].

Example ex3_forms :
  let '(st1, rs1) := run lk3 (go_params 58) init ex3 in
  let '(st2, rs2) := run lk3 roomy init ex3 in
  rs1 = rs2 /\ form_code st1 = 1 /\ form_code st2 = 0 /\
  match read_attrs st1, read_attrs st2 with
  | Some l1, Some l2 => same_set l1 l2 = true /\ negb (list_eqb attr_eqb l1 l2) = true
  | _, _ => False
  end.
Proof. vm_compute. repeat split; reflexivity. Qed.

(* ---- heap overflow: before 5ec600b ONE WriteAttribute of a 65499-character string returned success and left the
        model's domain (state Broken); on the Go side the attribute was lost (notes/c02-findings.md, F1).
        Now the call is refused and nothing changes ---- *)
Definition strN (k : N) : option value := str (N.to_nat k).
Example overflow_single_write :
  run lk3 (go_params_before_5ec600b 58) init [OWrite (nm "s") (strN 65499)] = (Broken, [ROk]) /\
  run lk3 (go_params 58) init [OWrite (nm "s") (strN 65499)] = (Compact [], [RErr]).
Proof. split; vm_compute; reflexivity. Qed.
