(* C06, reader against specification: the link message (0x0006).
   For every byte string the strict specification decoder accepts, ParseLinkMessage (Model/CodecLink.v dec_link, tied
   to the Go code by C11/C07) returns an error or the same flags, link type, creation order, character set, name and,
   for hard links, the bytes of the object header address (little-endian = the specification's address), for soft
   links the target path; never a panic.  External links: only the link type is compared (the reader hands back the
   raw value bytes). *)
From HV Require Import Base.Prelude Base.Outcome Base.Bytes Spec.Parse Spec.FormatMsg Model.CodecMsg Model.CodecLink
  Proofs.RobustNoPanicBase Proofs.ReaderSpecBase.

Definition lk_agree (l : link_spec) (v : linkmsg) : Prop :=
  match ls_value l with
  | LExternal _ _ => lk_type v = 64
  | val =>
      lk_version v = 1 /\ lk_flags v = ls_flags l /\ lk_name v = ls_name l /\ lk_charset v = ls_cset l /\
      lk_corder v = match ls_corder l with Some c => c | None => 0 end /\
      match val with
      | LHard a => lk_type v = 0 /\ unle (lk_value v) = a
      | LSoft t => lk_type v = 1 /\ lk_value v = t
      | LExternal _ _ => True
      end
  end.

(* an optional one-byte field *)
Lemma opt_byte_step (bs : list N) p (c : bool) x r :
  p <= blen bs ->
  (if c then p_byte (at_pos bs p) else Ok (0, at_pos bs p)) = Ok (x, r) ->
  exists p', r = at_pos bs p' /\ p <= p' /\ p' <= blen bs /\
    (if c then if blen bs <? p + 1 then Err else t <- index bs p;; Ok (t, p + 1) else Ok (0, p)) = Ok (x, p').
Proof.
  intros Hp H. destruct c.
  - apply p_byte_at in H as (B & -> & IX); auto. exists (p + 1). repeat split; try blia.
    rewrite ltb_false_of_le by blia. rewrite IX. reflexivity.
  - injection H as <- <-. exists p. repeat split; blia.
Qed.

(* the optional character set byte, with the specification's range check *)
Lemma opt_cset_step (bs : list N) p (c : bool) x r :
  p <= blen bs ->
  (if c then '(k, r) <- p_byte (at_pos bs p);; _ <- guard (k <? 2);; Ok (k, r) else Ok (0, at_pos bs p)) = Ok (x, r) ->
  exists p', r = at_pos bs p' /\ p <= p' /\ p' <= blen bs /\
    (if c then if blen bs <? p + 1 then Err else t <- index bs p;; Ok (t, p + 1) else Ok (0, p)) = Ok (x, p').
Proof.
  intros Hp H. destruct c.
  - s_byte H k B IX. s_guard H G. injection H as <- <-. exists (p + 1). repeat split; try blia.
    rewrite ltb_false_of_le by blia. rewrite IX. reflexivity.
  - injection H as <- <-. exists p. repeat split; blia.
Qed.

(* the optional 8-byte creation order *)
Lemma opt_corder_step (bs : list N) p (c : bool) x r :
  p <= blen bs ->
  (if c then '(k, r) <- p_u 8 (at_pos bs p);; Ok (Some k, r) else Ok (None, at_pos bs p)) = Ok (x, r) ->
  exists p', r = at_pos bs p' /\ p <= p' /\ p' <= blen bs /\
    (if c then if blen bs <? p + 8 then Err else k <- rd_le bs p 8;; Ok (k, p + 8) else Ok (0, p))
      = Ok (match x with Some k => k | None => 0 end, p').
Proof.
  intros Hp H. destruct c.
  - s_u H k B R. injection H as <- <-. change (N.of_nat 8) with 8 in *. exists (p + 8). repeat split; try blia.
    rewrite ltb_false_of_le by blia. rewrite R. reflexivity.
  - injection H as <- <-. exists p. repeat split; blia.
Qed.

Lemma rd_le_slice (bs : list N) p k v : rd_le bs p k = Ok v -> exists b, slice bs p (p + k) = Ok b /\ unle b = v.
Proof.
  unfold rd_le. destruct (slice bs p (p + k)) as [b| |]; cbn [obind]; try discriminate.
  intros H. injection H as <-. eauto.
Qed.

Lemma link_reader_spec (osz : nat) (pad_ok : bool) (bs : bytes) (l : link_spec) (tg : list tag) :
  spec_dec_link strict osz pad_ok bs = Ok (l, tg) ->
  err_or (lk_agree l) (dec_link (N.of_nat osz) bs).
Proof.
  intros H. unfold spec_dec_link in H. rewrite (at_pos_0 bs) in H.
  assert (P0 : 0 <= blen bs) by blia.
  s_byte H ver B1 I0. s_guard H GV. apply N.eqb_eq in GV. subst ver.
  s_byte H fl B2 I1. s_guard H GF.
  change (0 + 1) with 1 in *. change (1 + 1) with 2 in *.
  sstep H. rename n into lt. apply opt_byte_step in E as (p1 & -> & L1 & U1 & R1); [|blia].
  sstep H. rename o into co. apply opt_corder_step in E as (p2 & -> & L2 & U2 & R2); [|blia].
  sstep H. rename n into cs. apply opt_cset_step in E as (p3 & -> & L3 & U3 & R3); [|blia].
  s_u H nl B3 RN. rewrite N2Nat.id in *. s_guard H GN.
  s_take H name B4 SN LN. rewrite N2Nat.id in *.
  unfold dec_link, dec_link_header, lk_has_type, lk_has_corder, lk_has_charset.
  rewrite (ltb_false_of_le (blen bs) 2) by blia. rewrite I0. cbn [obind]. rewrite I1. cbn [obind].
  change (negb (1 =? 1)) with false. cbn iota.
  rewrite R1. cbn [obind]. rewrite R2. cbn [obind]. rewrite R3. cbn [obind].
  unfold dec_link_namelen, lk_lensize.
  rewrite ltb_false_of_le by blia. rewrite RN. cbn [obind].
  unfold dec_link_name. destruct (1048576 <? nl); [exact I|].
  rewrite ltb_false_of_le by blia. rewrite SN. cbn [obind].
  unfold dec_link_value.
  destruct (lt =? 0) eqn:T0.
  - (* hard link *)
    s_u H a B5 RA. s_end H PE PF ZZ. injection H as <- <-.
    rewrite ltb_false_of_le by blia.
    destruct (rd_le_slice _ _ _ _ RA) as (b & Sb & Ub). rewrite Sb. cbn [obind].
    apply N.eqb_eq in T0. subst lt. cbn [lk_agree ls_value]. unfold lk_agree. cbn [ls_value ls_flags ls_name ls_cset ls_corder]. repeat split; auto.
  - destruct (lt =? 1) eqn:T1.
    + (* soft link *)
      s_u H vl B5 RV. change (N.of_nat 2) with 2 in *. s_take H tv B6 ST LT. rewrite N2Nat.id in *.
      s_end H PE PF ZZ. injection H as <- <-.
      rewrite ltb_false_of_le by blia. rewrite RV. cbn [obind].
      rewrite ltb_false_of_le by blia. rewrite ST. cbn [obind].
      apply N.eqb_eq in T1. subst lt. unfold lk_agree. cbn [ls_value ls_flags ls_name ls_cset ls_corder]. repeat split; auto.
    + destruct (lt =? 64) eqn:T64; [|discriminate H].
      (* external link *)
      apply N.eqb_eq in T64. subst lt.
      assert (X : exists f p, ls_value l = LExternal f p).
      { s_u H vl B5 RV. s_take H tv B6 ST LT.
        match type of H with
        | match ?m with Ok _ => _ | Err => _ | Panic => _ end = _ => destruct m as [[fn op]| |]
        end.
        - injection H as <- <-. cbn [ls_value]. eauto.
        - repeat sstep H. discriminate.
        - repeat sstep H. discriminate. }
      destruct X as (f & p & XV). unfold lk_agree. rewrite XV.
      set (off := p3 + N.shiftl 1 (N.land fl 3) + nl).
      destruct (blen bs <? off + 2) eqn:G1; [exact I|]. apply N.ltb_ge in G1.
      destruct (rd_le_ok bs off 2 G1) as (q & ->). cbn [obind].
      destruct (blen bs <? off + 2 + q + 2) eqn:G2; [exact I|]. apply N.ltb_ge in G2.
      destruct (rd_le_ok bs (off + 2 + q) 2 G2) as (q2 & ->). cbn [obind].
      destruct (blen bs <? off + (2 + q + 2 + q2)) eqn:G3; [exact I|]. apply N.ltb_ge in G3.
      destruct (slice_ok bs off (off + (2 + q + 2 + q2))) as (vb & -> & _); [blia|blia|]. cbn [obind].
      reflexivity.
Qed.

Example link_reader_spec_example :
  exists l, spec_dec_link strict 8 false ([1; 0; 3; 97; 98; 99] ++ le 8 1234) = Ok (l, []).
Proof. eexists. vm_compute. reflexivity. Qed.
