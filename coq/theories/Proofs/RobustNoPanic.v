(* C07 "no input can crash the reader": every decoder model of Model/Codec*.v is panic-free.
   Umbrella file; the lemmas live in
     RobustNoPanicBase  (np, primitives, the walking tactic np_go)
     RobustNoPanicMsg   (superblock, dataspace, layout, symbol table, link, link info, attribute info)
     RobustNoPanicType  (filter pipeline, datatype, compound, attribute)
     RobustNoPanicOhdr  (object header v2: unconditional; v1 / ReadObjectHeader: image < 2^64 bytes, or bytes)
     RobustNoPanicOhdrWitness (why v1 needs the hypothesis: symbolic 2^64-element witness). *)
From HV Require Export Proofs.RobustNoPanicBase Proofs.RobustNoPanicMsg Proofs.RobustNoPanicType
  Proofs.RobustNoPanicOhdr Proofs.RobustNoPanicOhdrWitness.
