(* C08 - Fletcher-32: round trip and detection of every single-byte alteration of a stored chunk.
   Key fact: the low half of the checksum is congruent mod 65535 to the position-weighted byte sum
   (weight 256 at even positions, 1 at odd ones); one changed byte moves that sum by a non-zero
   amount of magnitude below 65535. *)
From HV Require Import Base.Prelude Model.Filters Proofs.FiltersShuffle.


(* position-weighted sum = sum of big-endian 16-bit words, an odd last byte being a high byte *)
Fixpoint wsum (d : bytes) : N :=
  match d with
  | a :: b :: r => a * 256 + b + wsum r
  | [a] => a * 256
  | [] => 0
  end.

Lemma list_ind2 {A} (P : list A -> Prop) :
  P [] -> (forall a, P [a]) -> (forall a b r, P r -> P (a :: b :: r)) -> forall l, P l.
Proof.
  intros H0 H1 H2.
  assert (H : forall l, P l /\ forall a, P (a :: l)).
  { induction l as [|x l [IH1 IH2]]; split; auto. }
  intro l. apply H.
Qed.

Lemma fold16_eq s : fold16 s = s mod 65536 + s / 65536.
Proof.
  unfold fold16. change 65535 with (N.ones 16). rewrite N.land_ones, N.shiftr_div_pow2.
  reflexivity.
Qed.

Lemma fold16_mod s : fold16 s mod 65535 = s mod 65535.
Proof. rewrite fold16_eq. lia. Qed.

Lemma fold16_bound s : s < 4294967296 -> fold16 s <= 131070.
Proof. rewrite fold16_eq. lia. Qed.

Lemma fold16_small s : s <= 131070 -> fold16 s <= 65535.
Proof. rewrite fold16_eq. lia. Qed.

(* inner loop: no uint32 wrap on sum1 as long as s1 + 65535*blk fits *)
Lemma fl_block_spec blk : forall d s1 s2,
  bytes_ok d -> s1 + 65535 * N.of_nat blk < 4294967296 ->
  let '(d', s1', _) := fl_block blk d s1 s2 in
  s1' + wsum d' = s1 + wsum d /\ bytes_ok d' /\ (length d' <= length d)%nat /\
  s1' <= s1 + 65535 * N.of_nat blk /\
  (blk <> O -> (2 <= length d)%nat -> (length d' + 2 <= length d)%nat).
Proof.
  induction blk as [|k IH]; intros d s1 s2 Hd Hb; cbn [fl_block].
  - repeat split; auto; lia.
  - destruct d as [|a [|b r]].
    + repeat split; auto; cbn [length]; lia.
    + repeat split; auto; cbn [length]; lia.
    + inversion Hd as [|? ? Ha Hd1]; subst. inversion Hd1 as [|? ? Hb' Hr]; subst.
      assert (Hw : wrap32 (s1 + (a * 256 + b)) = s1 + (a * 256 + b)) by (unfold wrap32; lia).
      rewrite Hw.
      specialize (IH r (s1 + (a * 256 + b)) (wrap32 (s2 + (s1 + (a * 256 + b)))) Hr).
      destruct (fl_block k r _ _) as [[d' s1'] s2'].
      destruct IH as (E & O & L & B & _); [lia|].
      cbn [wsum length]. repeat split; auto; lia.
Qed.

Lemma fl_outer_spec fuel : forall d s1 s2,
  bytes_ok d -> s1 <= 131070 -> (length d <= fuel)%nat ->
  let '(d', s1', _) := fl_outer fuel d s1 s2 in
  (s1' + wsum d') mod 65535 = (s1 + wsum d) mod 65535 /\ bytes_ok d' /\ s1' <= 131070 /\ (length d' < 2)%nat.
Proof.
  induction fuel as [|f IH]; intros d s1 s2 Hd Hs Hf; cbn [fl_outer].
  - destruct d; cbn [length] in *; [|lia]. repeat split; auto.
  - destruct d as [|a [|b r]].
    + repeat split; auto.
    + repeat split; auto.
    + set (d := a :: b :: r) in *.
      pose proof (fl_block_spec 360 d s1 s2 Hd) as Hblk.
      destruct (fl_block 360 d s1 s2) as [[d' s1'] s2'].
      destruct Hblk as (E & O & L & B & P); [lia|].
      assert (Hlen : (2 <= length d)%nat) by (subst d; cbn [length]; lia).
      specialize (P ltac:(lia) Hlen).
      specialize (IH d' (fold16 s1') (fold16 s2') O).
      destruct (fl_outer f d' (fold16 s1') (fold16 s2')) as [[d'' s1''] s2''].
      destruct IH as (E2 & O2 & B2 & L2).
      * apply fold16_bound. lia.
      * lia.
      * repeat split; auto.
        rewrite E2. rewrite <- E.
        rewrite <- (N.add_mod_idemp_l (fold16 s1')), fold16_mod, N.add_mod_idemp_l by lia. reflexivity.
Qed.

(* the low 16 bits of the checksum *)
Lemma lor_shift_low s2 s1 : s1 < 65536 -> wrap32 (N.lor (N.shiftl s2 16) s1) mod 65536 = s1.
Proof.
  intro H. unfold wrap32.
  replace (N.lor (N.shiftl s2 16) s1 mod 4294967296 mod 65536) with (N.lor (N.shiftl s2 16) s1 mod 65536) by lia.
  change 65536 with (2 ^ 16). rewrite <- !N.land_ones, N.land_lor_distr_l.
  rewrite !N.land_ones, N.shiftl_mul_pow2, N.mod_mul by (cbv; discriminate).
  rewrite N.lor_0_l. apply N.mod_small. exact H.
Qed.

Theorem fletcher_low_congr x :
  bytes_ok x -> (fletcher32 x mod 65536) mod 65535 = wsum x mod 65535 /\ fletcher32 x < 4294967296.
Proof.
  intro Hx. unfold fletcher32.
  pose proof (fl_outer_spec (length x) x 0 0 Hx ltac:(lia) ltac:(lia)) as H.
  destruct (fl_outer (length x) x 0 0) as [[d s1] s2].
  destruct H as (E & O & B & L).
  destruct d as [|a [|b r]]; [| |cbn [length] in L; lia]; (split; [|unfold wrap32; lia]).
  - rewrite lor_shift_low by (pose proof (fold16_small s1 B); lia).
    rewrite fold16_mod. cbn [wsum] in E. rewrite N.add_0_l in E. rewrite <- E. f_equal. lia.
  - inversion O as [|? ? Ha _]; subst.
    assert (Hw : wrap32 (s1 + a * 256) = s1 + a * 256) by (unfold wrap32; lia).
    rewrite Hw.
    rewrite lor_shift_low.
    2:{ pose proof (fold16_bound (s1 + a * 256) ltac:(lia)) as B1.
        pose proof (fold16_small _ B1). lia. }
    rewrite !fold16_mod. cbn [wsum] in E. rewrite N.add_0_l in E. rewrite <- E. reflexivity.
Qed.

(* one byte replaced: the weighted sum moves by weight * (new - old) *)
Definition weight (i : nat) : N := if Nat.even i then 256 else 1.

Lemma wsum_upd : forall (x : bytes) (i : nat) (b : byte), (i < length x)%nat ->
  wsum (upd i b x) + weight i * nth i x 0 = wsum x + weight i * b.
Proof.
  induction x as [|a|a c r IH] using list_ind2; intros i b Hi; cbn [length] in Hi; [lia| |].
  - destruct i; [|lia]. cbn [upd nth wsum]. unfold weight. cbn [Nat.even]. lia.
  - destruct i as [|[|i]].
    + cbn [upd nth wsum]. unfold weight. cbn [Nat.even]. lia.
    + cbn [upd nth wsum]. unfold weight. cbn [Nat.even]. lia.
    + cbn [upd nth wsum]. specialize (IH i b ltac:(lia)).
      replace (weight (S (S i))) with (weight i) by (unfold weight; reflexivity). lia.
Qed.

Lemma bytes_ok_upd (x : bytes) (i : nat) (b : byte) : bytes_ok x -> b < 256 -> bytes_ok (upd i b x).
Proof.
  intros Hx Hb. revert i. induction Hx as [|a r Ha Hr IH]; intros [|i]; cbn [upd]; constructor; auto.
  apply IH.
Qed.

Lemma bytes_ok_nth x i : bytes_ok x -> nth i x 0 < 256.
Proof.
  intro Hx. revert i. induction Hx as [|a r Ha Hr IH]; intros [|i]; cbn [nth]; auto; lia.
Qed.

Theorem fletcher_changes (x : bytes) (i : nat) (b : byte) :
  bytes_ok x -> b < 256 -> (i < length x)%nat -> b <> nth i x 0 ->
  fletcher32 (upd i b x) <> fletcher32 x.
Proof.
  intros Hx Hb Hi Hne Heq.
  destruct (fletcher_low_congr x Hx) as [C1 _].
  destruct (fletcher_low_congr (upd i b x) (bytes_ok_upd x i b Hx Hb)) as [C2 _].
  rewrite Heq in C2. rewrite C1 in C2.
  pose proof (wsum_upd x i b Hi) as W.
  pose proof (bytes_ok_nth x i Hx) as Ho.
  unfold weight in W.
  revert C2 W Ho Hne Hb. generalize (wsum x) (wsum (upd i b x)) (nth i x 0). clear.
  intros A A' o C W Ho Hne Hb. destruct (Nat.even i); lia.
Qed.

(* little-endian 4-byte trailer *)
Lemma unle_le4 v : unle (le 4 v) = v mod 4294967296.
Proof. cbn [le unle]. lia. Qed.

Lemma le4_bytes_ok v : bytes_ok (le 4 v).
Proof. cbn [le]. repeat constructor; lia. Qed.

Lemma unle_upd4 (t : bytes) (k : nat) (b : byte) :
  length t = 4%nat -> bytes_ok t -> b < 256 -> (k < 4)%nat -> b <> nth k t 0 -> unle (upd k b t) <> unle t.
Proof.
  intros Hl Ht Hb Hk Hne.
  destruct t as [|c0 [|c1 [|c2 [|c3 [|? ?]]]]]; cbn [length] in Hl; try lia.
  inversion Ht as [|? ? H0 Ht1]; subst. inversion Ht1 as [|? ? H1 Ht2]; subst.
  inversion Ht2 as [|? ? H2 Ht3]; subst. inversion Ht3 as [|? ? H3 _]; subst.
  destruct k as [|[|[|[|k]]]]; try lia; cbn [upd unle nth] in *; lia.
Qed.

Lemma firstn_len_app {A} (a b : list A) : firstn (length a) (a ++ b) = a.
Proof. induction a; cbn [length firstn app]; [now destruct b|]. now f_equal. Qed.

Lemma skipn_len_app {A} (a b : list A) : skipn (length a) (a ++ b) = b.
Proof. induction a; cbn [length skipn app]; auto. Qed.

Lemma upd_app_l {A} (a b : list A) i v : (i < length a)%nat -> upd i v (a ++ b) = upd i v a ++ b.
Proof.
  revert i; induction a as [|h t IH]; intros [|i] H; cbn [length] in H; try lia; cbn [upd app]; auto.
  f_equal. apply IH. lia.
Qed.

Lemma upd_app_r {A} (a b : list A) i v : (length a <= i)%nat -> upd i v (a ++ b) = a ++ upd (i - length a) v b.
Proof.
  revert i; induction a as [|h t IH]; intros i H; cbn [length app] in *.
  - now rewrite Nat.sub_0_r.
  - destruct i; [lia|]. cbn [upd Nat.sub]. f_equal. apply IH. lia.
Qed.

Lemma nth_app_l {A} (a b : list A) i d : (i < length a)%nat -> nth i (a ++ b) d = nth i a d.
Proof. intro H. now apply app_nth1. Qed.

Lemma fletcher_verify_app y t :
  length t = 4%nat -> fletcher_verify (y ++ t) = if unle t =? fletcher32 y then Ok y else Err.
Proof.
  intro Ht. unfold fletcher_verify. rewrite app_length, Ht.
  replace (length y + 4 <? 4)%nat with false by (symmetry; apply Nat.ltb_ge; lia).
  replace (length y + 4 - 4)%nat with (length y) by lia.
  now rewrite firstn_len_app, skipn_len_app.
Qed.

Theorem fletcher_roundtrip x : fletcher_verify (fletcher_apply x) = Ok x.
Proof.
  unfold fletcher_apply. rewrite fletcher_verify_app by reflexivity.
  rewrite unle_le4.
  replace (fletcher32 x mod 4294967296) with (fletcher32 x).
  - now rewrite N.eqb_refl.
  - unfold fletcher32. destruct (fl_outer _ _ _ _) as [[d s1] s2].
    destruct d; unfold wrap32; lia.
Qed.

Theorem fletcher_detects_single_byte (x : bytes) (i : nat) (b : byte) :
  bytes_ok x -> b < 256 -> (i < length (fletcher_apply x))%nat -> b <> nth i (fletcher_apply x) 0 ->
  fletcher_verify (upd i b (fletcher_apply x)) = Err.
Proof.
  intros Hx Hb Hi Hne. unfold fletcher_apply in *.
  rewrite app_length in Hi. change (length (le 4 (fletcher32 x))) with 4%nat in Hi.
  destruct (fletcher_low_congr x Hx) as [_ Hck].
  destruct (Nat.lt_ge_cases i (length x)) as [Hlt|Hge].
  - rewrite upd_app_l by exact Hlt.
    rewrite fletcher_verify_app by reflexivity.
    rewrite unle_le4, N.mod_small by exact Hck.
    rewrite nth_app_l in Hne by exact Hlt.
    pose proof (fletcher_changes x i b Hx Hb Hlt Hne) as Hc.
    destruct (N.eqb_spec (fletcher32 x) (fletcher32 (upd i b x))); [congruence|reflexivity].
  - rewrite upd_app_r by exact Hge.
    rewrite fletcher_verify_app by (now rewrite length_upd).
    rewrite app_nth2 in Hne by lia.
    pose proof (unle_upd4 (le 4 (fletcher32 x)) (i - length x) b eq_refl (le4_bytes_ok _) Hb ltac:(lia) Hne) as Hc.
    rewrite unle_le4, N.mod_small in Hc by exact Hck.
    destruct (N.eqb_spec (unle (upd (i - length x) b (le 4 (fletcher32 x)))) (fletcher32 x)); [congruence|reflexivity].
Qed.
