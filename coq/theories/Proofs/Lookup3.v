(* The Go name hash (Model.BT2.jenkins) equals lookup3 hashlittle with initval 0 on every byte string. *)
From HV Require Import Base.Prelude Spec.Lookup3 Model.BT2.

Local Open Scope N_scope.

(* ---- bit facts: | of disjoint bytes is + ---- *)
Lemma testbit_small a k n : a < 2 ^ k -> k <= n -> N.testbit a n = false.
Proof.
  intros Ha Hk. destruct (N.eq_dec a 0) as [->|Hz]; [apply N.bits_0|].
  apply N.bits_above_log2. apply N.lt_le_trans with k; [|exact Hk].
  apply N.log2_lt_pow2; lia.
Qed.

Lemma lor_shiftl_add a b k : a < 2 ^ k -> N.lor a (N.shiftl b k) = a + N.shiftl b k.
Proof.
  intros Ha.
  assert (Hz : N.land a (N.shiftl b k) = 0).
  { apply N.bits_inj_0. intro n. rewrite N.land_spec.
    destruct (N.lt_ge_cases n k) as [Hl|Hg].
    - rewrite N.shiftl_spec_low by exact Hl. apply andb_false_r.
    - rewrite (testbit_small a k n Ha Hg). reflexivity. }
  rewrite <- N.lxor_lor by exact Hz. symmetry. apply N.add_nocarry_lxor. exact Hz.
Qed.

Lemma u32shl_small b n : b < 256 -> n <= 24 -> u32shl b n = b * 2 ^ n.
Proof.
  intros Hb Hn. unfold u32shl, wrap32. rewrite N.shiftl_mul_pow2.
  apply N.mod_small.
  assert (2 ^ n <= 2 ^ 24) by (apply N.pow_le_mono_r; lia).
  change (2 ^ 24) with 16777216 in H. nia.
Qed.

Lemma jword_sum b0 b1 b2 b3 : b0 < 256 -> b1 < 256 -> b2 < 256 -> b3 < 256 ->
  N.lor (N.lor (N.lor b0 (u32shl b1 8)) (u32shl b2 16)) (u32shl b3 24)
  = b0 + b1 * 256 + b2 * 65536 + b3 * 16777216.
Proof.
  intros H0 H1 H2 H3.
  rewrite !u32shl_small by lia.
  change (2 ^ 8) with 256. change (2 ^ 16) with 65536. change (2 ^ 24) with 16777216.
  replace (b1 * 256) with (N.shiftl b1 8) by (rewrite N.shiftl_mul_pow2; reflexivity).
  rewrite (lor_shiftl_add b0 b1 8) by (change (2 ^ 8) with 256; lia).
  replace (b2 * 65536) with (N.shiftl b2 16) by (rewrite N.shiftl_mul_pow2; reflexivity).
  rewrite (lor_shiftl_add _ b2 16)
    by (rewrite N.shiftl_mul_pow2; change (2 ^ 8) with 256; change (2 ^ 16) with 65536; lia).
  replace (b3 * 16777216) with (N.shiftl b3 24) by (rewrite N.shiftl_mul_pow2; reflexivity).
  rewrite (lor_shiftl_add _ b3 24)
    by (rewrite !N.shiftl_mul_pow2; change (2 ^ 8) with 256; change (2 ^ 16) with 65536;
        change (2 ^ 24) with 16777216; lia).
  rewrite !N.shiftl_mul_pow2. reflexivity.
Qed.

(* one `x += word` of the Go loop = the four `x += k[j] << s` of the reference *)
Lemma word_add_eq a b0 b1 b2 b3 : b0 < 256 -> b1 < 256 -> b2 < 256 -> b3 < 256 ->
  wrap32 (a + N.lor (N.lor (N.lor b0 (u32shl b1 8)) (u32shl b2 16)) (u32shl b3 24))
  = add32 (add32 (add32 (add32 a b0) (shl32 b1 8)) (shl32 b2 16)) (shl32 b3 24).
Proof.
  intros H0 H1 H2 H3. rewrite jword_sum by assumption.
  change shl32 with u32shl. rewrite !u32shl_small by lia.
  change (2 ^ 8) with 256. change (2 ^ 16) with 65536. change (2 ^ 24) with 16777216.
  unfold add32, wrap32.
  rewrite (N.add_mod_idemp_l (a + b0) _ _) by lia.
  rewrite (N.add_mod_idemp_l (a + b0 + _) _ _) by lia.
  rewrite (N.add_mod_idemp_l (a + b0 + _ + _) _ _) by lia.
  f_equal. lia.
Qed.

(* ---- list facts ---- *)
Lemma nth_skipn {A} (l : list A) i j d : nth j (skipn i l) d = nth (i + j) l d.
Proof.
  revert l. induction i as [|i IH]; intros l; [reflexivity|].
  destruct l as [|x l]; cbn [skipn Nat.add nth]; [destruct j; reflexivity|apply IH].
Qed.

Lemma skipn_skipn' {A} (l : list A) i j : skipn j (skipn i l) = skipn (i + j) l.
Proof.
  revert l. induction i as [|i IH]; intros l; [reflexivity|].
  destruct l as [|x l]; cbn [skipn Nat.add]; [destruct j; reflexivity|apply IH].
Qed.

Lemma bat_skipn (name : list N) i j : kb (skipn i name) j = bat name (i + j).
Proof. unfold kb, bat. apply nth_skipn. Qed.

Lemma bat_lt (name : list N) i : Forall (fun x => x < 256) name -> bat name i < 256.
Proof.
  intros H. unfold bat. destruct (Nat.lt_ge_cases i (List.length name)) as [Hl|Hg].
  - rewrite Forall_forall in H. apply H. apply nth_In. exact Hl.
  - rewrite nth_overflow by exact Hg. lia.
Qed.

Lemma jmix_mix a b c : jmix a b c = mix a b c.
Proof. unfold jmix, mix, rot, add32. reflexivity. Qed.

Lemma jfinal_final a b c : jfinal a b c = final a b c.
Proof. unfold jfinal, final, rot. reflexivity. Qed.

(* ---- the loop: the index-based Go loop visits the same blocks as the pointer-based reference ---- *)
Lemma jloop_blocks fuel : forall (name : list N) i a b c,
  Forall (fun x => x < 256) name -> (i <= List.length name)%nat ->
  exists i' a' b' c',
    jloop fuel name (List.length name) i a b c = (i', a', b', c')
    /\ hl_blocks fuel (skipn i name) a b c = (skipn i' name, a', b', c')
    /\ (i <= i' <= List.length name)%nat
    /\ ((List.length name - i <= 12 * fuel)%nat -> (List.length name - i' <= 12)%nat).
Proof.
  induction fuel as [|fuel IH]; intros name i a b c Hb Hi.
  - exists i, a, b, c. cbn [jloop hl_blocks]. repeat split; lia.
  - cbn [jloop hl_blocks]. rewrite skipn_length.
    destruct (12 <? List.length name - i)%nat eqn:E.
    + apply Nat.ltb_lt in E.
      rewrite !bat_skipn.
      replace (i + 0)%nat with i by lia.
      unfold jword.
      rewrite (word_add_eq a) by (apply bat_lt; exact Hb).
      rewrite (word_add_eq b) by (apply bat_lt; exact Hb).
      rewrite (word_add_eq c) by (apply bat_lt; exact Hb).
      replace (i + 4 + 1)%nat with (i + 5)%nat by lia. replace (i + 4 + 2)%nat with (i + 6)%nat by lia.
      replace (i + 4 + 3)%nat with (i + 7)%nat by lia. replace (i + 8 + 1)%nat with (i + 9)%nat by lia.
      replace (i + 8 + 2)%nat with (i + 10)%nat by lia. replace (i + 8 + 3)%nat with (i + 11)%nat by lia.
      rewrite jmix_mix.
      destruct (mix _ _ _) as [[a1 b1] c1].
      rewrite skipn_skipn'.
      destruct (IH name (i + 12)%nat a1 b1 c1 Hb ltac:(lia)) as (i' & a' & b' & c' & H1 & H2 & H3 & H4).
      exists i', a', b', c'. repeat split; try assumption; try lia.
    + apply Nat.ltb_ge in E. exists i, a, b, c. repeat split; lia.
Qed.

(* ---- the switch ---- *)
Lemma jswitch_tail (name : list N) i a b c : (List.length name - i <= 12)%nat ->
  jswitch name i (List.length name - i) a b c = hl_tail (skipn i name) a b c.
Proof.
  intros H. unfold jswitch, hl_tail.
  replace (12 <? List.length name - i)%nat with false by (symmetry; apply Nat.ltb_ge; exact H).
  rewrite skipn_length, !bat_skipn. replace (i + 0)%nat with i by lia. reflexivity.
Qed.

Theorem jenkins_eq_hashlittle : forall s, Forall (fun x => x < 256) s -> jenkins s = hashlittle s 0.
Proof.
  intros s Hb. unfold jenkins, hashlittle. cbv zeta. unfold bytes, byte in *.
  match goal with |- context [jloop _ _ _ _ ?x _ _] => set (init := x) end.
  match goal with |- context [hl_blocks _ _ ?y _ _] => replace y with init end.
  2:{ unfold add32, init, wrap32. rewrite N.add_0_r, N.mod_mod by lia. reflexivity. }
  destruct (jloop_blocks (List.length s) s 0%nat init init init Hb ltac:(lia))
    as (i' & a' & b' & c' & H1 & H2 & H3 & H4).
  rewrite H1. cbn [skipn] in H2. rewrite H2.
  specialize (H4 ltac:(lia)).
  destruct (List.length s - i')%nat as [|r] eqn:Er.
  - assert (Hnil : skipn i' s = []) by (apply List.length_zero_iff_nil; rewrite skipn_length; exact Er).
    rewrite Hnil. reflexivity.
  - destruct (skipn i' s) as [|x t] eqn:Es.
    + apply (f_equal (@List.length N)) in Es. rewrite skipn_length in Es. cbn in Es. exfalso. clear - Es Er. lia.
    + rewrite <- Es, <- Er. rewrite jswitch_tail by (clear - H4 Er; lia).
      destruct (hl_tail _ _ _ _) as [[a2 b2] c2]. rewrite jfinal_final. reflexivity.
Qed.

(* the loop really consumed every full block (the fuel did not run out) *)
Lemma hashlittle_blocks_done : forall s a b c,
  (List.length (fst (fst (fst (hl_blocks (List.length s) s a b c)))) <= 12)%nat.
Proof.
  intros s a b c.
  assert (G : forall fuel k a b c, (List.length k <= 12 * fuel)%nat \/ (List.length k <= 12)%nat ->
             (List.length (fst (fst (fst (hl_blocks fuel k a b c)))) <= 12)%nat).
  { induction fuel as [|f IH]; intros k a0 b0 c0 H.
    - cbn [hl_blocks fst]. lia.
    - cbn [hl_blocks]. destruct (12 <? List.length k)%nat eqn:E.
      + apply Nat.ltb_lt in E. destruct (mix _ _ _) as [[a1 b1] c1]. apply IH. rewrite skipn_length. lia.
      + apply Nat.ltb_ge in E. cbn [fst]. exact E. }
  apply G. lia.
Qed.

Lemma lxor_lt32 a b : a < 4294967296 -> b < 4294967296 -> N.lxor a b < 4294967296.
Proof.
  intros Ha Hb. change 4294967296 with (2 ^ 32) in *.
  destruct (N.eq_dec (N.lxor a b) 0) as [E|E]; [rewrite E; reflexivity|].
  apply N.log2_lt_pow2; [lia|].
  eapply N.le_lt_trans; [apply N.log2_lxor|].
  apply N.max_lub_lt.
  - destruct (N.eq_dec a 0) as [->|]; [reflexivity|apply N.log2_lt_pow2; lia].
  - destruct (N.eq_dec b 0) as [->|]; [reflexivity|apply N.log2_lt_pow2; lia].
Qed.

Lemma jenkins_lt : forall s, jenkins s < 4294967296.
Proof.
  intros s. unfold jenkins.
  assert (W : forall x, wrap32 x < 4294967296) by (intro x; unfold wrap32; apply N.mod_lt; lia).
  assert (S : forall x y, sub32 x y < 4294967296) by (intros x y; unfold sub32; apply N.mod_lt; lia).
  (* c after the loop is either the initial value or the `c` component of jmix, both < 2^32 *)
  assert (L : forall fuel name len i a b c, c < 4294967296 ->
              snd (jloop fuel name len i a b c) < 4294967296).
  { induction fuel as [|f IH]; intros name len i a b c Hc; cbn [jloop]; [exact Hc|].
    destruct (12 <? len - i)%nat; [|exact Hc].
    destruct (jmix _ _ _) as [[a1 b1] c1] eqn:Em. apply IH.
    unfold jmix in Em. inversion Em. clear Em.
    apply lxor_lt32; [apply S|]. unfold rotl32. apply W. }
  specialize (L (List.length s) s (List.length s) 0%nat
                (wrap32 (3735928559 + wrap32 (N.of_nat (List.length s))))
                (wrap32 (3735928559 + wrap32 (N.of_nat (List.length s))))
                (wrap32 (3735928559 + wrap32 (N.of_nat (List.length s)))) (W _)).
  destruct (jloop _ _ _ _ _ _ _) as [[[i a] b] c]. cbn [snd] in L.
  destruct (List.length s - i)%nat; [exact L|].
  destruct (jswitch _ _ _ _ _ _) as [[a2 b2] c2]. unfold jfinal. apply S.
Qed.
