(* Lemmas for C11, group 5b (object header v2 with continuation chunks), part 1:
   fuel monotonicity, conservativity over Model/CodecOhdr.v, refusal witnesses. *)
From HV Require Import Base.Prelude Base.Outcome Base.Bytes Model.CodecOhdr Model.CodecOhdrCont.

Ltac dm_hyp H :=
  repeat (match type of H with
          | context [if ?c then _ else _] => destruct c eqn:?
          | context [obind ?o _] => destruct o eqn:?; cbn [obind] in *
          | context [match ?p with [] => _ | _ :: _ => _ end] => destruct p eqn:?
          | context [let (_, _) := ?p in _] => destruct p eqn:?
          end; try discriminate H).

(* more fuel does not change a result *)
Lemma v2_loop_c_mono : forall (f f' : nat) file os ls isBE sbBE hdr isCont cur e pend vis r,
  (f <= f')%nat ->
  v2_loop_c f file os ls isBE sbBE hdr isCont cur e pend vis = Ok r ->
  v2_loop_c f' file os ls isBE sbBE hdr isCont cur e pend vis = Ok r.
Proof.
  induction f as [|f IH]; intros f' file os ls isBE sbBE hdr isCont cur e pend vis r Hle H; [discriminate H|].
  destruct f' as [|f']; [lia|].
  assert (Hle' : (f <= f')%nat) by lia.
  cbn [v2_loop_c] in *.
  dm_hyp H; cbn [obind]; try exact H; try (eapply IH; eassumption);
    try (match goal with E : v2_loop_c f _ _ _ _ _ _ _ _ _ _ _ = Ok _ |- _ => rewrite (IH _ _ _ _ _ _ _ _ _ _ _ _ _ Hle' E) end;
         cbn [obind]; exact H).
Qed.

Lemma fuel_c_ge file : (S (length file) <= fuel_c file)%nat.
Proof. unfold fuel_c. lia. Qed.

(* the old message loop never queues a chunk: where it succeeds, the new one does the same *)
Lemma v2_loop_conservative : forall (f : nat) file os ls isBE sbBE hdr cur e vis r,
  v2_loop f file isBE hdr cur e = Ok r ->
  v2_loop_c f file os ls isBE sbBE hdr false cur e [] vis = Ok r.
Proof.
  induction f as [|f IH]; intros file os ls isBE sbBE hdr cur e vis r H; [discriminate H|].
  cbn [v2_loop v2_loop_c andb negb] in *. rewrite andb_true_r.
  dm_hyp H; cbn [obind]; try (eapply IH; eassumption); try exact H;
    try (match goal with E : v2_loop f _ _ _ _ _ = Ok _ |- _ => rewrite (IH _ os ls _ sbBE _ _ _ vis _ E) end;
         cbn [obind]; exact H).
Qed.

Lemma parse_v2_conservative os ls file addr flags isBE sbBE version r :
  parse_v2 file addr flags isBE sbBE version = Ok r ->
  parse_v2_c os ls file addr flags isBE sbBE version = Ok r.
Proof.
  unfold parse_v2, parse_v2_c. intros H.
  dm_hyp H; cbn [obind];
    match goal with E : v2_loop _ _ _ _ _ _ = Ok _ |- _ =>
      rewrite (v2_loop_c_mono _ _ _ _ _ _ _ _ _ _ _ _ _ _ (fuel_c_ge file) (v2_loop_conservative _ _ os ls _ sbBE _ _ _ [] _ E))
    end; cbn [obind]; exact H.
Qed.

(* (a) conservativity: wherever the model without continuation chunks returns a header, the model with
   them returns the same header - for every file image, address, offset / length size *)
Lemma dec_ohdr_conservative os ls sbBE file addr r :
  dec_ohdr sbBE file addr = Ok r -> dec_ohdr_c os ls sbBE file addr = Ok r.
Proof.
  unfold dec_ohdr, dec_ohdr_c. intros H.
  dm_hyp H; cbn [obind]; try exact H; apply parse_v2_conservative; exact H.
Qed.
