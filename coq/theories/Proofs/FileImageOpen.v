(* C01 end to end, composition: hdf5.Open's loader program (p_open, Model/IOProgOpen.v) run on image_v2 returns the tree
   "/" with exactly one child, the dataset `name` at the address of its object header. *)
From HV Require Import Base.Prelude Base.Outcome Base.Bytes Model.IOProg Proofs.IOProg Model.IOProgReader Model.IOProgOpen.
From HV Require Import Model.CodecSuper Model.CodecOhdr Model.CodecMsg Model.CodecType Model.CodecLink Model.GroupWire.
From HV Require Import Model.FileImage Proofs.FileImage Proofs.FileImageOhdr Proofs.FileImageData Proofs.FileImageGroup.

Lemma root_det : det_type root_msgs = 0. Proof. reflexivity. Qed.
Lemma root_nolinks : existsb (fun m => hmp_type m =? 6) root_msgs = false. Proof. reflexivity. Qed.
Lemma root_stab : last_symtab SB' root_msgs = Some (1624, 48). Proof. reflexivity. Qed.
Lemma root_attrs : p_attrs SB' root_msgs = Ret []. Proof. reflexivity. Qed.
Lemma dset_attrs m3 m1 m8 o3 o1 o8 :
  p_attrs SB' [ {| hmp_type := 3; hmp_offset := o3; hmp_data := m3 |}; {| hmp_type := 1; hmp_offset := o1; hmp_data := m1 |};
                {| hmp_type := 8; hmp_offset := o8; hmp_data := m8 |} ] = Ret [].
Proof. reflexivity. Qed.
Lemma dset_det m3 m1 m8 o3 o1 o8 :
  det_type [ {| hmp_type := 3; hmp_offset := o3; hmp_data := m3 |}; {| hmp_type := 1; hmp_offset := o1; hmp_data := m1 |};
             {| hmp_type := 8; hmp_offset := o8; hmp_data := m8 |} ] = 1.
Proof. reflexivity. Qed.

Section Image.
Variable name : bytes.
Variables class size cbf : N.
Variable dims : list N.
Variable data : bytes.
Hypothesis Hname : link_name_ok name = true.
Hypothesis Hdt : basic_dtype class size cbf = true.
Hypothesis Hdims : dims_ok dims = true.
Hypothesis Hlen : blen data = total_elems dims * size.
Hypothesis Hpos : 0 < blen data.
Hypothesis Hbound : blen data < 4294967296.

Local Notation f := (image_v2 name class size cbf dims data).
Local Notation da := (dset_addr data).
Local Notation seg := ((name ++ [0]) ++ zeros (N.to_nat (256 - (blen name + 1)))).

Variable B : N.
Hypothesis HB : 1 <= B.
Variable hfuel : nat.
Hypothesis Hhf : (3 < hfuel)%nat.

Lemma object_stage rec v :
  run0 f (p_object true SB' B hfuel rec da name {| vbt := v; loading := []; cnt := 0 |})
  = Ok (Dset name da, {| vbt := v; loading := []; cnt := 1 |}).
Proof.
  unfold p_object, enter. cbn [loading cnt vbt mem existsb lenN' length N.of_nat].
  change (1024 <=? 0) with false. change (0 + 1) with 1.
  replace (B <? 1) with false by (symmetry; apply N.ltb_ge; exact HB). cbv iota.
  unfold p_sig.
  rewrite (run0_read_exact _ f da [79; 72; 68; 82] 4 _ (P_dset_sig name class size cbf dims data Hname) eq_refl).
  change (bytes_eqb [79; 72; 68; 82] SNOD) with false. cbv iota.
  unfold with_header. rewrite run0_bind.
  rewrite (dset_header name class size cbf dims data Hname Hdt Hdims Hlen Hbound hfuel Hhf).
  rewrite run0_swallow.
  unfold proj_ohdr_v2, dset_ohdr. cbn [oh_msgs oh_flags msgs_at_v2 ohp_msgs hm_type hm_data].
  rewrite dset_attrs. cbn [bind]. rewrite run0_ret. rewrite dset_det.
  change (1 =? 0) with false. change (1 =? 1) with true. cbv iota.
  unfold leave. cbn [fst snd vbt loading cnt filter]. rewrite N.eqb_refl. cbn [negb]. reflexivity.
Qed.

Lemma children_stage n :
  run0 f (p_children true SB' (p_load true SB' B hfuel (S n)) 1624 48 {| vbt := []; loading := []; cnt := 0 |})
  = Ok ([Dset name da], {| vbt := [1624]; loading := []; cnt := 1 |}).
Proof.
  unfold p_children. cbn [mem existsb vbt loading cnt].
  rewrite run0_bind, (heap_stage name class size cbf dims data Hname).
  unfold p_sig.
  rewrite (run0_read_exact _ f 1624 [84; 82; 69; 69] 4 _ (P_bt_sig name class size cbf dims data Hname) eq_refl).
  change (bytes_eqb [84; 82; 69; 69] [84; 82; 69; 69]) with true. cbv iota.
  rewrite run0_bind, (btree_stage name class size cbf dims data Hname Hbound).
  cbn [children_loop is_soft]. change (0 =? 2) with false. cbv iota.
  unfold p_sig.
  rewrite (run0_read_exact _ f da [79; 72; 68; 82] 4 _ (P_dset_sig name class size cbf dims data Hname) eq_refl).
  change (bytes_eqb [79; 72; 68; 82] SNOD) with false. rewrite andb_false_r.
  rewrite run0_bind. unfold load_entry.
  rewrite (run0_lift_ok _ _ _ _ f name (heap_name name Hname)).
  change (0 =? 1) with false. cbn [andb].
  cbn [p_load dispatch].
  rewrite object_stage. cbn [fst snd]. reflexivity.
Qed.

Lemma modern_stage n :
  run0 f (p_modern true SB' hfuel (p_load true SB' B hfuel (S n)) 2168 {| vbt := []; loading := []; cnt := 0 |})
  = Ok (Grp [] 2168 [Dset name da], {| vbt := [1624]; loading := []; cnt := 1 |}).
Proof.
  unfold p_modern, with_header. rewrite run0_bind.
  rewrite (root_header name class size cbf dims data Hname hfuel ltac:(blia)).
  rewrite run0_swallow. cbn [ohp_msgs ohp_name]. rewrite root_attrs. cbn [bind]. rewrite run0_ret.
  rewrite root_det, root_nolinks, root_stab.
  change (0 =? 0) with true. cbn [orb negb]. cbv iota.
  rewrite run0_bind, children_stage. reflexivity.
Qed.

Theorem open_image n : B = blen f / 8 + 1024 ->
  run0 f (p_open true (blen f) (S (S (S n))) hfuel) = Ok (Grp [47] 2168 [Dset name da]).
Proof.
  intros HBe. unfold p_open.
  rewrite (sig_read name class size cbf dims data).
  change (bytes_eqb signature signature) with true. cbn [negb].
  rewrite run0_bind, (superblock_stage name class size cbf dims data Hname Hbound).
  cbn [spp_root SB'].
  replace (blen f <=? 2168) with false.
  2:{ symmetry. apply N.leb_gt. rewrite (image_len name class size cbf dims data Hname Hdt Hdims Hlen Hbound).
      unfold eof_addr, dset_addr. change DATA_ADDR with 2195. blia. }
  rewrite run0_bind. rewrite <- HBe.
  cbn [p_load dispatch]. unfold p_group. change (2168 =? 0) with false. cbv iota.
  unfold p_sig.
  rewrite (run0_read_exact _ f 2168 [79; 72; 68; 82] 4 _ (P_root_sig name class size cbf dims data Hname) eq_refl).
  change (bytes_eqb [79; 72; 68; 82] SNOD) with false. cbv iota.
  cbn [p_load dispatch].
  change (fun (r : req) (st : lstate) => dispatch true SB' B hfuel (p_load true SB' B hfuel n) r st) with (p_load true SB' B hfuel (S n)).
  rewrite modern_stage. reflexivity.
Qed.
End Image.
