(* C09: validation + dispatcher: ReadHyperslab / ReadSlice return the selection of the full read
   for every valid selection and an error for every other one. *)
From HV Require Import Base.Prelude Model.Hyperslab Proofs.HyperslabBase Proofs.HyperslabValidate
  Proofs.HyperslabRaw Proofs.HyperslabContig Proofs.HyperslabChunk.

Definition layout_ok (lay : layout) (full dims : list N) : Prop :=
  lenN full = prodN dims /\
  match lay with
  | Chunked cdims => length cdims = length dims /\ Forall (fun c => 0 < c) cdims
  | _ => True
  end.

Theorem dispatch_correct lay full dims s :
  axes_valid s dims -> s <> [] -> layout_ok lay full dims ->
  dispatch lay full dims s = select full dims s.
Proof.
  intros V Hne (Hlen & Hl). destruct lay as [| |cdims]; cbn [dispatch].
  - apply extract_from_raw_correct; assumption.
  - apply read_hyperslab_contiguous_correct; assumption.
  - destruct Hl. apply read_hyperslab_chunked_correct; assumption.
Qed.

(* selections with a zero count (ReadSlice allows them) select nothing, on every path *)
Lemma dispatch_zero lay full dims s : out_elems s = 0 -> dispatch lay full dims s = [].
Proof.
  intros E. destruct lay; cbn [dispatch].
  - unfold extract_from_raw. rewrite E. reflexivity.
  - unfold read_hyperslab_contiguous, read_contiguous_optimized, read_contiguous_row_by_row.
    rewrite E. cbn [N.eqb]. destruct (is_contiguous_selection s dims); reflexivity.
  - unfold read_hyperslab_chunked. rewrite E. reflexivity.
Qed.

Definition axis_valid0 (a : axis) (d : N) : Prop :=
  0 < a_stride a /\ 0 < a_block a /\
  (a_count a = 0 \/ a_start a + (a_count a - 1) * a_stride a + a_block a <= d).

Lemma out_elems_counts s : s <> [] -> out_elems s <> 0 -> Forall (fun a => 0 < a_count a) s.
Proof.
  intros Hne H. unfold out_elems in H. destruct s as [|a0 s0]; [congruence|].
  rewrite out_elems_fold, N.mul_1_l in H. clear Hne.
  induction (a0 :: s0) as [|a s IH]; [constructor|]. cbn [fold_right] in H.
  constructor; [|apply IH]; nia.
Qed.

Theorem dispatch_correct0 lay full dims s :
  Forall2 axis_valid0 s dims -> s <> [] -> layout_ok lay full dims ->
  dispatch lay full dims s = select full dims s.
Proof.
  intros V Hne L.
  assert (Hb : Forall (fun a => 0 < a_block a) s).
  { clear -V. induction V as [|a d s dims H _ IH]; constructor; [apply H|assumption]. }
  destruct (N.eq_dec (out_elems s) 0) as [E|E].
  - rewrite dispatch_zero by assumption. symmetry. apply select_nil; assumption.
  - apply dispatch_correct; try assumption.
    pose proof (out_elems_counts s Hne E) as Hc. clear -V Hc.
    induction V as [|a d s dims H _ IH]; [constructor|]. inversion Hc as [|? ? Hca Hcs]; subst.
    constructor; [|apply IH; assumption].
    destruct H as (A1 & A2 & [A3|A3]); [lia|]. repeat split; assumption.
Qed.

(* ---------------------------------------------------------------- ReadHyperslab *)
Lemma validate_nonempty h dims : validate h dims = Ok -> dims <> [].
Proof.
  unfold validate, validate_gen. intros H Hd. subst dims. cbn [length] in H.
  destruct (validate_selection_dimensions h 0) eqn:E0; [|discriminate].
  apply vsd_ok in E0. destruct E0 as (_ & L2 & _).
  destruct (h_count h); [|discriminate].
  destruct (validate_hyperslab_bounds _ _ _ _ _); discriminate.
Qed.

Lemma axes_of_nonempty h (dims : list N) : lens_ok h (length dims) -> dims <> [] -> axes_of h (length dims) <> [].
Proof.
  intros (L1 & L2 & L3 & L4) Hne. unfold axes_of.
  destruct dims as [|d ds]; [congruence|]. cbn [length] in *.
  destruct (h_start h), (h_count h), (stride_of h (S (length ds))), (block_of h (S (length ds))); discriminate.
Qed.

Theorem read_hyperslab_ok lay full dims h :
  u64_sel h (length dims) -> Forall u64 dims -> layout_ok lay full dims ->
  validate h dims = Ok ->
  read_hyperslab lay full dims h = Some (select full dims (axes_of h (length dims))).
Proof.
  intros U Ud L E. unfold read_hyperslab. rewrite E. f_equal.
  pose proof (validate_sound h dims U Ud E) as (Lens & V).
  apply dispatch_correct; try assumption.
  apply axes_of_nonempty; [assumption|]. eapply validate_nonempty; eassumption.
Qed.

Theorem read_hyperslab_rejects lay full dims h :
  u64_sel h (length dims) -> Forall u64 dims -> ~ valid h dims -> read_hyperslab lay full dims h = None.
Proof.
  intros U Ud NV. unfold read_hyperslab. destruct (validate h dims) eqn:E; [|reflexivity].
  exfalso. apply NV. apply validate_sound; assumption.
Qed.

Theorem read_hyperslab_valid lay full dims h :
  u64_sel h (length dims) -> Forall u64 dims -> layout_ok lay full dims ->
  dims <> [] -> prodN (h_count h) <= max_hyperslab_elements -> valid h dims ->
  read_hyperslab lay full dims h = Some (select full dims (axes_of h (length dims))).
Proof.
  intros U Ud L Hne Hlim V. apply read_hyperslab_ok; try assumption.
  apply validate_complete; assumption.
Qed.

(* ---------------------------------------------------------------- ReadSlice *)
Lemma slice_axes_valid0 : forall start count dims,
  length start = length dims -> length count = length dims ->
  Forall2 (fun sc d => fst sc + snd sc <= d) (combine start count) dims ->
  forall o1 o2, length o1 = length dims -> length o2 = length dims -> Forall (eq 1) o1 -> Forall (eq 1) o2 ->
  Forall2 axis_valid0 (zip4 start count o1 o2) dims.
Proof.
  induction start as [|s0 s IH]; intros [|c0 c] [|d0 d] L1 L2 V [|a o1] [|b o2] L3 L4 F1 F2;
    cbn [length] in *; try discriminate; cbn [zip4 combine] in *; [constructor|].
  inversion V; inversion F1; inversion F2; subst. cbn [fst snd] in *.
  constructor; [|apply IH; try assumption; lia].
  unfold axis_valid0. cbn [a_start a_count a_stride a_block].
  split; [lia|]. split; [lia|]. destruct (N.eq_dec c0 0); [left; assumption|right; lia].
Qed.

Lemma ones_all n : Forall (eq 1) (ones n).
Proof. unfold ones. induction n; cbn [repeat]; constructor; auto. Qed.

Lemma valid0_valid s dims : Forall2 axis_valid0 s dims -> s <> [] -> out_elems s <> 0 -> axes_valid s dims.
Proof.
  intros V Hne E. pose proof (out_elems_counts s Hne E) as Hc. clear -V Hc.
  induction V as [|a d s dims H _ IH]; [constructor|]. inversion Hc as [|? ? Hca Hcs]; subst.
  constructor; [|apply IH; assumption].
  destruct H as (A1 & A2 & [A3|A3]); [lia|]. repeat split; assumption.
Qed.

Lemma slice_valid_u64 : forall start count dims, length start = length dims -> length count = length dims ->
  Forall2 (fun sc d => fst sc + snd sc <= d) (combine start count) dims -> Forall u64 dims ->
  Forall u64 start /\ Forall u64 count.
Proof.
  induction start as [|s0 s IH]; intros [|c0 c] [|d0 d] L1 L2 V U; cbn [length combine] in *; try discriminate;
    [split; constructor|].
  inversion V; inversion U; subst. cbn [fst snd] in *. destruct (IH c d) as [A B]; try lia; try assumption.
  unfold u64 in *. split; constructor; try assumption; lia.
Qed.

Lemma ones_u64 n : Forall u64 (ones n).
Proof. unfold ones. induction n; cbn [repeat]; constructor; [unfold u64, u64max; lia|assumption]. Qed.

(* a request inside the dataset with at most MaxHyperslabElements elements is read *)
Theorem read_slice_ok lay full dims start count :
  Forall u64 dims -> layout_ok lay full dims -> dims <> [] ->
  prodN count <= max_hyperslab_elements ->
  slice_valid start count dims ->
  read_slice lay full dims start count = Some (select full dims (slice_axes start count)).
Proof.
  intros Ud L Hne Hlim SV. unfold read_slice.
  rewrite (proj2 (slice_validate_ok start count dims Ud) SV).
  destruct SV as (L1 & L2 & V).
  assert (V0 : Forall2 axis_valid0 (slice_axes start count) dims).
  { unfold slice_axes. apply slice_axes_valid0; try assumption; rewrite ?ones_length; try assumption; try apply ones_all. }
  assert (Sne : slice_axes start count <> []).
  { unfold slice_axes. destruct dims as [|d ds]; [congruence|]. cbn [length] in *. destruct start, count; discriminate. }
  assert (D : dispatch lay full dims (slice_axes start count) = select full dims (slice_axes start count))
    by (apply dispatch_correct0; assumption).
  cbv zeta. destruct (N.eqb_spec (out_elems (slice_axes start count)) 0) as [E|E]; [now rewrite D|].
  pose proof (valid0_valid _ _ V0 Sne E) as AV.
  destruct (slice_valid_u64 start count dims L1 L2 V Ud) as [U1 U2].
  rewrite validate_complete; [now rewrite D| | assumption | assumption | exact Hlim |].
  - unfold u64_sel. cbn [h_start h_count stride_of block_of h_stride h_block]. auto using ones_u64.
  - split.
    + unfold lens_ok. cbn [h_start h_count stride_of block_of h_stride h_block]. rewrite !ones_length. auto.
    + unfold axes_of. cbn [h_start h_count stride_of block_of h_stride h_block].
      unfold slice_axes in AV. rewrite L1 in AV. exact AV.
Qed.

Theorem read_slice_rejects lay full dims start count :
  Forall u64 dims -> ~ slice_valid start count dims -> read_slice lay full dims start count = None.
Proof.
  intros Ud NV. unfold read_slice. destruct (slice_validate start count dims) eqn:E; [|reflexivity].
  exfalso. apply NV. apply slice_validate_ok; assumption.
Qed.
