(* C06, reader against specification: the superblock for the REPAIRED reader (Model/CodecSuper.v
   dec_superblock_gen true = dec_superblock = internal/core/superblock.go with notes/fixes/c06-superblock-sizes.patch applied), for EVERY size
   of offsets and size of lengths the format allows (2, 4, 8) - the statement that is refuted for the reader as it is
   (ReaderSpecSuper.v) and proved there only for sizes 8 / 8 (ReaderSpecSuperOk.v).
   The three refutation witnesses are decoded correctly by the repaired reader (superblock_repaired_witnesses). *)
From HV Require Import Base.Prelude Base.Outcome Base.Bytes Spec.Parse Spec.Format Model.CodecSuper
  Proofs.RobustNoPanicBase Proofs.ReaderSpecBase Proofs.ReaderSpecSuper Proofs.ReaderSpecSuperOk.

Definition repaired_view (bs : bytes) : outcome (N * N * N * N * N * N * N) :=
  s <- dec_superblock_gen true bs;;
  Ok (spp_version s, spp_offsize s, spp_lensize s, spp_base s, spp_root s, spp_rootbtree s, spp_rootheap s).

Lemma superblock_repaired_witnesses :
  repaired_view sb2_witness_8_4 = Ok (2, 8, 4, 0, 48, 0, 0) /\
  repaired_view sb2_witness_4_4 = Ok (3, 4, 4, 0, 48, 0, 0) /\
  repaired_view sb0_witness_4 = Ok (0, 4, 4, 0, 96, 136, 680).
Proof. repeat split; vm_compute; reflexivity. Qed.

Lemma size_ok_cases k : size_ok k = true -> k = 2 \/ k = 4 \/ k = 8.
Proof.
  unfold size_ok. intros H.
  apply orb_true_iff in H as [H|H]; [apply orb_true_iff in H as [H|H]|]; apply N.eqb_eq in H; auto.
Qed.

Lemma read_value_le (buf : list N) p k v :
  blen buf = 128 -> p + k <= 128 -> k = 2 \/ k = 4 \/ k = 8 -> rd_le buf p k = Ok v -> read_value buf p k false = Ok v.
Proof.
  intros L Hp Hk R. unfold read_value. rewrite L. rewrite ltb_false_of_le by exact Hp.
  replace (valid_size k) with true by (destruct Hk as [-> | [-> | ->]]; reflexivity).
  exact R.
Qed.

(* ------------------------------------------------------------------ versions 2 and 3, every size *)
Lemma superblock_v23_repaired_reader_spec (bs : bytes) (s : superblock_spec) (tg : list tag) (r : bytes) :
  spec_dec_superblock strict bs = Ok (s, tg, r) ->
  sbs_version s = 2 \/ sbs_version s = 3 ->
  err_or (sb_agree s) (dec_superblock_gen true bs).
Proof.
  intros H HV. pose proof (spec_sb_version _ _ _ _ H) as IV.
  unfold spec_dec_superblock in H. rewrite (at_pos_0 bs) in H.
  assert (P0 : 0 <= blen bs) by blia.
  destruct (p_expect hdf5_sig (at_pos bs 0)) as [[[] r0]| |] eqn:EX; cbn [obind] in H; try discriminate H.
  apply p_expect_sig_at in EX as (B0 & -> & SG).
  s_byte H v B1 I8.
  assert (VV : v = 2 \/ v = 3) by (rewrite I8 in IV; injection IV as EV; rewrite EV; exact HV).
  clear IV.
  replace ((v =? 0) || (v =? 1)) with false in H by (destruct VV as [-> | ->]; reflexivity).
  replace ((v =? 2) || (v =? 3)) with true in H by (destruct VV as [-> | ->]; reflexivity).
  cbv beta iota in H.
  change (8 + 1) with 9 in *.
  s_byte H osz B2 I9. change (9 + 1) with 10 in *.
  s_byte H lsz B3 I10. change (10 + 1) with 11 in *.
  s_byte H flags B4 I11. change (11 + 1) with 12 in *.
  s_guard H GS. s_guard H GF.
  apply andb_true_iff in GS as [GO GL].
  pose proof (size_ok_cases _ GO) as CO. pose proof (size_ok_cases _ GL) as CL.
  s_u H base B5 RB. s_u H ext B6 RE. s_u H eof B7 RF. s_u H root B8 RR.
  s_u H stored B9 RC.
  match type of H with obind ?o _ = _ => destruct o as [tg0| |]; cbn [obind] in H; try discriminate H end.
  injection H as <- <- <-. cbn [sbs_version sbs_O sbs_L sbs_root_entry sbs_base sbs_ext sbs_root] in *.
  rewrite N2Nat.id in *. change (N.of_nat 4) with 4 in *.
  (* the repaired reader *)
  unfold dec_superblock_gen. fold (sbuf bs).
  destruct (N.min (blen bs) 128 <? 48) eqn:MN; [exact I|]. apply N.ltb_ge in MN.
  rewrite slice_sbuf by blia. rewrite SG. cbn [obind].
  change (bytes_eqb hdf5_sig signature) with true. cbv beta iota.
  rewrite index_sbuf by blia. rewrite I8. cbn [obind].
  replace (negb ((v =? 0) || (v =? 2) || (v =? 3))) with false by (destruct VV as [-> | ->]; reflexivity).
  replace (v =? 0) with false by (destruct VV as [-> | ->]; reflexivity).
  cbn [andb]. cbv beta iota.
  rewrite !index_sbuf by blia. rewrite I9. cbn [obind]. rewrite I10. cbn [obind].
  change (spec_size osz) with (size_ok osz). change (spec_size lsz) with (size_ok lsz). rewrite GO, GL.
  cbn [andb]. cbv beta iota. cbn [obind]. cbv beta iota.
  replace (osz =? 0) with false by (destruct CO as [-> | [-> | ->]]; reflexivity).
  replace (lsz =? 0) with false by (destruct CL as [-> | [-> | ->]]; reflexivity).
  cbv beta iota.
  replace (valid_size osz) with true by (destruct CO as [-> | [-> | ->]]; reflexivity).
  replace (valid_size lsz) with true by (destruct CL as [-> | [-> | ->]]; reflexivity).
  cbn [andb negb]. cbv beta iota.
  assert (V1 : read_value (sbuf bs) 12 osz false = Ok base).
  { apply read_value_le; [apply blen_sbuf | blia | exact CO | rewrite rd_le_sbuf by blia; exact RB]. }
  assert (V2 : read_value (sbuf bs) (12 + osz) osz false = Ok ext).
  { apply read_value_le; [apply blen_sbuf | blia | exact CO | rewrite rd_le_sbuf by blia; exact RE]. }
  assert (V3 : read_value (sbuf bs) (12 + 3 * osz) osz false = Ok root).
  { replace (12 + 3 * osz) with (12 + osz + osz + osz) by blia.
    apply read_value_le; [apply blen_sbuf | blia | exact CO | rewrite rd_le_sbuf by blia; exact RR]. }
  rewrite V1. cbn [obind]. rewrite V2. cbn [obind]. rewrite V3. cbn [obind err_or].
  repeat split.
Qed.

(* ------------------------------------------------------------------ version 0, every size *)
Lemma superblock_v0_repaired_reader_spec (bs : bytes) (s : superblock_spec) (tg : list tag) (r : bytes) :
  spec_dec_superblock strict bs = Ok (s, tg, r) ->
  sbs_version s = 0 ->
  err_or (sb_agree s) (dec_superblock_gen true bs).
Proof.
  intros H HV. pose proof (spec_sb_version _ _ _ _ H) as IV.
  unfold spec_dec_superblock in H. rewrite (at_pos_0 bs) in H.
  assert (P0 : 0 <= blen bs) by blia.
  destruct (p_expect hdf5_sig (at_pos bs 0)) as [[[] r0]| |] eqn:EX; cbn [obind] in H; try discriminate H.
  apply p_expect_sig_at in EX as (B0 & -> & SG).
  s_byte H v B1 I8.
  assert (VV : v = 0) by (rewrite I8 in IV; injection IV as EV; rewrite EV; exact HV).
  clear IV. subst v.
  change ((0 =? 0) || (0 =? 1)) with true in H. cbv beta iota in H.
  change (8 + 1) with 9 in *.
  s_byte H fsv B2 I9. change (9 + 1) with 10 in *.
  s_byte H rgv B3 I10. change (10 + 1) with 11 in *.
  s_byte H rs1 B4 I11. change (11 + 1) with 12 in *.
  s_byte H shv B5 I12. change (12 + 1) with 13 in *.
  s_byte H osz B6 I13. change (13 + 1) with 14 in *.
  s_byte H lsz B7 I14. change (14 + 1) with 15 in *.
  s_byte H rs2 B8 I15. change (15 + 1) with 16 in *.
  s_guard H G1. s_guard H G2.
  apply andb_true_iff in G2 as [GO GL].
  pose proof (size_ok_cases _ GO) as CO. pose proof (size_ok_cases _ GL) as CL.
  s_u H leafK B9 R16. s_u H intK B10 R18. s_guard H G3.
  s_u H flags B11 R20. s_guard H G4.
  change (0 =? 1) with false in H. cbv beta iota in H. cbn [obind] in H. cbv beta iota in H.
  change (N.of_nat 2) with 2 in *. change (N.of_nat 4) with 4 in *.
  change (16 + 2) with 18 in *. change (18 + 2) with 20 in *. change (20 + 4) with 24 in *.
  s_u H base B12 RB. s_u H fsinfo B13 RFS. s_u H eof B14 RE. s_u H driver B15 RD.
  s_guard H G5.
  match type of H with
  | obind (spec_dec_sym_entry ?o ?rr) _ = _ =>
      destruct (spec_dec_sym_entry o rr) as [[e r1]| |] eqn:EE; cbn [obind] in H; try discriminate H
  end.
  injection H as <- <- <-. cbn [sbs_version sbs_O sbs_L sbs_root sbs_root_entry] in *.
  unfold spec_dec_sym_entry in EE. rewrite N2Nat.id in *.
  remember (24 + osz + osz + osz + osz) as PE eqn:HPE.
  s_u EE noff B16 RNO. rewrite N2Nat.id in *.
  s_u EE obj B17 RO. rewrite N2Nat.id in *.
  s_u EE cache B18 RCA. change (N.of_nat 4) with 4 in *.
  s_zeros EE B19 ZR. change (N.of_nat 4) with 4 in *.
  remember (PE + osz + osz + 4 + 4) as PS eqn:HPS.
  s_take EE scratch B20 SS LSC. change (N.of_nat 16) with 16 in *.
  assert (EO : se_obj e = obj /\
               (se_cache e = 1 -> rd_le bs PS osz = Ok (se_btree e) /\ rd_le bs (PS + osz) osz = Ok (se_heap e))).
  { destruct (cache =? 0) eqn:C0.
    - injection EE as <- <-. cbn [se_obj se_cache]. split; [reflexivity|discriminate].
    - destruct (cache =? 1) eqn:C1.
      + rewrite (at_pos_0 scratch) in EE. assert (PSC : 0 <= blen scratch) by blia.
        s_u EE bt BB1 RB1. s_u EE hp BB2 RB2. injection EE as <- <-. cbn [se_obj se_cache se_btree se_heap].
        split; [reflexivity|]. intros _. rewrite N2Nat.id in *.
        split.
        * replace PS with (PS + 0) by blia. exact (rd_le_in_slice bs PS (PS + 16) scratch 0 osz bt SS RB1).
        * exact (rd_le_in_slice bs PS (PS + 16) scratch (0 + osz) osz hp SS RB2).
      + destruct (cache =? 2) eqn:C2; [|discriminate EE].
        rewrite (at_pos_0 scratch) in EE. assert (PSC : 0 <= blen scratch) by blia.
        s_u EE lo BB1 RB1. injection EE as <- <-. cbn [se_obj se_cache]. split; [reflexivity|discriminate]. }
  destruct EO as (EO1 & EO2).
  (* the repaired reader *)
  unfold dec_superblock_gen. fold (sbuf bs).
  destruct (N.min (blen bs) 128 <? 48) eqn:MN; [exact I|]. apply N.ltb_ge in MN.
  rewrite slice_sbuf by blia. rewrite SG. cbn [obind].
  change (bytes_eqb hdf5_sig signature) with true. cbv beta iota.
  rewrite index_sbuf by blia. rewrite I8. cbn [obind].
  cbn [N.eqb Pos.eqb orb negb andb]. cbv beta iota.
  destruct (N.min (blen bs) 128 <? 96) eqn:MN2; [exact I|]. apply N.ltb_ge in MN2.
  rewrite !index_sbuf by blia. rewrite I13. cbn [obind]. rewrite I14. cbn [obind]. cbv beta iota.
  replace (osz =? 0) with false by (destruct CO as [-> | [-> | ->]]; reflexivity).
  replace (lsz =? 0) with false by (destruct CL as [-> | [-> | ->]]; reflexivity).
  cbv beta iota.
  replace (valid_size osz) with true by (destruct CO as [-> | [-> | ->]]; reflexivity).
  replace (valid_size lsz) with true by (destruct CL as [-> | [-> | ->]]; reflexivity).
  cbn [andb negb]. cbv beta iota.
  assert (BND : PS + 16 <= 96) by (destruct CO as [-> | [-> | ->]]; blia).
  destruct (rd_le_ok bs PS osz) as (bt' & RBT); [blia|].
  destruct (rd_le_ok bs (PS + osz) osz) as (hp' & RHP); [destruct CO as [-> | [-> | ->]]; blia|].
  assert (V1 : read_value (sbuf bs) (24 + 4 * osz + osz) osz false = Ok obj).
  { replace (24 + 4 * osz + osz) with (PE + osz) by blia.
    apply read_value_le; [apply blen_sbuf | blia | exact CO | rewrite rd_le_sbuf by blia; exact RO]. }
  assert (V2 : read_value (sbuf bs) (24 + 4 * osz + 2 * osz + 8) osz false = Ok bt').
  { replace (24 + 4 * osz + 2 * osz + 8) with PS by blia.
    apply read_value_le; [apply blen_sbuf | destruct CO as [-> | [-> | ->]]; blia | exact CO | rewrite rd_le_sbuf by (destruct CO as [-> | [-> | ->]]; blia); exact RBT]. }
  assert (V3 : read_value (sbuf bs) (24 + 4 * osz + 2 * osz + 8 + osz) osz false = Ok hp').
  { replace (24 + 4 * osz + 2 * osz + 8 + osz) with (PS + osz) by blia.
    apply read_value_le; [apply blen_sbuf | destruct CO as [-> | [-> | ->]]; blia | exact CO | rewrite rd_le_sbuf by (destruct CO as [-> | [-> | ->]]; blia); exact RHP]. }
  rewrite V1. cbn [obind]. rewrite V2. cbn [obind]. rewrite V3. cbn [obind err_or]. unfold sb_agree.
  cbn [spp_version spp_offsize spp_lensize spp_bigendian spp_root spp_rootbtree spp_rootheap
       sbs_version sbs_O sbs_L sbs_root sbs_root_entry].
  split; [reflexivity|]. split; [reflexivity|]. split; [reflexivity|]. split; [reflexivity|].
  split; [now rewrite EO1|].
  intros C. destruct (EO2 C) as (Q1 & Q2). rewrite Q1 in RBT. rewrite Q2 in RHP.
  injection RBT as <-. injection RHP as <-. split; reflexivity.
Qed.
