(* C18 - theorems about the start/stop protocols of Model/Lifecycle.v: all interleavings of any number
   of concurrent callers, unbounded runs (induction over reachability). *)
From Coq Require Import Arith Bool List Lia.
Import ListNotations.
From HV Require Import Model.Lifecycle.

Ltac inv_some :=
  repeat match goal with
  | H : Some _ = Some _ |- _ => inversion H; subst; clear H
  | H : None = Some _ |- _ => discriminate H
  end.

Ltac split_ifs :=
  repeat match goal with
  | H : context [if ?b then _ else _] |- _ => destruct b eqn:?
  | H : context [match ?n with O => _ | S _ => _ end] |- _ => destruct n eqn:?
  end.

(* ================================================================ (a) IncrementalRebalancer, patched *)
Definition i_inv (s : ist) : Prop :=
  i_panic s = false /\
  i_exit s <= 1 /\
  (i_running s = true -> i_spawn s + i_loop s + i_got s = 1 /\ i_exit s = 0) /\
  (i_running s = false -> i_spawn s + i_loop s + i_got s = 0) /\
  (i_stopping s = false -> i_close s = 0 /\ i_wait s = 0 /\ i_stop_closed s = false /\ i_stopped_closed s = false) /\
  (i_stopping s = true -> i_close s + (if i_stop_closed s then 1 else 0) = 1) /\
  (i_stop_closed s = false -> i_got s = 0 /\ i_exit s = 0 /\ i_stopped_closed s = false) /\
  (i_stopped_closed s = true -> i_spawn s + i_loop s + i_got s + i_exit s = 0 /\ i_running s = false) /\
  (i_stopping s = true -> i_stopped_closed s = false -> i_spawn s + i_loop s + i_got s + i_exit s = 1).

Lemma i_inv_init : i_inv i_init.
Proof. unfold i_inv, i_init; cbn. repeat split; intros; try discriminate; lia. Qed.

Lemma i_inv_step s l s' : i_inv s -> istep true s l = Some s' -> i_inv s'.
Proof.
  destruct s as [running stopping sc sdc pn nsp ncl nw wl wg we nst nsto nret].
  unfold i_inv; cbn [i_panic i_exit i_running i_spawn i_loop i_got i_stopping i_close i_wait i_stop_closed i_stopped_closed].
  intros [Hp [He [Hr [Hnr [Hns [Hs [Hnc [Hd Hsd]]]]]]]] Hst.
  subst pn. unfold istep in Hst. cbn [i_panic] in Hst.
  destruct l; cbn [andb orb negb] in Hst;
    destruct running, stopping, sc, sdc; cbn [andb orb negb] in *;
    repeat match goal with
    | H : true = true -> _ |- _ => specialize (H eq_refl)
    | H : false = false -> _ |- _ => specialize (H eq_refl)
    | H : true = false -> _ |- _ => clear H
    | H : false = true -> _ |- _ => clear H
    end;
    split_ifs; inv_some;
    cbn [i_panic i_exit i_running i_spawn i_loop i_got i_stopping i_close i_wait i_stop_closed i_stopped_closed];
    repeat split; intros; try discriminate; try lia.
Qed.

Lemma i_inv_reach s : ireach true s -> i_inv s.
Proof. induction 1; [apply i_inv_init | eapply i_inv_step; eauto]. Qed.

(* no channel is closed twice, whatever the callers do *)
Theorem inc_fixed_no_double_close s : ireach true s -> i_panic s = false.
Proof. intros H. apply i_inv_reach in H. apply H. Qed.

(* Start spawns at most one worker per rebalancer, ever *)
Theorem inc_fixed_one_worker s : ireach true s -> i_spawn s + i_workers s <= 1.
Proof.
  intros H. apply i_inv_reach in H. unfold i_inv, i_workers in *.
  destruct H as [_ [He [Hr [Hnr _]]]]. destruct (i_running s); [destruct (Hr eq_refl) | specialize (Hnr eq_refl)]; lia.
Qed.

(* when a Stop returns (and for ever after), no worker is alive and none is about to be spawned *)
Theorem inc_fixed_stop_leaves_no_worker s s' :
  ireach true s -> istep true s IReturn = Some s' -> i_workers s' = 0 /\ i_spawn s' = 0.
Proof.
  intros Hr Hst. assert (Hi : i_inv s') by (eapply i_inv_step; [apply i_inv_reach; exact Hr | exact Hst]).
  assert (Hd : i_stopped_closed s' = true).
  { destruct s. unfold istep in Hst. cbn in Hst. split_ifs; inv_some. reflexivity. }
  unfold i_inv, i_workers in *. destruct Hi as [_ [_ [_ [_ [_ [_ [_ [H _]]]]]]]]. specialize (H Hd). lia.
Qed.

Theorem inc_fixed_stopped_is_final s :
  ireach true s -> i_stopped_closed s = true -> i_workers s = 0 /\ i_spawn s = 0 /\ i_running s = false.
Proof.
  intros Hr Hd. apply i_inv_reach in Hr. unfold i_inv, i_workers in *.
  destruct Hr as [_ [_ [_ [_ [_ [_ [_ [H _]]]]]]]]. specialize (H Hd). repeat split; try lia. apply H.
Qed.

(* no deadlock: while a Stop is blocked, some step of the system itself is enabled, and every such
   step brings the release strictly closer (measure decreases); so under weak fairness of the
   goroutines (the select loop eventually takes a ready stop branch) every Stop returns *)
Theorem inc_fixed_progress s :
  ireach true s -> i_wait s > 0 -> i_stopped_closed s = false ->
  exists l s', i_internal l = true /\ istep true s l = Some s' /\ i_measure s' < i_measure s.
Proof.
  intros Hr Hw Hd. apply i_inv_reach in Hr.
  destruct s as [running stopping sc sdc pn nsp ncl nw wl wg we nst nsto nret].
  unfold i_inv in Hr; cbn [i_panic i_exit i_running i_spawn i_loop i_got i_stopping i_close i_wait i_stop_closed i_stopped_closed] in *.
  destruct Hr as [Hp [He [Hrn [Hnr [Hns [Hs [Hnc [_ Hsd]]]]]]]]. subst pn sdc.
  destruct stopping; [|destruct (Hns eq_refl) as [_ [? _]]; lia].
  specialize (Hs eq_refl). specialize (Hsd eq_refl eq_refl).
  destruct ncl as [|ncl].
  - (* stopChan already closed: the worker (or its spawner) can move *)
    destruct sc; [|cbn in Hs; lia].
    destruct nsp as [|nsp].
    + destruct wl as [|wl].
      * destruct wg as [|wg].
        -- destruct we as [|we]; [lia|].
           exists ICloseStopped. eexists. split; [reflexivity|]. split; [reflexivity|]. cbn. lia.
        -- exists IClearRunning. eexists. split; [reflexivity|]. split; [reflexivity|]. cbn. lia.
      * exists ITakeStop. eexists. split; [reflexivity|]. split; [reflexivity|]. cbn. lia.
    + exists ISpawn. eexists. split; [reflexivity|]. split; [reflexivity|]. cbn. lia.
  - destruct sc; [cbn in Hs; lia|].
    exists IClose. eexists. split; [reflexivity|]. split; [reflexivity|]. cbn. lia.
Qed.

Theorem inc_internal_decreases fixed s l s' :
  i_internal l = true -> istep fixed s l = Some s' -> i_panic s' = false -> i_measure s' + 1 = i_measure s.
Proof.
  destruct s as [running stopping sc sdc pn nsp ncl nw wl wg we nst nsto nret].
  unfold istep, i_measure. cbn [i_panic].
  destruct l; cbn; try discriminate; intros _ H Hp; destruct pn; try discriminate;
    split_ifs; inv_some; cbn in *; try discriminate; lia.
Qed.

(* ================================================================ (a) as found: refuted *)
(* two Stop calls that both pass the `running` check close stopChan twice *)
Definition trace_double_stop : list ilabel := [IStartCall; ISpawn; IStopCall; IStopCall; IClose; IClose].

Theorem inc_double_stop_refuted :
  exists s, irun false i_init trace_double_stop = Some s /\ i_panic s = true /\ i_starts s = 1 /\ i_stops s = 2.
Proof. eexists. split; [vm_compute; reflexivity|]. cbn. auto. Qed.

(* strictly sequential use: Start, Stop (returns), Start again on the same object: the new worker
   closes stoppedChan a second time *)
Definition trace_restart : list ilabel :=
  [IStartCall; ISpawn; IStopCall; IClose; ITakeStop; IClearRunning; ICloseStopped; IReturn;
   IStartCall; ISpawn; ITakeStop; IClearRunning; ICloseStopped].

Theorem inc_restart_refuted :
  exists s, irun false i_init trace_restart = Some s /\ i_panic s = true /\ i_returned s = 1.
Proof. eexists. split; [vm_compute; reflexivity|]. cbn. auto. Qed.

Lemma irun_reach fixed ls : forall s s', ireach fixed s -> irun fixed s ls = Some s' -> ireach fixed s'.
Proof.
  induction ls as [|l ls IH]; intros s s' Hr H; cbn in H.
  - inversion H; subst; exact Hr.
  - destruct (istep fixed s l) eqn:E; [|discriminate]. eapply IH; [|exact H]. econstructor; eauto.
Qed.

Theorem inc_old_panic_reachable : exists s, ireach false s /\ i_panic s = true.
Proof.
  destruct inc_double_stop_refuted as [s [H [P _]]]. exists s. split; [|exact P].
  eapply irun_reach; [constructor | exact H].
Qed.

(* the same schedule in the patched protocol: the second Stop waits, there is no second close *)
Theorem inc_fixed_double_stop_ok :
  exists s, irun true i_init [IStartCall; ISpawn; IStopCall; IStopCall; IClose] = Some s /\
    i_panic s = false /\ i_wait s = 2 /\ istep true s IClose = None.
Proof. eexists. split; [vm_compute; reflexivity|]. cbn. auto. Qed.

(* the code as found is correct for the only use the library makes of it when calls do not overlap:
   one Start and one Stop per rebalancer object *)
Definition i_inv_old (s : ist) : Prop :=
  i_starts s <= 1 -> i_stops s <= 1 ->
  i_panic s = false /\ i_stopping s = false /\
  i_close s + i_wait s + i_returned s <= i_stops s /\
  (i_stop_closed s = true -> i_close s = 0 /\ i_stops s = 1) /\
  (i_stop_closed s = false -> i_got s = 0 /\ i_exit s = 0 /\ i_stopped_closed s = false) /\
  i_spawn s + i_loop s + i_got s + i_exit s + (if i_stopped_closed s then 1 else 0) <= i_starts s /\
  (i_running s = false -> i_spawn s + i_loop s + i_got s = 0) /\
  (i_starts s = 0 -> i_running s = false).

Lemma i_inv_old_init : i_inv_old i_init.
Proof. unfold i_inv_old, i_init; cbn. intros. repeat split; intros; try discriminate; lia. Qed.

Lemma i_counts_mono fixed s l s' : istep fixed s l = Some s' -> i_starts s <= i_starts s' /\ i_stops s <= i_stops s'.
Proof.
  destruct s as [running stopping sc sdc pn nsp ncl nw wl wg we nst nsto nret].
  unfold istep. cbn [i_panic]. destruct pn; [discriminate|].
  destruct l; cbn; intros H; split_ifs; inv_some; cbn; lia.
Qed.

Lemma i_inv_old_step s l s' : i_inv_old s -> istep false s l = Some s' -> i_inv_old s'.
Proof.
  intros Hinv Hst. pose proof (i_counts_mono _ _ _ _ Hst) as [M1 M2].
  unfold i_inv_old in *. intros B1 B2.
  assert (A1 : i_starts s <= 1) by lia. assert (A2 : i_stops s <= 1) by lia.
  specialize (Hinv A1 A2). clear M1 M2 A1 A2.
  destruct s as [running stopping sc sdc pn nsp ncl nw wl wg we nst nsto nret].
  cbn [i_panic i_exit i_running i_spawn i_loop i_got i_stopping i_close i_wait i_stop_closed i_stopped_closed i_starts i_stops i_returned] in *.
  destruct Hinv as [Hp [Hsg [Hc [Hsc [Hnc [Hw [Hnr Hz]]]]]]]. subst pn stopping.
  unfold istep in Hst. cbn [i_panic] in Hst.
  destruct l; cbn [andb orb negb] in Hst;
    destruct running, sc, sdc; cbn [andb orb negb] in *;
    repeat match goal with
    | H : true = true -> _ |- _ => specialize (H eq_refl)
    | H : false = false -> _ |- _ => specialize (H eq_refl)
    | H : true = false -> _ |- _ => clear H
    | H : false = true -> _ |- _ => clear H
    end;
    split_ifs; inv_some;
    cbn [i_panic i_exit i_running i_spawn i_loop i_got i_stopping i_close i_wait i_stop_closed i_stopped_closed i_starts i_stops i_returned] in *;
    repeat split; intros; try discriminate; try lia.
Qed.

Theorem inc_old_single_use_partial s :
  ireach false s -> i_starts s <= 1 -> i_stops s <= 1 -> i_panic s = false.
Proof.
  intros Hr. assert (H : i_inv_old s) by (induction Hr; [apply i_inv_old_init | eapply i_inv_old_step; eauto]).
  intros A B. apply (H A B).
Qed.

(* ================================================================ (b) SmartRebalancer, patched *)
Definition m_inv (s : sst) : Prop :=
  m_misuse s = false /\
  m_wg s = m_cur s + m_old s /\
  m_cur s + m_old s <= 1 /\
  (m_started s = true -> m_cur s = 1 /\ m_busy s = false) /\
  (m_started s = false -> m_cur s = 0) /\
  (m_busy s = true -> m_wait s = 1) /\
  (m_busy s = false -> m_wait s = 0 /\ m_old s = 0).

Lemma m_inv_init : m_inv m_init.
Proof. unfold m_inv, m_init; cbn. repeat split; intros; try discriminate; lia. Qed.

Lemma m_inv_step s l s' : m_inv s -> mstep true s l = Some s' -> m_inv s'.
Proof.
  destruct s as [started cc busy mis wg nw cur old nst nsto nret].
  unfold m_inv; cbn [m_misuse m_wg m_cur m_old m_started m_busy m_wait].
  intros [Hm [Hwg [Hle [Hs [Hns [Hb Hnb]]]]]] Hst. subst mis.
  unfold mstep in Hst.
  destruct l; cbn [andb orb negb] in Hst;
    destruct started, busy; cbn [andb orb negb] in *;
    repeat match goal with
    | H : true = true -> _ |- _ => specialize (H eq_refl)
    | H : false = false -> _ |- _ => specialize (H eq_refl)
    | H : true = false -> _ |- _ => clear H
    | H : false = true -> _ |- _ => clear H
    end;
    split_ifs; inv_some;
    cbn [m_misuse m_wg m_cur m_old m_started m_busy m_wait];
    repeat match goal with H : _ /\ _ |- _ => destruct H end; subst;
    repeat split; intros; try discriminate; try lia;
    try (match goal with H : Nat.eqb _ _ = true |- _ => apply Nat.eqb_eq in H end; lia);
    try (cbn; rewrite ?Nat.eqb_refl; reflexivity).
Qed.

Lemma m_inv_reach s : mreach true s -> m_inv s.
Proof. induction 1; [apply m_inv_init | eapply m_inv_step; eauto]. Qed.

Theorem smart_fixed_one_worker s : mreach true s -> m_workers s <= 1 /\ m_misuse s = false.
Proof. intros H. apply m_inv_reach in H. unfold m_inv, m_workers in *. tauto. Qed.

Theorem smart_fixed_stop_leaves_no_worker s s' :
  mreach true s -> mstep true s MReturn = Some s' -> m_workers s' = 0 /\ m_started s' = false.
Proof.
  intros Hr Hst. pose proof (m_inv_reach _ Hr) as Hi.
  destruct s as [started cc busy mis wg nw cur old nst nsto nret].
  unfold m_inv in Hi; cbn [m_misuse m_wg m_cur m_old m_started m_busy m_wait] in Hi.
  destruct Hi as [_ [Hwg [_ [Hs [Hns [Hb Hnb]]]]]].
  unfold mstep in Hst. destruct nw; [discriminate|]. destruct (Nat.eqb wg 0) eqn:E; [|discriminate].
  apply Nat.eqb_eq in E. inv_some. unfold m_workers; cbn. split; [lia|].
  destruct started; [|reflexivity]. destruct (Hs eq_refl). lia.
Qed.

(* a blocked Stop is always released by the worker it cancelled *)
Theorem smart_fixed_progress s :
  mreach true s -> m_wait s > 0 ->
  (exists s', mstep true s MReturn = Some s') \/
  (exists s', mstep true s MExit = Some s' /\ m_wg s' < m_wg s).
Proof.
  intros Hr Hw. apply m_inv_reach in Hr.
  destruct s as [started cc busy mis wg nw cur old nst nsto nret].
  unfold m_inv in Hr; cbn [m_misuse m_wg m_cur m_old m_started m_busy m_wait] in *.
  destruct Hr as [_ [Hwg [Hle [Hs [Hns [Hb Hnb]]]]]].
  destruct busy; [|destruct (Hnb eq_refl); lia]. specialize (Hb eq_refl). subst nw.
  destruct started; [destruct (Hs eq_refl); discriminate|]. specialize (Hns eq_refl). subst cur.
  destruct old as [|old].
  - left. cbn in Hwg. subst wg. cbn. eexists. reflexivity.
  - right. eexists. split; [cbn; reflexivity|]. cbn. lia.
Qed.

(* ================================================================ (b) as found: refuted *)
(* a Start that overlaps a waiting Stop creates a second monitoring goroutine ... *)
Theorem smart_old_two_workers_refuted :
  exists s, mrun false m_init [MStartCall; MStopCall; MStartCall] = Some s /\ m_workers s = 2 /\ m_wait s = 1.
Proof. eexists. split; [vm_compute; reflexivity|]. cbn. auto. Qed.

(* ... and once the old goroutine has re-read sr.ctx, the first Stop is blocked and NO step of the
   system itself is enabled: it returns only if somebody calls Stop again *)
Theorem smart_old_stop_blocked_refuted :
  exists s, mrun false m_init [MStartCall; MStopCall; MStartCall; MReselect] = Some s /\
    m_wait s = 1 /\ m_workers s = 2 /\ mstep false s MReturn = None /\ mstep false s MExit = None /\
    mstep false s MReselect = None.
Proof. eexists. split; [vm_compute; reflexivity|]. cbn. auto. Qed.

(* wg.Add(1) with a zero counter while the previous Wait has not returned *)
Theorem smart_old_waitgroup_misuse_refuted :
  exists s, mrun false m_init [MStartCall; MStopCall; MExit; MStartCall] = Some s /\ m_misuse s = true.
Proof. eexists. split; [vm_compute; reflexivity|]. cbn. auto. Qed.

(* a second Stop returns at once although the worker is still alive *)
Theorem smart_old_stop_returns_early_refuted :
  exists s, mrun false m_init [MStartCall; MStopCall; MStopCall] = Some s /\ m_stops s = 2 /\
    m_wait s = 1 /\ m_workers s = 1.
Proof. eexists. split; [vm_compute; reflexivity|]. cbn. auto. Qed.

(* ================================================================ (c) tree-level wrappers *)
Lemma upd_some k f : forall l l', upd k f l = Some l' ->
  exists x y, nth_error l k = Some x /\ f x = Some y /\ length l' = length l /\
    forall j, nth_error l' j = if Nat.eqb j k then Some y else nth_error l j.
Proof.
  induction k as [|k IH]; intros l l' H; destruct l as [|a r]; cbn in H; try discriminate.
  - destruct (f a) as [y|] eqn:E; [|discriminate]. inv_some.
    exists a, y. repeat split; auto. intros [|j]; reflexivity.
  - destruct (upd k f r) as [r'|] eqn:E; [|discriminate]. inv_some.
    destruct (IH _ _ E) as [x [y [H1 [H2 [H3 H4]]]]].
    exists x, y. repeat split; auto; [cbn; congruence|]. intros [|j]; [reflexivity|]. cbn. apply H4.
Qed.

Lemma upd_ok k f : forall l x y, nth_error l k = Some x -> f x = Some y -> exists l', upd k f l = Some l'.
Proof.
  induction k as [|k IH]; intros l x y H1 H2; destruct l as [|a r]; cbn in H1; try discriminate.
  - inv_some. cbn. rewrite H2. eauto.
  - destruct (IH _ _ _ H1 H2) as [r' E]. cbn. rewrite E. eauto.
Qed.

Definition g_started (i : ist) : bool := i_running i || i_stopping i.

Lemma istep_facts s l s' : i_inv s -> g_started s = true -> istep true s l = Some s' ->
  g_started s' = true /\
  (i_stopped_closed s = true -> i_stopped_closed s' = true) /\
  (l <> IStartCall -> i_running s' = true -> i_running s = true) /\
  (l = IReturn -> i_stopped_closed s' = true).
Proof.
  destruct s as [running stopping sc sdc pn nsp ncl nw wl wg we nst nsto nret].
  unfold i_inv, g_started; cbn [i_panic i_exit i_running i_spawn i_loop i_got i_stopping i_close i_wait i_stop_closed i_stopped_closed].
  intros [Hp [He [Hr [Hnr [Hns [Hs [Hnc [Hd Hsd]]]]]]]] Hg Hst.
  subst pn. unfold istep in Hst. cbn [i_panic] in Hst.
  destruct l; cbn [andb orb negb] in Hst;
    destruct running, stopping, sc, sdc; cbn [andb orb negb] in *; try discriminate;
    repeat match goal with
    | H : true = true -> _ |- _ => specialize (H eq_refl)
    | H : false = false -> _ |- _ => specialize (H eq_refl)
    | H : true = false -> _ |- _ => clear H
    | H : false = true -> _ |- _ => clear H
    end;
    split_ifs; inv_some;
    cbn [i_panic i_exit i_running i_spawn i_loop i_got i_stopping i_close i_wait i_stop_closed i_stopped_closed orb];
    repeat split; intros; try discriminate; try congruence; try lia.
Qed.

Lemma i_started_reach : ireach true i_started.
Proof. eapply (irun_reach true [IStartCall; ISpawn] i_init); [constructor | reflexivity]. Qed.

(* what the tree level knows about every object it has installed *)
Definition ginv (g : gen) : Prop :=
  ireach true (g_in g) /\ g_started (g_in g) = true /\ (g_post g > 0 -> i_stopped_closed (g_in g) = true).

Lemma ginv_new : ginv g_new.
Proof. split; [exact i_started_reach|]. split; [reflexivity|]. cbn. lia. Qed.

Lemma gstep_ginv x l y : ginv x -> gstep x l = Some y ->
  ginv y /\ (i_running (g_in y) = true -> i_running (g_in x) = true).
Proof.
  destruct x as [i pre post prog]. unfold ginv; cbn [g_in g_post]. intros [Hr [Hs Hp]] H.
  pose proof (i_inv_reach _ Hr) as Hi.
  destruct l; cbn in H.
  - inv_some. cbn. auto.
  - destruct pre; [discriminate|]. destruct (istep true i IStopCall) as [i'|] eqn:E; [|discriminate]. inv_some.
    destruct (istep_facts _ _ _ Hi Hs E) as [F1 [F2 [F3 _]]]. cbn [g_in g_post].
    assert (Hb : negb (i_stopping i) && negb (i_running i) = false).
    { unfold g_started in Hs. destruct (i_running i), (i_stopping i); cbn in *; congruence. }
    rewrite Hb. repeat split; auto; [econstructor; eauto | apply F3; discriminate].
  - assert (HH : exists i', istep true i l = Some i' /\ l <> IStartCall /\
                  y = mkG i' pre (match l with IReturn => S post | _ => post end) prog).
    { destruct l; try discriminate; destruct (istep true i _) as [i'|] eqn:E; try discriminate; inv_some;
        eexists; (split; [reflexivity|]); (split; [discriminate|reflexivity]). }
    destruct HH as [i' [E [Hne ->]]]. cbn [g_in g_post].
    destruct (istep_facts _ _ _ Hi Hs E) as [F1 [F2 [F3 F4]]].
    repeat split; auto; [econstructor; eauto|].
    destruct l; auto; intros _; apply F4; reflexivity.
  - destruct post; [discriminate|]. inv_some. cbn. repeat split; auto; intros _; apply Hp; lia.
  - inv_some. cbn. auto.
  - destruct prog; [discriminate|]. inv_some. cbn. auto.
Qed.

(* the effect of one tree-level step on the list of objects *)
Lemma tstep_shape v s l s' : tstep v s l = Some s' ->
  t_gens s' = t_gens s \/
  (t_gens s' = t_gens s ++ [g_new] /\ field_running (t_field s) (t_gens s) = false /\
   t_field s' = Some (length (t_gens s))) \/
  (exists k gl, at_gen k gl (t_gens s) = Some (t_gens s')).
Proof.
  destruct s as [fld gens nen nref nst nnil nret]. unfold tstep. cbn [t_gens t_field].
  destruct l; intros H.
  - destruct (negb lazy || field_running fld gens) eqn:E; inv_some; cbn; [auto|].
    right; left. apply orb_false_iff in E. tauto.
  - destruct fld; [|inv_some; cbn; auto]. destruct (at_gen _ _ _) eqn:E; [|discriminate]. inv_some. cbn. eauto.
  - destruct (at_gen _ _ _) eqn:E; [|discriminate]. inv_some. cbn. eauto.
  - destruct (at_gen _ _ _) eqn:E; [|discriminate]. inv_some. cbn. eauto.
  - destruct (at_gen _ _ _) eqn:E; [|discriminate]. inv_some. cbn. eauto.
  - inv_some. auto.
  - destruct fld; [|inv_some; cbn; auto]. destruct (at_gen _ _ _) eqn:E; [|discriminate]. inv_some. cbn. eauto.
  - destruct (at_gen _ _ _) eqn:E; [|discriminate]. inv_some. cbn. eauto.
Qed.

Lemma nth_error_snoc {A} (l : list A) a k x : nth_error (l ++ [a]) k = Some x ->
  (k < length l /\ nth_error l k = Some x) \/ (k = length l /\ x = a).
Proof.
  intros H. destruct (Nat.lt_ge_cases k (length l)) as [Hl|Hl].
  - left. rewrite nth_error_app1 in H by exact Hl. auto.
  - right. rewrite nth_error_app2 in H by exact Hl.
    destruct (k - length l) as [|d] eqn:E; cbn in H; [inv_some; split; [lia|reflexivity]|].
    destruct d; discriminate.
Qed.

(* PRODUCT property (both variants): every object installed in the tree is a reachable state of system (a),
   has been started, and callers past rebalancer.Stop() exist only when its stoppedChan is closed *)
Lemma t_ginv v s : treach v s -> forall k g, nth_error (t_gens s) k = Some g -> ginv g.
Proof.
  induction 1 as [|s l s' Hr IH Hst]; intros k g Hn.
  - destruct k; discriminate.
  - destruct (tstep_shape _ _ _ _ Hst) as [E | [[E _] | [k0 [gl E]]]].
    + rewrite E in Hn. eauto.
    + rewrite E in Hn. apply nth_error_snoc in Hn. destruct Hn as [[_ Hn] | [_ ->]]; [eauto | exact ginv_new].
    + apply upd_some in E. destruct E as [x [y [H1 [H2 [_ H4]]]]]. rewrite H4 in Hn.
      destruct (Nat.eqb k k0); [inv_some; eapply gstep_ginv; eauto | eauto].
Qed.

Theorem tree_projects_to_inc v s k g : treach v s -> nth_error (t_gens s) k = Some g -> ireach true (g_in g).
Proof. intros Hr Hn. exact (proj1 (t_ginv _ _ Hr _ _ Hn)). Qed.

(* `current`: only the object the field points to can have `running` set, and it is the newest one *)
Definition tinv (s : tst) : Prop :=
  (forall k g, nth_error (t_gens s) k = Some g -> i_running (g_in g) = true -> t_field s = Some k) /\
  (forall k, t_field s = Some k -> S k = length (t_gens s)).

Lemma tinv_reach s : treach current s -> tinv s.
Proof.
  induction 1 as [|s l s' Hr IH Hst].
  - split; [intros [|k] g H; discriminate | intros k H; discriminate].
  - pose proof (t_ginv _ _ Hr) as HG. destruct IH as [I1 I2].
    destruct s as [fld gens nen nref nst nnil nret]. cbn [t_gens t_field] in *.
    (* a step that changes one object by gstep and leaves the field alone *)
    assert (LOCAL : forall k0 gl gens' fld', at_gen k0 gl gens = Some gens' ->
              (fld' = fld \/ (fld' = None /\ exists x, nth_error gens k0 = Some x /\ g_post x > 0 /\ fld = Some k0)) ->
              tinv (mkT fld' gens' nen nref nst nnil nret) /\ True).
    { intros k0 gl gens' fld' E Hf. split; [|exact I]. apply upd_some in E. destruct E as [x [y [H1 [H2 [H3 H4]]]]].
      destruct (gstep_ginv _ _ _ (HG _ _ H1) H2) as [_ Hrun].
      split; cbn [t_gens t_field].
      - intros k g Hn Hk. rewrite H4 in Hn.
        assert (Hold : fld = Some k).
        { destruct (Nat.eqb k k0) eqn:Ek; [apply Nat.eqb_eq in Ek; subst k0; inv_some; eauto | eauto]. }
        destruct Hf as [-> | [-> [x' [Hx' [Hp Hfk]]]]]; [exact Hold|].
        (* the field was cleared: object k0 = k has a closed stoppedChan, so `running` is false *)
        exfalso. rewrite Hfk in Hold. inv_some. rewrite H1 in Hx'. inv_some.
        destruct (HG _ _ H1) as [Hr' [_ Hp']]. specialize (Hp' Hp).
        rewrite Nat.eqb_refl in Hn. inv_some.
        destruct (inc_fixed_stopped_is_final _ Hr' Hp') as [_ [_ Hrf]].
        specialize (Hrun Hk). congruence.
      - intros k Hk. rewrite H3. destruct Hf as [-> | [-> _]]; [auto | discriminate]. }
    unfold tstep in Hst. destruct l.
    + destruct (negb lazy || field_running fld gens) eqn:E; inv_some; [split; auto|].
      apply orb_false_iff in E. destruct E as [_ E].
      split; cbn [t_gens t_field].
      * intros k g Hn Hk. apply nth_error_snoc in Hn. destruct Hn as [[_ Hn] | [-> _]]; [|reflexivity].
        exfalso. pose proof (I1 _ _ Hn Hk) as Hf. subst fld. unfold field_running in E. rewrite Hn in E. congruence.
      * intros k Hk. inv_some. rewrite app_length. cbn. lia.
    + destruct fld as [k0|]; [|inv_some; split; auto].
      destruct (at_gen _ _ _) eqn:E; [|discriminate]. inv_some. eapply LOCAL; eauto.
    + destruct (at_gen _ _ _) eqn:E; [|discriminate]. inv_some. eapply LOCAL; eauto.
    + destruct (at_gen _ _ _) eqn:E; [|discriminate]. inv_some. eapply LOCAL; eauto.
    + destruct (at_gen _ _ _) eqn:E; [|discriminate]. inv_some. eapply LOCAL; [exact E|].
      destruct ok; [|auto]. destruct fld as [k0|]; [|auto].
      destruct (Nat.eqb k0 g) eqn:Ek; [|auto]. apply Nat.eqb_eq in Ek. subst k0. right. split; [reflexivity|].
      pose proof E as E'. apply upd_some in E'. destruct E' as [x [y [H1 [H2 _]]]]. exists x. split; [exact H1|]. split; [|reflexivity].
      destruct x as [i pre post prog]. cbn in H2. destruct post; [discriminate|]. cbn. lia.
    + inv_some. split; auto.
    + destruct fld as [k0|]; [|inv_some; split; auto].
      destruct (at_gen _ _ _) eqn:E; [|discriminate]. inv_some. eapply LOCAL; eauto.
    + destruct (at_gen _ _ _) eqn:E; [|discriminate]. inv_some. eapply LOCAL; eauto.
Qed.

Lemma i_active_running s : i_inv s -> i_active s > 0 -> i_running s = true.
Proof.
  unfold i_inv, i_active. intros [_ [_ [_ [Hnr _]]]] Ha. destruct (i_running s); [reflexivity|]. specialize (Hnr eq_refl). lia.
Qed.

(* (iii) no double close of any channel of any object, whatever the callers of the four wrappers do *)
Theorem tree_no_panic s k g : treach current s -> nth_error (t_gens s) k = Some g -> i_panic (g_in g) = false.
Proof. intros Hr Hn. apply inc_fixed_no_double_close. eapply tree_projects_to_inc; eauto. Qed.

(* (ii) at most one goroutine per tree that may still run a rebalancing session: it belongs to the object
   the field points to.  (Goroutines past `ir.running = false` that have only their deferred
   ticker.Stop() / close(stoppedChan) left are NOT counted: see tree_exiting_overlap_example.) *)
Theorem tree_at_most_one_active_worker s : treach current s ->
  (forall k g, nth_error (t_gens s) k = Some g -> i_active (g_in g) <= 1) /\
  (forall k g, nth_error (t_gens s) k = Some g -> i_active (g_in g) > 0 -> t_field s = Some k) /\
  (forall k1 g1 k2 g2, nth_error (t_gens s) k1 = Some g1 -> nth_error (t_gens s) k2 = Some g2 ->
     i_active (g_in g1) > 0 -> i_active (g_in g2) > 0 -> k1 = k2).
Proof.
  intros Hr. pose proof (tinv_reach _ Hr) as [I1 _].
  assert (A : forall k g, nth_error (t_gens s) k = Some g -> i_active (g_in g) > 0 -> t_field s = Some k).
  { intros k g Hn Ha. apply (I1 _ _ Hn). apply i_active_running; [|exact Ha].
    apply i_inv_reach. eapply tree_projects_to_inc; eauto. }
  split; [|split; [exact A|]].
  - intros k g Hn. pose proof (inc_fixed_one_worker _ (tree_projects_to_inc _ _ _ _ Hr Hn)).
    unfold i_workers, i_active in *. lia.
  - intros k1 g1 k2 g2 H1 H2 A1 A2. pose proof (A _ _ H1 A1). pose proof (A _ _ H2 A2). congruence.
Qed.

(* every goroutine that is still on its way out is awaited by a Stop call on its own object:
   while stopChan is closed and stoppedChan is not, the caller that closed it is blocked in <-stoppedChan *)
Lemma i_closer_waits s : ireach true s -> i_stop_closed s = true -> i_stopped_closed s = false -> i_wait s > 0.
Proof.
  induction 1 as [|s l s' Hr IH Hst]; [discriminate|].
  destruct s as [running stopping sc sdc pn nsp ncl nw wl wg we nst nsto nret].
  cbn [i_stop_closed i_stopped_closed i_wait] in *.
  unfold istep in Hst. cbn [i_panic] in Hst. destruct pn; [discriminate|].
  destruct l; cbn [andb orb negb] in Hst;
    destruct running, stopping, sc, sdc; cbn [andb orb negb] in *; try discriminate;
    split_ifs; inv_some; cbn [i_stop_closed i_stopped_closed i_wait];
    intros; try discriminate; try lia;
    try (match goal with H : true = true -> false = false -> _ |- _ => specialize (H eq_refl eq_refl) end; lia).
Qed.

Theorem tree_exiting_worker_is_awaited s k g : treach current s -> nth_error (t_gens s) k = Some g ->
  i_exit (g_in g) > 0 -> i_wait (g_in g) > 0 /\ i_stopped_closed (g_in g) = false.
Proof.
  intros Hr Hn He. pose proof (tree_projects_to_inc _ _ _ _ Hr Hn) as Hi. pose proof (i_inv_reach _ Hi) as Hv.
  unfold i_inv in Hv. destruct Hv as [_ [_ [_ [_ [_ [_ [Hnc [Hd _]]]]]]]].
  assert (D : i_stopped_closed (g_in g) = false).
  { destruct (i_stopped_closed (g_in g)); [destruct (Hd eq_refl); lia | reflexivity]. }
  split; [|exact D]. apply i_closer_waits; auto.
  destruct (i_stop_closed (g_in g)); [reflexivity | destruct (Hnc eq_refl); lia].
Qed.

(* (i) "a stop that returns leaves no worker".  A StopIncrementalRebalancing call that read object g from the
   field (line 191) and returns (208 / 217): at that moment object g has no goroutine at all (stoppedChan is
   closed), no object installed at or before g has a goroutine that may still run a session, and the only
   object that can have one was installed by an EnableIncrementalRebalancing AFTER this call read the field
   (index > g) and is the one the field points to now. *)
Theorem tree_stop_return_means_stopped s g ok s' :
  treach current s -> tstep current s (TStopFinish g ok) = Some s' ->
  (exists gs, nth_error (t_gens s') g = Some gs /\ i_stopped_closed (g_in gs) = true /\
              i_workers (g_in gs) = 0 /\ i_spawn (g_in gs) = 0) /\
  (forall k gs, nth_error (t_gens s') k = Some gs -> k <= g -> i_active (g_in gs) = 0) /\
  (forall k gs, nth_error (t_gens s') k = Some gs -> i_active (g_in gs) > 0 -> g < k /\ t_field s' = Some k).
Proof.
  intros Hr Hst. assert (Hr' : treach current s') by (econstructor; eauto).
  assert (G : exists gs, nth_error (t_gens s') g = Some gs /\ i_stopped_closed (g_in gs) = true /\
              i_workers (g_in gs) = 0 /\ i_spawn (g_in gs) = 0).
  { destruct s as [fld gens nen nref nst nnil nret]. unfold tstep in Hst.
    destruct (at_gen g GFinish gens) as [gens'|] eqn:E; [|discriminate]. inv_some. cbn [t_gens].
    apply upd_some in E. destruct E as [x [y [H1 [H2 [_ H4]]]]].
    exists y. split; [rewrite H4, Nat.eqb_refl; reflexivity|].
    destruct (t_ginv _ _ Hr _ _ H1) as [Hi [_ Hp]]. cbn [t_gens] in H1.
    destruct x as [i pre post prog]. cbn in H2. destruct post as [|p]; [discriminate|]. inv_some. cbn [g_in g_post] in *.
    assert (Hd : i_stopped_closed i = true) by (apply Hp; lia).
    destruct (inc_fixed_stopped_is_final _ Hi Hd) as [A [B _]]. auto. }
  assert (T : forall k gs, nth_error (t_gens s') k = Some gs -> i_active (g_in gs) > 0 -> g < k /\ t_field s' = Some k).
  { intros k gs Hn Ha. destruct (tree_at_most_one_active_worker _ Hr') as [_ [A _]].
    pose proof (A _ _ Hn Ha) as Hf. split; [|exact Hf].
    destruct (tinv_reach _ Hr') as [_ I2]. specialize (I2 _ Hf).
    destruct G as [gs0 [Hg [_ [Hw Hs]]]].
    assert (g < length (t_gens s')) by (apply nth_error_Some; congruence).
    assert (k <> g). { intros ->. rewrite Hg in Hn. inv_some. unfold i_active, i_workers in *. lia. }
    lia. }
  split; [exact G|]. split; [|exact T].
  intros k gs Hn Hk. destruct (i_active (g_in gs)) eqn:Ea; [reflexivity|].
  destruct (T _ _ Hn); lia.
Qed.

(* ... and a call that returns at line 195 because it found the field nil: at that moment no object ever
   installed in this tree has a goroutine that may still run a session *)
Theorem tree_stop_nil_return_no_active_worker s s' :
  treach current s -> tstep current s TStopRead = Some s' -> t_ret_nil s' = S (t_ret_nil s) ->
  forall k gs, nth_error (t_gens s') k = Some gs -> i_active (g_in gs) = 0.
Proof.
  intros Hr Hst Hn k gs Hk. assert (Hr' : treach current s') by (econstructor; eauto).
  assert (F : t_field s' = None).
  { destruct s as [fld gens nen nref nst nnil nret]. unfold tstep in Hst. destruct fld.
    - destruct (at_gen _ _ _); [|discriminate]. inv_some. cbn in Hn. lia.
    - inv_some. reflexivity. }
  destruct (i_active (g_in gs)) eqn:Ea; [reflexivity|].
  destruct (tree_at_most_one_active_worker _ Hr') as [_ [A _]].
  assert (Hf : t_field s' = Some k) by (apply (A _ _ Hk); lia). congruence.
Qed.

(* (iv) progress: a StopIncrementalRebalancing call is never stuck.  Before rebalancer.Stop() and after it the
   call itself can move; while it is blocked in <-stoppedChan some step of the system itself (not a new API
   call) is enabled on that object and brings the release closer (system (a)'s measure).  That the enabled
   steps are taken is scheduler fairness, not modelled. *)
Theorem tree_stop_progress s g gs : treach current s -> nth_error (t_gens s) g = Some gs ->
  (g_pre gs > 0 -> exists s', tstep current s (TStopInner g) = Some s') /\
  (g_post gs > 0 -> exists s', tstep current s (TStopFinish g true) = Some s') /\
  (i_wait (g_in gs) > 0 -> i_stopped_closed (g_in gs) = false ->
   exists l s' gs', i_internal l = true /\ tstep current s (TInner g l) = Some s' /\
     nth_error (t_gens s') g = Some gs' /\ i_measure (g_in gs') < i_measure (g_in gs)).
Proof.
  intros Hr Hn. pose proof (tree_projects_to_inc _ _ _ _ Hr Hn) as Hi.
  destruct s as [fld gens nen nref nst nnil nret]. cbn [t_gens] in Hn. unfold tstep.
  split; [|split].
  - intros Hp. pose proof (inc_fixed_no_double_close _ Hi) as Hpn.
    assert (E : exists y, gstep gs GStopInner = Some y).
    { destruct gs as [i pre post prog]. cbn in *. destruct pre; [lia|].
      destruct i as [running stopping sc sdc pn nsp ncl nw wl wg we nst' nsto nret']. cbn in Hpn. subst pn.
      unfold istep. cbn. destruct stopping; [eauto|]. destruct running; cbn; eauto. }
    destruct E as [y E]. destruct (upd_ok g (fun x => gstep x GStopInner) _ _ _ Hn E) as [l' E']. unfold at_gen. rewrite E'. eauto.
  - intros Hp. assert (E : exists y, gstep gs GFinish = Some y).
    { destruct gs as [i pre post prog]. cbn in *. destruct post; [lia|]. eauto. }
    destruct E as [y E]. destruct (upd_ok g (fun x => gstep x GFinish) _ _ _ Hn E) as [l' E']. unfold at_gen. rewrite E'. eauto.
  - intros Hw Hd. destruct (inc_fixed_progress _ Hi Hw Hd) as [l [i' [Hl [Hs Hm]]]].
    assert (E : gstep gs (GInner l) = Some (mkG i' (g_pre gs) (g_post gs) (g_prog gs))).
    { destruct gs as [i pre post prog]. cbn [g_in g_pre g_post g_prog] in *.
      destruct l; try discriminate; cbn; rewrite Hs; reflexivity. }
    destruct (upd_ok g (fun x => gstep x (GInner l)) _ _ _ Hn E) as [l' E'].
    exists l. eexists. exists (mkG i' (g_pre gs) (g_post gs) (g_prog gs)).
    split; [exact Hl|]. unfold at_gen. rewrite E'. split; [reflexivity|]. cbn [t_gens g_in].
    split; [|exact Hm]. apply upd_some in E'. destruct E' as [x [y [H1 [H2 [_ H4]]]]].
    rewrite H4, Nat.eqb_refl. rewrite Hn in H1. inv_some. congruence.
Qed.

Lemma trun_reach v ls : forall s s', treach v s -> trun v s ls = Some s' -> treach v s'.
Proof.
  induction ls as [|l ls IH]; intros s s' Hr H; cbn in H.
  - inversion H; subst; exact Hr.
  - destruct (tstep v s l) eqn:E; [|discriminate]. eapply IH; [|exact H]. econstructor; eauto.
Qed.

(* ---------------------------------------------------------------- (c) `early_detach`: refuted *)
(* Enable; a first Stop reads the object and sets the field to nil; a second Stop finds nil and RETURNS
   (t_ret_nil = 1) while the goroutine of object 0 is in its select loop and nobody has even asked it to stop *)
Definition trace_early_detach : list tlabel := [TEnable true; TStopRead; TStopRead].

Theorem tree_early_detach_refuted :
  exists s gs, trun early_detach t_init trace_early_detach = Some s /\
    t_stops s = 2 /\ t_ret_nil s = 1 /\ nth_error (t_gens s) 0 = Some gs /\
    i_loop (g_in gs) = 1 /\ i_stop_closed (g_in gs) = false /\ i_stopped_closed (g_in gs) = false /\ g_pre gs = 1.
Proof. eexists. eexists. split; [vm_compute; reflexivity|]. cbn. repeat split; reflexivity. Qed.

(* the same three calls in the code as it is: the second Stop holds the object too, nobody has returned *)
Theorem tree_current_same_schedule_ok :
  exists s gs, trun current t_init trace_early_detach = Some s /\
    t_ret_nil s = 0 /\ t_ret s = 0 /\ nth_error (t_gens s) 0 = Some gs /\ g_pre gs = 2 /\ t_field s = Some 0.
Proof. eexists. eexists. split; [vm_compute; reflexivity|]. cbn. repeat split; reflexivity. Qed.

(* `early_detach` also lets Enable start a second session-running goroutine on the same tree *)
Theorem tree_early_detach_two_workers_refuted :
  exists s g0 g1, trun early_detach t_init [TEnable true; TStopRead; TEnable true] = Some s /\
    nth_error (t_gens s) 0 = Some g0 /\ nth_error (t_gens s) 1 = Some g1 /\
    i_active (g_in g0) = 1 /\ i_active (g_in g1) = 1.
Proof. eexists. eexists. eexists. split; [vm_compute; reflexivity|]. cbn. repeat split; reflexivity. Qed.

Theorem tree_early_detach_reachable_violation :
  exists s gs, treach early_detach s /\ t_ret_nil s > 0 /\ nth_error (t_gens s) 0 = Some gs /\ i_active (g_in gs) > 0.
Proof.
  destruct tree_early_detach_refuted as [s [gs [H [_ [Hn [Hg [Hl _]]]]]]]. exists s, gs.
  split; [eapply trun_reach; [constructor | exact H]|]. unfold i_active. repeat split; try lia. exact Hg.
Qed.

(* ---------------------------------------------------------------- (c) `current`: examples (non-vacuity) *)
(* two overlapping stop requests: both hold object 0, both wait in <-stoppedChan (i_wait = 2 after the
   close), both return after the goroutine has ended; the first clears the field *)
Definition trace_two_stops_wait : list tlabel :=
  [TEnable true; TStopRead; TStopRead; TStopInner 0; TStopInner 0; TInner 0 IClose].
Definition trace_two_stops_finish : list tlabel :=
  [TInner 0 ITakeStop; TInner 0 IClearRunning; TInner 0 ICloseStopped; TInner 0 IReturn; TInner 0 IReturn;
   TStopFinish 0 true; TStopFinish 0 true].

Example tree_two_overlapping_stops :
  exists s1 g1 s2 g2,
    trun current t_init trace_two_stops_wait = Some s1 /\ nth_error (t_gens s1) 0 = Some g1 /\
    i_wait (g_in g1) = 2 /\ i_loop (g_in g1) = 1 /\ t_ret s1 = 0 /\ tstep current s1 (TInner 0 IReturn) = None /\
    trun current s1 trace_two_stops_finish = Some s2 /\ nth_error (t_gens s2) 0 = Some g2 /\
    t_ret s2 = 2 /\ t_ret_nil s2 = 0 /\ t_field s2 = None /\ i_workers (g_in g2) = 0 /\ i_stopped_closed (g_in g2) = true.
Proof.
  eexists. eexists. eexists. eexists. split; [vm_compute; reflexivity|]. cbn.
  repeat split; try reflexivity.
Qed.

(* OBSERVATION (the strict reading of "one goroutine per tree" does not hold): Enable tests isRunning(), which
   is false as soon as the goroutine has executed `ir.running = false` (line 312), before its deferred
   ticker.Stop() and close(stoppedChan) have run.  So while a first Stop is still blocked on object 0, Enable
   can install object 1 and start its goroutine, and a Stop on object 1 can return, all before the goroutine of
   object 0 has finished returning.  That goroutine touches nothing of the tree any more and is awaited by its
   own Stop (tree_exiting_worker_is_awaited). *)
Definition trace_exiting_overlap : list tlabel :=
  [TEnable true; TStopRead; TStopInner 0; TInner 0 IClose; TInner 0 ITakeStop; TInner 0 IClearRunning;
   TEnable true].
Definition trace_exiting_overlap_stop : list tlabel :=
  [TStopRead; TStopInner 1; TInner 1 IClose; TInner 1 ITakeStop; TInner 1 IClearRunning; TInner 1 ICloseStopped;
   TInner 1 IReturn; TStopFinish 1 true].

Example tree_exiting_overlap_example :
  exists s1 a0 a1 s2 b0,
    trun current t_init trace_exiting_overlap = Some s1 /\
    nth_error (t_gens s1) 0 = Some a0 /\ nth_error (t_gens s1) 1 = Some a1 /\
    i_exit (g_in a0) = 1 /\ i_wait (g_in a0) = 1 /\ i_active (g_in a0) = 0 /\ i_active (g_in a1) = 1 /\
    trun current s1 trace_exiting_overlap_stop = Some s2 /\ t_ret s2 = 1 /\ t_field s2 = None /\
    nth_error (t_gens s2) 0 = Some b0 /\ i_exit (g_in b0) = 1 /\ i_wait (g_in b0) = 1.
Proof.
  eexists. eexists. eexists. eexists. eexists. split; [vm_compute; reflexivity|]. cbn.
  repeat split; reflexivity.
Qed.
