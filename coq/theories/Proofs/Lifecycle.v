(* C18 - theorems about the start/stop protocols of Model/Lifecycle.v: all interleavings of any number
   of concurrent callers, unbounded runs (induction over reachability). *)
From Coq Require Import Arith Bool List Lia.
Import ListNotations.
From HV Require Import Model.Lifecycle.

Ltac inv_some :=
  repeat match goal with
  | H : Some _ = Some _ |- _ => inversion H; subst; clear H
  | H : None = Some _ |- _ => discriminate H
  end.

Ltac split_ifs :=
  repeat match goal with
  | H : context [if ?b then _ else _] |- _ => destruct b eqn:?
  | H : context [match ?n with O => _ | S _ => _ end] |- _ => destruct n eqn:?
  end.

(* ================================================================ (a) IncrementalRebalancer, patched *)
Definition i_inv (s : ist) : Prop :=
  i_panic s = false /\
  i_exit s <= 1 /\
  (i_running s = true -> i_spawn s + i_loop s + i_got s = 1 /\ i_exit s = 0) /\
  (i_running s = false -> i_spawn s + i_loop s + i_got s = 0) /\
  (i_stopping s = false -> i_close s = 0 /\ i_wait s = 0 /\ i_stop_closed s = false /\ i_stopped_closed s = false) /\
  (i_stopping s = true -> i_close s + (if i_stop_closed s then 1 else 0) = 1) /\
  (i_stop_closed s = false -> i_got s = 0 /\ i_exit s = 0 /\ i_stopped_closed s = false) /\
  (i_stopped_closed s = true -> i_spawn s + i_loop s + i_got s + i_exit s = 0 /\ i_running s = false) /\
  (i_stopping s = true -> i_stopped_closed s = false -> i_spawn s + i_loop s + i_got s + i_exit s = 1).

Lemma i_inv_init : i_inv i_init.
Proof. unfold i_inv, i_init; cbn. repeat split; intros; try discriminate; lia. Qed.

Lemma i_inv_step s l s' : i_inv s -> istep true s l = Some s' -> i_inv s'.
Proof.
  destruct s as [running stopping sc sdc pn nsp ncl nw wl wg we nst nsto nret].
  unfold i_inv; cbn [i_panic i_exit i_running i_spawn i_loop i_got i_stopping i_close i_wait i_stop_closed i_stopped_closed].
  intros [Hp [He [Hr [Hnr [Hns [Hs [Hnc [Hd Hsd]]]]]]]] Hst.
  subst pn. unfold istep in Hst. cbn [i_panic] in Hst.
  destruct l; cbn [andb orb negb] in Hst;
    destruct running, stopping, sc, sdc; cbn [andb orb negb] in *;
    repeat match goal with
    | H : true = true -> _ |- _ => specialize (H eq_refl)
    | H : false = false -> _ |- _ => specialize (H eq_refl)
    | H : true = false -> _ |- _ => clear H
    | H : false = true -> _ |- _ => clear H
    end;
    split_ifs; inv_some;
    cbn [i_panic i_exit i_running i_spawn i_loop i_got i_stopping i_close i_wait i_stop_closed i_stopped_closed];
    repeat split; intros; try discriminate; try lia.
Qed.

Lemma i_inv_reach s : ireach true s -> i_inv s.
Proof. induction 1; [apply i_inv_init | eapply i_inv_step; eauto]. Qed.

(* no channel is closed twice, whatever the callers do *)
Theorem inc_fixed_no_double_close s : ireach true s -> i_panic s = false.
Proof. intros H. apply i_inv_reach in H. apply H. Qed.

(* Start spawns at most one worker per rebalancer, ever *)
Theorem inc_fixed_one_worker s : ireach true s -> i_spawn s + i_workers s <= 1.
Proof.
  intros H. apply i_inv_reach in H. unfold i_inv, i_workers in *.
  destruct H as [_ [He [Hr [Hnr _]]]]. destruct (i_running s); [destruct (Hr eq_refl) | specialize (Hnr eq_refl)]; lia.
Qed.

(* when a Stop returns (and for ever after), no worker is alive and none is about to be spawned *)
Theorem inc_fixed_stop_leaves_no_worker s s' :
  ireach true s -> istep true s IReturn = Some s' -> i_workers s' = 0 /\ i_spawn s' = 0.
Proof.
  intros Hr Hst. assert (Hi : i_inv s') by (eapply i_inv_step; [apply i_inv_reach; exact Hr | exact Hst]).
  assert (Hd : i_stopped_closed s' = true).
  { destruct s. unfold istep in Hst. cbn in Hst. split_ifs; inv_some. reflexivity. }
  unfold i_inv, i_workers in *. destruct Hi as [_ [_ [_ [_ [_ [_ [_ [H _]]]]]]]]. specialize (H Hd). lia.
Qed.

Theorem inc_fixed_stopped_is_final s :
  ireach true s -> i_stopped_closed s = true -> i_workers s = 0 /\ i_spawn s = 0 /\ i_running s = false.
Proof.
  intros Hr Hd. apply i_inv_reach in Hr. unfold i_inv, i_workers in *.
  destruct Hr as [_ [_ [_ [_ [_ [_ [_ [H _]]]]]]]]. specialize (H Hd). repeat split; try lia. apply H.
Qed.

(* no deadlock: while a Stop is blocked, some step of the system itself is enabled, and every such
   step brings the release strictly closer (measure decreases); so under weak fairness of the
   goroutines (the select loop eventually takes a ready stop branch) every Stop returns *)
Theorem inc_fixed_progress s :
  ireach true s -> i_wait s > 0 -> i_stopped_closed s = false ->
  exists l s', i_internal l = true /\ istep true s l = Some s' /\ i_measure s' < i_measure s.
Proof.
  intros Hr Hw Hd. apply i_inv_reach in Hr.
  destruct s as [running stopping sc sdc pn nsp ncl nw wl wg we nst nsto nret].
  unfold i_inv in Hr; cbn [i_panic i_exit i_running i_spawn i_loop i_got i_stopping i_close i_wait i_stop_closed i_stopped_closed] in *.
  destruct Hr as [Hp [He [Hrn [Hnr [Hns [Hs [Hnc [_ Hsd]]]]]]]]. subst pn sdc.
  destruct stopping; [|destruct (Hns eq_refl) as [_ [? _]]; lia].
  specialize (Hs eq_refl). specialize (Hsd eq_refl eq_refl).
  destruct ncl as [|ncl].
  - (* stopChan already closed: the worker (or its spawner) can move *)
    destruct sc; [|cbn in Hs; lia].
    destruct nsp as [|nsp].
    + destruct wl as [|wl].
      * destruct wg as [|wg].
        -- destruct we as [|we]; [lia|].
           exists ICloseStopped. eexists. split; [reflexivity|]. split; [reflexivity|]. cbn. lia.
        -- exists IClearRunning. eexists. split; [reflexivity|]. split; [reflexivity|]. cbn. lia.
      * exists ITakeStop. eexists. split; [reflexivity|]. split; [reflexivity|]. cbn. lia.
    + exists ISpawn. eexists. split; [reflexivity|]. split; [reflexivity|]. cbn. lia.
  - destruct sc; [cbn in Hs; lia|].
    exists IClose. eexists. split; [reflexivity|]. split; [reflexivity|]. cbn. lia.
Qed.

Theorem inc_internal_decreases fixed s l s' :
  i_internal l = true -> istep fixed s l = Some s' -> i_panic s' = false -> i_measure s' + 1 = i_measure s.
Proof.
  destruct s as [running stopping sc sdc pn nsp ncl nw wl wg we nst nsto nret].
  unfold istep, i_measure. cbn [i_panic].
  destruct l; cbn; try discriminate; intros _ H Hp; destruct pn; try discriminate;
    split_ifs; inv_some; cbn in *; try discriminate; lia.
Qed.

(* ================================================================ (a) as found: refuted *)
(* two Stop calls that both pass the `running` check close stopChan twice *)
Definition trace_double_stop : list ilabel := [IStartCall; ISpawn; IStopCall; IStopCall; IClose; IClose].

Theorem inc_double_stop_refuted :
  exists s, irun false i_init trace_double_stop = Some s /\ i_panic s = true /\ i_starts s = 1 /\ i_stops s = 2.
Proof. eexists. split; [vm_compute; reflexivity|]. cbn. auto. Qed.

(* strictly sequential use: Start, Stop (returns), Start again on the same object: the new worker
   closes stoppedChan a second time *)
Definition trace_restart : list ilabel :=
  [IStartCall; ISpawn; IStopCall; IClose; ITakeStop; IClearRunning; ICloseStopped; IReturn;
   IStartCall; ISpawn; ITakeStop; IClearRunning; ICloseStopped].

Theorem inc_restart_refuted :
  exists s, irun false i_init trace_restart = Some s /\ i_panic s = true /\ i_returned s = 1.
Proof. eexists. split; [vm_compute; reflexivity|]. cbn. auto. Qed.

Lemma irun_reach fixed ls : forall s s', ireach fixed s -> irun fixed s ls = Some s' -> ireach fixed s'.
Proof.
  induction ls as [|l ls IH]; intros s s' Hr H; cbn in H.
  - inversion H; subst; exact Hr.
  - destruct (istep fixed s l) eqn:E; [|discriminate]. eapply IH; [|exact H]. econstructor; eauto.
Qed.

Theorem inc_old_panic_reachable : exists s, ireach false s /\ i_panic s = true.
Proof.
  destruct inc_double_stop_refuted as [s [H [P _]]]. exists s. split; [|exact P].
  eapply irun_reach; [constructor | exact H].
Qed.

(* the same schedule in the patched protocol: the second Stop waits, there is no second close *)
Theorem inc_fixed_double_stop_ok :
  exists s, irun true i_init [IStartCall; ISpawn; IStopCall; IStopCall; IClose] = Some s /\
    i_panic s = false /\ i_wait s = 2 /\ istep true s IClose = None.
Proof. eexists. split; [vm_compute; reflexivity|]. cbn. auto. Qed.

(* the code as found is correct for the only use the library makes of it when calls do not overlap:
   one Start and one Stop per rebalancer object *)
Definition i_inv_old (s : ist) : Prop :=
  i_starts s <= 1 -> i_stops s <= 1 ->
  i_panic s = false /\ i_stopping s = false /\
  i_close s + i_wait s + i_returned s <= i_stops s /\
  (i_stop_closed s = true -> i_close s = 0 /\ i_stops s = 1) /\
  (i_stop_closed s = false -> i_got s = 0 /\ i_exit s = 0 /\ i_stopped_closed s = false) /\
  i_spawn s + i_loop s + i_got s + i_exit s + (if i_stopped_closed s then 1 else 0) <= i_starts s /\
  (i_running s = false -> i_spawn s + i_loop s + i_got s = 0) /\
  (i_starts s = 0 -> i_running s = false).

Lemma i_inv_old_init : i_inv_old i_init.
Proof. unfold i_inv_old, i_init; cbn. intros. repeat split; intros; try discriminate; lia. Qed.

Lemma i_counts_mono fixed s l s' : istep fixed s l = Some s' -> i_starts s <= i_starts s' /\ i_stops s <= i_stops s'.
Proof.
  destruct s as [running stopping sc sdc pn nsp ncl nw wl wg we nst nsto nret].
  unfold istep. cbn [i_panic]. destruct pn; [discriminate|].
  destruct l; cbn; intros H; split_ifs; inv_some; cbn; lia.
Qed.

Lemma i_inv_old_step s l s' : i_inv_old s -> istep false s l = Some s' -> i_inv_old s'.
Proof.
  intros Hinv Hst. pose proof (i_counts_mono _ _ _ _ Hst) as [M1 M2].
  unfold i_inv_old in *. intros B1 B2.
  assert (A1 : i_starts s <= 1) by lia. assert (A2 : i_stops s <= 1) by lia.
  specialize (Hinv A1 A2). clear M1 M2 A1 A2.
  destruct s as [running stopping sc sdc pn nsp ncl nw wl wg we nst nsto nret].
  cbn [i_panic i_exit i_running i_spawn i_loop i_got i_stopping i_close i_wait i_stop_closed i_stopped_closed i_starts i_stops i_returned] in *.
  destruct Hinv as [Hp [Hsg [Hc [Hsc [Hnc [Hw [Hnr Hz]]]]]]]. subst pn stopping.
  unfold istep in Hst. cbn [i_panic] in Hst.
  destruct l; cbn [andb orb negb] in Hst;
    destruct running, sc, sdc; cbn [andb orb negb] in *;
    repeat match goal with
    | H : true = true -> _ |- _ => specialize (H eq_refl)
    | H : false = false -> _ |- _ => specialize (H eq_refl)
    | H : true = false -> _ |- _ => clear H
    | H : false = true -> _ |- _ => clear H
    end;
    split_ifs; inv_some;
    cbn [i_panic i_exit i_running i_spawn i_loop i_got i_stopping i_close i_wait i_stop_closed i_stopped_closed i_starts i_stops i_returned] in *;
    repeat split; intros; try discriminate; try lia.
Qed.

Theorem inc_old_single_use_partial s :
  ireach false s -> i_starts s <= 1 -> i_stops s <= 1 -> i_panic s = false.
Proof.
  intros Hr. assert (H : i_inv_old s) by (induction Hr; [apply i_inv_old_init | eapply i_inv_old_step; eauto]).
  intros A B. apply (H A B).
Qed.

(* ================================================================ (b) SmartRebalancer, patched *)
Definition m_inv (s : sst) : Prop :=
  m_misuse s = false /\
  m_wg s = m_cur s + m_old s /\
  m_cur s + m_old s <= 1 /\
  (m_started s = true -> m_cur s = 1 /\ m_busy s = false) /\
  (m_started s = false -> m_cur s = 0) /\
  (m_busy s = true -> m_wait s = 1) /\
  (m_busy s = false -> m_wait s = 0 /\ m_old s = 0).

Lemma m_inv_init : m_inv m_init.
Proof. unfold m_inv, m_init; cbn. repeat split; intros; try discriminate; lia. Qed.

Lemma m_inv_step s l s' : m_inv s -> mstep true s l = Some s' -> m_inv s'.
Proof.
  destruct s as [started cc busy mis wg nw cur old nst nsto nret].
  unfold m_inv; cbn [m_misuse m_wg m_cur m_old m_started m_busy m_wait].
  intros [Hm [Hwg [Hle [Hs [Hns [Hb Hnb]]]]]] Hst. subst mis.
  unfold mstep in Hst.
  destruct l; cbn [andb orb negb] in Hst;
    destruct started, busy; cbn [andb orb negb] in *;
    repeat match goal with
    | H : true = true -> _ |- _ => specialize (H eq_refl)
    | H : false = false -> _ |- _ => specialize (H eq_refl)
    | H : true = false -> _ |- _ => clear H
    | H : false = true -> _ |- _ => clear H
    end;
    split_ifs; inv_some;
    cbn [m_misuse m_wg m_cur m_old m_started m_busy m_wait];
    repeat match goal with H : _ /\ _ |- _ => destruct H end; subst;
    repeat split; intros; try discriminate; try lia;
    try (match goal with H : Nat.eqb _ _ = true |- _ => apply Nat.eqb_eq in H end; lia);
    try (cbn; rewrite ?Nat.eqb_refl; reflexivity).
Qed.

Lemma m_inv_reach s : mreach true s -> m_inv s.
Proof. induction 1; [apply m_inv_init | eapply m_inv_step; eauto]. Qed.

Theorem smart_fixed_one_worker s : mreach true s -> m_workers s <= 1 /\ m_misuse s = false.
Proof. intros H. apply m_inv_reach in H. unfold m_inv, m_workers in *. tauto. Qed.

Theorem smart_fixed_stop_leaves_no_worker s s' :
  mreach true s -> mstep true s MReturn = Some s' -> m_workers s' = 0 /\ m_started s' = false.
Proof.
  intros Hr Hst. pose proof (m_inv_reach _ Hr) as Hi.
  destruct s as [started cc busy mis wg nw cur old nst nsto nret].
  unfold m_inv in Hi; cbn [m_misuse m_wg m_cur m_old m_started m_busy m_wait] in Hi.
  destruct Hi as [_ [Hwg [_ [Hs [Hns [Hb Hnb]]]]]].
  unfold mstep in Hst. destruct nw; [discriminate|]. destruct (Nat.eqb wg 0) eqn:E; [|discriminate].
  apply Nat.eqb_eq in E. inv_some. unfold m_workers; cbn. split; [lia|].
  destruct started; [|reflexivity]. destruct (Hs eq_refl). lia.
Qed.

(* a blocked Stop is always released by the worker it cancelled *)
Theorem smart_fixed_progress s :
  mreach true s -> m_wait s > 0 ->
  (exists s', mstep true s MReturn = Some s') \/
  (exists s', mstep true s MExit = Some s' /\ m_wg s' < m_wg s).
Proof.
  intros Hr Hw. apply m_inv_reach in Hr.
  destruct s as [started cc busy mis wg nw cur old nst nsto nret].
  unfold m_inv in Hr; cbn [m_misuse m_wg m_cur m_old m_started m_busy m_wait] in *.
  destruct Hr as [_ [Hwg [Hle [Hs [Hns [Hb Hnb]]]]]].
  destruct busy; [|destruct (Hnb eq_refl); lia]. specialize (Hb eq_refl). subst nw.
  destruct started; [destruct (Hs eq_refl); discriminate|]. specialize (Hns eq_refl). subst cur.
  destruct old as [|old].
  - left. cbn in Hwg. subst wg. cbn. eexists. reflexivity.
  - right. eexists. split; [cbn; reflexivity|]. cbn. lia.
Qed.

(* ================================================================ (b) as found: refuted *)
(* a Start that overlaps a waiting Stop creates a second monitoring goroutine ... *)
Theorem smart_old_two_workers_refuted :
  exists s, mrun false m_init [MStartCall; MStopCall; MStartCall] = Some s /\ m_workers s = 2 /\ m_wait s = 1.
Proof. eexists. split; [vm_compute; reflexivity|]. cbn. auto. Qed.

(* ... and once the old goroutine has re-read sr.ctx, the first Stop is blocked and NO step of the
   system itself is enabled: it returns only if somebody calls Stop again *)
Theorem smart_old_stop_blocked_refuted :
  exists s, mrun false m_init [MStartCall; MStopCall; MStartCall; MReselect] = Some s /\
    m_wait s = 1 /\ m_workers s = 2 /\ mstep false s MReturn = None /\ mstep false s MExit = None /\
    mstep false s MReselect = None.
Proof. eexists. split; [vm_compute; reflexivity|]. cbn. auto. Qed.

(* wg.Add(1) with a zero counter while the previous Wait has not returned *)
Theorem smart_old_waitgroup_misuse_refuted :
  exists s, mrun false m_init [MStartCall; MStopCall; MExit; MStartCall] = Some s /\ m_misuse s = true.
Proof. eexists. split; [vm_compute; reflexivity|]. cbn. auto. Qed.

(* a second Stop returns at once although the worker is still alive *)
Theorem smart_old_stop_returns_early_refuted :
  exists s, mrun false m_init [MStartCall; MStopCall; MStopCall] = Some s /\ m_stops s = 2 /\
    m_wait s = 1 /\ m_workers s = 1.
Proof. eexists. split; [vm_compute; reflexivity|]. cbn. auto. Qed.
