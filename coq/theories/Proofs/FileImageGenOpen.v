(* C01 end to end, GENERIC superblock / group / Open stages: for EVERY file f in which the five root blocks of a version 2 file
   (superblock, local heap with the link name, symbol table node with one entry pointing to da, group B-tree node, root object
   header: Model/FileImage.v) are placed at 0 / 48 / 336 / 1624 / 2168 and whose object at da is a dataset header with the
   messages datatype, dataspace, layout:  ReadSuperblock returns SB', hdf5.Open's loader returns the tree "/" with exactly one
   child, the dataset `name` at da.  (Proofs/FileImageGroup.v and FileImageOpen.v are this argument for image_v2 only.)
   Instance: image_v2_chunked (below). *)
From HV Require Import Base.Prelude Base.Outcome Base.Bytes Model.IOProg Proofs.IOProg Model.IOProgReader Model.IOProgOpen.
From HV Require Import Model.CodecSuper Model.CodecOhdr Model.CodecMsg Model.CodecType Model.CodecLink Model.GroupWire.
From HV Require Import Proofs.CodecSuper Proofs.CodecOhdr.
From HV Require Import Model.FileImage Proofs.FileImage Proofs.FileImageOhdr Proofs.FileImageData Proofs.FileImageGroup Proofs.FileImageOpen.

Definition gen_sym (da : N) : sym := {| sy_name := 0; sy_obj := da; sy_cache := 0; sy_res := 0; sy_bt := 0; sy_heap := 0 |}.

Section Gen.
Variable f : bytes.
Variable name : bytes.
Variable da : N.
Variable sbx : superblock.
Variables R T : bytes.
Variable h : ohdr'.
Variables m3 m1 m8 : bytes.
Variables o3 o1 o8 : N.
Variable hfuel : nat.
Hypothesis Hname : link_name_ok name = true.
Hypothesis Hwf : wf_superblock sbx = true.
Hypothesis Hv2 : sp_version sbx = 2.
Hypothesis Hproj : proj_superblock sbx = SB'.
Hypothesis Hsb48 : blen (enc_superblock sbx) = 48.
Hypothesis Psb : placed f 0 (enc_superblock sbx ++ R).
Hypothesis HR : 80 <= blen R.
Hypothesis Psig : placed f 0 signature.
Hypothesis Pheap : placed f 48 (heap_image (final_heap name) HEAP_ADDR).
Hypothesis Psnod : placed f 336 ([83; 78; 79; 68; 1; 0; 1; 0] ++ enc_sym 8 (gen_sym da) ++ zeros 1240).
Hypothesis Pbt : placed f 1624 (bt_write_at final_btnode 8 GROUP_K).
Hypothesis Proot : placed f 2168 (enc_ohdr_v2 root_ohdr ++ T).
Hypothesis HT : 2 <= blen T.
Hypothesis Hda : da < 256 ^ 8.
Hypothesis Hlenf : 2168 < blen f.
Hypothesis Pdsig : placed f da [79; 72; 68; 82].
Hypothesis Hhf : (3 < hfuel)%nat.
Hypothesis Hdh : run0 f (p_ohdr SB' hfuel da) = Ok h.
Hypothesis Hmsgs : ohp_msgs h = [ {| hmp_type := 3; hmp_offset := o3; hmp_data := m3 |}; {| hmp_type := 1; hmp_offset := o1; hmp_data := m1 |};
                                   {| hmp_type := 8; hmp_offset := o8; hmp_data := m8 |} ].

Local Notation seg := ((name ++ [0]) ++ zeros (N.to_nat (256 - (blen name + 1)))).

Theorem superblock_stage_g : run0 f p_superblock = Ok SB'.
Proof using Hwf Hv2 Hproj Hsb48 Psb HR. clear - Hwf Hv2 Hproj Hsb48 Psb HR.
  unfold p_superblock. rewrite run0_short.
  destruct Psb as (pre & suf & E & L). destruct pre; [|cbn in L; blia]. cbn [app] in E.
  assert (Hrd : rd f 0 128 = enc_superblock sbx ++ firstn 80 R).
  { rewrite E. unfold rd. change (N.to_nat 0) with 0%nat. change (N.to_nat 128) with 128%nat. cbn [skipn].
    rewrite <- app_assoc. rewrite firstn_app.
    pose proof Hsb48 as L48. unfold blen in L48.
    rewrite firstn_all2 by blia. f_equal.
    replace (128 - length (enc_superblock sbx))%nat with 80%nat by blia.
    rewrite firstn_app. unfold blen in HR. replace (80 - length R)%nat with 0%nat by blia. cbn [firstn]. now rewrite app_nil_r. }
  assert (Hav : avail f 0 128 = 128).
  { unfold avail. rewrite Hrd, blen_app, Hsb48. unfold blen. rewrite firstn_length. unfold blen in HR. blia. }
  unfold padded. rewrite Hav, Hrd. change (N.to_nat (128 - 128)) with 0%nat. cbn [zeros repeat]. rewrite app_nil_r.
  rewrite dec_sb_buf_v2; [now rewrite Hproj | exact Hwf | exact Hv2 |].
  unfold blen. rewrite firstn_length. unfold blen in HR. blia.
Qed.

Theorem root_header_g fuel : (1 < fuel)%nat ->
  run0 f (p_ohdr SB' fuel 2168) =
  Ok {| ohp_version := 2; ohp_flags := 0; ohp_refcount := 1; ohp_name := []; ohp_msgs := root_msgs |}.
Proof.
  intros Hf. rewrite (p_ohdr_placed SB' fuel f 2168 root_ohdr T root_ok); [reflexivity|exact Proot|exact HT|exact Hf|reflexivity].
Qed.

Theorem heap_stage_g : run0 f (p_local_heap SB' 48) = Ok seg.
Proof.
  pose proof Pheap as H. rewrite (heap_block_bytes name Hname) in H.
  unfold p_local_heap. cbn [SB' spp_offsize spp_lensize spp_bigendian]. change (8 + 2 * 8 + 8) with 32.
  rewrite (run0_read_exact _ f 48 (heap_header 256 1 80) 32 _ (placed_head _ _ _ _ H) eq_refl).
  change (run0 f (p_read_bytes_at 80 256) = Ok seg).
  apply run0_read_bytes_at; [exact (placed_tail _ _ _ _ H) | symmetry; exact (heap_seg_len name Hname) | blia | unfold MAXI64; blia].
Qed.

Theorem snod_stage_g : run0 f (p_snod SB' 336) = Ok [(0, da, 0, 0, 0)].
Proof.
  pose proof Psnod as HP.
  unfold p_snod. cbn [SB' spp_offsize spp_lensize spp_bigendian].
  rewrite (run0_read_exact _ f 336 [83; 78; 79; 68; 1; 0; 1; 0] 8 _ (placed_head _ _ _ _ HP) eq_refl).
  change (run0 f (ReadAt (336 + 8) 40 (fun d => lift (snod_entries SB' 1 d 0))) = Ok [(0, da, 0, 0, 0)]).
  assert (HP2 : placed f (336 + 8) (enc_sym 8 (gen_sym da))).
  { apply (placed_sub f 336 [83; 78; 79; 68; 1; 0; 1; 0] _ (zeros 1240)). exact HP. }
  rewrite (run0_read_exact _ f (336 + 8) _ 40 _ HP2) by (symmetry; apply enc_sym_len).
  unfold enc_sym, write_address, gen_sym. cbn [sy_name sy_obj sy_cache sy_res N.to_nat Pos.to_nat Pos.iter_op Nat.add].
  rewrite snod_entries_one by apply length_le.
  rewrite unle_le_small by exact Hda. reflexivity.
Qed.

Theorem btree_stage_g : run0 f (p_group_btree SB' 1624) = Ok [(0, da, 0, 0, 0)].
Proof.
  pose proof Pbt as HP. rewrite bt_block_bytes in HP.
  unfold p_group_btree. cbn [SB' spp_offsize spp_lensize spp_bigendian]. change (8 + 2 * 8) with 24.
  assert (E : [84; 82; 69; 69; 0; 0; 1; 0] ++ le 8 UNDEF ++ le 8 UNDEF ++ (le 8 0 ++ le 8 336 ++ le 8 0) ++ zeros 496
             = ([84; 82; 69; 69; 0; 0; 1; 0] ++ le 8 UNDEF ++ le 8 UNDEF) ++ (le 8 0 ++ le 8 336 ++ le 8 0) ++ zeros 496)
    by reflexivity.
  rewrite E in HP.
  assert (HP1 : placed f 1624 ([84; 82; 69; 69; 0; 0; 1; 0] ++ le 8 UNDEF ++ le 8 UNDEF))
    by (apply (placed_head _ _ _ _ HP)).
  rewrite (run0_read_exact _ f 1624 _ 24 _ HP1 eq_refl).
  change (run0 f (ReadAt (1624 + 24) 24 (fun d => bind (lift (btree_children SB' 1 d 0)) (p_snods SB'))) = Ok [(0, da, 0, 0, 0)]).
  assert (HP2 : placed f (1624 + 24) (le 8 0 ++ le 8 336 ++ le 8 0)).
  { apply (placed_sub f 1624 ([84; 82; 69; 69; 0; 0; 1; 0] ++ le 8 UNDEF ++ le 8 UNDEF) _ (zeros 496)). exact HP. }
  rewrite (run0_read_exact _ f (1624 + 24) _ 24 _ HP2 eq_refl).
  change (run0 f (bind (p_snod SB' 336) (fun es => bind (Ret []) (fun rest => Ret (es ++ rest)))) = Ok [(0, da, 0, 0, 0)]).
  rewrite run0_bind, snod_stage_g. reflexivity.
Qed.

Lemma P_root_sig_g : placed f 2168 [79; 72; 68; 82].
Proof.
  pose proof Proot as H. unfold enc_ohdr_v2 in H. rewrite <- !app_assoc in H. apply placed_head in H. exact H.
Qed.
Lemma P_bt_sig_g : placed f 1624 [84; 82; 69; 69].
Proof.
  pose proof Pbt as H. rewrite bt_block_bytes in H.
  change ([84; 82; 69; 69; 0; 0; 1; 0]) with ([84; 82; 69; 69] ++ [0; 0; 1; 0]) in H.
  rewrite <- !app_assoc in H. apply placed_head in H. exact H.
Qed.

Variable B : N.
Hypothesis HB : 1 <= B.

Lemma object_stage_g rec v :
  run0 f (p_object true SB' B hfuel rec da name {| vbt := v; loading := []; cnt := 0 |})
  = Ok (Dset name da, {| vbt := v; loading := []; cnt := 1 |}).
Proof.
  unfold p_object, enter. cbn [loading cnt vbt mem existsb lenN' length N.of_nat].
  change (1024 <=? 0) with false. change (0 + 1) with 1.
  replace (B <? 1) with false by (symmetry; apply N.ltb_ge; exact HB). cbv iota.
  unfold p_sig.
  rewrite (run0_read_exact _ f da [79; 72; 68; 82] 4 _ Pdsig eq_refl).
  change (bytes_eqb [79; 72; 68; 82] SNOD) with false. cbv iota.
  unfold with_header. rewrite run0_bind, Hdh. rewrite run0_swallow. rewrite Hmsgs.
  rewrite dset_attrs. cbn [bind]. rewrite run0_ret. rewrite dset_det.
  change (1 =? 0) with false. change (1 =? 1) with true. cbv iota.
  unfold leave. cbn [fst snd vbt loading cnt filter]. rewrite N.eqb_refl. cbn [negb]. reflexivity.
Qed.

Lemma children_stage_g n :
  run0 f (p_children true SB' (p_load true SB' B hfuel (S n)) 1624 48 {| vbt := []; loading := []; cnt := 0 |})
  = Ok ([Dset name da], {| vbt := [1624]; loading := []; cnt := 1 |}).
Proof.
  unfold p_children. cbn [mem existsb vbt loading cnt].
  rewrite run0_bind, heap_stage_g.
  unfold p_sig.
  rewrite (run0_read_exact _ f 1624 [84; 82; 69; 69] 4 _ P_bt_sig_g eq_refl).
  change (bytes_eqb [84; 82; 69; 69] [84; 82; 69; 69]) with true. cbv iota.
  rewrite run0_bind, btree_stage_g.
  cbn [children_loop is_soft]. change (0 =? 2) with false. cbv iota.
  unfold p_sig.
  rewrite (run0_read_exact _ f da [79; 72; 68; 82] 4 _ Pdsig eq_refl).
  change (bytes_eqb [79; 72; 68; 82] SNOD) with false. rewrite andb_false_r.
  rewrite run0_bind. unfold load_entry.
  rewrite (run0_lift_ok _ _ _ _ f name (heap_name name Hname)).
  change (0 =? 1) with false. cbn [andb].
  cbn [p_load dispatch].
  rewrite object_stage_g. cbn [fst snd]. reflexivity.
Qed.

Lemma modern_stage_g n :
  run0 f (p_modern true SB' hfuel (p_load true SB' B hfuel (S n)) 2168 {| vbt := []; loading := []; cnt := 0 |})
  = Ok (Grp [] 2168 [Dset name da], {| vbt := [1624]; loading := []; cnt := 1 |}).
Proof.
  unfold p_modern, with_header. rewrite run0_bind.
  rewrite (root_header_g hfuel ltac:(blia)).
  rewrite run0_swallow. cbn [ohp_msgs ohp_name]. rewrite root_attrs. cbn [bind]. rewrite run0_ret.
  rewrite root_det, root_nolinks, root_stab.
  change (0 =? 0) with true. cbn [orb negb]. cbv iota.
  rewrite run0_bind, children_stage_g. reflexivity.
Qed.

Theorem open_image_g n : B = blen f / 8 + 1024 ->
  run0 f (p_open true (blen f) (S (S (S n))) hfuel) = Ok (Grp [47] 2168 [Dset name da]).
Proof.
  intros HBe. unfold p_open.
  rewrite (run0_read_exact _ f 0 signature 8 _ Psig eq_refl).
  change (bytes_eqb signature signature) with true. cbn [negb].
  rewrite run0_bind, superblock_stage_g.
  cbn [spp_root SB'].
  replace (blen f <=? 2168) with false by (symmetry; apply N.leb_gt; exact Hlenf).
  rewrite run0_bind. rewrite <- HBe.
  cbn [p_load dispatch]. unfold p_group. change (2168 =? 0) with false. cbv iota.
  unfold p_sig.
  rewrite (run0_read_exact _ f 2168 [79; 72; 68; 82] 4 _ P_root_sig_g eq_refl).
  change (bytes_eqb [79; 72; 68; 82] SNOD) with false. cbv iota.
  cbn [p_load dispatch].
  change (fun (r : req) (st : lstate) => dispatch true SB' B hfuel (p_load true SB' B hfuel n) r st) with (p_load true SB' B hfuel (S n)).
  rewrite modern_stage_g. reflexivity.
Qed.
End Gen.
