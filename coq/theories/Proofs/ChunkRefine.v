(* C01: REFINEMENT between the two models of the chunked reader, on EVERY file f:
     Model/ChunkIndex.v      parse_node / collect / place_chunks / read_chunked_file  (functions of the file; tied to
                             ParseBTreeV1Node, CollectAllChunks, readChunkedData: tools/props/c01unit.py)
     Model/IOProgReader.v    p_bt1_node / p_collect / p_chunks: the chunked branch of p_dataset_raw (reader PROGRAMS; tied to the
                             same Go code by the I/O traces of C17)
   Whenever the function model succeeds on a file shorter than 2^63 bytes whose root node is a leaf (all the writer emits),
   the intact run of the program succeeds, and the chunks it returns, scattered as readChunkedData does (assemble_chunks,
   Model/FileImageChunked.v), are the model's result:  chunked_branch_refines. *)
From HV Require Import Base.Prelude Model.Chunk Base.Outcome Base.Bytes Model.RobustTerm Model.ChunkIndex.
From HV Require Import Model.IOProg Proofs.IOProg Model.IOProgReader Model.CodecSuper Model.CodecMsg.
From HV Require Import Model.FileImage Proofs.FileImage Model.FileImageChunked.

Local Open Scope N_scope.

(* ------------------------------------------------------------------ single reads *)
Lemma read_at_some f off n b : read_at f off n = Some b -> in_range f off n = true /\ b = rd f off n.
Proof.
  unfold read_at, in_range, rd. destruct (off <=? MAXINT64); [|discriminate]. cbn [andb].
  destruct (off + n <=? blen f); [|discriminate]. intros H. injection H as <-. split; reflexivity.
Qed.
Lemma run0_read_at A f off n b (k : bytes -> prog A) : read_at f off n = Some b -> run0 f (ReadAt off n k) = run0 f (k b).
Proof. intros H. apply read_at_some in H as [H ->]. now apply run0_read_in. Qed.

Lemma run0_read_bytes_at_model f off n b : blen f <= MAXI64 ->
  read_bytes_at f off n = Some b -> run0 f (p_read_bytes_at off n) = Ok b.
Proof.
  intros Hf. unfold read_bytes_at, p_read_bytes_at. destruct (n =? 0) eqn:En; [intros H; injection H as <-; reflexivity|].
  apply N.eqb_neq in En.
  destruct ((wrap64 (off + n) <? off) || (MAXINT64 <? wrap64 (off + n))); [discriminate|].
  destruct (read_at f (wrap64 (off + n) - 1) 1) as [p|] eqn:E1; [|discriminate]. intros H2.
  pose proof (read_at_some _ _ _ _ H2) as [R2 _]. unfold in_range in R2. apply N.leb_le in R2.
  replace (MAXI64 <? off + n) with false by (symmetry; apply N.ltb_ge; blia).
  rewrite run0_read_in by (unfold in_range; apply N.leb_le; blia).
  now rewrite (run0_read_at _ _ _ _ _ _ H2).
Qed.

(* ------------------------------------------------------------------ keys *)
Lemma parse_coords_read_dims : forall n cs data off sc, parse_coords n cs data off = Ok sc ->
  exists co off', read_dims data 8 n off = Ok (co, off') /\ sc = scaled_of_key cs co.
Proof.
  induction n as [|n IH]; intros cs data off sc H; cbn [parse_coords read_dims] in *.
  - injection H as <-. exists [], off. split; reflexivity.
  - destruct (rd_le data off 8) as [bo| |] eqn:Eb; cbn [obind] in H; try discriminate.
    destruct cs as [|c cs']; [discriminate|]. destruct (c =? 0); [discriminate|].
    destruct (parse_coords n cs' data (off + 8)) as [r| |] eqn:Er; cbn [obind] in H; try discriminate.
    injection H as <-. destruct (IH _ _ _ _ Er) as (co & off' & E & ->).
    assert (Hl : blen data <? off + 8 = false).
    { unfold rd_le, slice in Eb. destruct ((off <=? off + 8) && (off + 8 <=? blen data)) eqn:Ec; [|discriminate].
      apply andb_true_iff in Ec as [_ Ec]. apply N.leb_le in Ec. apply N.ltb_ge. exact Ec. }
    rewrite Hl. cbn [obind]. rewrite E. cbn [obind]. exists (bo :: co), off'. split; reflexivity.
Qed.

Lemma read_address_le d : read_address d 8 = read_addr_le d 8.
  unfold read_address, read_addr_le. cbv zeta. f_equal. rewrite firstn_firstn. f_equal. blia.
Qed.



(* an entry of the program's node against an entry of the function model's node *)
Definition ent_rel (cdims : list N) (e : N * list N * N) (kc : centry) : Prop :=
  fst (fst e) = k_nbytes (fst kc) /\ scaled_of_key cdims (snd (fst e)) = k_scaled (fst kc) /\ snd e = snd kc.

Section Refine.
Variable sb : superblock'.
Hypothesis Ho : spp_offsize sb = 8.

Lemma parse_entries_bt1_keys cdims ndims data : forall k i klen off r,
  parse_entries k i klen ndims 8 cdims data off = Ok r ->
  exists ents, bt1_keys sb (S k) ndims data off = Ok ents /\ length ents = S k /\
    length (fst r) = S k /\ length (snd r) = k /\
    Forall2 (ent_rel cdims) (removelast ents) (combine (fst r) (snd r)).
Proof.
  induction k as [|k IH]; intros i klen off r H; cbn [parse_entries bt1_keys] in *; rewrite ?Ho.
  - destruct (blen data <? off + (8 + 8 * N.of_nat ndims)); [discriminate|].
    destruct (rd_le data off 4) as [nb| |]; cbn [obind] in *; try discriminate.
    destruct (rd_le data (off + 4) 4) as [fm| |]; cbn [obind] in *; try discriminate.
    destruct (parse_coords ndims cdims data (off + 8)) as [sc| |] eqn:Ec; cbn [obind] in *; try discriminate.
    destruct (klen <=? i); [discriminate|]. injection H as <-.
    destruct (parse_coords_read_dims _ _ _ _ _ Ec) as (co & off' & E & ->). rewrite E. cbn [obind Nat.eqb].
    eexists. split; [reflexivity|]. cbn [length fst snd removelast combine]. repeat split; constructor.
  - destruct (blen data <? off + (8 + 8 * N.of_nat ndims)); [discriminate|].
    destruct (rd_le data off 4) as [nb| |]; cbn [obind] in *; try discriminate.
    destruct (rd_le data (off + 4) 4) as [fm| |]; cbn [obind] in *; try discriminate.
    destruct (parse_coords ndims cdims data (off + 8)) as [sc| |] eqn:Ec; cbn [obind] in *; try discriminate.
    destruct (klen <=? i); [discriminate|].
    destruct (blen data <? off + (8 + 8 * N.of_nat ndims) + 8); [discriminate|].
    destruct (slice_from data (off + (8 + 8 * N.of_nat ndims))) as [tl| |]; cbn [obind] in *; try discriminate.
    destruct (parse_entries k (i + 1) klen ndims 8 cdims data (off + (8 + 8 * N.of_nat ndims) + 8)) as [r'| |] eqn:Er;
      cbn [obind] in *; try discriminate.
    injection H as <-.
    destruct (parse_coords_read_dims _ _ _ _ _ Ec) as (co & off' & E & ->). rewrite E. cbn [obind].
    change (S k =? 0)%nat with false. cbv iota.
    destruct (IH _ _ _ _ Er) as (ents & E2 & L1 & L2 & L3 & HR).
    cbn [bt1_keys] in E2. rewrite ?Ho in E2. rewrite E2. cbn [obind].
    eexists. split; [reflexivity|]. cbn [length fst snd]. repeat split; try blia.
    destruct ents as [|e0 ents]; [discriminate|]. cbn [removelast combine]. constructor; [|exact HR].
    unfold ent_rel, k_nbytes, k_scaled. cbn [fst snd]. repeat split. symmetry. apply read_address_le.
Qed.

Lemma parse_node_refines f a cdims nd : blen f <= MAXI64 -> all_pos cdims = true ->
  parse_node true f a 8 (length cdims) cdims = Ok nd ->
  exists ents, run0 f (p_bt1_node sb a (length cdims) cdims) = Ok (n_level nd, ents) /\
    Forall2 (ent_rel cdims) ents (combine (n_keys nd) (n_children nd)).
Proof.
  intros Hf Hpos H. unfold parse_node in H. unfold p_bt1_node. rewrite Ho.
  change (8 + 8 * 2) with 24 in H. change (8 + 2 * 8) with 24.
  destruct (read_at f a 24) as [h|] eqn:Eh; [|discriminate].
  rewrite (run0_read_at _ _ _ _ _ _ Eh).
  destruct (slice h 0 4) as [sg| |] eqn:Es; cbn [obind] in H; try discriminate.
  assert (Esg : sg = firstn 4 h).
  { unfold slice in Es. destruct ((0 <=? 4) && (4 <=? blen h)); [|discriminate]. injection Es as <-. reflexivity. }
  subst sg. change SIG_TREE with [84; 82; 69; 69] in H.
  destruct (bytes_eqb (firstn 4 h) [84; 82; 69; 69]); cbn [negb] in *; [|discriminate].
  destruct (index h 4) as [ty| |]; cbn [obind] in H; try discriminate.
  destruct (index h 5) as [lv| |]; cbn [obind] in *; try discriminate.
  destruct (rd_le h 6 2) as [eu| |]; cbn [obind] in *; try discriminate.
  destruct (slice_from h 8) as [t1| |]; cbn [obind] in H; try discriminate.
  destruct (slice_from h (8 + 8)) as [t2| |]; cbn [obind] in H; try discriminate.
  cbn [lift bind fst snd].
  destruct (eu =? 0).
  - injection H as <-. cbn [n_level n_keys n_children combine]. eexists. split; [reflexivity|constructor].
  - destruct (read_bytes_at f (wrap64 (a + 24)) (eu * (8 + 8 * N.of_nat (length cdims) + 8) + (8 + 8 * N.of_nat (length cdims))))
      as [data|] eqn:Ed; [|discriminate].
    rewrite run0_bind, (run0_read_bytes_at_model _ _ _ _ Hf Ed).
    assert (Hz : existsb (N.eqb 0) (firstn (length cdims) cdims) = false).
    { rewrite firstn_all. unfold all_pos in Hpos. clear - Hpos. induction cdims as [|c r IH]; [reflexivity|].
      cbn [forallb existsb] in *. apply andb_true_iff in Hpos as [H1 H2]. apply N.ltb_lt in H1.
      replace (0 =? c) with false by (symmetry; apply N.eqb_neq; blia). cbn [orb]. auto. }
    rewrite Hz.
    destruct (parse_entries (N.to_nat eu) 0 (key_slots true eu) (length cdims) 8 cdims data 0) as [r| |] eqn:Er;
      cbn [obind] in H; try discriminate.
    injection H as <-. cbn [n_level n_keys n_children].
    destruct (parse_entries_bt1_keys _ _ _ _ _ _ _ _ Er) as (ents & E2 & _ & _ & _ & HR).
    rewrite E2. cbn [lift bind]. eexists. split; [reflexivity|exact HR].
Qed.

(* the chunk reads *)
Lemma place_chunks_refines f dims cdims esz : blen f <= MAXI64 -> forall chunks ents raw d,
  Forall2 (ent_rel cdims) ents chunks ->
  place_chunks f dims cdims esz chunks raw = COk d ->
  exists cs, run0 f (p_chunks ents) = Ok cs /\ scatter_chunks dims cdims esz cs raw = COk d.
Proof.
  intros Hf. induction chunks as [|[key addr] r IH]; intros ents raw d HR H; inversion HR as [|e kc ents' r' He Hr']; subst.
  - cbn [place_chunks] in H. injection H as <-. exists []. split; reflexivity.
  - destruct e as [[nb co] a]. destruct He as (E1 & E2 & E3). cbn [fst snd] in E1, E2, E3. subst nb a.
    cbn [place_chunks] in H. cbn [p_chunks].
    unfold validate_size in H. destruct (k_nbytes key =? 0) eqn:Z; cbn [negb andb] in H; [discriminate|].
    destruct (k_nbytes key <=? MAX_CHUNK) eqn:Z2; cbn [negb] in H; [|discriminate].
    apply N.leb_le in Z2. unfold MAX_CHUNK in Z2. replace (1073741824 <? k_nbytes key) with false by (symmetry; apply N.ltb_ge; exact Z2).
    cbn [orb].
    destruct (read_bytes_at f addr (k_nbytes key)) as [cd|] eqn:Erd; [|discriminate].
    rewrite run0_bind, (run0_read_bytes_at_model _ _ _ _ Hf Erd).
    rewrite <- E2 in H.
    destruct (copy_chunk_to_array cd raw (firstn (length dims) (scaled_of_key cdims co)) (firstn (length dims) cdims) dims esz)
      as [raw'|code] eqn:Ec.
    + destruct (IH _ _ _ Hr' H) as (cs & Ecs & Hs). rewrite run0_bind, Ecs. cbn [run0 run fst].
      eexists. split; [reflexivity|]. cbn [scatter_chunks]. rewrite Ec. exact Hs.
    + destruct (code =? E_RANK0); discriminate.
Qed.

(* the chunked branch of p_dataset_raw (Model/IOProgReader.v), after the three messages have been decoded *)
Definition chunked_branch (fuel : nat) (root : N) (cd : list N) (tb : N) : prog rawdata :=
  bind (p_bt1_node sb root (length cd) cd) (fun nd =>
  if (18446744073709551616 <=? tb) || (tb =? 0) || (1099511627776 <? tb) then Fail else
  bind (p_collect sb fuel (length cd) cd (fst nd) (snd nd) []) (fun r =>
  bind (p_chunks (fst r)) (fun cs => Ret (RawChunks cs)))).

Theorem chunked_branch_refines f root dims cdims esz d fuel :
  blen f <= MAXI64 -> all_pos cdims = true -> (0 < fuel)%nat ->
  (forall nd, parse_node true f root 8 (length cdims) cdims = Ok nd -> n_level nd = 0) ->
  read_chunked_file true f root 8 dims cdims esz = COk d ->
  exists cs, run0 f (chunked_branch fuel root cdims (total_elements dims * esz)) = Ok (RawChunks cs) /\
             assemble_chunks dims cdims esz cs = COk d.
Proof.
  intros Hf Hpos Hfu Hlv H. unfold read_chunked_file in H.
  destruct (Nat.ltb (length cdims) (length dims)); [discriminate|].
  destruct (parse_node true f root 8 (length cdims) cdims) as [nd| |] eqn:En; try discriminate.
  specialize (Hlv nd eq_refl).
  destruct (negb (total_elements dims =? 0) && negb (esz =? 0) && (U64MAX / esz <? total_elements dims)); [discriminate|].
  set (tb := total_elements dims * esz) in *.
  unfold validate_size in H. destruct (tb =? 0) eqn:Z; cbn [negb andb] in H; [discriminate|].
  destruct (tb <=? MAX_CHUNK * 1024) eqn:Z2; cbn [negb] in H; [|discriminate].
  apply N.leb_le in Z2. unfold MAX_CHUNK in Z2.
  unfold collect_all_chunks in H. rewrite Hlv in H. cbn [collect N.eqb] in H.
  destruct (parse_node_refines f root cdims nd Hf Hpos En) as (ents & Er & HR).
  unfold chunked_branch. rewrite run0_bind, Er. cbn [fst snd]. rewrite Hlv.
  replace (18446744073709551616 <=? tb) with false by (symmetry; apply N.leb_gt; blia).
  rewrite Z. replace (1099511627776 <? tb) with false by (symmetry; apply N.ltb_ge; blia). cbn [orb].
  destruct fuel as [|fuel']; [blia|]. cbn [p_collect N.eqb bind fst snd].
  destruct (place_chunks_refines f dims cdims esz Hf _ _ _ _ HR H) as (cs & Ecs & Hs).
  rewrite run0_bind, Ecs. exists cs. split; [reflexivity|exact Hs].
Qed.
End Refine.
