(* C01: writeChunkedData followed by readChunkedData returns the data - the chunk loop of the writer (allocate at the
   end of file, write, record) composed with the index round trip (Proofs/ChunkIndex.v) and the reader's placement
   (Proofs/ChunkTiling.v), for every rank, grid, element size and data.  Model: Model/ChunkIndex.v (rep = true). *)
From HV Require Import Base.Prelude Model.Chunk Base.Outcome Base.Bytes Model.RobustTerm Model.ChunkIndex.
From HV Require Import Proofs.ChunkLists Proofs.ChunkSpec Proofs.ChunkCoords Proofs.ChunkTiling Proofs.ChunkIndex.
From Coq Require Import Permutation.

Local Open Scope N_scope.

(* ------------------------------------------------------------------ a dataset with too many chunks *)

Theorem chunked_write_refused_unchanged dims cdims esz data f eof :
  MAX_ENTRIES < total_chunks (num_chunks dims cdims) ->
  write_chunked_file_st true dims cdims esz data f eof = (f, eof, Err).
Proof.
  intros H. unfold write_chunked_file_st.
  destruct (negb (lenN data =? vol dims esz)); [reflexivity|].
  replace (MAX_ENTRIES <? total_chunks (num_chunks dims cdims)) with true by (symmetry; apply N.ltb_lt; exact H).
  reflexivity.
Qed.

(* ------------------------------------------------------------------ the chunk loop *)

Lemma Forall2_imp {A B} (P Q : A -> B -> Prop) l l' :
  (forall a b, P a b -> Q a b) -> Forall2 P l l' -> Forall2 Q l l'.
Proof. intros H. induction 1; constructor; auto. Qed.
Lemma Forall2_len {A B} (P : A -> B -> Prop) l l' : Forall2 P l l' -> length l = length l'.
Proof. induction 1; cbn [length]; auto. Qed.
Lemma Forall2_in_right {A B} (P : A -> B -> Prop) l l' b :
  Forall2 P l l' -> In b l' -> exists a, In a l /\ P a b.
Proof.
  induction 1 as [|x y l l' Hxy _ IH]; intros Hin; [destruct Hin|].
  destruct Hin as [<-|Hin]; [exists x; split; [left; reflexivity|exact Hxy]|].
  destruct (IH Hin) as (a & Ha & Hp). exists a. split; [right; exact Ha|exact Hp].
Qed.

(* reads below the end of file are not disturbed *)
Definition kept_below (f f1 : bytes) (lim : N) : Prop :=
  forall off n b, off + n <= lim -> n <> 0 -> n < 18446744073709551616 ->
    read_bytes_at f off n = Some b -> read_bytes_at f1 off n = Some b.

(* what the loop records for a chunk and leaves in the file f1 *)
Definition recorded (B lo hi : N) (f1 : bytes) (kd : list N * bytes) (e : wentry) : Prop :=
  w_coord e = fst kd /\ w_nbytes e = B /\ lo <= w_addr e /\ w_addr e + B <= hi /\
  read_bytes_at f1 (w_addr e) B = Some (snd kd).

Lemma read_bytes_at_written f a buf :
  buf <> [] -> a + blen buf <= MAXINT64 -> read_bytes_at (write_at f a buf) a (blen buf) = Some buf.
Proof.
  intros Hne Hm. destruct (write_at_shape f buf a Hne) as (pre & suf & -> & Hp).
  apply read_bytes_at_app; auto.
  destruct buf; [congruence|]. unfold blen. cbn [length]. lia.
Qed.

Lemma recorded_weaken B lo lo' hi hi' f1 f2 kd e :
  recorded B lo hi f1 kd e -> lo' <= lo -> hi <= hi' ->
  (read_bytes_at f1 (w_addr e) B = Some (snd kd) -> read_bytes_at f2 (w_addr e) B = Some (snd kd)) ->
  recorded B lo' hi' f2 kd e.
Proof. intros (H1 & H2 & H3 & H4 & H5) Hl Hh Hr. repeat split; auto; lia. Qed.

Lemma chunk_loop_spec B : 0 < B -> B < 4294967296 ->
  forall (cks : list (list N * bytes)) f eof acc,
  Forall (fun kd => blen (snd kd) = B) cks ->
  eof + N.of_nat (length cks) * B <= MAXINT64 ->
  exists f1 es,
    write_chunk_loop_st cks f eof acc = (f1, eof + N.of_nat (length cks) * B, Ok (acc ++ es)) /\
    kept_below f f1 eof /\
    Forall2 (recorded B eof (eof + N.of_nat (length cks) * B) f1) cks es.
Proof.
  intros HB0 HB32. induction cks as [|[k d] r IH]; intros f eof acc Hl Hm.
  - exists f, []. cbn [write_chunk_loop_st length]. rewrite app_nil_r.
    replace (eof + N.of_nat 0 * B) with eof by lia. split; [reflexivity|]. split; [|constructor].
    intros off n b _ _ _ H. exact H.
  - apply Forall_cons_iff in Hl as [Hd Hr]. cbn [snd] in Hd.
    cbn [length] in Hm. rewrite Nat2N.inj_succ in Hm.
    assert (Hne : d <> []) by (intros ->; unfold blen in Hd; cbn [length] in Hd; lia).
    cbn [write_chunk_loop_st]. unfold alloc. rewrite Hd.
    replace (B =? 0) with false by (symmetry; apply N.eqb_neq; lia).
    assert (Hw : wrap64 (eof + B) = eof + B).
    { unfold wrap64. apply N.mod_small. unfold MAXINT64 in Hm. nia. }
    rewrite Hw.
    assert (Hfit : eof + B + N.of_nat (length r) * B <= MAXINT64) by nia.
    destruct (IH (write_at f eof d) (eof + B) (acc ++ [(k, eof, wrap32 B)]) Hr Hfit) as (f1 & es & E & Hk & Hrec).
    exists f1, ((k, eof, wrap32 B) :: es).
    cbn [length]. rewrite Nat2N.inj_succ.
    replace (eof + N.succ (N.of_nat (length r)) * B) with (eof + B + N.of_nat (length r) * B) by lia.
    split; [rewrite E, <- app_assoc; reflexivity|]. split.
    + intros off n b Ho Hn Hn64 Hrd. apply Hk; auto; [lia|].
      apply read_bytes_at_write_at_before; auto.
    + constructor.
      * assert (Hw32 : wrap32 B = B) by (unfold wrap32; apply N.mod_small; lia).
        unfold recorded, w_coord, w_nbytes, w_addr. cbn [fst snd]. rewrite Hw32.
        repeat split; try lia.
        apply Hk; try lia.
        rewrite <- Hd. apply read_bytes_at_written; auto. rewrite Hd. unfold MAXINT64 in *. nia.
      * eapply Forall2_imp; [|exact Hrec]. intros kd e H.
        apply (recorded_weaken _ _ _ _ _ _ _ _ _ H); auto; lia.
Qed.

(* ------------------------------------------------------------------ the grid *)

Lemma in_coords_lt nc : forall c, In c (coords_of nc) -> Forall2 N.lt c nc.
Proof.
  induction nc as [|n r IH]; intros c H; cbn [coords_of] in H.
  - destruct H as [<-|[]]. constructor.
  - apply in_flat_map in H. destruct H as (c0 & Hc0 & H). apply in_map_iff in H.
    destruct H as (c' & <- & H). apply in_rangeN in Hc0. constructor; auto.
Qed.

(* offsets of a grid chunk lie inside the extents *)
Lemma chunk_key_lt dims : forall cdims c, posl cdims ->
  Forall2 N.lt c (num_chunks dims cdims) -> length cdims = length dims ->
  Forall2 N.lt (chunk_key cdims c) dims.
Proof.
  induction dims as [|d ds IH]; intros [|cd cs] c Hp H Hl; try discriminate.
  - inversion H; subst. constructor.
  - rewrite num_chunks_cons in H. inversion H as [|c0 q c' qs Hc0 Hc']; subst.
    inversion Hp; subst. unfold chunk_key. cbn [zipWith]. constructor.
    + pose proof (N.div_mod (d + cd - 1) cd ltac:(lia)) as E.
      pose proof (N.mod_lt (d + cd - 1) cd ltac:(lia)). nia.
    + apply IH; auto.
Qed.

Lemma le_prodN l : posl l -> Forall (fun x => x <= prodN l) l.
Proof.
  induction 1 as [|x l Hx Hl IH]; constructor.
  - rewrite prodN_cons. pose proof (prodN_pos l Hl). nia.
  - eapply Forall_impl; [|exact IH]. intros a Ha. cbv beta in *. rewrite prodN_cons. nia.
Qed.

Lemma length_chunk_key cdims : forall c, length c = length cdims -> length (chunk_key cdims c) = length cdims.
Proof.
  unfold chunk_key. induction cdims as [|k ks IH]; intros [|x c] H; try discriminate; auto.
  cbn [zipWith length] in *. f_equal. apply IH. lia.
Qed.

Lemma Forall2_lt_le_bound (a b : list N) M : Forall2 N.lt a b -> Forall (fun x => x <= M) b -> Forall (fun x => x <= M) a.
Proof. induction 1; intros Hb; constructor; inversion Hb; subst; auto; lia. Qed.

Lemma lenN_extract_padded dims cdims esz data c :
  length cdims = length dims -> length c = length dims -> lenN data = vol dims esz ->
  lenN (extract_padded dims cdims esz data c) = vol cdims esz.
Proof.
  intros. rewrite extract_padded_spec by auto. apply lenN_ext_spec; auto. apply lenN_zerosN.
Qed.

Lemma entry_ok_intro dim co ad nb :
  length co = dim -> Forall (fun x => x <= U64MAX) co -> ad <= U64MAX -> nb < 4294967296 ->
  entry_ok dim (co, ad, nb) = true.
Proof.
  intros H1 H2 H3 H4. unfold entry_ok, w_coord, w_addr, w_nbytes. cbn [fst snd].
  rewrite !andb_true_iff, Nat.eqb_eq, N.leb_le, N.ltb_lt, forallb_forall. repeat split; auto.
  intros x Hx. apply N.leb_le. rewrite Forall_forall in H2. auto.
Qed.

(* ------------------------------------------------------------------ end to end *)

Theorem chunked_end_to_end dims cdims esz data f eof :
  shape_ok dims cdims esz -> lenN data = vol dims esz ->
  total_chunks (num_chunks dims cdims) <= MAX_ENTRIES ->
  vol cdims esz <= MAX_CHUNK -> vol dims esz <= MAX_CHUNK * 1024 ->
  eof + chunked_file_growth dims cdims esz <= MAXINT64 ->
  exists f' eof' root,
    write_chunked_file true dims cdims esz data f eof = Ok (f', eof', root) /\
    read_chunked_file true f' root 8 dims cdims esz = COk data.
Proof.
  intros Hs Hd Hcap HB Hvol Hm.
  pose proof Hs as (Hne & Hc & Hpd & Hpc & Hez).
  set (B := vol cdims esz) in *.
  set (coords := all_chunk_coords dims cdims).
  set (n := total_chunks (num_chunks dims cdims)) in *.
  assert (HB0 : 0 < B) by (unfold B; rewrite vol_prod; pose proof (prodN_pos cdims Hpc); nia).
  assert (Hcl : forall c, In c coords -> length c = length cdims /\ Forall2 N.lt (chunk_key cdims c) dims).
  { intros c Hin. unfold coords in Hin. rewrite all_chunk_coords_enum in Hin by auto.
    pose proof (in_coords_length _ _ Hin) as L. rewrite length_num_chunks in L by auto.
    split; [lia|]. apply chunk_key_lt; auto. apply in_coords_lt; auto. }
  assert (Hlenc : N.of_nat (length coords) = n).
  { unfold coords, all_chunk_coords. rewrite map_length, length_rangeN. fold n. lia. }
  assert (Hn0 : 0 < n).
  { unfold n, total_chunks. apply prodN_pos. apply num_chunks_pos; auto. }
  set (cks := write_chunks dims cdims esz data).
  assert (Hcks : Forall (fun kd => blen (snd kd) = B) cks).
  { unfold cks, write_chunks. fold coords. apply Forall_forall. intros kd Hin.
    apply in_map_iff in Hin as (c & <- & Hin). cbn [snd]. destruct (Hcl c Hin) as [L _].
    apply lenN_extract_padded; auto; lia. }
  assert (Hlck : N.of_nat (length cks) = n).
  { unfold cks, write_chunks. fold coords. rewrite map_length. exact Hlenc. }
  unfold chunked_file_growth in Hm. fold n B in Hm. cbv zeta in Hm.
  assert (HB32 : B < 4294967296) by (unfold MAX_CHUNK in HB; lia).
  assert (Hfit : eof + N.of_nat (length cks) * B <= MAXINT64) by (rewrite Hlck; lia).
  destruct (chunk_loop_spec B HB0 HB32 cks f eof [] Hcks Hfit) as (f1 & es & E & Hk & Hrec).
  rewrite Hlck in E, Hrec. cbn [app] in E.
  set (eof1 := eof + n * B) in *.
  (* the recorded entries *)
  assert (Hles : length es = length cks) by (symmetry; eapply Forall2_len; exact Hrec).
  assert (Hes : Forall (fun e => exists c, In c coords /\ recorded B eof eof1 f1 (chunk_key cdims c, extract_padded dims cdims esz data c) e) es).
  { apply Forall_forall. intros e Hin.
    destruct (Forall2_in_right _ _ _ _ Hrec Hin) as (kd & Hkd & R).
    unfold cks, write_chunks in Hkd. fold coords in Hkd. apply in_map_iff in Hkd as (c & <- & Hc0). exists c. auto. }
  assert (Hcoords : map w_coord es = map (chunk_key cdims) coords).
  { transitivity (map fst cks).
    - clear - Hrec. induction Hrec as [|kd e l l' R _ IH]; [reflexivity|]. cbn [map]. f_equal; auto. apply R.
    - unfold cks, write_chunks. fold coords. rewrite map_map. reflexivity. }
  assert (Hdmax : Forall (fun x => x <= U64MAX) dims).
  { eapply Forall_impl; [|apply (le_prodN dims Hpd)]. intros a Ha. cbv beta in Ha.
    rewrite vol_prod in Hvol. unfold MAX_CHUNK in Hvol. unfold U64MAX.
    assert (prodN dims <= prodN dims * esz) by (clear - Hez; nia).
    clear - Ha Hvol H. lia. }
  assert (Hok : Forall (fun e => entry_ok (length cdims) e = true) es).
  { eapply Forall_impl; [|exact Hes]. intros [[co ad] nb] (c & Hin & R).
    destruct R as (R1 & R2 & R3 & R4 & _). unfold w_coord, w_nbytes, w_addr in *. cbn [fst snd] in *. subst co nb.
    destruct (Hcl c Hin) as [L K]. apply entry_ok_intro.
    - apply length_chunk_key. exact L.
    - eapply Forall2_lt_le_bound; eauto.
    - clear - R4 HB Hm HB0. unfold eof1, U64MAX, MAXINT64, MAX_CHUNK in *.
      assert (0 <= n * (16 + 8 * N.of_nat (length dims))) by lia. lia.
    - clear - HB. unfold MAX_CHUNK in HB. lia. }
  assert (Hnes : N.of_nat (length es) = n) by (rewrite Hles; exact Hlck).
  assert (Hap : all_pos cdims = true).
  { unfold all_pos. apply forallb_forall. intros x Hx. apply N.ltb_lt. rewrite Forall_forall in Hpc. auto. }
  assert (Hnil : es <> []) by (intros ->; cbn [length] in Hnes; lia).
  assert (Hser : blen (serialize_leaf (length cdims) es) = 24 + n * (16 + 8 * N.of_nat (length dims)) + (8 + 8 * N.of_nat (length dims))).
  { rewrite blen_serialize_leaf by exact Hok. rewrite Hnes, Hc. reflexivity. }
  destruct (index_roundtrip_core true cdims es f1 eof1 Hnil Hok) as (Hw & Hr); auto.
  { rewrite Hnes. exact Hcap. }
  { rewrite Hser. unfold eof1. clear - Hm. lia. }
  cbv zeta in Hw, Hr.
  exists (write_at f1 eof1 (serialize_leaf (length cdims) (sort_entries es))),
         (eof1 + blen (serialize_leaf (length cdims) es)), eof1. split.
  - unfold write_chunked_file, write_chunked_file_st.
    replace (lenN data =? vol dims esz) with true by (symmetry; apply N.eqb_eq; exact Hd). cbn [negb].
    fold n. replace (MAX_ENTRIES <? n) with false by (symmetry; apply N.ltb_ge; exact Hcap). cbn [andb].
    fold cks. rewrite E. cbv beta iota.
    change (st_result (write_index_st true (length dims) es f1 eof1)) with (write_index true (length dims) es f1 eof1).
    rewrite <- Hc. exact Hw.
  - apply (read_chunked_file_correct dims cdims esz data Hs Hd true _ eof1 es Hvol).
    + unfold MAX_CHUNK in HB. unfold B in HB, HB0. rewrite vol_prod in HB, HB0.
      pose proof (prodN_pos cdims Hpc) as Hpp. clear - HB Hpp. nia.
    + exists (sort_entries es). split; [apply sort_entries_perm|exact Hr].
    + rewrite Hcoords. reflexivity.
    + eapply Forall_impl; [|exact Hes]. intros e (c & Hin & (R1 & R2 & R3 & R4 & R5)).
      destruct (Hcl c Hin) as [L _]. cbn [fst snd] in *.
      assert (Hsc : sc_of cdims e = c) by (unfold sc_of; rewrite R1; apply scaled_key_id; auto).
      unfold entry_stored. rewrite Hsc, R2. split.
      * unfold validate_size. apply andb_true_iff. split; [apply negb_true_iff, N.eqb_neq; lia|apply N.leb_le; exact HB].
      * apply read_bytes_at_write_at_before; auto; try lia; unfold MAX_CHUNK in HB; lia.
Qed.
