(* C01 end to end: calculateTotalElements (the wrapping uint64 product of Model/FileImage.v total_elems) is the mathematical
   product of the extents whenever that product fits 64 bits and no extent is zero. *)
From HV Require Import Base.Prelude Base.Outcome Base.Bytes Model.FileImage.

Definition product (dims : list N) : N := fold_left N.mul dims 1.

Lemma fold_mul_ge : forall r x, Forall (fun d => 0 < d) r -> x <= fold_left N.mul r x.
Proof.
  induction r as [|d r IH]; intros x H; cbn [fold_left]; [blia|]. inversion H; subst.
  etransitivity; [|apply IH; auto].
  rewrite <- (N.mul_1_r x) at 1. apply N.mul_le_mono_l. blia.
Qed.

Lemma total_fold : forall r acc, Forall (fun d => 0 < d) r -> fold_left N.mul r acc < 18446744073709551616 ->
  fold_left (fun a d => wrap64 (a * d)) r acc = fold_left N.mul r acc.
Proof.
  induction r as [|d r IH]; intros acc H Hb; cbn [fold_left] in *; [reflexivity|]. inversion H; subst.
  pose proof (fold_mul_ge r (acc * d) ltac:(auto)).
  replace (wrap64 (acc * d)) with (acc * d) by (unfold wrap64; symmetry; apply N.mod_small; blia).
  apply IH; auto.
Qed.

Lemma dims_ok_pos dims : dims_ok dims = true -> Forall (fun d => 0 < d) dims.
Proof.
  unfold dims_ok. intros H. apply andb_true_iff in H as [_ H]. rewrite forallb_forall in H. apply Forall_forall.
  intros x Hx. specialize (H x Hx). apply andb_true_iff in H as [H _]. now apply N.ltb_lt in H.
Qed.

Lemma total_elems_product dims : dims_ok dims = true -> product dims < 18446744073709551616 -> total_elems dims = product dims.
Proof. intros H Hb. unfold total_elems, product. apply total_fold; [now apply dims_ok_pos | exact Hb]. Qed.

Lemma product_pos dims : dims_ok dims = true -> 0 < product dims.
Proof. intros H. pose proof (fold_mul_ge dims 1 (dims_ok_pos dims H)). unfold product. blia. Qed.
