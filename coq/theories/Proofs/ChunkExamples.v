(* Non-vacuity: the hypotheses of the C01/C13 theorems are satisfiable on non-trivial inputs and the
   conclusions compute to what they claim (vm_compute on the executable model). *)
From HV Require Import Base.Prelude Model.Chunk Model.Elem.
From Coq Require Import Permutation.

Local Open Scope N_scope.

Definition ex_data (n : nat) : bytes := map (fun i => N.of_nat i mod 251 + 1) (seq 0 n).

(* 3x5, chunks 2x2 (partial edge chunks in both dimensions), 2-byte elements *)
Example ex_shape : shape_ok [3; 5] [2; 2] 2.
Proof. repeat split; try discriminate; repeat constructor. Qed.
Example ex_tiling :
  read_chunked [3; 5] [2; 2] 2 (write_chunks [3; 5] [2; 2] 2 (ex_data 30)) = Ok (ex_data 30).
Proof. vm_compute. reflexivity. Qed.
Example ex_chunks :
  map fst (write_chunks [3; 5] [2; 2] 1 (ex_data 15)) = [[0; 0]; [0; 2]; [0; 4]; [2; 0]; [2; 2]; [2; 4]]
  /\ nth 2 (map snd (write_chunks [3; 5] [2; 2] 1 (ex_data 15))) [] = [5; 0; 10; 0].
Proof. vm_compute. auto. Qed.
(* reversed order *)
Example ex_order :
  read_chunked [3; 5] [2; 2] 2 (rev (write_chunks [3; 5] [2; 2] 2 (ex_data 30))) = Ok (ex_data 30).
Proof. vm_compute. reflexivity. Qed.
(* chunk extent larger than / not dividing the dataset extent, rank 3 *)
Example ex_tiling3 :
  read_chunked [2; 3; 7] [3; 2; 4] 1 (write_chunks [2; 3; 7] [3; 2; 4] 1 (ex_data 42)) = Ok (ex_data 42).
Proof. vm_compute. reflexivity. Qed.

(* resize: shrink one dimension, grow the other *)
Example ex_resize :
  read_after_resize [3; 5] [4; 3] [2; 2] 1 (ex_data 15)
  = Ok [1; 2; 3; 6; 7; 8; 11; 12; 13; 0; 0; 0]
  /\ resize_arr [3; 5] [4; 3] 1 (ex_data 15) = [1; 2; 3; 6; 7; 8; 11; 12; 13; 0; 0; 0].
Proof. vm_compute. auto. Qed.
Example ex_resize_get :
  get_elem [4; 3] 1 (resize_arr [3; 5] [4; 3] 1 (ex_data 15)) [2; 1] = get_elem [3; 5] 1 (ex_data 15) [2; 1]
  /\ get_elem [4; 3] 1 (resize_arr [3; 5] [4; 3] 1 (ex_data 15)) [3; 1] = [0].
Proof. vm_compute. auto. Qed.
Example ex_mid_covers : mid_covers [8] [9] [7] /\ ~ mid_covers [8] [3] [7].
Proof. cbn [mid_covers]. split; [lia|]. intros [H _]. lia. Qed.

(* integers *)
Example ex_int :
  enc_int 4 (-2)%Z = [254; 255; 255; 255] /\ dec_int 4 true (enc_int 4 (-2)%Z) = (-2)%Z
  /\ dec_int 4 false (enc_int 4 4294967295%Z) = 4294967295%Z
  /\ dec_int 4 true (enc_int 4 4294967295%Z) = (-1)%Z
  /\ dec_int 8 false (enc_int 8 18446744073709551615%Z) = 18446744073709551615%Z
  /\ in_range 4 false 2147483649%Z.
Proof. vm_compute. repeat split; congruence. Qed.
(* strings *)
Example ex_string :
  enc_string 4 [97; 98] = [97; 98; 0; 0] /\ dec_string 4 (enc_string 4 [97; 98]) = [97; 98]
  /\ enc_string 3 [97; 98; 99; 100] = [97; 98; 99] /\ dec_string 3 (enc_string 3 [97; 0; 98]) = [97].
Proof. vm_compute. auto. Qed.
