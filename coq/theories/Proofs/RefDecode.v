(* C06: lemmas about Model/RefDecode.v (decoding of fixed-point and fixed-length string elements). *)
From HV Require Import Base.Prelude Model.RefDecode.

Local Open Scope N_scope.

(* ------------------------------------------------------------------ little-endian codec *)

Lemma le_length : forall n v, length (le n v) = n.
Proof. induction n; intro v; cbn [le length]; [reflexivity | now rewrite IHn]. Qed.

Lemma le_bytes : forall n v, Forall (fun b => b < 256) (le n v).
Proof.
  induction n; intro v; cbn [le]; constructor.
  - apply N.mod_lt. discriminate.
  - apply IHn.
Qed.

Lemma pow256_pos : forall k, 0 < 256 ^ N.of_nat k.
Proof. intro k. apply N.neq_0_lt_0. apply N.pow_nonzero. discriminate. Qed.

Lemma pow256_succ : forall k, 256 ^ N.of_nat (S k) = 256 * 256 ^ N.of_nat k.
Proof. intro k. rewrite Nat2N.inj_succ. apply N.pow_succ_r'. Qed.

Lemma unle_bound : forall bs, Forall (fun b => b < 256) bs -> unle bs < 256 ^ N.of_nat (length bs).
Proof.
  induction bs as [|b r IH]; intro H.
  - cbn. reflexivity.
  - inversion H as [|? ? Hb Hr]; subst. specialize (IH Hr).
    cbn [unle length]. rewrite pow256_succ.
    pose proof (pow256_pos (length r)). nia.
Qed.

Lemma le_unle : forall bs, Forall (fun b => b < 256) bs -> le (length bs) (unle bs) = bs.
Proof.
  induction bs as [|b r IH]; intro H; [reflexivity|].
  inversion H as [|? ? Hb Hr]; subst. specialize (IH Hr).
  cbn [unle length le].
  replace ((b + 256 * unle r) mod 256) with b by lia.
  replace ((b + 256 * unle r) / 256) with (unle r) by lia.
  now rewrite IH.
Qed.

Lemma unle_le : forall n v, unle (le n v) = v mod 256 ^ N.of_nat n.
Proof.
  induction n; intro v.
  - cbn [le unle]. change (256 ^ N.of_nat 0) with 1. now rewrite N.mod_1_r.
  - cbn [le unle]. rewrite IHn, pow256_succ.
    rewrite N.mod_mul_r by (try discriminate; apply N.pow_nonzero; discriminate).
    reflexivity.
Qed.

Lemma rev_bytes : forall bs, Forall (fun b => b < 256) bs -> Forall (fun b => b < 256) (rev bs).
Proof. intros bs H. apply Forall_forall. intros x Hx. apply in_rev in Hx. revert x Hx. now apply Forall_forall. Qed.

Lemma to_le_invol : forall o bs, to_le o (to_le o bs) = bs.
Proof. intros [] bs; cbn [to_le]; [reflexivity | apply rev_involutive]. Qed.

Lemma to_le_length : forall o bs, length (to_le o bs) = length bs.
Proof. intros [] bs; cbn [to_le]; [reflexivity | apply rev_length]. Qed.

Lemma to_le_bytes : forall o bs, Forall (fun b => b < 256) bs -> Forall (fun b => b < 256) (to_le o bs).
Proof. intros [] bs H; cbn [to_le]; [exact H | now apply rev_bytes]. Qed.

Lemma byte_ok_Forall : forall bs, byte_ok bs = true -> Forall (fun b => b < 256) bs.
Proof.
  intros bs H. apply Forall_forall. intros x Hx.
  unfold byte_ok in H. rewrite forallb_forall in H. specialize (H x Hx). lia.
Qed.

(* 256^k in N is 2^(8k) in Z *)
Lemma pow256_Z : forall k, Z.of_N (256 ^ N.of_nat k) = (2 ^ (8 * Z.of_nat k))%Z.
Proof.
  intro k. rewrite N2Z.inj_pow. rewrite nat_N_Z.
  change (Z.of_N 256) with (2 ^ 8)%Z. rewrite <- Z.pow_mul_r by lia. reflexivity.
Qed.

Lemma half_double : forall n : N, 0 < n -> (2 ^ (8 * Z.of_N n) = 2 * 2 ^ (8 * Z.of_N n - 1))%Z.
Proof.
  intros n Hn. replace (8 * Z.of_N n)%Z with (Z.succ (8 * Z.of_N n - 1))%Z at 1 by lia.
  rewrite Z.pow_succ_r by lia. reflexivity.
Qed.

(* ------------------------------------------------------------------ integers *)

Lemma int_be_le : forall s n bs, dec_int BE s n (rev bs) = dec_int LE s n bs.
Proof. intros s n bs. unfold dec_int, dec_uint. cbn [to_le]. now rewrite rev_involutive. Qed.

Lemma dec_uint_bound : forall o bs n,
  byte_ok bs = true -> length bs = N.to_nat n ->
  (0 <= Z.of_N (dec_uint o bs) < 2 ^ (8 * Z.of_N n))%Z.
Proof.
  intros o bs n Hb Hl. unfold dec_uint.
  pose proof (unle_bound (to_le o bs) (to_le_bytes o bs (byte_ok_Forall bs Hb))) as H.
  rewrite to_le_length, Hl, N2Nat.id in H.
  assert (Hp : Z.of_N (256 ^ n) = (2 ^ (8 * Z.of_N n))%Z).
  { rewrite <- (N2Nat.id n) at 1. rewrite pow256_Z. now rewrite N_nat_Z. }
  lia.
Qed.

Lemma int_range : forall o s n bs,
  byte_ok bs = true -> length bs = N.to_nat n -> 0 < n ->
  (int_lo s n <= dec_int o s n bs <= int_hi s n)%Z.
Proof.
  intros o s n bs Hb Hl Hn.
  pose proof (dec_uint_bound o bs n Hb Hl) as Hu.
  pose proof (half_double n Hn) as Hh.
  unfold dec_int, int_lo, int_hi.
  destruct s; cbn [andb].
  - destruct (Z.leb_spec (2 ^ (8 * Z.of_N n - 1)) (Z.of_N (dec_uint o bs))); lia.
  - lia.
Qed.

Lemma enc_int_length : forall o s n v, length (enc_int o s n v) = N.to_nat n.
Proof. intros. unfold enc_int. now rewrite to_le_length, le_length. Qed.

Lemma enc_int_bytes : forall o s n v, byte_ok (enc_int o s n v) = true.
Proof.
  intros. unfold byte_ok. apply forallb_forall. intros x Hx.
  pose proof (to_le_bytes o _ (le_bytes (N.to_nat n) (Z.to_N (v mod 2 ^ (8 * Z.of_N n))))) as H.
  rewrite Forall_forall in H. specialize (H x Hx). lia.
Qed.

Lemma dec_uint_enc : forall o s n v,
  Z.of_N (dec_uint o (enc_int o s n v)) = (v mod 2 ^ (8 * Z.of_N n))%Z.
Proof.
  intros o s n v. unfold dec_uint, enc_int. rewrite to_le_invol, unle_le, N2Nat.id.
  assert (Hpos : (0 < 2 ^ (8 * Z.of_N n))%Z) by (apply Z.pow_pos_nonneg; lia).
  pose proof (Z.mod_pos_bound v _ Hpos) as Hm.
  assert (Hp : Z.of_N (256 ^ n) = (2 ^ (8 * Z.of_N n))%Z).
  { rewrite <- (N2Nat.id n) at 1. rewrite pow256_Z. now rewrite N_nat_Z. }
  rewrite N.mod_small by lia. lia.
Qed.

Lemma int_roundtrip : forall o s n v,
  0 < n -> (int_lo s n <= v <= int_hi s n)%Z ->
  dec_int o s n (enc_int o s n v) = v.
Proof.
  intros o s n v Hn Hv.
  pose proof (half_double n Hn) as Hh.
  assert (Hpos : (0 < 2 ^ (8 * Z.of_N n - 1))%Z) by (apply Z.pow_pos_nonneg; lia).
  unfold dec_int. rewrite dec_uint_enc.
  unfold int_lo, int_hi in Hv.
  destruct s; cbn [andb].
  - destruct (Z_lt_le_dec v 0) as [Hneg | Hnn].
    + assert (Hm : (v mod 2 ^ (8 * Z.of_N n) = v + 2 ^ (8 * Z.of_N n))%Z).
      { symmetry. apply Z.mod_unique with (q := (-1)%Z); lia. }
      rewrite Hm. destruct (Z.leb_spec (2 ^ (8 * Z.of_N n - 1)) (v + 2 ^ (8 * Z.of_N n))); lia.
    + rewrite Z.mod_small by lia.
      destruct (Z.leb_spec (2 ^ (8 * Z.of_N n - 1)) v); lia.
  - rewrite Z.mod_small by lia. reflexivity.
Qed.

(* the model is a bijection between well-formed element bytes and in-range values *)
Lemma int_enc_dec : forall o s n bs,
  byte_ok bs = true -> length bs = N.to_nat n -> 0 < n ->
  enc_int o s n (dec_int o s n bs) = bs.
Proof.
  intros o s n bs Hb Hl Hn.
  pose proof (dec_uint_bound o bs n Hb Hl) as Hu.
  pose proof (half_double n Hn) as Hh.
  assert (Hmod : ((dec_int o s n bs) mod 2 ^ (8 * Z.of_N n) = Z.of_N (dec_uint o bs))%Z).
  { unfold dec_int. destruct s; cbn [andb].
    - destruct (Z.leb_spec (2 ^ (8 * Z.of_N n - 1)) (Z.of_N (dec_uint o bs))).
      + symmetry. apply Z.mod_unique with (q := (-1)%Z); lia.
      + apply Z.mod_small. lia.
    - apply Z.mod_small. lia. }
  unfold enc_int. rewrite Hmod, N2Z.id. unfold dec_uint.
  rewrite <- Hl, <- (to_le_length o bs).
  rewrite le_unle by (apply to_le_bytes, byte_ok_Forall, Hb).
  apply to_le_invol.
Qed.

(* ------------------------------------------------------------------ strings *)

Lemma firstn_N_app : forall s r, firstn_N (length s) (s ++ r) = s.
Proof. induction s; intro r; cbn; [now destruct r | now rewrite IHs]. Qed.

Lemma firstn_N_all : forall n s, (length s <= n)%nat -> firstn_N n s = s.
Proof.
  induction n; intros s H.
  - destruct s; [reflexivity | cbn in H; lia].
  - destruct s; [reflexivity|]. cbn in *. rewrite IHn by lia. reflexivity.
Qed.

Lemma until_nul_app : forall s r, no_byte 0 s = true -> until_nul (s ++ 0 :: r) = s.
Proof.
  induction s as [|b s IH]; intros r H; cbn.
  - reflexivity.
  - cbn in H. apply andb_true_iff in H as [Hb Hs].
    destruct (b =? 0) eqn:E; [discriminate|]. now rewrite IH.
Qed.

Lemma until_nul_no_nul : forall bs, no_byte 0 (until_nul bs) = true.
Proof.
  induction bs as [|b r IH]; cbn [until_nul]; [reflexivity|].
  destruct (b =? 0) eqn:E; [reflexivity|].
  unfold no_byte in *. cbn [forallb]. rewrite E, IH. reflexivity.
Qed.

(* the decoded value is a prefix of the field, and the field continues with a NUL or ends *)
Lemma until_nul_prefix : forall bs, exists r, bs = until_nul bs ++ r /\ (r = [] \/ exists r', r = 0 :: r').
Proof.
  induction bs as [|b r IH]; cbn.
  - exists []. split; [reflexivity | now left].
  - destruct (b =? 0) eqn:E.
    + exists (b :: r). split; [reflexivity|]. right. exists r. f_equal. lia.
    + destruct IH as [t [Ht Hc]]. exists t. split; [cbn; now rewrite <- Ht | exact Hc].
Qed.

Lemma drop_while_repeat : forall c k s, last_not c s = true -> drop_while c (repeat c k ++ rev s) = rev s.
Proof.
  intros c k s H. induction k; cbn [repeat app].
  - unfold last_not in H. destruct (rev s) as [|b t]; [reflexivity|]. cbn. now destruct (b =? c).
  - cbn [drop_while]. rewrite N.eqb_refl. exact IHk.
Qed.

Lemma rev_repeat : forall (c : N) k, rev (repeat c k) = repeat c k.
Proof.
  intros c k. induction k; [reflexivity|]. cbn [repeat rev]. rewrite IHk.
  clear IHk. induction k; [reflexivity|]. cbn [repeat app]. now rewrite IHk.
Qed.

Lemma trim_right_pad : forall c k s, last_not c s = true -> trim_right c (s ++ repeat c k) = s.
Proof.
  intros c k s H. unfold trim_right. rewrite rev_app_distr, rev_repeat, drop_while_repeat by exact H.
  apply rev_involutive.
Qed.

Lemma drop_while_spec : forall c bs, exists k, bs = repeat c k ++ drop_while c bs /\
  match drop_while c bs with [] => True | b :: _ => (b =? c) = false end.
Proof.
  intros c. induction bs as [|b r IH].
  - exists 0%nat. split; [reflexivity | exact I].
  - cbn [drop_while]. destruct (b =? c) eqn:E.
    + destruct IH as [k [Hk Hl]]. exists (S k). split; [|exact Hl].
      cbn [repeat app]. f_equal; [lia | exact Hk].
    + exists 0%nat. split; [reflexivity | exact E].
Qed.

(* trimming removes only padding, and leaves nothing that looks like padding at the end *)
Lemma trim_right_spec : forall c bs, exists k, bs = trim_right c bs ++ repeat c k /\ last_not c (trim_right c bs) = true.
Proof.
  intros c bs. unfold trim_right. destruct (drop_while_spec c (rev bs)) as [k [Hk Hl]].
  exists k. split.
  - set (d := drop_while c (rev bs)) in *.
    rewrite <- (rev_involutive bs) at 1. rewrite Hk, rev_app_distr, rev_repeat. reflexivity.
  - unfold last_not. rewrite rev_involutive. destruct (drop_while c (rev bs)); [reflexivity | now rewrite Hl].
Qed.

Lemma string_roundtrip : forall p size s,
  representable p size s = true -> dec_string p size (enc_string p size s) = s.
Proof.
  intros p size s H. unfold dec_string, enc_string.
  assert (Hlen : (length s <= N.to_nat size)%nat).
  { destruct p; cbn [representable] in H; apply andb_true_iff in H as [H _]; lia. }
  assert (Hall : firstn_N (N.to_nat size) (s ++ repeat (pad_char p) (N.to_nat size - length s))
                 = s ++ repeat (pad_char p) (N.to_nat size - length s)).
  { apply firstn_N_all. rewrite app_length, repeat_length. lia. }
  rewrite Hall. destruct p; cbn [representable pad_char] in *; apply andb_true_iff in H as [Hl Hr].
  - assert (Hk : exists k, (N.to_nat size - length s)%nat = S k) by (exists (N.to_nat size - length s - 1)%nat; lia).
    destruct Hk as [k Hk]. rewrite Hk. cbn [repeat]. now apply until_nul_app.
  - now apply trim_right_pad.
  - now apply trim_right_pad.
Qed.

Lemma string_nullterm : forall size bs,
  no_byte 0 (dec_string NullTerm size bs) = true /\
  exists r, firstn_N (N.to_nat size) bs = dec_string NullTerm size bs ++ r /\ (r = [] \/ exists r', r = 0 :: r').
Proof.
  intros size bs. unfold dec_string. split; [apply until_nul_no_nul | apply until_nul_prefix].
Qed.

Lemma string_nullpad : forall size bs, exists k,
  firstn_N (N.to_nat size) bs = dec_string NullPad size bs ++ repeat 0 k /\ last_not 0 (dec_string NullPad size bs) = true.
Proof. intros. unfold dec_string. apply trim_right_spec. Qed.

Lemma string_spacepad : forall size bs, exists k,
  firstn_N (N.to_nat size) bs = dec_string SpacePad size bs ++ repeat 32 k /\ last_not 32 (dec_string SpacePad size bs) = true.
Proof. intros. unfold dec_string. apply trim_right_spec. Qed.

(* ------------------------------------------------------------------ non-vacuity: corpus bytes *)

(* tall.h5, attribute attr2 of "/" (H5T_STD_I32BE): bytes 00 00 00 01 are the value 1 (the Go attribute reader
   returns 16777216, the little-endian reading) *)
Example int_be_example : dec_int BE true 4 [0;0;0;1] = 1%Z /\ dec_int LE true 4 [0;0;0;1] = 16777216%Z.
Proof. split; vm_compute; reflexivity. Qed.

(* tattrintsize.h5 attribute DU32BITS (H5T_STD_U32LE): ff ff ff ff is 4294967295; as signed it is -1 *)
Example int_unsigned_example : dec_int LE false 4 [255;255;255;255] = 4294967295%Z /\ dec_int LE true 4 [255;255;255;255] = (-1)%Z.
Proof. split; vm_compute; reflexivity. Qed.

Example string_examples :
  dec_string NullTerm 5 [115;49;0;120;0] = [115;49] /\
  dec_string NullPad 8 [97;98;99;100;48;0;0;0] = [97;98;99;100;48] /\
  dec_string SpacePad 6 [97;98;32;99;32;32] = [97;98;32;99].
Proof. repeat split; vm_compute; reflexivity. Qed.

(* ------------------------------------------------------------------ the pinned attribute reader vs the specification *)

Lemma attr_pinned_ok_le_signed : forall n bs, go_attr_int_pinned LE true n bs = dec_int LE true n bs.
Proof. reflexivity. Qed.

Lemma attr_fixed_ok_signed : forall o n bs, go_attr_int_fixed o true n bs = dec_int o true n bs.
Proof. reflexivity. Qed.

(* tall.h5 "/" attr2[1] (H5T_STD_I32BE, bytes 00 00 00 01): the reference reports 1, the reader 16777216 *)
Lemma attr_pinned_byte_order_refuted :
  exists bs, byte_ok bs = true /\ length bs = 4%nat /\ go_attr_int_pinned BE true 4 bs <> dec_int BE true 4 bs.
Proof. exists [0;0;0;1]. repeat split; try reflexivity. vm_compute. discriminate. Qed.

(* tattrintsize.h5 "/" DU32BITS[0] (H5T_STD_U32LE, bytes ff ff ff ff): the reference reports 4294967295, the reader -1;
   the byte-order repair does not change this one *)
Lemma attr_unsigned_refuted :
  exists bs, byte_ok bs = true /\ length bs = 4%nat /\
    go_attr_int_pinned LE false 4 bs <> dec_int LE false 4 bs /\ go_attr_int_fixed LE false 4 bs <> dec_int LE false 4 bs.
Proof. exists [255;255;255;255]. repeat split; try reflexivity; vm_compute; discriminate. Qed.

Lemma attr_pinned_full_refuted : ~ attr_int_full go_attr_int_pinned.
Proof.
  intro H. specialize (H BE true 4 [0;0;0;1] eq_refl eq_refl (or_introl eq_refl)).
  vm_compute in H. discriminate.
Qed.

Lemma attr_fixed_full_refuted : ~ attr_int_full go_attr_int_fixed.
Proof.
  intro H. specialize (H LE false 4 [255;255;255;255] eq_refl eq_refl (or_introl eq_refl)).
  vm_compute in H. discriminate.
Qed.
