(* The writer's loop over linear chunk indices enumerates the product of the per-dimension ranges,
   in row-major order; plus the selection lemma used by the induction on the rank. *)
From HV Require Import Base.Prelude Model.Chunk Proofs.ChunkLists.
From Coq Require Import Permutation.

Local Open Scope N_scope.

Definition posl (l : list N) : Prop := Forall (fun x => 0 < x) l.

(* all coordinates c with c_i < nc_i, row-major *)
Fixpoint coords_of (nc : list N) : list (list N) :=
  match nc with
  | [] => [[]]
  | n :: r => flat_map (fun c0 => map (cons c0) (coords_of r)) (rangeN n)
  end.

Lemma prodN_app a b : prodN (a ++ b) = prodN a * prodN b.
Proof.
  induction a; cbn [app prodN fold_right].
  - fold (prodN b). lia.
  - fold (prodN (a0 ++ b)) (prodN a0). rewrite IHa. lia.
Qed.
Lemma prodN_cons a r : prodN (a :: r) = a * prodN r.
Proof. reflexivity. Qed.
Lemma prodN_rev l : prodN (rev l) = prodN l.
Proof.
  induction l; cbn [rev]; auto. rewrite prodN_app, IHl, !prodN_cons. cbn [prodN fold_right]. lia.
Qed.
Lemma prodN_pos l : posl l -> 0 < prodN l.
Proof. induction 1; cbn [prodN fold_right]; [lia|]. fold (prodN l). nia. Qed.

Lemma coord_rev_app l n0 : posl l -> forall rem,
  coord_rev (l ++ [n0]) rem = coord_rev l rem ++ [(rem / prodN l) mod n0].
Proof.
  induction 1 as [|n l Hn Hl IH]; intros rem; cbn [app coord_rev].
  - cbn [prodN fold_right]. rewrite N.div_1_r. reflexivity.
  - rewrite IH. rewrite prodN_cons.
    pose proof (prodN_pos l Hl).
    rewrite N.div_div by lia. reflexivity.
Qed.

Lemma coord_rev_period l : posl l -> forall a b, coord_rev l (a * prodN l + b) = coord_rev l b.
Proof.
  induction 1 as [|n l Hn Hl IH]; intros a b; cbn [coord_rev]; auto.
  rewrite prodN_cons. f_equal.
  - replace (a * (n * prodN l) + b) with (b + a * prodN l * n) by lia.
    apply N.mod_add. lia.
  - replace (a * (n * prodN l) + b) with (a * prodN l * n + b) by lia.
    rewrite N.div_add_l by lia. apply IH.
Qed.

Lemma posl_rev l : posl l -> posl (rev l).
Proof. intros. apply Forall_rev. auto. Qed.

Lemma chunk_coord_cons n0 tl idx : posl tl ->
  chunk_coord (n0 :: tl) idx = ((idx / prodN tl) mod n0) :: chunk_coord tl idx.
Proof.
  intros H. unfold chunk_coord. cbn [rev].
  rewrite coord_rev_app by (apply posl_rev; auto).
  rewrite rev_app_distr. cbn [rev app]. rewrite prodN_rev. reflexivity.
Qed.

Lemma chunk_coord_period tl a b : posl tl -> chunk_coord tl (a * prodN tl + b) = chunk_coord tl b.
Proof.
  intros H. unfold chunk_coord. f_equal.
  rewrite <- (prodN_rev tl). apply coord_rev_period. apply posl_rev; auto.
Qed.

Lemma rangeN_mul n P :
  rangeN (n * P) = flat_map (fun c0 => map (fun r => c0 * P + r) (rangeN P)) (rangeN n).
Proof.
  induction n using rangeN_ind.
  - rewrite N.mul_0_l, rangeN_0. reflexivity.
  - replace ((n + 1) * P) with (n * P + P) by lia.
    rewrite rangeN_add, IHn, rangeN_succ, flat_map_app. cbn [flat_map]. rewrite app_nil_r. reflexivity.
Qed.

Lemma map_flat_map {A B C} (f : B -> C) (g : A -> list B) l :
  map f (flat_map g l) = flat_map (fun x => map f (g x)) l.
Proof. induction l; cbn [flat_map map]; auto. rewrite map_app, IHl. reflexivity. Qed.

Lemma flat_map_ext_in {A B} (f g : A -> list B) l :
  (forall x, In x l -> f x = g x) -> flat_map f l = flat_map g l.
Proof.
  induction l; intros H; cbn [flat_map]; auto.
  rewrite H, IHl; auto with datatypes.
Qed.

(* GetChunkCoordinate over 0 .. total-1 = the row-major enumeration *)
Lemma chunk_coords_enum nc : posl nc -> map (chunk_coord nc) (rangeN (prodN nc)) = coords_of nc.
Proof.
  induction 1 as [|n0 tl Hn Htl IH].
  - reflexivity.
  - rewrite prodN_cons, rangeN_mul, map_flat_map. cbn [coords_of].
    apply flat_map_ext_in. intros c0 Hc0. apply in_rangeN in Hc0.
    rewrite <- IH, !map_map. apply map_ext_in. intros r Hr. apply in_rangeN in Hr.
    rewrite chunk_coord_cons by auto. rewrite chunk_coord_period by auto.
    f_equal. rewrite N.div_add_l by lia. rewrite N.div_small by lia.
    rewrite N.add_0_r. apply N.mod_small. lia.
Qed.

Lemma in_coords_length nc : forall c, In c (coords_of nc) -> length c = length nc.
Proof.
  induction nc as [|n r IH]; intros c H; cbn [coords_of] in H.
  - destruct H as [<-|[]]. reflexivity.
  - apply in_flat_map in H. destruct H as (c0 & _ & H). apply in_map_iff in H.
    destruct H as (c' & <- & H). cbn [length]. f_equal. auto.
Qed.

(* ---------------- selecting the chunks of one row ---------------- *)
Definition hd_is (q : N) (c : list N) : bool := match c with c0 :: _ => c0 =? q | [] => false end.

Lemma filter_flat_map {A B} (p : B -> bool) (g : A -> list B) l :
  filter p (flat_map g l) = flat_map (fun x => filter p (g x)) l.
Proof.
  induction l; cbn [flat_map]; auto.
  rewrite <- IHl. clear IHl. induction (g a); cbn [filter app]; auto.
  destruct (p a0); cbn [app]; rewrite IHl0; reflexivity.
Qed.

Lemma filter_hd_cons q c0 (X : list (list N)) :
  filter (hd_is q) (map (cons c0) X) = if c0 =? q then map (cons c0) X else [].
Proof.
  induction X; cbn [map filter hd_is].
  - destruct (c0 =? q); reflexivity.
  - destruct (c0 =? q) eqn:E; auto. f_equal. auto.
Qed.

Lemma flat_map_none {A B} (f : A -> list B) l : (forall x, In x l -> f x = []) -> flat_map f l = [].
Proof.
  induction l; intros H; cbn [flat_map]; auto.
  rewrite H, IHl; auto with datatypes.
Qed.

Lemma flat_map_select {B} (h : N -> list B) q n : q < n ->
  flat_map (fun c0 => if c0 =? q then h c0 else []) (rangeN n) = h q.
Proof.
  induction n using rangeN_ind; intros Hq; [lia|].
  rewrite rangeN_succ, flat_map_app. cbn [flat_map]. rewrite app_nil_r.
  destruct (N.eq_dec q n) as [->|Hne].
  - rewrite N.eqb_refl. rewrite flat_map_none; auto.
    intros x Hx. apply in_rangeN in Hx. replace (x =? n) with false by lia. reflexivity.
  - replace (n =? q) with false by lia. rewrite app_nil_r. apply IHn. lia.
Qed.

Lemma select_row n0 r q : q < n0 ->
  map (@tl N) (filter (hd_is q) (coords_of (n0 :: r))) = coords_of r.
Proof.
  intros Hq. cbn [coords_of]. rewrite filter_flat_map.
  rewrite (flat_map_ext_in _ (fun c0 => if c0 =? q then map (cons c0) (coords_of r) else [])).
  2:{ intros. apply filter_hd_cons. }
  rewrite (flat_map_select (fun c0 => map (cons c0) (coords_of r)) q n0 Hq).
  rewrite map_map. cbn [tl]. apply map_id.
Qed.

Lemma Permutation_filter' {A} (p : A -> bool) l l' : Permutation l l' -> Permutation (filter p l) (filter p l').
Proof.
  induction 1; cbn [filter].
  - constructor.
  - destruct (p x); auto.
  - destruct (p x), (p y); auto. constructor.
  - eapply Permutation_trans; eauto.
Qed.

Lemma select_row_perm L n0 r q : q < n0 -> Permutation L (coords_of (n0 :: r)) ->
  Permutation (map (@tl N) (filter (hd_is q) L)) (coords_of r).
Proof.
  intros Hq HP. rewrite <- (select_row n0 r q Hq).
  apply Permutation_map. apply Permutation_filter'. exact HP.
Qed.

(* ---------------- num_chunks ---------------- *)
Lemma num_chunks_pos dims : forall cdims, posl dims -> posl cdims -> posl (num_chunks dims cdims).
Proof.
  induction dims as [|d ds IH]; intros cdims Hd Hc; destruct cdims as [|cd cs];
    unfold num_chunks; cbn [zipWith]; try constructor.
  - inversion Hd; inversion Hc; subst.
    apply N.div_str_pos. lia.
  - inversion Hd; inversion Hc; subst. apply IH; auto.
Qed.

Lemma num_chunks_cons d ds cd cs : num_chunks (d :: ds) (cd :: cs) = (d + cd - 1) / cd :: num_chunks ds cs.
Proof. reflexivity. Qed.

Lemma length_num_chunks dims : forall cdims, length cdims = length dims -> length (num_chunks dims cdims) = length dims.
Proof.
  induction dims; intros [|? ?] H; try discriminate; auto.
  rewrite num_chunks_cons. cbn [length] in *. f_equal. apply IHdims. lia.
Qed.

Lemma all_chunk_coords_enum dims cdims : posl dims -> posl cdims ->
  all_chunk_coords dims cdims = coords_of (num_chunks dims cdims).
Proof.
  intros. unfold all_chunk_coords, total_chunks. apply chunk_coords_enum. apply num_chunks_pos; auto.
Qed.

(* scaled_of_key inverts chunk_key *)
Lemma scaled_key_id cdims : forall c, posl cdims -> length c = length cdims ->
  scaled_of_key cdims (chunk_key cdims c) = c.
Proof.
  induction cdims as [|cd cs IH]; intros [|c0 c'] Hp Hl; try discriminate; auto.
  inversion Hp; subst. unfold scaled_of_key, chunk_key in *. cbn [zipWith]. cbn [length] in Hl.
  rewrite N.div_mul by lia. f_equal. apply IH; auto.
Qed.
