(* C09: chunk iterator.  The chunk grid is enumerated without repetition, every element of the
   dataset lies in the box of exactly one chunk, and the piece returned for a chunk is the
   selection of that box from the full read. *)
From HV Require Import Base.Prelude Model.Hyperslab Proofs.HyperslabBase Proofs.HyperslabValidate
  Proofs.HyperslabDispatch.

Lemma in_all_coords : forall ext x, In x (all_coords ext) <-> Forall2 N.lt x ext.
Proof.
  induction ext as [|d r IH]; intros x; cbn [all_coords].
  - split; [intros [<-|[]]; constructor|]. intros H; inversion H; left; reflexivity.
  - rewrite in_flat_map. split.
    + intros (i & Hi & H). apply in_map_iff in H. destruct H as (y & <- & Hy).
      constructor; [apply in_nrange; assumption|apply IH; assumption].
    + intros H. inversion H as [|i ? y ? Hi Hy]; subst. exists i. split; [apply in_nrange; assumption|].
      apply in_map_iff. exists y. split; [reflexivity|apply IH; assumption].
Qed.

Lemma NoDup_map_cons {A} (i : A) (L : list (list A)) : NoDup L -> NoDup (map (cons i) L).
Proof.
  induction 1 as [|x L Hx _ IH]; cbn [map]; constructor; [|assumption].
  intros H. apply in_map_iff in H. destruct H as (y & [= ->] & Hy). contradiction.
Qed.

Lemma NoDup_app' {A} (l1 l2 : list A) :
  NoDup l1 -> NoDup l2 -> (forall x, In x l1 -> In x l2 -> False) -> NoDup (l1 ++ l2).
Proof.
  induction 1 as [|x l1 Hx _ IH]; intros H2 Hd; cbn [app]; [assumption|].
  constructor.
  - intros H. apply in_app_or in H. destruct H as [H|H]; [contradiction|].
    apply (Hd x); [left; reflexivity|assumption].
  - apply IH; [assumption|]. intros y Hy1 Hy2. apply (Hd y); [right; assumption|assumption].
Qed.

Lemma NoDup_flat_map_cons (idx : list N) (L : list (list N)) :
  NoDup idx -> NoDup L -> NoDup (flat_map (fun i => map (cons i) L) idx).
Proof.
  intros Hi HL. induction Hi as [|i idx Hin _ IH]; cbn [flat_map]; [constructor|].
  apply NoDup_app'; [apply NoDup_map_cons; assumption|assumption|].
  intros x H1 H2. apply in_map_iff in H1. destruct H1 as (y & <- & _).
  apply in_flat_map in H2. destruct H2 as (j & Hj & H2). apply in_map_iff in H2.
  destruct H2 as (z & [= -> _] & _). contradiction.
Qed.

Lemma NoDup_all_coords ext : NoDup (all_coords ext).
Proof.
  induction ext as [|d r IH]; cbn [all_coords].
  - constructor; [intros []|constructor].
  - apply NoDup_flat_map_cons; [apply NoDup_nseq|assumption].
Qed.

(* ---------------------------------------------------------------- boxes *)
(* the coordinates selected by ReadSlice(start,count) *)
Lemma in_slice_coords : forall start count x, length start = length x -> length count = length x ->
  forall o1 o2, length o1 = length x -> length o2 = length x -> Forall (eq 1) o1 -> Forall (eq 1) o2 ->
  (In x (sel_coords (zip4 start count o1 o2))
   <-> Forall2 (fun xi sc => fst sc <= xi < fst sc + snd sc) x (combine start count)).
Proof.
  induction start as [|s0 s IH]; intros [|c0 c] [|x0 x] L1 L2 [|a o1] [|b o2] L3 L4 F1 F2;
    cbn [length] in *; try discriminate; cbn [zip4 combine].
  - split; [intros _; constructor|intros _; left; reflexivity].
  - inversion F1; inversion F2; subst. rewrite in_sel_coords_cons. split.
    + intros (i & y & [= -> ->] & Hi & Hy). constructor.
      * apply in_axis_idx in Hi. cbn [a_start a_count a_stride a_block fst snd] in *.
        destruct Hi as (cc & bb & Hc & Hb & ->). lia.
      * apply (IH c y ltac:(lia) ltac:(lia) o1 o2); try assumption; lia.
    + intros H. inversion H as [|? ? ? ? Hx Hr]; subst. cbn [fst snd] in Hx.
      exists x0, x. split; [reflexivity|]. split.
      * apply in_axis_idx. cbn [a_start a_count a_stride a_block]. exists (x0 - s0), 0. lia.
      * apply (IH c x ltac:(lia) ltac:(lia) o1 o2); try assumption; lia.
Qed.

Definition box_axes (dims cdims cc : list N) : list axis :=
  slice_axes (fst (iter_box dims cdims cc)) (snd (iter_box dims cdims cc)).

Lemma nchunks_spec x d cd : 0 < cd -> x < d -> x / cd < nchunks d cd.
Proof.
  intros Hc Hx. unfold nchunks.
  replace (d + cd - 1) with ((d - 1) + 1 * cd) by lia. rewrite N.div_add by lia.
  assert (x / cd <= (d - 1) / cd) by (apply N.div_le_mono; lia). lia.
Qed.

Lemma nchunks_start cc d cd : 0 < cd -> cc < nchunks d cd -> cc * cd < d.
Proof.
  intros Hc H. unfold nchunks in H.
  destruct (N.ltb_spec (cc * cd) d) as [|Hge]; [assumption|exfalso].
  assert (d + cd - 1 < (cc + 1) * cd) by lia.
  assert ((d + cd - 1) / cd < cc + 1) by (apply N.div_lt_upper_bound; lia). lia.
Qed.

(* x lies in the box of cc  <->  cc = x / cdims (pointwise) *)
Lemma in_box_iff : forall x dims cdims cc,
  length dims = length x -> length cdims = length x -> length cc = length x ->
  Forall (fun c => 0 < c) cdims -> Forall2 N.lt x dims ->
  (Forall2 (fun xi sc => fst sc <= xi < fst sc + snd sc) x
           (combine (fst (iter_box dims cdims cc)) (snd (iter_box dims cdims cc)))
   <-> cc = map2 N.div x cdims).
Proof.
  unfold iter_box. cbn [fst snd].
  induction x as [|x0 x IH]; intros [|d0 d] [|c0 c] [|k0 k] L1 L2 L3 Hc Hx;
    cbn [length] in *; try discriminate; cbn [vmul combine map2].
  - split; [reflexivity|constructor].
  - inversion Hc; inversion Hx; subst. cbn [fst snd].
    specialize (IH d c k ltac:(lia) ltac:(lia) ltac:(lia) ltac:(assumption) ltac:(assumption)).
    split.
    + intros H. inversion H as [|? ? ? ? H0 Hr]; subst. cbn [fst snd] in H0.
      f_equal; [|apply IH; assumption].
      apply (N.div_unique x0 c0 k0 (x0 - k0 * c0)); [|lia].
      destruct (N.ltb_spec d0 (k0 * c0 + c0)); lia.
    + intros [= -> ->]. constructor; [|apply IH; reflexivity]. cbn [fst snd].
      assert (x0 / c0 * c0 <= x0) by (rewrite N.mul_comm; apply N.mul_div_le; lia).
      pose proof (N.mul_succ_div_gt x0 c0 ltac:(lia)).
      destruct (N.ltb_spec d0 (x0 / c0 * c0 + c0)); lia.
Qed.

Lemma own_chunk_in_grid : forall x dims cdims, length cdims = length x ->
  Forall (fun c => 0 < c) cdims -> Forall2 N.lt x dims ->
  In (map2 N.div x cdims) (iter_coords dims cdims).
Proof.
  intros x dims cdims L Hc Hx. unfold iter_coords. apply in_all_coords.
  revert cdims L Hc. induction Hx as [|x0 d0 x d H0 _ IH]; intros [|c0 c] L Hc; cbn [length] in *; try discriminate;
    cbn [map2]; [constructor|].
  inversion Hc; subst. constructor; [apply nchunks_spec; assumption|apply IH; [lia|assumption]].
Qed.

Lemma grid_chunk_box_valid : forall cc dims cdims, length cdims = length dims ->
  Forall (fun c => 0 < c) cdims -> In cc (iter_coords dims cdims) ->
  slice_valid (fst (iter_box dims cdims cc)) (snd (iter_box dims cdims cc)) dims.
Proof.
  intros cc dims cdims L Hc Hin. unfold iter_coords in Hin. apply in_all_coords in Hin.
  unfold iter_box, slice_valid. cbn [fst snd].
  revert cc cdims L Hc Hin. induction dims as [|d0 d IH]; intros cc [|c0 c] L Hc Hin; cbn [length] in *; try discriminate;
    cbn [map2] in Hin; inversion Hin as [|k0 ? k ? Hk0 Hk]; subst; cbn [vmul combine map2 length].
  - repeat split; constructor.
  - inversion Hc; subst.
    destruct (IH k c ltac:(lia) ltac:(assumption) Hk) as (I1 & I2 & I3).
    split; [rewrite I1; reflexivity|]. split; [rewrite I2; reflexivity|].
    constructor; [|assumption]. cbn [fst snd].
    pose proof (nchunks_start k0 d0 c0 ltac:(assumption) Hk0).
    destruct (N.ltb_spec d0 (k0 * c0 + c0)); lia.
Qed.

Lemma prodN_le : forall a b, Forall2 N.le a b -> prodN a <= prodN b.
Proof. induction 1; cbn [prodN]; [lia|nia]. Qed.
Lemma iter_count_le : forall start cdims dims, length start = length cdims -> length dims = length cdims ->
  Forall2 N.le (map2 (fun sc d => if d <? fst sc + snd sc then d - fst sc else snd sc) (combine start cdims) dims) cdims.
Proof.
  induction start as [|s st IH]; intros [|c cd] [|d ds] L1 L2; cbn [length combine map2] in *; try discriminate; [constructor|].
  constructor; [cbn [fst snd]; destruct (N.ltb_spec d (s + c)); lia|apply IH; lia].
Qed.

(* a chunk has at most MaxHyperslabElements elements: Chunk() goes through ReadSlice, which refuses larger requests *)
Theorem chunk_iter_tiles full dims cdims :
  Forall u64 dims -> dims <> [] -> lenN full = prodN dims ->
  length cdims = length dims -> Forall (fun c => 0 < c) cdims -> prodN cdims <= max_hyperslab_elements ->
  (* every chunk of the grid is visited exactly once *)
  NoDup (iter_coords dims cdims) /\
  (* every element of the dataset lies in the box of exactly one visited chunk *)
  (forall x, Forall2 N.lt x dims ->
     exists cc, In cc (iter_coords dims cdims) /\ In x (sel_coords (box_axes dims cdims cc)) /\
                forall cc', In cc' (iter_coords dims cdims) ->
                            In x (sel_coords (box_axes dims cdims cc')) -> cc' = cc) /\
  (* the piece of a visited chunk is the selection of its box from the full read *)
  (forall cc, In cc (iter_coords dims cdims) ->
     iter_piece full dims cdims cc = Some (select full dims (box_axes dims cdims cc))).
Proof.
  intros Ud Hne Hlen L Hc Hmaxc. split; [apply NoDup_all_coords|]. split.
  - intros x Hx. pose proof (Forall2_len _ _ _ Hx) as Lx.
    assert (BX : forall cc, In cc (iter_coords dims cdims) ->
              (In x (sel_coords (box_axes dims cdims cc)) <-> cc = map2 N.div x cdims)).
    { intros cc Hcc.
      assert (Lcc : length cc = length x).
      { unfold iter_coords in Hcc. apply in_all_coords in Hcc. apply Forall2_len in Hcc. rewrite Hcc.
        clear -L Lx. revert cdims x L Lx. induction dims as [|d0 d IH]; intros [|c0 c] [|x0 x] L Lx; cbn [length map2] in *; try discriminate; [reflexivity|].
        rewrite (IH c x) by lia. reflexivity. }
      pose proof (grid_chunk_box_valid cc dims cdims L Hc Hcc) as (B1 & B2 & _).
      unfold box_axes, slice_axes.
      rewrite in_slice_coords; rewrite ?ones_length; try lia; try apply ones_all.
      apply in_box_iff; try lia; assumption. }
    exists (map2 N.div x cdims).
    pose proof (own_chunk_in_grid x dims cdims ltac:(lia) Hc Hx) as Hin.
    split; [assumption|]. split; [apply BX; [assumption|reflexivity]|].
    intros cc' Hcc' Hx'. apply BX; assumption.
  - intros cc Hcc. unfold iter_piece.
    pose proof (grid_chunk_box_valid cc dims cdims L Hc Hcc) as SV.
    destruct (iter_box dims cdims cc) as [start count] eqn:EB. cbn [fst snd] in SV.
    rewrite read_slice_ok; try assumption.
    + unfold box_axes. rewrite EB. reflexivity.
    + split; [assumption|]. split; assumption.
    + destruct SV as (SL1 & _). unfold iter_box in EB. injection EB as Es Ec. rewrite <- Ec.
      eapply N.le_trans; [apply prodN_le, iter_count_le|exact Hmaxc]; [rewrite Es|]; lia.
Qed.
